#!/bin/bash
# tools/verify_seed.sh <dir with patch.diff demo.py meta.json> <name> <prop> [<prop>...]
# Confirms a seeded change in a scratch worktree (suite unchanged, demo fails with / passes without),
# runs the named checks against it in /repo (apply, check, undo) and stores it under seeded/<name>/.
set -u
SRC=$1; NAME=$2; shift 2
V=/verif; OUT=$V/seeded/$NAME; mkdir -p $OUT
cp $SRC/patch.diff $OUT/patch.diff; cp $SRC/demo.py $OUT/demo.py; cp $SRC/meta.json $OUT/agent_meta.json 2>/dev/null
W=$(mktemp -d /tmp/vseed.XXXX); rmdir $W
git -C /repo worktree add -q --detach $W HEAD || exit 2
cp $OUT/demo.py $W/demo.py
sed -i "s#/tmp/wt[0-9]*_[A-Za-z0-9_]*#$W#g" $W/demo.py
( cd $W && PYTHONPATH=$W /venv/bin/python demo.py >/dev/null 2>&1 ); DEMO_CLEAN=$?
( cd $W && git apply $OUT/patch.diff ) || { echo "patch does not apply"; git -C /repo worktree remove --force $W; exit 2; }
( cd $W && PYTHONPATH=$W /venv/bin/python demo.py >$W/demo.out 2>&1 ); DEMO_MUT=$?
SUITE=$( cd $W && PYTHONPATH=$W /venv/bin/python -m pytest -q -p no:cacheprovider tests 2>&1 | tail -1 )
DEMOMSG=$(head -c 600 $W/demo.out)
git -C /repo worktree remove --force $W
echo "suite with change: $SUITE"; echo "demo clean exit=$DEMO_CLEAN, with change exit=$DEMO_MUT"
RES=""
git -C /repo diff --quiet || { echo "/repo not clean"; exit 2; }
EVB=$(mktemp -d /tmp/evbak.XXXX); cp -r $V/evidence/. $EVB/
git -C /repo apply $OUT/patch.diff || exit 2
for P in "$@"; do
  O=$( cd $V && ./check $P 2>&1 | grep -E "^(VIOLATION|KNOWN-FINDING|C[0-9]+ tier|INFRA)" | head -8 ); RC=$?
  echo "--- $P"; echo "$O"
  RES="$RES\n[$P]\n$O"
done
git -C /repo checkout -- .
# evidence written while the change was applied does not describe /repo: put the previous files back
rm -rf $V/evidence; mkdir -p $V/evidence; cp -r $EVB/. $V/evidence/; rm -rf $EVB
git -C /repo diff --quiet || echo "WARNING /repo not clean after undo"
/venv/bin/python - "$OUT" "$NAME" "$SUITE" "$DEMO_CLEAN" "$DEMO_MUT" "$DEMOMSG" "$(echo -e "$RES")" "$*" <<'PY'
import json, sys, os
out, name, suite, dc, dm, msg, res, props = sys.argv[1:9]
am = {}
p = os.path.join(out, "agent_meta.json")
if os.path.exists(p):
    try: am = json.load(open(p))
    except Exception: am = {"raw": open(p).read()[:2000]}
    os.remove(p)
meta = {
  "name": name,
  "property_broken": am.get("property"),
  "description": am.get("description"),
  "needs_to_manifest": am.get("needs_to_manifest"),
  "confirmed": {
     "suite_with_change": suite,
     "demo_exit_without_change": int(dc), "demo_exit_with_change": int(dm),
     "demo_message_with_change": msg,
     "how": "fresh scratch worktree of /repo HEAD under /tmp: demo.py run, patch applied with git apply, demo.py and the test suite run with PYTHONPATH=<worktree>, worktree removed",
  },
  "checks_run": props.split(),
  "check_output_with_change_applied_to_repo": res.strip().split("\n"),
}
json.dump(meta, open(os.path.join(out, "meta.json"), "w"), indent=1)
PY
