/-
The working copy seen as tables: for every node id its payload, the ids of its children (in order) and its
parent.  Effect of the four tree operations of script generation (`modify`, `insertChild`, `remove`, and the
move = `remove` then `insertChild`) on these tables, for trees with distinct ids.
-/
import XmlDiffModel.Proofs.Tree
import XmlDiffModel.Proofs.Replay

namespace XmlDiffModel
namespace Tree

/-- ids of the children of node `p` (empty if there is no such node) -/
def kidIds (t : Tree) (p : Nat) : List Nat :=
  match find p t with
  | some n => n.kids.map Tree.id
  | none => []

/-- payload of node `i` -/
def payOf (t : Tree) (i : Nat) : Option Payload := (find i t).map Tree.payload

theorem mem_ids_iff_find (i : Nat) (t : Tree) : i ∈ ids t ↔ ∃ n, find i t = some n := by
  constructor
  · exact find_some_of_mem i t
  · intro ⟨n, hn⟩
    have := (find_ids_sublist i t n hn).subset (id_mem_ids n)
    rwa [find_id i t n hn] at this

theorem find_isSome_of_mem (i : Nat) (t : Tree) (h : i ∈ ids t) : (find i t).isSome = true := by
  obtain ⟨n, hn⟩ := find_some_of_mem i t h
  simp [hn]

/-! ### a node found in a tree with distinct ids -/

theorem nodup_sub {t n : Tree} {i : Nat} (hn : (ids t).Nodup) (hf : find i t = some n) : (ids n).Nodup :=
  (find_ids_sublist i t n hf).nodup hn

theorem idsL_of_mem (ks : List Tree) : ∀ k ∈ ks, ∀ x ∈ ids k, x ∈ idsL ks := by
  intro k hk x hx
  induction ks with
  | nil => cases hk
  | cons a rest ih =>
    simp only [idsL, List.mem_append]
    rcases List.mem_cons.mp hk with h | h
    · subst h; exact Or.inl hx
    · exact Or.inr (ih h)

mutual
  /-- in a tree with distinct ids, looking up the id of any subtree node returns that node -/
  theorem find_of_sub (t : Tree) (hn : (ids t).Nodup) (i : Nat) (n : Tree) (hf : find i t = some n)
      (k : Tree) (hk : k ∈ n.kids) : find k.id t = some k := by
    match t with
    | node j p ks =>
      unfold find at hf
      split at hf
      · injection hf with hf
        subst hf
        have hkj : j ≠ k.id := by
          intro e
          simp only [ids, List.nodup_cons] at hn
          exact hn.1 (e ▸ mem_idsL_of_mem k ks hk)
        unfold find
        rw [if_neg hkj]
        simp only [ids, List.nodup_cons] at hn
        exact findL_of_mem ks hn.2 k hk
      · next hji =>
        have hkin : k.id ∈ idsL ks := by
          have h1 := findL_sub i ks n hf
          exact h1 _ (by rw [ids_eq]; exact List.mem_cons_of_mem _ (mem_idsL_of_mem k n.kids hk))
        have hkj : j ≠ k.id := by
          intro e
          simp only [ids, List.nodup_cons] at hn
          exact hn.1 (e ▸ hkin)
        unfold find
        rw [if_neg hkj]
        simp only [ids, List.nodup_cons] at hn
        exact findL_of_sub ks hn.2 i n hf k hk
  theorem findL_of_sub (ts : List Tree) (hn : (idsL ts).Nodup) (i : Nat) (n : Tree) (hf : findL i ts = some n)
      (k : Tree) (hk : k ∈ n.kids) : findL k.id ts = some k := by
    match ts with
    | [] => simp [findL] at hf
    | t :: rest =>
      simp only [idsL, List.nodup_append] at hn
      obtain ⟨h1, h2, h3⟩ := hn
      unfold findL at hf ⊢
      cases hft : find i t with
      | some r =>
        rw [hft] at hf
        injection hf with hf
        subst hf
        rw [find_of_sub t h1 i r hft k hk]
      | none =>
        rw [hft] at hf
        simp only at hf
        have hin : k.id ∈ idsL rest := by
          have := findL_sub i rest n hf
          exact this _ (by rw [ids_eq]; exact List.mem_cons_of_mem _ (mem_idsL_of_mem k n.kids hk))
        have hnot : k.id ∉ ids t := fun hm => h3 _ hm _ hin rfl
        rw [find_none k.id t hnot]
        exact findL_of_sub rest h2 i n hf k hk
  /-- a top-level tree of a forest with distinct ids is found under its id -/
  theorem findL_of_mem (ts : List Tree) (hn : (idsL ts).Nodup) (k : Tree) (hk : k ∈ ts) :
      findL k.id ts = some k := by
    match ts with
    | [] => cases hk
    | t :: rest =>
      simp only [idsL, List.nodup_append] at hn
      obtain ⟨h1, h2, h3⟩ := hn
      unfold findL
      rcases List.mem_cons.mp hk with h | h
      · subst h; rw [find_self]
      · have hin : k.id ∈ idsL rest := mem_idsL_of_mem k rest h
        have hnot : k.id ∉ ids t := fun hm => h3 _ hm _ hin rfl
        rw [find_none k.id t hnot]
        exact findL_of_mem rest h2 k h
end

/-! ### modify -/

mutual
  theorem find_modify_gen (i j : Nat) (f : Payload → Payload) (t : Tree) (hn : (ids t).Nodup) :
      find j (modify i f t) = (find j t).map (modify i f) := by
    match t with
    | node k p ks =>
      simp only [ids, List.nodup_cons] at hn
      unfold modify
      split
      · next hki =>
        subst hki
        unfold find
        split
        · simp [modify]
        · -- the kids do not contain `k`
          cases hf : findL j ks with
          | none => rfl
          | some n =>
            have : k ∉ ids n := fun hm => hn.1 (findL_sub j ks n hf _ hm)
            simp [modify_not_mem k f n this]
      · next hki =>
        unfold find
        split
        · next hkj => simp [modify, hki]
        · exact findL_modifyL_gen i j f ks hn.2
  theorem findL_modifyL_gen (i j : Nat) (f : Payload → Payload) (ts : List Tree) (hn : (idsL ts).Nodup) :
      findL j (modifyL i f ts) = (findL j ts).map (modify i f) := by
    match ts with
    | [] => simp [modifyL, findL]
    | t :: rest =>
      simp only [idsL, List.nodup_append] at hn
      simp only [modifyL, findL]
      rw [find_modify_gen i j f t hn.1, findL_modifyL_gen i j f rest hn.2.1]
      cases find j t <;> simp
end

theorem kids_ids_modify (i : Nat) (f : Payload → Payload) (n : Tree) :
    (modify i f n).kids.map Tree.id = n.kids.map Tree.id := by
  cases n with
  | node k p ks =>
    unfold modify
    split
    · rfl
    · simp only [kids]
      induction ks with
      | nil => rfl
      | cons a rest ih => simp [modifyL, id_modify, ih]

theorem kidIds_modify (i : Nat) (f : Payload → Payload) (t : Tree) (hn : (ids t).Nodup) (p : Nat) :
    kidIds (modify i f t) p = kidIds t p := by
  unfold kidIds
  rw [find_modify_gen i p f t hn]
  cases find p t with
  | none => rfl
  | some n => simp [kids_ids_modify]

theorem payload_modify_root (i : Nat) (f : Payload → Payload) (n : Tree) :
    (modify i f n).payload = if n.id = i then f n.payload else n.payload := by
  cases n with
  | node k p ks =>
    unfold modify
    split <;> simp_all [payload, Tree.id]

theorem payOf_modify (i : Nat) (f : Payload → Payload) (t : Tree) (hn : (ids t).Nodup) (j : Nat) :
    payOf (modify i f t) j = if j = i then (payOf t j).map f else payOf t j := by
  unfold payOf
  rw [find_modify_gen i j f t hn]
  cases hf : find j t with
  | none => simp
  | some n =>
    have := find_id j t n hf
    simp only [Option.map_some, payload_modify_root, this]
    split <;> rfl

/-! ### insertChild -/

theorem insertAt_nil {α} (pos : Nat) (x : α) : insertAt [] pos x = [x] := by simp [insertAt]
theorem insertAt_zero {α} (l : List α) (x : α) : insertAt l 0 x = x :: l := by simp [insertAt]
theorem insertAt_succ {α} (a : α) (l : List α) (pos : Nat) (x : α) :
    insertAt (a :: l) (pos + 1) x = a :: insertAt l pos x := by simp [insertAt]

theorem findL_insertAt_other (j : Nat) (sub : Tree) (hj : j ∉ ids sub) (ks : List Tree) (pos : Nat) :
    findL j (insertAt ks pos sub) = findL j ks := by
  induction ks generalizing pos with
  | nil => rw [insertAt_nil]; simp [findL, find_none j sub hj]
  | cons a rest ih =>
    cases pos with
    | zero => rw [insertAt_zero]; simp [findL, find_none j sub hj]
    | succ q => rw [insertAt_succ]; simp only [findL, ih q]

theorem findL_insertAt_new (j : Nat) (sub : Tree) (ks : List Tree) (hj : j ∉ idsL ks) (pos : Nat) :
    findL j (insertAt ks pos sub) = find j sub := by
  induction ks generalizing pos with
  | nil => rw [insertAt_nil]; simp [findL]; cases find j sub <;> rfl
  | cons a rest ih =>
    simp only [idsL, List.mem_append, not_or] at hj
    cases pos with
    | zero =>
      rw [insertAt_zero]
      simp only [findL]
      cases hf : find j sub with
      | some r => rfl
      | none => simp only [find_none j a hj.1, findL_none j rest hj.2]
    | succ q =>
      rw [insertAt_succ]
      simp only [findL, find_none j a hj.1, ih hj.2 q]

mutual
  /-- nodes of the old tree are found as before, with the insertion applied inside them -/
  theorem find_insertChild_old (tgt pos j : Nat) (sub t : Tree) (hn : (ids t).Nodup) (hj : j ∉ ids sub) :
      find j (insertChild tgt pos sub t) = (find j t).map (insertChild tgt pos sub) := by
    match t with
    | node k p ks =>
      simp only [ids, List.nodup_cons] at hn
      unfold insertChild
      split
      · next hk =>
        subst hk
        unfold find
        split
        · simp [insertChild]
        · rw [findL_insertAt_other j sub hj]
          cases hf : findL j ks with
          | none => rfl
          | some n =>
            have : k ∉ ids n := fun hm => hn.1 (findL_sub j ks n hf _ hm)
            simp [insertChild_not_mem k pos sub n this]
      · next hk =>
        unfold find
        split
        · simp [insertChild, hk]
        · exact findL_insertChildL_old tgt pos j sub ks hn.2 hj
  theorem findL_insertChildL_old (tgt pos j : Nat) (sub : Tree) (ts : List Tree) (hn : (idsL ts).Nodup)
      (hj : j ∉ ids sub) :
      findL j (insertChildL tgt pos sub ts) = (findL j ts).map (insertChild tgt pos sub) := by
    match ts with
    | [] => simp [insertChildL, findL]
    | t :: rest =>
      simp only [idsL, List.nodup_append] at hn
      simp only [insertChildL, findL]
      rw [find_insertChild_old tgt pos j sub t hn.1 hj, findL_insertChildL_old tgt pos j sub rest hn.2.1 hj]
      cases find j t <;> simp
end

mutual
  /-- nodes of the inserted subtree are found inside it, if the target exists -/
  theorem find_insertChild_new (tgt pos j : Nat) (sub t : Tree) (ht : tgt ∈ ids t) (hj : j ∉ ids t) :
      find j (insertChild tgt pos sub t) = find j sub := by
    match t with
    | node k p ks =>
      simp only [ids, List.mem_cons, not_or] at hj
      unfold insertChild
      generalize hR : find j sub = R
      split
      · unfold find
        rw [if_neg (fun e => hj.1 e.symm), ← hR]
        exact findL_insertAt_new j sub ks hj.2 pos
      · next hk =>
        unfold find
        rw [if_neg (fun e => hj.1 e.symm), ← hR]
        simp only [ids, List.mem_cons] at ht
        rcases ht with ht | ht
        · exact absurd ht.symm hk
        · exact findL_insertChildL_new tgt pos j sub ks ht hj.2
  theorem findL_insertChildL_new (tgt pos j : Nat) (sub : Tree) (ts : List Tree) (ht : tgt ∈ idsL ts)
      (hj : j ∉ idsL ts) : findL j (insertChildL tgt pos sub ts) = find j sub := by
    match ts with
    | [] => simp [idsL] at ht
    | t :: rest =>
      simp only [idsL, List.mem_append, not_or] at hj ht
      simp only [insertChildL, findL]
      by_cases h1 : tgt ∈ ids t
      · rw [find_insertChild_new tgt pos j sub t h1 hj.1]
        cases hf : find j sub with
        | some r => rfl
        | none =>
          simp only
          -- the rest of the forest does not contain `j` either
          have : findL j (insertChildL tgt pos sub rest) = none := by
            by_cases h2 : tgt ∈ idsL rest
            · rw [findL_insertChildL_new tgt pos j sub rest h2 hj.2, hf]
            · rw [insertChildL_not_mem tgt pos sub rest h2, findL_none j rest hj.2]
          exact this
      · have h2 : tgt ∈ idsL rest := by
          rcases ht with ht | ht
          · exact absurd ht h1
          · exact ht
        rw [insertChild_not_mem tgt pos sub t h1, find_none j t hj.1]
        exact findL_insertChildL_new tgt pos j sub rest h2 hj.2
end

theorem kids_ids_insertChild (tgt pos : Nat) (sub n : Tree) :
    (insertChild tgt pos sub n).kids.map Tree.id =
      if n.id = tgt then insertAt (n.kids.map Tree.id) pos sub.id else n.kids.map Tree.id := by
  cases n with
  | node k p ks =>
    unfold insertChild
    split
    · next h =>
      simp only [kids, Tree.id, h, if_true]
      cases sub with
      | node si sp sk => simp [insertAt, List.map_take, List.map_drop, Tree.id]
    · next h =>
      simp only [kids, Tree.id, h, if_false]
      induction ks with
      | nil => rfl
      | cons a rest ih => simp [insertChildL, id_insertChild, ih]

/-- children tables after an insertion, for the nodes of the old tree -/
theorem kidIds_insertChild_old (tgt pos : Nat) (sub t : Tree) (hn : (ids t).Nodup) (p : Nat) (hp : p ∉ ids sub) :
    kidIds (insertChild tgt pos sub t) p =
      if p = tgt ∧ tgt ∈ ids t then insertAt (kidIds t p) pos sub.id else kidIds t p := by
  unfold kidIds
  rw [find_insertChild_old tgt pos p sub t hn hp]
  cases hf : find p t with
  | none =>
    have : p ∉ ids t := fun hm => by
      obtain ⟨n, hn'⟩ := find_some_of_mem p t hm
      rw [hf] at hn'; cases hn'
    by_cases h : p = tgt
    · subst h; simp [this]
    · simp [h]
  | some n =>
    have hid := find_id p t n hf
    have hin : p ∈ ids t := (mem_ids_iff_find p t).mpr ⟨n, hf⟩
    simp only [Option.map_some, kids_ids_insertChild, hid]
    by_cases h : p = tgt
    · subst h; simp [hin]
    · simp [h]

theorem kidIds_insertChild_new (tgt pos : Nat) (sub t : Tree) (ht : tgt ∈ ids t) (p : Nat) (hp : p ∉ ids t) :
    kidIds (insertChild tgt pos sub t) p = kidIds sub p := by
  unfold kidIds
  rw [find_insertChild_new tgt pos p sub t ht hp]

theorem payload_insertChild_root (tgt pos : Nat) (sub n : Tree) : (insertChild tgt pos sub n).payload = n.payload := by
  cases n with
  | node k p ks => unfold insertChild; split <;> rfl

theorem payOf_insertChild_old (tgt pos : Nat) (sub t : Tree) (hn : (ids t).Nodup) (j : Nat) (hj : j ∉ ids sub) :
    payOf (insertChild tgt pos sub t) j = payOf t j := by
  unfold payOf
  rw [find_insertChild_old tgt pos j sub t hn hj]
  cases find j t <;> simp [payload_insertChild_root]

theorem payOf_insertChild_new (tgt pos : Nat) (sub t : Tree) (ht : tgt ∈ ids t) (j : Nat) (hj : j ∉ ids t) :
    payOf (insertChild tgt pos sub t) j = payOf sub j := by
  unfold payOf
  rw [find_insertChild_new tgt pos j sub t ht hj]

/-! ### remove -/

theorem findL_cons (j : Nat) (t : Tree) (ts : List Tree) :
    findL j (t :: ts) = match find j t with
      | some r => some r
      | none => findL j ts := rfl

theorem find_remove_gone (i j : Nat) (t sub : Tree) (hn : (ids t).Nodup) (hf : find i t = some sub)
    (hr : t.id ≠ i) (hj : j ∈ ids sub) : find j (remove i t) = none := by
  have hp := ids_remove_perm i t sub hn hf hr
  have hn' := hp.nodup_iff.1 hn
  rw [List.nodup_append] at hn'
  exact find_none j _ (fun hm => hn'.2.2 j hm j hj rfl)

mutual
  theorem find_remove_other (i j : Nat) (t : Tree) (hn : (ids t).Nodup) (hr : t.id ≠ i)
      (hj : ∀ sub, find i t = some sub → j ∉ ids sub) :
      find j (remove i t) = (find j t).map (remove i) := by
    match t with
    | node k p ks =>
      simp only [ids, List.nodup_cons] at hn
      simp only [Tree.id] at hr
      have hj' : ∀ sub, findL i ks = some sub → j ∉ ids sub := by
        intro sub hs
        apply hj sub
        unfold find
        rw [if_neg hr]; exact hs
      unfold remove
      unfold find
      split
      · simp [remove]
      · exact findL_removeL_other i j ks hn.2 hj'
  theorem findL_removeL_other (i j : Nat) (ts : List Tree) (hn : (idsL ts).Nodup)
      (hj : ∀ sub, findL i ts = some sub → j ∉ ids sub) :
      findL j (removeL i ts) = (findL j ts).map (remove i) := by
    match ts with
    | [] => simp [removeL, findL]
    | t :: rest =>
      simp only [idsL, List.nodup_append] at hn
      obtain ⟨h1, h2, h3⟩ := hn
      unfold removeL
      split
      · next hti =>
        -- the head is the removed subtree
        have hjt : j ∉ ids t := hj t (by rw [findL_cons, ← hti, find_self])
        rw [findL_cons, find_none j t hjt]
        simp only
        cases hf : findL j rest with
        | none => rfl
        | some n =>
          have : i ∉ ids n := by
            intro hm
            have h4 := findL_sub j rest n hf i hm
            exact h3 i (hti ▸ id_mem_ids t) i h4 rfl
          simp [remove_not_mem i n this]
      · next hti =>
        simp only [findL]
        by_cases hit : i ∈ ids t
        · obtain ⟨sub, hs⟩ := find_some_of_mem i t hit
          have hj1 : ∀ sub', find i t = some sub' → j ∉ ids sub' := by
            intro sub' hs'
            apply hj sub'
            rw [findL_cons, hs']
          rw [find_remove_other i j t h1 hti hj1]
          have hirest : i ∉ idsL rest := fun hm => h3 i hit i hm rfl
          rw [removeL_not_mem i rest hirest]
          cases hft : find j t with
          | some r => rfl
          | none =>
            simp only [Option.map_none]
            cases hf : findL j rest with
            | none => rfl
            | some n =>
              have : i ∉ ids n := fun hm => hirest (findL_sub j rest n hf i hm)
              simp [remove_not_mem i n this]
        · rw [remove_not_mem i t hit]
          have hj2 : ∀ sub', findL i rest = some sub' → j ∉ ids sub' := by
            intro sub' hs'
            apply hj sub'
            rw [findL_cons, find_none i t hit]; exact hs'
          rw [findL_removeL_other i j rest h2 hj2]
          cases hft : find j t with
          | some r =>
            have : i ∉ ids r := fun hm => hit ((find_ids_sublist j t r hft).subset hm)
            simp [remove_not_mem i r this]
          | none => rfl
end

theorem kids_ids_remove (i : Nat) (n : Tree) : (remove i n).kids.map Tree.id = (n.kids.map Tree.id).erase i := by
  cases n with
  | node k p ks =>
    simp only [remove, kids]
    induction ks with
    | nil => rfl
    | cons a rest ih =>
      unfold removeL
      split
      · next h => simp [h]
      · next h =>
        simp only [List.map_cons, id_remove]
        rw [List.erase_cons_tail (by simpa using h), ih]

theorem payload_remove_root (i : Nat) (n : Tree) : (remove i n).payload = n.payload := by
  cases n with
  | node k p ks => rfl

/-- tables after detaching the subtree `sub` found under `i` -/
theorem kidIds_remove (i : Nat) (t sub : Tree) (hn : (ids t).Nodup) (hf : find i t = some sub) (hr : t.id ≠ i)
    (p : Nat) (hp : p ∉ ids sub) : kidIds (remove i t) p = (kidIds t p).erase i := by
  unfold kidIds
  rw [find_remove_other i p t hn hr (fun s hs => by rw [hf] at hs; injection hs with hs; subst hs; exact hp)]
  cases find p t with
  | none => rfl
  | some n => simp [kids_ids_remove]

theorem kidIds_remove_gone (i : Nat) (t sub : Tree) (hn : (ids t).Nodup) (hf : find i t = some sub) (hr : t.id ≠ i)
    (p : Nat) (hp : p ∈ ids sub) : kidIds (remove i t) p = [] := by
  unfold kidIds
  rw [find_remove_gone i p t sub hn hf hr hp]

theorem payOf_remove (i : Nat) (t sub : Tree) (hn : (ids t).Nodup) (hf : find i t = some sub) (hr : t.id ≠ i)
    (j : Nat) (hj : j ∉ ids sub) : payOf (remove i t) j = payOf t j := by
  unfold payOf
  rw [find_remove_other i j t hn hr (fun s hs => by rw [hf] at hs; injection hs with hs; subst hs; exact hj)]
  cases find j t <;> simp [payload_remove_root]

theorem payOf_remove_gone (i : Nat) (t sub : Tree) (hn : (ids t).Nodup) (hf : find i t = some sub) (hr : t.id ≠ i)
    (j : Nat) (hj : j ∈ ids sub) : payOf (remove i t) j = none := by
  unfold payOf
  rw [find_remove_gone i j t sub hn hf hr hj]; rfl

/-! ### parentOf -/

/-- id of the parent of node `i` -/
def parId (t : Tree) (i : Nat) : Option Nat := (parentOf i t).map Tree.id

theorem kid_id_mem (n : Tree) (i : Nat) (h : i ∈ n.kids.map Tree.id) : i ∈ idsL n.kids := by
  obtain ⟨k, hk, hid⟩ := List.mem_map.mp h
  rw [← hid]; exact mem_idsL_of_mem k n.kids hk

mutual
  /-- `parentOf` returns a node of the tree (found under its own id) that has `i` among its children -/
  theorem parentOf_spec (i : Nat) (t n : Tree) (hn : (ids t).Nodup) (h : parentOf i t = some n) :
      i ∈ n.kids.map Tree.id ∧ find n.id t = some n := by
    match t with
    | node j q ks =>
      unfold parentOf at h
      split at h
      · next hany =>
        injection h with h
        subst h
        simp only [List.any_eq_true, beq_iff_eq] at hany
        obtain ⟨k, hk, hid⟩ := hany
        exact ⟨List.mem_map.mpr ⟨k, hk, hid⟩, find_self _⟩
      · simp only [ids, List.nodup_cons] at hn
        have := parentOfL_spec i ks n hn.2 h
        refine ⟨this.1, ?_⟩
        have hin : n.id ∈ idsL ks := findL_sub n.id ks n this.2 _ (id_mem_ids n)
        unfold find
        rw [if_neg (fun (e : j = n.id) => hn.1 (e ▸ hin))]
        exact this.2
  theorem parentOfL_spec (i : Nat) (ts : List Tree) (n : Tree) (hn : (idsL ts).Nodup) (h : parentOfL i ts = some n) :
      i ∈ n.kids.map Tree.id ∧ findL n.id ts = some n := by
    match ts with
    | [] => simp [parentOfL] at h
    | t :: rest =>
      simp only [idsL, List.nodup_append] at hn
      obtain ⟨h1, h2, h3⟩ := hn
      unfold parentOfL at h
      split at h
      · next r hr =>
        injection h with h
        subst h
        have := parentOf_spec i t r h1 hr
        exact ⟨this.1, by rw [findL_cons, this.2]⟩
      · next hnone =>
        have := parentOfL_spec i rest n h2 h
        refine ⟨this.1, ?_⟩
        have hin : n.id ∈ idsL rest := findL_sub n.id rest n this.2 _ (id_mem_ids n)
        rw [findL_cons, find_none n.id t (fun hm => h3 _ hm _ hin rfl)]
        exact this.2
end

/-- a child id of a node found in `t` lies strictly below the root of `t` -/
theorem kid_below (p i : Nat) (t n : Tree) (hf : find p t = some n) (hi : i ∈ n.kids.map Tree.id) :
    i ∈ idsL t.kids :=
  find_kids_desc p t n hf i (kid_id_mem n i hi)

/-- no top-level tree of a forest with distinct ids carries the id of a child of a node found in the forest -/
theorem top_ne_kid (ts : List Tree) (hn : (idsL ts).Nodup) (p i : Nat) (n : Tree) (hf : findL p ts = some n)
    (hi : i ∈ n.kids.map Tree.id) : ∀ c ∈ ts, c.id ≠ i := by
  induction ts with
  | nil => simp [findL] at hf
  | cons t rest ih =>
    simp only [idsL, List.nodup_append] at hn
    obtain ⟨h1, h2, h3⟩ := hn
    rw [findL_cons] at hf
    intro c hc
    cases hft : find p t with
    | some r =>
      rw [hft] at hf
      injection hf with hf
      subst hf
      have hin : i ∈ idsL t.kids := kid_below p i t r hft hi
      rcases List.mem_cons.mp hc with h | h
      · subst h; exact root_ne_of_desc c i h1 hin
      · intro e
        have h5 : i ∈ ids t := by rw [ids_eq]; exact List.mem_cons_of_mem _ hin
        exact h3 i h5 i (e ▸ mem_idsL_of_mem c rest h) rfl
    | none =>
      rw [hft] at hf
      simp only at hf
      rcases List.mem_cons.mp hc with h | h
      · subst h
        intro e
        have h5 : i ∈ idsL rest := findL_sub p rest n hf i (by
          rw [ids_eq]; exact List.mem_cons_of_mem _ (kid_id_mem n i hi))
        exact h3 i (e ▸ id_mem_ids c) i h5 rfl
      · exact ih h2 hf c h

mutual
  /-- the node that has `i` among its children is what `parentOf i` returns -/
  theorem parentOf_of_kid (p i : Nat) (t n : Tree) (hn : (ids t).Nodup) (hf : find p t = some n)
      (hi : i ∈ n.kids.map Tree.id) : parentOf i t = some n := by
    match t with
    | node j q ks =>
      simp only [ids, List.nodup_cons] at hn
      unfold find at hf
      unfold parentOf
      split at hf
      · injection hf with hf
        subst hf
        have : (ks.any fun k => k.id == i) = true := by
          simp only [List.any_eq_true, beq_iff_eq]
          obtain ⟨k, hk, hid⟩ := List.mem_map.mp hi
          exact ⟨k, hk, hid⟩
        rw [if_pos this]
      · have hno : (ks.any fun k => k.id == i) = false := by
          rw [List.any_eq_false]
          intro c hc
          simpa using top_ne_kid ks hn.2 p i n hf hi c hc
        rw [hno]
        simp only [Bool.false_eq_true, if_false]
        exact parentOfL_of_kid p i ks n hn.2 hf hi
  theorem parentOfL_of_kid (p i : Nat) (ts : List Tree) (n : Tree) (hn : (idsL ts).Nodup)
      (hf : findL p ts = some n) (hi : i ∈ n.kids.map Tree.id) : parentOfL i ts = some n := by
    match ts with
    | [] => simp [findL] at hf
    | t :: rest =>
      simp only [idsL, List.nodup_append] at hn
      obtain ⟨h1, h2, h3⟩ := hn
      rw [findL_cons] at hf
      unfold parentOfL
      cases hft : find p t with
      | some r =>
        rw [hft] at hf
        injection hf with hf
        subst hf
        rw [parentOf_of_kid p i t r h1 hft hi]
      | none =>
        rw [hft] at hf
        simp only at hf
        have hin : i ∈ idsL rest := findL_sub p rest n hf i (by
          rw [ids_eq]; exact List.mem_cons_of_mem _ (kid_id_mem n i hi))
        have hnone : parentOf i t = none := by
          cases hpt : parentOf i t with
          | none => rfl
          | some m =>
            exfalso
            have h5 : i ∈ ids t := by rw [ids_eq]; exact List.mem_cons_of_mem _ (parentOf_desc i t m hpt)
            exact h3 i h5 i hin rfl
        rw [hnone]
        exact parentOfL_of_kid p i rest n h2 hf hi
end

/-- the parent table agrees with the children table -/
theorem parId_iff (t : Tree) (hn : (ids t).Nodup) (i p : Nat) : parId t i = some p ↔ i ∈ kidIds t p := by
  unfold parId kidIds
  constructor
  · intro h
    cases hp : parentOf i t with
    | none => rw [hp] at h; cases h
    | some n =>
      rw [hp] at h
      simp only [Option.map_some, Option.some.injEq] at h
      obtain ⟨h1, h2⟩ := parentOf_spec i t n hn hp
      rw [← h, h2]; exact h1
  · intro h
    cases hf : find p t with
    | none => rw [hf] at h; cases h
    | some n =>
      rw [hf] at h
      simp only at h
      rw [parentOf_of_kid p i t n hn hf h]
      simp [find_id p t n hf]

theorem kidIds_sub (t : Tree) (p i : Nat) (h : i ∈ kidIds t p) : i ∈ ids t ∧ p ∈ ids t := by
  unfold kidIds at h
  cases hf : find p t with
  | none => rw [hf] at h; cases h
  | some n =>
    rw [hf] at h
    simp only at h
    refine ⟨?_, (mem_ids_iff_find p t).mpr ⟨n, hf⟩⟩
    exact (find_ids_sublist p t n hf).subset (by rw [ids_eq]; exact List.mem_cons_of_mem _ (kid_id_mem n i h))

/-! ### looking inside a found subtree; membership after the operations -/

mutual
  theorem find_find (i p : Nat) (t sub : Tree) (hn : (ids t).Nodup) (hf : find i t = some sub) (hp : p ∈ ids sub) :
      find p t = find p sub := by
    match t with
    | node k q ks =>
      simp only [ids, List.nodup_cons] at hn
      unfold find at hf
      split at hf
      · injection hf with hf; subst hf; rfl
      · have hin : p ∈ idsL ks := findL_sub i ks sub hf p hp
        have hkp : k ≠ p := fun e => hn.1 (e ▸ hin)
        generalize hR : find p sub = R
        unfold find
        rw [if_neg hkp, ← hR]
        exact findL_find i p ks sub hn.2 hf hp
  theorem findL_find (i p : Nat) (ts : List Tree) (sub : Tree) (hn : (idsL ts).Nodup) (hf : findL i ts = some sub)
      (hp : p ∈ ids sub) : findL p ts = find p sub := by
    match ts with
    | [] => simp [findL] at hf
    | t :: rest =>
      simp only [idsL, List.nodup_append] at hn
      obtain ⟨h1, h2, h3⟩ := hn
      rw [findL_cons] at hf
      rw [findL_cons]
      cases hft : find i t with
      | some r =>
        rw [hft] at hf
        injection hf with hf
        subst hf
        rw [find_find i p t r h1 hft hp]
        obtain ⟨m, hm⟩ := find_some_of_mem p r hp
        rw [hm]
      | none =>
        rw [hft] at hf
        simp only at hf
        have hin : p ∈ idsL rest := findL_sub i rest sub hf p hp
        rw [find_none p t (fun hm => h3 p hm p hin rfl)]
        exact findL_find i p rest sub h2 hf hp
end

theorem kidIds_of_sub (i p : Nat) (t sub : Tree) (hn : (ids t).Nodup) (hf : find i t = some sub) (hp : p ∈ ids sub) :
    kidIds t p = kidIds sub p := by
  unfold kidIds; rw [find_find i p t sub hn hf hp]

theorem payOf_of_sub (i p : Nat) (t sub : Tree) (hn : (ids t).Nodup) (hf : find i t = some sub) (hp : p ∈ ids sub) :
    payOf t p = payOf sub p := by
  unfold payOf; rw [find_find i p t sub hn hf hp]

theorem mem_ids_remove (i : Nat) (t sub : Tree) (hn : (ids t).Nodup) (hf : find i t = some sub) (hr : t.id ≠ i)
    (x : Nat) : x ∈ ids (remove i t) ↔ x ∈ ids t ∧ x ∉ ids sub := by
  have hp := ids_remove_perm i t sub hn hf hr
  have hn' := hp.nodup_iff.1 hn
  rw [List.nodup_append] at hn'
  constructor
  · intro h
    exact ⟨hp.mem_iff.2 (List.mem_append_left _ h), fun hs => hn'.2.2 x h x hs rfl⟩
  · intro ⟨h1, h2⟩
    rcases List.mem_append.mp (hp.mem_iff.1 h1) with h | h
    · exact h
    · exact absurd h h2

theorem mem_ids_insertChild_iff (tgt pos : Nat) (sub t : Tree) (hn : (ids t).Nodup) (ht : tgt ∈ ids t)
    (hd : ∀ x ∈ ids sub, x ∉ ids t) (x : Nat) :
    x ∈ ids (insertChild tgt pos sub t) ↔ x ∈ ids t ∨ x ∈ ids sub := by
  constructor
  · exact mem_ids_insertChild tgt pos sub t x
  · intro h
    rw [mem_ids_iff_find]
    by_cases hs : x ∈ ids sub
    · rw [find_insertChild_new tgt pos x sub t ht (hd x hs)]
      exact find_some_of_mem x sub hs
    · rcases h with h | h
      · rw [find_insertChild_old tgt pos x sub t hn hs]
        obtain ⟨n, hn'⟩ := find_some_of_mem x t h
        exact ⟨_, by rw [hn']; rfl⟩
      · exact absurd h hs

/-- the working copy after `remove` + `insertChild` of the same subtree -/
def moved (t : Tree) (i tgt pos : Nat) (sub : Tree) : Tree := insertChild tgt pos sub (remove i t)

structure MoveOK (t : Tree) (i tgt : Nat) (sub : Tree) : Prop where
  nodup : (ids t).Nodup
  found : find i t = some sub
  notRoot : t.id ≠ i
  tgtIn : tgt ∈ ids t
  tgtOut : tgt ∉ ids sub

theorem MoveOK.tgt_left {t : Tree} {i tgt : Nat} {sub : Tree} (h : MoveOK t i tgt sub) : tgt ∈ ids (remove i t) :=
  (mem_ids_remove i t sub h.nodup h.found h.notRoot tgt).mpr ⟨h.tgtIn, h.tgtOut⟩

theorem MoveOK.nodup_left {t : Tree} {i tgt : Nat} {sub : Tree} (h : MoveOK t i tgt sub) : (ids (remove i t)).Nodup :=
  (ids_remove_sublist i t).nodup h.nodup

theorem MoveOK.disj {t : Tree} {i tgt : Nat} {sub : Tree} (h : MoveOK t i tgt sub) :
    ∀ x ∈ ids sub, x ∉ ids (remove i t) := by
  intro x hx hm
  exact ((mem_ids_remove i t sub h.nodup h.found h.notRoot x).mp hm).2 hx

theorem mem_ids_moved (t : Tree) (i tgt pos : Nat) (sub : Tree) (h : MoveOK t i tgt sub) (x : Nat) :
    x ∈ ids (moved t i tgt pos sub) ↔ x ∈ ids t := by
  unfold moved
  rw [mem_ids_insertChild_iff tgt pos sub _ h.nodup_left h.tgt_left h.disj, mem_ids_remove i t sub h.nodup h.found h.notRoot]
  constructor
  · rintro (⟨h1, _⟩ | h2)
    · exact h1
    · exact (find_ids_sublist i t sub h.found).subset h2
  · intro hx
    by_cases hs : x ∈ ids sub
    · exact Or.inr hs
    · exact Or.inl ⟨hx, hs⟩

theorem nodup_moved (t : Tree) (i tgt pos : Nat) (sub : Tree) (h : MoveOK t i tgt sub) :
    (ids (moved t i tgt pos sub)).Nodup := nodup_move i tgt pos t sub h.nodup h.found h.notRoot

theorem payOf_moved (t : Tree) (i tgt pos : Nat) (sub : Tree) (h : MoveOK t i tgt sub) (j : Nat) :
    payOf (moved t i tgt pos sub) j = payOf t j := by
  unfold moved
  by_cases hs : j ∈ ids sub
  · rw [payOf_insertChild_new tgt pos sub _ h.tgt_left j (h.disj j hs), payOf_of_sub i j t sub h.nodup h.found hs]
  · rw [payOf_insertChild_old tgt pos sub _ h.nodup_left j hs, payOf_remove i t sub h.nodup h.found h.notRoot j hs]

theorem sub_id {t : Tree} {i tgt : Nat} {sub : Tree} (h : MoveOK t i tgt sub) : sub.id = i := find_id i t sub h.found

/-- children tables after a move: the old parent loses `i`, the target gains it at `pos`, nothing else changes -/
theorem kidIds_moved (t : Tree) (i tgt pos : Nat) (sub : Tree) (h : MoveOK t i tgt sub) (p : Nat) :
    kidIds (moved t i tgt pos sub) p =
      if p = tgt then insertAt ((kidIds t p).erase i) pos i else (kidIds t p).erase i := by
  unfold moved
  by_cases hs : p ∈ ids sub
  · have hpt : p ≠ tgt := fun e => h.tgtOut (e ▸ hs)
    rw [kidIds_insertChild_new tgt pos sub _ h.tgt_left p (h.disj p hs), ← kidIds_of_sub i p t sub h.nodup h.found hs]
    rw [if_neg hpt]
    -- `i` is not a child of a node of its own subtree
    have : i ∉ kidIds t p := by
      intro hk
      rw [kidIds_of_sub i p t sub h.nodup h.found hs] at hk
      unfold kidIds at hk
      cases hf : find p sub with
      | none => rw [hf] at hk; cases hk
      | some n =>
        rw [hf] at hk
        have h1 : i ∈ idsL sub.kids := kid_below p i sub n hf hk
        have hnd : (ids sub).Nodup := nodup_sub h.nodup h.found
        exact root_ne_of_desc sub i hnd h1 (sub_id h)
    rw [List.erase_of_not_mem this]
  · rw [kidIds_insertChild_old tgt pos sub _ h.nodup_left p hs, kidIds_remove i t sub h.nodup h.found h.notRoot p hs]
    simp only [h.tgt_left, and_true, sub_id h]

end Tree
end XmlDiffModel
