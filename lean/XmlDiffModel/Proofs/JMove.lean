/-
The move step of the accept simulation together with the "at most once" invariant `JF`.
-/
import XmlDiffModel.Proofs.JInv

namespace XmlDiffModel
namespace Acc
open Tree Undo TextMark MapId JInv

theorem move_sim_J (qn : QName) (s : FState) (h : FOK s) (T : Tree) (nx : Nat) (σ : Nat → Nat)
    (r : Rel σ T (acc (cln accS) s.tree) nx s.next)
    (n tgt : Path) (pos : Nat) (hsu : SUAct qn T (.moveNode n tgt pos))
    (hprop : ∀ nd tg, uniqueHit qn T n = .ok nd → uniqueHit qn T tgt = .ok tg → tg.id ∉ ids nd)
    (p1 : PState) (hp : applyUniq qn ⟨T, nx⟩ (.moveNode n tgt pos) = .ok p1) :
    ∃ s' σ', applyFmt qn s (.moveNode n tgt pos) = .ok s' ∧
      Rel σ' p1.tree (acc (cln accS) s'.tree) p1.next s'.next ∧ FOK s' ∧
      ∀ (F : Payload → Prop) (H : List Nat),
        (∀ p : Payload, F { p with attrs := attrSet p.attrs INSERT_NAME [] } → F p) →
        JF F σ s.tree T H → JF F σ' s'.tree p1.tree H := by
  obtain ⟨⟨x, hx⟩, ⟨y, hy⟩⟩ := hsu
  simp only [applyUniq, applyWith, bind, Except.bind] at hp
  cases hh : uniqueHit qn T n with
  | error e => rw [hh] at hp; cases hp
  | ok nd =>
    rw [hh] at hp
    simp only at hp
    cases ht : uniqueHit qn T tgt with
    | error e => rw [ht] at hp; cases hp
    | ok tg =>
      rw [ht] at hp
      simp only at hp
      split at hp
      · cases hp
      · next hroot =>
        simp only [Except.ok.injEq] at hp
        subst hp
        have hnotin := hprop nd tg hh ht
        have hfn := uniqueHit_find qn T r.nd n nd hh
        have hft := uniqueHit_find qn T r.nd tgt tg ht
        have hin := mem_of_find nd.id T nd hfn
        have hint := mem_of_find tg.id T tg hft
        have hr : T.id ≠ nd.id := by
          intro e; apply hroot; simp only [isRoot, beq_iff_eq]; exact e
        -- the accepted view is the renamed patcher tree
        have hU := r.eq
        have hxU : SU qn n [acc (cln accS) s.tree] (mapId σ x) := by
          have := su_mapId qn σ n [T] x hx
          simpa [hU] using this
        have hyU : SU qn tgt [acc (cln accS) s.tree] (mapId σ y) := by
          have := su_mapId qn σ tgt [T] y hy
          simpa [hU] using this
        have hhU : uniqueHit qn (acc (cln accS) s.tree) n = .ok (mapId σ nd) := by
          rw [hU]; exact uniqueHit_mapId qn σ T n nd hh
        have htU : uniqueHit qn (acc (cln accS) s.tree) tgt = .ok (mapId σ tg) := by
          rw [hU]; exact uniqueHit_mapId qn σ T tgt tg ht
        obtain ⟨m, m1, m2, m3, m4⟩ := hit_both qn accS s h.tok n (mapId σ nd) (mapId σ x) hxU hhU
        obtain ⟨target, t1, t2, t3, t4⟩ := hit_both qn accS s h.tok tgt (mapId σ tg) (mapId σ y) hyU htU
        have hmid : m.id = σ nd.id := by rw [← acc_id (cln accS) m, m2, mapId_id]
        have htid : target.id = σ tg.id := by rw [← acc_id (cln accS) target, t2, mapId_id]
        have hrootM : s.tree.id ≠ m.id := by
          intro e
          have : σ T.id = σ nd.id := by
            rw [← hmid, ← e, ← acc_id (cln accS) s.tree, hU, mapId_id]
          exact hr (r.inj T.id (id_mem_ids T) nd.id hin this)
        -- the formatter's computation
        let s1 := modifyNode s m.id markDel
        have hs1n : (ids s1.tree).Nodup := by simp only [s1, modifyNode, ids_modify]; exact h.tok.nodup
        have hft1 : find target.id s1.tree = some (modify m.id markDel target) := by
          simp only [s1, modifyNode]
          rw [find_modify_gen m.id target.id markDel s.tree h.tok.nodup, t4]; rfl
        have hmn : (ids m).Nodup := (find_ids_sublist m.id s.tree m m4).nodup h.tok.nodup
        obtain ⟨τ, hτ1, hτ2⟩ := renum_mapId s.next m hmn
        let copy' := setAttrsT (fun as => attrSet as INSERT_NAME []) (applyFmt.renum s.next m)
        have hcopyg : isGhost copy' = false := by
          simp only [copy']
          rw [isGhost_setIns, hτ1, isGhost_mapId]; exact m3
        have hcopyacc : acc (cln accS) copy' = mapId τ (mapId σ nd) := by
          simp only [copy']
          rw [acc_setIns, hτ1, acc_mapId, m2]
        let tree' := Tree.insertChild target.id (realPos (modify m.id markDel target).kids pos) copy' s1.tree
        have happ : applyFmt qn s (.moveNode n tgt pos) =
            .ok { s1 with tree := tree', next := s.next + size m } := by
          simp only [applyFmt, bind, Except.bind, pure, Except.pure, m1, t1]
          have hmatch : find target.id (modifyNode s m.id
              (fun p => { p with attrs := attrSet p.attrs DELETE_NAME [] })).tree =
              some (modify m.id markDel target) := hft1
          simp only [hmatch, applyFmt.renumber]
          rfl
        -- the accepted view of the new tree
        have hV : acc (cln accS) s1.tree = remove (σ nd.id) (mapId σ T) := by
          simp only [s1, modifyNode]
          rw [acc_markDel (cln accS) m.id s.tree h.tok.nodup hrootM, hU, hmid]
        have hacc' : acc (cln accS) tree' =
            insertChild (σ tg.id) pos (mapId τ (mapId σ nd)) (remove (σ nd.id) (mapId σ T)) := by
          simp only [tree']
          rw [acc_insert (cln accS) target.id pos copy' (modify m.id markDel target) hcopyg s1.tree hs1n hft1,
            hcopyacc, hV, htid]
        -- the patcher's result, renamed by σ
        have hsepn : Sep σ nd.id (ids T) := r.sep nd.id hin
        have hsept : Sep σ tg.id (ids (remove nd.id T)) :=
          (r.sep tg.id hint).sub (fun a ha => (ids_remove_sublist nd.id T).subset ha)
        have hpat : mapId σ (insertChild tg.id pos nd (remove nd.id T)) =
            insertChild (σ tg.id) pos (mapId σ nd) (remove (σ nd.id) (mapId σ T)) := by
          rw [← insertChild_mapId σ tg.id pos nd _ hsept, remove_mapId σ nd.id T hsepn]
        -- the renaming of the moved part
        let V := remove (σ nd.id) (mapId σ T)
        let τh : Nat → Nat := fun a => if a ∈ ids (mapId σ nd) then τ a else a
        have hUn : (ids (mapId σ T)).Nodup := by
          rw [ids_mapId]; exact nodup_map_injOn σ _ r.nd r.inj
        have hfU : find (σ nd.id) (mapId σ T) = some (mapId σ nd) := by
          have := uniqueHit_find qn (mapId σ T) hUn n (mapId σ nd) (uniqueHit_mapId qn σ T n nd hh)
          rwa [mapId_id] at this
        have hrU : (mapId σ T).id ≠ σ nd.id := by
          rw [mapId_id]; intro e; exact hr (r.inj T.id (id_mem_ids T) nd.id hin e)
        have hVdis : ∀ a ∈ ids V, a ∉ ids (mapId σ nd) := fun a ha =>
          ((mem_ids_remove (σ nd.id) (mapId σ T) (mapId σ nd) hUn hfU hrU a).1 ha).2
        have htgtnot : σ tg.id ∉ ids (mapId σ nd) := by
          rw [ids_mapId]
          intro hm
          obtain ⟨a, ha, e⟩ := List.mem_map.1 hm
          have haT : a ∈ ids T := (find_ids_sublist nd.id T nd hfn).subset ha
          exact hnotin ((r.inj a haT tg.id hint e) ▸ ha)
        have hfinal : insertChild (σ tg.id) pos (mapId τ (mapId σ nd)) V =
            mapId τh (insertChild (σ tg.id) pos (mapId σ nd) V) := by
          have hsep : Sep τh (σ tg.id) (ids V) := by
            intro a ha e
            have h1 : τh a = a := by simp [τh, hVdis a ha]
            have h2 : τh (σ tg.id) = σ tg.id := by simp [τh, htgtnot]
            rw [h1, h2] at e; exact e
          rw [← insertChild_mapId τh (σ tg.id) pos (mapId σ nd) V hsep]
          have e1 : τh (σ tg.id) = σ tg.id := by simp [τh, htgtnot]
          have e2 : mapId τh (mapId σ nd) = mapId τ (mapId σ nd) :=
            mapId_congr τh τ _ (fun a ha => by simp [τh, ha])
          have e3 : mapId τh V = V := by
            rw [mapId_congr τh (fun x => x) V (fun a ha => by simp [τh, hVdis a ha]), mapId_ident]
          rw [e1, e2, e3]
        -- ids of the accepted view are below the formatter's counter
        have hUlt : ∀ a ∈ ids (mapId σ T), a < s.next := by
          intro a ha
          rw [← hU] at ha
          exact ids_acc_lt s h.tok _ a ha
        have hndsub : ∀ a ∈ ids (mapId σ nd), a ∈ ids (mapId σ T) := fun a ha =>
          (find_ids_sublist (σ nd.id) (mapId σ T) (mapId σ nd) hfU).subset ha
        have hτb : ∀ a ∈ ids (mapId σ nd), s.next ≤ τ a ∧ τ a < s.next + size m := by
          intro a ha
          apply hτ2
          have : ids (mapId σ nd) = ids (acc (cln accS) m) := by rw [m2]
          rw [this] at ha
          exact (ids_acc_sublist _ m).subset ha
        have hτinj : InjOn τ (ids (mapId σ nd)) := by
          have hi : InjOn τ (ids m) := by
            apply injOn_of_nodup_map
            rw [← ids_mapId, ← hτ1, Rej.ids_renum]
            exact List.nodup_range'
          exact hi.sub (fun a ha => by
            have : ids (mapId σ nd) = ids (acc (cln accS) m) := by rw [m2]
            rw [this] at ha
            exact (ids_acc_sublist _ m).subset ha)
        have hτhinj : InjOn τh (ids (mapId σ T)) := by
          intro a ha b hb e
          by_cases h1 : a ∈ ids (mapId σ nd) <;> by_cases h2 : b ∈ ids (mapId σ nd)
          · simp only [τh, h1, h2, if_true] at e
            exact hτinj a h1 b h2 e
          · simp only [τh, h1, h2, if_true, if_false] at e
            have := (hτb a h1).1
            have := hUlt b hb
            omega
          · simp only [τh, h1, h2, if_true, if_false] at e
            have := (hτb b h2).1
            have := hUlt a ha
            omega
          · simp only [τh, h1, h2, if_false] at e
            exact e
        have hidsc : ids copy' = List.range' s.next (size m) := by
          simp only [copy']; rw [Rej.ids_setAttrsT, Rej.ids_renum]
        have hτm : InjOn τ (ids m) := by
          apply injOn_of_nodup_map
          rw [← ids_mapId, ← hτ1, Rej.ids_renum]
          exact List.nodup_range'
        have hndm : ∀ a ∈ ids (mapId σ nd), a ∈ ids m := by
          intro a ha
          have : ids (mapId σ nd) = ids (acc (cln accS) m) := by rw [m2]
          rw [this] at ha
          exact (ids_acc_sublist _ m).subset ha
        have hJ : ∀ (F : Payload → Prop) (H : List Nat),
            (∀ p : Payload, F { p with attrs := attrSet p.attrs INSERT_NAME [] } → F p) →
            JF F σ s.tree T H → JF F (τh ∘ σ) tree' (insertChild tg.id pos nd (remove nd.id T)) H := by
          intro F H hFi J l hl p hp hF
          have hlT := mem_ids_move nd.id tg.id pos T nd hfn l hl
          have hσl : σ l ∈ ids (mapId σ T) := by rw [ids_mapId]; exact List.mem_map_of_mem hlT
          have htin1 : target.id ∈ ids s1.tree := by
            simp only [s1, modifyNode, ids_modify]
            exact (mem_ids_iff_find target.id s.tree).2 ⟨target, t4⟩
          by_cases hln : l ∈ ids nd
          · -- the node went into the copy
            have hin : σ l ∈ ids (mapId σ nd) := by rw [ids_mapId]; exact List.mem_map_of_mem hln
            have hval : (τh ∘ σ) l = τ (σ l) := by simp [τh, hin]
            have hfresh : τ (σ l) ∉ ids s1.tree := by
              intro hm
              simp only [s1, modifyNode, ids_modify] at hm
              have := h.tok.fresh _ hm
              have := (hτb _ hin).1
              omega
            rw [hval, payOf_insertChild_new target.id _ copy' s1.tree htin1 _ hfresh] at hp
            simp only [copy'] at hp
            rw [hτ1, payOf_setAttrsT _ _ (by rw [ids_mapId]; exact nodup_map_injOn τ _ hmn hτm),
              payOf_mapId τ (σ l) m hτm (hndm _ hin), ← payOf_of_sub m.id (σ l) s.tree m h.tok.nodup m4 (hndm _ hin)] at hp
            split at hp
            · cases h0 : payOf s.tree (σ l) with
              | none => rw [h0] at hp; cases hp
              | some p0 =>
                rw [h0] at hp
                simp only [Option.map_some, Option.some.injEq] at hp
                subst hp
                exact J l hlT p0 h0 (hFi p0 hF)
            · exact J l hlT p hp hF
          · -- the node stayed where it was
            have hnin : σ l ∉ ids (mapId σ nd) := by
              rw [ids_mapId]
              intro hm
              obtain ⟨a, ha, e⟩ := List.mem_map.1 hm
              have haT : a ∈ ids T := (find_ids_sublist nd.id T nd hfn).subset ha
              exact hln ((r.inj a haT l hlT e) ▸ ha)
            have hval : (τh ∘ σ) l = σ l := by simp [τh, hnin]
            have hlt : σ l < s.next := r.fr' l hlT
            have hnc : σ l ∉ ids copy' := by
              rw [hidsc, List.mem_range'_1]; omega
            have hne : σ l ≠ m.id := by
              rw [hmid]
              intro e
              exact hln ((r.inj l hlT nd.id hin e) ▸ id_mem_ids nd)
            rw [hval, payOf_insertChild_old target.id _ copy' s1.tree hs1n _ hnc] at hp
            simp only [s1, modifyNode] at hp
            rw [payOf_modify m.id markDel s.tree h.tok.nodup, if_neg hne] at hp
            exact J l hlT p hp hF
        refine ⟨{ s1 with tree := tree', next := s.next + size m }, τh ∘ σ, happ, ⟨?_, ?_, ?_, ?_, ?_⟩, ?_, hJ⟩
        · show acc (cln accS) tree' = mapId (τh ∘ σ) (insertChild tg.id pos nd (remove nd.id T))
          rw [hacc', ← mapId_comp, hpat]
          exact hfinal
        · intro a ha b hb e
          have haT := mem_ids_move nd.id tg.id pos T nd hfn a ha
          have hbT := mem_ids_move nd.id tg.id pos T nd hfn b hb
          have := hτhinj (σ a) (by rw [ids_mapId]; exact List.mem_map_of_mem haT) (σ b)
            (by rw [ids_mapId]; exact List.mem_map_of_mem hbT) e
          exact r.inj a haT b hbT this
        · exact nodup_move nd.id tg.id pos T nd r.nd hfn hr
        · exact fun i hi => r.fr i (mem_ids_move nd.id tg.id pos T nd hfn i hi)
        · intro i hi
          have hiT := mem_ids_move nd.id tg.id pos T nd hfn i hi
          have hσi : σ i ∈ ids (mapId σ T) := by rw [ids_mapId]; exact List.mem_map_of_mem hiT
          show τh (σ i) < s.next + size m
          by_cases h1 : σ i ∈ ids (mapId σ nd)
          · simp only [τh, h1, if_true]; exact (hτb _ h1).2
          · simp only [τh, h1, if_false]
            have := hUlt _ hσi
            omega
        · -- the new working tree is well formed
          have hids : ids copy' = List.range' s.next (size m) := by
            simp only [copy']; rw [Rej.ids_setAttrsT, Rej.ids_renum]
          refine ⟨⟨?_, ?_, ?_⟩, h.base, h.norep⟩
          · show (ids tree').Nodup
            apply nodup_insertChild _ _ _ _ hs1n
            · rw [hids]; exact List.nodup_range'
            · intro z hz hz2
              rw [hids, List.mem_range'_1] at hz
              simp only [s1, modifyNode, ids_modify] at hz2
              have := h.tok.fresh z hz2
              omega
          · intro i hi
            show i < s.next + size m
            rcases mem_ids_insertChild _ _ _ _ i hi with hi | hi
            · simp only [s1, modifyNode, ids_modify] at hi
              have := h.tok.fresh i hi
              omega
            · rw [hids, List.mem_range'_1] at hi
              omega
          · show isGhost tree' = false
            simp only [tree']
            rw [isGhost_insertChild]
            simp only [s1, modifyNode]
            rw [isGhost_markDel_other m.id s.tree hrootM]
            exact h.tok.root

end Acc
end XmlDiffModel
