/-
Invariants of the matching stages (`Model/Match.lean`), for an arbitrary similarity oracle.
-/
import XmlDiffModel.Model.Match
import XmlDiffModel.Proofs.Lcs

namespace XmlDiffModel

def lefts (ms : Matches) : List Nat := ms.map (·.1)
def rights (ms : Matches) : List Nat := ms.map (·.2)
def tids (ts : List Tree) : List Nat := ts.map Tree.id

/-- What every matched (non-root) pair satisfies: same kind, and for elements the
unique-attribute loop of `node_ratio` did not veto. -/
def GoodLR (cfg : Cfg) (l r : Tree) : Prop :=
  l.payload.kind = r.payload.kind ∧
    (l.payload.kind = .elem → uniqueDecision cfg l.payload r.payload cfg.uniqueattrs ≠ some 0)

def PairOK (cfg : Cfg) (UL UR : List Tree) (p : Nat × Nat) : Prop :=
  ∃ l r, l ∈ UL ∧ r ∈ UR ∧ l.id = p.1 ∧ r.id = p.2 ∧ GoodLR cfg l r

theorem one_pos : 0 < Score.one := by decide

theorem nodeRatio_pos (cfg : Cfg) (sim : Sim) (ms : Matches) (l r : Tree)
    (h : 0 < nodeRatio cfg sim ms l r) : GoodLR cfg l r := by
  unfold nodeRatio at h
  unfold GoodLR
  split at h
  · next hl hr => rw [hl, hr]; exact ⟨rfl, fun hc => by cases hc⟩
  · exact absurd h (Nat.lt_irrefl 0)
  · exact absurd h (Nat.lt_irrefl 0)
  · next hl hr =>
    rw [hl, hr]
    refine ⟨rfl, fun _ => ?_⟩
    cases hu : uniqueDecision cfg l.payload r.payload cfg.uniqueattrs with
    | none => simp
    | some s =>
      simp only [hu] at h
      intro hs
      cases hs
      exact absurd h (Nat.lt_irrefl 0)

/-! ### eraseId -/

theorem eraseId_sublist (i : Nat) (rs : List Tree) : (eraseId i rs).Sublist rs := by
  induction rs with
  | nil => simp [eraseId]
  | cons r rs ih =>
    simp only [eraseId]
    split
    · exact List.sublist_cons_self _ _
    · exact List.Sublist.cons_cons _ ih

theorem not_id_of_mem_eraseId (i : Nat) (rs : List Tree) (hn : (tids rs).Nodup) (r : Tree)
    (h : r ∈ eraseId i rs) : r.id ≠ i := by
  induction rs with
  | nil => simp [eraseId] at h
  | cons x rs ih =>
    simp only [tids, List.map_cons, List.nodup_cons] at hn
    simp only [eraseId] at h
    split at h
    · next hx =>
      intro hr
      apply hn.1
      rw [hx, ← hr]
      exact List.mem_map_of_mem h
    · next hx =>
      simp only [List.mem_cons] at h
      rcases h with h | h
      · rw [h]; exact hx
      · exact ih hn.2 h

/-! ### the state invariant -/

structure MInv (cfg : Cfg) (UL UR : List Tree) (rnodes : List Tree) (ms : Matches) : Prop where
  rn_nodup : (tids rnodes).Nodup
  rn_sub : ∀ r ∈ rnodes, r ∈ UR
  rn_disj : ∀ r ∈ rnodes, r.id ∉ rights ms
  l_nodup : (lefts ms).Nodup
  r_nodup : (rights ms).Nodup
  pairs : ∀ p ∈ ms, PairOK cfg UL UR p

/-- Iteration-list invariant. -/
structure LInv (UL : List Tree) (ls : List Tree) (ms : Matches) : Prop where
  nodup : (tids ls).Nodup
  sub : ∀ l ∈ ls, l ∈ UL
  disj : ∀ l ∈ ls, l.id ∉ lefts ms

theorem MInv.add {cfg : Cfg} {UL UR rnodes : List Tree} {ms : Matches} (h : MInv cfg UL UR rnodes ms)
    (a b : Nat) (ha : a ∉ lefts ms) (hb : ∃ r' ∈ rnodes, r'.id = b) (hp : PairOK cfg UL UR (a, b)) :
    MInv cfg UL UR (eraseId b rnodes) ((a, b) :: ms) := by
  have hsub := eraseId_sublist b rnodes
  refine ⟨?_, ?_, ?_, ?_, ?_, ?_⟩
  · exact (hsub.map Tree.id).nodup h.rn_nodup
  · intro r hr; exact h.rn_sub r (hsub.subset hr)
  · intro r hr
    simp only [rights, List.map_cons, List.mem_cons, not_or]
    exact ⟨not_id_of_mem_eraseId b rnodes h.rn_nodup r hr, h.rn_disj r (hsub.subset hr)⟩
  · simp only [lefts, List.map_cons, List.nodup_cons]
    exact ⟨ha, h.l_nodup⟩
  · simp only [rights, List.map_cons, List.nodup_cons]
    obtain ⟨r', hr', hid⟩ := hb
    exact ⟨by rw [← hid]; exact h.rn_disj r' hr', h.r_nodup⟩
  · intro p hp'
    simp only [List.mem_cons] at hp'
    rcases hp' with rfl | hp'
    · exact hp
    · exact h.pairs p hp'

theorem LInv.tail {UL : List Tree} {l : Tree} {ls : List Tree} {ms : Matches}
    (h : LInv UL (l :: ls) ms) : LInv UL ls ms := by
  refine ⟨?_, fun x hx => h.sub x (by simp [hx]), fun x hx => h.disj x (by simp [hx])⟩
  have := h.nodup
  simp only [tids, List.map_cons, List.nodup_cons] at this
  exact this.2

theorem LInv.tail_add {UL : List Tree} {l : Tree} {ls : List Tree} {ms : Matches}
    (h : LInv UL (l :: ls) ms) (b : Nat) : LInv UL ls ((l.id, b) :: ms) := by
  have hn := h.nodup
  simp only [tids, List.map_cons, List.nodup_cons] at hn
  refine ⟨hn.2, fun x hx => h.sub x (by simp [hx]), ?_⟩
  intro x hx
  simp only [lefts, List.map_cons, List.mem_cons, not_or]
  refine ⟨?_, h.disj x (by simp [hx])⟩
  intro hxl
  apply hn.1
  rw [← hxl]
  exact List.mem_map_of_mem hx

/-! ### the default loop -/

/-- State of the inner `for rnode in rnodes` loop. -/
def BestJ (cfg : Cfg) (sim : Sim) (ms : Matches) (l : Tree) (RS : List Tree)
    (mn : Option Tree) (mx : Score) : Prop :=
  (mn = none ∧ mx = 0) ∨ ∃ r, mn = some r ∧ r ∈ RS ∧ mx = nodeRatio cfg sim ms l r ∧ 0 < mx

theorem bestOf_spec (cfg : Cfg) (sim : Sim) (ms : Matches) (l : Tree) (RS rs : List Tree)
    (hsub : ∀ r ∈ rs, r ∈ RS) (mn : Option Tree) (mx : Score) (hj : BestJ cfg sim ms l RS mn mx) :
    BestJ cfg sim ms l RS (bestOf cfg sim ms l rs mn mx).1 (bestOf cfg sim ms l rs mn mx).2 := by
  induction rs generalizing mn mx with
  | nil => simpa [bestOf] using hj
  | cons r rs ih =>
    simp only [bestOf]
    have hstep : BestJ cfg sim ms l RS
        (if nodeRatio cfg sim ms l r > mx then (some r, nodeRatio cfg sim ms l r) else (mn, mx)).1
        (if nodeRatio cfg sim ms l r > mx then (some r, nodeRatio cfg sim ms l r) else (mn, mx)).2 := by
      split
      · next hgt =>
        right
        exact ⟨r, rfl, hsub r (by simp), rfl, Nat.lt_of_le_of_lt (Nat.zero_le _) hgt⟩
      · exact hj
    generalize (if nodeRatio cfg sim ms l r > mx then (some r, nodeRatio cfg sim ms l r) else (mn, mx)) = pr at hstep
    obtain ⟨mn', mx'⟩ := pr
    simp only at hstep ⊢
    split
    · exact hstep
    · exact ih (fun x hx => hsub x (by simp [hx])) mn' mx' hstep

theorem defaultLoop_spec (cfg : Cfg) (sim : Sim) (UL UR : List Tree)
    (ls rnodes : List Tree) (ms : Matches) (hl : LInv UL ls ms) (hm : MInv cfg UL UR rnodes ms) :
    ∃ rn', MInv cfg UL UR rn' (defaultLoop cfg sim ls rnodes ms) := by
  induction ls generalizing rnodes ms with
  | nil => exact ⟨rnodes, by simpa [defaultLoop] using hm⟩
  | cons l ls ih =>
    simp only [defaultLoop]
    have hb := bestOf_spec cfg sim ms l rnodes rnodes (fun _ h => h) none 0 (Or.inl ⟨rfl, rfl⟩)
    generalize bestOf cfg sim ms l rnodes none 0 = pr at hb
    obtain ⟨mn, mx⟩ := pr
    simp only at hb ⊢
    split
    · next hge =>
      rcases hb with ⟨rfl, _⟩ | ⟨r, rfl, hr, hmx, hpos⟩
      · exact ih rnodes ms hl.tail hm
      · simp only
        apply ih _ _ (hl.tail_add r.id)
        apply hm.add l.id r.id (hl.disj l (by simp)) ⟨r, hr, rfl⟩
        exact ⟨l, r, hl.sub l (by simp), hm.rn_sub r hr, rfl, rfl,
          nodeRatio_pos cfg sim ms l r (by rw [← hmx]; exact hpos)⟩
    · exact ih rnodes ms hl.tail hm

/-! ### best_match -/

theorem perfectOf_spec (cfg : Cfg) (sim : Sim) (ms : Matches) (l : Tree) (RS rs : List Tree)
    (hsub : ∀ r ∈ rs, r ∈ RS) (mn : Option Tree) (mx : Score) (hj : BestJ cfg sim ms l RS mn mx) :
    (∀ r, perfectOf cfg sim ms l rs mn mx = .inl r → r ∈ RS ∧ 0 < nodeRatio cfg sim ms l r) ∧
    (∀ mn' mx', perfectOf cfg sim ms l rs mn mx = .inr (mn', mx') → BestJ cfg sim ms l RS mn' mx') := by
  induction rs generalizing mn mx with
  | nil =>
    simp only [perfectOf]
    refine ⟨fun r h => by simp at h, fun mn' mx' h => ?_⟩
    simp only [Sum.inr.injEq, Prod.mk.injEq] at h
    obtain ⟨rfl, rfl⟩ := h
    exact hj
  | cons r rs ih =>
    simp only [perfectOf]
    by_cases h1 : nodeRatio cfg sim ms l r = Score.one
    · rw [if_pos h1]
      refine ⟨fun r' h => ?_, fun mn' mx' h => by simp at h⟩
      simp only [Sum.inl.injEq] at h
      subst h
      exact ⟨hsub r (by simp), by rw [h1]; exact one_pos⟩
    · rw [if_neg h1]
      by_cases hgt : nodeRatio cfg sim ms l r > mx
      · rw [if_pos hgt]
        exact ih (fun x hx => hsub x (by simp [hx])) (some r) _
          (Or.inr ⟨r, rfl, hsub r (by simp), rfl, Nat.lt_of_le_of_lt (Nat.zero_le _) hgt⟩)
      · rw [if_neg hgt]
        exact ih (fun x hx => hsub x (by simp [hx])) mn mx hj

/-- Entries of the `unmatched_lnodes` list. -/
def UnOK (cfg : Cfg) (UR : List Tree) (un : List (Tree × Option Tree × Score)) : Prop :=
  ∀ e ∈ un, ∀ r, e.2.1 = some r → r ∈ UR ∧ GoodLR cfg e.1 r

theorem bestStage1_spec (cfg : Cfg) (sim : Sim) (UL UR : List Tree)
    (ls rnodes : List Tree) (ms : Matches) (un : List (Tree × Option Tree × Score))
    (hl : LInv UL (un.map (·.1) ++ ls) ms) (hm : MInv cfg UL UR rnodes ms) (hu : UnOK cfg UR un) :
    let res := bestStage1 cfg sim ls rnodes ms un
    LInv UL (res.2.2.map (·.1)) res.2.1 ∧ MInv cfg UL UR res.1 res.2.1 ∧ UnOK cfg UR res.2.2 := by
  induction ls generalizing rnodes ms un with
  | nil =>
    simp only [bestStage1]
    exact ⟨by simpa using hl, hm, hu⟩
  | cons l ls ih =>
    simp only [bestStage1]
    have hp := perfectOf_spec cfg sim ms l rnodes rnodes (fun _ h => h) none 0 (Or.inl ⟨rfl, rfl⟩)
    have hlmem : l ∈ un.map (·.1) ++ l :: ls := by simp
    cases hpo : perfectOf cfg sim ms l rnodes none 0 with
    | inl r =>
      have hp := hp.1 r hpo
      simp only
      apply ih
      · -- drop `l` from the middle of the list and add the pair
        refine ⟨?_, ?_, ?_⟩
        · have := hl.nodup
          simp only [tids, List.map_append, List.map_cons] at this ⊢
          exact (List.Sublist.nodup (List.Sublist.append_left (List.sublist_cons_self _ _) _) this)
        · intro x hx
          apply hl.sub x
          simp only [List.mem_append, List.mem_cons] at hx ⊢
          rcases hx with hx | hx
          · exact Or.inl hx
          · exact Or.inr (Or.inr hx)
        · intro x hx
          simp only [lefts, List.map_cons, List.mem_cons, not_or]
          refine ⟨?_, hl.disj x (by
            simp only [List.mem_append, List.mem_cons] at hx ⊢
            rcases hx with hx | hx
            · exact Or.inl hx
            · exact Or.inr (Or.inr hx))⟩
          intro hxl
          have hn := hl.nodup
          simp only [tids, List.map_append, List.map_cons] at hn
          rw [List.nodup_append] at hn
          obtain ⟨_, h2, h3⟩ := hn
          simp only [List.nodup_cons] at h2
          simp only [List.mem_append] at hx
          rcases hx with hx | hx
          · exact h3 x.id (List.mem_map_of_mem hx) l.id (by simp) hxl
          · apply h2.1; rw [← hxl]; exact List.mem_map_of_mem hx
      · apply hm.add l.id r.id (hl.disj l hlmem) ⟨r, hp.1, rfl⟩
        exact ⟨l, r, hl.sub l hlmem, hm.rn_sub r hp.1, rfl, rfl, nodeRatio_pos cfg sim ms l r hp.2⟩
      · exact hu
    | inr pr =>
      obtain ⟨mn, mx⟩ := pr
      have hp := hp.2 mn mx hpo
      simp only
      apply ih
      · simpa using hl
      · exact hm
      · intro e he r hr
        simp only [List.mem_append, List.mem_singleton] at he
        rcases he with he | rfl
        · exact hu e he r hr
        · simp only at hr
          rcases hp with ⟨h1, _⟩ | ⟨r', h1, h2, h3, h4⟩
          · rw [h1] at hr; cases hr
          · rw [h1] at hr; cases hr
            exact ⟨hm.rn_sub r h2, nodeRatio_pos cfg sim ms l r (by rw [← h3]; exact h4)⟩

theorem bestStage2_spec (cfg : Cfg) (UL UR : List Tree)
    (un : List (Tree × Option Tree × Score)) (rnodes : List Tree) (ms : Matches) (ls : List Tree)
    (hl : LInv UL (ls ++ un.map (·.1)) ms) (hm : MInv cfg UL UR rnodes ms) (hu : UnOK cfg UR un) :
    let res := bestStage2 cfg un rnodes ms ls
    LInv UL res.2.2 res.2.1 ∧ MInv cfg UL UR res.1 res.2.1 := by
  induction un generalizing rnodes ms ls with
  | nil =>
    simp only [bestStage2]
    exact ⟨by simpa using hl, hm⟩
  | cons e un ih =>
    obtain ⟨l, mn, mx⟩ := e
    simp only [bestStage2]
    have hkeep : LInv UL ((ls ++ [l]) ++ un.map (·.1)) ms := by simpa using hl
    have hu' : UnOK cfg UR un := fun e he => hu e (by simp [he])
    have hlmem : l ∈ ls ++ List.map (·.1) ((l, mn, mx) :: un) := by simp
    cases mn with
    | none => exact ih rnodes ms (ls ++ [l]) hkeep hm hu'
    | some r =>
      simp only
      split
      · next hc =>
        obtain ⟨hge, hany⟩ := hc
        obtain ⟨hrU, hgood⟩ := hu (l, some r, mx) (by simp) r rfl
        apply ih _ _ ls
        · refine ⟨?_, ?_, ?_⟩
          · have := hl.nodup
            simp only [tids, List.map_append, List.map_cons] at this ⊢
            exact (List.Sublist.nodup (List.Sublist.append_left (List.sublist_cons_self _ _) _) this)
          · intro x hx
            apply hl.sub x
            simp only [List.mem_append, List.map_cons, List.mem_cons] at hx ⊢
            rcases hx with hx | hx
            · exact Or.inl hx
            · exact Or.inr (Or.inr hx)
          · intro x hx
            simp only [lefts, List.map_cons, List.mem_cons, not_or]
            refine ⟨?_, hl.disj x (by
              simp only [List.mem_append, List.map_cons, List.mem_cons] at hx ⊢
              rcases hx with hx | hx
              · exact Or.inl hx
              · exact Or.inr (Or.inr hx))⟩
            intro hxl
            have hn := hl.nodup
            simp only [tids, List.map_append, List.map_cons] at hn
            rw [List.nodup_append] at hn
            obtain ⟨_, h2, h3⟩ := hn
            simp only [List.nodup_cons] at h2
            simp only [List.mem_append] at hx
            rcases hx with hx | hx
            · exact h3 x.id (List.mem_map_of_mem hx) l.id (by simp) hxl
            · apply h2.1; rw [← hxl]
              exact List.mem_map_of_mem hx
        · apply hm.add l.id r.id (hl.disj l hlmem)
          · simp only [List.any_eq_true, beq_iff_eq] at hany
            exact hany
          · exact ⟨l, r, hl.sub l hlmem, hrU, rfl, rfl, hgood⟩
        · exact hu'
      · exact ih rnodes ms (ls ++ [l]) hkeep hm hu'

/-! ### fast_match -/

theorem nodup_ne_of_lt {l : List Nat} (h : l.Nodup) (i j : Nat) (hi : i < l.length) (hj : j < l.length)
    (hij : i < j) : l[i] ≠ l[j] := by
  unfold List.Nodup at h
  rw [List.pairwise_iff_getElem] at h
  exact h i j hi hj hij

theorem tids_getElem? (ts : List Tree) (i : Nat) (t : Tree) (h : ts[i]? = some t) :
    ∃ hi : i < (tids ts).length, (tids ts)[i] = t.id := by
  rw [List.getElem?_eq_some_iff] at h
  obtain ⟨hi, rfl⟩ := h
  exact ⟨by simpa [tids] using hi, by simp [tids]⟩

theorem fastStage_spec (cfg : Cfg) (sim : Sim) (UL UR : List Tree) (hF : 0 < cfg.F)
    (hl : (tids UL).Nodup) (hr : (tids UR).Nodup) :
    let res := fastStage cfg sim UL UR
    LInv UL res.1 res.2.2 ∧ MInv cfg UL UR res.2.1 res.2.2 := by
  unfold fastStage
  obtain ⟨ps, hps, hinc, hval⟩ := Lcs.lcs_spec (fastEq cfg sim UL UR) UL.length UR.length
  rw [hps]
  simp only
  -- every pair comes from a valid index pair
  have hpair : ∀ p ∈ fastPairs UL UR ps, ∃ q ∈ ps, ∃ l r, UL[q.1]? = some l ∧ UR[q.2]? = some r ∧
      p = (l.id, r.id) ∧ fastEq cfg sim UL UR q.1 q.2 = true := by
    intro p hp
    simp only [fastPairs, List.mem_filterMap] at hp
    obtain ⟨q, hq, hf⟩ := hp
    cases h1 : UL[q.1]? with
    | none => simp [h1] at hf
    | some l =>
      cases h2 : UR[q.2]? with
      | none => simp [h1, h2] at hf
      | some r =>
        simp only [h1, h2, Option.some.injEq] at hf
        exact ⟨q, hq, l, r, h1, h2, hf.symm, (hval q hq).2.2⟩
  have hlN : (lefts (fastPairs UL UR ps)).Nodup := by
    unfold lefts fastPairs List.Nodup
    rw [List.pairwise_map, List.pairwise_filterMap]
    apply hinc.imp
    intro a b hab x hx y hy
    cases h1 : UL[a.1]? with
    | none => simp [h1] at hx
    | some la =>
      cases h2 : UL[b.1]? with
      | none => simp [h2] at hy
      | some lb =>
        cases h3 : UR[a.2]? with
        | none => simp [h1, h3] at hx
        | some ra =>
          cases h4 : UR[b.2]? with
          | none => simp [h2, h4] at hy
          | some rb =>
            simp only [h1, h3, Option.some.injEq] at hx
            simp only [h2, h4, Option.some.injEq] at hy
            subst hx; subst hy
            obtain ⟨hi, e1⟩ := tids_getElem? UL a.1 la h1
            obtain ⟨hj, e2⟩ := tids_getElem? UL b.1 lb h2
            simp only
            rw [← e1, ← e2]
            exact nodup_ne_of_lt hl a.1 b.1 hi hj hab.1
  have hrN : (rights (fastPairs UL UR ps)).Nodup := by
    unfold rights fastPairs List.Nodup
    rw [List.pairwise_map, List.pairwise_filterMap]
    apply hinc.imp
    intro a b hab x hx y hy
    cases h1 : UL[a.1]? with
    | none => simp [h1] at hx
    | some la =>
      cases h2 : UL[b.1]? with
      | none => simp [h2] at hy
      | some lb =>
        cases h3 : UR[a.2]? with
        | none => simp [h1, h3] at hx
        | some ra =>
          cases h4 : UR[b.2]? with
          | none => simp [h2, h4] at hy
          | some rb =>
            simp only [h1, h3, Option.some.injEq] at hx
            simp only [h2, h4, Option.some.injEq] at hy
            subst hx; subst hy
            obtain ⟨hi, e1⟩ := tids_getElem? UR a.2 ra h3
            obtain ⟨hj, e2⟩ := tids_getElem? UR b.2 rb h4
            simp only
            rw [← e1, ← e2]
            exact nodup_ne_of_lt hr a.2 b.2 hi hj hab.2
  constructor
  · refine ⟨?_, ?_, ?_⟩
    · exact (List.Sublist.map Tree.id List.filter_sublist).nodup hl
    · intro l hl'; exact (List.mem_filter.1 hl').1
    · intro l hl'
      have := (List.mem_filter.1 hl').2
      simp only [lefts, List.map_reverse, List.mem_reverse]
      intro hmem
      simp [hmem] at this
  · refine ⟨?_, ?_, ?_, ?_, ?_, ?_⟩
    · exact (List.Sublist.map Tree.id List.filter_sublist).nodup hr
    · intro r hr'; exact (List.mem_filter.1 hr').1
    · intro r hr'
      have := (List.mem_filter.1 hr').2
      simp only [rights, List.map_reverse, List.mem_reverse]
      intro hmem
      simp [hmem] at this
    · have : (lefts (fastPairs UL UR ps).reverse) = (lefts (fastPairs UL UR ps)).reverse := by simp [lefts]
      rw [this]; exact List.pairwise_reverse.2 (hlN.imp (fun h => Ne.symm h))
    · have : (rights (fastPairs UL UR ps).reverse) = (rights (fastPairs UL UR ps)).reverse := by simp [rights]
      rw [this]; exact List.pairwise_reverse.2 (hrN.imp (fun h => Ne.symm h))
    · intro p hp
      rw [List.mem_reverse] at hp
      obtain ⟨q, _, l, r, h1, h2, rfl, heq⟩ := hpair p hp
      refine ⟨l, r, List.mem_of_getElem? h1, List.mem_of_getElem? h2, rfl, rfl, ?_⟩
      simp only [fastEq, h1, h2, decide_eq_true_eq] at heq
      exact nodeRatio_pos cfg sim [] l r (Nat.lt_of_lt_of_le hF heq)

/-! ### post-order node lists -/

mutual
  theorem postNodes_ids (t : Tree) : (postNodes t).map Tree.id = Tree.postOrder t := by
    match t with
    | .node i p ks =>
      simp only [postNodes, Tree.postOrder, List.map_append, List.map_cons, List.map_nil, Tree.id]
      rw [postNodesL_ids ks]
  theorem postNodesL_ids (ts : List Tree) : (postNodesL ts).map Tree.id = Tree.postOrderL ts := by
    match ts with
    | [] => simp [postNodesL, Tree.postOrderL]
    | t :: ts =>
      simp only [postNodesL, Tree.postOrderL, List.map_append]
      rw [postNodes_ids t, postNodesL_ids ts]
end

mutual
  theorem postOrder_perm (t : Tree) : (Tree.postOrder t).Perm (Tree.ids t) := by
    match t with
    | .node i p ks =>
      simp only [Tree.postOrder, Tree.ids]
      exact (List.perm_append_comm).trans (List.Perm.cons _ (postOrderL_perm ks))
  theorem postOrderL_perm (ts : List Tree) : (Tree.postOrderL ts).Perm (Tree.idsL ts) := by
    match ts with
    | [] => simp [Tree.postOrderL, Tree.idsL]
    | t :: ts =>
      simp only [Tree.postOrderL, Tree.idsL]
      exact List.Perm.append (postOrder_perm t) (postOrderL_perm ts)
end

theorem postNodes_split (t : Tree) : postNodes t = (postNodes t).dropLast ++ [t] := by
  match t with
  | .node i p ks => simp [postNodes]

/-- Facts about the universe of non-root nodes of a well-formed tree. -/
theorem universe_facts (t : Tree) (h : t.WF) :
    (tids (postNodes t).dropLast).Nodup ∧ t.id ∉ tids (postNodes t).dropLast ∧
      ∀ x ∈ (postNodes t).dropLast, x.id ∈ Tree.ids t := by
  have hn : ((postNodes t).map Tree.id).Nodup := by
    rw [postNodes_ids]
    exact (postOrder_perm t).nodup_iff.2 h
  have hs := postNodes_split t
  rw [hs, List.map_append, List.nodup_append] at hn
  refine ⟨hn.1, ?_, ?_⟩
  · intro hmem
    exact hn.2.2 t.id hmem t.id (by simp) rfl
  · intro x hx
    have : x.id ∈ (postNodes t).map Tree.id := by
      rw [hs, List.map_append]
      exact List.mem_append_left _ (List.mem_map_of_mem hx)
    rw [postNodes_ids] at this
    exact (postOrder_perm t).mem_iff.1 this

/-! ### the whole matcher -/

/-- Everything C07 says about the matches before the roots are appended. -/
theorem matchNodes_spec (cfg : Cfg) (sim : Sim) (L R : Tree) (hF : 0 < cfg.F) (hL : L.WF) (hR : R.WF) :
    ∃ ms rn, matchNodes cfg sim L R = ((L.id, R.id) :: ms).reverse ∧
      MInv cfg (postNodes L).dropLast (postNodes R).dropLast rn ms := by
  obtain ⟨hl1, _, _⟩ := universe_facts L hL
  obtain ⟨hr1, _, _⟩ := universe_facts R hR
  have hm0 : MInv cfg (postNodes L).dropLast (postNodes R).dropLast (postNodes R).dropLast [] :=
    ⟨hr1, fun _ h => h, by simp [rights], by simp [lefts], by simp [rights], by simp⟩
  have hl0 : LInv (postNodes L).dropLast (postNodes L).dropLast [] :=
    ⟨hl1, fun _ h => h, by simp [lefts]⟩
  unfold matchNodes
  simp only
  by_cases hfast : cfg.fastMatch = true
  · simp only [hfast, if_true]
    have := fastStage_spec cfg sim _ _ hF hl1 hr1
    simp only at this
    generalize fastStage cfg sim (postNodes L).dropLast (postNodes R).dropLast = res at this
    obtain ⟨lrem, rrem, ms⟩ := res
    obtain ⟨rn', h'⟩ := defaultLoop_spec cfg sim _ _ lrem rrem ms this.1 this.2
    exact ⟨_, rn', rfl, h'⟩
  · simp only [hfast, Bool.false_eq_true, if_false]
    by_cases hbest : cfg.bestMatch = true
    · simp only [hbest, if_true]
      have h1 := bestStage1_spec cfg sim _ _ (postNodes L).dropLast (postNodes R).dropLast [] []
        (by simpa using hl0) hm0 (by intro e he; simp at he)
      simp only at h1
      generalize bestStage1 cfg sim (postNodes L).dropLast (postNodes R).dropLast [] [] = r1 at h1
      obtain ⟨rn, ms, un⟩ := r1
      have h2 := bestStage2_spec cfg _ _ un rn ms [] (by simpa using h1.1) h1.2.1 h1.2.2
      simp only at h2
      generalize bestStage2 cfg un rn ms [] = r2 at h2
      obtain ⟨rn2, ms2, ls2⟩ := r2
      obtain ⟨rn', h'⟩ := defaultLoop_spec cfg sim _ _ ls2 rn2 ms2 h2.1 h2.2
      exact ⟨_, rn', rfl, h'⟩
    · simp only [hbest, Bool.false_eq_true, if_false]
      obtain ⟨rn', h'⟩ := defaultLoop_spec cfg sim _ _ _ _ [] hl0 hm0
      exact ⟨_, rn', rfl, h'⟩

end XmlDiffModel
