/-
Invariant of the placeholder table used by the re-balancing theorem: every opening entry records the placeholder of a
closing entry of the same table, and placeholders are code points from `PLACEHOLDER_START` on.  It holds of every table
a history of `do_tree` calls builds.
-/
import XmlDiffModel.Proofs.Placeholder
import XmlDiffModel.Proofs.Realign

namespace XmlDiffModel

structure Closed (st : PhSt) : Prop where
  oc : ∀ e ∈ st.table, e.role = .open → ∃ k e', e.closePh = some k ∧ e' ∈ st.table ∧ e'.ph = k ∧ e'.role = .close
  lo : phStart ≤ st.counter
  lob : ∀ e ∈ st.table, phStart < e.ph

theorem SameKey.role {e : PhEntry} {k : Tree} {r : Role} {c : Option Nat} (h : SameKey e k r c) :
    e.role = r ∧ e.closePh = c := ⟨h.2.1, h.2.2⟩

/-- the placeholder returned belongs to an entry of the new table with the requested role and closing placeholder -/
theorem getPlaceholder_mem (st : PhSt) (el : Tree) (r : Role) (c : Option Nat) :
    ∃ e ∈ (getPlaceholder st el r c).2.table, e.ph = (getPlaceholder st el r c).1 ∧ e.role = r ∧ e.closePh = c := by
  unfold getPlaceholder
  simp only
  cases hl : st.lookup (keyOf el) r c with
  | some ph =>
    obtain ⟨e, he, hs, hp⟩ := lookup_some st _ r c ph hl
    exact ⟨e, he, hp, hs.role.1, hs.role.2⟩
  | none => exact ⟨_, List.mem_append_right _ (List.mem_singleton.2 rfl), rfl, rfl, rfl⟩

theorem getPlaceholder_closed (st : PhSt) (el : Tree) (r : Role) (c : Option Nat) (h : Closed st)
    (hc : r = .open → ∃ k e', c = some k ∧ e' ∈ st.table ∧ e'.ph = k ∧ e'.role = .close) :
    Closed (getPlaceholder st el r c).2 := by
  unfold getPlaceholder
  simp only
  cases hl : st.lookup (keyOf el) r c with
  | some ph => exact h
  | none =>
    simp only
    refine ⟨?_, Nat.le_succ_of_le h.lo, ?_⟩
    · intro e he hr
      simp only [List.mem_append, List.mem_singleton] at he
      rcases he with he | rfl
      · obtain ⟨k, e', h1, h2, h3, h4⟩ := h.oc e he hr
        exact ⟨k, e', h1, List.mem_append_left _ h2, h3, h4⟩
      · obtain ⟨k, e', h1, h2, h3, h4⟩ := hc hr
        exact ⟨k, e', h1, List.mem_append_left _ h2, h3, h4⟩
    · intro e he
      simp only [List.mem_append, List.mem_singleton] at he
      rcases he with he | rfl
      · exact h.lob e he
      · exact Nat.lt_succ_of_le h.lo

theorem closed_heap (st : PhSt) (h : Closed st) (hp : List Tree) : Closed { st with heap := hp } :=
  ⟨h.oc, h.lo, h.lob⟩

mutual
  theorem doElement_closed (t : Tree) (st : PhSt) (h : Closed st) : Closed (doElement t st).2 := by
    match t with
    | .node i p ks =>
      simp only [doElement]
      exact doKids_closed ks _ st h
  theorem doKids_closed (ks : List Tree) (acc : Str) (st : PhSt) (h : Closed st) : Closed (doKids ks acc st).2 := by
    match ks with
    | [] => simpa [doKids] using h
    | c :: rest =>
      simp only [doKids]
      split
      · have e1 := getPlaceholder_closed st (setTailT (some []) c) .close none h (fun hr => by cases hr)
        have m1 := getPlaceholder_mem st (setTailT (some []) c) .close none
        generalize getPlaceholder st (setTailT (some []) c) .close none = r1 at e1 m1
        obtain ⟨phClose, st1⟩ := r1
        simp only at e1 m1
        obtain ⟨ec, hec, hph, hrole, _⟩ := m1
        have e2 := getPlaceholder_closed st1 (setTailT (some []) c) .open (some phClose) e1
          (fun _ => ⟨phClose, ec, rfl, hec, hph, hrole⟩)
        generalize getPlaceholder st1 (setTailT (some []) c) .open (some phClose) = r2 at e2
        obtain ⟨phOpen, st2⟩ := r2
        have e3 := doElement_closed c st2 e2
        generalize doElement c st2 = r3 at e3
        obtain ⟨c2, st3⟩ := r3
        simp only at e2 e3 ⊢
        exact doKids_closed rest _ _ (closed_heap st3 e3 _)
      · have e1 := getPlaceholder_closed st (setTailT (some []) c) .single none h (fun hr => by cases hr)
        generalize getPlaceholder st (setTailT (some []) c) .single none = r1 at e1
        obtain ⟨phSingle, st1⟩ := r1
        simp only at e1 ⊢
        exact doKids_closed rest _ _ (closed_heap st1 e1 _)
end

theorem doElementAt_closed (i : Nat) (tree : Tree) (st : PhSt) (h : Closed st) : Closed (doElementAt i tree st).2 := by
  unfold doElementAt
  split
  · next e he => exact doElement_closed e st h
  · split
    · next e he =>
      have e1 := doElement_closed e st h
      generalize doElement e st = r at e1
      obtain ⟨e', st'⟩ := r
      simp only at e1 ⊢
      exact closed_heap st' e1 _
    · exact h

theorem foldl_doElementAt_closed (idsList : List Nat) (tree : Tree) (st : PhSt) (h : Closed st) :
    Closed (idsList.foldl (fun (acc : Tree × PhSt) i => doElementAt i acc.1 acc.2) (tree, st)).2 := by
  induction idsList generalizing tree st with
  | nil => simpa using h
  | cons i rest ih =>
    simp only [List.foldl_cons]
    have e1 := doElementAt_closed i tree st h
    generalize doElementAt i tree st = r at e1
    obtain ⟨t', st'⟩ := r
    exact ih t' st' e1

theorem doTree_closed (tree : Tree) (st : PhSt) (h : Closed st) : Closed (doTree tree st).2 := by
  unfold doTree
  split
  · exact h
  · exact foldl_doElementAt_closed _ tree st h

theorem doTrees_closed (ts : List Tree) (st : PhSt) (h : Closed st) : Closed (doTrees ts st) := by
  induction ts generalizing st with
  | nil => exact h
  | cons t ts ih => simp only [doTrees]; exact ih _ (doTree_closed t st h)

theorem closed_empty (tt ft : List Str) :
    Closed { table := [], counter := phStart, heap := [], textTags := tt, formattingTags := ft } :=
  ⟨by simp, Nat.le_refl _, by simp⟩

/-! ### the class of opening / closing placeholders -/

/-- `c` is the placeholder of an opening or a closing entry -/
def isOC (st : PhSt) (c : Char) : Bool :=
  match st.entryOf c.toNat with
  | some e => e.role != .single
  | none => false

theorem phChar_toNat (k : Nat) (h1 : phStart < k) (h2 : k < 0x110000) : (phChar k).toNat = k := by
  have hv : k.isValidChar := Or.inr ⟨by unfold phStart at h1; omega, h2⟩
  simp [phChar, Char.ofNat, hv, Char.toNat, Char.ofNatAux]

theorem entryOf_of_mem (st : PhSt) (h : TableOK st) (e : PhEntry) (he : e ∈ st.table) :
    st.entryOf e.ph = some e := by
  unfold PhSt.entryOf
  have hn := h.phNodup
  generalize st.table = tb at he hn
  induction tb with
  | nil => cases he
  | cons a rest ih =>
    simp only [List.map_cons, List.nodup_cons] at hn
    simp only [List.find?_cons]
    simp only [List.mem_cons] at he
    rcases he with rfl | he
    · simp
    · have : (a.ph == e.ph) = false := by
        rw [beq_eq_false_iff_ne]
        intro e'
        exact hn.1 (e' ▸ List.mem_map_of_mem he)
      rw [this]
      exact ih he hn.2

/-- the two hypotheses of `Realign.realign_spec` hold for the class `isOC` -/
theorem isOC_hyps (st : PhSt) (h : TableOK st) (hc : Closed st) (hhi : st.counter < 0x110000) :
    (∀ (c : Char) e, st.entryOf c.toNat = some e → e.role = .close → isOC st c = true) ∧
    (∀ (c : Char) e, st.entryOf c.toNat = some e → e.role = .open → isOC st (phChar (e.closePh.getD 0)) = true) := by
  constructor
  · intro c e he hr
    simp [isOC, he, hr]
  · intro c e he hr
    have hmem : e ∈ st.table := List.mem_of_find?_eq_some he
    obtain ⟨k, e', h1, h2, h3, h4⟩ := hc.oc e hmem hr
    have hk1 : phStart < k := h3 ▸ hc.lob e' h2
    have hk2 : k < 0x110000 := by have := h.bound e' h2; omega
    have := entryOf_of_mem st h e' h2
    simp only [h1, Option.getD_some, isOC, phChar_toNat k hk1 hk2]
    rw [← h3, this]
    simp [h4]

/-! ### the maker's initial table -/

theorem phInit_ok (tt ft : List Str) : TableOK (phInit tt ft) ∧ Closed (phInit tt ft) := by
  unfold phInit
  simp only [List.foldl_cons, List.foldl_nil]
  have step : ∀ (st : PhSt) (el : Tree), TableOK st ∧ Closed st →
      TableOK (getPlaceholder (getPlaceholder st el .close none).2 el .open
        (some (getPlaceholder st el .close none).1)).2 ∧
      Closed (getPlaceholder (getPlaceholder st el .close none).2 el .open
        (some (getPlaceholder st el .close none).1)).2 := by
    intro st el ⟨h1, h2⟩
    have a1 := (getPlaceholder_ok st el .close none h1).1
    have c1 := getPlaceholder_closed st el .close none h2 (fun hr => by cases hr)
    obtain ⟨ec, hec, hph, hrole, _⟩ := getPlaceholder_mem st el .close none
    exact ⟨(getPlaceholder_ok _ el .open _ a1).1,
      getPlaceholder_closed _ el .open _ c1 (fun _ => ⟨_, ec, rfl, hec, hph, hrole⟩)⟩
  exact step _ _ (step _ _ (step _ _ ⟨tableOK_empty tt ft, closed_empty tt ft⟩))

end XmlDiffModel
