/-
`differ_script_engine` with the length bound stated on the right document instead of on the script
(`Texts.scriptGen_texts`: the texts of a differ script are texts and tails of right nodes).
-/
import XmlDiffModel.Proofs.DifferE
import XmlDiffModel.Proofs.Texts
import XmlDiffModel.Proofs.JRun2

namespace XmlDiffModel
namespace Along
open Tree Chw XmlDiffModel.Acc XmlDiffModel.Names XmlDiffModel.Rej XmlDiffModel.JInv

/-- the Boolean form of "short and, under `w`, whitespace-normal" -/
def fitB (w : Bool) (t : Option Str) : Bool :=
  decide ((strOf t).length ≤ TEXT_MAX) && (!w || decide (wsNorm (strOf t) = strOf t))

theorem fitB_iff (w : Bool) (t : Option Str) :
    fitB w t = true ↔ (strOf t).length ≤ TEXT_MAX ∧ (w = true → wsNorm (strOf t) = strOf t) := by
  cases w <;> simp [fitB]

theorem shortTexts_of_right (w : Bool) (qn : QName) (cfg : Cfg) (L R : Tree) (M : List (Nat × Nat)) (fresh : Nat)
    (script : List Action) (final : Tree)
    (hR : ∀ x ∈ bfs R, (keys x.payload.attrs).Nodup ∧ ShortP w x.payload)
    (h : scriptGen qn cfg L R M fresh = .ok (script, final)) : ∀ a ∈ script, ShortTexts w a := by
  have key := Texts.scriptGen_fits (Texts.badT (fitB w)) (Texts.neutral_badT _) qn cfg L R M fresh script final
    (fun x hx => ⟨(hR x hx).1, ⟨fun _ => by
        have := (fitB_iff w x.payload.text).2 ⟨(hR x hx).2.1, fun hw => ((hR x hx).2.2.2 hw).1⟩
        simp [Texts.badT, this],
      fun _ => by
        have := (fitB_iff w x.payload.tail).2 ⟨(hR x hx).2.2.1, fun hw => ((hR x hx).2.2.2 hw).2⟩
        simp [Texts.badT, this], fun _ => rfl, fun _ _ => rfl, fun _ _ => rfl⟩⟩) h
  intro a ha
  have := key a ha
  cases a <;> simp only [ShortTexts] <;> first
    | trivial
    | (apply (fitB_iff w _).1; simpa [Texts.badT] using this)

/-- **The XML formatter on the script of the differ, engine included; hypotheses on the two documents only.** -/
theorem differ_script_engine' (bis : Dmp.Bisect) (qn : QName) (cfg : Cfg) (L R : Tree) (M : List (Nat × Nat))
    (fresh : Nat) (script : List Action) (final : Tree) (ft : List Str) (segs : List (List Seg)) (w : Bool)
    (hclean : CleanT L) (hshort : AllP (ShortP w) L) (hL : (ids L).Nodup) (hRn : (ids R).Nodup)
    (hdisj : ∀ i ∈ ids L, i ∉ ids R)
    (hfL : ∀ i ∈ ids L, i < fresh) (hfR : ∀ i ∈ ids R, i < fresh) (hM : GoodMatching L R M)
    (hR : ∀ x ∈ bfs R, (keys x.payload.attrs).Nodup ∧ XClean (fun k => isDiffKey k = false) x ∧ ShortP w x.payload)
    (h : scriptGen qn cfg L R M fresh = .ok (script, final)) :
    ∃ s' σ, runFmtE w bis qn (fstate0 L fresh ft segs w) script = .ok s' ∧
      acc (cln accS) s'.tree = MapId.mapId σ final ∧ MapId.InjOn σ (ids final) ∧ rej s'.tree = bare L :=
  differ_script_engine bis qn cfg L R M fresh script final ft segs w hclean hshort hL hRn hdisj hfL hfR hM
    (fun x hx => ⟨(hR x hx).1, (hR x hx).2.1⟩)
    (shortTexts_of_right w qn cfg L R M fresh script final (fun x hx => ⟨(hR x hx).1, (hR x hx).2.2⟩) h) h

mutual
  /-- clean documents have low texts -/
  theorem lowT_of_clean (t : Tree) (h : CleanT t) : Undo.LowT t := by
    match t with
    | .node i p ks =>
      simp only [CleanT] at h
      simp only [Undo.LowT]
      exact ⟨h.2.1.1, h.2.2.1.1, lowL_of_clean ks h.2.2.2⟩
  theorem lowL_of_clean (ts : List Tree) (h : CleanL ts) : Undo.LowL ts := by
    match ts with
    | [] => trivial
    | t :: rest =>
      simp only [CleanL] at h
      simp only [Undo.LowL]
      exact ⟨lowT_of_clean t h.1, lowL_of_clean rest h.2⟩
end

/-- **C08 for differ scripts, engine included**: the handlers accept the script, the maker state stays, `finalize`
succeeds for every sufficiently large fuel and its result has no placeholder character. -/
theorem differ_script_plain (bis : Dmp.Bisect) (qn : QName) (cfg : Cfg) (L R : Tree) (M : List (Nat × Nat))
    (fresh : Nat) (script : List Action) (final : Tree) (ft : List Str) (w : Bool)
    (hclean : CleanT L) (hshort : AllP (ShortP w) L) (hL : (ids L).Nodup) (hRn : (ids R).Nodup)
    (hdisj : ∀ i ∈ ids L, i ∉ ids R)
    (hfL : ∀ i ∈ ids L, i < fresh) (hfR : ∀ i ∈ ids R, i < fresh) (hM : GoodMatching L R M)
    (hR : ∀ x ∈ bfs R, (keys x.payload.attrs).Nodup ∧ XClean (fun k => isDiffKey k = false) x ∧ ShortP w x.payload)
    (h : scriptGen qn cfg L R M fresh = .ok (script, final)) :
    ∃ s', runFmtE w bis qn (fstate0 L fresh ft [] w) script = .ok s' ∧ s'.ph = phInit [] ft ∧
      ∃ r after, (∃ N, ∀ f, N ≤ f → undoElement f s'.ph diffElemList s'.tree = .ok (r, after)) ∧
        Undo.PlainT s'.ph r := by
  have hR' : ∀ x ∈ bfs R, (keys x.payload.attrs).Nodup ∧ XClean (fun k => isDiffKey k = false) x :=
    fun x hx => ⟨(hR x hx).1, (hR x hx).2.1⟩
  have hsh := shortTexts_of_right w qn cfg L R M fresh script final (fun x hx => ⟨(hR x hx).1, (hR x hx).2.2⟩) h
  obtain ⟨nx, hstrict⟩ := scriptGen_strict qn cfg L R M fresh script final hL hRn hdisj hfL hfR hM
    (fun x hx => (hR x hx).1) (fun x hx hk => by rw [(hR x hx).2.1.1] at hk; cases hk) h
  have hal := scriptGen_along qn (fun k => isDiffKey k = false) cfg L R M fresh script final hL hfL hR' h
  obtain ⟨hpaths, hrun, hacts⟩ := pathsOK_of qn _ script ⟨L, fresh⟩ ⟨final, nx⟩ hal hstrict
  have hpn := plainNames_of_run qn script L fresh ⟨final, nx⟩ hL hfL (keysPlain_of_clean L hclean)
    (fun a ha => (hacts a ha).2.2) hrun
  have hb : TextMark.Base (phInit [] ft) := by
    have := TextMark.base_history [] ft [] (by
      show (phInit [] ft).counter < 0x110000
      have : (phInit [] ft).counter = phStart + 6 := rfl
      rw [this]; decide)
    exact this
  have htok : TOK (fstate0 L fresh ft [] w) := ⟨hL, hfL, isGhost_of_clean L hclean⟩
  have hrok : ROK (fstate0 L fresh ft [] w) := ⟨hL, hfL, isIns_of_clean L hclean, hb, rfl⟩
  have r0 : MapId.Rel (fun x => x) L (acc (cln accS) L) fresh fresh :=
    ⟨by rw [acc_clean L hclean, MapId.mapId_ident], fun a _ b _ e => e, hL, hfL, hfL⟩
  have hA : ∀ x ∈ bfs R, (keys x.payload.attrs).Nodup := fun x hx => (hR x hx).1
  have o1 := Once.scriptGen_once Once.renSel Once.goodSel_ren _ Once.isSome_renSel Once.one_ren qn cfg L R M
    fresh script final hL hRn hfL hM hA h
  have o2 := Once.scriptGen_once Once.textSel Once.goodSel_text _ Once.isSome_textSel Once.one_txt qn cfg L R M
    fresh script final hL hRn hfL hM hA h
  have o3 := Once.scriptGen_once Once.tailSel Once.goodSel_tail _ Once.isSome_tailSel Once.one_tail qn cfg L R
    M fresh script final hL hRn hfL hM hA h
  have hst : ∀ a ∈ script, NoComment a ∧ PlainNames a ∧ TextsOK a ∧ ShortTexts w a :=
    fun a ha => ⟨(hacts a ha).1, hpn a ha, (hacts a ha).2.1, hsh a ha⟩
  obtain ⟨s', σ, h1, _, _, _⟩ := run_E w bis qn script _ ⟨htok, hb, rfl⟩ hrok L fresh (fun x => x) r0 [] [] []
    (jall_init w L hclean hshort) hst hpaths (by simpa using o1) (by simpa using o2) (by simpa using o3) ⟨final, nx⟩ hrun
  have fi0 : TextMark.FInv (fstate0 L fresh ft [] w) :=
    TextMark.finv_init ft L fresh [] w (lowT_of_clean L hclean) (fun d hd => by cases hd)
  obtain ⟨fi, hph⟩ := run_E_finv w bis qn script _ ⟨htok, hb, rfl⟩ hrok L fresh (fun x => x) r0 [] [] []
    (jall_init w L hclean hshort) fi0 hst hpaths (by simpa using o1) (by simpa using o2) (by simpa using o3)
    ⟨final, nx⟩ hrun s' h1
  obtain ⟨r, after, hu, hr, _⟩ := TextMark.undoElement_marked s'.ph fi.base s'.tree fi.marked
  exact ⟨s', h1, hph, r, after, hu, hr⟩

end Along
end XmlDiffModel
