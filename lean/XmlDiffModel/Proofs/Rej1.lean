/-
C10, tree level: the rejected view of the formatter's working tree is an invariant of the handlers.

`rej t` drops the nodes flagged inserted, restores the old tag from `diff:rename`, reads marked texts with the delete
wrappers opened and the insert wrappers dropped, and forgets the attributes (the annotation decoding is not part of
this view).  Every handler - moves included - leaves `rej` of the working tree unchanged.
-/
import XmlDiffModel.Proofs.Acc4

namespace XmlDiffModel
namespace Rej
open Tree Undo TextMark Acc


/-- rejected reading of a marked string; the flag says "inside an insert wrapper" -/
def rejChars : Bool → Str → Str
  | _, [] => []
  | d, c :: cs =>
    if c = insOpen then rejChars true cs
    else if c = insClose then rejChars false cs
    else if c = delOpen ∨ c = delClose then rejChars d cs
    else if d then rejChars d cs else c :: rejChars d cs

def rejS (o : Option Str) : Option Str := nt (o.map (rejChars false))

/-- the rejected payload: old tag, no attributes, rejected texts -/
def rejP (p : Payload) : Payload :=
  { kind := p.kind, tag := (attrGet p.attrs RENAME_NAME).getD p.tag, attrs := [], text := rejS p.text, tail := rejS p.tail }

mutual
  def rej : Tree → Tree
    | .node i p ks => .node i (rejP p) (rejL ks)
  def rejL : List Tree → List Tree
    | [] => []
    | t :: ts => if isIns t then rejL ts else rej t :: rejL ts
end

theorem rejL_eq (ks : List Tree) : rejL ks = (ks.filter (fun k => !isIns k)).map rej := by
  induction ks with
  | nil => simp [rejL]
  | cons t ts ih =>
    simp only [rejL, List.filter_cons]
    by_cases h : isIns t = true
    · simp [h, ih]
    · have h' : isIns t = false := by simpa using h
      simp [h', ih]

/-! ### `_xpath` returns a node of the tree -/

theorem xstep_mem (qn : QName) (st : Step) (forest : List Tree) (m : Tree) (h : xstep qn st forest = .ok m) :
    m ∈ forest := by
  unfold xstep at h
  simp only at h
  have key : ∀ x, x ∈ (forest.filter (fun t => st.test.matches qn t.payload)).filter (fun t => !isGhost t) →
      x ∈ forest := fun x hx => (List.mem_filter.1 (List.mem_filter.1 hx).1).1
  split at h
  · split at h
    · next mm hm =>
      simp only [Except.ok.injEq] at h
      subst h
      exact key _ (List.mem_of_getElem? hm)
    · cases h
  · cases h
  · split at h
    · cases h
    · next mm hm =>
      simp only [Except.ok.injEq] at h
      subst h
      exact key _ (by rw [hm]; simp)
    · cases h

theorem xresolveL_find (qn : QName) (top : List Tree) (hn : (idsL top).Nodup) (p : Path) (forest : List Tree)
    (hf : ∀ x ∈ forest, findL x.id top = some x) (m : Tree) (h : xresolveL qn p forest = .ok m) :
    findL m.id top = some m := by
  induction p generalizing forest with
  | nil => simp [xresolveL] at h
  | cons st rest ih =>
    simp only [xresolveL] at h
    split at h
    · cases h
    · next m1 hm1 =>
      have hmem := xstep_mem qn st forest m1 hm1
      cases rest with
      | nil =>
        simp only [Except.ok.injEq] at h
        subst h
        exact hf m1 hmem
      | cons s2 rest2 =>
        exact ih m1.kids (fun k hk => findL_of_sub top hn m1.id m1 (hf m1 hmem) k hk) h

/-- the node `_xpath` returns is the node `find` returns for its id -/
theorem xresolve_find (qn : QName) (t : Tree) (hn : (ids t).Nodup) (p : Path) (m : Tree)
    (h : xresolve qn t p = .ok m) : find m.id t = some m := by
  have := xresolveL_find qn [t] (by simpa [idsL] using hn) p [t]
    (fun x hx => by
      simp only [List.mem_cons, List.mem_nil_iff, or_false] at hx
      subst hx
      simp [findL, find_self]) m h
  simp only [findL] at this
  cases hft : find m.id t with
  | none => simp [hft] at this
  | some r => simpa [hft] using this

/-! ### surgery -/

theorem isIns_modify (i : Nat) (f : Payload → Payload) (t : Tree)
    (hg : ∀ p, attrHas (f p).attrs INSERT_NAME = attrHas p.attrs INSERT_NAME) :
    isIns (modify i f t) = isIns t := by
  unfold isIns
  rw [payload_modify]
  split
  · exact hg _
  · rfl

mutual
  /-- changing the payload of the node `find` returns, when its rejected payload stays the same (or the node is
  flagged inserted and not the root of `t`) -/
  theorem rej_modify (i : Nat) (f : Payload → Payload) (m : Tree)
      (hg : ∀ p, attrHas (f p).attrs INSERT_NAME = attrHas p.attrs INSERT_NAME) (t : Tree) (hn : (ids t).Nodup)
      (hf : find i t = some m) (hroot : t.id = i → rejP (f m.payload) = rejP m.payload)
      (hm : isIns m = true ∨ rejP (f m.payload) = rejP m.payload) : rej (modify i f t) = rej t := by
    match t with
    | .node j p ks =>
      unfold find at hf
      by_cases h : j = i
      · rw [if_pos h] at hf
        injection hf with hf
        subst hf
        have := hroot h
        simp only [Tree.payload] at this
        simp only [Tree.modify, h, if_true, rej, this]
      · rw [if_neg h] at hf
        simp only [ids, List.nodup_cons] at hn
        simp only [Tree.modify, h, if_false, rej]
        rw [rejL_modify i f m hg ks hn.2 hf hm]
  theorem rejL_modify (i : Nat) (f : Payload → Payload) (m : Tree)
      (hg : ∀ p, attrHas (f p).attrs INSERT_NAME = attrHas p.attrs INSERT_NAME) (ts : List Tree)
      (hn : (idsL ts).Nodup) (hf : findL i ts = some m)
      (hm : isIns m = true ∨ rejP (f m.payload) = rejP m.payload) : rejL (modifyL i f ts) = rejL ts := by
    match ts with
    | [] => simp [findL] at hf
    | t :: rest =>
      simp only [idsL, List.nodup_append] at hn
      obtain ⟨h1, h2, h3⟩ := hn
      simp only [modifyL, rejL, isIns_modify i f t hg]
      unfold findL at hf
      cases hft : find i t with
      | some r =>
        rw [hft] at hf
        injection hf with hf
        subst hf
        have hin : i ∈ ids t := by
          have := (find_ids_sublist i t r hft).subset (id_mem_ids r)
          rwa [find_id i t r hft] at this
        have hnot : i ∉ idsL rest := fun hx => h3 _ hin _ hx rfl
        rw [modifyL_not_mem i f rest hnot]
        split
        · rfl
        · next hni =>
          -- `t` is not flagged: if `t` is the node itself, its rejected payload is unchanged
          have hroot : t.id = i → rejP (f r.payload) = rejP r.payload := by
            intro e
            have : r = t := by
              have h0 := find_self t
              rw [e] at h0
              rw [h0] at hft
              injection hft with hft
              exact hft.symm
            rcases hm with hm | hm
            · rw [this] at hm; exact absurd hm hni
            · exact hm
          rw [rej_modify i f r hg t h1 hft hroot hm]
      | none =>
        rw [hft] at hf
        have hnt : i ∉ ids t := by
          intro hx
          obtain ⟨n', hn'⟩ := find_some_of_mem i t hx
          rw [hft] at hn'; cases hn'
        rw [modify_not_mem i f t hnt]
        split
        · exact rejL_modify i f m hg rest h2 hf hm
        · rw [rejL_modify i f m hg rest h2 hf hm]
end

theorem filter_insertAt {α : Type} (q : α → Bool) (xs : List α) (pos : Nat) (x : α) (hx : q x = false) :
    (insertAt xs pos x).filter q = xs.filter q := by
  unfold insertAt
  rw [List.filter_append, List.filter_cons, hx]
  simp only [Bool.false_eq_true, if_false]
  rw [← List.filter_append, List.take_append_drop]

theorem isIns_insertChild (i pos : Nat) (sub t : Tree) : isIns (insertChild i pos sub t) = isIns t := by
  unfold isIns
  rw [payload_insertChild]

mutual
  /-- inserting a node flagged inserted, anywhere -/
  theorem rej_insert (i pos : Nat) (new : Tree) (hnew : isIns new = true) (t : Tree) :
      rej (insertChild i pos new t) = rej t := by
    match t with
    | .node j p ks =>
      by_cases h : j = i
      · simp only [insertChild, h, if_true, rej]
        rw [rejL_eq, rejL_eq, filter_insertAt _ ks pos new (by simp [hnew])]
      · simp only [insertChild, h, if_false, rej]
        rw [rejL_insert i pos new hnew ks]
  theorem rejL_insert (i pos : Nat) (new : Tree) (hnew : isIns new = true) (ts : List Tree) :
      rejL (insertChildL i pos new ts) = rejL ts := by
    match ts with
    | [] => simp [insertChildL, rejL]
    | t :: rest =>
      simp only [insertChildL, rejL, isIns_insertChild]
      split
      · exact rejL_insert i pos new hnew rest
      · rw [rej_insert i pos new hnew t, rejL_insert i pos new hnew rest]
end

end Rej
end XmlDiffModel
