/-
C10, attributes, part 6: the output of the XML formatter on a differ script, attributes included.
-/
import XmlDiffModel.Proofs.RejAttr4
import XmlDiffModel.Proofs.RejAttr5

namespace XmlDiffModel
namespace Fin
open Tree Undo TextMark XmlDiffModel.Acc XmlDiffModel.Rej XmlDiffModel.Names XmlDiffModel.Along MapId JInv Chw

mutual
  /-- without its attributes the rejected view with attributes is the rejected view -/
  theorem bare_rejA (t : Tree) : bare (rejA t) = rej t := by
    match t with
    | .node i p ks => simp only [rejA, rej, bare, rejPA, rejP, bareL_rejLA ks]
  theorem bareL_rejLA (ts : List Tree) : bareL (rejLA ts) = rejL ts := by
    match ts with
    | [] => rfl
    | t :: rest =>
      simp only [rejLA, rejL]
      split
      · exact bareL_rejLA rest
      · simp only [bareL, bare_rejA t, bareL_rejLA rest]
end

mutual
  theorem ids_bare (t : Tree) : ids (bare t) = ids t := by
    match t with
    | .node i p ks => simp only [bare, ids, idsL_bareL ks]
  theorem idsL_bareL (ts : List Tree) : idsL (bareL ts) = idsL ts := by
    match ts with
    | [] => rfl
    | t :: rest => simp only [bareL, idsL, ids_bare t, idsL_bareL rest]
end

theorem bare_setTailT (o : Option Str) (t : Tree) : bare (setTailT o t) = setTailT o (bare t) := by
  cases t; simp [setTailT, bare]

/-- what `rejAttrs` gives back for one attribute name: the original value, or - for a deleted attribute, whose value
the markup does not record - the placeholder `UNKNOWN` -/
def AttrBack (dec orig : Attrs) : Prop :=
  ∀ k, isDiffKey k = false →
    attrGet dec k = attrGet orig k ∨ (attrGet dec k = some UNKNOWN ∧ (attrGet orig k).isSome = true)

/-- everything the theorems about the output of the formatter on a differ script rest on -/
theorem differ_script_core (bis : Dmp.Bisect) (qn : QName) (cfg : Cfg) (L R : Tree) (M : List (Nat × Nat))
    (fresh : Nat) (script : List Action) (final : Tree) (ft : List Str) (w : Bool)
    (hclean : CleanT L) (hshort : AllP (ShortP w) L) (htag : AllP TagOK L) (hL : (ids L).Nodup) (hRn : (ids R).Nodup)
    (hdisj : ∀ i ∈ ids L, i ∉ ids R)
    (hfL : ∀ i ∈ ids L, i < fresh) (hfR : ∀ i ∈ ids R, i < fresh) (hM : GoodMatching L R M)
    (hR : ∀ x ∈ bfs R, (keys x.payload.attrs).Nodup ∧ XClean (fun k => isDiffKey k = false) x ∧ ShortP w x.payload ∧
      TagOK x.payload)
    (hLa : AllP (AttrFit.PairsP nameOKb valOKb) L)
    (hRa : ∀ x ∈ bfs R, AttrFit.PairsOK nameOKb valOKb x.payload.attrs)
    (h : scriptGen qn cfg L R M fresh = .ok (script, final)) :
    ∃ s' σ out after, runFmtE w bis qn (fstate0 L fresh ft [] w) script = .ok s' ∧
      (∃ N, ∀ f, N ≤ f → undoElement f s'.ph diffElemList s'.tree = .ok (out, after)) ∧
      FinT s'.tree out after ∧ AllP TagOK s'.tree ∧ (ids s'.tree).Nodup ∧ InjOn σ (ids final) ∧
      acc (cln accS) s'.tree = mapId σ final ∧ rej s'.tree = bare L ∧ KAll L s'.tree := by
  obtain ⟨s0, hrun0, K⟩ := differ_script_attrs bis qn cfg L R M fresh script final ft w hclean hshort hL hRn hdisj hfL
    hfR hM (fun x hx => ⟨(hR x hx).1, (hR x hx).2.1, (hR x hx).2.2.1⟩) hLa hRa h
  have hR' : ∀ x ∈ bfs R, (keys x.payload.attrs).Nodup ∧ XClean (fun k => isDiffKey k = false) x :=
    fun x hx => ⟨(hR x hx).1, (hR x hx).2.1⟩
  have hsh := shortTexts_of_right w qn cfg L R M fresh script final (fun x hx => ⟨(hR x hx).1, (hR x hx).2.2.1⟩) h
  have htg := actTagsOK_of_right qn cfg L R M fresh script final (fun x hx => ⟨(hR x hx).1, (hR x hx).2.2.2⟩) h
  obtain ⟨nx, hstrict⟩ := scriptGen_strict qn cfg L R M fresh script final hL hRn hdisj hfL hfR hM
    (fun x hx => (hR x hx).1) (fun x hx hk => by rw [(hR x hx).2.1.1] at hk; cases hk) h
  have hal := scriptGen_along qn (fun k => isDiffKey k = false) cfg L R M fresh script final hL hfL hR' h
  obtain ⟨hpaths, hrun, hacts⟩ := pathsOK_of qn _ script ⟨L, fresh⟩ ⟨final, nx⟩ hal hstrict
  have hpn := plainNames_of_run qn script L fresh ⟨final, nx⟩ hL hfL (keysPlain_of_clean L hclean)
    (fun a ha => (hacts a ha).2.2) hrun
  have hb : TextMark.Base (phInit [] ft) := by
    have := TextMark.base_history [] ft [] (by
      show (phInit [] ft).counter < 0x110000
      have : (phInit [] ft).counter = phStart + 6 := rfl
      rw [this]; decide)
    exact this
  have htok : TOK (fstate0 L fresh ft [] w) := ⟨hL, hfL, isGhost_of_clean L hclean⟩
  have hrok : ROK (fstate0 L fresh ft [] w) := ⟨hL, hfL, isIns_of_clean L hclean, hb, rfl⟩
  have r0 : MapId.Rel (fun x => x) L (acc (cln accS) L) fresh fresh :=
    ⟨by rw [acc_clean L hclean, MapId.mapId_ident], fun a _ b _ e => e, hL, hfL, hfL⟩
  have hA : ∀ x ∈ bfs R, (keys x.payload.attrs).Nodup := fun x hx => (hR x hx).1
  have o1 := Once.scriptGen_once Once.renSel Once.goodSel_ren _ Once.isSome_renSel Once.one_ren qn cfg L R M
    fresh script final hL hRn hfL hM hA h
  have o2 := Once.scriptGen_once Once.textSel Once.goodSel_text _ Once.isSome_textSel Once.one_txt qn cfg L R M
    fresh script final hL hRn hfL hM hA h
  have o3 := Once.scriptGen_once Once.tailSel Once.goodSel_tail _ Once.isSome_tailSel Once.one_tail qn cfg L R
    M fresh script final hL hRn hfL hM hA h
  have hst : ∀ a ∈ script, NoComment a ∧ PlainNames a ∧ TextsOK a ∧ ShortTexts w a :=
    fun a ha => ⟨(hacts a ha).1, hpn a ha, (hacts a ha).2.1, hsh a ha⟩
  obtain ⟨s', σ, h1, r, hfok, h4⟩ := run_E w bis qn script _ ⟨htok, hb, rfl⟩ hrok L fresh (fun x => x) r0 [] [] []
    (jall_init w L hclean hshort) hst hpaths (by simpa using o1) (by simpa using o2) (by simpa using o3) ⟨final, nx⟩ hrun
  have fi0 : TextMark.FInv (fstate0 L fresh ft [] w) :=
    TextMark.finv_init ft L fresh [] w (lowT_of_clean L hclean) (fun d hd => by cases hd)
  obtain ⟨fi, _, tg⟩ := run_E_fin w bis qn script _ ⟨htok, hb, rfl⟩ hrok L fresh (fun x => x) r0 [] [] []
    (jall_init w L hclean hshort) fi0 htag
    (fun a ha => ⟨(hst a ha).1, (hst a ha).2.1, (hst a ha).2.2.1, (hst a ha).2.2.2, htg a ha⟩) hpaths
    (by simpa using o1) (by simpa using o2) (by simpa using o3) ⟨final, nx⟩ hrun s' h1
  obtain ⟨out, after, hu, _, _, hfin⟩ := undoElement_fin s'.ph fi.base s'.tree fi.marked
  -- the two runs are the same run
  rw [h1] at hrun0
  injection hrun0 with hrun0
  subst hrun0
  have hrejL : rej s'.tree = bare L := by rw [h4]; exact rej_clean L hclean
  exact ⟨s', σ, out, after, h1, hu, hfin, tg, hfok.tok.nodup, r.inj, r.eq, hrejL, K⟩

/-- **The reject-all projection of the output with the attributes, for a script of the differ.** -/
theorem differ_script_output_attrs (bis : Dmp.Bisect) (qn : QName) (cfg : Cfg) (L R : Tree) (M : List (Nat × Nat))
    (fresh : Nat) (script : List Action) (final : Tree) (ft : List Str) (w : Bool)
    (hclean : CleanT L) (hshort : AllP (ShortP w) L) (htag : AllP TagOK L) (hL : (ids L).Nodup) (hRn : (ids R).Nodup)
    (hdisj : ∀ i ∈ ids L, i ∉ ids R)
    (hfL : ∀ i ∈ ids L, i < fresh) (hfR : ∀ i ∈ ids R, i < fresh) (hM : GoodMatching L R M)
    (hR : ∀ x ∈ bfs R, (keys x.payload.attrs).Nodup ∧ XClean (fun k => isDiffKey k = false) x ∧ ShortP w x.payload ∧
      TagOK x.payload)
    (hLa : AllP (AttrFit.PairsP nameOKb valOKb) L)
    (hRa : ∀ x ∈ bfs R, AttrFit.PairsOK nameOKb valOKb x.payload.attrs)
    (h : scriptGen qn cfg L R M fresh = .ok (script, final)) :
    ∃ s' out after, runFmtE w bis qn (fstate0 L fresh ft [] w) script = .ok s' ∧
      (∃ N, ∀ f, N ≤ f → undoElement f s'.ph diffElemList s'.tree = .ok (out, after)) ∧
      bare (rejFTA out) = setTailT none (bare L) ∧
      ∀ i p, payOf (rejFTA out) i = some p → ∃ q, payOf L i = some q ∧ AttrBack p.attrs q.attrs := by
  obtain ⟨s', σ, out, after, h1, hu, hfin, tg, hnd, _, _, hrejL, K⟩ := differ_script_core bis qn cfg L R M fresh script
    final ft w hclean hshort htag hL hRn hdisj hfL hfR hM hR hLa hRa h
  have hrA := rejFTA_fin s'.tree out after hfin tg
  refine ⟨s', out, after, h1, hu, ?_, ?_⟩
  · rw [hrA, bare_setTailT, bare_rejA, hrejL]
  · intro i p hp
    rw [hrA] at hp
    obtain ⟨p1, hp1, e1⟩ := payOf_setTailT_attrs none (rejA s'.tree) i p hp
    obtain ⟨p2, hp2, e2⟩ := payOf_rejA s'.tree hnd i p1 hp1
    -- `i` is a node of the left document
    have hi : i ∈ ids L := by
      have h5 : i ∈ ids (rejA s'.tree) := by
        unfold payOf at hp1
        cases hf : find i (rejA s'.tree) with
        | none => rw [hf] at hp1; cases hp1
        | some n => exact mem_of_find i _ n hf
      rwa [ids_rejA, hrejL, ids_bare] at h5
    obtain ⟨pw, q, hw1, hq, hk⟩ := K i hi
    rw [hp2] at hw1
    injection hw1 with hw1
    subst hw1
    refine ⟨q, hq, fun k hk' => ?_⟩
    rw [← e1, e2]
    rcases rejAttrs_of_ki q.attrs p2.attrs hk k hk' with h6 | h6
    · exact Or.inl h6
    · exact Or.inr ⟨h6.1, h6.2.1⟩

end Fin
end XmlDiffModel
