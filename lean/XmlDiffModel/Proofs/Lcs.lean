/-
Helper lemmas for C12 (validity, monotonicity and totality of the LCS helper model).
-/
import XmlDiffModel.Model.Lcs

namespace XmlDiffModel.Lcs

def PLt (a b : Nat × Nat) : Prop := a.1 < b.1 ∧ a.2 < b.2

/-- Strictly increasing in both coordinates. -/
def Increasing (ps : Pairs) : Prop := ps.Pairwise PLt

/-- Every pair is in range and related. -/
def Valid (eq : Nat → Nat → Bool) (n m : Nat) (ps : Pairs) : Prop :=
  ∀ p ∈ ps, p.1 < n ∧ p.2 < m ∧ eq p.1 p.2 = true

/-! ### trimming -/

theorem trimStart_spec (eq : Nat → Nat → Bool) (lend rend fuel s : Nat)
    (hs : s ≤ lend ∧ s ≤ rend) (hq : ∀ e, e < s → eq e e = true) :
    let s' := trimStart eq lend rend fuel s
    s ≤ s' ∧ s' ≤ lend ∧ s' ≤ rend ∧ ∀ e, e < s' → eq e e = true := by
  induction fuel generalizing s with
  | zero => simp [trimStart]; exact ⟨hs.1, hs.2, hq⟩
  | succ f ih =>
    simp only [trimStart]
    split
    · next h =>
      have := ih (s + 1) ⟨by omega, by omega⟩ (by
        intro e he
        by_cases h' : e < s
        · exact hq e h'
        · have : e = s := by omega
          subst this; exact h.2.2)
      simp only at this
      exact ⟨by omega, this.2.1, this.2.2.1, this.2.2.2⟩
    · exact ⟨Nat.le_refl _, hs.1, hs.2, hq⟩

theorem trimEnd_spec (eq : Nat → Nat → Bool) (start n m fuel l r : Nat)
    (hl : start ≤ l ∧ l ≤ n) (hr : start ≤ r ∧ r ≤ m) (hd : n - l = m - r)
    (hq : ∀ t, t < n - l → eq (l + t) (r + t) = true) :
    let p := trimEnd eq start fuel l r
    start ≤ p.1 ∧ p.1 ≤ n ∧ start ≤ p.2 ∧ p.2 ≤ m ∧ n - p.1 = m - p.2 ∧
      ∀ t, t < n - p.1 → eq (p.1 + t) (p.2 + t) = true := by
  induction fuel generalizing l r with
  | zero => simp [trimEnd]; exact ⟨hl.1, hl.2, hr.1, hr.2, hd, hq⟩
  | succ f ih =>
    simp only [trimEnd]
    split
    · next h =>
      apply ih (l - 1) (r - 1) ⟨by omega, by omega⟩ ⟨by omega, by omega⟩ (by omega)
      intro t ht
      cases t with
      | zero => simpa using h.2.2
      | succ t =>
        have := hq t (by omega)
        have e1 : l - 1 + (t + 1) = l + t := by omega
        have e2 : r - 1 + (t + 1) = r + t := by omega
        rw [e1, e2]; exact this
    · exact ⟨hl.1, hl.2, hr.1, hr.2, hd, hq⟩

/-- Facts about the context after trimming. -/
structure CtxOK (c : Ctx) : Prop where
  s_le_l : c.start ≤ c.lend
  s_le_r : c.start ≤ c.rend
  l_le : c.lend ≤ c.n
  r_le : c.rend ≤ c.m
  diff : c.n - c.lend = c.m - c.rend
  pre : ∀ e, e < c.start → c.eq e e = true
  suf : ∀ t, t < c.n - c.lend → c.eq (c.lend + t) (c.rend + t) = true

theorem mkCtx_ok (eq : Nat → Nat → Bool) (n m : Nat) : CtxOK (mkCtx eq n m) := by
  have h1 := trimStart_spec eq n m (min n m) 0 ⟨Nat.zero_le _, Nat.zero_le _⟩ (by intro e he; omega)
  simp only at h1
  have h2 := trimEnd_spec eq (trimStart eq n m (min n m) 0) n m (min n m) n m
    ⟨h1.2.1, Nat.le_refl _⟩ ⟨h1.2.2.1, Nat.le_refl _⟩ (by omega) (by intro t ht; omega)
  simp only at h2
  unfold mkCtx
  simp only
  generalize trimEnd eq (trimStart eq n m (min n m) 0) (min n m) n m = p at h2
  obtain ⟨a, b⟩ := p
  exact ⟨h2.1, h2.2.2.1, h2.2.1, h2.2.2.2.1, h2.2.2.2.2.1, h1.2.2.2, h2.2.2.2.2.2⟩

theorem mkCtx_eq (eq : Nat → Nat → Bool) (n m : Nat) :
    (mkCtx eq n m).eq = eq ∧ (mkCtx eq n m).n = n ∧ (mkCtx eq n m).m = m := by
  unfold mkCtx; simp

/-! ### zipFrom -/

theorem mem_zipFrom {len a b : Nat} {p : Nat × Nat} (h : p ∈ zipFrom len a b) :
    ∃ t, t < len ∧ p = (a + t, b + t) := by
  induction len generalizing a b with
  | zero => simp [zipFrom] at h
  | succ l ih =>
    simp only [zipFrom, List.mem_cons] at h
    rcases h with h | h
    · exact ⟨0, by omega, by simpa using h⟩
    · obtain ⟨t, ht, hp⟩ := ih h
      exact ⟨t + 1, by omega, by rw [hp]; congr 1 <;> omega⟩

theorem zipFrom_increasing (len a b : Nat) : Increasing (zipFrom len a b) := by
  induction len generalizing a b with
  | zero => simp [zipFrom, Increasing]
  | succ l ih =>
    simp only [zipFrom, Increasing, List.pairwise_cons]
    refine ⟨?_, ih _ _⟩
    intro p hp
    obtain ⟨t, _, rfl⟩ := mem_zipFrom hp
    simp [PLt]; omega

/-! ### the snake -/

/-- History invariant for an entry at `(x, y)` (coordinates relative to `start`). -/
structure HistOK (c : Ctx) (h : Pairs) (x y : Nat) : Prop where
  inc : Increasing h
  mem : ∀ p ∈ h, c.start ≤ p.1 ∧ p.1 < c.start + x ∧ p.1 < c.lend ∧
      c.start ≤ p.2 ∧ p.2 < c.start + y ∧ p.2 < c.rend ∧ c.eq p.1 p.2 = true

theorem slide_spec (c : Ctx) (fuel x y : Nat) (h : Pairs) (hh : HistOK c h x y) :
    let r := slide c.eq c.start c.lmax c.rmax fuel x y h
    HistOK c r.2.2 r.1 r.2.1 ∧ x ≤ r.1 ∧ (r.1 : Int) - x = (r.2.1 : Int) - y := by
  induction fuel generalizing x y h with
  | zero => simp [slide]; exact hh
  | succ f ih =>
    simp only [slide]
    split
    · next hc =>
      have hh' : HistOK c (h ++ [(x + c.start, y + c.start)]) (x + 1) (y + 1) := by
        constructor
        · unfold Increasing
          rw [List.pairwise_append]
          refine ⟨hh.inc, by simp, ?_⟩
          intro a ha b hb
          simp only [List.mem_singleton] at hb
          subst hb
          have := hh.mem a ha
          simp only [PLt]; omega
        · intro p hp
          simp only [List.mem_append, List.mem_singleton] at hp
          rcases hp with hp | hp
          · obtain ⟨h1, h2, h3, h4, h5, h6, h7⟩ := hh.mem p hp
            exact ⟨h1, by omega, h3, h4, by omega, h6, h7⟩
          · subst hp
            simp only [Ctx.lmax, Ctx.rmax] at hc
            refine ⟨by omega, by omega, by omega, by omega, by omega, by omega, hc.2.2⟩
      have := ih (x + 1) (y + 1) _ hh'
      simp only at this
      refine ⟨this.1, by omega, by omega⟩
    · exact ⟨hh, Nat.le_refl _, by simp⟩

/-! ### results -/

def GoodPs (c : Ctx) (ps : Pairs) : Prop := Increasing ps ∧ Valid c.eq c.n c.m ps

theorem good_final (c : Ctx) (ok : CtxOK c) (h : Pairs) (x y : Nat) (hh : HistOK c h x y) :
    GoodPs c (c.pref ++ h ++ c.suffix) := by
  have hpre : ∀ p ∈ c.pref, p.1 < c.start ∧ p.2 < c.start ∧ p.1 = p.2 := by
    intro p hp
    obtain ⟨t, ht, rfl⟩ := mem_zipFrom hp
    simp; omega
  have hsuf : ∀ p ∈ c.suffix, ∃ t, t < c.n - c.lend ∧ p = (c.lend + t, c.rend + t) := by
    intro p hp
    obtain ⟨t, ht, rfl⟩ := mem_zipFrom hp
    exact ⟨t, by omega, rfl⟩
  constructor
  · unfold Increasing
    rw [List.pairwise_append]
    refine ⟨?_, zipFrom_increasing _ _ _, ?_⟩
    · rw [List.pairwise_append]
      refine ⟨zipFrom_increasing _ _ _, hh.inc, ?_⟩
      intro a ha b hb
      have := hpre a ha
      have := hh.mem b hb
      simp only [PLt]; omega
    · intro a ha b hb
      obtain ⟨t, ht, rfl⟩ := hsuf b hb
      simp only [List.mem_append] at ha
      rcases ha with ha | ha
      · have := hpre a ha
        have := ok.s_le_l; have := ok.s_le_r
        simp only [PLt]; omega
      · have := hh.mem a ha
        simp only [PLt]; omega
  · intro p hp
    simp only [List.mem_append] at hp
    rcases hp with (hp | hp) | hp
    · obtain ⟨h1, h2, h3⟩ := hpre p hp
      have := ok.s_le_l; have := ok.s_le_r; have := ok.l_le; have := ok.r_le
      refine ⟨by omega, by omega, ?_⟩
      have := ok.pre p.1 h1
      rw [← h3]; exact this
    · obtain ⟨h1, h2, h3, h4, h5, h6, h7⟩ := hh.mem p hp
      have := ok.l_le; have := ok.r_le
      exact ⟨by omega, by omega, h7⟩
    · obtain ⟨t, ht, rfl⟩ := hsuf p hp
      have := ok.diff; have := ok.l_le; have := ok.r_le
      exact ⟨by simp; omega, by simp; omega, ok.suf t ht⟩

/-- Entry `(x, h)` stored on diagonal `j` in round `d`. -/
structure EntryOK (c : Ctx) (d : Int) (j : Int) (x : Nat) (h : Pairs) : Prop where
  jle : j ≤ x
  prog : (x : Int) + (x - j) ≥ d
  nonterm : ¬ (c.lmax ≤ x ∧ (c.rmax : Int) ≤ x - j)
  hist : HistOK c h x ((x : Int) - j).toNat

def GetGood (c : Ctx) (d : Int) (F : Furthest) (j : Int) : Prop :=
  ∃ x h, F.get j = some (x, h) ∧ EntryOK c d j x h

def InR (d : Nat) (j : Int) : Prop := -(d : Int) ≤ j ∧ j ≤ d ∧ (j + d) % 2 = 0

def Post (c : Ctx) (d : Nat) (F : Furthest) : Prop := ∀ j, InR d j → GetGood c d F j

/-- Outcome of a loop piece: a good final answer. -/
def DoneGood (c : Ctx) (s : Step) : Prop := ∃ ps, s = .done (.ok ps) ∧ GoodPs c ps

theorem HistOK.mono {c : Ctx} {h : Pairs} {x y x' y' : Nat} (hh : HistOK c h x y)
    (hx : x ≤ x') (hy : y ≤ y') : HistOK c h x' y' := by
  refine ⟨hh.inc, ?_⟩
  intro p hp
  obtain ⟨h1, h2, h3, h4, h5, h6, h7⟩ := hh.mem p hp
  exact ⟨h1, by omega, h3, h4, by omega, h6, h7⟩

theorem finishK_spec (c : Ctx) (ok : CtxOK c) (F : Furthest) (k : Int) (x : Nat) (hist : Pairs)
    (d : Int) (hk : k ≤ x) (hp : (x : Int) + (x - k) ≥ d)
    (hh : HistOK c hist x ((x : Int) - k).toNat) :
    DoneGood c (finishK c F k x hist) ∨
      ∃ x' h', finishK c F k x hist = .cont ((k, (x', h')) :: F) ∧ EntryOK c d k x' h' := by
  unfold finishK
  simp only
  have hneg : ¬ ((x : Int) - k < 0) := by omega
  rw [if_neg hneg]
  have hs := slide_spec c c.lmax x ((x : Int) - k).toNat hist hh
  simp only at hs
  generalize slide c.eq c.start c.lmax c.rmax c.lmax x ((x : Int) - k).toNat hist = r at hs
  obtain ⟨x', y', h'⟩ := r
  simp only at hs ⊢
  obtain ⟨hs1, hs2, hs3⟩ := hs
  have hy : (y' : Int) = x' - k := by
    have : (((x : Int) - k).toNat : Int) = x - k := Int.toNat_of_nonneg (by omega)
    omega
  split
  · left
    exact ⟨_, rfl, good_final c ok h' x' y' hs1⟩
  · next hnt =>
    right
    refine ⟨x', h', rfl, ⟨by omega, by omega, ?_, ?_⟩⟩
    · intro hc
      apply hnt
      exact ⟨hc.1, by omega⟩
    · have : ((x' : Int) - k).toNat = y' := by omega
      rw [this]; exact hs1

theorem get_cons_ne (F : Furthest) (k j : Int) (v : Nat × Pairs) (h : k ≠ j) :
    Furthest.get ((k, v) :: F) j = F.get j := by
  simp [Furthest.get, h]

theorem get_cons_eq (F : Furthest) (k : Int) (v : Nat × Pairs) :
    Furthest.get ((k, v) :: F) k = some v := by
  simp [Furthest.get]

/-- One `k` of round `d' + 1`, given the entries of round `d'`. -/
theorem stepK_spec (c : Ctx) (ok : CtxOK c) (d' : Nat) (F : Furthest) (k : Int)
    (hF : Post c d' F) (hk : InR (d' + 1) k) :
    DoneGood c (stepK c (d' + 1) F k) ∨
      ∃ x' h', stepK c (d' + 1) F k = .cont ((k, (x', h')) :: F) ∧
        EntryOK c ((d' : Int) + 1) k x' h' := by
  obtain ⟨hk1, hk2, hk3⟩ := hk
  have down : ∀ (hlt : k < (d' : Int) + 1), ∃ x0 h0, F.get (k + 1) = some (x0, h0) ∧
      (DoneGood c (finishK c F k x0 h0) ∨
      ∃ x' h', finishK c F k x0 h0 = .cont ((k, (x', h')) :: F) ∧
        EntryOK c ((d' : Int) + 1) k x' h') := by
    intro hlt
    obtain ⟨x0, h0, hg, he⟩ := hF (k + 1) ⟨by push_cast at hk1 ⊢; omega, by omega, by push_cast at hk3 ⊢; omega⟩
    refine ⟨x0, h0, hg, ?_⟩
    have hj := he.jle
    have hp := he.prog
    apply finishK_spec c ok F k x0 h0 _ (by omega) (by omega)
    exact he.hist.mono (Nat.le_refl _) (by omega)
  have right : ∀ (hgt : -((d' : Int) + 1) < k), ∃ x0 h0, F.get (k - 1) = some (x0, h0) ∧
      (DoneGood c (finishK c F k (x0 + 1) h0) ∨
      ∃ x' h', finishK c F k (x0 + 1) h0 = .cont ((k, (x', h')) :: F) ∧
        EntryOK c ((d' : Int) + 1) k x' h') := by
    intro hgt
    obtain ⟨x0, h0, hg, he⟩ := hF (k - 1) ⟨by omega, by push_cast at hk2 ⊢; omega, by push_cast at hk3 ⊢; omega⟩
    refine ⟨x0, h0, hg, ?_⟩
    have hj := he.jle
    have hp := he.prog
    apply finishK_spec c ok F k (x0 + 1) h0 _ (by push_cast; omega) (by push_cast; omega)
    apply he.hist.mono (Nat.le_succ _)
    push_cast; omega
  unfold stepK goDown
  by_cases h1 : k = -(((d' + 1 : Nat)) : Int)
  · rw [if_pos h1]
    simp only
    obtain ⟨x0, h0, hg, hr⟩ := down (by push_cast at h1; omega)
    rw [hg]; exact hr
  · rw [if_neg h1]
    by_cases h2 : k ≠ ((d' + 1 : Nat) : Int)
    · rw [if_pos h2]
      obtain ⟨x0, h0, hg, hr⟩ := down (by push_cast at h2 hk2; omega)
      obtain ⟨x1, h1', hg1, hr1⟩ := right (by push_cast at h1 hk1; omega)
      rw [hg, hg1]
      simp only
      by_cases hlt : x1 < x0
      · simp only [hlt, decide_true]; exact hr
      · simp only [hlt, decide_false]; exact hr1
    · rw [if_neg h2]
      simp only
      obtain ⟨x1, h1', hg1, hr1⟩ := right (by push_cast at h1 hk1; omega)
      rw [hg1]; exact hr1

theorem mem_ksFrom {cnt : Nat} {a k : Int} (h : k ∈ ksFrom cnt a) :
    ∃ t : Nat, t < cnt ∧ k = a + 2 * t := by
  induction cnt generalizing a with
  | zero => simp [ksFrom] at h
  | succ n ih =>
    simp only [ksFrom, List.mem_cons] at h
    rcases h with h | h
    · exact ⟨0, by omega, by omega⟩
    · obtain ⟨t, ht, hk⟩ := ih h
      exact ⟨t + 1, by omega, by push_cast; omega⟩

theorem ksFrom_mem (cnt : Nat) (a : Int) (t : Nat) (ht : t < cnt) : a + 2 * t ∈ ksFrom cnt a := by
  induction cnt generalizing a t with
  | zero => omega
  | succ n ih =>
    simp only [ksFrom, List.mem_cons]
    cases t with
    | zero => left; simp
    | succ t =>
      right
      have := ih (a + 2) t (by omega)
      have e : a + 2 + 2 * (t : Int) = a + 2 * ((t + 1 : Nat) : Int) := by push_cast; omega
      rw [← e]; exact this

theorem mem_ks_iff (d : Nat) (k : Int) : k ∈ ks d ↔ InR d k := by
  unfold ks InR
  constructor
  · intro h
    obtain ⟨t, ht, rfl⟩ := mem_ksFrom h
    omega
  · intro ⟨h1, h2, h3⟩
    have : ∃ t : Nat, k = -(d : Int) + 2 * t := ⟨((k + d) / 2).toNat, by omega⟩
    obtain ⟨t, rfl⟩ := this
    exact ksFrom_mem _ _ t (by omega)

theorem getGood_cons (c : Ctx) (d : Int) (F : Furthest) (k : Int) (x : Nat) (h : Pairs)
    (he : EntryOK c d k x h) (j : Int) (hj : GetGood c d F j ∨ j = k) :
    GetGood c d ((k, (x, h)) :: F) j := by
  by_cases hjk : k = j
  · subst hjk
    exact ⟨x, h, get_cons_eq _ _ _, he⟩
  · rcases hj with hj | hj
    · obtain ⟨x0, h0, hg, h1⟩ := hj
      exact ⟨x0, h0, by rw [get_cons_ne _ _ _ _ hjk]; exact hg, h1⟩
    · exact absurd hj.symm hjk

theorem kLoop_spec (c : Ctx) (ok : CtxOK c) (d' : Nat) (rest : List Int) (F : Furthest)
    (hF : Post c d' F) (hr : ∀ k ∈ rest, InR (d' + 1) k) :
    DoneGood c (kLoop c (d' + 1) rest F) ∨
      ∃ F', kLoop c (d' + 1) rest F = .cont F' ∧ Post c d' F' ∧
        (∀ j, GetGood c ((d' : Int) + 1) F j → GetGood c ((d' : Int) + 1) F' j) ∧
        ∀ k ∈ rest, GetGood c ((d' : Int) + 1) F' k := by
  induction rest generalizing F with
  | nil =>
    right
    exact ⟨F, rfl, hF, fun _ h => h, by simp⟩
  | cons k rest ih =>
    simp only [kLoop]
    have hk := hr k (by simp)
    rcases stepK_spec c ok d' F k hF hk with ⟨ps, h1, h2⟩ | ⟨x', h', h1, h2⟩
    · left; rw [h1]; exact ⟨ps, rfl, h2⟩
    · rw [h1]
      simp only
      have hF' : Post c d' ((k, (x', h')) :: F) := by
        intro j hj
        obtain ⟨x0, h0, hg, he⟩ := hF j hj
        have : k ≠ j := by
          intro hkj; subst hkj
          have := hk.2.2; have := hj.2.2
          push_cast at *; omega
        exact ⟨x0, h0, by rw [get_cons_ne _ _ _ _ this]; exact hg, he⟩
      rcases ih _ hF' (fun k' hk' => hr k' (by simp [hk'])) with hd | ⟨F', e1, e2, e3, e4⟩
      · left; exact hd
      · right
        refine ⟨F', e1, e2, ?_, ?_⟩
        · intro j hj
          exact e3 j (getGood_cons c _ F k x' h' h2 j (Or.inl hj))
        · intro k' hk'
          simp only [List.mem_cons] at hk'
          rcases hk' with rfl | hk'
          · exact e3 _ (getGood_cons c _ F _ x' h' h2 _ (Or.inr rfl))
          · exact e4 k' hk'

theorem dLoop_spec (c : Ctx) (ok : CtxOK c) (fuel d' : Nat) (F : Furthest)
    (hF : Post c d' F) (hfuel : d' + 1 + fuel = c.lmax + c.rmax + 1) :
    ∃ ps, dLoop c fuel (d' + 1) F = .ok ps ∧ GoodPs c ps := by
  induction fuel generalizing d' F with
  | zero =>
    exfalso
    -- round `lmax + rmax` was completed without returning: impossible on diagonal lmax - rmax
    obtain ⟨x, h, _, he⟩ := hF ((c.lmax : Int) - c.rmax) ⟨by omega, by omega, by omega⟩
    have := he.prog
    apply he.nonterm
    constructor <;> omega
  | succ f ih =>
    simp only [dLoop]
    rcases kLoop_spec c ok d' (ks (d' + 1)) F hF (fun k hk => (mem_ks_iff _ _).1 hk) with
      ⟨ps, h1, h2⟩ | ⟨F', e1, _, _, e4⟩
    · rw [h1]; exact ⟨ps, rfl, h2⟩
    · rw [e1]
      simp only
      apply ih (d' + 1) F' _ (by omega)
      intro j hj
      have := e4 j ((mem_ks_iff _ _).2 hj)
      simpa using this

theorem lcs_spec (eq : Nat → Nat → Bool) (n m : Nat) :
    ∃ ps, lcs eq n m = .ok ps ∧ Increasing ps ∧ Valid eq n m ps := by
  have ok := mkCtx_ok eq n m
  obtain ⟨e1, e2, e3⟩ := mkCtx_eq eq n m
  unfold lcs
  simp only
  generalize mkCtx eq n m = c at ok e1 e2 e3
  split
  · next h0 =>
    refine ⟨_, rfl, zipFrom_increasing _ _ _, ?_⟩
    intro p hp
    obtain ⟨t, ht, rfl⟩ := mem_zipFrom hp
    have h1 := ok.s_le_l; have h2 := ok.s_le_r; have h3 := ok.l_le; have h4 := ok.r_le
    have h5 := ok.diff
    simp only [Ctx.lmax, Ctx.rmax] at h0
    refine ⟨by simp; omega, by simp; omega, ?_⟩
    simp only [Nat.zero_add]
    by_cases hts : t < c.start
    · rw [← e1]; exact ok.pre t hts
    · have := ok.suf (t - c.lend) (by omega)
      have e4 : c.lend + (t - c.lend) = t := by omega
      have e5 : c.rend + (t - c.lend) = t := by omega
      rw [e4, e5] at this
      rw [← e1]; exact this
  · next h0 =>
    have key : ∃ ps, dLoop c (c.lmax + c.rmax + 1) 0 [(1, (0, []))] = .ok ps ∧ GoodPs c ps := by
      simp only [dLoop]
      have hks : ks 0 = [0] := by simp [ks, ksFrom]
      rw [hks]
      have hstep : stepK c 0 [(1, (0, []))] 0 = finishK c [(1, (0, []))] 0 0 [] := by
        simp [stepK, goDown, Furthest.get]
      simp only [kLoop, hstep]
      have h00 : HistOK c [] 0 (((0 : Nat) : Int) - 0).toNat :=
        ⟨by simp [Increasing], by simp⟩
      rcases finishK_spec c ok [(1, (0, []))] 0 0 [] 0 (by simp) (by simp) h00 with
        ⟨ps, h1, h2⟩ | ⟨x', h', h1, h2⟩
      · rw [h1]; exact ⟨ps, rfl, h2⟩
      · rw [h1]
        simp only
        apply dLoop_spec c ok (c.lmax + c.rmax) 0 _ _ (by omega)
        intro j hj
        have : j = 0 := by unfold InR at hj; omega
        subst this
        exact ⟨x', h', get_cons_eq _ _ _, by simpa using h2⟩
    obtain ⟨ps, h1, h2, h3⟩ := key
    rw [e1, e2, e3] at h3
    exact ⟨ps, h1, h2, h3⟩

end XmlDiffModel.Lcs
