/-
The matcher on equal documents: when the two documents are equal as values (`docEq`, up to attribute order and the
ignored attributes), `match()` pairs every node with its own counterpart - in the default mode, with `best_match`
and with `fast_match` - provided the similarity oracle gives counterparts the score 1.0 once all their children are
matched (and, for `fast_match`, scores a node against its counterpart at least as well as against anything else when
nothing is matched yet).
-/
import XmlDiffModel.Proofs.Match
import XmlDiffModel.Proofs.LcsMax
import XmlDiffModel.Proofs.Chaw6

namespace XmlDiffModel
namespace EqM
open Tree Chw

/-! ### corresponding nodes in post-order -/

theorem docEqL_zip (ign : List Str) (ks ls : List Tree) :
    docEqL ign ks ls ↔ (ks.length = ls.length ∧ ∀ p ∈ ks.zip ls, docEq ign p.1 p.2) := by
  induction ks generalizing ls with
  | nil => cases ls <;> simp [docEqL]
  | cons a as ih =>
    cases ls with
    | nil => simp [docEqL]
    | cons b bs =>
      simp only [docEqL, ih, List.length_cons, List.zip_cons_cons, List.mem_cons]
      constructor
      · rintro ⟨h1, h2, h3⟩
        refine ⟨by omega, ?_⟩
        rintro p (rfl | hp)
        · exact h1
        · exact h3 p hp
      · rintro ⟨h1, h2⟩
        exact ⟨h2 _ (Or.inl rfl), by omega, fun p hp => h2 p (Or.inr hp)⟩

theorem docEq_kids (ign : List Str) (l r : Tree) (h : docEq ign l r) :
    PayEq ign l.payload r.payload ∧ l.kids.length = r.kids.length ∧ ∀ p ∈ l.kids.zip r.kids, docEq ign p.1 p.2 := by
  cases l; cases r
  simp only [docEq] at h
  exact ⟨h.1, (docEqL_zip _ _ _).1 h.2⟩

theorem zip_append_single {α β : Type} (A : List α) (B : List β) (x : α) (y : β) (h : A.length = B.length) :
    (A ++ [x]).zip (B ++ [y]) = A.zip B ++ [(x, y)] := by
  rw [List.zip_append h]; rfl

/-- the pair list `zip (postNodes l) (postNodes r)` of two equal documents: every pair is a pair of equal
subtrees, and the children of a pair are pairs, strictly earlier in the list -/
structure PostFacts (ign : List Str) (A B : List Tree) : Prop where
  len : A.length = B.length
  eqv : ∀ p ∈ A.zip B, docEq ign p.1 p.2
  kids : ∀ p ∈ A.zip B, ∀ q ∈ p.1.kids.zip p.2.kids, q ∈ A.zip B

mutual
  theorem post_facts (ign : List Str) (l r : Tree) (h : docEq ign l r) :
      PostFacts ign (postNodes l).dropLast (postNodes r).dropLast ∧
        ∀ q ∈ l.kids.zip r.kids, q ∈ (postNodes l).dropLast.zip (postNodes r).dropLast := by
    match l, r with
    | .node i p ks, .node j q ls =>
      simp only [docEq] at h
      simp only [postNodes, List.dropLast_concat, Tree.kids]
      exact post_factsL ign ks ls h.2
  theorem post_factsL (ign : List Str) (ks ls : List Tree) (h : docEqL ign ks ls) :
      PostFacts ign (postNodesL ks) (postNodesL ls) ∧
        ∀ q ∈ ks.zip ls, q ∈ (postNodesL ks).zip (postNodesL ls) := by
    match ks, ls with
    | [], [] => simp [postNodesL, PostFacts.mk]
    | [], _ :: _ => simp [docEqL] at h
    | _ :: _, [] => simp [docEqL] at h
    | a :: as, b :: bs =>
      simp only [docEqL] at h
      obtain ⟨fa, ka⟩ := post_facts ign a b h.1
      obtain ⟨fr, kr⟩ := post_factsL ign as bs h.2
      have ea := postNodes_split a
      have eb := postNodes_split b
      have hlen : (postNodes a).length = (postNodes b).length := by
        rw [ea, eb, List.length_append, List.length_append, fa.len]; rfl
      have hz : (postNodesL (a :: as)).zip (postNodesL (b :: bs)) =
          ((postNodes a).dropLast.zip (postNodes b).dropLast ++ [(a, b)]) ++ (postNodesL as).zip (postNodesL bs) := by
        simp only [postNodesL]
        rw [List.zip_append hlen]
        congr 1
        rw [ea, eb, List.dropLast_concat, List.dropLast_concat]
        exact zip_append_single _ _ a b fa.len
      refine ⟨⟨?_, ?_, ?_⟩, ?_⟩
      · simp only [postNodesL, List.length_append, hlen, fr.len]
      · intro p hp
        rw [hz] at hp
        simp only [List.mem_append, List.mem_singleton] at hp
        rcases hp with (hp | hp) | hp
        · exact fa.eqv p hp
        · rw [hp]; exact h.1
        · exact fr.eqv p hp
      · intro p hp q hq
        rw [hz] at hp ⊢
        simp only [List.mem_append, List.mem_singleton] at hp ⊢
        rcases hp with (hp | hp) | hp
        · exact Or.inl (Or.inl (fa.kids p hp q hq))
        · rw [hp] at hq; exact Or.inl (Or.inl (ka q hq))
        · exact Or.inr (fr.kids p hp q hq)
      · intro q hq
        rw [hz]
        simp only [List.zip_cons_cons, List.mem_cons] at hq
        simp only [List.mem_append, List.mem_singleton]
        rcases hq with hq | hq
        · exact Or.inl (Or.inr hq)
        · exact Or.inr (kr q hq)
end

/-! ### order of the post-order list: children come before their parent -/

mutual
  theorem mem_post_ids (t : Tree) : ∀ a ∈ postNodes t, ∀ i ∈ ids a, i ∈ ids t := by
    match t with
    | .node j p ks =>
      intro a ha i hi
      simp only [postNodes, List.mem_append, List.mem_singleton] at ha
      rcases ha with ha | ha
      · simp only [ids, List.mem_cons]
        exact Or.inr (mem_postL_ids ks a ha i hi)
      · rw [ha] at hi; exact hi
  theorem mem_postL_ids (ts : List Tree) : ∀ a ∈ postNodesL ts, ∀ i ∈ ids a, i ∈ idsL ts := by
    match ts with
    | [] => intro a ha; simp [postNodesL] at ha
    | t :: rest =>
      intro a ha i hi
      simp only [postNodesL, List.mem_append] at ha
      simp only [idsL, List.mem_append]
      rcases ha with ha | ha
      · exact Or.inl (mem_post_ids t a ha i hi)
      · exact Or.inr (mem_postL_ids rest a ha i hi)
end

theorem kid_id_mem (a : Tree) (k : Nat) (hk : k ∈ a.kids.map Tree.id) : k ∈ idsL a.kids := by
  obtain ⟨b, hb, rfl⟩ := List.mem_map.1 hk
  generalize a.kids = ks at hb
  induction ks with
  | nil => simp at hb
  | cons c cs ih =>
    simp only [idsL, List.mem_append]
    simp only [List.mem_cons] at hb
    rcases hb with rfl | hb
    · left; cases b; simp [ids, Tree.id]
    · exact Or.inr (ih hb)

theorem kid_id_mem_ids (a : Tree) (k : Nat) (hk : k ∈ a.kids.map Tree.id) : k ∈ ids a ∧ (ids a).Nodup → k ≠ a.id := by
  intro ⟨_, hn⟩
  have := kid_id_mem a k hk
  cases a with
  | node i p ks =>
    simp only [ids, List.nodup_cons, Tree.kids] at hn this
    intro e
    simp only [Tree.id] at e
    exact hn.1 (e ▸ this)

/-- later entries of the post-order list are not children of earlier ones -/
def NotKidOf (a b : Tree) : Prop := b.id ∉ a.kids.map Tree.id

mutual
  theorem post_order_pw (t : Tree) (h : (ids t).Nodup) : (postNodes t).Pairwise NotKidOf := by
    match t with
    | .node j p ks =>
      simp only [ids, List.nodup_cons] at h
      simp only [postNodes]
      rw [List.pairwise_append]
      refine ⟨postL_order_pw ks h.2, by simp, ?_⟩
      intro a ha b hb
      simp only [List.mem_singleton] at hb
      subst hb
      intro hk
      have h1 := kid_id_mem a _ hk
      have h2 : ∀ i ∈ idsL a.kids, i ∈ ids a := by
        intro i hi; cases a; simp only [ids, Tree.kids, List.mem_cons] at hi ⊢; exact Or.inr hi
      exact h.1 (mem_postL_ids ks a ha _ (h2 _ h1))
  theorem postL_order_pw (ts : List Tree) (h : (idsL ts).Nodup) : (postNodesL ts).Pairwise NotKidOf := by
    match ts with
    | [] => simp [postNodesL]
    | t :: rest =>
      simp only [idsL, List.nodup_append] at h
      obtain ⟨h1, h2, h3⟩ := h
      simp only [postNodesL]
      rw [List.pairwise_append]
      refine ⟨post_order_pw t h1, postL_order_pw rest h2, ?_⟩
      intro a ha b hb hk
      have k1 := kid_id_mem a _ hk
      have k2 : ∀ i ∈ idsL a.kids, i ∈ ids a := by
        intro i hi; cases a; simp only [ids, Tree.kids, List.mem_cons] at hi ⊢; exact Or.inr hi
      have k3 := mem_post_ids t a ha _ (k2 _ k1)
      have k4 : b.id ∈ idsL rest := mem_postL_ids rest b hb b.id (by cases b; simp [ids, Tree.id])
      exact h3 _ k3 _ k4 rfl
end

/-! ### a node against its counterpart scores 1.0 once the children are matched -/

theorem uniqueDecision_eq (cfg : Cfg) (l r : Payload) (h : PayEq cfg.ignored l r) (us : List UAttr) :
    uniqueDecision cfg l r us = none ∨ uniqueDecision cfg l r us = some Score.one := by
  induction us with
  | nil => left; rfl
  | cons u rest ih =>
    have key : ∀ (attr : Str) (app : Bool),
        (if (!app) = true then uniqueDecision cfg l r rest
          else if attr ∈ cfg.ignored then uniqueDecision cfg l r rest
          else if (attrHas l.attrs attr || attrHas r.attrs attr) = true then
            some (if attrGet l.attrs attr = attrGet r.attrs attr then Score.one else 0)
          else uniqueDecision cfg l r rest) = none ∨
        (if (!app) = true then uniqueDecision cfg l r rest
          else if attr ∈ cfg.ignored then uniqueDecision cfg l r rest
          else if (attrHas l.attrs attr || attrHas r.attrs attr) = true then
            some (if attrGet l.attrs attr = attrGet r.attrs attr then Score.one else 0)
          else uniqueDecision cfg l r rest) = some Score.one := by
      intro attr app
      by_cases h1 : (!app) = true
      · rw [if_pos h1]; exact ih
      · rw [if_neg h1]
        by_cases h2 : attr ∈ cfg.ignored
        · rw [if_pos h2]; exact ih
        · rw [if_neg h2]
          by_cases h3 : (attrHas l.attrs attr || attrHas r.attrs attr) = true
          · rw [if_pos h3, if_pos (h.2.2.2.2 _ h2)]
            right; rfl
          · rw [if_neg h3]; exact ih
    cases u with
    | plain a => simp only [uniqueDecision]; exact key a true
    | tagged t a => simp only [uniqueDecision]; exact key a _

theorem childCount_all (ms : Matches) (lk rk : List Tree) (hlen : lk.length = rk.length)
    (hm : ∀ q ∈ lk.zip rk, l2rGet ms q.1.id = some q.2.id) :
    childCount ms (lk.map Tree.id) (rk.map Tree.id) = lk.length := by
  induction lk generalizing rk with
  | nil => simp [childCount]
  | cons a as ih =>
    cases rk with
    | nil => simp at hlen
    | cons b bs =>
      have h1 := hm (a, b) (by simp)
      simp only at h1
      simp only [List.map_cons, childCount, h1, List.mem_cons, true_or, if_true, List.erase_cons_head,
        List.length_cons]
      rw [ih bs (by simpa using hlen) (fun q hq => hm q (by simp [hq]))]
      omega

/-- the argument the oracle is asked with for a pair of counterparts -/
def fullCount (l : Tree) : Nat := if l.payload.kind = .comment then 0 else l.kids.length

theorem nodeRatio_one (cfg : Cfg) (sim : Sim) (ms : Matches) (l r : Tree) (h : docEq cfg.ignored l r)
    (hm : ∀ q ∈ l.kids.zip r.kids, l2rGet ms q.1.id = some q.2.id)
    (hs : sim l.id r.id (fullCount l) = Score.one) : nodeRatio cfg sim ms l r = Score.one := by
  obtain ⟨hp, hlen, _⟩ := docEq_kids _ l r h
  unfold nodeRatio
  have hk := hp.1
  unfold fullCount at hs
  cases hkl : l.payload.kind with
  | comment =>
    rw [← hk, hkl]
    simp only
    rw [hkl] at hs
    simpa using hs
  | elem =>
    rw [← hk, hkl]
    simp only
    rcases uniqueDecision_eq cfg l.payload r.payload hp cfg.uniqueattrs with e | e
    · rw [e]
      simp only
      rw [childCount_all ms l.kids r.kids hlen hm]
      rw [hkl] at hs
      simpa using hs
    · rw [e]

/-! ### the loops on lists of counterparts -/

/-- ids of corresponding nodes -/
def idp (ls rs : List Tree) : List (Nat × Nat) := (ls.zip rs).map (fun p => (p.1.id, p.2.id))

/-- both directions of the maps answer with the counterpart -/
def Looks (ms : Matches) (XP : List (Nat × Nat)) : Prop :=
  ∀ p ∈ XP, l2rGet ms p.1 = some p.2 ∧ r2lGet ms p.2 = some p.1

/-- what the oracle is assumed to say about counterparts: 1.0 when asked with all children matched -/
def SimOK (sim : Sim) (ls rs : List Tree) : Prop :=
  ∀ p ∈ ls.zip rs, sim p.1.id p.2.id (fullCount p.1) = Score.one

/-- `ls` / `rs`: the nodes still to be processed and their counterparts, position by position; `XP`: the id pairs
matched so far -/
structure LoopInv (ign : List Str) (ls rs : List Tree) (XP : List (Nat × Nat)) : Prop where
  len : ls.length = rs.length
  eqv : ∀ p ∈ ls.zip rs, docEq ign p.1 p.2
  kidsIn : ∀ p ∈ ls.zip rs, ∀ q ∈ p.1.kids.zip p.2.kids, (q.1.id, q.2.id) ∈ XP ∨ q ∈ ls.zip rs
  order : ls.Pairwise NotKidOf
  selfk : ∀ l ∈ ls, l.id ∉ l.kids.map Tree.id
  nodupL : (tids ls).Nodup
  nodupR : (tids rs).Nodup
  freshL : ∀ l ∈ ls, l.id ∉ XP.map (·.1)
  freshR : ∀ r ∈ rs, r.id ∉ XP.map (·.2)

theorem LoopInv.head_matched {ign : List Str} {l r : Tree} {ls rs : List Tree} {XP : List (Nat × Nat)}
    (h : LoopInv ign (l :: ls) (r :: rs) XP) (ms : Matches) (hl : Looks ms XP) :
    ∀ q ∈ l.kids.zip r.kids, l2rGet ms q.1.id = some q.2.id := by
  intro q hq
  rcases h.kidsIn (l, r) (by simp) q hq with hx | hx
  · exact (hl _ hx).1
  · exfalso
    have hq1 : q.1.id ∈ l.kids.map Tree.id := List.mem_map_of_mem (List.of_mem_zip hq).1
    simp only [List.zip_cons_cons, List.mem_cons] at hx
    rcases hx with hx | hx
    · rw [hx] at hq1
      exact h.selfk l (by simp) hq1
    · have := h.order
      simp only [List.pairwise_cons] at this
      exact this.1 q.1 (List.of_mem_zip hx).1 hq1

theorem LoopInv.tail {ign : List Str} {l r : Tree} {ls rs : List Tree} {XP : List (Nat × Nat)}
    (h : LoopInv ign (l :: ls) (r :: rs) XP) : LoopInv ign ls rs ((l.id, r.id) :: XP) := by
  have hnl := h.nodupL
  have hnr := h.nodupR
  simp only [tids, List.map_cons, List.nodup_cons] at hnl hnr
  refine ⟨by simpa using h.len, fun p hp => h.eqv p (by simp [hp]), ?_, ?_, fun x hx => h.selfk x (by simp [hx]),
    hnl.2, hnr.2, ?_, ?_⟩
  · intro p hp q hq
    rcases h.kidsIn p (by simp [hp]) q hq with hx | hx
    · left; simp [hx]
    · simp only [List.zip_cons_cons, List.mem_cons] at hx
      rcases hx with hx | hx
      · left; rw [hx]; simp
      · right; exact hx
  · have := h.order
    simp only [List.pairwise_cons] at this
    exact this.2
  · intro x hx
    simp only [List.map_cons, List.mem_cons, not_or]
    refine ⟨?_, h.freshL x (by simp [hx])⟩
    intro e
    exact hnl.1 (e ▸ List.mem_map_of_mem hx)
  · intro x hx
    simp only [List.map_cons, List.mem_cons, not_or]
    refine ⟨?_, h.freshR x (by simp [hx])⟩
    intro e
    exact hnr.1 (e ▸ List.mem_map_of_mem hx)

theorem Looks.cons {ms : Matches} {XP : List (Nat × Nat)} (hl : Looks ms XP) (a b : Nat)
    (ha : a ∉ XP.map (·.1)) (hb : b ∉ XP.map (·.2)) : Looks ((a, b) :: ms) ((a, b) :: XP) := by
  intro p hp
  simp only [List.mem_cons] at hp
  rcases hp with rfl | hp
  · simp [l2rGet, r2lGet]
  · have h1 : a ≠ p.1 := fun e => ha (e ▸ List.mem_map_of_mem hp)
    have h2 : b ≠ p.2 := fun e => hb (e ▸ List.mem_map_of_mem hp)
    simp only [l2rGet, r2lGet, if_neg h1, if_neg h2]
    exact hl p hp

theorem Looks.mono {ms : Matches} {XP YP : List (Nat × Nat)} (hl : Looks ms XP) (h : ∀ p ∈ YP, p ∈ XP) :
    Looks ms YP := fun p hp => hl p (h p hp)

theorem idp_cons (l r : Tree) (ls rs : List Tree) : idp (l :: ls) (r :: rs) = (l.id, r.id) :: idp ls rs := by
  simp [idp]

theorem defaultLoop_eq (cfg : Cfg) (sim : Sim) (hF : cfg.F ≤ Score.one) (ls rs : List Tree) (XP : List (Nat × Nat))
    (ms : Matches) (h : LoopInv cfg.ignored ls rs XP) (hl : Looks ms XP) (hs : SimOK sim ls rs) :
    Looks (defaultLoop cfg sim ls rs ms) (XP ++ idp ls rs) := by
  induction ls generalizing rs XP ms with
  | nil => simpa [defaultLoop, idp] using hl
  | cons l ls ih =>
    cases rs with
    | nil => have := h.len; simp at this
    | cons r rs =>
      have hone : nodeRatio cfg sim ms l r = Score.one :=
        nodeRatio_one cfg sim ms l r (h.eqv (l, r) (by simp)) (h.head_matched ms hl) (hs (l, r) (by simp))
      have hbest : bestOf cfg sim ms l (r :: rs) none 0 = (some r, Score.one) := by
        simp only [bestOf, hone]
        have : Score.one > 0 := one_pos
        simp [this]
      simp only [defaultLoop, hbest]
      have hge : Score.one ≥ cfg.F := hF
      rw [if_pos hge]
      simp only [eraseId, if_true]
      have := ih rs ((l.id, r.id) :: XP) ((l.id, r.id) :: ms) h.tail
        (hl.cons l.id r.id (h.freshL l (by simp)) (h.freshR r (by simp)))
        (fun p hp => hs p (by simp [hp]))
      apply this.mono
      intro p hp
      rw [idp_cons] at hp
      simp only [List.mem_append, List.mem_cons] at hp ⊢
      rcases hp with hp | hp | hp
      · exact Or.inl (Or.inr hp)
      · exact Or.inl (Or.inl hp)
      · exact Or.inr hp

theorem bestStage1_eq (cfg : Cfg) (sim : Sim) (ls rs : List Tree) (XP : List (Nat × Nat))
    (ms : Matches) (un : List (Tree × Option Tree × Score)) (h : LoopInv cfg.ignored ls rs XP) (hl : Looks ms XP)
    (hs : SimOK sim ls rs) :
    ∃ ms', bestStage1 cfg sim ls rs ms un = ([], ms', un) ∧ Looks ms' (XP ++ idp ls rs) := by
  induction ls generalizing rs XP ms with
  | nil =>
    cases rs with
    | nil => exact ⟨ms, rfl, by simpa [idp] using hl⟩
    | cons r rs => have := h.len; simp at this
  | cons l ls ih =>
    cases rs with
    | nil => have := h.len; simp at this
    | cons r rs =>
      have hone : nodeRatio cfg sim ms l r = Score.one :=
        nodeRatio_one cfg sim ms l r (h.eqv (l, r) (by simp)) (h.head_matched ms hl) (hs (l, r) (by simp))
      have hp : perfectOf cfg sim ms l (r :: rs) none 0 = .inl r := by
        simp only [perfectOf, hone, if_true]
      simp only [bestStage1, hp, eraseId, if_true]
      obtain ⟨ms', e, hl'⟩ := ih rs ((l.id, r.id) :: XP) ((l.id, r.id) :: ms) h.tail
        (hl.cons l.id r.id (h.freshL l (by simp)) (h.freshR r (by simp)))
        (fun p hp => hs p (by simp [hp]))
      refine ⟨ms', e, hl'.mono ?_⟩
      intro p hp
      rw [idp_cons] at hp
      simp only [List.mem_append, List.mem_cons] at hp ⊢
      rcases hp with hp | hp | hp
      · exact Or.inl (Or.inr hp)
      · exact Or.inl (Or.inl hp)
      · exact Or.inr hp

/-! ### the starting point: all non-root nodes in post-order -/

mutual
  theorem mem_post_sublist (t : Tree) : ∀ a ∈ postNodes t, (ids a).Sublist (ids t) := by
    match t with
    | .node j p ks =>
      intro a ha
      simp only [postNodes, List.mem_append, List.mem_singleton] at ha
      rcases ha with ha | ha
      · simp only [ids]
        exact List.Sublist.cons _ (mem_postL_sublist ks a ha)
      · rw [ha]; exact List.Sublist.refl _
  theorem mem_postL_sublist (ts : List Tree) : ∀ a ∈ postNodesL ts, (ids a).Sublist (idsL ts) := by
    match ts with
    | [] => intro a ha; simp [postNodesL] at ha
    | t :: rest =>
      intro a ha
      simp only [postNodesL, List.mem_append] at ha
      simp only [idsL]
      rcases ha with ha | ha
      · exact (mem_post_sublist t a ha).trans (List.sublist_append_left _ _)
      · exact (mem_postL_sublist rest a ha).trans (List.sublist_append_right _ _)
end

theorem self_not_kid (a : Tree) (hn : (ids a).Nodup) : a.id ∉ a.kids.map Tree.id := by
  intro hk
  have := kid_id_mem a _ hk
  cases a with
  | node i p ks =>
    simp only [ids, List.nodup_cons, Tree.kids, Tree.id] at hn this
    exact hn.1 this

theorem init_loopInv (ign : List Str) (L R : Tree) (h : docEq ign L R) (hL : L.WF) (hR : R.WF) :
    LoopInv ign (postNodes L).dropLast (postNodes R).dropLast [] := by
  obtain ⟨pf, _⟩ := post_facts ign L R h
  refine ⟨pf.len, pf.eqv, fun p hp q hq => Or.inr (pf.kids p hp q hq), ?_, ?_, (universe_facts L hL).1,
    (universe_facts R hR).1, by simp, by simp⟩
  · exact (post_order_pw L hL).sublist (List.dropLast_sublist _)
  · intro l hl
    exact self_not_kid l ((mem_post_sublist L l ((List.dropLast_sublist _).subset hl)).nodup hL)

/-! ### the `fast_match` stage -/

theorem inc_sublist_filter (p : Nat → Bool) (len : Nat) : ∀ (xs : List Nat) (a : Nat), xs.Pairwise (· < ·) →
    (∀ x ∈ xs, a ≤ x ∧ x < a + len ∧ p x = true) → xs.Sublist ((List.range' a len).filter p) := by
  induction len with
  | zero =>
    intro xs a _ h
    cases xs with
    | nil => exact List.nil_sublist _
    | cons x rest => have := h x (by simp); omega
  | succ len ih =>
    intro xs a hinc h
    rw [List.range'_succ]
    cases xs with
    | nil => exact List.nil_sublist _
    | cons x rest =>
      rw [List.pairwise_cons] at hinc
      have hx := h x (by simp)
      by_cases hxa : x = a
      · subst hxa
        rw [List.filter_cons_of_pos hx.2.2]
        apply List.Sublist.cons_cons
        apply ih rest (x + 1) hinc.2
        intro y hy
        have := h y (by simp [hy])
        have := hinc.1 y hy
        exact ⟨by omega, by omega, (h y (by simp [hy])).2.2⟩
      · have hsub : (x :: rest).Sublist ((List.range' (a + 1) len).filter p) := by
          apply ih (x :: rest) (a + 1) (List.pairwise_cons.2 hinc)
          intro y hy
          have hy' := h y hy
          refine ⟨?_, by omega, hy'.2.2⟩
          simp only [List.mem_cons] at hy
          rcases hy with rfl | hy
          · omega
          · have := hinc.1 y hy; omega
        rw [List.filter_cons]
        split
        · exact List.Sublist.cons _ hsub
        · exact hsub

theorem fst_eq_snd_of_map {l : List (Nat × Nat)} (h : l.map (·.1) = l.map (·.2)) : ∀ p ∈ l, p.1 = p.2 := by
  induction l with
  | nil => simp
  | cons a rest ih =>
    simp only [List.map_cons, List.cons.injEq] at h
    intro p hp
    simp only [List.mem_cons] at hp
    rcases hp with rfl | hp
    · exact h.1
    · exact ih h.2 p hp

/-- a relation whose rows and columns are empty off the diagonal's support has only the diagonal as maximum common
subsequence -/
theorem lcs_diag (eq : Nat → Nat → Bool) (n : Nat) (hd : ∀ i j, eq i j = true → eq i i = true ∧ eq j j = true)
    (ps : Lcs.Pairs) (h : Lcs.lcs eq n n = .ok ps) :
    (∀ p ∈ ps, p.1 = p.2 ∧ p.1 < n ∧ eq p.1 p.1 = true) ∧ ∀ i, i < n → eq i i = true → (i, i) ∈ ps := by
  obtain ⟨ps', h', hinc, hval⟩ := Lcs.lcs_spec eq n n
  rw [h] at h'; cases h'
  let D := (List.range' 0 n).filter (fun i => eq i i)
  have hDinc : D.Pairwise (· < ·) := (List.pairwise_lt_range' (s := 0) (n := n)).sublist List.filter_sublist
  have hDlen : D.length ≤ ps.length := by
    have := Lcs.lcs_max eq n n ps h (D.map (fun i => (i, i)))
      (by
        unfold Lcs.Increasing
        rw [List.pairwise_map]
        exact hDinc.imp (fun hab => ⟨hab, hab⟩))
      (by
        intro q hq
        obtain ⟨i, hi, rfl⟩ := List.mem_map.1 hq
        have := List.mem_filter.1 hi
        have hr := List.mem_range'_1.1 this.1
        exact ⟨by omega, by omega, by simpa using this.2⟩)
    simpa using this
  have h1 : ps.map (·.1) = D := by
    apply List.Sublist.eq_of_length_le
    · apply inc_sublist_filter _ n _ 0
      · rw [List.pairwise_map]; exact hinc.imp (fun hab => hab.1)
      · intro x hx
        obtain ⟨q, hq, rfl⟩ := List.mem_map.1 hx
        have := hval q hq
        exact ⟨Nat.zero_le _, by omega, (hd _ _ this.2.2).1⟩
    · simpa using hDlen
  have h2 : ps.map (·.2) = D := by
    apply List.Sublist.eq_of_length_le
    · apply inc_sublist_filter _ n _ 0
      · rw [List.pairwise_map]; exact hinc.imp (fun hab => hab.2)
      · intro x hx
        obtain ⟨q, hq, rfl⟩ := List.mem_map.1 hx
        have := hval q hq
        exact ⟨Nat.zero_le _, by omega, (hd _ _ this.2.2).2⟩
    · simpa using hDlen
  have hdiag := fst_eq_snd_of_map (h1.trans h2.symm)
  constructor
  · intro q hq
    have := hval q hq
    exact ⟨hdiag q hq, this.1, (hd _ _ this.2.2).1⟩
  · intro i hi he
    have : i ∈ ps.map (·.1) := by
      rw [h1]
      exact List.mem_filter.2 ⟨List.mem_range'_1.2 ⟨Nat.zero_le _, by omega⟩, he⟩
    obtain ⟨q, hq, rfl⟩ := List.mem_map.1 this
    have := hdiag q hq
    have e : q = (q.1, q.1) := by cases q; simp only at this; subst this; rfl
    rw [← e]; exact hq

theorem zip_filter {α β : Type} (p : α → Bool) (q : β → Bool) : ∀ (as : List α) (bs : List β),
    as.length = bs.length → (∀ x ∈ as.zip bs, p x.1 = q x.2) →
    (as.filter p).zip (bs.filter q) = (as.zip bs).filter (fun x => p x.1) ∧
      (as.filter p).length = (bs.filter q).length := by
  intro as
  induction as with
  | nil => intro bs hl _; cases bs <;> simp_all
  | cons a as ih =>
    intro bs hl h
    cases bs with
    | nil => simp at hl
    | cons b bs =>
      have hab := h (a, b) (by simp)
      simp only at hab
      obtain ⟨i1, i2⟩ := ih bs (by simpa using hl) (fun x hx => h x (by simp [hx]))
      by_cases hp : p a = true
      · have hq : q b = true := hab ▸ hp
        simp only [List.filter_cons, hp, hq, if_true, List.zip_cons_cons, List.length_cons, i1, i2]
        exact ⟨trivial, trivial⟩
      · have hp' : p a = false := by simpa using hp
        have hq : q b = false := hab ▸ hp'
        simp only [List.filter_cons, hp', hq, List.zip_cons_cons]
        exact ⟨by simpa using i1, by simpa using i2⟩

theorem mem_zip_idx {α β : Type} {as : List α} {bs : List β} {x : α × β} (h : x ∈ as.zip bs) :
    ∃ i : Nat, as[i]? = some x.1 ∧ bs[i]? = some x.2 := by
  obtain ⟨i, hi⟩ := List.mem_iff_getElem?.1 h
  rw [List.getElem?_zip_eq_some] at hi
  exact ⟨i, hi⟩

theorem idx_mem_zip {α β : Type} {as : List α} {bs : List β} {i : Nat} {a : α} {b : β} (h1 : as[i]? = some a)
    (h2 : bs[i]? = some b) : (a, b) ∈ as.zip bs :=
  List.mem_iff_getElem?.2 ⟨i, List.getElem?_zip_eq_some.2 ⟨h1, h2⟩⟩

theorem idx_of_id (ts : List Tree) (hn : (tids ts).Nodup) (i j : Nat) (a b : Tree) (h1 : ts[i]? = some a)
    (h2 : ts[j]? = some b) (e : a.id = b.id) : i = j := by
  obtain ⟨hi, e1⟩ := tids_getElem? ts i a h1
  obtain ⟨hj, e2⟩ := tids_getElem? ts j b h2
  rcases Nat.lt_trichotomy i j with hlt | heq | hgt
  · exact absurd (e1.trans (e.trans e2.symm)) (nodup_ne_of_lt hn i j hi hj hlt)
  · exact heq
  · exact absurd (e2.trans (e.symm.trans e1.symm)) (nodup_ne_of_lt hn j i hj hi hgt)

/-- what `fast_match` needs from the oracle, stated on the relation handed to the LCS helper: a node that scores
at least `F` against anything (with nothing matched yet) scores at least `F` against its own counterpart -/
def FastOK (cfg : Cfg) (sim : Sim) (UL UR : List Tree) : Prop :=
  ∀ i j, fastEq cfg sim UL UR i j = true → fastEq cfg sim UL UR i i = true ∧ fastEq cfg sim UL UR j j = true

theorem Looks_self (ms : Matches) (h1 : (lefts ms).Nodup) (h2 : (rights ms).Nodup) : Looks ms ms := by
  induction ms with
  | nil => intro p hp; simp at hp
  | cons a rest ih =>
    simp only [lefts, rights, List.map_cons, List.nodup_cons] at h1 h2
    exact (ih h1.2 h2.2).cons a.1 a.2 h1.1 h2.1

theorem fastStage_eq (cfg : Cfg) (sim : Sim) (hF : 0 < cfg.F) (UL UR : List Tree)
    (h : LoopInv cfg.ignored UL UR []) (hf : FastOK cfg sim UL UR) :
    let res := fastStage cfg sim UL UR
    ∃ XP, LoopInv cfg.ignored res.1 res.2.1 XP ∧ Looks res.2.2 XP ∧
      (∀ q ∈ UL.zip UR, (q.1.id, q.2.id) ∈ XP ∨ q ∈ res.1.zip res.2.1) ∧
      ∀ q ∈ res.1.zip res.2.1, q ∈ UL.zip UR := by
  have hspec := fastStage_spec cfg sim UL UR hF h.nodupL h.nodupR
  unfold fastStage at hspec ⊢
  obtain ⟨ps, hps, _, _⟩ := Lcs.lcs_spec (fastEq cfg sim UL UR) UL.length UR.length
  rw [hps] at hspec ⊢
  simp only at hspec ⊢
  have hps' : Lcs.lcs (fastEq cfg sim UL UR) UL.length UL.length = .ok ps := by
    have := hps
    rw [← h.len] at this
    exact this
  obtain ⟨hd1, hd2⟩ := lcs_diag (fastEq cfg sim UL UR) UL.length hf ps hps'
  let d : Tree × Tree → Bool := fun q => decide (nodeRatio cfg sim [] q.1 q.2 ≥ cfg.F)
  have hdi : ∀ i l r, UL[i]? = some l → UR[i]? = some r → fastEq cfg sim UL UR i i = d (l, r) := by
    intro i l r h1 h2
    simp only [fastEq, h1, h2, d]
  -- membership in the matched pairs
  have memP : ∀ x, x ∈ fastPairs UL UR ps ↔ ∃ q ∈ UL.zip UR, d q = true ∧ x = (q.1.id, q.2.id) := by
    intro x
    constructor
    · intro hx
      simp only [fastPairs, List.mem_filterMap] at hx
      obtain ⟨pq, hpq, hfm⟩ := hx
      obtain ⟨e, hlt, he⟩ := hd1 pq hpq
      cases h1 : UL[pq.1]? with
      | none => simp [h1] at hfm
      | some l =>
        cases h2 : UR[pq.2]? with
        | none => simp [h1, h2] at hfm
        | some r =>
          simp only [h1, h2, Option.some.injEq] at hfm
          rw [← e] at h2
          exact ⟨(l, r), idx_mem_zip h1 h2, by rw [← hdi pq.1 l r h1 h2]; exact he, hfm.symm⟩
    · rintro ⟨q, hq, hdq, rfl⟩
      obtain ⟨i, h1, h2⟩ := mem_zip_idx hq
      have hi : i < UL.length := (List.getElem?_eq_some_iff.1 h1).1
      have := hd2 i hi (by rw [hdi i q.1 q.2 h1 h2]; exact hdq)
      simp only [fastPairs, List.mem_filterMap]
      exact ⟨(i, i), this, by simp [h1, h2]⟩
  -- the filters keep exactly the positions off the diagonal's support
  have hpl : ∀ q ∈ UL.zip UR, (!((fastPairs UL UR ps).map (·.1)).contains q.1.id) = !d q := by
    intro q hq
    congr 1
    cases hdq : d q with
    | true =>
      simp only [List.contains_iff_mem, List.mem_map]
      exact ⟨_, (memP _).2 ⟨q, hq, hdq, rfl⟩, rfl⟩
    | false =>
      rw [Bool.eq_false_iff]
      intro hc
      simp only [List.contains_iff_mem, List.mem_map] at hc
      obtain ⟨x, hx, e⟩ := hc
      obtain ⟨q', hq', hdq', rfl⟩ := (memP x).1 hx
      simp only at e
      obtain ⟨i, i1, i2⟩ := mem_zip_idx hq
      obtain ⟨j, j1, j2⟩ := mem_zip_idx hq'
      have := idx_of_id UL h.nodupL j i _ _ j1 i1 e
      subst this
      rw [i1] at j1; rw [i2] at j2
      have : q' = q := by cases q; cases q'; simp_all
      rw [this, hdq] at hdq'; cases hdq'
  have hpr : ∀ q ∈ UL.zip UR, (!((fastPairs UL UR ps).map (·.2)).contains q.2.id) = !d q := by
    intro q hq
    congr 1
    cases hdq : d q with
    | true =>
      simp only [List.contains_iff_mem, List.mem_map]
      exact ⟨_, (memP _).2 ⟨q, hq, hdq, rfl⟩, rfl⟩
    | false =>
      rw [Bool.eq_false_iff]
      intro hc
      simp only [List.contains_iff_mem, List.mem_map] at hc
      obtain ⟨x, hx, e⟩ := hc
      obtain ⟨q', hq', hdq', rfl⟩ := (memP x).1 hx
      simp only at e
      obtain ⟨i, i1, i2⟩ := mem_zip_idx hq
      obtain ⟨j, j1, j2⟩ := mem_zip_idx hq'
      have := idx_of_id UR h.nodupR j i _ _ j2 i2 e
      subst this
      rw [i1] at j1; rw [i2] at j2
      have : q' = q := by cases q; cases q'; simp_all
      rw [this, hdq] at hdq'; cases hdq'
  obtain ⟨hz, hzl⟩ := zip_filter (fun l : Tree => !((fastPairs UL UR ps).map (·.1)).contains l.id)
    (fun r : Tree => !((fastPairs UL UR ps).map (·.2)).contains r.id) UL UR h.len
    (fun q hq => (hpl q hq).trans (hpr q hq).symm)
  have hsubz : ∀ q, q ∈ (UL.filter (fun l : Tree => !((fastPairs UL UR ps).map (·.1)).contains l.id)).zip
      (UR.filter (fun r : Tree => !((fastPairs UL UR ps).map (·.2)).contains r.id)) ↔ q ∈ UL.zip UR ∧ d q = false := by
    intro q
    rw [hz, List.mem_filter]
    constructor
    · rintro ⟨h1, h2⟩
      refine ⟨h1, ?_⟩
      have := hpl q h1
      rw [this] at h2
      simpa using h2
    · rintro ⟨h1, h2⟩
      refine ⟨h1, ?_⟩
      have := hpl q h1
      rw [this, h2]; rfl
  refine ⟨fastPairs UL UR ps, ⟨hzl, ?_, ?_, ?_, ?_, ?_, ?_, ?_, ?_⟩, ?_, ?_, ?_⟩
  · intro q hq; exact h.eqv q ((hsubz q).1 hq).1
  · intro q hq k hk
    rcases h.kidsIn q ((hsubz q).1 hq).1 k hk with hx | hx
    · simp at hx
    · cases hdk : d k with
      | true => left; exact (memP _).2 ⟨k, hx, hdk, rfl⟩
      | false => right; exact (hsubz k).2 ⟨hx, hdk⟩
  · exact h.order.sublist List.filter_sublist
  · intro l hl; exact h.selfk l (List.mem_filter.1 hl).1
  · exact (List.Sublist.map Tree.id List.filter_sublist).nodup h.nodupL
  · exact (List.Sublist.map Tree.id List.filter_sublist).nodup h.nodupR
  · intro l hl
    have := (List.mem_filter.1 hl).2
    intro hm
    simp only [Bool.not_eq_true', ← Bool.not_eq_true, List.contains_iff_mem] at this
    exact this (by simpa using hm)
  · intro r hr
    have := (List.mem_filter.1 hr).2
    intro hm
    simp only [Bool.not_eq_true', ← Bool.not_eq_true, List.contains_iff_mem] at this
    exact this (by simpa using hm)
  · have := Looks_self _ hspec.2.l_nodup hspec.2.r_nodup
    exact this.mono (fun p hp => List.mem_reverse.2 hp)
  · intro q hq
    cases hdq : d q with
    | true => left; exact (memP _).2 ⟨q, hq, hdq, rfl⟩
    | false => right; exact (hsubz q).2 ⟨hq, hdq⟩
  · intro q hq; exact ((hsubz q).1 hq).1

/-! ### the whole matcher on equal documents -/

/-- **`match()` pairs every node with its counterpart** when the two documents are equal (up to attribute order
and ignored attributes), in all three modes. -/
theorem matchNodes_iso (cfg : Cfg) (sim : Sim) (L R : Tree) (h : docEq cfg.ignored L R) (hL : L.WF) (hR : R.WF)
    (hF0 : 0 < cfg.F) (hF : cfg.F ≤ Score.one)
    (hs : SimOK sim (postNodes L).dropLast (postNodes R).dropLast)
    (hf : cfg.fastMatch = true → FastOK cfg sim (postNodes L).dropLast (postNodes R).dropLast) :
    Looks (matchNodes cfg sim L R).reverse (idp (postNodes L) (postNodes R)) := by
  have hinv := init_loopInv cfg.ignored L R h hL hR
  obtain ⟨hl1, hl2, _⟩ := universe_facts L hL
  obtain ⟨hr1, hr2, _⟩ := universe_facts R hR
  -- it is enough to have all non-root pairs
  have key : ∀ ms, Looks ms (idp (postNodes L).dropLast (postNodes R).dropLast) →
      Looks (((L.id, R.id) :: ms).reverse).reverse (idp (postNodes L) (postNodes R)) := by
    intro ms hms
    rw [List.reverse_reverse]
    have := hms.cons L.id R.id
      (by
        intro hm
        apply hl2
        simp only [idp, List.map_map, List.mem_map] at hm
        obtain ⟨q, hq, e⟩ := hm
        simp only [Function.comp] at e
        rw [← e]
        exact List.mem_map_of_mem (List.of_mem_zip hq).1)
      (by
        intro hm
        apply hr2
        simp only [idp, List.map_map, List.mem_map] at hm
        obtain ⟨q, hq, e⟩ := hm
        simp only [Function.comp] at e
        rw [← e]
        exact List.mem_map_of_mem (List.of_mem_zip hq).2)
    apply this.mono
    intro p hp
    have e : idp (postNodes L) (postNodes R) =
        idp (postNodes L).dropLast (postNodes R).dropLast ++ [(L.id, R.id)] := by
      unfold idp
      conv => lhs; rw [postNodes_split L, postNodes_split R]
      rw [zip_append_single _ _ _ _ hinv.len]
      simp
    rw [e] at hp
    simp only [List.mem_append, List.mem_singleton] at hp
    simp only [List.mem_cons]
    rcases hp with hp | hp
    · exact Or.inr hp
    · exact Or.inl hp
  unfold matchNodes
  simp only
  by_cases hfast : cfg.fastMatch = true
  · simp only [hfast, if_true]
    have hfs := fastStage_eq cfg sim hF0 _ _ hinv (hf hfast)
    simp only at hfs
    generalize fastStage cfg sim (postNodes L).dropLast (postNodes R).dropLast = res at hfs
    obtain ⟨lrem, rrem, ms⟩ := res
    obtain ⟨XP, hi, hlk, hcov, hsub⟩ := hfs
    simp only at hi hlk hcov hsub
    apply key
    have := defaultLoop_eq cfg sim hF lrem rrem XP ms hi hlk (fun p hp => hs p (hsub p hp))
    apply this.mono
    intro p hp
    simp only [idp, List.mem_map] at hp
    obtain ⟨q, hq, rfl⟩ := hp
    simp only [List.mem_append]
    rcases hcov q hq with hx | hx
    · exact Or.inl hx
    · right; simp only [idp, List.mem_map]; exact ⟨q, hx, rfl⟩
  · simp only [hfast, Bool.false_eq_true, if_false]
    by_cases hbest : cfg.bestMatch = true
    · simp only [hbest, if_true]
      obtain ⟨ms', e, hl'⟩ := bestStage1_eq cfg sim _ _ [] [] [] hinv (by intro p hp; simp at hp) hs
      rw [e]
      simp only [bestStage2, defaultLoop]
      apply key
      simpa using hl'
    · simp only [hbest, Bool.false_eq_true, if_false]
      apply key
      have := defaultLoop_eq cfg sim hF _ _ [] [] hinv (by intro p hp; simp at hp) hs
      simpa using this

end EqM
end XmlDiffModel
