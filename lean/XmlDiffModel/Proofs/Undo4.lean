/-
C11 round trip, part 4: the substituting side.  `do_element` on a text element produces a placeholder text that is
`Good` with respect to the state it leaves behind.
-/
import XmlDiffModel.Proofs.Undo3
import XmlDiffModel.Proofs.TreeView

namespace XmlDiffModel
namespace Undo
open Tree

/-! ### keys -/

mutual
  theorem size_eraseIds (t : Tree) : size (eraseIds t) = size t := by
    match t with
    | .node i p ks => simp only [eraseIds, size, sizeL_eraseIdsL ks]
  theorem sizeL_eraseIdsL (ts : List Tree) : sizeL (eraseIdsL ts) = sizeL ts := by
    match ts with
    | [] => rfl
    | t :: rest => simp only [eraseIdsL, sizeL, size_eraseIds t, sizeL_eraseIdsL rest]
end

theorem size_keyOf (t : Tree) : size (keyOf t) = size t := by
  cases t with
  | node i p ks => simp only [keyOf, eraseIds, dropTailOf, size, sizeL_eraseIdsL]

theorem keyOf_setTailT (x : Option Str) (t : Tree) : keyOf (setTailT x t) = keyOf t := by
  cases t; simp [keyOf, setTailT, eraseIds, dropTailOf]

/-- two elements with the same key and the tail `""` are the same up to ids -/
theorem eraseIds_of_key (a b : Tree) (hk : keyOf a = keyOf b) (ha : a.payload.tail = some [])
    (hb : b.payload.tail = some []) : eraseIds a = eraseIds b := by
  cases a with
  | node i p ks =>
    cases b with
    | node j q ls =>
      simp only [keyOf, eraseIds, dropTailOf, Tree.node.injEq, true_and] at hk ⊢
      simp only [Tree.payload] at ha hb
      obtain ⟨h1, h2⟩ := hk
      refine ⟨?_, h2⟩
      cases p; cases q
      simp_all

theorem key_payload (a b : Tree) (hk : keyOf a = keyOf b) :
    a.payload.kind = b.payload.kind ∧ a.payload.tag = b.payload.tag ∧ a.payload.attrs = b.payload.attrs := by
  cases a with
  | node i p ks =>
    cases b with
    | node j q ls =>
      simp only [keyOf, eraseIds, dropTailOf, Tree.node.injEq, true_and] at hk
      simp only [Tree.payload]
      obtain ⟨h1, _⟩ := hk
      cases p; cases q
      simp_all

/-! ### the heap -/

theorem findSome_find_mem (heap : List Tree) (j : Nat) (obj : Tree)
    (h : heap.findSome? (fun t => t.find j) = some obj) : ∃ t ∈ heap, t.find j = some obj := by
  induction heap with
  | nil => simp at h
  | cons a rest ih =>
    simp only [List.findSome?_cons] at h
    cases ha : a.find j with
    | some x =>
      rw [ha] at h
      simp only [Option.some.injEq] at h
      exact ⟨a, by simp, by rw [ha, h]⟩
    | none =>
      rw [ha] at h
      obtain ⟨t, ht, hf⟩ := ih h
      exact ⟨t, by simp [ht], hf⟩

/-- pushing an object whose ids are new does not change what an entry points to -/
theorem elemOf_push (st : PhSt) (de : List (Nat × Tree)) (e : PhEntry) (obj new : Tree)
    (h : st.elemOf e de = some obj) (hd : ∀ t ∈ st.heap, ∀ i ∈ ids new, i ∉ ids t) :
    ({ st with heap := new :: st.heap } : PhSt).elemOf e de = some obj := by
  unfold PhSt.elemOf at h ⊢
  cases hde : de.find? (fun p => p.1 == e.elemId) with
  | some p => rw [hde] at h; exact h
  | none =>
    rw [hde] at h
    simp only at h ⊢
    obtain ⟨t, ht, hf⟩ := findSome_find_mem st.heap e.elemId obj h
    have hin : e.elemId ∈ ids t := (mem_ids_iff_find _ _).2 ⟨obj, hf⟩
    have hnew : new.find e.elemId = none := by
      apply find_none
      intro hm
      exact hd t ht _ hm hin
    simp only [List.findSome?_cons, hnew]
    exact h

/-- the object just pushed is what an entry with its id points to -/
theorem elemOf_new (st : PhSt) (de : List (Nat × Tree)) (e : PhEntry) (new : Tree) (hid : e.elemId = new.id)
    (hde : ∀ p ∈ de, p.1 ≠ new.id) : ({ st with heap := new :: st.heap } : PhSt).elemOf e de = some new := by
  unfold PhSt.elemOf
  have : de.find? (fun p => p.1 == e.elemId) = none := by
    rw [List.find?_eq_none]
    intro p hp
    simp only [beq_iff_eq]
    rw [hid]
    exact hde p hp
  rw [this]
  simp only [List.findSome?_cons, hid, find_self]

/-! ### `get_placeholder`, with everything the round trip needs -/

theorem getPlaceholder_spec (st : PhSt) (el : Tree) (r : Role) (c : Option Nat) :
    ∃ e ∈ (getPlaceholder st el r c).2.table, e.ph = (getPlaceholder st el r c).1 ∧ e.key = keyOf el ∧
      e.role = r ∧ e.closePh = c ∧ (e ∈ st.table ∨ e.elemId = el.id) ∧
      (getPlaceholder st el r c).2.heap = st.heap ∧
      (∀ e' ∈ (getPlaceholder st el r c).2.table, e' ∈ st.table ∨ e' = e) := by
  unfold getPlaceholder
  simp only
  cases hl : st.lookup (keyOf el) r c with
  | some ph =>
    obtain ⟨e, he, hs, hp⟩ := lookup_some st _ r c ph hl
    exact ⟨e, he, hp, hs.1, hs.2.1, hs.2.2, Or.inl he, rfl, fun e' he' => Or.inl he'⟩
  | none =>
    refine ⟨_, List.mem_append_right _ (List.mem_singleton.2 rfl), rfl, rfl, rfl, rfl, Or.inr rfl, rfl, ?_⟩
    intro e' he'
    simp only [List.mem_append, List.mem_singleton] at he'
    exact he'

/-! ### a later state sees what an earlier one saw -/

/-- the table only grew, and every entry of the earlier state still points to the same object -/
structure StableTo (st st' : PhSt) (de : List (Nat × Tree)) : Prop where
  ext : Extends st st'
  obj : ∀ e ∈ st.table, ∀ o, st.elemOf e de = some o → st'.elemOf e de = some o

theorem StableTo.trans {a b c : PhSt} {de : List (Nat × Tree)} (h1 : StableTo a b de) (h2 : StableTo b c de) :
    StableTo a c de := by
  refine ⟨h1.ext.trans h2.ext, ?_⟩
  intro e he o ho
  obtain ⟨_, ext, hext⟩ := h1.ext
  exact h2.obj e (by rw [hext]; exact List.mem_append_left _ he) o (h1.obj e he o ho)

theorem mem_of_extends {st st' : PhSt} (h : Extends st st') {e : PhEntry} (he : e ∈ st.table) : e ∈ st'.table := by
  obtain ⟨_, ext, hext⟩ := h
  rw [hext]; exact List.mem_append_left _ he

theorem entryOf_stable {st st' : PhSt} (h : Extends st st') (n : Nat) (e : PhEntry) (he : st.entryOf n = some e) :
    st'.entryOf n = some e := by
  have hm : e ∈ st.table := List.mem_of_find?_eq_some he
  have hp : e.ph = n := by
    have := List.find?_some he
    simpa using this
  rw [← hp]
  exact entryOf_of_mem st' h.1 e (mem_of_extends h hm)

theorem Good.mono {st st' : PhSt} {de : List (Nat × Tree)} {ks : List Tree} {alt : Alt} (h : Good st de ks alt)
    (hs : StableTo st st' de) : Good st' de ks alt := by
  induction h with
  | nil => exact Good.nil
  | fmt c rest o cl eo obj altK altR h1 h2 h3 h4 k5 k6 k7 k8 hcl hno ht htl _ _ ihK ihR =>
    have hm : eo ∈ st.table := List.mem_of_find?_eq_some h1
    refine Good.fmt c rest o cl eo obj altK altR (entryOf_stable hs.ext _ _ h1) h2 h3 (hs.obj eo hm obj h4)
      k5 k6 k7 k8 ?_ hno ht htl ihK ihR
    unfold PhSt.isPh at hcl ⊢
    cases he : st.entryOf cl.toNat with
    | none => rw [he] at hcl; cases hcl
    | some e => rw [entryOf_stable hs.ext _ _ he]; rfl
  | single c rest s es obj altR h1 h2 h3 h4 hl _ ihR =>
    have hm : es ∈ st.table := List.mem_of_find?_eq_some h1
    exact Good.single c rest s es obj altR (entryOf_stable hs.ext _ _ h1) h2 (hs.obj es hm obj h3) h4 hl ihR

/-! ### the state invariant -/

/-- what the object an entry points to looks like -/
def Shape (e : PhEntry) (obj : Tree) : Prop :=
  match e.role with
  | .single => keyOf obj = e.key ∧ obj.payload.tail = some []
  | .open => obj.kids = [] ∧ obj.payload.kind = e.key.payload.kind ∧ obj.payload.tag = e.key.payload.tag ∧
      obj.payload.attrs = e.key.payload.attrs
  | .close => True

/-- every entry that is not a closing entry and does not belong to an element still being processed (`P`) points
to an object of the right shape -/
def HInv (st : PhSt) (de : List (Nat × Tree)) (P : List Nat) : Prop :=
  ∀ e ∈ st.table, e.elemId ∉ P → e.role ≠ .close → ∃ obj, st.elemOf e de = some obj ∧ Shape e obj

structure Pre (st : PhSt) (de : List (Nat × Tree)) (P : List Nat) (ks : List Tree) : Prop where
  tok : TableOK st
  closed : Closed st
  hinv : HInv st de P
  nodup : (idsL ks).Nodup
  fheap : ∀ i ∈ idsL ks, ∀ h ∈ st.heap, i ∉ ids h
  fde : ∀ i ∈ idsL ks, ∀ p ∈ de, p.1 ≠ i
  fP : ∀ i ∈ idsL ks, i ∉ P
  fent : ∀ i ∈ idsL ks, ∀ e ∈ st.table, e.elemId ≠ i
  big : ∀ e ∈ st.table, e.elemId ∈ P → sizeL ks < size e.key
  low : LowL ks

structure DoRes (st st' : PhSt) (de : List (Nat × Tree)) (P : List Nat) (ks : List Tree) (alt : Alt) : Prop where
  stable : StableTo st st' de
  closed : Closed st'
  hinv : HInv st' de P
  cnt : st.counter ≤ st'.counter
  heapIds : ∀ h ∈ st'.heap, h ∈ st.heap ∨ ∀ i ∈ ids h, i ∈ idsL ks
  newEntries : ∀ e ∈ st'.table, e ∈ st.table ∨ e.elemId ∈ idsL ks
  chars : ∀ x ∈ alt, ∃ e ∈ st'.table, x.1 = phChar e.ph ∧ size e.key ≤ sizeL ks
  good : st'.counter < 0x110000 → Good st' de ks alt

theorem elemOf_heap_eq (st st1 : PhSt) (de : List (Nat × Tree)) (e : PhEntry) (h : st1.heap = st.heap) :
    st1.elemOf e de = st.elemOf e de := by
  unfold PhSt.elemOf; rw [h]

/-- the invariant after `get_placeholder`, when the possibly new entry belongs to a pending element -/
theorem hinv_after (st st1 : PhSt) (de : List (Nat × Tree)) (P P' : List Nat) (h : HInv st de P)
    (hheap : st1.heap = st.heap) (hent : ∀ e ∈ st1.table, e ∈ st.table ∨ e.elemId ∈ P')
    (hsub : ∀ i ∈ P, i ∈ P') : HInv st1 de P' := by
  intro e he hp hr
  rcases hent e he with h1 | h1
  · obtain ⟨obj, ho, hs⟩ := h e h1 (fun hm => hp (hsub _ hm)) hr
    exact ⟨obj, by rw [elemOf_heap_eq st st1 de e hheap]; exact ho, hs⟩
  · exact absurd h1 hp

/-- the invariant after pushing the object of an element that was pending -/
theorem hinv_push (st : PhSt) (de : List (Nat × Tree)) (P P' : List Nat) (o : Tree) (h : HInv st de P')
    (hd : ∀ t ∈ st.heap, ∀ i ∈ ids o, i ∉ ids t) (hde : ∀ p ∈ de, p.1 ≠ o.id)
    (hsh : ∀ e ∈ st.table, e.elemId = o.id → e.role ≠ .close → Shape e o)
    (hP : ∀ i, i ∉ P → i ∉ P' ∨ i = o.id) : HInv ({ st with heap := o :: st.heap } : PhSt) de P := by
  intro e he hp hr
  rcases hP e.elemId hp with h1 | h1
  · obtain ⟨obj, ho, hs⟩ := h e he h1 hr
    exact ⟨obj, elemOf_push st de e obj o ho hd, hs⟩
  · exact ⟨o, elemOf_new st de e o h1 hde, hsh e he h1 hr⟩

theorem idsL_cons_mem (c : Tree) (rest : List Tree) (i : Nat) : i ∈ idsL (c :: rest) ↔ i ∈ ids c ∨ i ∈ idsL rest := by
  simp [idsL]

theorem phChar_ok (st : PhSt) (hT : TableOK st) (hC : Closed st) (hb : st.counter < 0x110000) (e : PhEntry)
    (he : e ∈ st.table) : (phChar e.ph).toNat = e.ph :=
  phChar_toNat e.ph (hC.lob e he) (by have := hT.bound e he; omega)

end Undo
end XmlDiffModel
