/-
C10, attributes, part 2: the invariant `KI` on the formatter's working tree.

`FK k`: the node's annotations mention the attribute name `k` - a flag in the sense of `JFlag.lean`, recorded by
the selector `Once.keySel k`.  `ValsOK`: no value of an ordinary attribute contains the item separator; every handler
keeps it.  `KAll L MT`: every node of the left document is still in the working tree `MT`, and its attributes there
stand for its original attributes (`KI`).  `step_K`: one handler keeps `KAll` when the attribute names it touches are
not mentioned on the node yet and an inserted / new name is absent.
-/
import XmlDiffModel.Proofs.JFlag
import XmlDiffModel.Proofs.RejAttr1
import XmlDiffModel.Proofs.Fin3

namespace XmlDiffModel
namespace Acc
open Tree Undo TextMark MapId JInv Rej Names

/-! ### the flag -/

def FK (k : Str) (p : Payload) : Prop := k ∈ touched p.attrs

theorem annName_ne_mark (a n : String) (h : (a ++ "-attr").toList ≠ n.toList) : dname n ≠ dname (a ++ "-attr") :=
  fun e => h (dname_inj _ _ e).symm

/-- a `diff:` attribute that is not an annotation does not change what the annotations mention -/
theorem touched_mark (W : Attrs) (d v : Str) (hna : ∀ a : String, a ∈ ["add", "update", "rename", "delete"] →
    d ≠ dname (a ++ "-attr")) : touched (attrSet W d v) = touched W := by
  have han : ∀ a : String, a ∈ ["add", "update", "rename", "delete"] → annot (attrSet W d v) a = annot W a := by
    intro a ha
    unfold annot
    rw [attrGet_attrSet, if_neg (fun e => hna a ha e.symm)]
  simp only [touched, han "add" (by simp), han "update" (by simp), han "rename" (by simp), han "delete" (by simp)]

theorem mark_ne (n : String) (hn : n ∈ ["delete", "insert", "rename"]) :
    ∀ a : String, a ∈ ["add", "update", "rename", "delete"] → dname n ≠ dname (a ++ "-attr") := by
  intro a ha
  apply annName_ne_mark
  simp only [List.mem_cons, List.mem_nil_iff, or_false] at hn ha
  rcases hn with rfl | rfl | rfl <;> rcases ha with rfl | rfl | rfl | rfl <;> decide

/-- membership in `touched` after one more item (the statement `hmemT` inside `ki_step`) -/
theorem touched_step (W W' : Attrs) (a : List Str) (u r : List (Str × Str)) (d : List Str)
    (hA : annot W' "add" = annot W "add" ++ a)
    (hU : (annot W' "update").map (cutAt ':') = (annot W "update").map (cutAt ':') ++ u)
    (hR : (annot W' "rename").map (cutAt ':') = (annot W "rename").map (cutAt ':') ++ r)
    (hD : annot W' "delete" = annot W "delete" ++ d) (k : Str) :
    k ∈ touched W' ↔ k ∈ touched W ∨ k ∈ newNames a u r d := by
  have hcount : (touched W').count k = (touched W).count k + (newNames a u r d).count k := by
    simp only [touched, newNames, hA, hU, hR, hD, List.count_append, List.map_append]
    omega
  rw [← List.count_pos_iff, ← List.count_pos_iff, ← List.count_pos_iff, hcount]
  omega

theorem touched_upd (W : Attrs) (name value oldv : Str) (hn : NameOK name) (hov : ';' ∉ oldv) (k : Str)
    (h : k ∈ touched (extendDiffAttr (attrSet W name value) "update" (name ++ [':'] ++ oldv))) :
    k ∈ touched W ∨ k = name := by
  obtain ⟨hp, hc1, hc2, _⟩ := hn
  have hitem : name ++ [':'] ++ oldv = name ++ ':' :: oldv := by simp
  have hsemi : ';' ∉ name ++ [':'] ++ oldv := by
    simp only [List.mem_append, List.mem_cons, List.mem_nil_iff, or_false, not_or]
    exact ⟨⟨hc2, semi_ne_colon⟩, hov⟩
  have hne : name ++ [':'] ++ oldv ≠ [] := by simp
  have := (touched_step W _ [] [(name, oldv)] [] []
    (by rw [annot_extend_other _ "update" "add" _ (by decide), annot_attrSet_plain _ _ _ _ hp]; simp)
    (by rw [annot_extend_self _ _ _ hsemi hne, annot_attrSet_plain _ _ _ _ hp, List.map_append, hitem]
        simp [cutAt_append ':' name oldv hc1])
    (by rw [annot_extend_other _ "update" "rename" _ (by decide), annot_attrSet_plain _ _ _ _ hp]; simp)
    (by rw [annot_extend_other _ "update" "delete" _ (by decide), annot_attrSet_plain _ _ _ _ hp]; simp) k).1 h
  simpa [newNames] using this

theorem touched_add (W : Attrs) (name value : Str) (hn : NameOK name) (k : Str)
    (h : k ∈ touched (extendDiffAttr (attrSet W name value) "add" name)) : k ∈ touched W ∨ k = name := by
  obtain ⟨hp, _, hc2, hne⟩ := hn
  have := (touched_step W _ [name] [] [] []
    (by rw [annot_extend_self _ _ _ hc2 hne, annot_attrSet_plain _ _ _ _ hp])
    (by rw [annot_extend_other _ "add" "update" _ (by decide), annot_attrSet_plain _ _ _ _ hp]; simp)
    (by rw [annot_extend_other _ "add" "rename" _ (by decide), annot_attrSet_plain _ _ _ _ hp]; simp)
    (by rw [annot_extend_other _ "add" "delete" _ (by decide), annot_attrSet_plain _ _ _ _ hp]; simp) k).1 h
  simpa [newNames] using this

theorem touched_delA (W : Attrs) (name : Str) (hn : NameOK name) (k : Str)
    (h : k ∈ touched (extendDiffAttr (attrDel W name) "delete" name)) : k ∈ touched W ∨ k = name := by
  obtain ⟨hp, _, hc2, hne⟩ := hn
  have := (touched_step W _ [] [] [] [name]
    (by rw [annot_extend_other _ "delete" "add" _ (by decide), annot_attrDel_plain _ _ _ hp]; simp)
    (by rw [annot_extend_other _ "delete" "update" _ (by decide), annot_attrDel_plain _ _ _ hp]; simp)
    (by rw [annot_extend_other _ "delete" "rename" _ (by decide), annot_attrDel_plain _ _ _ hp]; simp)
    (by rw [annot_extend_self _ _ _ hc2 hne, annot_attrDel_plain _ _ _ hp]) k).1 h
  simpa [newNames] using this

theorem touched_renA (W : Attrs) (old new v : Str) (ho : NameOK old) (hnw : NameOK new) (k : Str)
    (h : k ∈ touched (extendDiffAttr (attrDel (attrSet W new v) old) "rename" (old ++ [':'] ++ new))) :
    k ∈ touched W ∨ k = old ∨ k = new := by
  obtain ⟨hpo, hco, hso, _⟩ := ho
  obtain ⟨hpn, _, hsn, _⟩ := hnw
  have hitem : old ++ [':'] ++ new = old ++ ':' :: new := by simp
  have hsemi : ';' ∉ old ++ [':'] ++ new := by
    simp only [List.mem_append, List.mem_cons, List.mem_nil_iff, or_false, not_or]
    exact ⟨⟨hso, semi_ne_colon⟩, hsn⟩
  have hne : old ++ [':'] ++ new ≠ [] := by simp
  have := (touched_step W _ [] [] [(old, new)] []
    (by rw [annot_extend_other _ "rename" "add" _ (by decide), annot_attrDel_plain _ _ _ hpo,
          annot_attrSet_plain _ _ _ _ hpn]; simp)
    (by rw [annot_extend_other _ "rename" "update" _ (by decide), annot_attrDel_plain _ _ _ hpo,
          annot_attrSet_plain _ _ _ _ hpn]; simp)
    (by rw [annot_extend_self _ _ _ hsemi hne, annot_attrDel_plain _ _ _ hpo, annot_attrSet_plain _ _ _ _ hpn,
          List.map_append, hitem]
        simp [cutAt_append ':' old new hco])
    (by rw [annot_extend_other _ "rename" "delete" _ (by decide), annot_attrDel_plain _ _ _ hpo,
          annot_attrSet_plain _ _ _ _ hpn]; simp) k).1 h
  simpa [newNames] using this

theorem flagOK_key (k : Str) : FlagOK (FK k) (Once.keySel k) := by
  refine ⟨?_, ?_, ?_, ?_, ?_, ?_, ?_, ?_, ?_, ?_⟩
  · intro p h
    simp only [FK, markDel] at h ⊢
    rwa [show DELETE_NAME = dname "delete" from rfl, touched_mark _ _ _ (mark_ne "delete" (by simp))] at h
  · intro p h
    simp only [FK] at h ⊢
    rwa [show INSERT_NAME = dname "insert" from rfl, touched_mark _ _ _ (mark_ne "insert" (by simp))] at h
  · intro tag h
    simp only [FK] at h
    have : touched [(INSERT_NAME, ([] : Str))] = touched [] := by
      have := touched_mark [] INSERT_NAME [] (mark_ne "insert" (by simp))
      simpa [attrSet] using this
    rw [this] at h
    simp [touched, annot, attrGet] at h
  · intro tag p h
    simp only [FK, fRen] at h ⊢
    rwa [show RENAME_NAME = dname "rename" from rfl, touched_mark _ _ _ (mark_ne "rename" (by simp))] at h
  · intro t p h; exact h
  · intro t p h; exact h
  · intro n name value oldv p hn hov h
    rcases touched_upd p.attrs name value oldv hn hov k h with h1 | h1
    · exact Or.inl h1
    · right; simp [Once.keySel, mentions, h1]
  · intro n name p hn h
    rcases touched_delA p.attrs name hn k h with h1 | h1
    · exact Or.inl h1
    · right; simp [Once.keySel, mentions, h1]
  · intro n name value p hn h
    rcases touched_add p.attrs name value hn k h with h1 | h1
    · exact Or.inl h1
    · right; simp [Once.keySel, mentions, h1]
  · intro n old new v p ho hnw h
    rcases touched_renA p.attrs old new v ho hnw k h with h1 | h1 | h1
    · exact Or.inl h1
    · right; simp [Once.keySel, mentions, h1]
    · right; simp [Once.keySel, mentions, h1]

/-! ### values without the item separator -/

theorem mem_attrSet (as : Attrs) (k v : Str) (kv : Str × Str) (h : kv ∈ attrSet as k v) : kv ∈ as ∨ kv = (k, v) := by
  induction as with
  | nil => simp only [attrSet, List.mem_cons, List.mem_nil_iff, or_false] at h; exact Or.inr h
  | cons x rest ih =>
    obtain ⟨k', v'⟩ := x
    simp only [attrSet] at h
    split at h
    · simp only [List.mem_cons] at h
      rcases h with h | h
      · exact Or.inr h
      · exact Or.inl (List.mem_cons_of_mem _ h)
    · simp only [List.mem_cons] at h
      rcases h with h | h
      · exact Or.inl (by simp [h])
      · rcases ih h with h1 | h1
        · exact Or.inl (List.mem_cons_of_mem _ h1)
        · exact Or.inr h1

def ValsA (as : Attrs) : Prop := ∀ kv ∈ as, isDiffKey kv.1 = false → ';' ∉ kv.2

theorem valsA_set_diff (as : Attrs) (d v : Str) (hd : isDiffKey d = true) (h : ValsA as) : ValsA (attrSet as d v) := by
  intro kv hkv hp
  rcases mem_attrSet as d v kv hkv with h1 | h1
  · exact h kv h1 hp
  · rw [h1] at hp; simp only at hp; rw [hd] at hp; cases hp

theorem valsA_set_val (as : Attrs) (k v : Str) (hv : ';' ∉ v) (h : ValsA as) : ValsA (attrSet as k v) := by
  intro kv hkv hp
  rcases mem_attrSet as k v kv hkv with h1 | h1
  · exact h kv h1 hp
  · rw [h1]; exact hv

theorem valsA_del (as : Attrs) (k : Str) (h : ValsA as) : ValsA (attrDel as k) :=
  fun kv hkv hp => h kv (List.mem_filter.1 hkv).1 hp

theorem valsA_extend (as : Attrs) (action : String) (v : Str) (h : ValsA as) : ValsA (extendDiffAttr as action v) := by
  unfold extendDiffAttr
  simp only
  split
  · split <;> exact valsA_set_diff _ _ _ (isDiffKey_dname _) h
  · exact valsA_set_diff _ _ _ (isDiffKey_dname _) h

theorem valsOK_iff (p : Payload) : ValsOK p ↔ ValsA p.attrs := Iff.rfl

/-- every handler keeps "no value of an ordinary attribute contains `;`" -/
theorem applyFmt_vals (qn : QName) (s s' : FState) (a : Action) (hn : (ids s.tree).Nodup) (fi : FInv s)
    (inv : AllP ValsOK s.tree) (ha : ActValsOK a) (han : AttrNamesOK a) (h : applyFmt qn s a = .ok s') :
    AllP ValsOK s'.tree := by
  have hmod : ∀ (i : Nat) (f : Payload → Payload), (∀ p, ValsOK p → ValsOK (f p)) →
      AllP ValsOK (modifyNode s i f).tree := fun i f hf => allP_modify ValsOK i f hf s.tree inv
  have hdel : ∀ p, ValsOK p → ValsOK { p with attrs := attrSet p.attrs DELETE_NAME [] } :=
    fun p hp => valsA_set_diff _ _ _ isDiffKey_delete hp
  cases a <;> simp only [applyFmt, bind, Except.bind, pure, Except.pure] at h
  case deleteNode n =>
    split at h
    · cases h
    · simp only [Except.ok.injEq] at h; subst h
      exact hmod _ _ hdel
  case insertNode tgt tag pos =>
    split at h
    · cases h
    · simp only [Except.ok.injEq] at h; subst h
      apply allP_insertChild ValsOK _ _ _ _ _ inv
      simp only [AllP, AllPL, and_true]
      intro kv hkv hp
      simp only [List.mem_cons, List.mem_nil_iff, or_false] at hkv
      rw [hkv] at hp
      simp only at hp
      rw [show INSERT_NAME = dname "insert" from rfl, isDiffKey_dname] at hp; cases hp
  case renameNode n tag =>
    split at h
    · cases h
    · simp only [Except.ok.injEq] at h; subst h
      exact hmod _ _ (fun p hp => valsA_set_diff _ _ _ isDiffKey_rename hp)
  case moveNode n tgt pos =>
    split at h
    · cases h
    · next node hnode =>
      split at h
      · cases h
      · next target htarget =>
        simp only [Except.ok.injEq] at h; subst h
        have inv1 := hmod node.id (fun p => { p with attrs := attrSet p.attrs DELETE_NAME [] }) hdel
        apply allP_insertChild ValsOK _ _ _ _ _ inv1
        apply Fin.allP_setAttrsT ValsOK (fun as => attrSet as INSERT_NAME []) _
          (fun p hp => valsA_set_diff p.attrs INSERT_NAME [] (isDiffKey_dname "insert") hp)
        simp only [applyFmt.renumber]
        apply Fin.allP_renum
        exact allP_find ValsOK node.id s.tree node (xresolve_find qn s.tree hn n node hnode) inv
  case updateTextIn n text =>
    split at h
    · cases h
    · next node hnode =>
      split at h
      · simp only [Except.ok.injEq] at h; subst h
        exact hmod _ _ (fun p hp => hp)
      · cases hsg : s.segs with
        | nil => simp [makeDiffTags, hsg] at h
        | cons d more =>
          obtain ⟨h1, h2, h3⟩ := fi.segs d (by rw [hsg]; simp)
          obtain ⟨hm, _, _⟩ := makeDiffTags_eq false s fi.base fi.norep d more hsg h1 h2 h3
          rw [hm] at h
          simp only [Except.ok.injEq] at h; subst h
          exact allP_modify ValsOK node.id (fun p => { p with text := if (emitted (nonEmpty d)).isEmpty then none else some (emitted (nonEmpty d)) }) (fun p hp => hp) s.tree inv
  case updateTextAfter n text =>
    split at h
    · cases h
    · next node hnode =>
      cases hsg : s.segs with
      | nil => simp [makeDiffTags, hsg] at h
      | cons d more =>
        obtain ⟨h1, h2, h3⟩ := fi.segs d (by rw [hsg]; simp)
        obtain ⟨hm, _, _⟩ := makeDiffTags_eq true s fi.base fi.norep d more hsg h1 h2 h3
        rw [hm] at h
        simp only [Except.ok.injEq] at h; subst h
        exact allP_modify ValsOK node.id (fun p => { p with tail := if (emitted (nonEmpty d)).isEmpty then none else some (emitted (nonEmpty d)) }) (fun p hp => hp) s.tree inv
  case updateAttrib n name value =>
    split at h
    · cases h
    · split at h
      · cases h
      · simp only [Except.ok.injEq] at h; subst h
        exact hmod _ _ (fun p hp => valsA_extend _ _ _ (valsA_set_val _ _ _ ha hp))
  case deleteAttrib n name =>
    split at h
    · cases h
    · split at h
      · cases h
      · simp only [Except.ok.injEq] at h; subst h
        exact hmod _ _ (fun p hp => valsA_extend _ _ _ (valsA_del _ _ hp))
  case insertAttrib n name value =>
    split at h
    · cases h
    · simp only [Except.ok.injEq] at h; subst h
      exact hmod _ _ (fun p hp => valsA_extend _ _ _ (valsA_set_val _ _ _ ha hp))
  case renameAttrib n old new =>
    split at h
    · cases h
    · next node hnode =>
      split at h
      · cases h
      · next v hv =>
        simp only [Except.ok.injEq] at h; subst h
        have hnv := allP_find ValsOK node.id s.tree node (xresolve_find qn s.tree hn n node hnode) inv
        have hvv : ';' ∉ v := by
          cases node with
          | node i q ks =>
            simp only [AllP] at hnv
            exact hnv.1 (old, v) (mem_of_attrGet _ _ _ hv) han.1.1
        exact hmod _ _ (fun p hp => valsA_extend _ _ _ (valsA_del _ _ (valsA_set_val _ _ _ hvv hp)))
  case insertComment => cases h
  case insertNamespace => simp only [Except.ok.injEq] at h; subst h; exact inv
  case deleteNamespace => simp only [Except.ok.injEq] at h; subst h; exact inv

/-! ### the invariant on the working tree -/

/-- every node of the left document is in the working tree, and its attributes there stand for its original ones -/
def KAll (L MT : Tree) : Prop :=
  ∀ i ∈ ids L, ∃ p q, payOf MT i = some p ∧ payOf L i = some q ∧ KI q.attrs p.attrs

/-- what an attribute action needs of the node it addresses: the names it touches are not mentioned by the node's
annotations, and an inserted or new name is absent -/
def AttrSide (qn : QName) (s : FState) : Action → Prop
  | .updateAttrib n name _ => ∀ m, xresolve qn s.tree n = .ok m → name ∉ touched m.payload.attrs
  | .deleteAttrib n name => ∀ m, xresolve qn s.tree n = .ok m → name ∉ touched m.payload.attrs
  | .insertAttrib n name _ => ∀ m, xresolve qn s.tree n = .ok m →
      name ∉ touched m.payload.attrs ∧ attrGet m.payload.attrs name = none
  | .renameAttrib n old new => ∀ m, xresolve qn s.tree n = .ok m →
      old ∉ touched m.payload.attrs ∧ new ∉ touched m.payload.attrs ∧ attrGet m.payload.attrs new = none
  | _ => True

theorem kall_modify (L t : Tree) (hn : (ids t).Nodup) (K : KAll L t) (j : Nat) (f : Payload → Payload)
    (hf : ∀ p q, payOf t j = some p → payOf L j = some q → KI q.attrs p.attrs → KI q.attrs (f p).attrs) :
    KAll L (modify j f t) := by
  intro i hi
  obtain ⟨p, q, h1, h2, h3⟩ := K i hi
  rw [payOf_modify j f t hn i]
  by_cases e : i = j
  · subst e
    rw [if_pos rfl, h1]
    exact ⟨f p, q, rfl, h2, hf p q h1 h2 h3⟩
  · rw [if_neg e]
    exact ⟨p, q, h1, h2, h3⟩

theorem kall_insert (L t : Tree) (hn : (ids t).Nodup) (K : KAll L t) (tgt pos : Nat) (sub : Tree)
    (hs : ∀ i ∈ ids sub, i ∉ ids t) : KAll L (insertChild tgt pos sub t) := by
  intro i hi
  obtain ⟨p, q, h1, h2, h3⟩ := K i hi
  have hit : i ∈ ids t := by
    unfold payOf at h1
    cases hf : find i t with
    | none => rw [hf] at h1; cases h1
    | some n => exact mem_of_find i t n hf
  rw [payOf_insertChild_old tgt pos sub t hn i (fun hm => hs i hm hit)]
  exact ⟨p, q, h1, h2, h3⟩

theorem payOf_of_find (t : Tree) (i : Nat) (n : Tree) (h : find i t = some n) : payOf t i = some n.payload := by
  unfold payOf; rw [h]; rfl

/-- **One handler keeps the attribute invariant.** -/
theorem step_K (L : Tree) (qn : QName) (s s' : FState) (a : Action) (hn : (ids s.tree).Nodup)
    (hfr : ∀ i ∈ ids s.tree, i < s.next) (fi : FInv s) (hv : AllP ValsOK s.tree) (K : KAll L s.tree)
    (han : AttrNamesOK a) (hside : AttrSide qn s a) (h : applyFmt qn s a = .ok s') : KAll L s'.tree := by
  have hmark : ∀ (n : String) (hnm : n ∈ ["delete", "insert", "rename"]) (j : Nat) (v : Payload → Str)
      (g : Payload → Payload) (hg : ∀ p, (g p).attrs = attrSet p.attrs (dname n) (v p)),
      KAll L (modify j g s.tree) := by
    intro n hnm j v g hg
    apply kall_modify L s.tree hn K j g
    intro p q _ _ hk
    rw [hg p]
    exact ki_mark q.attrs p.attrs hk (dname n) (v p) (isDiffKey_dname n) (mark_ne n hnm)
  have hsame : ∀ (j : Nat) (g : Payload → Payload) (hg : ∀ p, (g p).attrs = p.attrs), KAll L (modify j g s.tree) := by
    intro j g hg
    apply kall_modify L s.tree hn K j g
    intro p q _ _ hk
    rw [hg p]; exact hk
  cases a <;> simp only [applyFmt, bind, Except.bind, pure, Except.pure] at h
  case deleteNode n =>
    split at h
    · cases h
    · simp only [Except.ok.injEq] at h; subst h
      exact hmark "delete" (by simp) _ (fun _ => []) _ (fun p => rfl)
  case insertNode tgt tag pos =>
    split at h
    · cases h
    · simp only [Except.ok.injEq] at h; subst h
      apply kall_insert L s.tree hn K
      intro i hi hit
      simp only [ids, idsL, List.mem_cons, List.mem_nil_iff, or_false] at hi
      have := hfr i hit
      omega
  case renameNode n tag =>
    split at h
    · cases h
    · simp only [Except.ok.injEq] at h; subst h
      exact hmark "rename" (by simp) _ (fun p => p.tag) _ (fun p => rfl)
  case moveNode n tgt pos =>
    split at h
    · cases h
    · next node hnode =>
      split at h
      · cases h
      · next target htarget =>
        simp only [Except.ok.injEq] at h; subst h
        have K1 := hmark "delete" (by simp) node.id (fun _ => [])
          (fun p => { p with attrs := attrSet p.attrs DELETE_NAME [] }) (fun p => rfl)
        apply kall_insert L _ (by simp only [ids_modify]; exact hn) K1
        intro i hi hit
        simp only [ids_modify] at hit
        rw [Rej.ids_setAttrsT] at hi
        simp only [applyFmt.renumber] at hi
        rw [Rej.ids_renum, List.mem_range'_1] at hi
        have := hfr i hit
        omega
  case updateTextIn n text =>
    split at h
    · cases h
    · next node hnode =>
      split at h
      · simp only [Except.ok.injEq] at h; subst h
        exact hsame _ _ (fun p => rfl)
      · cases hsg : s.segs with
        | nil => simp [makeDiffTags, hsg] at h
        | cons d more =>
          obtain ⟨h1, h2, h3⟩ := fi.segs d (by rw [hsg]; simp)
          obtain ⟨hm, _, _⟩ := makeDiffTags_eq false s fi.base fi.norep d more hsg h1 h2 h3
          rw [hm] at h
          simp only [Except.ok.injEq] at h; subst h
          exact hsame _ _ (fun p => rfl)
  case updateTextAfter n text =>
    split at h
    · cases h
    · next node hnode =>
      cases hsg : s.segs with
      | nil => simp [makeDiffTags, hsg] at h
      | cons d more =>
        obtain ⟨h1, h2, h3⟩ := fi.segs d (by rw [hsg]; simp)
        obtain ⟨hm, _, _⟩ := makeDiffTags_eq true s fi.base fi.norep d more hsg h1 h2 h3
        rw [hm] at h
        simp only [Except.ok.injEq] at h; subst h
        exact hsame _ _ (fun p => rfl)
  case updateAttrib n name value =>
    split at h
    · cases h
    · next node hnode =>
      split at h
      · cases h
      · next oldv hold =>
        simp only [Except.ok.injEq] at h; subst h
        have hfind := xresolve_find qn s.tree hn n node hnode
        have hpay := payOf_of_find s.tree node.id node hfind
        have hov : ';' ∉ oldv := by
          have hm' := allP_find ValsOK node.id s.tree node hfind hv
          cases node with
          | node i q ks =>
            simp only [AllP] at hm'
            exact hm'.1 (name, oldv) (mem_of_attrGet _ _ _ hold) han.1
        apply kall_modify L s.tree hn K
        intro p q hp _ hk
        rw [hpay] at hp
        injection hp with hp
        subst hp
        exact ki_upd q.attrs _ hk name value oldv han.1 han.2.1 han.2.2.1 hov hold (hside node hnode)
  case deleteAttrib n name =>
    split at h
    · cases h
    · next node hnode =>
      split at h
      · cases h
      · next hhas =>
        simp only [Except.ok.injEq] at h; subst h
        have hfind := xresolve_find qn s.tree hn n node hnode
        have hpay := payOf_of_find s.tree node.id node hfind
        apply kall_modify L s.tree hn K
        intro p q hp _ hk
        rw [hpay] at hp
        injection hp with hp
        subst hp
        exact ki_del q.attrs _ hk name han.1 han.2.2.1 han.2.2.2 (by
          have : attrHas node.payload.attrs name = true := by simpa using hhas
          exact this) (hside node hnode)
  case insertAttrib n name value =>
    split at h
    · cases h
    · next node hnode =>
      simp only [Except.ok.injEq] at h; subst h
      have hfind := xresolve_find qn s.tree hn n node hnode
      have hpay := payOf_of_find s.tree node.id node hfind
      apply kall_modify L s.tree hn K
      intro p q hp _ hk
      rw [hpay] at hp
      injection hp with hp
      subst hp
      obtain ⟨s1, s2⟩ := hside node hnode
      exact ki_add q.attrs _ hk name value han.1 han.2.2.1 han.2.2.2 s2 s1
  case renameAttrib n old new =>
    split at h
    · cases h
    · next node hnode =>
      split at h
      · cases h
      · next v hvv =>
        simp only [Except.ok.injEq] at h; subst h
        have hfind := xresolve_find qn s.tree hn n node hnode
        have hpay := payOf_of_find s.tree node.id node hfind
        apply kall_modify L s.tree hn K
        intro p q hp _ hk
        rw [hpay] at hp
        injection hp with hp
        subst hp
        obtain ⟨s1, s2, s3⟩ := hside node hnode
        have hon : old ≠ new := fun e => by rw [e, s3] at hvv; cases hvv
        exact ki_ren q.attrs _ hk old new v han.1.1 han.2.1 han.1.2.1 han.1.2.2.1 han.2.2.2.1 hon hvv s3 s1 s2
  case insertComment => cases h
  case insertNamespace => simp only [Except.ok.injEq] at h; subst h; exact K
  case deleteNamespace => simp only [Except.ok.injEq] at h; subst h; exact K

end Acc
end XmlDiffModel
