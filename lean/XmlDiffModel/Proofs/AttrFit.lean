/-
Where the attribute names and values of a script come from.

Part 1 (`scriptGen_newIn`): the names and values the attribute actions of a differ script bring in - the name and
value of an `InsertAttrib`, the value of an `UpdateAttrib`, the new name of a `RenameAttrib` - are names and values of
attributes of right nodes.  Stated with Boolean tests `wn`, `wv`.

Part 2 (`names_of_run`): along a run the patcher accepts, if the names and values in the tree pass the tests and what
the actions bring in passes them, every name an attribute action mentions passes the name test (the other names are
names of attributes the addressed node has), and so does the resulting tree.
-/
import XmlDiffModel.Proofs.Texts
import XmlDiffModel.Proofs.AttrCount
import XmlDiffModel.Proofs.Names
import XmlDiffModel.Proofs.DifferFmt
import XmlDiffModel.Proofs.AttrOnce

namespace XmlDiffModel
namespace AttrFit
open Tree Names

/-- what an attribute action brings in passes the tests -/
def NewIn (wn wv : Str → Bool) : Action → Prop
  | .insertAttrib _ k v => wn k = true ∧ wv v = true
  | .updateAttrib _ _ v => wv v = true
  | .renameAttrib _ _ b => wn b = true
  | _ => True

def badAttr (wn wv : Str → Bool) : Action → Bool
  | .insertAttrib _ k v => !(wn k && wv v)
  | .updateAttrib _ _ v => !(wv v)
  | .renameAttrib _ _ b => !(wn b)
  | _ => false

theorem newIn_of_not_bad (wn wv : Str → Bool) (a : Action) (h : badAttr wn wv a = false) : NewIn wn wv a := by
  cases a <;> simp_all [badAttr, NewIn]

theorem neutral0_badAttr (wn wv : Str → Bool) : Texts.Neutral0 (badAttr wn wv) := ⟨fun _ _ _ => rfl, fun _ => rfl⟩

/-- the attributes pass the tests -/
def PairsOK (wn wv : Str → Bool) (as : Attrs) : Prop := ∀ kv ∈ as, wn kv.1 = true ∧ wv kv.2 = true

theorem pairs_get (wn wv : Str → Bool) (as : Attrs) (h : PairsOK wn wv as) (k v : Str) (hg : attrGet as k = some v) :
    wn k = true ∧ wv v = true := by
  induction as with
  | nil => cases hg
  | cons kv rest ih =>
    obtain ⟨k', v'⟩ := kv
    rw [attrGet_cons] at hg
    split at hg
    · next e =>
      injection hg with hg
      subst hg; subst e
      exact h (k, v') (by simp)
    · exact ih (fun x hx => h x (by simp [hx])) hg

theorem attrUpdates_fit (wn wv : Str → Bool) (path : Path) (ras : Attrs) (hr : PairsOK wn wv ras) (ks : List Str)
    (las : Attrs) (out : List Action) : Texts.NB (badAttr wn wv) out (attrUpdates path ras ks las out).2 := by
  induction ks generalizing las out with
  | nil => simp only [attrUpdates]; exact Texts.NB.refl _ _
  | cons k ks ih =>
    simp only [attrUpdates]
    cases hl : attrGet las k with
    | none => exact ih las out
    | some lv =>
      cases hg : attrGet ras k with
      | none => exact ih las out
      | some rv =>
        simp only
        split
        · refine (Texts.nb_cons _ out _ ?_).trans (ih _ _)
          simp [badAttr, (pairs_get wn wv ras hr k rv hg).2]
        · exact ih las out

theorem attrRenames_fit (wn wv : Str → Bool) (path : Path) (lks : List Str) (las nmap : Attrs) (newKeys : List Str)
    (out : List Action) (hm : ∀ v rk, attrGet nmap v = some rk → wn rk = true) :
    Texts.NB (badAttr wn wv) out (attrRenames path lks las nmap newKeys out).2.2 := by
  induction lks generalizing las nmap newKeys out with
  | nil => simp only [attrRenames]; exact Texts.NB.refl _ _
  | cons lk lks ih =>
    cases hl : attrGet las lk with
    | none => rw [attrRenames_cons_none _ _ _ _ _ _ _ hl]; exact ih las nmap newKeys out hm
    | some value =>
      cases hg : attrGet nmap value with
      | none => rw [attrRenames_cons_skip _ _ _ _ _ _ _ value hl hg]; exact ih las nmap newKeys out hm
      | some rk =>
        rw [attrRenames_cons_hit _ _ _ _ _ _ _ value rk hl hg]
        refine (Texts.nb_cons _ out _ ?_).trans (ih _ _ _ _ ?_)
        · simp [badAttr, hm value rk hg]
        · intro v r hv
          rw [attrGet_attrDel] at hv
          split at hv
          · cases hv
          · exact hm v r hv

theorem attrInserts_fit (wn wv : Str → Bool) (path : Path) (ras : Attrs) (hr : PairsOK wn wv ras) (ks : List Str)
    (las : Attrs) (out : List Action) : Texts.NB (badAttr wn wv) out (attrInserts path ras ks las out).2 := by
  induction ks generalizing las out with
  | nil => simp only [attrInserts]; exact Texts.NB.refl _ _
  | cons k ks ih =>
    simp only [attrInserts]
    cases hg : attrGet ras k with
    | none => exact ih las out
    | some rv =>
      simp only
      refine (Texts.nb_cons _ out _ ?_).trans (ih _ _)
      have := pairs_get wn wv ras hr k rv hg
      simp [badAttr, this.1, this.2]

theorem attrDeletes_fit (wn wv : Str → Bool) (path : Path) (ks : List Str) (las : Attrs) (out : List Action) :
    Texts.NB (badAttr wn wv) out (attrDeletes path ks las out).2 := by
  induction ks generalizing las out with
  | nil => simp only [attrDeletes]; exact Texts.NB.refl _ _
  | cons k ks ih =>
    simp only [attrDeletes]
    split
    · exact (Texts.nb_cons _ out _ rfl).trans (ih _ _)
    · exact ih las out

/-- the attribute actions for a right node whose attributes pass the tests -/
theorem attrFits_of_pairs (wn wv : Str → Bool) (x : Payload) (hx : PairsOK wn wv x.attrs) :
    Texts.AttrFits (badAttr wn wv) x := by
  intro ign path las out
  unfold updateAttrs
  dsimp only
  generalize (nodeAttribs ign las).map (·.1) = lkeys
  generalize hrk : (nodeAttribs ign x.attrs).map (·.1) = rkeys
  have hrmem : ∀ k ∈ rkeys, k ∈ keys x.attrs := fun k hk => by
    rw [← hrk] at hk; exact ((mem_nodeAttribs_keys ign x.attrs k).1 hk).1
  have p1 := attrUpdates_fit wn wv path x.attrs hx (sortStrs (lkeys.filter fun k => rkeys.contains k)) las out
  generalize attrUpdates path x.attrs (sortStrs (lkeys.filter fun k => rkeys.contains k)) las out = r1 at p1 ⊢
  obtain ⟨las1, out1⟩ := r1
  simp only at p1 ⊢
  have hm : ∀ v rk, attrGet (newAttrMap x.attrs (rkeys.filter fun k => !lkeys.contains k)) v = some rk →
      wn rk = true := by
    intro v rk h
    have h1 := AttrCount.newAttrMap_range x.attrs _ v rk h
    have h2 := hrmem rk (List.mem_filter.1 h1).1
    obtain ⟨kv, hkv, e⟩ := List.mem_map.1 h2
    rw [← e]; exact (hx kv hkv).1
  have p2 := attrRenames_fit wn wv path (sortStrs (lkeys.filter fun k => !rkeys.contains k)) las1 _
    (rkeys.filter fun k => !lkeys.contains k) out1 hm
  generalize attrRenames path (sortStrs (lkeys.filter fun k => !rkeys.contains k)) las1
    (newAttrMap x.attrs (rkeys.filter fun k => !lkeys.contains k))
    (rkeys.filter fun k => !lkeys.contains k) out1 = r2 at p2 ⊢
  obtain ⟨las2, newKeys2, out2⟩ := r2
  simp only at p2 ⊢
  have p3 := attrInserts_fit wn wv path x.attrs hx (sortStrs newKeys2) las2 out2
  generalize attrInserts path x.attrs (sortStrs newKeys2) las2 out2 = r3 at p3 ⊢
  obtain ⟨las3, out3⟩ := r3
  simp only at p3 ⊢
  exact ((p1.trans p2).trans p3).trans (attrDeletes_fit wn wv path _ las3 out3)

/-- **What the attribute actions of a differ script bring in are names and values of right nodes.** -/
theorem scriptGen_newIn (wn wv : Str → Bool) (qn : QName) (cfg : Cfg) (L R : Tree) (M : List (Nat × Nat))
    (fresh : Nat) (script : List Action) (final : Tree)
    (hR : ∀ x ∈ Tree.bfs R, PairsOK wn wv x.payload.attrs)
    (h : scriptGen qn cfg L R M fresh = .ok (script, final)) : ∀ a ∈ script, NewIn wn wv a := by
  intro a ha
  apply newIn_of_not_bad
  exact Texts.scriptGen_fitsA (badAttr wn wv) (neutral0_badAttr wn wv) qn cfg L R M fresh script final
    (fun x hx => ⟨attrFits_of_pairs wn wv x.payload (hR x hx), ⟨fun _ => rfl, fun _ => rfl, fun _ => rfl,
      fun _ _ => rfl, fun _ _ => rfl⟩⟩) h a ha

/-! ### along a run of the patcher -/

def PairsP (wn wv : Str → Bool) (p : Payload) : Prop := PairsOK wn wv p.attrs

/-- every attribute name the action mentions passes the name test -/
def NamesPass (wn : Str → Bool) : Action → Prop
  | .updateAttrib _ k _ => wn k = true
  | .deleteAttrib _ k => wn k = true
  | .insertAttrib _ k _ => wn k = true
  | .renameAttrib _ a b => wn a = true ∧ wn b = true
  | _ => True

theorem mem_attrSet' (as : Attrs) (k v : Str) (kv : Str × Str) (h : kv ∈ attrSet as k v) : kv ∈ as ∨ kv = (k, v) := by
  induction as with
  | nil => simp only [attrSet, List.mem_cons, List.mem_nil_iff, or_false] at h; exact Or.inr h
  | cons x rest ih =>
    obtain ⟨k', v'⟩ := x
    simp only [attrSet] at h
    split at h
    · simp only [List.mem_cons] at h
      rcases h with h | h
      · exact Or.inr h
      · exact Or.inl (List.mem_cons_of_mem _ h)
    · simp only [List.mem_cons] at h
      rcases h with h | h
      · exact Or.inl (by simp [h])
      · rcases ih h with h1 | h1
        · exact Or.inl (List.mem_cons_of_mem _ h1)
        · exact Or.inr h1

theorem pairs_attrSet (wn wv : Str → Bool) (as : Attrs) (k v : Str) (h : PairsOK wn wv as) (hk : wn k = true)
    (hv : wv v = true) : PairsOK wn wv (attrSet as k v) := by
  intro kv hkv
  rcases mem_attrSet' as k v kv hkv with h1 | h1
  · exact h kv h1
  · rw [h1]; exact ⟨hk, hv⟩

theorem pairs_attrDel (wn wv : Str → Bool) (as : Attrs) (k : Str) (h : PairsOK wn wv as) : PairsOK wn wv (attrDel as k) :=
  fun kv hkv => h kv (List.mem_filter.1 hkv).1

theorem pairs_has (wn wv : Str → Bool) (as : Attrs) (h : PairsOK wn wv as) (k : Str) (hk : attrHas as k = true) :
    wn k = true := by
  unfold attrHas at hk
  cases hg : attrGet as k with
  | none => rw [hg] at hk; cases hk
  | some v => exact (pairs_get wn wv as h k v hg).1

/-- one patcher step -/
theorem pass_step (wn wv : Str → Bool) (qn : QName) (T : Tree) (nx : Nat) (hn : (ids T).Nodup)
    (hkp : AllP (PairsP wn wv) T) (a : Action) (hnew : NewIn wn wv a) (p1 : PState)
    (hp : applyUniq qn ⟨T, nx⟩ a = .ok p1) : NamesPass wn a ∧ AllP (PairsP wn wv) p1.tree := by
  have hnode : ∀ path n, uniqueHit qn T path = .ok n → PairsP wn wv n.payload := by
    intro path n hh
    exact allP_root _ n (allP_find _ n.id T n (MapId.uniqueHit_find qn T hn path n hh) hkp)
  cases a <;> simp only [applyUniq, applyWith, bind, Except.bind] at hp
  case deleteNode n =>
    cases hh : uniqueHit qn T n with
    | error e => rw [hh] at hp; cases hp
    | ok nd =>
      rw [hh] at hp
      simp only at hp
      split at hp
      · cases hp
      · simp only [Except.ok.injEq] at hp; subst hp
        exact ⟨trivial, allP_remove _ _ _ hkp⟩
  case insertNode tgt tag pos =>
    cases hh : uniqueHit qn T tgt with
    | error e => rw [hh] at hp; cases hp
    | ok tg =>
      rw [hh] at hp
      simp only [Except.ok.injEq] at hp; subst hp
      refine ⟨trivial, allP_insertChild _ _ _ _ ?_ _ hkp⟩
      simp only [AllP, AllPL, and_true, PairsP, PairsOK, elemPayload]
      intro kv hkv; cases hkv
  case insertComment tgt pos text =>
    cases hh : uniqueHit qn T tgt with
    | error e => rw [hh] at hp; cases hp
    | ok tg =>
      rw [hh] at hp
      simp only [Except.ok.injEq] at hp; subst hp
      refine ⟨trivial, allP_insertChild _ _ _ _ ?_ _ hkp⟩
      simp only [AllP, AllPL, and_true, PairsP, PairsOK, commentPayload]
      intro kv hkv; cases hkv
  case renameNode n tag =>
    cases hh : uniqueHit qn T n with
    | error e => rw [hh] at hp; cases hp
    | ok nd =>
      rw [hh] at hp
      simp only [Except.ok.injEq] at hp; subst hp
      exact ⟨trivial, by apply allP_modify _ _ _ _ _ hkp; intro p h; exact h⟩
  case moveNode n tgt pos =>
    cases hh : uniqueHit qn T n with
    | error e => rw [hh] at hp; cases hp
    | ok nd =>
      rw [hh] at hp
      simp only at hp
      cases ht : uniqueHit qn T tgt with
      | error e => rw [ht] at hp; cases hp
      | ok tg =>
        rw [ht] at hp
        simp only at hp
        split at hp
        · cases hp
        · simp only [Except.ok.injEq] at hp; subst hp
          refine ⟨trivial, allP_insertChild _ _ _ _ ?_ _ (allP_remove _ _ _ hkp)⟩
          exact allP_find _ nd.id T nd (MapId.uniqueHit_find qn T hn n nd hh) hkp
  case updateTextIn n t =>
    cases hh : uniqueHit qn T n with
    | error e => rw [hh] at hp; cases hp
    | ok nd =>
      rw [hh] at hp
      simp only [Except.ok.injEq] at hp; subst hp
      exact ⟨trivial, by apply allP_modify _ _ _ _ _ hkp; intro p h; exact h⟩
  case updateTextAfter n t =>
    cases hh : uniqueHit qn T n with
    | error e => rw [hh] at hp; cases hp
    | ok nd =>
      rw [hh] at hp
      simp only [Except.ok.injEq] at hp; subst hp
      exact ⟨trivial, by apply allP_modify _ _ _ _ _ hkp; intro p h; exact h⟩
  case updateAttrib n name value =>
    cases hh : uniqueHit qn T n with
    | error e => rw [hh] at hp; cases hp
    | ok nd =>
      rw [hh] at hp
      simp only at hp
      split at hp
      · cases hp
      · next hc =>
        simp only [Except.ok.injEq] at hp; subst hp
        have hhas : attrHas nd.payload.attrs name = true := by simpa using hc
        have hpl : wn name = true := pairs_has wn wv _ (hnode n nd hh) name hhas
        exact ⟨hpl, allP_modify _ _ _ (fun p h => pairs_attrSet wn wv p.attrs name value h hpl hnew) _ hkp⟩
  case deleteAttrib n name =>
    cases hh : uniqueHit qn T n with
    | error e => rw [hh] at hp; cases hp
    | ok nd =>
      rw [hh] at hp
      simp only at hp
      split at hp
      · cases hp
      · next hc =>
        simp only [Except.ok.injEq] at hp; subst hp
        have hhas : attrHas nd.payload.attrs name = true := by simpa using hc
        have hpl : wn name = true := pairs_has wn wv _ (hnode n nd hh) name hhas
        exact ⟨hpl, allP_modify _ _ _ (fun p h => pairs_attrDel wn wv p.attrs name h) _ hkp⟩
  case insertAttrib n name value =>
    cases hh : uniqueHit qn T n with
    | error e => rw [hh] at hp; cases hp
    | ok nd =>
      rw [hh] at hp
      simp only at hp
      split at hp
      · cases hp
      · simp only [Except.ok.injEq] at hp; subst hp
        exact ⟨hnew.1, allP_modify _ _ _ (fun p h => pairs_attrSet wn wv p.attrs name value h hnew.1 hnew.2) _ hkp⟩
  case renameAttrib n old new =>
    cases hh : uniqueHit qn T n with
    | error e => rw [hh] at hp; cases hp
    | ok nd =>
      rw [hh] at hp
      simp only at hp
      split at hp
      · cases hp
      · next v hv =>
        split at hp
        · cases hp
        · simp only [Except.ok.injEq] at hp; subst hp
          have hov := pairs_get wn wv _ (hnode n nd hh) old v hv
          have hpn : wn new = true := hnew
          refine ⟨⟨hov.1, hpn⟩, allP_modify _ _ _ (fun p h => ?_) _ hkp⟩
          exact pairs_attrDel wn wv _ old (pairs_attrSet wn wv p.attrs new v h hpn hov.2)
  case insertNamespace => simp only [Except.ok.injEq] at hp; subst hp; exact ⟨trivial, hkp⟩
  case deleteNamespace => simp only [Except.ok.injEq] at hp; subst hp; exact ⟨trivial, hkp⟩

/-- **Along a run the patcher accepts every attribute name mentioned passes the name test.** -/
theorem names_of_run (wn wv : Str → Bool) (qn : QName) (script : List Action) (T : Tree) (nx : Nat) (p' : PState)
    (hn : (ids T).Nodup) (hfr : ∀ i ∈ ids T, i < nx) (hkp : AllP (PairsP wn wv) T)
    (hnew : ∀ a ∈ script, NewIn wn wv a)
    (hp : runUniq qn ⟨T, nx⟩ script = .ok p') : ∀ a ∈ script, NamesPass wn a := by
  induction script generalizing T nx with
  | nil => intro a ha; cases ha
  | cons a rest ih =>
    obtain ⟨p1, h1, h2⟩ := Chw.runUniq_cons_inv qn _ p' a rest hp
    obtain ⟨hpl, hkp1⟩ := pass_step wn wv qn T nx hn hkp a (hnew a (by simp)) p1 h1
    have r : MapId.Rel (fun x => x) T (MapId.mapId (fun x => x) T) nx nx :=
      ⟨rfl, fun a _ b _ e => e, hn, hfr, hfr⟩
    obtain ⟨σ', q1, hq, r'⟩ := MapId.applyUniq_equiv qn a (fun x => x) T _ nx nx r p1 h1
    intro b hb
    simp only [List.mem_cons] at hb
    rcases hb with rfl | hb
    · exact hpl
    · cases p1 with
      | mk T1 n1 =>
        exact ih T1 n1 r'.nd r'.fr hkp1 (fun c hc => hnew c (by simp [hc])) h2 b hb

end AttrFit
end XmlDiffModel
