/-
Pure list lemmas behind the child-order invariant of script generation (`find_pos`, the moves of
`align_children`, inserts): a node placed right after the partner of its nearest in-order left sibling keeps
"the in-order children of the left node are the partners of the in-order children of the right node, in order".
-/
import XmlDiffModel.Model.Script

namespace XmlDiffModel
namespace Ord

/-- two splittings of one list around an element that occurs in neither prefix -/
theorem split_unique {α} [DecidableEq α] (a : α) (l1 l2 m1 m2 : List α) (h : l1 ++ a :: l2 = m1 ++ a :: m2)
    (hl : a ∉ l1) (hm : a ∉ m1) : l1 = m1 ∧ l2 = m2 := by
  induction l1 generalizing m1 with
  | nil =>
    cases m1 with
    | nil => simp at h; exact ⟨rfl, h⟩
    | cons b m1' =>
      simp at h
      exact absurd (h.1 ▸ List.mem_cons_self) hm
  | cons c l1' ih =>
    cases m1 with
    | nil =>
      simp at h
      exact absurd (h.1 ▸ List.mem_cons_self) hl
    | cons b m1' =>
      simp only [List.cons_append, List.cons.injEq] at h
      obtain ⟨hcb, ht⟩ := h
      have := ih m1' ht (fun hx => hl (List.mem_cons_of_mem _ hx)) (fun hx => hm (List.mem_cons_of_mem _ hx))
      exact ⟨by rw [hcb, this.1], this.2⟩

/-- `lastInorderBefore`: the last in-order element before `y`, or the accumulator -/
theorem lastInorderBefore_spec (io : List Nat) (q : Nat → Bool) (hq : ∀ s, io.contains s = q s)
    (y : Nat) (X1 X2 : List Nat) (acc : Option Nat) (hy : y ∉ X1) :
    lastInorderBefore io y (X1 ++ y :: X2) acc =
      match (X1.filter q).getLast? with
      | some u => some u
      | none => acc := by
  induction X1 generalizing acc with
  | nil => simp [lastInorderBefore]
  | cons s rest ih =>
    have hs : s ≠ y := fun e => hy (e ▸ List.mem_cons_self)
    have hr : y ∉ rest := fun h => hy (List.mem_cons_of_mem _ h)
    simp only [List.cons_append, lastInorderBefore, hs, if_false]
    rw [ih _ hr, hq s]
    by_cases hc : q s = true
    · rw [List.filter_cons_of_pos hc]
      simp only [hc, if_true]
      cases hh : (rest.filter q).getLast? with
      | none =>
        have : rest.filter q = [] := List.getLast?_eq_none_iff.mp hh
        rw [this]; rfl
      | some u =>
        have hne : rest.filter q ≠ [] := by
          intro e; rw [e] at hh; simp at hh
        rw [List.getLast?_cons_of_ne_nil hne, hh]
    · have hc' : q s = false := by simpa using hc
      rw [List.filter_cons_of_neg (by simp [hc'])]
      simp only [hc', Bool.false_eq_true, if_false]

/-- `countUpTo`: the number of entries up to and including `stop`, the skipped one not counted -/
theorem countUpTo_spec (skip : Option Nat) (stop : Nat) (K : List Nat) (i : Nat) (A B : List Nat)
    (hK : K.filter (fun c => some c ≠ skip) = A ++ stop :: B) (hA : stop ∉ A) :
    countUpTo skip stop K i = i + A.length + 1 := by
  induction K generalizing i A with
  | nil => simp at hK
  | cons c cs ih =>
    simp only [countUpTo]
    by_cases hs : some c = skip
    · simp only [hs, if_true]
      rw [List.filter_cons_of_neg (by simp [hs])] at hK
      exact ih i A hK hA
    · simp only [hs, if_false]
      rw [List.filter_cons_of_pos (by simp [hs])] at hK
      cases A with
      | nil =>
        simp only [List.nil_append, List.cons.injEq] at hK
        simp [hK.1]
      | cons a A' =>
        simp only [List.cons_append, List.cons.injEq] at hK
        have hne : c ≠ stop := by
          intro e; apply hA; rw [← e, hK.1]; exact List.mem_cons_self
        simp only [hne, if_false]
        rw [ih (i + 1) A' hK.2 (fun h => hA (List.mem_cons_of_mem _ h))]
        simp; omega

theorem filter_congr' {α} (l : List α) (p p' : α → Bool) (h : ∀ c ∈ l, p' c = p c) : l.filter p' = l.filter p := by
  induction l with
  | nil => rfl
  | cons a rest ih =>
    have := ih (fun c hc => h c (List.mem_cons_of_mem _ hc))
    simp only [List.filter_cons, h a List.mem_cons_self, this]

theorem map_congr' {α β} (l : List α) (f g : α → β) (h : ∀ c ∈ l, f c = g c) : l.map f = l.map g :=
  List.map_congr_left h

/-- Placing `v` right after the partner of the nearest in-order left sibling of `y` (or first) keeps the order
invariant, with `v` and `y` now in order and partners of each other. -/
theorem place (K0 X1 X2 : List Nat) (y v : Nat) (p q : Nat → Bool) (ψ : Nat → Nat) (pos : Nat)
    (hK : K0.filter p = ((X1 ++ y :: X2).filter q).map ψ)
    (hqy : q y = false) (hXn : (X1 ++ y :: X2).Nodup)
    (hinj : ∀ a ∈ (X1 ++ y :: X2).filter q, ∀ b ∈ (X1 ++ y :: X2).filter q, ψ a = ψ b → a = b)
    (hv : v ∉ K0)
    (hpos : match (X1.filter q).getLast? with
      | none => pos = 0
      | some u => ∃ A B, K0 = A ++ ψ u :: B ∧ ψ u ∉ A ∧ pos = A.length + 1)
    (p' q' : Nat → Bool) (ψ' : Nat → Nat)
    (hp' : ∀ c ∈ K0, p' c = p c) (hpv : p' v = true)
    (hq' : ∀ c ∈ X1 ++ y :: X2, c ≠ y → q' c = q c) (hqy' : q' y = true)
    (hψ' : ∀ c ∈ X1 ++ y :: X2, c ≠ y → ψ' c = ψ c) (hψy : ψ' y = v) :
    (Tree.insertAt K0 pos v).filter p' = ((X1 ++ y :: X2).filter q').map ψ' := by
  have hy1 : y ∉ X1 := by
    intro h
    have := List.nodup_append.mp hXn
    exact this.2.2 y h y List.mem_cons_self rfl
  have hy2 : y ∉ X2 := by
    have := (List.nodup_append.mp hXn).2.1
    exact (List.nodup_cons.mp this).1
  -- the right side after the step
  have hR : ((X1 ++ y :: X2).filter q').map ψ' = (X1.filter q).map ψ ++ v :: (X2.filter q).map ψ := by
    rw [List.filter_append, List.filter_cons_of_pos hqy', List.map_append, List.map_cons, hψy]
    rw [filter_congr' X1 q q' (fun c hc => hq' c (by simp [hc]) (fun e => hy1 (e ▸ hc))),
      filter_congr' X2 q q' (fun c hc => hq' c (by simp [hc]) (fun e => hy2 (e ▸ hc)))]
    rw [map_congr' (X1.filter q) ψ' ψ (fun c hc => hψ' c (by simp [(List.mem_filter.mp hc).1])
        (fun e => hy1 (e ▸ (List.mem_filter.mp hc).1))),
      map_congr' (X2.filter q) ψ' ψ (fun c hc => hψ' c (by simp [(List.mem_filter.mp hc).1])
        (fun e => hy2 (e ▸ (List.mem_filter.mp hc).1)))]
  have hL : ((X1 ++ y :: X2).filter q).map ψ = (X1.filter q).map ψ ++ (X2.filter q).map ψ := by
    rw [List.filter_append, List.filter_cons_of_neg (by simp [hqy]), List.map_append]
  rw [hL] at hK
  rw [hR]
  have hK0p : ∀ l : List Nat, (∀ c ∈ l, c ∈ K0) → l.filter p' = l.filter p := by
    intro l hl
    exact filter_congr' l p p' (fun c hc => hp' c (hl c hc))
  cases hg : (X1.filter q).getLast? with
  | none =>
    rw [hg] at hpos
    simp only at hpos
    subst hpos
    have hX1 : X1.filter q = [] := List.getLast?_eq_none_iff.mp hg
    rw [hX1] at hK ⊢
    simp only [List.map_nil, List.nil_append] at hK ⊢
    simp only [Tree.insertAt, List.take_zero, List.drop_zero, List.nil_append]
    rw [List.filter_cons_of_pos hpv, hK0p K0 (fun c hc => hc), hK]
  | some u =>
    rw [hg] at hpos
    obtain ⟨A, B, hAB, hsmA, hp⟩ := hpos
    subst hp
    -- X1.filter q = X1' ++ [u]
    have hne : X1.filter q ≠ [] := by intro e; rw [e] at hg; simp at hg
    have hlast : X1.filter q = (X1.filter q).dropLast ++ [u] := by
      have := List.dropLast_concat_getLast hne
      rw [List.getLast?_eq_some_getLast hne] at hg
      injection hg with hg
      rw [hg] at this
      exact this.symm
    generalize hX1' : (X1.filter q).dropLast = X1' at hlast
    have hu1 : u ∈ X1 := by
      have : u ∈ X1.filter q := by rw [hlast]; simp
      exact (List.mem_filter.mp this).1
    have hpsm : p (ψ u) = true := by
      have : ψ u ∈ K0.filter p := by
        rw [hK, hlast]; simp
      exact (List.mem_filter.mp this).2
    -- split both sides of the invariant at `ψ u`
    have hKsplit : K0.filter p = A.filter p ++ ψ u :: B.filter p := by
      rw [hAB, List.filter_append, List.filter_cons_of_pos hpsm]
    have hRsplit : (X1.filter q).map ψ ++ (X2.filter q).map ψ = X1'.map ψ ++ ψ u :: (X2.filter q).map ψ := by
      rw [hlast]; simp
    have hnotin : ψ u ∉ X1'.map ψ := by
      intro hm
      obtain ⟨w, hw, hwe⟩ := List.mem_map.mp hm
      have hwX1 : w ∈ X1 := by
        have : w ∈ X1.filter q := by rw [hlast]; simp [hw]
        exact (List.mem_filter.mp this).1
      have hwq : w ∈ X1.filter q := by rw [hlast]; simp [hw]
      have huq : u ∈ X1.filter q := by rw [hlast]; simp
      have hwu : w = u := hinj w (by rw [List.filter_append]; exact List.mem_append_left _ hwq)
        u (by rw [List.filter_append]; exact List.mem_append_left _ huq) hwe
      -- `u` would occur twice in `X1.filter q`
      have hnd : (X1.filter q).Nodup := ((List.nodup_append.mp hXn).1).filter _
      rw [hlast] at hnd
      have := (List.nodup_append.mp hnd).2.2 w hw u (by simp)
      exact this hwu
    have hsplit := split_unique (ψ u) (A.filter p) (B.filter p) (X1'.map ψ) ((X2.filter q).map ψ)
      (by rw [← hKsplit, hK, hRsplit]) (fun h => hsmA (List.mem_filter.mp h).1) hnotin
    -- the list after insertion
    have hins : Tree.insertAt K0 (A.length + 1) v = A ++ ψ u :: v :: B := by
      rw [hAB]
      unfold Tree.insertAt
      have e1 : (A ++ ψ u :: B).take (A.length + 1) = A ++ [ψ u] := by
        rw [show A ++ ψ u :: B = (A ++ [ψ u]) ++ B by simp]
        exact List.take_left' (by simp)
      have e2 : (A ++ ψ u :: B).drop (A.length + 1) = B := by
        rw [show A ++ ψ u :: B = (A ++ [ψ u]) ++ B by simp]
        exact List.drop_left' (by simp)
      rw [e1, e2]; simp
    rw [hins, List.filter_append, List.filter_cons, List.filter_cons_of_pos hpv]
    have hsmv : ψ u ≠ v := by
      intro e; apply hv; rw [hAB, ← e]; simp
    rw [hp' (ψ u) (by rw [hAB]; simp), hpsm]
    simp only [if_true]
    rw [hK0p A (fun c hc => by rw [hAB]; simp [hc]), hK0p B (fun c hc => by rw [hAB]; simp [hc])]
    rw [hsplit.1, hsplit.2, hlast]
    simp

/-- filtering a list with distinct elements by membership in one of its sublists gives that sublist -/
theorem filter_sublist_eq {α} [DecidableEq α] (K AL : List α) (P : α → Bool) (hn : K.Nodup) (hs : AL.Sublist K)
    (hP : ∀ c ∈ K, P c = true ↔ c ∈ AL) : K.filter P = AL := by
  induction hs with
  | slnil => rfl
  | cons a hs' ih =>
    rename_i l1 l2
    simp only [List.nodup_cons] at hn
    have ha : P a = false := by
      cases h : P a with
      | false => rfl
      | true =>
        have := (hP a List.mem_cons_self).mp h
        exact absurd (hs'.subset this) hn.1
    rw [List.filter_cons_of_neg (by simp [ha])]
    exact ih hn.2 (fun c hc => hP c (List.mem_cons_of_mem _ hc))
  | cons_cons a hs' ih =>
    rename_i l1 l2
    simp only [List.nodup_cons] at hn
    have ha : P a = true := (hP a List.mem_cons_self).mpr List.mem_cons_self
    rw [List.filter_cons_of_pos ha]
    congr 1
    apply ih hn.2
    intro c hc
    rw [hP c (List.mem_cons_of_mem _ hc)]
    constructor
    · intro h
      rcases List.mem_cons.mp h with e | e
      · exact absurd (e ▸ hc) hn.1
      · exact e
    · exact List.mem_cons_of_mem _

/-- the elements at strictly increasing positions form a sublist -/
theorem incr_sublist {α} (l : List α) (I : List Nat) (hI : I.Pairwise (· < ·)) :
    (I.filterMap (fun i => l[i]?)).Sublist l := by
  induction l generalizing I with
  | nil => simp
  | cons a rest ih =>
    -- shift the positions that are not 0
    have shift : ∀ J : List Nat, (∀ j ∈ J, 0 < j) →
        J.filterMap (fun i => (a :: rest)[i]?) = (J.map (· - 1)).filterMap (fun i => rest[i]?) := by
      intro J hJ
      induction J with
      | nil => rfl
      | cons j J' ihJ =>
        have hj := hJ j List.mem_cons_self
        obtain ⟨k, hk⟩ : ∃ k, j = k + 1 := ⟨j - 1, by omega⟩
        subst hk
        simp only [List.filterMap_cons, List.map_cons, List.getElem?_cons_succ, Nat.add_sub_cancel]
        rw [ihJ (fun x hx => hJ x (List.mem_cons_of_mem _ hx))]
    have mono : ∀ J : List Nat, J.Pairwise (· < ·) → (∀ j ∈ J, 0 < j) → (J.map (· - 1)).Pairwise (· < ·) := by
      intro J hJ hpos
      rw [List.pairwise_map]
      exact hJ.imp_of_mem (fun {x y} hx hy hxy => by
        have := hpos x hx; have := hpos y hy; omega)
    cases I with
    | nil => simp
    | cons i I' =>
      simp only [List.pairwise_cons] at hI
      cases i with
      | zero =>
        have hpos : ∀ j ∈ I', 0 < j := fun j hj => hI.1 j hj
        simp only [List.filterMap_cons, List.getElem?_cons_zero]
        rw [shift I' hpos]
        exact List.Sublist.cons_cons a (ih _ (mono I' hI.2 hpos))
      | succ k =>
        have hpos : ∀ j ∈ (k + 1) :: I', 0 < j := by
          intro j hj
          rcases List.mem_cons.mp hj with e | e
          · omega
          · have := hI.1 j e; omega
        rw [shift _ hpos]
        exact List.Sublist.cons a (ih _ (mono _ (List.pairwise_cons.mpr hI) hpos))

end Ord
end XmlDiffModel
