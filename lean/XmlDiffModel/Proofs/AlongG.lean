/-
One visit of the generator, generically: for a family of predicates `Pl l` (indexed by the working-copy node the
visit is about) that holds of renames / text / tail updates addressed to `l` and of every attribute, insert and move
action, the actions of the visit of a right node satisfy `Pl l` along their replay, where `l` is the partner the right
node has after the visit.
-/
import XmlDiffModel.Proofs.DifferFmt
import XmlDiffModel.Proofs.AttrTotal

namespace XmlDiffModel
namespace Along
open Tree Chw XmlDiffModel.Acc

/-! ### the matching is only extended by inserts -/

theorem renameStep_ms (qn : QName) (l : Nat) (x : Payload) (s s' : DState) (hn : (ids s.left).Nodup)
    (h : renameStep qn l x s = .ok s') : s'.ms = s.ms := (renameStep_shape qn l x s s' hn h).2.ms

theorem updateText_ms (qn : QName) (l : Nat) (x : Payload) (s s' : DState) (hn : (ids s.left).Nodup)
    (h : updateText qn l x s = .ok s') : s'.ms = s.ms := (updateText_shape qn l x s s' hn h).ms

theorem updateAttrStep_ms (qn : QName) (ign : List Str) (l : Nat) (x : Payload) (s s' : DState)
    (h : updateAttrStep qn ign l x s = .ok s') : s'.ms = s.ms := by
  obtain ⟨_, _, _, m⟩ := updateAttrStep_shape qn ign l x s s' h
  exact m.ms

theorem moveStep_ms (qn : QName) (R x : Tree) (l : Nat) (lt : Option Nat) (s s' : DState)
    (hn : (ids s.left).Nodup) (h : moveStep qn R x l lt s = .ok s') : s'.ms = s.ms := by
  rcases moveStep_shape2 qn R x l lt s s' hn h with e | ⟨_, _, _, _, _, _, _, _, _, _, _, e⟩
  · rw [e]
  · rw [e]

theorem alignMoves_ms (qn : QName) (R : Tree) (l : Nat) (lcs : List Nat) (s s' : DState)
    (h : alignMoves qn R l lcs s = .ok s') : s'.ms = s.ms := by
  induction lcs generalizing s with
  | nil => simp only [alignMoves, Except.ok.injEq] at h; subst h; rfl
  | cons lc rest ih =>
    obtain ⟨s1, h1, h2⟩ := alignMoves_split qn R l lc rest s s' h
    have e1 : s1.ms = s.ms := by
      rcases alignMoves_one_shape2 qn R l lc s s1 h1 with e | ⟨_, _, _, _, _, _, _, _, _, _, _, _, _, _, _, e⟩
      · rw [e]
      · rw [e]
    rw [ih s1 h2, e1]

theorem alignChildren_ms (qn : QName) (R : Tree) (l : Nat) (x : Tree) (s s' : DState)
    (h : alignChildren qn R l x s = .ok s') : s'.ms = s.ms := by
  unfold alignChildren at h
  split at h
  · cases h
  · simp only at h
    split at h
    · simp only [Except.ok.injEq] at h; subst h; rfl
    · split at h
      · have := alignMoves_ms qn R l _ _ s' h
        exact this
      · cases h

theorem insertStep_ms (qn : QName) (R x : Tree) (lt : Option Nat) (s s' : DState) (l : Nat)
    (h : insertStep qn R x lt s = .ok (l, s')) : s'.ms = (l, x.id) :: s.ms ∧ l = s.next := by
  cases lt with
  | none =>
    simp only [insertStep, bind, Except.bind, throw, throwThe, MonadExceptOf.throw] at h
    split at h <;> cases h
  | some tgt =>
    simp only [insertStep, bind, Except.bind, pure, Except.pure] at h
    split at h
    · cases h
    · split at h
      · cases h
      · cases hk : x.payload.kind with
        | comment =>
          simp only [hk, Except.ok.injEq, Prod.mk.injEq] at h
          obtain ⟨rfl, rfl⟩ := h
          exact ⟨rfl, rfl⟩
        | elem =>
          simp only [hk, Except.ok.injEq, Prod.mk.injEq] at h
          obtain ⟨rfl, rfl⟩ := h
          exact ⟨rfl, rfl⟩

/-! ### obligations of a predicate family -/

structure Obl (qn : QName) (Pl : Nat → PState → Action → Prop) : Prop where
  ren : ∀ l t nx path tag, pathStr qn t l = .ok path → Pl l ⟨t, nx⟩ (.renameNode path tag)
  txt : ∀ l t nx path v, pathStr qn t l = .ok path → Pl l ⟨t, nx⟩ (.updateTextIn path v)
  tail : ∀ l t nx path v, pathStr qn t l = .ok path → Pl l ⟨t, nx⟩ (.updateTextAfter path v)
  attr : ∀ l t nx path a, pathStr qn t l = .ok path → IsAttrOn path a → Pl l ⟨t, nx⟩ a
  ins : ∀ l p tp tag pos, Pl l p (.insertNode tp tag pos)
  insc : ∀ l p tp pos v, Pl l p (.insertComment tp pos v)
  move : ∀ l p p1 p2 pos, Pl l p (.moveNode p1 p2 pos)

theorem along_of_forall (qn : QName) (P : PState → Action → Prop) (p : PState) (acts : List Action)
    (h : ∀ a ∈ acts, ∀ q, P q a) : Along qn P p acts := by
  intro pre a post hsplit q _
  exact h a (by rw [hsplit]; simp) q

section pieces
variable (qn : QName) (ign : List Str) (Pl : Nat → PState → Action → Prop) (ob : Obl qn Pl)
include ob

theorem renameStep_g (l0 l : Nat) (hl : l = l0) (x : Payload) (s s' : DState) (hs : SOK s)
    (h : renameStep qn l x s = .ok s') : GS qn ign (Pl l0) s s' := by
  subst hl
  obtain ⟨acts, st⟩ := renameStep_steps qn ign l x s s' hs h
  unfold renameStep at h
  split at h
  · cases h
  · split at h
    · simp only [bind, Except.bind, pure, Except.pure] at h
      split at h
      · cases h
      · next path hpath =>
        simp only [Except.ok.injEq] at h
        subst h
        have := C17.acts_single st _ rfl
        subst this
        exact GS.of_single st (ob.ren l s.left s.next path x.tag hpath)
    · simp only [pure, Except.pure, Except.ok.injEq] at h
      subst h
      exact GS.refl qn ign _ s hs

theorem textPiece_g (l : Nat) (s : DState) (hs : SOK s) (path : Path)
    (hpath : pathStr qn s.left l = .ok path) (t : Option Str) (tail : Bool) :
    let f : Payload → Payload := fun p => if tail then { p with tail := t } else { p with text := t }
    let a : Action := if tail then .updateTextAfter path t else .updateTextIn path t
    GS qn ign (Pl l) s { s with left := setPayload s.left l f, out := a :: s.out } := by
  intro f a
  obtain ⟨sub, _, hhit, hid⟩ := applyShipped_modify qn s.left s.next l path hpath
  have st : Steps qn ign s { s with left := setPayload s.left l f, out := a :: s.out } [a] := by
    refine ⟨by simp, ?_, sok_modify s hs l _ _, ?_, by simp [setPayload, id_modify]⟩
    · apply runShipped_single
      cases tail <;> simp [a, f, applyUniq, applyWith, bind, Except.bind, hhit, hid, setPayload]
    · intro b hb
      simp only [List.mem_cons, List.mem_nil_iff, or_false] at hb
      subst hb
      cases tail <;> simp [a, ActAvoids]
  refine GS.of_single st ?_
  cases tail
  · exact ob.txt l s.left s.next path t hpath
  · exact ob.tail l s.left s.next path t hpath

theorem updateText_g (l : Nat) (x : Payload) (s s' : DState) (hs : SOK s)
    (h : updateText qn l x s = .ok s') : GS qn ign (Pl l) s s' := by
  unfold updateText at h
  split at h
  · cases h
  · next ln hln =>
    simp only [bind, Except.bind] at h
    split at h
    · cases h
    · next path hpath =>
      simp only [Except.ok.injEq] at h
      subst h
      have c1 : GS qn ign (Pl l) s (textStep path l x ln s) := by
        unfold textStep
        split
        · have := textPiece_g qn ign Pl ob l s hs path hpath x.text false
          simpa using this
        · exact GS.refl qn ign _ s hs
      have hs1 := gs_ok c1
      have hk : ∀ t0 : Option Str, KeepsName (fun p : Payload => { p with text := t0 }) := fun _ _ => ⟨rfl, rfl⟩
      have c2 : GS qn ign (Pl l) (textStep path l x ln s) (tailStep path l x ln (textStep path l x ln s)) := by
        unfold tailStep
        split
        · by_cases ht : ln.payload.text ≠ x.text
          · have e1 : textStep path l x ln s =
                ({ s with left := setPayload s.left l (fun p => { p with text := x.text })
                          out := .updateTextIn path x.text :: s.out } : DState) := by
              unfold textStep; rw [if_pos ht]
            rw [e1] at hs1 ⊢
            have hp2 : pathStr qn (setPayload s.left l (fun p => { p with text := x.text })) l = .ok path := by
              unfold pathStr at hpath ⊢
              simp only [setPayload]
              rw [getpath_modify qn l _ (hk x.text) s.left l]
              exact hpath
            have := textPiece_g qn ign Pl ob l _ hs1 path hp2 x.tail true
            simpa using this
          · have e1 : textStep path l x ln s = s := by unfold textStep; rw [if_neg ht]
            rw [e1]
            have := textPiece_g qn ign Pl ob l s hs path hpath x.tail true
            simpa using this
        · exact GS.refl qn ign _ _ hs1
      exact c1.trans c2

theorem updateAttrStep_g (l0 l : Nat) (hl0 : l = l0) (x : Payload) (s s' : DState) (hs : SOK s)
    (hx : (keys x.attrs).Nodup) (h : updateAttrStep qn ign l x s = .ok s') : GS qn ign (Pl l0) s s' := by
  subst hl0
  obtain ⟨acts, st⟩ := updateAttrStep_steps qn ign l x s s' hs hx h
  refine ⟨acts, st, ?_⟩
  unfold updateAttrStep at h
  split at h
  · cases h
  · next ln hln =>
    simp only [bind, Except.bind] at h
    split at h
    · cases h
    · next path hpath =>
      obtain ⟨acts', hph⟩ := updateAttrs_phase ign path ln.payload.attrs x.attrs s.out hx
      generalize updateAttrs ign path ln.payload.attrs x.attrs s.out = res at h hph
      obtain ⟨las, out⟩ := res
      simp only [Except.ok.injEq] at h
      subst h
      have e1 : acts = acts' := acts_of_out acts acts' s.out (by rw [← st.out]; exact hph.out_eq)
      subst e1
      -- the state in front of each action: node `l` with the attributes of the run so far
      intro pre a post hsplit q hq
      have hrun := hph.run
      rw [hsplit, attrRun_append] at hrun
      cases hc : attrRun ln.payload.attrs pre with
      | none => rw [hc] at hrun; cases hrun
      | some cur =>
        have hon : ∀ b ∈ pre, IsAttrOn path b := fun b hb => (hph.on b (by rw [hsplit]; simp [hb])).1
        have hrep := attr_replay qn s.left s.next l path ln hs.nodup hln hpath pre hon cur hc
        rw [hrep] at hq
        injection hq with hq
        subst hq
        apply ob.attr l _ _ path a ?_ (hph.on a (by rw [hsplit]; simp)).1
        unfold pathStr at hpath ⊢
        rw [getpath_modify qn l _ (setAttrs_keeps cur) s.left l]
        exact hpath

theorem insertStep_g (l0 : Nat) (R x : Tree) (lt : Option Nat) (s s' : DState) (l : Nat)
    (hs : SOK s) (h : insertStep qn R x lt s = .ok (l, s')) : GS qn ign (Pl l0) s s' := by
  obtain ⟨_, acts, st⟩ := insertStep_steps qn ign R x lt s s' l hs h
  obtain ⟨tgt, pos, tp, act, _, _, _, hout, hact⟩ := insertStep_shape2 qn R x lt s s' l h
  have := C17.acts_single st act hout
  subst this
  refine GS.of_single st ?_
  rcases hact with e | e
  · rw [e]; exact ob.ins l0 _ tp _ pos
  · rw [e]; exact ob.insc l0 _ tp pos _

theorem moveStep_g (l0 : Nat) (R x : Tree) (l : Nat) (lt : Option Nat) (s s' : DState)
    (hs : SOK s) (h : moveStep qn R x l lt s = .ok s') : GS qn ign (Pl l0) s s' := by
  obtain ⟨acts, st⟩ := moveStep_steps qn ign R x l lt s s' hs h
  rcases moveStep_shape2 qn R x l lt s s' hs.nodup h with e | ⟨tgt, pos, sub, p1, p2, _, _, _, _, _, _, e⟩
  · have : acts = [] := acts_of_out acts [] s.out (by rw [← st.out, e]; simp)
    subst this
    exact ⟨[], st, Along.nil qn _ _⟩
  · have := C17.acts_single st (.moveNode p1 p2 pos) (by rw [e])
    subst this
    exact GS.of_single st (ob.move l0 _ p1 p2 pos)

theorem alignMoves_g (l0 : Nat) (R : Tree) (l : Nat) (lcs : List Nat) (s s' : DState)
    (hs : SOK s) (hroot : ∀ c ∈ lcs, s.left.id ≠ c) (h : alignMoves qn R l lcs s = .ok s') :
    GS qn ign (Pl l0) s s' := by
  induction lcs generalizing s with
  | nil => simp only [alignMoves, Except.ok.injEq] at h; subst h; exact GS.refl qn ign _ s hs
  | cons lc rest ih =>
    obtain ⟨s1, h1, h2⟩ := alignMoves_split qn R l lc rest s s' h
    obtain ⟨acts, st⟩ := alignMoves_steps qn ign R l [lc] s s1 hs
      (fun c hc => by simp at hc; rw [hc]; exact hroot lc (by simp)) h1
    have c1 : GS qn ign (Pl l0) s s1 := by
      rcases alignMoves_one_shape2 qn R l lc s s1 h1 with e |
        ⟨rc, rp, lt, pos, sub, p1, p2, _, _, _, _, _, _, _, _, e⟩
      · have : acts = [] := acts_of_out acts [] s.out (by rw [← st.out, e]; simp)
        subst this
        exact ⟨[], st, Along.nil qn _ _⟩
      · have := C17.acts_single st (.moveNode p1 p2 pos) (by rw [e])
        subst this
        exact GS.of_single st (ob.move l0 _ p1 p2 pos)
    exact c1.trans (ih s1 st.ok (fun c hc => by rw [st.rootid]; exact hroot c (by simp [hc])) h2)

theorem alignChildren_g (l0 : Nat) (R : Tree) (l : Nat) (x : Tree) (s s' : DState) (hs : SOK s)
    (h : alignChildren qn R l x s = .ok s') : GS qn ign (Pl l0) s s' := by
  unfold alignChildren at h
  split at h
  · cases h
  · next ln hln =>
    simp only at h
    split at h
    · simp only [Except.ok.injEq] at h
      subst h
      exact GS.refl qn ign _ s hs
    · split at h
      · next ps hps =>
        refine Exists.elim (alignMoves_g qn ign Pl ob l0 R l _ _ s' ?a ?b h) ?c
        case a => exact ⟨hs.nodup, hs.fresh⟩
        case b =>
          intro c hc
          simp only [List.mem_filter, List.mem_map] at hc
          obtain ⟨⟨k, hk, rfl⟩, _⟩ := hc
          apply root_ne_of_desc s.left k.id hs.nodup
          exact find_kids_desc l s.left ln hln _ (mem_idsL_of_mem k _ hk)
        case c =>
          intro acts hh
          obtain ⟨st, cg⟩ := hh
          exact ⟨acts, ⟨st.out, st.replay, st.ok, st.avoid, st.rootid⟩, cg⟩
      · cases h

/-- the align + text part of a visit, when `l` is the partner of `x` -/
theorem visitTail_g (R x : Tree) (l : Nat) (s1 s' : DState) (hs : SOK s1) (hl : r2lGet s1.ms x.id = some l)
    (h : visitTail qn R l x s1 = .ok s') : GS qn ign (Pl l) s1 s' ∧ s'.ms = s1.ms := by
  unfold visitTail at h
  simp only [bind, Except.bind] at h
  split at h
  · cases h
  · next s2 hs2 =>
    have c1 := alignChildren_g qn ign Pl ob l R l x s1 s2 hs hs2
    have hms := alignChildren_ms qn R l x s1 s2 hs2
    rw [hms, hl] at h
    simp only at h
    exact ⟨c1.trans (updateText_g qn ign Pl ob l x.payload s2 s' (gs_ok c1) h),
      (updateText_ms qn l x.payload s2 s' (gs_ok c1).nodup h).trans hms⟩

/-- **one visit**: its actions satisfy `Pl l` along their replay, `l` the partner of the visited node afterwards;
the matching is the old one, extended by `(l, x)` if `x` had no partner -/
theorem visit_g (cfg : Cfg) (hign : ign = cfg.ignored) (R x : Tree) (s s' : DState) (hs : SOK s)
    (hx : (keys x.payload.attrs).Nodup) (h : visit qn cfg R x s = .ok s') :
    ∃ l, GS qn ign (Pl l) s s' ∧ r2lGet s'.ms x.id = some l ∧
      (s'.ms = s.ms ∨ (r2lGet s.ms x.id = none ∧ s'.ms = (l, x.id) :: s.ms ∧ l = s.next)) := by
  subst hign
  unfold visit at h
  simp only at h
  cases hun : r2lGet s.ms x.id with
  | none =>
    rw [hun] at h
    simp only [bind, Except.bind] at h
    split at h
    · cases h
    · next res hins =>
      obtain ⟨l, s1⟩ := res
      simp only at h
      split at h
      · cases h
      · next s2 hattrs =>
        have c1 := insertStep_g qn cfg.ignored Pl ob l R x _ s s1 l hs hins
        obtain ⟨hms1, hl⟩ := insertStep_ms qn R x _ s s1 l hins
        have c2 := updateAttrStep_g qn cfg.ignored Pl ob l l rfl x.payload s1 s2 (gs_ok c1) hx hattrs
        have hms2 := updateAttrStep_ms qn cfg.ignored l x.payload s1 s2 hattrs
        have hl2 : r2lGet s2.ms x.id = some l := by
          rw [hms2, hms1]; simp [r2lGet]
        obtain ⟨c3, hms3⟩ := visitTail_g qn cfg.ignored Pl ob R x l s2 s' (gs_ok c2) hl2 h
        refine ⟨l, (c1.trans c2).trans c3, by rw [hms3]; exact hl2, Or.inr ⟨rfl, ?_, hl⟩⟩
        rw [hms3, hms2, hms1]
  | some l =>
    rw [hun] at h
    simp only [bind, Except.bind] at h
    split at h
    · cases h
    · next s1 hmove =>
      split at h
      · cases h
      · next s2 hren =>
        split at h
        · cases h
        · next s3 hattrs =>
          have c1 := moveStep_g qn cfg.ignored Pl ob l R x l _ s s1 hs hmove
          have hms1 := moveStep_ms qn R x l _ s s1 hs.nodup hmove
          have c2 := renameStep_g qn cfg.ignored Pl ob l l rfl x.payload s1 s2 (gs_ok c1) hren
          have hms2 := renameStep_ms qn l x.payload s1 s2 (gs_ok c1).nodup hren
          have c3 := updateAttrStep_g qn cfg.ignored Pl ob l l rfl x.payload s2 s3 (gs_ok c2) hx hattrs
          have hms3 := updateAttrStep_ms qn cfg.ignored l x.payload s2 s3 hattrs
          have hl3 : r2lGet s3.ms x.id = some l := by rw [hms3, hms2, hms1]; exact hun
          obtain ⟨c4, hms4⟩ := visitTail_g qn cfg.ignored Pl ob R x l s3 s' (gs_ok c3) hl3 h
          refine ⟨l, ((c1.trans c2).trans c3).trans c4, by rw [hms4]; exact hl3, Or.inl ?_⟩
          rw [hms4, hms3, hms2, hms1]

end pieces

end Along
end XmlDiffModel
