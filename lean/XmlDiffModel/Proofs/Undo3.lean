/-
C11 round trip, part 3: restoring a placeholder text.  `Good st de ks alt` says that `alt` is the placeholder text of the
children `ks` with respect to the table and the heap of `st`; the loop of `undo_string` then rebuilds the children, up
to the normal form `normT` (ids erased - restored elements are copies - and an empty text or tail not distinguished
from a missing one).
-/
import XmlDiffModel.Proofs.Undo2
import XmlDiffModel.Model.Project

namespace XmlDiffModel
namespace Undo
open Tree

/-! ### normal form -/


mutual
  def normT : Tree → Tree
    | .node _ p ks => .node 0 { p with text := nt p.text, tail := nt p.tail } (normL ks)
  def normL : List Tree → List Tree
    | [] => []
    | t :: ts => normT t :: normL ts
end

mutual
  theorem normT_eraseIds (t : Tree) : normT (eraseIds t) = normT t := by
    match t with
    | .node i p ks => simp only [eraseIds, normT, normL_eraseIdsL ks]
  theorem normL_eraseIdsL (ts : List Tree) : normL (eraseIdsL ts) = normL ts := by
    match ts with
    | [] => rfl
    | t :: rest => simp only [eraseIdsL, normL, normT_eraseIds t, normL_eraseIdsL rest]
end

mutual
  theorem plainT_eraseIds (st : PhSt) (t : Tree) (h : PlainT st t) : PlainT st (eraseIds t) := by
    match t with
    | .node i p ks =>
      simp only [PlainT, eraseIds] at h ⊢
      exact ⟨h.1, h.2.1, plainL_eraseIdsL st ks h.2.2⟩
  theorem plainL_eraseIdsL (st : PhSt) (ts : List Tree) (h : PlainL st ts) : PlainL st (eraseIdsL ts) := by
    match ts with
    | [] => trivial
    | t :: rest =>
      simp only [PlainL, eraseIdsL] at h ⊢
      exact ⟨plainT_eraseIds st t h.1, plainL_eraseIdsL st rest h.2⟩
end

theorem plainFor_nil (st : PhSt) : PlainFor st [] := fun _ h => by cases h

theorem nt_of_str (s : Str) : nt (if s = [] then none else some s) = (if s = [] then none else some s) := by
  unfold nt
  by_cases h : s = [] <;> simp [h, strOf]

theorem nt_eq_of_strOf (o : Option Str) : nt o = (if strOf o = [] then none else some (strOf o)) := by
  unfold nt
  cases o with
  | none => simp [strOf]
  | some s => by_cases h : s = [] <;> simp [h, strOf]

/-! ### texts below the placeholder range -/

/-- every character is below `PLACEHOLDER_START` (no private-use character from U+E000 on) -/
def Low (s : Str) : Prop := ∀ c ∈ s, c.toNat ≤ phStart

mutual
  def LowT : Tree → Prop
    | .node _ p ks => Low (strOf p.text) ∧ Low (strOf p.tail) ∧ LowL ks
  def LowL : List Tree → Prop
    | [] => True
    | t :: ts => LowT t ∧ LowL ts
end

/-- placeholders of the table lie above `PLACEHOLDER_START` -/
def Above (st : PhSt) : Prop := ∀ e ∈ st.table, phStart < e.ph

theorem plainFor_of_low (st : PhSt) (ha : Above st) (s : Str) (h : Low s) : PlainFor st s := by
  intro c hc
  unfold PhSt.isPh PhSt.entryOf
  cases hf : st.table.find? (fun e => e.ph == c.toNat) with
  | none => rfl
  | some e =>
    exfalso
    have hm := List.mem_of_find?_eq_some hf
    have hp := List.find?_some hf
    simp only [beq_iff_eq] at hp
    have := ha e hm
    have := h c hc
    omega

mutual
  theorem plainT_of_lowT (st : PhSt) (ha : Above st) (t : Tree) (h : LowT t) : PlainT st t := by
    match t with
    | .node i p ks =>
      simp only [LowT, PlainT] at h ⊢
      exact ⟨plainFor_of_low st ha _ h.1, plainFor_of_low st ha _ h.2.1, plainL_of_lowL st ha ks h.2.2⟩
  theorem plainL_of_lowL (st : PhSt) (ha : Above st) (ts : List Tree) (h : LowL ts) : PlainL st ts := by
    match ts with
    | [] => trivial
    | t :: rest =>
      simp only [LowL, PlainL] at h ⊢
      exact ⟨plainT_of_lowT st ha t h.1, plainL_of_lowL st ha rest h.2⟩
end

/-! ### the placeholder text of a list of children -/

inductive Good (st : PhSt) (de : List (Nat × Tree)) : List Tree → Alt → Prop
  | nil : Good st de [] []
  | fmt (c : Tree) (rest : List Tree) (o cl : Char) (eo : PhEntry) (obj : Tree) (altK altR : Alt) :
      st.entryOf o.toNat = some eo → eo.role = .open → eo.closePh = some cl.toNat →
      st.elemOf eo de = some obj → obj.kids = [] → obj.payload.kind = c.payload.kind →
      obj.payload.tag = c.payload.tag → obj.payload.attrs = c.payload.attrs →
      st.isPh cl = true → (∀ x ∈ altK, x.1.toNat ≠ cl.toNat) →
      Low (strOf c.payload.text) → Low (strOf c.payload.tail) →
      Good st de c.kids altK → Good st de rest altR →
      Good st de (c :: rest) ((o, strOf c.payload.text) :: altK ++ (cl, strOf c.payload.tail) :: altR)
  | single (c : Tree) (rest : List Tree) (s : Char) (es : PhEntry) (obj : Tree) (altR : Alt) :
      st.entryOf s.toNat = some es → es.role = .single → st.elemOf es de = some obj →
      eraseIds obj = eraseIds (setTailT (some []) c) → LowT c →
      Good st de rest altR →
      Good st de (c :: rest) ((s, strOf c.payload.tail) :: altR)

theorem Good.altOK {st : PhSt} {de : List (Nat × Tree)} {ks : List Tree} {alt : Alt} (h : Good st de ks alt)
    (ha : Above st) : AltOK st alt := by
  induction h with
  | nil => intro x hx; cases hx
  | fmt c rest o cl eo obj altK altR h1 _ _ _ _ _ _ _ hcl _ ht htl _ _ ihK ihR =>
    intro x hx
    simp only [List.mem_cons, List.mem_append] at hx
    rcases hx with (rfl | hx) | (rfl | hx)
    · exact ⟨by simp [PhSt.isPh, h1], plainFor_of_low st ha _ ht⟩
    · exact ihK x hx
    · exact ⟨hcl, plainFor_of_low st ha _ htl⟩
    · exact ihR x hx
  | single c rest s es obj altR h1 _ _ _ hp _ ihR =>
    intro x hx
    simp only [List.mem_cons] at hx
    rcases hx with rfl | hx
    · refine ⟨by simp [PhSt.isPh, h1], ?_⟩
      cases c with
      | node i p ks => simp only [LowT] at hp; exact plainFor_of_low st ha _ hp.2.1
    · exact ihR x hx

theorem Good.nil_of_alt_nil {st : PhSt} {de : List (Nat × Tree)} {ks : List Tree} (h : Good st de ks []) : ks = [] := by
  cases h with
  | nil => rfl

theorem Good.nil_of_alt_nil_eq {st : PhSt} {de : List (Nat × Tree)} {ks : List Tree} {alt : Alt}
    (h : Good st de ks alt) (e : alt = []) : ks = [] := by
  subst e; exact h.nil_of_alt_nil

/-! ### the restoring loop on a good placeholder text -/

theorem flatAlt_ne_nil (alt : Alt) (h : alt ≠ []) : flatAlt alt ≠ [] := by
  cases alt with
  | nil => exact absurd rfl h
  | cons x xs => obtain ⟨c, s⟩ := x; simp [flatAlt]

theorem normL_eq_nil (rs : List Tree) (h : normL rs = []) : rs = [] := by
  cases rs with
  | nil => rfl
  | cons a as => simp [normL] at h

/-- the element `undo_string` appends for a child, after the text piece that follows it has been seen -/
def withTail (s : Str) (t : Tree) : Tree := if s = [] then t else setTailT (some s) t

theorem segs_tail_piece (f : Nat) (st : PhSt) (de : List (Nat × Tree)) (s : Str) (E : Tree)
    (hE : strOf E.payload.tail = []) (rest : List (Sum Str Char)) (rt : Option Str) (acc : List Tree) :
    undoSegs f st de (Sum.inl s :: rest) rt (E :: acc) = undoSegs f st de rest rt (withTail s E :: acc) := by
  unfold withTail
  by_cases hs : s = []
  · subst hs; rw [segs_text_empty]; simp
  · rw [segs_text_tail f st de s hs, if_neg hs]
    simp [hE]

theorem nt_some_nil : nt (some []) = none := by simp [nt, strOf]
theorem nt_none : nt none = none := by simp [nt, strOf]
theorem nt_some {s : Str} (h : s ≠ []) : nt (some s) = some s := by simp [nt, strOf, h]

theorem normT_withTail (s : Str) (i : Nat) (p : Payload) (ks : List Tree) (hp : strOf p.tail = []) :
    normT (withTail s (.node i p ks)) =
      .node 0 { p with text := nt p.text, tail := if s = [] then none else some s } (normL ks) := by
  unfold withTail
  by_cases hs : s = []
  · simp only [hs, if_true, normT]
    congr 2
    rw [nt_eq_of_strOf, hp]; rfl
  · simp only [hs, if_false, setTailT, normT, nt_some hs]

theorem normT_single (c : Tree) :
    normT (withTail (strOf c.payload.tail) (eraseIds (setTailT (some []) c))) = normT c := by
  cases c with
  | node i p ks =>
    simp only [setTailT, eraseIds, Tree.payload]
    rw [normT_withTail _ _ _ _ (by simp [strOf])]
    simp only [normT, normL_eraseIdsL]
    congr 2
    rw [nt_eq_of_strOf p.tail]

theorem strOf_P2 (tc : Str) (altK : Alt) :
    strOf (if altK = [] then (if (tc ++ flatAlt altK).isEmpty then none else some (tc ++ flatAlt altK))
      else (if tc = [] then none else some tc)) = tc := by
  by_cases hK : altK = []
  · subst hK
    simp only [if_true, flatAlt, List.append_nil]
    cases tc <;> simp [strOf]
  · simp only [hK, if_false]
    cases tc <;> simp [strOf]

/-- no opening placeholder of a good text closes with a placeholder that does not occur in it: every opening
placeholder is followed by its own closing one, and the entry of a closing placeholder is not an opening entry -/
theorem Good.no_open_closing {st : PhSt} {de : List (Nat × Tree)} {ks : List Tree} {alt : Alt}
    (h : Good st de ks alt) (hT : TableOK st) (hC : Closed st) (C : Nat) (hno : ∀ x ∈ alt, x.1.toNat ≠ C) :
    ∀ x ∈ alt, ∀ e, st.entryOf x.1.toNat = some e → ¬ (e.role = .open ∧ e.closePh = some C) := by
  induction h with
  | nil => intro x hx; cases hx
  | fmt c rest o cl eo obj altK altR h1 h2 h3 _ _ _ _ _ _ _ _ _ _ _ ihK ihR =>
    intro x hx e he hbad
    simp only [List.mem_cons, List.mem_append] at hx
    rcases hx with (rfl | hx) | (rfl | hx)
    · -- the opening placeholder of this child: it closes with `cl`, which occurs in the text
      simp only at he
      rw [h1] at he
      injection he with he
      subst he
      rw [h3] at hbad
      have : cl.toNat = C := Option.some.inj hbad.2
      exact hno (cl, strOf c.payload.tail) (by simp) this
    · exact ihK (fun y hy => hno y (by simp [hy])) x hx e he hbad
    · -- the closing placeholder: its entry is a closing entry
      simp only at he
      have hm : eo ∈ st.table := List.mem_of_find?_eq_some h1
      obtain ⟨k, e', hk, he', hph, hr⟩ := hC.oc eo hm h2
      rw [h3] at hk
      have hk' : cl.toNat = k := Option.some.inj hk
      have := entryOf_of_mem st hT e' he'
      rw [hph, ← hk', he] at this
      injection this with this
      subst this
      rw [hr] at hbad
      exact absurd hbad.1 (by decide)
    · exact ihR (fun y hy => hno y (by simp [hy])) x hx e he hbad
  | single c rest s es obj altR h1 h2 _ _ _ _ ihR =>
    intro x hx e he hbad
    simp only [List.mem_cons] at hx
    rcases hx with rfl | hx
    · simp only at he
      rw [h1] at he
      injection he with he
      subst he
      rw [h2] at hbad
      exact absurd hbad.1 (by decide)
    · exact ihR (fun y hy => hno y (by simp [hy])) x hx e he hbad

theorem Good.forest {st : PhSt} {de : List (Nat × Tree)} {ks : List Tree} {alt : Alt} (h : Good st de ks alt)
    (ha : Above st) (hT : TableOK st) (hC : Closed st) :
    ∃ rs, normL rs = normL ks ∧ PlainL st rs ∧
      ∀ (rest : List (Sum Str Char)) (rtext : Option Str) (acc : List Tree) (r : Option Str × List Tree),
        (∃ M, ∀ f, M ≤ f → undoSegs f st de rest rtext (rs.reverse ++ acc) = .ok r) →
        ∃ N, ∀ f, N ≤ f → undoSegs f st de (piecesOf alt ++ rest) rtext acc = .ok r := by
  induction h with
  | nil =>
    exact ⟨[], rfl, trivial, fun rest rtext acc r hc => by simpa [piecesOf] using hc⟩
  | single c rest s es obj altR h1 h2 h3 h4 hlow _ ihR =>
    obtain ⟨rsR, nR, pR, cR⟩ := ihR
    have hp : PlainT st c := plainT_of_lowT st ha c hlow
    -- the restored element
    have hE : PlainT st (eraseIds (setTailT (some []) c)) := by
      apply plainT_eraseIds
      cases c with
      | node i p ks => simp only [setTailT, PlainT] at hp ⊢; exact ⟨hp.1, plainFor_nil st, hp.2.2⟩
    obtain ⟨N1, hN1⟩ := undoElement_plain st de _ hE
    have hEt : strOf (eraseIds (setTailT (some []) c)).payload.tail = [] := by
      cases c; simp [setTailT, eraseIds, Tree.payload, strOf]
    refine ⟨withTail (strOf c.payload.tail) (eraseIds (setTailT (some []) c)) :: rsR, ?_, ?_, ?_⟩
    · simp only [normL, nR, normT_single]
    · refine ⟨?_, pR⟩
      unfold withTail
      split
      · exact hE
      · cases c with
        | node i p ks =>
          simp only [setTailT, eraseIds, PlainT] at hE hp ⊢
          exact ⟨hE.1, hp.2.1, hE.2.2⟩
    · intro rest0 rtext acc r hc
      have hc' : ∃ M, ∀ f, M ≤ f → undoSegs f st de rest0 rtext
          (rsR.reverse ++ (withTail (strOf c.payload.tail) (eraseIds (setTailT (some []) c)) :: acc)) = .ok r := by
        obtain ⟨M, hM⟩ := hc
        refine ⟨M, fun f hf => ?_⟩
        have := hM f hf
        simpa [List.reverse_cons, List.append_assoc] using this
      obtain ⟨N2, hN2⟩ := cR rest0 rtext _ r hc'
      refine ⟨N1 + N2 + 1, fun f hf => ?_⟩
      obtain ⟨g, rfl⟩ : ∃ g, f = g + 1 := ⟨f - 1, by omega⟩
      simp only [piecesOf, List.cons_append]
      rw [segs_single g st de s es obj _ [] _ rtext acc h1 h2 h3 (by rw [h4]; exact hN1 g (by omega))]
      rw [segs_tail_piece g st de _ _ hEt]
      exact hN2 g (by omega)
  | fmt c rest o cl eo obj altK altR h1 h2 h3 h4 hk5 hk6 hk7 hk8 hcl hno htlow htllow gK _ ihK ihR =>
    obtain ⟨rsK, nK, pK, cK⟩ := ihK
    obtain ⟨rsR, nR, pR, cR⟩ := ihR
    have ht : PlainFor st (strOf c.payload.text) := plainFor_of_low st ha _ htlow
    have htl : PlainFor st (strOf c.payload.tail) := plainFor_of_low st ha _ htllow
    have hAK : AltOK st altK := gK.altOK ha
    -- the emptied element the entry points to, with the inner text
    let inner : Str := strOf c.payload.text ++ flatAlt altK
    let P0 : Payload := { kind := c.payload.kind, tag := c.payload.tag, attrs := c.payload.attrs,
                          text := if inner.isEmpty then none else some inner, tail := none }
    have hE1 : setTailT none (setText (if inner.isEmpty then none else some inner) (eraseIds obj)) = .node 0 P0 [] := by
      cases obj with
      | node i p ks =>
        change ks = [] at hk5
        change p.kind = _ at hk6
        change p.tag = _ at hk7
        change p.attrs = _ at hk8
        subst hk5
        simp only [eraseIds, eraseIdsL, setText, setTailT, P0, hk6, hk7, hk8]
    -- what `undo_element` makes of it
    let T2 : Option Str := if strOf c.payload.text = [] then none else some (strOf c.payload.text)
    let P2 : Payload := { P0 with text := if altK = [] then P0.text else T2 }
    obtain ⟨NK, hNK⟩ := undoKids_plain st de rsK pK
    have hA : ∃ NA, ∀ f, NA ≤ f → undoElement f st de (.node 0 P0 []) = .ok (.node 0 P2 rsK, []) := by
      -- the inner text
      obtain ⟨N3, hN3⟩ := cK [] T2 [] (T2, rsK) ⟨0, fun f _ => by rw [List.append_nil, segs_nil, List.reverse_reverse]⟩
      refine ⟨N3 + NK + 3, fun f hf => ?_⟩
      obtain ⟨g, rfl⟩ : ∃ g, f = g + 3 := ⟨f - 3, by omega⟩
      rw [undoElement_succ]
      by_cases hin : inner = []
      · -- nothing inside
        have hK0 : altK = [] := by
          apply Classical.byContradiction
          intro hne
          have h1' := flatAlt_ne_nil altK hne
          apply h1'
          have : strOf c.payload.text ++ flatAlt altK = [] := hin
          exact (List.append_eq_nil_iff.1 this).2
        have hrs : rsK = [] := by
          have := gK.nil_of_alt_nil_eq hK0
          apply normL_eq_nil
          rw [nK, this]; rfl
        have ht0 : P0.text = none := by simp [P0, hin]
        have : undoText (g + 2) st de P0 = .ok (P0, []) := by
          unfold undoText; rw [ht0]
        rw [this]
        simp only [List.nil_append]
        rw [undoKids_nil]
        simp only [hrs, P2, hK0, if_true]
        unfold undoTail
        simp [P0]
      · have hine : inner.isEmpty = false := by cases hi : inner <;> simp_all
        have ht0 : P0.text = some inner := by simp [P0, hine]
        have hstr : undoString (g + 2) st de inner = .ok (T2, rsK) := by
          rw [undoString_succ]
          simp only [inner]
          rw [splitPh_alt0 st altK hAK _ ht]
          have hN := hN3 (g + 1) (by omega)
          simp only [List.append_nil] at hN
          by_cases htc : strOf c.payload.text = []
          · rw [htc, segs_text_empty]
            simp only [T2, htc, if_true] at hN ⊢
            exact hN
          · rw [segs_text_first _ _ _ _ htc]
            have he : (strOf (none : Option Str)).isEmpty = true := rfl
            rw [if_pos he]
            have hT : T2 = some (strOf c.payload.text) := by simp only [T2, htc, if_false]
            rw [hT] at hN ⊢
            exact hN
        have htxt : undoText (g + 2) st de P0 = .ok (P2, rsK) := by
          unfold undoText
          rw [ht0]
          simp only [hine, Bool.false_eq_true, if_false, hstr]
          by_cases hK0 : altK = []
          · have hrs : rsK = [] := by
              have := gK.nil_of_alt_nil_eq hK0
              apply normL_eq_nil
              rw [nK, this]; rfl
            have hT2 : T2 = some inner := by
              simp only [T2, inner, hK0, flatAlt, List.append_nil]
              have : strOf c.payload.text ≠ [] := by
                intro e; apply hin; simp [inner, e, hK0, flatAlt]
              simp [this]
            simp only [hT2, beq_self_eq_true, if_true, hrs, P2, hK0]
          · have hT2 : (T2 == some inner) = false := by
              simp only [T2]
              by_cases htc : strOf c.payload.text = []
              · simp [htc]
              · simp only [htc, if_false]
                rw [beq_eq_false_iff_ne]
                intro e
                simp only [Option.some.injEq, inner] at e
                have := flatAlt_ne_nil altK hK0
                have hl := congrArg List.length e
                simp only [List.length_append] at hl
                have : (flatAlt altK).length ≠ 0 := by
                  intro e0; exact this (List.eq_nil_of_length_eq_zero e0)
                omega
            simp only [hT2, Bool.false_eq_true, if_false, P2, hK0]
        rw [htxt]
        simp only [List.append_nil]
        rw [hNK (g + 2) (by omega)]
        simp only
        unfold undoTail
        simp [P2, P0]
    obtain ⟨NA, hNA⟩ := hA
    have hEt : strOf (Tree.node 0 P2 rsK).payload.tail = [] := by simp [Tree.payload, P2, P0, strOf]
    -- the text of the restored element is the original text, up to "empty = missing"
    have hP2t : strOf P2.text = strOf c.payload.text := strOf_P2 (strOf c.payload.text) altK
    refine ⟨withTail (strOf c.payload.tail) (.node 0 P2 rsK) :: rsR, ?_, ?_, ?_⟩
    · simp only [normL, nR]
      congr 1
      rw [normT_withTail _ _ _ _ (by simp [P2, P0, strOf])]
      cases c with
      | node i p ks =>
        simp only [normT, Tree.kids] at nK ⊢
        rw [nK]
        congr 1
        have e1 : nt P2.text = nt p.text := by
          rw [nt_eq_of_strOf, nt_eq_of_strOf p.text]
          simp only [Tree.payload] at hP2t
          rw [hP2t]
        simp only [Tree.payload]
        rw [e1, nt_eq_of_strOf p.tail]
        rfl
    · refine ⟨?_, pR⟩
      have hplain : PlainT st (.node 0 P2 rsK) := by
        simp only [PlainT]
        refine ⟨by rw [hP2t]; exact ht, ?_, pK⟩
        simp only [P2, P0, strOf]
        exact plainFor_nil st
      unfold withTail
      split
      · exact hplain
      · simp only [setTailT, PlainT] at hplain ⊢
        exact ⟨hplain.1, htl, hplain.2.2⟩
    · intro rest0 rtext acc r hc
      have hc' : ∃ M, ∀ f, M ≤ f → undoSegs f st de rest0 rtext
          (rsR.reverse ++ (withTail (strOf c.payload.tail) (.node 0 P2 rsK) :: acc)) = .ok r := by
        obtain ⟨M, hM⟩ := hc
        refine ⟨M, fun f hf => ?_⟩
        have := hM f hf
        simpa [List.reverse_cons, List.append_assoc] using this
      obtain ⟨N2, hN2⟩ := cR rest0 rtext _ r hc'
      refine ⟨NA + N2 + 1, fun f hf => ?_⟩
      obtain ⟨g, rfl⟩ : ∃ g, f = g + 1 := ⟨f - 1, by omega⟩
      have hpieces : piecesOf ((o, strOf c.payload.text) :: altK ++ (cl, strOf c.payload.tail) :: altR) ++ rest0 =
          Sum.inr o :: (Sum.inl (strOf c.payload.text) :: piecesOf altK ++
            Sum.inr cl :: (Sum.inl (strOf c.payload.tail) :: (piecesOf altR ++ rest0))) := by
        simp [piecesOf, piecesOf_append]
      rw [hpieces]
      have hcol := collectUntil_alt st cl.toNat altK hno (gK.no_open_closing hT hC cl.toNat hno) cl rfl (strOf c.payload.text) []
        (Sum.inl (strOf c.payload.tail) :: (piecesOf altR ++ rest0))
      rw [List.nil_append] at hcol
      rw [segs_open g st de o eo obj (.node 0 P2 rsK) [] _ _ inner rtext acc h1 h2 h4 (by rw [h3]; exact hcol)
        (by rw [hE1]; exact hNA g (by omega))]
      rw [segs_tail_piece g st de _ _ hEt]
      exact hN2 g (by omega)

/-! ### a whole text element -/

theorem Good.alt_ne_nil {st : PhSt} {de : List (Nat × Tree)} {ks : List Tree} {alt : Alt} (h : Good st de ks alt)
    (hk : ks ≠ []) : alt ≠ [] := by
  intro e
  exact hk (h.nil_of_alt_nil_eq e)

/-- `undo_element` on a text element whose children were replaced by a good placeholder text gives the element
back, up to the normal form -/
theorem undoElement_of_good (st : PhSt) (de : List (Nat × Tree)) (ha : Above st) (hT : TableOK st) (hC : Closed st)
    (i : Nat) (p : Payload)
    (ks : List Tree) (alt : Alt) (hG : Good st de ks alt) (hk : ks ≠ [])
    (hlt : Low (strOf p.text)) (hltl : Low (strOf p.tail)) :
    ∃ r, normT r = normT (.node i p ks) ∧ ∃ N, ∀ f, N ≤ f →
      undoElement f st de (.node i { p with text := some (strOf p.text ++ flatAlt alt) } []) = .ok (r, []) := by
  obtain ⟨rs, nrs, prs, crs⟩ := hG.forest ha hT hC
  have hAK := hG.altOK ha
  have ht := plainFor_of_low st ha _ hlt
  have htl := plainFor_of_low st ha _ hltl
  have hane := hG.alt_ne_nil hk
  let T2 : Option Str := if strOf p.text = [] then none else some (strOf p.text)
  obtain ⟨N3, hN3⟩ := crs [] T2 [] (T2, rs) ⟨0, fun f _ => by rw [List.append_nil, segs_nil, List.reverse_reverse]⟩
  obtain ⟨NK, hNK⟩ := undoKids_plain st de rs prs
  refine ⟨.node i { p with text := T2 } rs, ?_, N3 + NK + 3, fun f hf => ?_⟩
  · simp only [normT, nrs]
    congr 2
    rw [nt_eq_of_strOf p.text]
    exact nt_of_str (strOf p.text)
  · obtain ⟨g, rfl⟩ : ∃ g, f = g + 3 := ⟨f - 3, by omega⟩
    rw [undoElement_succ]
    have hne : (strOf p.text ++ flatAlt alt) ≠ [] := by
      intro e
      exact flatAlt_ne_nil alt hane (List.append_eq_nil_iff.1 e).2
    have hine : (strOf p.text ++ flatAlt alt).isEmpty = false := by
      cases h : strOf p.text ++ flatAlt alt <;> simp_all
    have hstr : undoString (g + 2) st de (strOf p.text ++ flatAlt alt) = .ok (T2, rs) := by
      rw [undoString_succ, splitPh_alt0 st alt hAK _ ht]
      have hN := hN3 (g + 1) (by omega)
      simp only [List.append_nil] at hN
      by_cases htc : strOf p.text = []
      · rw [htc, segs_text_empty]
        simp only [T2, htc, if_true] at hN ⊢
        exact hN
      · rw [segs_text_first _ _ _ _ htc]
        have he : (strOf (none : Option Str)).isEmpty = true := rfl
        rw [if_pos he]
        have hT : T2 = some (strOf p.text) := by simp only [T2, htc, if_false]
        rw [hT] at hN ⊢
        exact hN
    have hT2 : (T2 == some (strOf p.text ++ flatAlt alt)) = false := by
      simp only [T2]
      by_cases htc : strOf p.text = []
      · simp [htc]
      · simp only [htc, if_false]
        rw [beq_eq_false_iff_ne]
        intro e
        simp only [Option.some.injEq] at e
        have hl := congrArg List.length e
        simp only [List.length_append] at hl
        have : (flatAlt alt).length ≠ 0 := by
          intro e0; exact flatAlt_ne_nil alt hane (List.eq_nil_of_length_eq_zero e0)
        omega
    have htxt : undoText (g + 2) st de { p with text := some (strOf p.text ++ flatAlt alt) } =
        .ok ({ p with text := T2 }, rs) := by
      unfold undoText
      simp only [hine, Bool.false_eq_true, if_false, hstr, hT2]
    rw [htxt]
    simp only [List.append_nil]
    rw [hNK (g + 2) (by omega)]
    simp only
    exact undoTail_plain st de i { p with text := T2 } rs htl (g + 1)

end Undo
end XmlDiffModel
