/-
The documented (strict) semantics refines to the shipped patcher: whenever the strict
interpreter accepts an action, `patch.py`'s handler does the same thing.
-/
import XmlDiffModel.Model.Patch

namespace XmlDiffModel

theorem firstHit_of_uniqueHit (qn : QName) (t : Tree) (path : Path) (x : Tree)
    (h : uniqueHit qn t path = .ok x) : firstHit qn t path = .ok x := by
  unfold uniqueHit at h
  unfold firstHit
  split at h
  · cases h
  · split at h
    · cases h
    · next y heq => cases h; rw [heq]
    · cases h

set_option hygiene false in
macro "hit" : tactic => `(tactic| (
  split at h <;> try (cases h; done)
  rename_i x hx
  rw [firstHit_of_uniqueHit _ _ _ _ hx]
  simp only []))

set_option hygiene false in
macro "chk" : tactic => `(tactic| (
  split at h <;> try (cases h; done)))

set_option hygiene false in
macro "chkboth" : tactic => `(tactic| (
  split at h <;> try (cases h; done)
  rename_i hr
  rw [if_neg hr]))

/-- If the strict interpreter accepts an action, the shipped patcher performs it identically. -/
theorem shipped_of_strict (qn : QName) (s s' : PState) (a : Action)
    (h : applyStrict qn s a = .ok s') : applyShipped qn s a = .ok s' := by
  cases a <;> simp only [applyStrict, applyShipped, applyWith, bind, Except.bind] at h ⊢
  case deleteNode n => hit; chkboth; chk; exact h
  case insertNode t g p => hit; chk; exact h
  case renameNode n g => hit; exact h
  case moveNode n t p => hit; hit; chkboth; chk; chk; exact h
  case updateTextIn n t => hit; exact h
  case updateTextAfter n t => hit; exact h
  case updateAttrib n k v => hit; chkboth; exact h
  case deleteAttrib n k => hit; chkboth; exact h
  case insertAttrib n k v => hit; chkboth; exact h
  case renameAttrib n a b =>
    hit
    split at h <;> try (cases h; done)
    chkboth; exact h
  case insertComment t p x => hit; chk; exact h
  case insertNamespace p u => exact h
  case deleteNamespace p => exact h

theorem runShipped_of_runStrict (qn : QName) (s s' : PState) (as : List Action)
    (h : runStrict qn s as = .ok s') : runShipped qn s as = .ok s' := by
  induction as generalizing s with
  | nil => simpa [runStrict, runShipped, runWith] using h
  | cons a rest ih =>
    simp only [runStrict, runShipped, runWith] at h ⊢
    cases ha : applyStrict qn s a with
    | error e => simp [ha] at h
    | ok s1 =>
      rw [shipped_of_strict qn s s1 a ha]
      simp only [ha] at h ⊢
      cases hr : runWith (applyStrict qn) s1 rest with
      | error e => obtain ⟨k, e'⟩ := e; simp [hr] at h
      | ok r =>
        simp only [hr] at h
        cases h
        have := ih s1 hr
        simp only [runShipped] at this
        rw [this]

/-! ### unique addressing refines to first-hit addressing -/

set_option hygiene false in
macro "hitm" : tactic => `(tactic| (
  split at h <;> try (cases h; done)
  rename_i x hx
  rw [hmono _ _ _ hx]
  simp only []))

theorem applyWith_mono (hit1 hit2 : Tree → Path → Except Err Tree)
    (hmono : ∀ t p x, hit1 t p = .ok x → hit2 t p = .ok x) (s s' : PState) (a : Action)
    (h : applyWith hit1 s a = .ok s') : applyWith hit2 s a = .ok s' := by
  cases a <;> simp only [applyWith, bind, Except.bind] at h ⊢
  case deleteNode n => hitm; exact h
  case insertNode t g p => hitm; exact h
  case renameNode n g => hitm; exact h
  case moveNode n t p => hitm; hitm; exact h
  case updateTextIn n t => hitm; exact h
  case updateTextAfter n t => hitm; exact h
  case updateAttrib n k v => hitm; exact h
  case deleteAttrib n k => hitm; exact h
  case insertAttrib n k v => hitm; exact h
  case renameAttrib n a b => hitm; exact h
  case insertComment t p x => hitm; exact h
  case insertNamespace p u => exact h
  case deleteNamespace p => exact h

theorem runWith_mono (f g : PState → Action → Except Err PState)
    (hfg : ∀ s a s', f s a = .ok s' → g s a = .ok s') (s s' : PState) (as : List Action)
    (h : runWith f s as = .ok s') : runWith g s as = .ok s' := by
  induction as generalizing s with
  | nil => simpa [runWith] using h
  | cons a rest ih =>
    simp only [runWith] at h ⊢
    cases ha : f s a with
    | error e => simp [ha] at h
    | ok s1 =>
      rw [hfg s a s1 ha]
      simp only [ha] at h ⊢
      cases hr : runWith f s1 rest with
      | error e => obtain ⟨k, e'⟩ := e; simp [hr] at h
      | ok r =>
        simp only [hr] at h
        cases h
        rw [ih s1 hr]

/-- A script accepted under unique addressing is accepted by the shipped patcher, same result. -/
theorem runShipped_of_runUniq (qn : QName) (s s' : PState) (as : List Action)
    (h : runUniq qn s as = .ok s') : runShipped qn s as = .ok s' :=
  runWith_mono (applyUniq qn) (applyShipped qn)
    (fun s a s' h => applyWith_mono _ _ (firstHit_of_uniqueHit qn) s s' a h) s s' as h

end XmlDiffModel
