/-
The documented (strict) semantics refines to the shipped patcher: whenever the strict
interpreter accepts an action, `patch.py`'s handler does the same thing.
-/
import XmlDiffModel.Model.Patch

namespace XmlDiffModel

theorem firstHit_of_uniqueHit (qn : QName) (t : Tree) (path : Str) (x : Tree)
    (h : uniqueHit qn t path = .ok x) : firstHit qn t path = .ok x := by
  unfold uniqueHit at h
  unfold firstHit
  cases hp : parsePath path with
  | none => simp [hp] at h
  | some p =>
    simp only [hp] at h ⊢
    split at h
    · cases h
    · split at h
      · cases h
      · next y heq => cases h; rw [heq]
      · cases h

set_option hygiene false in
macro "hit" : tactic => `(tactic| (
  split at h <;> try (cases h; done)
  rename_i x hx
  rw [firstHit_of_uniqueHit _ _ _ _ hx]
  simp only []))

set_option hygiene false in
macro "chk" : tactic => `(tactic| (
  split at h <;> try (cases h; done)))

set_option hygiene false in
macro "chkboth" : tactic => `(tactic| (
  split at h <;> try (cases h; done)
  rename_i hr
  rw [if_neg hr]))

/-- If the strict interpreter accepts an action, the shipped patcher performs it identically. -/
theorem shipped_of_strict (qn : QName) (s s' : PState) (a : Action)
    (h : applyStrict qn s a = .ok s') : applyShipped qn s a = .ok s' := by
  cases a <;> simp only [applyStrict, applyShipped, bind, Except.bind] at h ⊢
  case deleteNode n => hit; chkboth; chk; exact h
  case insertNode t g p => hit; chk; exact h
  case renameNode n g => hit; exact h
  case moveNode n t p => hit; hit; chkboth; chk; chk; exact h
  case updateTextIn n t => hit; exact h
  case updateTextAfter n t => hit; exact h
  case updateAttrib n k v => hit; chkboth; exact h
  case deleteAttrib n k => hit; chkboth; exact h
  case insertAttrib n k v => hit; chkboth; exact h
  case renameAttrib n a b =>
    hit
    split at h <;> try (cases h; done)
    chkboth; exact h
  case insertComment t p x => hit; chk; exact h
  case insertNamespace p u => exact h
  case deleteNamespace p => exact h

theorem runShipped_of_runStrict (qn : QName) (s s' : PState) (as : List Action)
    (h : runStrict qn s as = .ok s') : runShipped qn s as = .ok s' := by
  induction as generalizing s with
  | nil => simpa [runStrict, runShipped, runWith] using h
  | cons a rest ih =>
    simp only [runStrict, runShipped, runWith] at h ⊢
    cases ha : applyStrict qn s a with
    | error e => simp [ha] at h
    | ok s1 =>
      rw [shipped_of_strict qn s s1 a ha]
      simp only [ha] at h ⊢
      cases hr : runWith (applyStrict qn) s1 rest with
      | error e => obtain ⟨k, e'⟩ := e; simp [hr] at h
      | ok r =>
        simp only [hr] at h
        cases h
        have := ih s1 hr
        simp only [runShipped] at this
        rw [this]

end XmlDiffModel
