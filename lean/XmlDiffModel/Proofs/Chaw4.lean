/-
Script generation reaches the right document, part 4: payload updates, the alignment of children, one iteration of
the main loop.
-/
import XmlDiffModel.Proofs.Chaw3
import XmlDiffModel.Proofs.AttrsFinal
import XmlDiffModel.Proofs.Lcs

namespace XmlDiffModel
namespace Chw
open Tree

theorem parId_modify (W : Tree) (hn : (ids W).Nodup) (l : Nat) (f : Payload → Payload) (i : Nat) :
    parId (modify l f W) i = parId W i := by
  have hn' : (ids (modify l f W)).Nodup := by rw [ids_modify]; exact hn
  cases h : parId W i with
  | some p =>
    rw [parId_iff _ hn'] 
    rw [kidIds_modify l f W hn]
    exact (parId_iff W hn i p).mp h
  | none =>
    cases h' : parId (modify l f W) i with
    | none => rfl
    | some p =>
      have := (parId_iff _ hn' i p).mp h'
      rw [kidIds_modify l f W hn] at this
      rw [(parId_iff W hn i p).mpr this] at h
      cases h

/-- a payload update of the partner of a right node that is not yet completely visited -/
theorem mod_inv (ign : List Str) (R : Tree) (s s' : DState) (A D : List Nat) (inv : Inv ign R s A D)
    (l : Nat) (f : Payload → Payload) (hf : ∀ p, (f p).kind = p.kind)
    (hl : ∀ y ∈ D, r2lGet s.ms y ≠ some l)
    (h1 : s'.left = modify l f s.left) (h2 : s'.ms = s.ms) (h3 : s'.inorder = s.inorder) (h4 : s'.next = s.next) :
    Inv ign R s' A D := by
  have hids : ids s'.left = ids s.left := by rw [h1, ids_modify]
  have hk : ∀ p, kidIds s'.left p = kidIds s.left p := fun p => by rw [h1, kidIds_modify l f _ inv.wf]
  have hpar : ∀ i, parId s'.left i = parId s.left i := fun i => by rw [h1, parId_modify _ inv.wf]
  refine
    { wf := hids ▸ inv.wf, disj := hids ▸ inv.disj, freshL := ?_, freshR := ?_, mL := h2 ▸ inv.mL, mR := h2 ▸ inv.mR,
      mdom := ?_, mroot := ?_, mkind := ?_, ioPair := ?_, ioM := ?_, home := ?_, ord := ?_, unvis := ?_, vis := ?_,
      aligned := ?_, sub := inv.sub }
  · rw [hids, h4]; exact inv.freshL
  · rw [h4]; exact inv.freshR
  · rw [h2, hids]; exact inv.mdom
  · rw [h2, h1, id_modify]; exact inv.mroot
  · intro p hp pl pr e1 e2
    rw [h2] at hp
    rw [h1, payOf_modify l f _ inv.wf] at e1
    split at e1
    · cases hq : payOf s.left p.1 with
      | none => rw [hq] at e1; cases e1
      | some q =>
        rw [hq] at e1
        simp only [Option.map_some, Option.some.injEq] at e1
        rw [← e1, hf]
        exact inv.mkind p hp q pr hq e2
    · exact inv.mkind p hp pl pr e1 e2
  · rw [h2, h3]; exact inv.ioPair
  · rw [h2, h3]; exact inv.ioM
  · intro p hp hio
    rw [h2] at hp; rw [h3] at hio
    obtain ⟨q, lq, a, b, c⟩ := inv.home p hp hio
    exact ⟨q, lq, a, by rw [h2]; exact b, by rw [hpar]; exact c⟩
  · intro p hp
    rw [h2] at hp
    rw [hk, h2, h3]; exact inv.ord p hp
  · rw [h3]; exact inv.unvis
  · intro y hy
    obtain ⟨l', pl, pr, a, b, c, d, e⟩ := inv.vis y hy
    have hne : l' ≠ l := fun e' => hl y hy (e' ▸ a)
    refine ⟨l', pl, pr, by rw [h2]; exact a, ?_, c, d, by rw [h3]; exact e⟩
    rw [h1, payOf_modify l f _ inv.wf, if_neg hne]; exact b
  · intro x hx y hy c lx a b c'
    rw [h2] at a b
    rw [hk] at c'
    rw [h3]
    exact inv.aligned x hx y hy c lx a b c'

/-! ### the moves of `align_children` -/

theorem alignMoves_inv (ign : List Str) (qn : QName) (R : Tree) (hRn : (ids R).Nodup) (l xid : Nat) (A D : List Nat)
    (hxA : xid ∈ A) (lcs : List Nat) (s s' : DState) (inv : Inv ign R s A D)
    (hlx : (l, xid) ∈ s.ms)
    (hS : ∀ c ∈ lcs, c ∈ kidIds s.left l ∧ ∃ r, l2rGet s.ms c = some r ∧ r ∈ kidIds R xid)
    (h : alignMoves qn R l lcs s = .ok s') :
    Inv ign R s' A D ∧ s'.ms = s.ms ∧ s'.next = s.next ∧ (∀ j, payOf s'.left j = payOf s.left j) ∧
      (∀ i ∈ s.inorder, i ∈ s'.inorder) ∧ (∀ c ∈ lcs, c ∈ s'.inorder) ∧
      (∀ c, c ∈ kidIds s'.left l ↔ c ∈ kidIds s.left l) := by
  induction lcs generalizing s with
  | nil =>
    simp only [alignMoves, Except.ok.injEq] at h
    subst h
    exact ⟨inv, rfl, rfl, fun _ => rfl, fun _ h => h, (fun _ h => by cases h), fun _ => Iff.rfl⟩
  | cons lc rest ih =>
    obtain ⟨hlcK, rc, hrc, hrcK⟩ := hS lc List.mem_cons_self
    have hS' : ∀ c ∈ rest, c ∈ kidIds s.left l ∧ ∃ r, l2rGet s.ms c = some r ∧ r ∈ kidIds R xid :=
      fun c hc => hS c (List.mem_cons_of_mem _ hc)
    unfold alignMoves at h
    split at h
    · next hin =>
      -- already in order
      have hin' : lc ∈ s.inorder := by simpa using hin
      obtain ⟨a, b, c, d, e, f, g⟩ := ih s inv hlx hS' h
      refine ⟨a, b, c, d, e, ?_, g⟩
      intro c' hc'
      rcases List.mem_cons.mp hc' with e' | e'
      · rw [e']; exact e lc hin'
      · exact f c' e'
    · next hnin =>
      have hlcio : lc ∉ s.inorder := by simpa using hnin
      rw [hrc] at h
      simp only [bind, Except.bind, pure, Except.pure] at h
      split at h
      · cases h
      · next pos hpos =>
        have hrcM : (lc, rc) ∈ s.ms := l2rGet_mem s.ms lc rc hrc
        have hparrc : parId R rc = some xid := (parId_iff R hRn rc xid).mpr hrcK
        cases hrp : R.parentOf rc with
        | none => simp [parId, hrp] at hparrc
        | some rp =>
          have hrpid : rp.id = xid := by simpa [parId, hrp] using hparrc
          simp only [hrp] at h
          have hlt : r2lGet s.ms rp.id = some l := by rw [hrpid]; exact r2lGet_of_mem s.ms inv.mR l xid hlx
          simp only [hlt] at h
          split at h
          · cases h
          · next p1 hp1 =>
            split at h
            · cases h
            · next p2 hp2 =>
              split at h
              · cases h
              · next left' hl' =>
                unfold moveIn at hl'
                cases hfl : find lc s.left with
                | none => rw [hfl] at hl'; cases hl'
                | some sub =>
                  rw [hfl] at hl'
                  simp only [Except.ok.injEq] at hl'
                  subst hl'
                  have hlW : l ∈ ids s.left := (inv.mdom _ hlx).1
                  have hroot : s.left.id ≠ lc := by
                    intro e
                    have := (parId_iff _ inv.wf lc l).mpr hlcK
                    rw [← e, root_no_parent _ inv.wf] at this
                    cases this
                  have hout : l ∉ ids sub := parent_not_in_child s.left inv.wf lc l sub hlcK hfl
                  have hmv : MoveOK s.left lc l sub := ⟨inv.wf, hfl, hroot, hlW, hout⟩
                  have hpl := placed_move s.left lc l pos sub hmv
                  have hrcio : rc ∉ s.inorder := fun hio => hlcio ((inv.ioPair _ hrcM).mpr hio)
                  have hrcroot : rc ≠ R.id := by
                    intro e
                    rw [e, root_no_parent R hRn] at hparrc
                    cases hparrc
                  have hrcD : rc ∉ D := by
                    intro hd
                    obtain ⟨_, _, _, _, _, _, _, hh⟩ := inv.vis rc hd
                    exact hrcio (hh hrcroot)
                  have inv1 : Inv ign R
                      { s with left := moved s.left lc l pos sub, out := .moveNode p1 p2 pos :: s.out,
                               inorder := rc :: lc :: s.inorder } A D := by
                    apply placed_inv ign R hRn s _ A D inv lc l pos rc xid hpl rfl
                    · intro p
                      constructor
                      · exact Or.inl
                      · rintro (hp | hp)
                        · exact hp
                        · rw [hp]; exact hrcM
                    · exact inv.mL
                    · exact inv.mR
                    · exact Nat.le_refl _
                    · exact inv.freshL lc (inv.mdom _ hrcM).1
                    · exact hrcK
                    · exact hlx
                    · exact hxA
                    · exact hrcD
                    · exact inv.disj lc (inv.mdom _ hrcM).1
                    · exact hlcio
                    · exact hrcio
                    · intro pl pr h1 h2
                      simp only at h1
                      rw [payOf_moved s.left lc l pos sub hmv lc] at h1
                      exact inv.mkind _ hrcM pl pr h1 h2
                    · exact inv.ord _ hrcM
                    · intro e
                      apply hout
                      rw [← e]
                      have := id_mem_ids sub
                      rwa [find_id lc s.left sub hfl] at this
                    · have := findPos_spec ign R hRn s A D inv rc xid l lc pos hrcK hlx
                        (Or.inl (r2lGet_of_mem s.ms inv.mR lc rc hrcM)) hlcio hpos
                      exact this
                  have hkid : ∀ c, c ∈ kidIds (moved s.left lc l pos sub) l ↔ c ∈ kidIds s.left l := by
                    intro c
                    by_cases hc : c = lc
                    · subst hc
                      exact ⟨fun _ => hlcK, fun _ => hpl.kid_new⟩
                    · exact hpl.kid_old c l hc
                  have hS1 : ∀ c ∈ rest, c ∈ kidIds (moved s.left lc l pos sub) l ∧
                      ∃ r, l2rGet s.ms c = some r ∧ r ∈ kidIds R xid := by
                    intro c hc
                    obtain ⟨a, b⟩ := hS' c hc
                    exact ⟨(hkid c).mpr a, b⟩
                  obtain ⟨a, b, c, d, e, f, g⟩ := ih _ inv1 hlx hS1 h
                  refine ⟨a, b, c, ?_, ?_, ?_, ?_⟩
                  · intro j; rw [d j]; exact payOf_moved s.left lc l pos sub hmv j
                  · intro i hi
                    exact e i (List.mem_cons_of_mem _ (List.mem_cons_of_mem _ hi))
                  · intro c' hc'
                    rcases List.mem_cons.mp hc' with e' | e'
                    · rw [e']; exact e lc (List.mem_cons_of_mem _ List.mem_cons_self)
                    · exact f c' e'
                  · intro c'; rw [g c']; exact hkid c'

/-! ### marking the pairs of the longest common subsequence -/

theorem mark_inv (ign : List Str) (R : Tree) (hRn : (ids R).Nodup) (s : DState) (A D : List Nat)
    (inv : Inv ign R s A D) (l xid : Nat) (hlx : (l, xid) ∈ s.ms) (hxA : xid ∈ A)
    (hkx : (kidIds R xid).filter (ioB s.inorder) = [])
    (mk : List (Nat × Nat)) (hmk : ∀ p ∈ mk, p ∈ s.ms)
    (hAL : (mk.map (·.1)).Sublist (kidIds s.left l)) (hBL : (mk.map (·.2)).Sublist (kidIds R xid))
    (io' : List Nat) (hio : ∀ i, i ∈ io' ↔ i ∈ s.inorder ∨ i ∈ mk.map (·.1) ∨ i ∈ mk.map (·.2)) :
    Inv ign R { s with inorder := io' } A D := by
  have hmono : ∀ i, i ∈ s.inorder → i ∈ io' := fun i hi => (hio i).mpr (Or.inl hi)
  have hALW : ∀ c, c ∈ mk.map (·.1) → c ∈ ids s.left := fun c hc => (kidIds_sub _ l c (hAL.subset hc)).1
  have hBLR : ∀ c, c ∈ mk.map (·.2) → c ∈ ids R := fun c hc => (kidIds_sub _ xid c (hBL.subset hc)).1
  have hLnotB : ∀ c, c ∈ ids s.left → c ∉ mk.map (·.2) := fun c hc hb => inv.disj c hc (hBLR c hb)
  have hRnotA : ∀ c, c ∈ ids R → c ∉ mk.map (·.1) := fun c hc ha => inv.disj c (hALW c ha) hc
  refine
    { wf := inv.wf, disj := inv.disj, freshL := inv.freshL, freshR := inv.freshR, mL := inv.mL, mR := inv.mR,
      mdom := inv.mdom, mroot := inv.mroot, mkind := inv.mkind, ioPair := ?_, ioM := ?_, home := ?_, ord := ?_,
      unvis := ?_, vis := ?_, aligned := ?_, sub := inv.sub }
  · -- ioPair
    intro p hp
    have d := inv.mdom p hp
    simp only [hio]
    constructor
    · rintro (h | h | h)
      · exact Or.inl ((inv.ioPair p hp).mp h)
      · obtain ⟨m, hm, e⟩ := List.mem_map.mp h
        have h1 := l2rGet_of_mem s.ms inv.mL m.1 m.2 (hmk m hm)
        have h2 := l2rGet_of_mem s.ms inv.mL p.1 p.2 hp
        rw [e, h2] at h1; injection h1 with h1
        exact Or.inr (Or.inr (List.mem_map.mpr ⟨m, hm, h1.symm⟩))
      · exact absurd h (hLnotB _ d.1)
    · rintro (h | h | h)
      · exact Or.inl ((inv.ioPair p hp).mpr h)
      · exact absurd h (hRnotA _ d.2)
      · obtain ⟨m, hm, e⟩ := List.mem_map.mp h
        have h1 := r2lGet_of_mem s.ms inv.mR m.1 m.2 (hmk m hm)
        have h2 := r2lGet_of_mem s.ms inv.mR p.1 p.2 hp
        rw [e, h2] at h1; injection h1 with h1
        exact Or.inr (Or.inl (List.mem_map.mpr ⟨m, hm, h1.symm⟩))
  · -- ioM
    intro i hi
    rcases (hio i).mp hi with h | h | h
    · exact inv.ioM i h
    · obtain ⟨m, hm, e⟩ := List.mem_map.mp h
      exact Or.inl (e ▸ mem_lefts s.ms m.1 m.2 (hmk m hm))
    · obtain ⟨m, hm, e⟩ := List.mem_map.mp h
      exact Or.inr (e ▸ mem_rights s.ms m.1 m.2 (hmk m hm))
  · -- home
    intro p hp hin
    have d := inv.mdom p hp
    rcases (hio _).mp hin with h | h | h
    · exact inv.home p hp h
    · exact absurd h (hRnotA _ d.2)
    · obtain ⟨m, hm, e⟩ := List.mem_map.mp h
      have h1 := r2lGet_of_mem s.ms inv.mR m.1 m.2 (hmk m hm)
      have h2 := r2lGet_of_mem s.ms inv.mR p.1 p.2 hp
      rw [e, h2] at h1; injection h1 with h1
      have hpA : p.1 ∈ kidIds s.left l := hAL.subset (List.mem_map.mpr ⟨m, hm, h1.symm⟩)
      exact ⟨xid, l, (parId_iff R hRn p.2 xid).mpr (hBL.subset h), r2lGet_of_mem s.ms inv.mR l xid hlx,
        (parId_iff _ inv.wf p.1 l).mpr hpA⟩
  · -- ord
    intro p hp
    have d := inv.mdom p hp
    simp only
    by_cases hpl : p.1 = l
    · have hp2 : p.2 = xid := by
        have h1 := l2rGet_of_mem s.ms inv.mL p.1 p.2 hp
        have h2 := l2rGet_of_mem s.ms inv.mL l xid hlx
        rw [hpl, h2] at h1; injection h1 with h1; exact h1.symm
      rw [hpl, hp2]
      have hold := inv.ord (l, xid) hlx
      simp only at hold
      rw [hkx] at hold
      simp only [List.map_nil] at hold
      have e1 : (kidIds s.left l).filter (ioB io') = mk.map (·.1) := by
        apply Ord.filter_sublist_eq _ _ _ (kidIds_nodup _ inv.wf l) hAL
        intro c hc
        rw [ioB_iff, hio]
        constructor
        · rintro (h | h | h)
          · have : c ∈ (kidIds s.left l).filter (ioB s.inorder) := List.mem_filter.mpr ⟨hc, (ioB_iff _ _).mpr h⟩
            rw [hold] at this; cases this
          · exact h
          · exact absurd h (hLnotB c (kidIds_sub _ l c hc).1)
        · exact fun h => Or.inr (Or.inl h)
      have e2 : (kidIds R xid).filter (ioB io') = mk.map (·.2) := by
        apply Ord.filter_sublist_eq _ _ _ (kidIds_nodup R hRn xid) hBL
        intro c hc
        rw [ioB_iff, hio]
        constructor
        · rintro (h | h | h)
          · have : c ∈ (kidIds R xid).filter (ioB s.inorder) := List.mem_filter.mpr ⟨hc, (ioB_iff _ _).mpr h⟩
            rw [hkx] at this; cases this
          · exact absurd h (hRnotA c (kidIds_sub _ xid c hc).1)
          · exact h
        · exact fun h => Or.inr (Or.inr h)
      rw [e1, e2, List.map_map]
      apply List.map_congr_left
      intro m hm
      exact (psi_of_mem s.ms inv.mR m.1 m.2 (hmk m hm)).symm
    · have hp2 : p.2 ≠ xid := by
        intro e
        have h1 := r2lGet_of_mem s.ms inv.mR p.1 p.2 hp
        have h2 := r2lGet_of_mem s.ms inv.mR l xid hlx
        rw [e, h2] at h1; injection h1 with h1; exact hpl h1.symm
      have e1 : (kidIds s.left p.1).filter (ioB io') = (kidIds s.left p.1).filter (ioB s.inorder) := by
        apply Ord.filter_congr'
        intro c hc
        have hcW := (kidIds_sub _ p.1 c hc).1
        have : c ∈ io' ↔ c ∈ s.inorder := by
          rw [hio]
          constructor
          · rintro (h | h | h)
            · exact h
            · exact absurd (parent_unique _ inv.wf c p.1 l hc (hAL.subset h)) hpl
            · exact absurd h (hLnotB c hcW)
          · exact Or.inl
        cases h1 : ioB io' c <;> cases h2 : ioB s.inorder c <;> simp_all [ioB]
      have e2 : (kidIds R p.2).filter (ioB io') = (kidIds R p.2).filter (ioB s.inorder) := by
        apply Ord.filter_congr'
        intro c hc
        have hcR := (kidIds_sub _ p.2 c hc).1
        have : c ∈ io' ↔ c ∈ s.inorder := by
          rw [hio]
          constructor
          · rintro (h | h | h)
            · exact h
            · exact absurd h (hRnotA c hcR)
            · exact absurd (parent_unique R hRn c p.2 xid hc (hBL.subset h)) hp2
          · exact Or.inl
        cases h1 : ioB io' c <;> cases h2 : ioB s.inorder c <;> simp_all [ioB]
      rw [e1, e2]
      exact inv.ord p hp
  · -- unvis
    intro x hx hxA' c hc hcio
    have hcR := (kidIds_sub R x c hc).1
    rcases (hio c).mp hcio with h | h | h
    · exact inv.unvis x hx hxA' c hc h
    · exact hRnotA c hcR h
    · exact hxA' (parent_unique R hRn c x xid hc (hBL.subset h) ▸ hxA)
  · intro y hy
    obtain ⟨l', pl, pr, a, b, c, d, e⟩ := inv.vis y hy
    exact ⟨l', pl, pr, a, b, c, d, fun hr => hmono _ (e hr)⟩
  · intro x hx y hy c lx a b c'
    exact hmono _ (inv.aligned x hx y hy c lx a b c')

/-! ### `align_children` -/

/-- the pairs the fold over the longest common subsequence marks -/
def marks (lch rch : List Nat) (ps : List (Nat × Nat)) : List (Nat × Nat) :=
  ps.filterMap (fun p => match lch[p.1]?, rch[p.2]? with
    | some a, some b => some (a, b)
    | _, _ => none)

theorem mem_markFold (lch rch : List Nat) (ps : List (Nat × Nat)) (acc : List Nat) (i : Nat) :
    i ∈ ps.foldl (fun acc p => match lch[p.1]?, rch[p.2]? with
        | some a, some b => b :: a :: acc
        | _, _ => acc) acc ↔
      i ∈ acc ∨ i ∈ (marks lch rch ps).map (·.1) ∨ i ∈ (marks lch rch ps).map (·.2) := by
  induction ps generalizing acc with
  | nil => simp [marks]
  | cons p rest ih =>
    simp only [List.foldl_cons]
    rw [ih]
    unfold marks
    simp only [List.filterMap_cons]
    cases h1 : lch[p.1]? with
    | none => simp
    | some a =>
      cases h2 : rch[p.2]? with
      | none => simp
      | some b =>
        simp only [List.map_cons, List.mem_cons]
        constructor
        · rintro ((h | h | h) | h | h)
          · exact Or.inr (Or.inr (Or.inl h))
          · exact Or.inr (Or.inl (Or.inl h))
          · exact Or.inl h
          · exact Or.inr (Or.inl (Or.inr h))
          · exact Or.inr (Or.inr (Or.inr h))
        · rintro (h | (h | h) | (h | h))
          · exact Or.inl (Or.inr (Or.inr h))
          · exact Or.inl (Or.inr (Or.inl h))
          · exact Or.inr (Or.inl h)
          · exact Or.inl (Or.inl h)
          · exact Or.inr (Or.inr h)

theorem marks_fst (lch rch : List Nat) (ps : List (Nat × Nat))
    (hv : ∀ p ∈ ps, (lch[p.1]?).isSome ∧ (rch[p.2]?).isSome) :
    (marks lch rch ps).map (·.1) = (ps.map (·.1)).filterMap (fun i => lch[i]?) := by
  induction ps with
  | nil => rfl
  | cons p rest ih =>
    obtain ⟨h1, h2⟩ := hv p List.mem_cons_self
    have ih' := ih (fun q hq => hv q (List.mem_cons_of_mem _ hq))
    unfold marks at ih' ⊢
    simp only [List.filterMap_cons, List.map_cons]
    cases e1 : lch[p.1]? with
    | none => rw [e1] at h1; cases h1
    | some a =>
      cases e2 : rch[p.2]? with
      | none => rw [e2] at h2; cases h2
      | some b => simp [ih']

theorem marks_snd (lch rch : List Nat) (ps : List (Nat × Nat))
    (hv : ∀ p ∈ ps, (lch[p.1]?).isSome ∧ (rch[p.2]?).isSome) :
    (marks lch rch ps).map (·.2) = (ps.map (·.2)).filterMap (fun i => rch[i]?) := by
  induction ps with
  | nil => rfl
  | cons p rest ih =>
    obtain ⟨h1, h2⟩ := hv p List.mem_cons_self
    have ih' := ih (fun q hq => hv q (List.mem_cons_of_mem _ hq))
    unfold marks at ih' ⊢
    simp only [List.filterMap_cons, List.map_cons]
    cases e1 : lch[p.1]? with
    | none => rw [e1] at h1; cases h1
    | some a =>
      cases e2 : rch[p.2]? with
      | none => rw [e2] at h2; cases h2
      | some b => simp [ih']

theorem lcs_ok_spec (eq : Nat → Nat → Bool) (n m : Nat) (ps : Lcs.Pairs) (h : Lcs.lcs eq n m = .ok ps) :
    Lcs.Increasing ps ∧ Lcs.Valid eq n m ps := by
  obtain ⟨ps', h', a, b⟩ := Lcs.lcs_spec eq n m
  rw [h] at h'
  cases h'
  exact ⟨a, b⟩

theorem parId_beq (t : Tree) (hn : (ids t).Nodup) (r p : Nat) :
    ((t.parentOf r).map Tree.id == some p) = true ↔ r ∈ kidIds t p := by
  rw [beq_iff_eq]
  exact parId_iff t hn r p

/-- `align_children` up to its move loop: either there is nothing to align (no child of `l` has its partner under
`x`), or the call is the move loop, started from the state in which the pairs of the longest common subsequence
are marked in order - a state for which the invariant holds -/
theorem alignChildren_prep (ign : List Str) (qn : QName) (R : Tree) (hRn : (ids R).Nodup) (x : Tree)
    (hx : find x.id R = some x) (l : Nat) (s : DState) (A D : List Nat) (inv : Inv ign R s A D)
    (hlx : (l, x.id) ∈ s.ms) (hxA : x.id ∈ A)
    (hkx : (kidIds R x.id).filter (ioB s.inorder) = []) :
    (alignChildren qn R l x s = .ok s ∧
      ∀ c ∈ kidIds s.left l, ∀ r, l2rGet s.ms c = some r → r ∈ kidIds R x.id → False) ∨
    ∃ lch io', alignChildren qn R l x s = alignMoves qn R l lch { s with inorder := io' } ∧
      Inv ign R { s with inorder := io' } A D ∧ (∀ i ∈ s.inorder, i ∈ io') ∧
      (∀ c, c ∈ lch ↔ c ∈ kidIds s.left l ∧ ∃ r, l2rGet s.ms c = some r ∧ r ∈ kidIds R x.id) := by
  have hlW : l ∈ ids s.left := (inv.mdom _ hlx).1
  obtain ⟨ln, hfl⟩ := find_some_of_mem l s.left hlW
  unfold alignChildren
  rw [hfl]
  simp only
  have hK : ln.kids.map Tree.id = kidIds s.left l := by unfold kidIds; rw [hfl]
  have hX : x.kids.map Tree.id = kidIds R x.id := by unfold kidIds; rw [hx]
  rw [hK, hX]
  generalize hlch : (kidIds s.left l).filter (fun c =>
    match l2rGet s.ms c with
    | some r => (R.parentOf r).map Tree.id == some x.id
    | none => false) = lch
  generalize hrch : (kidIds R x.id).filter (fun c =>
    match r2lGet s.ms c with
    | some a => (s.left.parentOf a).map Tree.id == some l
    | none => false) = rch
  have mlch : ∀ c, c ∈ lch ↔ c ∈ kidIds s.left l ∧ ∃ r, l2rGet s.ms c = some r ∧ r ∈ kidIds R x.id := by
    intro c
    rw [← hlch, List.mem_filter]
    constructor
    · rintro ⟨h1, h2⟩
      cases hr : l2rGet s.ms c with
      | none => rw [hr] at h2; cases h2
      | some r =>
        rw [hr] at h2
        exact ⟨h1, r, rfl, (parId_beq R hRn r x.id).mp h2⟩
    · rintro ⟨h1, r, hr, h2⟩
      rw [hr]
      exact ⟨h1, (parId_beq R hRn r x.id).mpr h2⟩
  have mrch : ∀ c, c ∈ rch ↔ c ∈ kidIds R x.id ∧ ∃ a, r2lGet s.ms c = some a ∧ a ∈ kidIds s.left l := by
    intro c
    rw [← hrch, List.mem_filter]
    constructor
    · rintro ⟨h1, h2⟩
      cases hr : r2lGet s.ms c with
      | none => rw [hr] at h2; cases h2
      | some a =>
        rw [hr] at h2
        exact ⟨h1, a, rfl, (parId_beq _ inv.wf a l).mp h2⟩
    · rintro ⟨h1, a, hr, h2⟩
      rw [hr]
      exact ⟨h1, (parId_beq _ inv.wf a l).mpr h2⟩
  split
  · next hempty =>
    left
    refine ⟨rfl, ?_⟩
    intro c hc r hr hrk
    have h1 : c ∈ lch := (mlch c).mpr ⟨hc, r, hr, hrk⟩
    have h2 : r ∈ rch := (mrch r).mpr ⟨hrk, c, r2lGet_of_mem s.ms inv.mR c r (l2rGet_mem s.ms c r hr), hc⟩
    simp only [Bool.or_eq_true, List.isEmpty_iff] at hempty
    rcases hempty with e | e
    · rw [e] at h1; cases h1
    · rw [e] at h2; cases h2
  · right
    simp only [List.getElem?_toArray]
    split
    case h_2 hno =>
      exact ((Lcs.lcs_spec _ _ _).elim (fun ps h => hno ps h.1)).elim
    rename_i ps hps
    obtain ⟨hinc, hval⟩ := lcs_ok_spec _ _ _ ps hps
    have hv : ∀ p ∈ ps, ∃ a b, lch[p.1]? = some a ∧ rch[p.2]? = some b ∧ l2rGet s.ms a = some b := by
      intro p hp
      obtain ⟨h1, h2, h3⟩ := hval p hp
      have e1 : lch[p.1]? = some lch[p.1] := List.getElem?_eq_getElem h1
      have e2 : rch[p.2]? = some rch[p.2] := List.getElem?_eq_getElem h2
      simp only [e1, e2, beq_iff_eq] at h3
      exact ⟨_, _, e1, e2, h3⟩
    have hvs : ∀ p ∈ ps, (lch[p.1]?).isSome ∧ (rch[p.2]?).isSome := by
      intro p hp
      obtain ⟨a, b, e1, e2, _⟩ := hv p hp
      simp [e1, e2]
    have hmkms : ∀ m ∈ marks lch rch ps, m ∈ s.ms := by
      intro m hm
      unfold marks at hm
      obtain ⟨p, hp, e⟩ := List.mem_filterMap.mp hm
      obtain ⟨a, b, e1, e2, e3⟩ := hv p hp
      rw [e1, e2] at e
      simp only [Option.some.injEq] at e
      rw [← e]
      exact l2rGet_mem s.ms a b e3
    have hAL : ((marks lch rch ps).map (·.1)).Sublist (kidIds s.left l) := by
      rw [marks_fst lch rch ps hvs]
      refine List.Sublist.trans (Ord.incr_sublist lch _ ?_) (hlch ▸ List.filter_sublist)
      rw [List.pairwise_map]
      exact hinc.imp (fun h => h.1)
    have hBL : ((marks lch rch ps).map (·.2)).Sublist (kidIds R x.id) := by
      rw [marks_snd lch rch ps hvs]
      refine List.Sublist.trans (Ord.incr_sublist rch _ ?_) (hrch ▸ List.filter_sublist)
      rw [List.pairwise_map]
      exact hinc.imp (fun h => h.2)
    generalize hio' : ps.foldl (fun acc p =>
      match lch[p.1]?, rch[p.2]? with
      | some a, some b => b :: a :: acc
      | _, _ => acc) s.inorder = io'
    have hmem : ∀ i, i ∈ io' ↔ i ∈ s.inorder ∨ i ∈ (marks lch rch ps).map (·.1) ∨ i ∈ (marks lch rch ps).map (·.2) := by
      intro i; rw [← hio']; exact mem_markFold lch rch ps s.inorder i
    have invA := mark_inv ign R hRn s A D inv l x.id hlx hxA hkx (marks lch rch ps) hmkms hAL hBL io' hmem
    exact ⟨lch, io', rfl, invA, fun i hi => (hmem i).mpr (Or.inl hi), mlch⟩

theorem alignChildren_inv (ign : List Str) (qn : QName) (R : Tree) (hRn : (ids R).Nodup) (x : Tree)
    (hx : find x.id R = some x) (l : Nat) (s s' : DState) (A D : List Nat) (inv : Inv ign R s A D)
    (hlx : (l, x.id) ∈ s.ms) (hxA : x.id ∈ A)
    (hkx : (kidIds R x.id).filter (ioB s.inorder) = [])
    (h : alignChildren qn R l x s = .ok s') :
    Inv ign R s' A D ∧ s'.ms = s.ms ∧ s'.next = s.next ∧ (∀ j, payOf s'.left j = payOf s.left j) ∧
      (∀ i ∈ s.inorder, i ∈ s'.inorder) ∧
      (∀ c ∈ kidIds s'.left l, ∀ r, l2rGet s.ms c = some r → r ∈ kidIds R x.id → c ∈ s'.inorder) := by
  rcases alignChildren_prep ign qn R hRn x hx l s A D inv hlx hxA hkx with ⟨h0, hnone⟩ | ⟨lch, io', heq, invA, hmono, mlch⟩
  · rw [h0] at h
    simp only [Except.ok.injEq] at h
    subst h
    exact ⟨inv, rfl, rfl, fun _ => rfl, fun _ hi => hi, fun c hc r hr hrk => (hnone c hc r hr hrk).elim⟩
  · rw [heq] at h
    have hS : ∀ c ∈ lch, c ∈ kidIds s.left l ∧ ∃ r, l2rGet s.ms c = some r ∧ r ∈ kidIds R x.id :=
      fun c hc => (mlch c).mp hc
    obtain ⟨a, b, c, d, e, f, g⟩ := alignMoves_inv ign qn R hRn l x.id A D hxA lch _ s' invA hlx hS h
    refine ⟨a, b, c, d, fun i hi => e i (hmono i hi), ?_⟩
    intro c' hc' r hr hrk
    have : c' ∈ kidIds s.left l := (g c').mp hc'
    exact f c' ((mlch c').mpr ⟨this, r, hr, hrk⟩)

end Chw
end XmlDiffModel
