/-
C11 round trip, part 5: `do_element` leaves a state in which the placeholder text it wrote is `Good`.
-/
import XmlDiffModel.Proofs.Undo4

namespace XmlDiffModel
namespace Undo
open Tree

theorem sizeL_cons (c : Tree) (rest : List Tree) : sizeL (c :: rest) = size c + sizeL rest := rfl

theorem size_pos (t : Tree) : 0 < size t := by cases t; simp [size]; omega

theorem size_kids_lt (c : Tree) : sizeL c.kids < size c := by cases c; simp [size, Tree.kids]

theorem ids_node (c : Tree) : ids c = c.id :: idsL c.kids := by cases c; rfl

theorem doRes_nil (st : PhSt) (de : List (Nat × Tree)) (P : List Nat) (pre : Pre st de P []) :
    DoRes st st de P [] [] :=
  ⟨⟨Extends.refl st pre.tok, fun _ _ _ h => h⟩, pre.closed, pre.hinv, Nat.le_refl _, fun _ h => Or.inl h,
    fun _ h => Or.inl h, (fun _ hx => nomatch hx), fun _ => Good.nil⟩

/-- the single (non-formatting) child -/
theorem single_step (de : List (Nat × Tree)) (P : List Nat) (c : Tree) (rest : List Tree) (st : PhSt)
    (pre : Pre st de P (c :: rest)) :
    let r1 := getPlaceholder st (setTailT (some []) c) .single none
    let st2 : PhSt := { r1.2 with heap := setTailT (some []) c :: r1.2.heap }
    Pre st2 de P rest ∧ StableTo st st2 de ∧ st.counter ≤ st2.counter ∧
      (∀ h ∈ st2.heap, h ∈ st.heap ∨ ∀ i ∈ ids h, i ∈ ids c) ∧
      (∀ e ∈ st2.table, e ∈ st.table ∨ e.elemId = c.id) ∧
      ∃ es ∈ st2.table, es.ph = r1.1 ∧ es.role = .single ∧ size es.key = size c ∧
        ∃ obj, st2.elemOf es de = some obj ∧ eraseIds obj = eraseIds (setTailT (some []) c) := by
  intro r1 st2
  have hc1id : (setTailT (some []) c).id = c.id := by cases c; rfl
  have hc1ids : ids (setTailT (some []) c) = ids c := by cases c; rfl
  obtain ⟨es, hes, hph, hkey, hrole, hcp, hold, hheap, hents⟩ :=
    getPlaceholder_spec st (setTailT (some []) c) .single none
  have hok := getPlaceholder_ok st (setTailT (some []) c) .single none pre.tok
  have hcl := getPlaceholder_closed st (setTailT (some []) c) .single none pre.closed (fun hr => by cases hr)
  have hext : Extends st r1.2 := ⟨hok.1, hok.2.1⟩
  have hcid : c.id ∈ idsL (c :: rest) := by rw [idsL_cons_mem]; left; rw [ids_node]; simp
  have hidsc : ∀ i ∈ ids c, i ∈ idsL (c :: rest) := fun i hi => (idsL_cons_mem c rest i).2 (Or.inl hi)
  have hidsr : ∀ i ∈ idsL rest, i ∈ idsL (c :: rest) := fun i hi => (idsL_cons_mem c rest i).2 (Or.inr hi)
  have hnd := pre.nodup
  simp only [idsL, List.nodup_append] at hnd
  -- disjointness of the pushed object from the old heap
  have hdisj : ∀ t ∈ r1.2.heap, ∀ i ∈ ids (setTailT (some []) c), i ∉ ids t := by
    intro t ht i hi
    rw [hheap] at ht
    rw [hc1ids] at hi
    exact pre.fheap i (hidsc i hi) t ht
  have hde : ∀ p ∈ de, p.1 ≠ (setTailT (some []) c).id := by
    intro p hp; rw [hc1id]; exact pre.fde c.id hcid p hp
  -- the invariant after the push
  have hinv2 : HInv st2 de P := by
    apply hinv_push r1.2 de P (c.id :: P) (setTailT (some []) c)
    · exact hinv_after st r1.2 de P (c.id :: P) pre.hinv hheap
        (fun e he => by
          rcases hents e he with h | h
          · exact Or.inl h
          · rcases hold with h' | h'
            · left; rw [h]; exact h'
            · right; rw [h, h', hc1id]; simp)
        (fun i hi => by simp [hi])
    · exact hdisj
    · exact hde
    · intro e he hid hr
      rw [hc1id] at hid
      rcases hents e he with h | h
      · exact absurd hid (pre.fent c.id hcid e h)
      · subst h
        unfold Shape
        rw [hrole]
        exact ⟨hkey.symm, by cases c; rfl⟩
    · intro i hi
      by_cases e : i = c.id
      · right; rw [e, hc1id]
      · left; simp [e, hi]
  have hstable : StableTo st st2 de := by
    refine ⟨⟨⟨hok.1.phNodup, hok.1.bound, hok.1.keyNodup⟩, hok.2.1⟩, ?_⟩
    intro e he o ho
    apply elemOf_push r1.2 de e o _ _ hdisj
    rw [elemOf_heap_eq st r1.2 de e hheap]; exact ho
  refine ⟨?_, hstable, hok.2.2, ?_, ?_, ?_⟩
  · refine ⟨⟨hok.1.phNodup, hok.1.bound, hok.1.keyNodup⟩, closed_heap r1.2 hcl _, hinv2, hnd.2.1, ?_, ?_, ?_, ?_, ?_, ?_⟩
    · intro i hi h hh
      simp only [st2, List.mem_cons] at hh
      rcases hh with rfl | hh
      · rw [hc1ids]
        intro hm
        exact hnd.2.2 i hm i hi rfl
      · rw [hheap] at hh
        exact pre.fheap i (hidsr i hi) h hh
    · intro i hi; exact pre.fde i (hidsr i hi)
    · intro i hi; exact pre.fP i (hidsr i hi)
    · intro i hi e he
      rcases hents e he with h | h
      · exact pre.fent i (hidsr i hi) e h
      · rcases hold with h' | h'
        · rw [h]; exact pre.fent i (hidsr i hi) es h'
        · rw [h, h', hc1id]
          intro e'
          exact hnd.2.2 c.id (by rw [ids_node]; simp) i hi e'
    · intro e he hp
      rcases hents e he with h | h
      · have := pre.big e h hp
        rw [sizeL_cons] at this; omega
      · rcases hold with h' | h'
        · have := pre.big es h' (h ▸ hp)
          rw [sizeL_cons] at this
          rw [h]; omega
        · exfalso
          rw [h, h', hc1id] at hp
          exact pre.fP c.id hcid hp
    · have := pre.low; simp only [LowL] at this; exact this.2
  · intro h hh
    simp only [st2, List.mem_cons] at hh
    rcases hh with rfl | hh
    · right; intro i hi; rw [hc1ids] at hi; exact hi
    · left; rw [hheap] at hh; exact hh
  · intro e he
    rcases hents e he with h | h
    · exact Or.inl h
    · rcases hold with h' | h'
      · left; rw [h]; exact h'
      · right; rw [h, h', hc1id]
  · refine ⟨es, hes, hph, hrole, by rw [hkey, size_keyOf]; cases c; rfl, ?_⟩
    -- its object
    have hnotP : es.elemId ∉ P := by
      rcases hold with h' | h'
      · intro hp
        have := pre.big es h' hp
        rw [sizeL_cons, hkey, size_keyOf] at this
        have : size (setTailT (some []) c) = size c := by cases c; rfl
        omega
      · rw [h', hc1id]; exact pre.fP c.id hcid
    obtain ⟨obj, ho, hs⟩ := hinv2 es hes hnotP (by rw [hrole]; intro h; cases h)
    refine ⟨obj, ho, ?_⟩
    unfold Shape at hs
    rw [hrole] at hs
    exact eraseIds_of_key obj _ (by rw [hs.1, hkey]) hs.2 (by cases c; rfl)

/-- a formatting child, before the recursion: the two placeholders -/
theorem fmt_pre (de : List (Nat × Tree)) (P : List Nat) (c : Tree) (rest : List Tree) (st : PhSt)
    (pre : Pre st de P (c :: rest)) :
    let r1 := getPlaceholder st (setTailT (some []) c) .close none
    let r2 := getPlaceholder r1.2 (setTailT (some []) c) .open (some r1.1)
    Pre r2.2 de (c.id :: P) c.kids ∧ Extends st r2.2 ∧ r2.2.heap = st.heap ∧ st.counter ≤ r2.2.counter ∧
      (∀ e ∈ r2.2.table, e ∈ st.table ∨ (e.elemId = c.id ∧ e.key = keyOf c ∧ e.role ≠ .single)) ∧
      (∃ ec ∈ r2.2.table, ec.ph = r1.1 ∧ ec.role = .close ∧ ec.key = keyOf c) ∧
      (∃ eo ∈ r2.2.table, eo.ph = r2.1 ∧ eo.role = .open ∧ eo.closePh = some r1.1 ∧ eo.key = keyOf c ∧
        (eo ∈ st.table ∨ eo.elemId = c.id)) := by
  intro r1 r2
  have hc1id : (setTailT (some []) c).id = c.id := by cases c; rfl
  have hkc : keyOf (setTailT (some []) c) = keyOf c := keyOf_setTailT _ c
  obtain ⟨ec, hec, hphc, hkeyc, hrolec, _, holdc, hheapc, hentsc⟩ :=
    getPlaceholder_spec st (setTailT (some []) c) .close none
  obtain ⟨eo, heo, hpho, hkeyo, hroleo, hcpo, holdo, hheapo, hentso⟩ :=
    getPlaceholder_spec r1.2 (setTailT (some []) c) .open (some r1.1)
  have hok1 := getPlaceholder_ok st (setTailT (some []) c) .close none pre.tok
  have hok2 := getPlaceholder_ok r1.2 (setTailT (some []) c) .open (some r1.1) hok1.1
  have hcl1 := getPlaceholder_closed st (setTailT (some []) c) .close none pre.closed (fun hr => by cases hr)
  have hcl2 := getPlaceholder_closed r1.2 (setTailT (some []) c) .open (some r1.1) hcl1
    (fun _ => ⟨r1.1, ec, rfl, hec, hphc, hrolec⟩)
  have hext1 : Extends st r1.2 := ⟨hok1.1, hok1.2.1⟩
  have hext2 : Extends r1.2 r2.2 := ⟨hok2.1, hok2.2.1⟩
  have hcid : c.id ∈ idsL (c :: rest) := by rw [idsL_cons_mem]; left; rw [ids_node]; simp
  have hidsk : ∀ i ∈ idsL c.kids, i ∈ idsL (c :: rest) := by
    intro i hi
    rw [idsL_cons_mem]; left; rw [ids_node]; simp [hi]
  have hnd := pre.nodup
  simp only [idsL, List.nodup_append] at hnd
  have hndc : (ids c).Nodup := hnd.1
  rw [ids_node, List.nodup_cons] at hndc
  -- every entry is old or belongs to `c`
  have hents : ∀ e ∈ r2.2.table, e ∈ st.table ∨ (e.elemId = c.id ∧ e.key = keyOf c ∧ e.role ≠ .single) := by
    intro e he
    rcases hentso e he with h | h
    · rcases hentsc e h with h' | h'
      · exact Or.inl h'
      · rcases holdc with h'' | h''
        · left; rw [h']; exact h''
        · right; rw [h', h'', hc1id, hkeyc, hkc, hrolec]; exact ⟨rfl, rfl, by intro e; cases e⟩
    · rcases holdo with h'' | h''
      · rcases hentsc eo h'' with h3 | h3
        · left; rw [h]; exact h3
        · rcases holdc with h4 | h4
          · left; rw [h, h3]; exact h4
          · right; rw [h, h3, h4, hc1id, hkeyc, hkc, hrolec]; exact ⟨rfl, rfl, by intro e; cases e⟩
      · right; rw [h, h'', hc1id, hkeyo, hkc, hroleo]; exact ⟨rfl, rfl, by intro e; cases e⟩
  have hheap : r2.2.heap = st.heap := hheapo.trans hheapc
  refine ⟨?_, hext1.trans hext2, hheap, Nat.le_trans hok1.2.2 hok2.2.2, hents, ?_, ?_⟩
  · refine ⟨hok2.1, hcl2, ?_, hndc.2, ?_, ?_, ?_, ?_, ?_, ?_⟩
    · exact hinv_after st r2.2 de P (c.id :: P) pre.hinv hheap
        (fun e he => by
          rcases hents e he with h | h
          · exact Or.inl h
          · right; rw [h.1]; simp)
        (fun i hi => by simp [hi])
    · intro i hi h hh
      rw [hheap] at hh
      exact pre.fheap i (hidsk i hi) h hh
    · intro i hi; exact pre.fde i (hidsk i hi)
    · intro i hi hm
      simp only [List.mem_cons] at hm
      rcases hm with e | e
      · exact hndc.1 (e ▸ hi)
      · exact pre.fP i (hidsk i hi) e
    · intro i hi e he
      rcases hents e he with h | h
      · exact pre.fent i (hidsk i hi) e h
      · rw [h.1]; intro e'; exact hndc.1 (e' ▸ hi)
    · intro e he hp
      rcases hents e he with h | h
      · simp only [List.mem_cons] at hp
        rcases hp with e' | e'
        · exact absurd e' (pre.fent c.id hcid e h)
        · have := pre.big e h e'
          rw [sizeL_cons] at this
          have := size_kids_lt c
          omega
      · rw [h.2.1, size_keyOf]; exact size_kids_lt c
    · have := pre.low
      simp only [LowL] at this
      cases c with
      | node i p ks => simp only [LowT] at this; exact this.1.2.2
  · exact ⟨ec, mem_of_extends hext2 hec, hphc, hrolec, by rw [hkeyc, hkc]⟩
  · refine ⟨eo, heo, hpho, hroleo, hcpo, by rw [hkeyo, hkc], ?_⟩
    rcases holdo with h | h
    · rcases hentsc eo h with h' | h'
      · exact Or.inl h'
      · rcases holdc with h'' | h''
        · left; rw [h']; exact h''
        · right; rw [h', h'', hc1id]
    · right; rw [h, hc1id]

theorem keyOf_payload (c : Tree) : (keyOf c).payload.kind = c.payload.kind ∧ (keyOf c).payload.tag = c.payload.tag ∧
    (keyOf c).payload.attrs = c.payload.attrs := by
  cases c; exact ⟨rfl, rfl, rfl⟩

/-- a formatting child, after the recursion: its emptied element is put on the heap -/
theorem fmt_post (de : List (Nat × Tree)) (P : List Nat) (c : Tree) (rest : List Tree) (st st2 st3 : PhSt)
    (altK : Alt) (c3 : Tree) (pre : Pre st de P (c :: rest)) (hext : Extends st st2) (hheap2 : st2.heap = st.heap)
    (hcnt : st.counter ≤ st2.counter)
    (hents2 : ∀ e ∈ st2.table, e ∈ st.table ∨ (e.elemId = c.id ∧ e.key = keyOf c ∧ e.role ≠ .single))
    (res : DoRes st2 st3 de (c.id :: P) c.kids altK)
    (h3id : c3.id = c.id) (h3ids : ids c3 = [c.id]) (h3k : c3.kids = [])
    (h3p : c3.payload.kind = c.payload.kind ∧ c3.payload.tag = c.payload.tag ∧ c3.payload.attrs = c.payload.attrs) :
    Pre ({ st3 with heap := c3 :: st3.heap } : PhSt) de P rest ∧
      StableTo st ({ st3 with heap := c3 :: st3.heap } : PhSt) de ∧
      StableTo st3 ({ st3 with heap := c3 :: st3.heap } : PhSt) de ∧
      (∀ h ∈ ({ st3 with heap := c3 :: st3.heap } : PhSt).heap, h ∈ st.heap ∨ ∀ i ∈ ids h, i ∈ ids c) ∧
      (∀ e ∈ st3.table, e ∈ st.table ∨ e.elemId ∈ ids c) := by
  have hcid : c.id ∈ idsL (c :: rest) := by rw [idsL_cons_mem]; left; rw [ids_node]; simp
  have hidsk : ∀ i ∈ idsL c.kids, i ∈ ids c := by intro i hi; rw [ids_node]; simp [hi]
  have hidsc : ∀ i ∈ ids c, i ∈ idsL (c :: rest) := fun i hi => (idsL_cons_mem c rest i).2 (Or.inl hi)
  have hidsr : ∀ i ∈ idsL rest, i ∈ idsL (c :: rest) := fun i hi => (idsL_cons_mem c rest i).2 (Or.inr hi)
  have hnd := pre.nodup
  simp only [idsL, List.nodup_append] at hnd
  have hndc : (ids c).Nodup := hnd.1
  rw [ids_node, List.nodup_cons] at hndc
  have hT3 : TableOK st3 := res.stable.ext.1
  -- the heap of `st3`
  have hheap3 : ∀ t ∈ st3.heap, t ∈ st.heap ∨ ∀ i ∈ ids t, i ∈ idsL c.kids := by
    intro t ht
    rcases res.heapIds t ht with h | h
    · left; rw [hheap2] at h; exact h
    · exact Or.inr h
  have hdisj : ∀ t ∈ st3.heap, ∀ i ∈ ids c3, i ∉ ids t := by
    intro t ht i hi
    rw [h3ids, List.mem_singleton] at hi
    subst hi
    rcases hheap3 t ht with h | h
    · exact pre.fheap c.id hcid t h
    · intro hm; exact hndc.1 (h _ hm)
  have hde : ∀ p ∈ de, p.1 ≠ c3.id := by intro p hp; rw [h3id]; exact pre.fde c.id hcid p hp
  -- the entries of `st3`
  have hents3 : ∀ e ∈ st3.table, e ∈ st.table ∨ (e.elemId = c.id ∧ e.key = keyOf c ∧ e.role ≠ .single) ∨
      e.elemId ∈ idsL c.kids := by
    intro e he
    rcases res.newEntries e he with h | h
    · rcases hents2 e h with h' | h'
      · exact Or.inl h'
      · exact Or.inr (Or.inl h')
    · exact Or.inr (Or.inr h)
  have hinv4 : HInv ({ st3 with heap := c3 :: st3.heap } : PhSt) de P := by
    apply hinv_push st3 de P (c.id :: P) c3 res.hinv hdisj hde
    · intro e he hid hr
      rw [h3id] at hid
      rcases hents3 e he with h | h | h
      · exact absurd hid (pre.fent c.id hcid e h)
      · unfold Shape
        cases hro : e.role with
        | single => exact absurd hro h.2.2
        | close => exact absurd hro hr
        | «open» =>
          simp only
          rw [h.2.1]
          obtain ⟨k1, k2, k3⟩ := keyOf_payload c
          exact ⟨h3k, h3p.1.trans k1.symm, h3p.2.1.trans k2.symm, h3p.2.2.trans k3.symm⟩
      · rw [hid] at h; exact absurd h hndc.1
    · intro i hi
      by_cases e : i = c.id
      · right; rw [e, h3id]
      · left; simp [e, hi]
  have hst23 := res.stable
  have hst2 : StableTo st st2 de := ⟨hext, fun e _ o ho => by rw [elemOf_heap_eq st st2 de e hheap2]; exact ho⟩
  have hst34 : StableTo st3 ({ st3 with heap := c3 :: st3.heap } : PhSt) de :=
    ⟨⟨⟨hT3.phNodup, hT3.bound, hT3.keyNodup⟩, [], by simp⟩, fun e _ o ho => elemOf_push st3 de e o c3 ho hdisj⟩
  refine ⟨?_, (hst2.trans hst23).trans hst34, hst34, ?_, ?_⟩
  · refine ⟨⟨hT3.phNodup, hT3.bound, hT3.keyNodup⟩, closed_heap st3 res.closed _, hinv4, hnd.2.1, ?_, ?_, ?_, ?_, ?_, ?_⟩
    · intro i hi h hh
      simp only [List.mem_cons] at hh
      rcases hh with rfl | hh
      · rw [h3ids, List.mem_singleton]
        intro e
        exact hnd.2.2 c.id (by rw [ids_node]; simp) i hi e.symm
      · rcases hheap3 h hh with h' | h'
        · exact pre.fheap i (hidsr i hi) h h'
        · intro hm
          exact hnd.2.2 i (hidsk i (h' i hm)) i hi rfl
    · intro i hi; exact pre.fde i (hidsr i hi)
    · intro i hi; exact pre.fP i (hidsr i hi)
    · intro i hi e he
      rcases hents3 e he with h | h | h
      · exact pre.fent i (hidsr i hi) e h
      · rw [h.1]; intro e'; exact hnd.2.2 c.id (by rw [ids_node]; simp) i hi e'
      · intro e'; exact hnd.2.2 _ (hidsk _ h) i hi e'
    · intro e he hp
      rcases hents3 e he with h | h | h
      · have := pre.big e h hp
        rw [sizeL_cons] at this; omega
      · exfalso; rw [h.1] at hp; exact pre.fP c.id hcid hp
      · exfalso; exact pre.fP _ (hidsc _ (hidsk _ h)) hp
    · have := pre.low; simp only [LowL] at this; exact this.2
  · intro h hh
    simp only [List.mem_cons] at hh
    rcases hh with rfl | hh
    · right; intro i hi; rw [h3ids, List.mem_singleton] at hi; rw [hi, ids_node]; simp
    · rcases hheap3 h hh with h' | h'
      · exact Or.inl h'
      · right; intro i hi; exact hidsk i (h' i hi)
  · intro e he
    rcases hents3 e he with h | h | h
    · exact Or.inl h
    · right; rw [h.1, ids_node]; simp
    · right; exact hidsk _ h

theorem nodup_ph_ne {st : PhSt} (hT : TableOK st) {a b : PhEntry} (ha : a ∈ st.table) (hb : b ∈ st.table)
    (hne : a ≠ b) : a.ph ≠ b.ph := by
  intro e
  have h1 := entryOf_of_mem st hT a ha
  have h2 := entryOf_of_mem st hT b hb
  rw [e, h2] at h1
  exact hne (Option.some.inj h1).symm

mutual
  theorem doElement_good (de : List (Nat × Tree)) (P : List Nat) (c : Tree) (st : PhSt) (pre : Pre st de P c.kids) :
      ∃ alt, (doElement c st).1.id = c.id ∧ (doElement c st).1.kids = [] ∧
        (doElement c st).1.payload.kind = c.payload.kind ∧ (doElement c st).1.payload.tag = c.payload.tag ∧
        (doElement c st).1.payload.attrs = c.payload.attrs ∧
        strOf (doElement c st).1.payload.text = strOf c.payload.text ++ flatAlt alt ∧
        DoRes st (doElement c st).2 de P c.kids alt := by
    match c with
    | .node i p ks =>
      obtain ⟨alt, h1, h0, hres⟩ := doKids_good de P ks (strOf p.text) st pre
      refine ⟨alt, ?_⟩
      simp only [doElement, Tree.id, Tree.kids, Tree.payload]
      generalize doKids ks (strOf p.text) st = r at h1 hres
      obtain ⟨txt, st'⟩ := r
      simp only at h1 hres ⊢
      refine ⟨trivial, trivial, trivial, trivial, trivial, ?_, hres⟩
      by_cases hk : ks = []
      · subst hk
        simp [h0 rfl, flatAlt]
      · have : ks.isEmpty = false := by cases ks <;> simp_all
        simp [this, h1, strOf]
  theorem doKids_good (de : List (Nat × Tree)) (P : List Nat) (ks : List Tree) (acc : Str) (st : PhSt)
      (pre : Pre st de P ks) :
      ∃ alt, (doKids ks acc st).1 = acc ++ flatAlt alt ∧ (ks = [] → alt = []) ∧
        DoRes st (doKids ks acc st).2 de P ks alt := by
    match ks with
    | [] => exact ⟨[], by simp [doKids, flatAlt], fun _ => rfl, by simpa [doKids] using doRes_nil st de P pre⟩
    | c :: rest =>
      have hlow := pre.low
      simp only [LowL] at hlow
      have hlowc : Low (strOf c.payload.text) ∧ Low (strOf c.payload.tail) := by
        cases c with
        | node i p ks => simp only [LowT] at hlow; exact ⟨hlow.1.1, hlow.1.2.1⟩
      simp only [doKids]
      split
      · -- a formatting child
        next hfmt =>
        obtain ⟨pre2, hext2, hheap2, hcnt2, hents2, ⟨ec, hec, hphc, hrolec, hkeyc⟩,
          ⟨eo, heo, hpho, hroleo, hcpo, hkeyo, holdo⟩⟩ := fmt_pre de P c rest st pre
        generalize getPlaceholder st (setTailT (some []) c) .close none = r1 at pre2 hext2 hheap2 hcnt2 hents2 hec hphc heo hpho hcpo
        obtain ⟨phClose, st1⟩ := r1
        simp only at pre2 hext2 hheap2 hcnt2 hents2 hec hphc heo hpho hcpo ⊢
        generalize getPlaceholder st1 (setTailT (some []) c) .open (some phClose) = r2 at pre2 hext2 hheap2 hcnt2 hents2 hec heo hpho
        obtain ⟨phOpen, st2⟩ := r2
        simp only at pre2 hext2 hheap2 hcnt2 hents2 hec heo hpho ⊢
        obtain ⟨altK, e1, e2, e3, e4, e5, e6, resK⟩ := doElement_good de (c.id :: P) c st2 pre2
        generalize doElement c st2 = r3 at e1 e2 e3 e4 e5 e6 resK
        obtain ⟨c2, st3⟩ := r3
        simp only at e1 e2 e3 e4 e5 e6 resK ⊢
        -- the emptied element
        have h3id : (setTailT (some []) (setText (some []) c2)).id = c.id := by cases c2; exact e1
        have h3k : (setTailT (some []) (setText (some []) c2)).kids = [] := by cases c2; exact e2
        have h3ids : ids (setTailT (some []) (setText (some []) c2)) = [c.id] := by
          cases c2 with
          | node j q ls =>
            simp only [Tree.kids] at e2
            simp only [Tree.id] at e1
            subst e2; subst e1
            rfl
        have h3p : (setTailT (some []) (setText (some []) c2)).payload.kind = c.payload.kind ∧
            (setTailT (some []) (setText (some []) c2)).payload.tag = c.payload.tag ∧
            (setTailT (some []) (setText (some []) c2)).payload.attrs = c.payload.attrs := by
          cases c2; exact ⟨e3, e4, e5⟩
        obtain ⟨pre4, hst4, hst34, hheap4, hents4⟩ := fmt_post de P c rest st st2 st3 altK _ pre hext2 hheap2 hcnt2
          hents2 resK h3id h3ids h3k h3p
        obtain ⟨altR, hR, _, resR⟩ := doKids_good de P rest
          (acc ++ [phChar phOpen] ++ strOf c2.payload.text ++ [phChar phClose] ++ strOf c.payload.tail) _ pre4
        generalize doKids rest (acc ++ [phChar phOpen] ++ strOf c2.payload.text ++ [phChar phClose] ++
          strOf c.payload.tail) { st3 with heap := setTailT (some []) (setText (some []) c2) :: st3.heap } = r4 at hR resR
        obtain ⟨txt, st'⟩ := r4
        simp only at hR resR ⊢
        have hT' : TableOK st' := resR.stable.ext.1
        have heo' : eo ∈ st'.table := mem_of_extends resR.stable.ext (mem_of_extends resK.stable.ext heo)
        have hec' : ec ∈ st'.table := mem_of_extends resR.stable.ext (mem_of_extends resK.stable.ext hec)
        have hsz : size (keyOf c) = size c := size_keyOf c
        refine ⟨(phChar phOpen, strOf c.payload.text) :: altK ++ (phChar phClose, strOf c.payload.tail) :: altR,
          ?_, (fun h => absurd h (List.cons_ne_nil _ _)), ?_⟩
        · rw [hR, e6]
          simp [flatAlt, flatAlt_append]
        · refine ⟨hst4.trans resR.stable, resR.closed, resR.hinv, ?_, ?_, ?_, ?_, ?_⟩
          · have := resK.cnt; have := resR.cnt; simp only at *; omega
          · intro h hh
            rcases resR.heapIds h hh with h1 | h1
            · rcases hheap4 h h1 with h2 | h2
              · exact Or.inl h2
              · right; intro i hi; exact (idsL_cons_mem c rest i).2 (Or.inl (h2 i hi))
            · right; intro i hi; exact (idsL_cons_mem c rest i).2 (Or.inr (h1 i hi))
          · intro e he
            rcases resR.newEntries e he with h1 | h1
            · rcases hents4 e h1 with h2 | h2
              · exact Or.inl h2
              · right; exact (idsL_cons_mem c rest _).2 (Or.inl h2)
            · right; exact (idsL_cons_mem c rest _).2 (Or.inr h1)
          · intro x hx
            simp only [List.mem_cons, List.mem_append] at hx
            rcases hx with (rfl | hx) | (rfl | hx)
            · exact ⟨eo, heo', by rw [hpho], by rw [hkeyo, hsz, sizeL_cons]; omega⟩
            · obtain ⟨e, he, h1, h2⟩ := resK.chars x hx
              refine ⟨e, mem_of_extends resR.stable.ext (mem_of_extends hst34.ext he), h1, ?_⟩
              have := size_kids_lt c
              rw [sizeL_cons]; omega
            · exact ⟨ec, hec', by rw [hphc], by rw [hkeyc, hsz, sizeL_cons]; omega⟩
            · obtain ⟨e, he, h1, h2⟩ := resR.chars x hx
              exact ⟨e, he, h1, by rw [sizeL_cons]; omega⟩
          · intro hb
            have hC' := resR.closed
            have htoO : (phChar phOpen).toNat = phOpen := by rw [← hpho]; exact phChar_ok st' hT' hC' hb eo heo'
            have htoC : (phChar phClose).toNat = phClose := by rw [← hphc]; exact phChar_ok st' hT' hC' hb ec hec'
            -- the object of the opening entry
            have hnotP : eo.elemId ∉ P := by
              rcases holdo with h | h
              · intro hp
                have := pre.big eo h hp
                rw [sizeL_cons, hkeyo, hsz] at this
                omega
              · rw [h]
                exact pre.fP c.id (by rw [idsL_cons_mem]; left; rw [ids_node]; simp)
            obtain ⟨obj, ho, hs⟩ := pre4.hinv eo (mem_of_extends resK.stable.ext heo) hnotP
              (by rw [hroleo]; intro h; cases h)
            unfold Shape at hs
            rw [hroleo] at hs
            simp only at hs
            obtain ⟨k1, k2, k3⟩ := keyOf_payload c
            have hb3 : st3.counter < 0x110000 := by have := resR.cnt; simp only at this; omega
            refine Good.fmt c rest (phChar phOpen) (phChar phClose) eo obj altK altR ?_ hroleo ?_ ?_ hs.1
              (by rw [hs.2.1, hkeyo]; exact k1) (by rw [hs.2.2.1, hkeyo]; exact k2)
              (by rw [hs.2.2.2, hkeyo]; exact k3) ?_ ?_ hlowc.1 hlowc.2 ?_ (resR.good hb)
            · rw [htoO, ← hpho]; exact entryOf_of_mem st' hT' eo heo'
            · rw [hcpo, htoC]
            · exact resR.stable.obj eo (mem_of_extends resK.stable.ext heo) obj ho
            · unfold PhSt.isPh
              rw [htoC, ← hphc, entryOf_of_mem st' hT' ec hec']; rfl
            · intro x hx
              obtain ⟨e, he, h1, h2⟩ := resK.chars x hx
              have he' : e ∈ st'.table := mem_of_extends resR.stable.ext (mem_of_extends hst34.ext he)
              rw [h1, phChar_ok st' hT' hC' hb e he', htoC, ← hphc]
              apply nodup_ph_ne hT' he' hec'
              intro e'
              have := size_kids_lt c
              rw [e', hkeyc, hsz] at h2
              omega
            · exact (resK.good hb3).mono (hst34.trans resR.stable)
      · -- a single child
        next hfmt =>
        obtain ⟨pre2, hst2, hcnt2, hheap2, hents2, es, hes, hph, hrole, hsz, obj, ho, hobj⟩ :=
          single_step de P c rest st pre
        generalize getPlaceholder st (setTailT (some []) c) .single none = r1 at pre2 hst2 hcnt2 hheap2 hents2 hes hph ho
        obtain ⟨phS, st1⟩ := r1
        simp only at pre2 hst2 hcnt2 hheap2 hents2 hes hph ho ⊢
        obtain ⟨altR, hR, _, resR⟩ := doKids_good de P rest (acc ++ [phChar phS] ++ strOf c.payload.tail) _ pre2
        generalize doKids rest (acc ++ [phChar phS] ++ strOf c.payload.tail)
          { st1 with heap := setTailT (some []) c :: st1.heap } = r4 at hR resR
        obtain ⟨txt, st'⟩ := r4
        simp only at hR resR ⊢
        have hT' : TableOK st' := resR.stable.ext.1
        have hes' : es ∈ st'.table := mem_of_extends resR.stable.ext hes
        refine ⟨(phChar phS, strOf c.payload.tail) :: altR, ?_, (fun h => absurd h (List.cons_ne_nil _ _)), ?_⟩
        · rw [hR]; simp [flatAlt]
        · refine ⟨hst2.trans resR.stable, resR.closed, resR.hinv, ?_, ?_, ?_, ?_, ?_⟩
          · have := resR.cnt; simp only at *; omega
          · intro h hh
            rcases resR.heapIds h hh with h1 | h1
            · rcases hheap2 h h1 with h2 | h2
              · exact Or.inl h2
              · right; intro i hi; exact (idsL_cons_mem c rest i).2 (Or.inl (h2 i hi))
            · right; intro i hi; exact (idsL_cons_mem c rest i).2 (Or.inr (h1 i hi))
          · intro e he
            rcases resR.newEntries e he with h1 | h1
            · rcases hents2 e h1 with h2 | h2
              · exact Or.inl h2
              · right; rw [h2]; exact (idsL_cons_mem c rest _).2 (Or.inl (by rw [ids_node]; simp))
            · right; exact (idsL_cons_mem c rest _).2 (Or.inr h1)
          · intro x hx
            simp only [List.mem_cons] at hx
            rcases hx with rfl | hx
            · exact ⟨es, hes', by rw [hph], by rw [hsz, sizeL_cons]; omega⟩
            · obtain ⟨e, he, h1, h2⟩ := resR.chars x hx
              exact ⟨e, he, h1, by rw [sizeL_cons]; omega⟩
          · intro hb
            have htoS : (phChar phS).toNat = phS := by rw [← hph]; exact phChar_ok st' hT' resR.closed hb es hes'
            refine Good.single c rest (phChar phS) es obj altR ?_ hrole (resR.stable.obj es hes obj ho) hobj
              hlow.1 (resR.good hb)
            rw [htoS, ← hph]; exact entryOf_of_mem st' hT' es hes'
end

/-! ### the round trip for one text element -/

theorem above_of_closed (st : PhSt) (h : Closed st) : Above st := h.lob

/-- **`undo_element (do_element e)` is `e` up to the normal form**, on any maker state that satisfies the invariants
(in particular after any history of other documents), for an element whose ids are new to the maker and whose texts
contain no character from U+E000 on. -/
theorem roundtrip_element (st : PhSt) (de : List (Nat × Tree)) (e : Tree) (hT : TableOK st) (hC : Closed st)
    (hH : HInv st de []) (hn : (ids e).Nodup)
    (fheap : ∀ i ∈ ids e, ∀ h ∈ st.heap, i ∉ ids h) (fde : ∀ i ∈ ids e, ∀ p ∈ de, p.1 ≠ i)
    (fent : ∀ i ∈ ids e, ∀ x ∈ st.table, x.elemId ≠ i) (hlow : LowT e)
    (hb : (doElement e st).2.counter < 0x110000) :
    ∃ r, normT r = normT e ∧ ∃ N, ∀ f, N ≤ f →
      undoElement f (doElement e st).2 de (doElement e st).1 = .ok (r, []) := by
  cases e with
  | node i p ks =>
    simp only [LowT] at hlow
    rw [ids_node, List.nodup_cons] at hn
    have hsub : ∀ j ∈ idsL ks, j ∈ ids (Tree.node i p ks) := by intro j hj; rw [ids_node]; simp [Tree.kids, hj]
    have pre : Pre st de [] ks :=
      ⟨hT, hC, hH, hn.2, fun j hj => fheap j (hsub j hj), fun j hj => fde j (hsub j hj), (fun _ _ h => nomatch h),
        fun j hj => fent j (hsub j hj), (fun _ _ h => nomatch h), hlow.2.2⟩
    obtain ⟨alt, h1, h0, res⟩ := doKids_good de [] ks (strOf p.text) st pre
    simp only [doElement] at hb ⊢
    generalize doKids ks (strOf p.text) st = r at h1 res hb
    obtain ⟨txt, st'⟩ := r
    simp only at h1 res hb ⊢
    have ha : Above st' := res.closed.lob
    by_cases hk : ks = []
    · subst hk
      refine ⟨.node i p [], rfl, ?_⟩
      simp only [List.isEmpty_nil, if_true]
      apply undoElement_plain
      simp only [PlainT, PlainL]
      exact ⟨plainFor_of_low st' ha _ hlow.1, plainFor_of_low st' ha _ hlow.2.1, trivial⟩
    · have hke : ks.isEmpty = false := by cases ks <;> simp_all
      simp only [hke, Bool.false_eq_true, if_false, h1]
      exact undoElement_of_good st' de ha res.stable.ext.1 res.closed i p ks alt (res.good hb) hk hlow.1 hlow.2.1

end Undo
end XmlDiffModel
