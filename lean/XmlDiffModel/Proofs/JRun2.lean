/-
C08 along the run with the engine inside: the "texts are marked" invariant of `FmtInv.lean` is kept, because every
answer `feed` computes is a plain diff (the text it diffs is plain by the at-most-once invariant).
-/
import XmlDiffModel.Proofs.JRun
import XmlDiffModel.Proofs.FmtInv

namespace XmlDiffModel
namespace Acc
open Tree Undo TextMark MapId JInv Dmp Rej

theorem segsOK_feed (w : Bool) (bis : Bisect) (qn : QName) (s : FState) (h : FOK s) (T : Tree) (nx : Nat) (σ : Nat → Nat)
    (r : Rel σ T (acc (cln accS) s.tree) nx s.next) (HR HT HA : List Nat) (J : JAll w σ s.tree T HR HT HA)
    (a : Action) (hsu : SUAct qn T a) (htx : TextsOK a) (hsh : ShortTexts w a) (p1 : PState)
    (hp : applyUniq qn ⟨T, nx⟩ a = .ok p1)
    (dT : ∀ i ∈ Once.targets Once.textSel qn ⟨T, nx⟩ [a], i ∉ HT)
    (dA : ∀ i ∈ Once.targets Once.tailSel qn ⟨T, nx⟩ [a], i ∉ HA) (hs : SegsOK s.segs) :
    SegsOK (feed w bis qn s a).segs := by
  rw [targets_single Once.textSel qn ⟨T, nx⟩ p1 a hp] at dT
  rw [targets_single Once.tailSel qn ⟨T, nx⟩ p1 a hp] at dA
  cases a
  case updateTextIn n t =>
    obtain ⟨x, hx⟩ := hsu
    simp only [applyUniq, applyWith, bind, Except.bind] at hp
    cases hh : uniqueHit qn T n with
    | error e => rw [hh] at hp; cases hp
    | ok nd =>
      obtain ⟨m, hm, hin, hf⟩ := node_link qn s h T nx σ r n nd x hx hh
      simp only [Once.textSel, hh] at dT
      have hno := unflagged (FT w) σ s.tree T HT J.jt nd.id hin (dT nd.id (by simp)) m hf
      have hpl : Plain w m.payload.text := Classical.not_not.1 hno
      have hpt : Plain w t := ⟨htx.1, hsh.1, hsh.2⟩
      obtain ⟨g1, g2, g3, _, _⟩ := engine_answer w bis m.payload.text t hpl hpt
      simp only [feed, hm, question_plain w _ _ hpl hpt]
      intro d hd
      simp only [List.mem_cons, List.mem_nil_iff, or_false] at hd
      subst hd
      exact ⟨g1, g2, g3⟩
  case updateTextAfter n t =>
    obtain ⟨x, hx⟩ := hsu
    simp only [applyUniq, applyWith, bind, Except.bind] at hp
    cases hh : uniqueHit qn T n with
    | error e => rw [hh] at hp; cases hp
    | ok nd =>
      obtain ⟨m, hm, hin, hf⟩ := node_link qn s h T nx σ r n nd x hx hh
      simp only [Once.tailSel, hh] at dA
      have hno := unflagged (FA w) σ s.tree T HA J.ja nd.id hin (dA nd.id (by simp)) m hf
      have hpl : Plain w m.payload.tail := Classical.not_not.1 hno
      have hpt : Plain w t := ⟨htx.1, hsh.1, hsh.2⟩
      obtain ⟨g1, g2, g3, _, _⟩ := engine_answer w bis m.payload.tail t hpl hpt
      simp only [feed, hm, question_plain w _ _ hpl hpt]
      intro d hd
      simp only [List.mem_cons, List.mem_nil_iff, or_false] at hd
      subst hd
      exact ⟨g1, g2, g3⟩
  all_goals exact hs

theorem actLow_of_textsOK (a : Action) (h : TextsOK a) : ActLow a := by
  cases a <;> simp only [ActLow]
  case updateTextIn n t => exact h.1

/-- along the run of `run_E` the maker state stays and every text of the working tree stays a marked text -/
theorem run_E_finv (w : Bool) (bis : Bisect) (qn : QName) (script : List Action) (s : FState) (h : FOK s) (inv : ROK s) (T : Tree)
    (nx : Nat) (σ : Nat → Nat) (r : Rel σ T (acc (cln accS) s.tree) nx s.next) (HR HT HA : List Nat)
    (J : JAll w σ s.tree T HR HT HA) (fi : FInv s)
    (hst : ∀ a ∈ script, NoComment a ∧ PlainNames a ∧ TextsOK a ∧ ShortTexts w a)
    (hpaths : PathsOK qn ⟨T, nx⟩ script)
    (nR : (HR ++ Once.targets Once.renSel qn ⟨T, nx⟩ script).Nodup)
    (nT : (HT ++ Once.targets Once.textSel qn ⟨T, nx⟩ script).Nodup)
    (nA : (HA ++ Once.targets Once.tailSel qn ⟨T, nx⟩ script).Nodup)
    (p' : PState) (hp : runUniq qn ⟨T, nx⟩ script = .ok p') (s' : FState)
    (hrun : runFmtE w bis qn s script = .ok s') : FInv s' ∧ s'.ph = s.ph := by
  induction script generalizing s T nx σ HR HT HA with
  | nil =>
    simp only [runFmtE, Except.ok.injEq] at hrun
    subst hrun
    exact ⟨fi, rfl⟩
  | cons a rest ih =>
    obtain ⟨p1, h1, h2⟩ := Chw.runUniq_cons_inv qn _ p' a rest hp
    obtain ⟨hsa, hpm, hsr⟩ := hpaths
    obtain ⟨ha1, ha2, ha3, ha4⟩ := hst a (by simp)
    rw [targets_cons _ qn ⟨T, nx⟩ p1 a rest h1] at nR nT nA
    obtain ⟨s1, σ1, e1, e2, e3, e4, _, e6⟩ := step_E w bis qn s h inv T nx σ r HR HT HA J a ha1 hsa hpm ha2 ha3 ha4 p1 h1
      (disjoint_of_nodup nR) (disjoint_of_nodup nT) (disjoint_of_nodup nA)
    have hso := segsOK_feed w bis qn s h T nx σ r HR HT HA J a hsa ha3 ha4 p1 h1 (disjoint_of_nodup nT)
      (disjoint_of_nodup nA) fi.segs
    obtain ⟨sg, hfe⟩ := feed_eq w bis qn s a
    rw [hfe] at hso e1
    have fi0 : FInv { s with segs := sg } := ⟨fi.base, fi.marked, fi.norep, hso⟩
    obtain ⟨fi1, hph1⟩ := applyFmt_inv qn _ s1 a fi0 (actLow_of_textsOK a ha3) e1
    simp only [runFmtE, hfe, e1] at hrun
    obtain ⟨f1, f2⟩ := ih s1 e3 e4 p1.tree p1.next σ1 e2 _ _ _ e6 fi1 (fun b hb => hst b (by simp [hb]))
      (hsr p1 h1) (by rw [List.append_assoc]; exact nR) (by rw [List.append_assoc]; exact nT)
      (by rw [List.append_assoc]; exact nA) h2 hrun
    exact ⟨f1, f2.trans hph1⟩

end Acc
end XmlDiffModel
