/-
The "marked at most once" invariant for an arbitrary flag: one handler of the XML formatter other than a move keeps
`JF F` for every flag `F` that the handlers treat as `FlagOK F sel` says - untouched by marking, renaming and text
changes, and set by an attribute handler only where the selector `sel` records the action.  (`step_J` is the
instance for the three marks of the text and rename handlers; this file serves the attribute annotations.)
-/
import XmlDiffModel.Proofs.JStep
import XmlDiffModel.Proofs.Rej1

namespace XmlDiffModel
namespace Acc
open Tree Undo TextMark MapId JInv

/-- an attribute name the annotations can carry: not in the `diff:` namespace, no separator character, not empty -/
def NameOK (k : Str) : Prop := isDiffKey k = false ∧ ':' ∉ k ∧ ';' ∉ k ∧ k ≠ []

def AttrNamesOK : Action → Prop
  | .updateAttrib _ k _ => NameOK k
  | .deleteAttrib _ k => NameOK k
  | .insertAttrib _ k _ => NameOK k
  | .renameAttrib _ a b => NameOK a ∧ NameOK b
  | _ => True

/-- the values of the ordinary attributes have no item separator -/
def ValsOK (p : Payload) : Prop := ∀ kv ∈ p.attrs, isDiffKey kv.1 = false → ';' ∉ kv.2

def ActValsOK : Action → Prop
  | .updateAttrib _ _ v => ';' ∉ v
  | .insertAttrib _ _ v => ';' ∉ v
  | _ => True

theorem mem_of_attrGet (as : Attrs) (k v : Str) (h : attrGet as k = some v) : (k, v) ∈ as := by
  induction as with
  | nil => cases h
  | cons kv rest ih =>
    obtain ⟨k', v'⟩ := kv
    rw [attrGet_cons] at h
    split at h
    · next e => injection h with h; subst h; subst e; simp
    · exact List.mem_cons_of_mem _ (ih h)

structure FlagOK (F : Payload → Prop) (sel : Once.Sel) : Prop where
  markDel : ∀ p, F (markDel p) → F p
  insAttr : ∀ p : Payload, F { p with attrs := attrSet p.attrs INSERT_NAME [] } → F p
  fresh : ∀ tag : Str, ¬ F { kind := Kind.elem, tag := tag, attrs := [(INSERT_NAME, [])], text := none, tail := none }
  ren : ∀ tag p, F (fRen tag p) → F p
  text : ∀ (t : Option Str) (p : Payload), F { p with text := t } → F p
  tail : ∀ (t : Option Str) (p : Payload), F { p with tail := t } → F p
  upd : ∀ (n : Path) name value oldv p, NameOK name → ';' ∉ oldv → F (fUpd name value oldv p) →
    F p ∨ sel (.updateAttrib n name value) = some n
  del : ∀ (n : Path) name p, NameOK name → F (fDel name p) → F p ∨ sel (.deleteAttrib n name) = some n
  add : ∀ (n : Path) name value p, NameOK name → F (fAdd name value p) →
    F p ∨ sel (.insertAttrib n name value) = some n
  renA : ∀ (n : Path) old new v p, NameOK old → NameOK new → F (fRenA old new v p) →
    F p ∨ sel (.renameAttrib n old new) = some n

theorem jf_mono (F : Payload → Prop) (σ : Nat → Nat) (MT T : Tree) (H H' : List Nat) (hs : ∀ x ∈ H, x ∈ H')
    (J : JF F σ MT T H) : JF F σ MT T H' := fun l hl p hp hF => hs l (J l hl p hp hF)

theorem step_F (qn : QName) (s : FState) (h : FOK s) (T : Tree) (nx : Nat) (σ : Nat → Nat)
    (r : Rel σ T (acc (cln accS) s.tree) nx s.next) (F : Payload → Prop) (sel : Once.Sel) (ok : FlagOK F sel)
    (H : List Nat) (J : JF F σ s.tree T H)
    (a : Action) (hsim : Simulated a) (hsu : SUAct qn T a) (hpn : PlainNames a) (htx : TextsOK a)
    (han : AttrNamesOK a) (hv : Names.AllP ValsOK s.tree)
    (hor : OracleStep qn s a) (p1 : PState) (hp : applyUniq qn ⟨T, nx⟩ a = .ok p1) :
    ∃ s' σ', applyFmt qn s a = .ok s' ∧ Rel σ' p1.tree (acc (cln accS) s'.tree) p1.next s'.next ∧
      JF F σ' s'.tree p1.tree (H ++ Once.targets sel qn ⟨T, nx⟩ [a]) := by
  obtain ⟨σ', q1, hq, r', hag, hnx⟩ := applyUniq_equiv_agree qn a σ T _ nx s.next r p1 hp
  have hsu' : SUAct qn (acc (cln accS) s.tree) a := by rw [r.eq]; exact suAct_mapId qn σ T a hsu
  obtain ⟨s', e1, e2, e3, e4⟩ := step_sim_all qn s h a hsim hsu' hpn htx hor q1 hq
  refine ⟨s', σ', e1, by rw [e2, e3]; exact r', ?_⟩
  have tS := targets_single sel qn ⟨T, nx⟩ p1 a hp
  have hU := r.eq
  -- the working-tree node a path resolves to stands for the patcher's node
  have hnode : ∀ path nd m x, SU qn path [T] x → uniqueHit qn T path = .ok nd → xresolve qn s.tree path = .ok m →
      m.id = σ nd.id ∧ nd.id ∈ ids T := by
    intro path nd m x hx hh hm
    have hxU : SU qn path [acc (cln accS) s.tree] (mapId σ x) := by
      have := su_mapId qn σ path [T] x hx
      simpa [hU] using this
    have hhU : uniqueHit qn (acc (cln accS) s.tree) path = .ok (mapId σ nd) := by
      rw [hU]; exact uniqueHit_mapId qn σ T path nd hh
    obtain ⟨m', m1, m2, _, _⟩ := hit_both qn accS s h.tok path (mapId σ nd) (mapId σ x) hxU hhU
    rw [hm] at m1
    injection m1 with m1
    subst m1
    exact ⟨by rw [← acc_id (cln accS) m, m2, mapId_id], mem_of_find nd.id T nd (uniqueHit_find qn T r.nd path nd hh)⟩
  -- a payload change
  have hmod : ∀ (path : Path) (nd m : Tree) (x : Tree) (f : Payload → Payload) (sg : List (List Seg)),
      SU qn path [T] x → uniqueHit qn T path = .ok nd → xresolve qn s.tree path = .ok m →
      (∀ l ∈ ids p1.tree, l ∈ ids T) → s'.tree = (modifyNode { s with segs := sg } m.id f).tree →
      (∀ p, F (f p) → F p ∨ nd.id ∈ H ++ Once.targets sel qn ⟨T, nx⟩ [a]) →
      JF F σ' s'.tree p1.tree (H ++ Once.targets sel qn ⟨T, nx⟩ [a]) := by
    intro path nd m x f sg hx hh hm hsub hs' hF
    obtain ⟨hid, hin⟩ := hnode path nd m x hx hh hm
    rw [hs']
    exact jf_modify F σ σ' s.tree T p1.tree H _ m.id nd.id f h.tok.nodup hsub hag r.inj hin hid hF
      (mem_append_left' _ _) J
  -- the node an attribute action selects
  have hsel : ∀ (n : Path) (nd : Tree), uniqueHit qn T n = .ok nd → sel a = some n →
      nd.id ∈ H ++ Once.targets sel qn ⟨T, nx⟩ [a] := by
    intro n nd hh hs
    rw [tS, hs]
    simp only [hh]
    simp
  cases a <;> simp only [Simulated] at hsim
  case deleteNode n =>
    obtain ⟨x, hx⟩ := hsu
    simp only [applyUniq, applyWith, bind, Except.bind] at hp
    cases hh : uniqueHit qn T n with
    | error e => rw [hh] at hp; cases hp
    | ok nd =>
      rw [hh] at hp
      simp only at hp
      split at hp
      · cases hp
      · simp only [Except.ok.injEq] at hp
        subst hp
        simp only [applyFmt, bind, Except.bind, pure, Except.pure] at e1
        split at e1
        · cases e1
        · next m hm =>
          simp only [Except.ok.injEq] at e1
          subst e1
          exact hmod n nd m x markDel s.segs hx hh hm
            (fun l hl => (ids_remove_sublist nd.id T).subset hl) rfl (fun p hF => Or.inl (ok.markDel p hF))
  case insertNode tgt tag pos =>
    obtain ⟨x, hx⟩ := hsu
    simp only [applyUniq, applyWith, bind, Except.bind] at hp
    cases hh : uniqueHit qn T tgt with
    | error e => rw [hh] at hp; cases hp
    | ok tg =>
      rw [hh] at hp
      simp only [Except.ok.injEq] at hp
      subst hp
      simp only [applyFmt, bind, Except.bind, pure, Except.pure] at e1
      split at e1
      · cases e1
      · next m hm =>
        simp only [Except.ok.injEq] at e1
        subst e1
        obtain ⟨hid, hin⟩ := hnode tgt tg m x hx hh hm
        have hmin : m.id ∈ ids s.tree := by
          rw [hid]
          have : σ tg.id ∈ ids (acc (cln accS) s.tree) := by
            rw [hU, ids_mapId]; exact List.mem_map_of_mem hin
          exact (ids_acc_sublist _ _).subset this
        have hk : s.next ∉ ids s.tree := fun hm' => Nat.lt_irrefl _ (h.tok.fresh _ hm')
        have hT' : ∀ l ∈ ids (insertChild tg.id pos (.node nx (elemPayload tag) []) T), l ∈ ids T ∨ l = nx := by
          intro l hl
          rcases mem_ids_insertChild _ _ _ _ l hl with hl | hl
          · exact Or.inl hl
          · simp only [ids, idsL, List.mem_cons, List.mem_nil_iff, or_false, List.append_nil] at hl
            exact Or.inr hl
        have hnx' : σ' nx = s.next := by
          rw [hnx]; simp
        have hlt : ∀ l ∈ ids T, σ l ≠ s.next := fun l hl e => by
          have := r.fr' l hl
          omega
        exact jf_mono F σ' _ _ H _ (mem_append_left' _ _)
          (jf_insert F σ σ' s.tree T _ H m.id _ s.next nx _ h.tok.nodup hmin hk hT' hag hnx' hlt (ok.fresh tag) J)
  case renameNode n tag =>
    obtain ⟨x, hx⟩ := hsu
    simp only [applyUniq, applyWith, bind, Except.bind] at hp
    cases hh : uniqueHit qn T n with
    | error e => rw [hh] at hp; cases hp
    | ok nd =>
      rw [hh] at hp
      simp only [Except.ok.injEq] at hp
      subst hp
      simp only [applyFmt, bind, Except.bind, pure, Except.pure] at e1
      split at e1
      · cases e1
      · next m hm =>
        simp only [Except.ok.injEq] at e1
        subst e1
        exact hmod n nd m x (fRen tag) s.segs hx hh hm (fun l hl => by rwa [ids_modify] at hl) rfl
          (fun p hF => Or.inl (ok.ren tag p hF))
  case updateTextIn n t =>
    obtain ⟨x, hx⟩ := hsu
    simp only [applyUniq, applyWith, bind, Except.bind] at hp
    cases hh : uniqueHit qn T n with
    | error e => rw [hh] at hp; cases hp
    | ok nd =>
      rw [hh] at hp
      simp only [Except.ok.injEq] at hp
      subst hp
      simp only [applyFmt, bind, Except.bind, pure, Except.pure] at e1
      split at e1
      · cases e1
      · next m hm =>
        split at e1
        · simp only [Except.ok.injEq] at e1
          subst e1
          exact hmod n nd m x (fun p => { p with text := t }) s.segs hx hh hm
            (fun l hl => by rwa [ids_modify] at hl) rfl (fun p hF => Or.inl (ok.text t p hF))
        · next hins =>
          have hins' : attrHas m.payload.attrs INSERT_NAME = false := by simpa using hins
          obtain ⟨d, more, hsg, hn, ho, hl, _⟩ := hor m hm hins'
          obtain ⟨hmk, _, _⟩ := makeDiffTags_eq false s h.base h.norep d more hsg hn ho hl
          rw [hmk] at e1
          simp only [Except.ok.injEq] at e1
          subst e1
          exact hmod n nd m x
            (fun p => { p with text := if (emitted (nonEmpty d)).isEmpty then none else some (emitted (nonEmpty d)) })
            more hx hh hm (fun l hl => by rwa [ids_modify] at hl) rfl (fun p hF => Or.inl (ok.text _ p hF))
  case updateTextAfter n t =>
    obtain ⟨x, hx⟩ := hsu
    simp only [applyUniq, applyWith, bind, Except.bind] at hp
    cases hh : uniqueHit qn T n with
    | error e => rw [hh] at hp; cases hp
    | ok nd =>
      rw [hh] at hp
      simp only [Except.ok.injEq] at hp
      subst hp
      simp only [applyFmt, bind, Except.bind, pure, Except.pure] at e1
      split at e1
      · cases e1
      · next m hm =>
        obtain ⟨d, more, hsg, hn, ho, hl, _⟩ := hor
        obtain ⟨hmk, _, _⟩ := makeDiffTags_eq true s h.base h.norep d more hsg hn ho hl
        rw [hmk] at e1
        simp only [Except.ok.injEq] at e1
        subst e1
        exact hmod n nd m x
          (fun p => { p with tail := if (emitted (nonEmpty d)).isEmpty then none else some (emitted (nonEmpty d)) })
          more hx hh hm (fun l hl => by rwa [ids_modify] at hl) rfl (fun p hF => Or.inl (ok.tail _ p hF))
  case updateAttrib n name value =>
    obtain ⟨x, hx⟩ := hsu
    simp only [PlainNames] at hpn
    simp only [applyUniq, applyWith, bind, Except.bind] at hp
    cases hh : uniqueHit qn T n with
    | error e => rw [hh] at hp; cases hp
    | ok nd =>
      rw [hh] at hp
      simp only at hp
      split at hp
      · cases hp
      · simp only [Except.ok.injEq] at hp
        subst hp
        simp only [applyFmt, bind, Except.bind, pure, Except.pure] at e1
        split at e1
        · cases e1
        · next m hm =>
          split at e1
          · cases e1
          · next oldv hold =>
            simp only [Except.ok.injEq] at e1
            subst e1
            have hov : ';' ∉ oldv := by
              have hm' := Names.allP_find ValsOK m.id s.tree m (Rej.xresolve_find qn s.tree h.tok.nodup n m hm) hv
              cases m with
              | node i q ks =>
                simp only [Names.AllP] at hm'
                exact hm'.1 (name, oldv) (mem_of_attrGet _ _ _ hold) hpn
            exact hmod n nd m x (fUpd name value oldv) s.segs hx hh hm
              (fun l hl => by rwa [ids_modify] at hl) rfl
              (fun p hF => (ok.upd n name value oldv p han hov hF).imp id (hsel n nd hh))
  case deleteAttrib n name =>
    obtain ⟨x, hx⟩ := hsu
    simp only [PlainNames] at hpn
    simp only [applyUniq, applyWith, bind, Except.bind] at hp
    cases hh : uniqueHit qn T n with
    | error e => rw [hh] at hp; cases hp
    | ok nd =>
      rw [hh] at hp
      simp only at hp
      split at hp
      · cases hp
      · simp only [Except.ok.injEq] at hp
        subst hp
        simp only [applyFmt, bind, Except.bind, pure, Except.pure] at e1
        split at e1
        · cases e1
        · next m hm =>
          split at e1
          · cases e1
          · simp only [Except.ok.injEq] at e1
            subst e1
            exact hmod n nd m x (fDel name) s.segs hx hh hm
              (fun l hl => by rwa [ids_modify] at hl) rfl
              (fun p hF => (ok.del n name p han hF).imp id (hsel n nd hh))
  case insertAttrib n name value =>
    obtain ⟨x, hx⟩ := hsu
    simp only [PlainNames] at hpn
    simp only [applyUniq, applyWith, bind, Except.bind] at hp
    cases hh : uniqueHit qn T n with
    | error e => rw [hh] at hp; cases hp
    | ok nd =>
      rw [hh] at hp
      simp only at hp
      split at hp
      · cases hp
      · simp only [Except.ok.injEq] at hp
        subst hp
        simp only [applyFmt, bind, Except.bind, pure, Except.pure] at e1
        split at e1
        · cases e1
        · next m hm =>
          simp only [Except.ok.injEq] at e1
          subst e1
          exact hmod n nd m x (fAdd name value) s.segs hx hh hm
            (fun l hl => by rwa [ids_modify] at hl) rfl
            (fun p hF => (ok.add n name value p han hF).imp id (hsel n nd hh))
  case renameAttrib n old new =>
    obtain ⟨x, hx⟩ := hsu
    simp only [PlainNames] at hpn
    simp only [applyUniq, applyWith, bind, Except.bind] at hp
    cases hh : uniqueHit qn T n with
    | error e => rw [hh] at hp; cases hp
    | ok nd =>
      rw [hh] at hp
      simp only at hp
      split at hp
      · cases hp
      · split at hp
        · cases hp
        · simp only [Except.ok.injEq] at hp
          subst hp
          simp only [applyFmt, bind, Except.bind, pure, Except.pure] at e1
          split at e1
          · cases e1
          · next m hm =>
            split at e1
            · cases e1
            · next v _ =>
              simp only [Except.ok.injEq] at e1
              subst e1
              exact hmod n nd m x (fRenA old new v) s.segs hx hh hm
                (fun l hl => by rwa [ids_modify] at hl) rfl
                (fun p hF => (ok.renA n old new v p han.1 han.2 hF).imp id (hsel n nd hh))
  case insertNamespace pfx uri =>
    simp only [applyUniq, applyWith, Except.ok.injEq] at hp
    subst hp
    simp only [applyFmt, pure, Except.pure, Except.ok.injEq] at e1
    subst e1
    exact fun l hl p hp' hF => List.mem_append_left _ (J l hl p (by rw [← hag l hl]; exact hp') hF)
  case deleteNamespace pfx =>
    simp only [applyUniq, applyWith, Except.ok.injEq] at hp
    subst hp
    simp only [applyFmt, pure, Except.pure, Except.ok.injEq] at e1
    subst e1
    exact fun l hl p hp' hF => List.mem_append_left _ (J l hl p (by rw [← hag l hl]; exact hp') hF)

end Acc
end XmlDiffModel
