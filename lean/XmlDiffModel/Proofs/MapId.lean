/-
Renaming node ids: the patcher addresses nodes by paths, which do not look at ids; ids only say which node a
handler changes.  So the patcher commutes with every renaming that is one-to-one on the ids of the tree
(`Proofs/Equiv.lean`).  This file: `mapId` and the tree operations.
-/
import XmlDiffModel.Proofs.Acc4

namespace XmlDiffModel
namespace MapId
open Tree

mutual
  def mapId (σ : Nat → Nat) : Tree → Tree
    | .node i p ks => .node (σ i) p (mapIdL σ ks)
  def mapIdL (σ : Nat → Nat) : List Tree → List Tree
    | [] => []
    | t :: ts => mapId σ t :: mapIdL σ ts
end

theorem mapIdL_eq (σ : Nat → Nat) (ts : List Tree) : mapIdL σ ts = ts.map (mapId σ) := by
  induction ts with
  | nil => rfl
  | cons t rest ih => simp [mapIdL, ih]

theorem mapId_id (σ : Nat → Nat) (t : Tree) : (mapId σ t).id = σ t.id := by cases t; simp [mapId, Tree.id]
theorem mapId_payload (σ : Nat → Nat) (t : Tree) : (mapId σ t).payload = t.payload := by
  cases t; simp [mapId, Tree.payload]
theorem mapId_kids (σ : Nat → Nat) (t : Tree) : (mapId σ t).kids = mapIdL σ t.kids := by
  cases t; simp [mapId, Tree.kids]

mutual
  theorem ids_mapId (σ : Nat → Nat) (t : Tree) : ids (mapId σ t) = (ids t).map σ := by
    match t with
    | .node i p ks => simp [mapId, ids, idsL_mapIdL σ ks]
  theorem idsL_mapIdL (σ : Nat → Nat) (ts : List Tree) : idsL (mapIdL σ ts) = (idsL ts).map σ := by
    match ts with
    | [] => simp [mapIdL, idsL]
    | t :: rest => simp [mapIdL, idsL, ids_mapId σ t, idsL_mapIdL σ rest]
end

/-- `σ` is one-to-one on the list -/
def InjOn (σ : Nat → Nat) (l : List Nat) : Prop := ∀ a ∈ l, ∀ b ∈ l, σ a = σ b → a = b

theorem InjOn.sub {σ : Nat → Nat} {l l' : List Nat} (h : InjOn σ l) (hs : ∀ a ∈ l', a ∈ l) : InjOn σ l' :=
  fun a ha b hb e => h a (hs a ha) b (hs b hb) e

theorem nodup_map_injOn (σ : Nat → Nat) (l : List Nat) (hn : l.Nodup) (hi : InjOn σ l) : (l.map σ).Nodup := by
  induction l with
  | nil => simp
  | cons a rest ih =>
    rw [List.nodup_cons] at hn
    simp only [List.map_cons, List.nodup_cons, List.mem_map, not_exists, not_and]
    refine ⟨fun b hb e => hn.1 ((hi a (by simp) b (by simp [hb]) e.symm) ▸ hb), ih hn.2 (hi.sub (fun x hx => by simp [hx]))⟩

/-! ### addressing ignores ids -/

theorem resolveStep_mapId (qn : QName) (σ : Nat → Nat) (st : Step) (forest : List Tree) :
    resolveStep qn st (forest.map (mapId σ)) = (resolveStep qn st forest).map (mapId σ) := by
  unfold resolveStep
  have hfil : (forest.map (mapId σ)).filter (fun s => st.test.matches qn s.payload) =
      (forest.filter (fun s => st.test.matches qn s.payload)).map (mapId σ) := by
    rw [List.filter_map]
    congr 1
    apply List.filter_congr
    intro x _
    simp only [Function.comp, mapId_payload]
  simp only [hfil]
  cases st.idx with
  | none => rfl
  | some k =>
    cases k with
    | zero => rfl
    | succ k => simp [List.map_drop, List.map_take]

theorem resolveL_mapId (qn : QName) (σ : Nat → Nat) (p : Path) (forest : List Tree) :
    resolveL qn p (forest.map (mapId σ)) = (resolveL qn p forest).map (mapId σ) := by
  induction p generalizing forest with
  | nil => simp [resolveL]
  | cons st rest ih =>
    cases rest with
    | nil => simp only [resolveL]; exact resolveStep_mapId qn σ st forest
    | cons st' rest' =>
      rw [resolveL_cons_cons, resolveL_cons_cons, resolveStep_mapId]
      simp only [List.flatMap_map, List.map_flatMap]
      congr 1
      funext t
      rw [mapId_kids, mapIdL_eq]
      exact ih t.kids

theorem uniqueHit_mapId (qn : QName) (σ : Nat → Nat) (t : Tree) (p : Path) (n : Tree)
    (h : uniqueHit qn t p = .ok n) : uniqueHit qn (mapId σ t) p = .ok (mapId σ n) := by
  unfold uniqueHit at h ⊢
  split at h
  · cases h
  · next hidx =>
    rw [if_neg hidx]
    unfold resolve at h ⊢
    have := resolveL_mapId qn σ p [t]
    simp only [List.map_cons, List.map_nil] at this
    rw [this]
    split at h
    · cases h
    · next x hx =>
      simp only [Except.ok.injEq] at h
      subst h
      rw [hx]; rfl
    · cases h

/-! ### the tree operations under a renaming that is one-to-one on the ids -/

mutual
  theorem modify_mapId (σ : Nat → Nat) (i : Nat) (f : Payload → Payload) (t : Tree) (hin : i ∈ ids t)
      (hi : InjOn σ (ids t)) : modify (σ i) f (mapId σ t) = mapId σ (modify i f t) := by
    match t with
    | .node j p ks =>
      by_cases h : j = i
      · subst h
        simp [mapId, Tree.modify]
      · have hne : σ j ≠ σ i := fun e => h (hi j (by simp [ids]) i hin e)
        simp only [mapId, Tree.modify, h, hne, if_false]
        have hin' : i ∈ idsL ks := by
          simp only [ids, List.mem_cons] at hin
          rcases hin with e | e
          · exact absurd e.symm h
          · exact e
        rw [modifyL_mapIdL σ i f ks (Or.inl hin') (fun a ha b hb e => by
          cases hb with
          | inl hb => exact hi a (by simp [ids, ha]) b (by rw [hb]; exact hin) e
          | inr hb => exact hi a (by simp [ids, ha]) b (by simp [ids, hb]) e)]
  /-- on a forest: `i` occurs in the forest, or at least `σ` separates `i` from the ids of the forest -/
  theorem modifyL_mapIdL (σ : Nat → Nat) (i : Nat) (f : Payload → Payload) (ts : List Tree)
      (hin : i ∈ idsL ts ∨ True) (hi : ∀ a ∈ idsL ts, ∀ b, (b = i ∨ b ∈ idsL ts) → σ a = σ b → a = b) :
      modifyL (σ i) f (mapIdL σ ts) = mapIdL σ (modifyL i f ts) := by
    match ts with
    | [] => simp [mapIdL, modifyL]
    | t :: rest =>
      simp only [mapIdL, modifyL]
      have hrest := modifyL_mapIdL σ i f rest (Or.inr trivial) (fun a ha b hb e => by
        cases hb with
        | inl hb => exact hi a (by simp [idsL, ha]) b (Or.inl hb) e
        | inr hb => exact hi a (by simp [idsL, ha]) b (Or.inr (by simp [idsL, hb])) e)
      rw [hrest]
      congr 1
      by_cases hit : i ∈ ids t
      · exact modify_mapId σ i f t hit (fun a ha b hb e => hi a (by simp [idsL, ha]) b (Or.inr (by simp [idsL, hb])) e)
      · -- `i` is not in `t`, and no id of `t` is sent to `σ i`
        rw [modify_not_mem i f t hit]
        apply modify_not_mem
        rw [ids_mapId]
        intro hm
        obtain ⟨a, ha, e⟩ := List.mem_map.1 hm
        have := hi a (by simp [idsL, ha]) i (Or.inl rfl) e
        exact hit (this ▸ ha)
end

/-- `σ` sends no other id of the list to `σ i` -/
def Sep (σ : Nat → Nat) (i : Nat) (l : List Nat) : Prop := ∀ a ∈ l, σ a = σ i → a = i

theorem Sep.sub {σ : Nat → Nat} {i : Nat} {l l' : List Nat} (h : Sep σ i l) (hs : ∀ a ∈ l', a ∈ l) : Sep σ i l' :=
  fun a ha e => h a (hs a ha) e

theorem sep_of_injOn {σ : Nat → Nat} {i : Nat} {l : List Nat} (h : InjOn σ l) (hi : i ∈ l) : Sep σ i l :=
  fun a ha e => h a ha i hi e

mutual
  theorem remove_mapId (σ : Nat → Nat) (i : Nat) (t : Tree) (hs : Sep σ i (ids t)) :
      remove (σ i) (mapId σ t) = mapId σ (remove i t) := by
    match t with
    | .node j p ks =>
      simp only [mapId, remove]
      rw [removeL_mapIdL σ i ks (hs.sub (fun a ha => by simp [ids, ha]))]
  theorem removeL_mapIdL (σ : Nat → Nat) (i : Nat) (ts : List Tree) (hs : Sep σ i (idsL ts)) :
      removeL (σ i) (mapIdL σ ts) = mapIdL σ (removeL i ts) := by
    match ts with
    | [] => simp [mapIdL, removeL]
    | t :: rest =>
      simp only [mapIdL, removeL, mapId_id]
      by_cases h : t.id = i
      · simp [h]
      · have hne : σ t.id ≠ σ i := fun e => h (hs t.id (by simp [idsL, id_mem_ids]) e)
        simp only [h, hne, if_false, mapIdL]
        rw [remove_mapId σ i t (hs.sub (fun a ha => by simp [idsL, ha])),
          removeL_mapIdL σ i rest (hs.sub (fun a ha => by simp [idsL, ha]))]
end

theorem mapIdL_insertAt (σ : Nat → Nat) (ks : List Tree) (pos : Nat) (x : Tree) :
    mapIdL σ (insertAt ks pos x) = insertAt (mapIdL σ ks) pos (mapId σ x) := by
  rw [mapIdL_eq, mapIdL_eq, Acc.map_insertAt]

mutual
  theorem insertChild_mapId (σ : Nat → Nat) (i pos : Nat) (sub t : Tree) (hs : Sep σ i (ids t)) :
      insertChild (σ i) pos (mapId σ sub) (mapId σ t) = mapId σ (insertChild i pos sub t) := by
    match t with
    | .node j p ks =>
      by_cases h : j = i
      · subst h
        simp only [mapId, insertChild, if_true]
        rw [mapIdL_insertAt]
      · have hne : σ j ≠ σ i := fun e => h (hs j (by simp [ids]) e)
        simp only [mapId, insertChild, h, hne, if_false]
        rw [insertChildL_mapIdL σ i pos sub ks (hs.sub (fun a ha => by simp [ids, ha]))]
  theorem insertChildL_mapIdL (σ : Nat → Nat) (i pos : Nat) (sub : Tree) (ts : List Tree) (hs : Sep σ i (idsL ts)) :
      insertChildL (σ i) pos (mapId σ sub) (mapIdL σ ts) = mapIdL σ (insertChildL i pos sub ts) := by
    match ts with
    | [] => simp [mapIdL, insertChildL]
    | t :: rest =>
      simp only [mapIdL, insertChildL]
      rw [insertChild_mapId σ i pos sub t (hs.sub (fun a ha => by simp [idsL, ha])),
        insertChildL_mapIdL σ i pos sub rest (hs.sub (fun a ha => by simp [idsL, ha]))]
end

mutual
  theorem modify_mapId' (σ : Nat → Nat) (i : Nat) (f : Payload → Payload) (t : Tree) (hs : Sep σ i (ids t)) :
      modify (σ i) f (mapId σ t) = mapId σ (modify i f t) := by
    match t with
    | .node j p ks =>
      by_cases h : j = i
      · subst h
        simp [mapId, Tree.modify]
      · have hne : σ j ≠ σ i := fun e => h (hs j (by simp [ids]) e)
        simp only [mapId, Tree.modify, h, hne, if_false]
        rw [modifyL_mapIdL' σ i f ks (hs.sub (fun a ha => by simp [ids, ha]))]
  theorem modifyL_mapIdL' (σ : Nat → Nat) (i : Nat) (f : Payload → Payload) (ts : List Tree)
      (hs : Sep σ i (idsL ts)) : modifyL (σ i) f (mapIdL σ ts) = mapIdL σ (modifyL i f ts) := by
    match ts with
    | [] => simp [mapIdL, modifyL]
    | t :: rest =>
      simp only [mapIdL, modifyL]
      rw [modify_mapId' σ i f t (hs.sub (fun a ha => by simp [idsL, ha])),
        modifyL_mapIdL' σ i f rest (hs.sub (fun a ha => by simp [idsL, ha]))]
end

mutual
  theorem mapId_congr (σ τ : Nat → Nat) (t : Tree) (h : ∀ a ∈ ids t, σ a = τ a) : mapId σ t = mapId τ t := by
    match t with
    | .node j p ks =>
      simp only [mapId]
      rw [h j (by simp [ids]), mapIdL_congr σ τ ks (fun a ha => h a (by simp [ids, ha]))]
  theorem mapIdL_congr (σ τ : Nat → Nat) (ts : List Tree) (h : ∀ a ∈ idsL ts, σ a = τ a) :
      mapIdL σ ts = mapIdL τ ts := by
    match ts with
    | [] => rfl
    | t :: rest =>
      simp only [mapIdL]
      rw [mapId_congr σ τ t (fun a ha => h a (by simp [idsL, ha])),
        mapIdL_congr σ τ rest (fun a ha => h a (by simp [idsL, ha]))]
end

mutual
  theorem mapId_comp (σ τ : Nat → Nat) (t : Tree) : mapId τ (mapId σ t) = mapId (τ ∘ σ) t := by
    match t with
    | .node j p ks => simp only [mapId, Function.comp]; rw [mapIdL_comp σ τ ks]
  theorem mapIdL_comp (σ τ : Nat → Nat) (ts : List Tree) : mapIdL τ (mapIdL σ ts) = mapIdL (τ ∘ σ) ts := by
    match ts with
    | [] => rfl
    | t :: rest => simp only [mapIdL]; rw [mapId_comp σ τ t, mapIdL_comp σ τ rest]
end

mutual
  theorem mapId_ident (t : Tree) : mapId (fun x => x) t = t := by
    match t with
    | .node j p ks => simp only [mapId]; rw [mapIdL_ident ks]
  theorem mapIdL_ident (ts : List Tree) : mapIdL (fun x => x) ts = ts := by
    match ts with
    | [] => rfl
    | t :: rest => simp only [mapIdL]; rw [mapId_ident t, mapIdL_ident rest]
end

end MapId
end XmlDiffModel
