/-
`utils.breadth_first_traverse` (model: `Tree.bfs`): every node once, as a subtree found under its id, each node after
its parent.
-/
import XmlDiffModel.Proofs.TreeView

namespace XmlDiffModel
namespace Tree

theorem sizeL_append (a b : List Tree) : sizeL (a ++ b) = sizeL a + sizeL b := by
  induction a with
  | nil => simp [sizeL]
  | cons t ts ih => simp [sizeL, ih]; omega

theorem size_eq (t : Tree) : size t = 1 + sizeL t.kids := by
  cases t with
  | node i p ks => simp [size, kids]

/-- the ids output by the traversal are a permutation of the ids in the queue -/
theorem bfsAux_perm (fuel : Nat) (q : List Tree) (h : sizeL q ≤ fuel) :
    ((bfsAux fuel q).map Tree.id).Perm (idsL q) := by
  induction fuel generalizing q with
  | zero =>
    cases q with
    | nil => simp [bfsAux, idsL]
    | cons t ts => simp [sizeL, size_eq] at h
  | succ f ih =>
    cases q with
    | nil => simp [bfsAux, idsL]
    | cons t ts =>
      simp only [bfsAux, List.map_cons]
      have hs : sizeL (ts ++ t.kids) ≤ f := by
        rw [sizeL_append]; simp only [sizeL, size_eq] at h; omega
      have := ih (ts ++ t.kids) hs
      rw [idsL_append] at this
      simp only [idsL]
      rw [ids_eq]
      simp only [List.cons_append]
      refine List.Perm.cons _ (this.trans ?_)
      exact List.perm_append_comm

theorem bfs_ids_perm (t : Tree) : ((bfs t).map Tree.id).Perm (ids t) := by
  have := bfsAux_perm (size t) [t] (by simp [sizeL])
  simpa [bfs, idsL] using this

/-- every output element is in the queue or a child of an earlier output element -/
theorem bfsAux_parent_before (fuel : Nat) (q pre post : List Tree) (x : Tree)
    (h : bfsAux fuel q = pre ++ x :: post) : x ∈ q ∨ ∃ p ∈ pre, x ∈ p.kids := by
  induction fuel generalizing q pre with
  | zero => simp [bfsAux] at h
  | succ f ih =>
    cases q with
    | nil => simp [bfsAux] at h
    | cons t ts =>
      simp only [bfsAux] at h
      cases pre with
      | nil =>
        simp only [List.nil_append, List.cons.injEq] at h
        exact Or.inl (h.1 ▸ List.mem_cons_self)
      | cons a pre' =>
        simp only [List.cons_append, List.cons.injEq] at h
        obtain ⟨hta, hrest⟩ := h
        subst hta
        rcases ih (ts ++ t.kids) pre' hrest with hx | ⟨p, hp, hk⟩
        · rcases List.mem_append.mp hx with hx | hx
          · exact Or.inl (List.mem_cons_of_mem _ hx)
          · exact Or.inr ⟨t, List.mem_cons_self, hx⟩
        · exact Or.inr ⟨p, List.mem_cons_of_mem _ hp, hk⟩

/-- every output element is a subtree of the root, found under its id -/
theorem bfsAux_sub (R : Tree) (hn : (ids R).Nodup) (fuel : Nat) (q : List Tree)
    (hq : ∀ t ∈ q, find t.id R = some t) : ∀ x ∈ bfsAux fuel q, find x.id R = some x := by
  induction fuel generalizing q with
  | zero => simp [bfsAux]
  | succ f ih =>
    cases q with
    | nil => simp [bfsAux]
    | cons t ts =>
      simp only [bfsAux]
      intro x hx
      rcases List.mem_cons.mp hx with hx | hx
      · subst hx; exact hq x List.mem_cons_self
      · apply ih (ts ++ t.kids) _ x hx
        intro u hu
        rcases List.mem_append.mp hu with hu | hu
        · exact hq u (List.mem_cons_of_mem _ hu)
        · exact find_of_sub R hn t.id t (hq t List.mem_cons_self) u hu

theorem bfs_sub (R : Tree) (hn : (ids R).Nodup) : ∀ x ∈ bfs R, find x.id R = some x :=
  bfsAux_sub R hn (size R) [R] (by intro t ht; simp at ht; subst ht; exact find_self t)

theorem bfs_parent_before (R : Tree) (pre post : List Tree) (x : Tree) (h : bfs R = pre ++ x :: post) :
    x = R ∨ ∃ p ∈ pre, x ∈ p.kids := by
  rcases bfsAux_parent_before (size R) [R] pre post x h with hx | hx
  · left; simpa using hx
  · exact Or.inr hx

theorem bfs_nodup (R : Tree) (hn : (ids R).Nodup) : ((bfs R).map Tree.id).Nodup :=
  (bfs_ids_perm R).nodup_iff.2 hn

theorem bfs_covers (R : Tree) (i : Nat) (h : i ∈ ids R) : ∃ x ∈ bfs R, x.id = i := by
  have := (bfs_ids_perm R).mem_iff.2 h
  obtain ⟨x, hx, hid⟩ := List.mem_map.mp this
  exact ⟨x, hx, hid⟩

end Tree
end XmlDiffModel
