/-
The three marks of the XML formatter and the "at most once" invariant for all of them, under payload changes.
-/
import XmlDiffModel.Proofs.JMove

namespace XmlDiffModel
namespace Acc
open Tree Undo TextMark MapId JInv

/-- the node carries `diff:rename` -/
def FR (p : Payload) : Prop := (attrGet p.attrs RENAME_NAME).isSome = true
/-- longest text the line mode of the engine model is proved for: two such texts and three more lines stay below the
surrogate range -/
def TEXT_MAX : Nat := 27000
/-- a text the engine can be asked about: no private-use characters, not too long, and - when the formatter normalises
texts (`w`: `normalize & WS_TEXT`) - already in whitespace-normal form, so that the normalisation in `_make_diff_tags`
leaves it alone -/
def Plain (w : Bool) (t : Option Str) : Prop :=
  Low (strOf t) ∧ (strOf t).length ≤ TEXT_MAX ∧ (w = true → wsNorm (strOf t) = strOf t)
/-- the text is not (known to be) an unmarked text -/
def FT (w : Bool) (p : Payload) : Prop := ¬ Plain w p.text
/-- the same for the tail -/
def FA (w : Bool) (p : Payload) : Prop := ¬ Plain w p.tail

structure JAll (w : Bool) (σ : Nat → Nat) (MT T : Tree) (HR HT HA : List Nat) : Prop where
  jr : JF FR σ MT T HR
  jt : JF (FT w) σ MT T HT
  ja : JF (FA w) σ MT T HA

variable (w : Bool)

/-- a payload change at the node standing for `l0`: each mark is either untouched by the change or `l0` is recorded -/
theorem jall_modify (σ σ' : Nat → Nat) (MT T T' : Tree) (HR HT HA HR' HT' HA' : List Nat) (i0 l0 : Nat)
    (f : Payload → Payload) (hn : (ids MT).Nodup) (hsub : ∀ l ∈ ids T', l ∈ ids T)
    (hag : ∀ l ∈ ids T, σ' l = σ l) (hinj : InjOn σ (ids T)) (hl0 : l0 ∈ ids T) (hi0 : i0 = σ l0)
    (hR : (∀ p, FR (f p) → FR p) ∨ l0 ∈ HR') (hT : (∀ p, FT w (f p) → FT w p) ∨ l0 ∈ HT')
    (hA : (∀ p, FA w (f p) → FA w p) ∨ l0 ∈ HA')
    (sR : ∀ x ∈ HR, x ∈ HR') (sT : ∀ x ∈ HT, x ∈ HT') (sA : ∀ x ∈ HA, x ∈ HA')
    (J : JAll w σ MT T HR HT HA) : JAll w σ' (modify i0 f MT) T' HR' HT' HA' := by
  refine ⟨?_, ?_, ?_⟩
  · apply jf_modify FR σ σ' MT T T' HR HR' i0 l0 f hn hsub hag hinj hl0 hi0 _ sR J.jr
    intro p hp
    rcases hR with h | h
    · exact Or.inl (h p hp)
    · exact Or.inr h
  · apply jf_modify (FT w) σ σ' MT T T' HT HT' i0 l0 f hn hsub hag hinj hl0 hi0 _ sT J.jt
    intro p hp
    rcases hT with h | h
    · exact Or.inl (h p hp)
    · exact Or.inr h
  · apply jf_modify (FA w) σ σ' MT T T' HA HA' i0 l0 f hn hsub hag hinj hl0 hi0 _ sA J.ja
    intro p hp
    rcases hA with h | h
    · exact Or.inl (h p hp)
    · exact Or.inr h

theorem FR_of_get (p q : Payload) (h : attrGet q.attrs RENAME_NAME = attrGet p.attrs RENAME_NAME) :
    FR q → FR p := by
  unfold FR; rw [h]; exact id

theorem FR_insAttr (p : Payload) : FR { p with attrs := attrSet p.attrs INSERT_NAME [] } → FR p := by
  apply FR_of_get
  have : RENAME_NAME ≠ INSERT_NAME := by decide
  simp [attrGet_attrSet, this]

/-! ### what the handlers' payload changes do to the marks -/

theorem marks_markDel : (∀ p, FR (markDel p) → FR p) ∧ (∀ p, FT w (markDel p) → FT w p) ∧ (∀ p, FA w (markDel p) → FA w p) := by
  refine ⟨fun p => FR_of_get p _ ?_, fun _ h => h, fun _ h => h⟩
  have : RENAME_NAME ≠ DELETE_NAME := by decide
  simp [markDel, attrGet_attrSet, this]

theorem marks_fRen (tag : Str) : (∀ p, FT w (fRen tag p) → FT w p) ∧ (∀ p, FA w (fRen tag p) → FA w p) :=
  ⟨fun _ h => h, fun _ h => h⟩

theorem marks_fUpd (name value oldv : Str) (hpn : isDiffKey name = false) :
    (∀ p, FR (fUpd name value oldv p) → FR p) ∧ (∀ p, FT w (fUpd name value oldv p) → FT w p) ∧
      (∀ p, FA w (fUpd name value oldv p) → FA w p) := by
  refine ⟨fun p => FR_of_get p _ ?_, fun _ h => h, fun _ h => h⟩
  simp only [fUpd]
  rw [Rej.get_extend _ _ _ _ (by decide)]
  simp [attrGet_attrSet, Rej.ne_of_plain name RENAME_NAME hpn isDiffKey_rename]

theorem marks_fDel (name : Str) (hpn : isDiffKey name = false) :
    (∀ p, FR (fDel name p) → FR p) ∧ (∀ p, FT w (fDel name p) → FT w p) ∧ (∀ p, FA w (fDel name p) → FA w p) := by
  refine ⟨fun p => FR_of_get p _ ?_, fun _ h => h, fun _ h => h⟩
  simp only [fDel]
  rw [Rej.get_extend _ _ _ _ (by decide)]
  simp [attrGet_attrDel, Rej.ne_of_plain name RENAME_NAME hpn isDiffKey_rename]

theorem marks_fAdd (name value : Str) (hpn : isDiffKey name = false) :
    (∀ p, FR (fAdd name value p) → FR p) ∧ (∀ p, FT w (fAdd name value p) → FT w p) ∧
      (∀ p, FA w (fAdd name value p) → FA w p) := by
  refine ⟨fun p => FR_of_get p _ ?_, fun _ h => h, fun _ h => h⟩
  simp only [fAdd]
  rw [Rej.get_extend _ _ _ _ (by decide)]
  simp [attrGet_attrSet, Rej.ne_of_plain name RENAME_NAME hpn isDiffKey_rename]

theorem marks_fRenA (old new v : Str) (ho : isDiffKey old = false) (hnw : isDiffKey new = false) :
    (∀ p, FR (fRenA old new v p) → FR p) ∧ (∀ p, FT w (fRenA old new v p) → FT w p) ∧
      (∀ p, FA w (fRenA old new v p) → FA w p) := by
  refine ⟨fun p => FR_of_get p _ ?_, fun _ h => h, fun _ h => h⟩
  simp only [fRenA]
  rw [Rej.get_extend _ _ _ _ (by decide)]
  simp [attrGet_attrDel, attrGet_attrSet, Rej.ne_of_plain old RENAME_NAME ho isDiffKey_rename,
    Rej.ne_of_plain new RENAME_NAME hnw isDiffKey_rename]

/-! ### one handler other than a move -/

theorem targets_single (sel : Once.Sel) (qn : QName) (p p1 : PState) (a : Action) (hp : applyUniq qn p a = .ok p1) :
    Once.targets sel qn p [a] =
      (match sel a with
        | some path => (match uniqueHit qn p.tree path with | .ok x => [x.id] | .error _ => [])
        | none => []) := by
  simp only [Once.targets, hp, List.append_nil]
  cases sel a with
  | none => rfl
  | some path => cases uniqueHit qn p.tree path <;> rfl

theorem mem_append_left' {α : Type} (a b : List α) : ∀ x ∈ a, x ∈ a ++ b := fun _ h => List.mem_append_left _ h

theorem step_J (qn : QName) (s : FState) (h : FOK s) (T : Tree) (nx : Nat) (σ : Nat → Nat)
    (r : Rel σ T (acc (cln accS) s.tree) nx s.next) (HR HT HA : List Nat) (J : JAll w σ s.tree T HR HT HA)
    (a : Action) (hsim : Simulated a) (hsu : SUAct qn T a) (hpn : PlainNames a) (htx : TextsOK a)
    (hor : OracleStep qn s a) (p1 : PState) (hp : applyUniq qn ⟨T, nx⟩ a = .ok p1) :
    ∃ s' σ', applyFmt qn s a = .ok s' ∧ Rel σ' p1.tree (acc (cln accS) s'.tree) p1.next s'.next ∧ FOK s' ∧
      JAll w σ' s'.tree p1.tree (HR ++ Once.targets Once.renSel qn ⟨T, nx⟩ [a])
        (HT ++ Once.targets Once.textSel qn ⟨T, nx⟩ [a]) (HA ++ Once.targets Once.tailSel qn ⟨T, nx⟩ [a]) := by
  obtain ⟨σ', q1, hq, r', hag, hnx⟩ := applyUniq_equiv_agree qn a σ T _ nx s.next r p1 hp
  have hsu' : SUAct qn (acc (cln accS) s.tree) a := by rw [r.eq]; exact suAct_mapId qn σ T a hsu
  obtain ⟨s', e1, e2, e3, e4⟩ := step_sim_all qn s h a hsim hsu' hpn htx hor q1 hq
  refine ⟨s', σ', e1, by rw [e2, e3]; exact r', e4, ?_⟩
  have tR := targets_single Once.renSel qn ⟨T, nx⟩ p1 a hp
  have tT := targets_single Once.textSel qn ⟨T, nx⟩ p1 a hp
  have tA := targets_single Once.tailSel qn ⟨T, nx⟩ p1 a hp
  rw [tR, tT, tA]
  have hU := r.eq
  -- the working-tree node a path resolves to stands for the patcher's node
  have hnode : ∀ path nd m x, SU qn path [T] x → uniqueHit qn T path = .ok nd → xresolve qn s.tree path = .ok m →
      m.id = σ nd.id ∧ nd.id ∈ ids T := by
    intro path nd m x hx hh hm
    have hxU : SU qn path [acc (cln accS) s.tree] (mapId σ x) := by
      have := su_mapId qn σ path [T] x hx
      simpa [hU] using this
    have hhU : uniqueHit qn (acc (cln accS) s.tree) path = .ok (mapId σ nd) := by
      rw [hU]; exact uniqueHit_mapId qn σ T path nd hh
    obtain ⟨m', m1, m2, _, _⟩ := hit_both qn accS s h.tok path (mapId σ nd) (mapId σ x) hxU hhU
    rw [hm] at m1
    injection m1 with m1
    subst m1
    exact ⟨by rw [← acc_id (cln accS) m, m2, mapId_id], mem_of_find nd.id T nd (uniqueHit_find qn T r.nd path nd hh)⟩
  -- a payload change
  have hmod : ∀ (path : Path) (nd m : Tree) (x : Tree) (f : Payload → Payload) (sg : List (List Seg))
      (HR' HT' HA' : List Nat), SU qn path [T] x → uniqueHit qn T path = .ok nd → xresolve qn s.tree path = .ok m →
      (∀ l ∈ ids p1.tree, l ∈ ids T) → s'.tree = (modifyNode { s with segs := sg } m.id f).tree →
      ((∀ p, FR (f p) → FR p) ∨ nd.id ∈ HR') → ((∀ p, FT w (f p) → FT w p) ∨ nd.id ∈ HT') →
      ((∀ p, FA w (f p) → FA w p) ∨ nd.id ∈ HA') →
      (∀ x ∈ HR, x ∈ HR') → (∀ x ∈ HT, x ∈ HT') → (∀ x ∈ HA, x ∈ HA') →
      JAll w σ' s'.tree p1.tree HR' HT' HA' := by
    intro path nd m x f sg HR' HT' HA' hx hh hm hsub hs' hR hT hA sR sT sA
    obtain ⟨hid, hin⟩ := hnode path nd m x hx hh hm
    rw [hs']
    exact jall_modify w σ σ' s.tree T p1.tree HR HT HA HR' HT' HA' m.id nd.id f h.tok.nodup hsub hag r.inj hin hid
      hR hT hA sR sT sA J
  cases a <;> simp only [Simulated] at hsim
  case deleteNode n =>
    obtain ⟨x, hx⟩ := hsu
    simp only [applyUniq, applyWith, bind, Except.bind] at hp
    cases hh : uniqueHit qn T n with
    | error e => rw [hh] at hp; cases hp
    | ok nd =>
      rw [hh] at hp
      simp only at hp
      split at hp
      · cases hp
      · simp only [Except.ok.injEq] at hp
        subst hp
        simp only [applyFmt, bind, Except.bind, pure, Except.pure] at e1
        split at e1
        · cases e1
        · next m hm =>
          simp only [Except.ok.injEq] at e1
          subst e1
          simp only [Once.renSel, Once.textSel, Once.tailSel, List.append_nil]
          exact hmod n nd m x markDel s.segs HR HT HA hx hh hm
            (fun l hl => (ids_remove_sublist nd.id T).subset hl) rfl
            (Or.inl (marks_markDel w).1) (Or.inl (marks_markDel w).2.1) (Or.inl (marks_markDel w).2.2)
            (fun _ h => h) (fun _ h => h) (fun _ h => h)
  case insertNode tgt tag pos =>
    obtain ⟨x, hx⟩ := hsu
    simp only [applyUniq, applyWith, bind, Except.bind] at hp
    cases hh : uniqueHit qn T tgt with
    | error e => rw [hh] at hp; cases hp
    | ok tg =>
      rw [hh] at hp
      simp only [Except.ok.injEq] at hp
      subst hp
      simp only [applyFmt, bind, Except.bind, pure, Except.pure] at e1
      split at e1
      · cases e1
      · next m hm =>
        simp only [Except.ok.injEq] at e1
        subst e1
        simp only [Once.renSel, Once.textSel, Once.tailSel, List.append_nil]
        obtain ⟨hid, hin⟩ := hnode tgt tg m x hx hh hm
        have hmin : m.id ∈ ids s.tree := by
          rw [hid]
          have : σ tg.id ∈ ids (acc (cln accS) s.tree) := by
            rw [hU, ids_mapId]; exact List.mem_map_of_mem hin
          exact (ids_acc_sublist _ _).subset this
        have hk : s.next ∉ ids s.tree := fun hm' => Nat.lt_irrefl _ (h.tok.fresh _ hm')
        have hT' : ∀ l ∈ ids (insertChild tg.id pos (.node nx (elemPayload tag) []) T), l ∈ ids T ∨ l = nx := by
          intro l hl
          rcases mem_ids_insertChild _ _ _ _ l hl with hl | hl
          · exact Or.inl hl
          · simp only [ids, idsL, List.mem_cons, List.mem_nil_iff, or_false, List.append_nil] at hl
            exact Or.inr hl
        have hnx' : σ' nx = s.next := by
          rw [hnx]; simp
        have hlt : ∀ l ∈ ids T, σ l ≠ s.next := fun l hl e => by
          have := r.fr' l hl
          omega
        refine ⟨?_, ?_, ?_⟩
        · exact jf_insert FR σ σ' s.tree T _ HR m.id _ s.next nx _ h.tok.nodup hmin hk hT' hag hnx' hlt
            (by simp [FR, attrGet, INSERT_NAME, RENAME_NAME, dname]) J.jr
        · exact jf_insert (FT w) σ σ' s.tree T _ HT m.id _ s.next nx _ h.tok.nodup hmin hk hT' hag hnx' hlt
            (by intro hc; exact hc ⟨fun c hc' => (by cases hc'), Nat.zero_le _, fun _ => rfl⟩) J.jt
        · exact jf_insert (FA w) σ σ' s.tree T _ HA m.id _ s.next nx _ h.tok.nodup hmin hk hT' hag hnx' hlt
            (by intro hc; exact hc ⟨fun c hc' => (by cases hc'), Nat.zero_le _, fun _ => rfl⟩) J.ja
  case renameNode n tag =>
    obtain ⟨x, hx⟩ := hsu
    simp only [applyUniq, applyWith, bind, Except.bind] at hp
    cases hh : uniqueHit qn T n with
    | error e => rw [hh] at hp; cases hp
    | ok nd =>
      rw [hh] at hp
      simp only [Except.ok.injEq] at hp
      subst hp
      simp only [applyFmt, bind, Except.bind, pure, Except.pure] at e1
      split at e1
      · cases e1
      · next m hm =>
        simp only [Except.ok.injEq] at e1
        subst e1
        simp only [Once.renSel, Once.textSel, Once.tailSel, hh, List.append_nil]
        exact hmod n nd m x (fRen tag) s.segs _ HT HA hx hh hm (fun l hl => by rwa [ids_modify] at hl) rfl
          (Or.inr (by simp)) (Or.inl (marks_fRen w tag).1) (Or.inl (marks_fRen w tag).2)
          (mem_append_left' _ _) (fun _ h => h) (fun _ h => h)
  case updateTextIn n t =>
    obtain ⟨x, hx⟩ := hsu
    simp only [applyUniq, applyWith, bind, Except.bind] at hp
    cases hh : uniqueHit qn T n with
    | error e => rw [hh] at hp; cases hp
    | ok nd =>
      rw [hh] at hp
      simp only [Except.ok.injEq] at hp
      subst hp
      simp only [applyFmt, bind, Except.bind, pure, Except.pure] at e1
      split at e1
      · cases e1
      · next m hm =>
        simp only [Once.renSel, Once.textSel, Once.tailSel, hh, List.append_nil]
        split at e1
        · simp only [Except.ok.injEq] at e1
          subst e1
          exact hmod n nd m x (fun p => { p with text := t }) s.segs HR _ HA hx hh hm
            (fun l hl => by rwa [ids_modify] at hl) rfl
            (Or.inl (fun _ h => h)) (Or.inr (by simp)) (Or.inl (fun _ h => h))
            (fun _ h => h) (mem_append_left' _ _) (fun _ h => h)
        · next hins =>
          have hins' : attrHas m.payload.attrs INSERT_NAME = false := by simpa using hins
          obtain ⟨d, more, hsg, hn, ho, hl, _⟩ := hor m hm hins'
          obtain ⟨hmk, _, _⟩ := makeDiffTags_eq false s h.base h.norep d more hsg hn ho hl
          rw [hmk] at e1
          simp only [Except.ok.injEq] at e1
          subst e1
          exact hmod n nd m x
            (fun p => { p with text := if (emitted (nonEmpty d)).isEmpty then none else some (emitted (nonEmpty d)) })
            more HR _ HA hx hh hm (fun l hl => by rwa [ids_modify] at hl) rfl
            (Or.inl (fun _ h => h)) (Or.inr (by simp)) (Or.inl (fun _ h => h))
            (fun _ h => h) (mem_append_left' _ _) (fun _ h => h)
  case updateTextAfter n t =>
    obtain ⟨x, hx⟩ := hsu
    simp only [applyUniq, applyWith, bind, Except.bind] at hp
    cases hh : uniqueHit qn T n with
    | error e => rw [hh] at hp; cases hp
    | ok nd =>
      rw [hh] at hp
      simp only [Except.ok.injEq] at hp
      subst hp
      simp only [applyFmt, bind, Except.bind, pure, Except.pure] at e1
      split at e1
      · cases e1
      · next m hm =>
        simp only [Once.renSel, Once.textSel, Once.tailSel, hh, List.append_nil]
        obtain ⟨d, more, hsg, hn, ho, hl, _⟩ := hor
        obtain ⟨hmk, _, _⟩ := makeDiffTags_eq true s h.base h.norep d more hsg hn ho hl
        rw [hmk] at e1
        simp only [Except.ok.injEq] at e1
        subst e1
        exact hmod n nd m x
          (fun p => { p with tail := if (emitted (nonEmpty d)).isEmpty then none else some (emitted (nonEmpty d)) })
          more HR HT _ hx hh hm (fun l hl => by rwa [ids_modify] at hl) rfl
          (Or.inl (fun _ h => h)) (Or.inl (fun _ h => h)) (Or.inr (by simp))
          (fun _ h => h) (fun _ h => h) (mem_append_left' _ _)
  case updateAttrib n name value =>
    obtain ⟨x, hx⟩ := hsu
    simp only [PlainNames] at hpn
    simp only [applyUniq, applyWith, bind, Except.bind] at hp
    cases hh : uniqueHit qn T n with
    | error e => rw [hh] at hp; cases hp
    | ok nd =>
      rw [hh] at hp
      simp only at hp
      split at hp
      · cases hp
      · simp only [Except.ok.injEq] at hp
        subst hp
        simp only [applyFmt, bind, Except.bind, pure, Except.pure] at e1
        split at e1
        · cases e1
        · next m hm =>
          split at e1
          · cases e1
          · next oldv _ =>
            simp only [Except.ok.injEq] at e1
            subst e1
            simp only [Once.renSel, Once.textSel, Once.tailSel, List.append_nil]
            have mk := marks_fUpd w name value oldv hpn
            exact hmod n nd m x (fUpd name value oldv) s.segs HR HT HA hx hh hm
              (fun l hl => by rwa [ids_modify] at hl) rfl (Or.inl mk.1) (Or.inl mk.2.1) (Or.inl mk.2.2)
              (fun _ h => h) (fun _ h => h) (fun _ h => h)
  case deleteAttrib n name =>
    obtain ⟨x, hx⟩ := hsu
    simp only [PlainNames] at hpn
    simp only [applyUniq, applyWith, bind, Except.bind] at hp
    cases hh : uniqueHit qn T n with
    | error e => rw [hh] at hp; cases hp
    | ok nd =>
      rw [hh] at hp
      simp only at hp
      split at hp
      · cases hp
      · simp only [Except.ok.injEq] at hp
        subst hp
        simp only [applyFmt, bind, Except.bind, pure, Except.pure] at e1
        split at e1
        · cases e1
        · next m hm =>
          split at e1
          · cases e1
          · simp only [Except.ok.injEq] at e1
            subst e1
            simp only [Once.renSel, Once.textSel, Once.tailSel, List.append_nil]
            have mk := marks_fDel w name hpn
            exact hmod n nd m x (fDel name) s.segs HR HT HA hx hh hm
              (fun l hl => by rwa [ids_modify] at hl) rfl (Or.inl mk.1) (Or.inl mk.2.1) (Or.inl mk.2.2)
              (fun _ h => h) (fun _ h => h) (fun _ h => h)
  case insertAttrib n name value =>
    obtain ⟨x, hx⟩ := hsu
    simp only [PlainNames] at hpn
    simp only [applyUniq, applyWith, bind, Except.bind] at hp
    cases hh : uniqueHit qn T n with
    | error e => rw [hh] at hp; cases hp
    | ok nd =>
      rw [hh] at hp
      simp only at hp
      split at hp
      · cases hp
      · simp only [Except.ok.injEq] at hp
        subst hp
        simp only [applyFmt, bind, Except.bind, pure, Except.pure] at e1
        split at e1
        · cases e1
        · next m hm =>
          simp only [Except.ok.injEq] at e1
          subst e1
          simp only [Once.renSel, Once.textSel, Once.tailSel, List.append_nil]
          have mk := marks_fAdd w name value hpn
          exact hmod n nd m x (fAdd name value) s.segs HR HT HA hx hh hm
            (fun l hl => by rwa [ids_modify] at hl) rfl (Or.inl mk.1) (Or.inl mk.2.1) (Or.inl mk.2.2)
            (fun _ h => h) (fun _ h => h) (fun _ h => h)
  case renameAttrib n old new =>
    obtain ⟨x, hx⟩ := hsu
    simp only [PlainNames] at hpn
    simp only [applyUniq, applyWith, bind, Except.bind] at hp
    cases hh : uniqueHit qn T n with
    | error e => rw [hh] at hp; cases hp
    | ok nd =>
      rw [hh] at hp
      simp only at hp
      split at hp
      · cases hp
      · split at hp
        · cases hp
        · simp only [Except.ok.injEq] at hp
          subst hp
          simp only [applyFmt, bind, Except.bind, pure, Except.pure] at e1
          split at e1
          · cases e1
          · next m hm =>
            split at e1
            · cases e1
            · next v _ =>
              simp only [Except.ok.injEq] at e1
              subst e1
              simp only [Once.renSel, Once.textSel, Once.tailSel, List.append_nil]
              have mk := marks_fRenA w old new v hpn.1 hpn.2
              exact hmod n nd m x (fRenA old new v) s.segs HR HT HA hx hh hm
                (fun l hl => by rwa [ids_modify] at hl) rfl (Or.inl mk.1) (Or.inl mk.2.1) (Or.inl mk.2.2)
                (fun _ h => h) (fun _ h => h) (fun _ h => h)
  case insertNamespace pfx uri =>
    simp only [applyUniq, applyWith, Except.ok.injEq] at hp
    subst hp
    simp only [applyFmt, pure, Except.pure, Except.ok.injEq] at e1
    subst e1
    simp only [Once.renSel, Once.textSel, Once.tailSel, List.append_nil]
    exact ⟨fun l hl p hp' hF => J.jr l hl p (by rw [← hag l hl]; exact hp') hF,
      fun l hl p hp' hF => J.jt l hl p (by rw [← hag l hl]; exact hp') hF,
      fun l hl p hp' hF => J.ja l hl p (by rw [← hag l hl]; exact hp') hF⟩
  case deleteNamespace pfx =>
    simp only [applyUniq, applyWith, Except.ok.injEq] at hp
    subst hp
    simp only [applyFmt, pure, Except.pure, Except.ok.injEq] at e1
    subst e1
    simp only [Once.renSel, Once.textSel, Once.tailSel, List.append_nil]
    exact ⟨fun l hl p hp' hF => J.jr l hl p (by rw [← hag l hl]; exact hp') hF,
      fun l hl p hp' hF => J.jt l hl p (by rw [← hag l hl]; exact hp') hF,
      fun l hl p hp' hF => J.ja l hl p (by rw [← hag l hl]; exact hp') hF⟩

end Acc
end XmlDiffModel
