/-
Lemmas about `getpath` / `resolve`: a path written by `getpath` selects exactly the node
it was written for, and nothing else - for every tree (no bound on size or depth), every
node test classification `qn`.
-/
import XmlDiffModel.Model.Path
import XmlDiffModel.Proofs.Tree

namespace XmlDiffModel

theorem classify_matches (qn : QName) (p : Payload) : (classify qn p).matches qn p = true := by
  unfold classify Test.matches
  cases hk : p.kind with
  | comment => simp
  | elem =>
    simp only
    cases hq : qn p.tag with
    | none => simp
    | some q => simp

theorem length_filter_zero {α : Type} (f : α → Bool) (l : List α) (h : (l.filter f).length = 0) :
    l.filter f = [] := List.eq_nil_of_length_eq_zero h

/-- The step written for `t` selects exactly `t` among `pre ++ t :: post`. -/
theorem resolveStep_stepOf (qn : QName) (pre post : List Tree) (t : Tree) :
    resolveStep qn (stepOf qn pre t post) (pre ++ t :: post) = [t] := by
  have hm := classify_matches qn t.payload
  by_cases h : (pre.filter fun s => (classify qn t.payload).matches qn s.payload).length +
      (post.filter fun s => (classify qn t.payload).matches qn s.payload).length = 0
  · have hb : (pre.filter fun s => (classify qn t.payload).matches qn s.payload) = [] :=
      length_filter_zero _ _ (by omega)
    have ha : (post.filter fun s => (classify qn t.payload).matches qn s.payload) = [] :=
      length_filter_zero _ _ (by omega)
    simp only [resolveStep, stepOf, h, if_true]
    rw [List.filter_append, List.filter_cons, if_pos hm, hb, ha]
    simp
  · simp only [resolveStep, stepOf, h, if_false]
    rw [List.filter_append, List.filter_cons, if_pos hm]
    simp

/-- Forcing `[1]` on a step that selected exactly one node still selects that node. -/
theorem resolveStep_force (qn : QName) (st : Step) (forest : List Tree) (t : Tree)
    (h : resolveStep qn st forest = [t]) :
    resolveStep qn { st with idx := some (st.idx.getD 1) } forest = [t] := by
  cases hi : st.idx with
  | some k =>
    have : ({ st with idx := some ((some k : Option Nat).getD 1) } : Step) = st := by
      cases st; simp_all
    rw [this]; exact h
  | none =>
    unfold resolveStep at h ⊢
    simp only [hi] at h
    simp [h]

theorem forceLastIdx_ne_nil (p : Path) (h : p ≠ []) : forceLastIdx p ≠ [] := by
  match p with
  | [] => exact absurd rfl h
  | [s] => simp [forceLastIdx]
  | s :: s' :: rest => simp [forceLastIdx]

theorem resolveL_cons_cons (qn : QName) (st st' : Step) (rest : Path) (forest : List Tree) :
    resolveL qn (st :: st' :: rest) forest =
      (resolveStep qn st forest).flatMap (fun t => resolveL qn (st' :: rest) t.kids) := by
  simp [resolveL]

theorem resolveL_single (qn : QName) (st : Step) (forest : List Tree) :
    resolveL qn [st] forest = resolveStep qn st forest := by
  simp [resolveL]

/-- What a successful `pathT` / `pathL` guarantees. -/
def PathGood (qn : QName) (i : Nat) (forest : List Tree) (path : Path) : Prop :=
  path ≠ [] ∧ ∃ sub : Tree, sub.id = i ∧ resolveL qn path forest = [sub] ∧
    resolveL qn (forceLastIdx path) forest = [sub]

mutual
  theorem pathT_good (qn : QName) (i : Nat) (pre post : List Tree) (t : Tree) (path : Path)
      (h : pathT qn i pre post t = some path) : PathGood qn i (pre ++ t :: post) path := by
    match t with
    | .node j p ks =>
      unfold pathT at h
      split at h
      · next hj =>
        cases h
        refine ⟨by simp, .node j p ks, hj, ?_, ?_⟩
        · rw [resolveL_single]; exact resolveStep_stepOf qn pre post _
        · simp only [forceLastIdx, resolveL_single]
          exact resolveStep_force qn _ _ _ (resolveStep_stepOf qn pre post _)
      · split at h
        · next rest hrest =>
          cases h
          obtain ⟨hne, sub, hid, h1, h2⟩ := pathL_good qn i [] ks rest hrest
          simp only [List.nil_append] at h1 h2
          have hstep := resolveStep_stepOf qn pre post (.node j p ks)
          match rest, hne with
          | st' :: rest', _ =>
            refine ⟨by simp, sub, hid, ?_, ?_⟩
            · rw [resolveL_cons_cons, hstep]
              simp [Tree.kids, h1]
            · have hf : forceLastIdx (stepOf qn pre (.node j p ks) post :: st' :: rest') =
                  stepOf qn pre (.node j p ks) post :: forceLastIdx (st' :: rest') := by
                simp [forceLastIdx]
              rw [hf]
              have hne' := forceLastIdx_ne_nil (st' :: rest') (by simp)
              match hfr : forceLastIdx (st' :: rest'), hne' with
              | a :: b, _ =>
                rw [resolveL_cons_cons, hstep]
                rw [hfr] at h2
                simp [Tree.kids, h2]
        · cases h
  theorem pathL_good (qn : QName) (i : Nat) (pre ks : List Tree) (path : Path)
      (h : pathL qn i pre ks = some path) : PathGood qn i (pre ++ ks) path := by
    match ks with
    | [] => simp [pathL] at h
    | t :: ts =>
      unfold pathL at h
      split at h
      · next p hp =>
        simp only [Option.some.injEq] at h
        subst h
        exact pathT_good qn i pre ts t _ hp
      · have := pathL_good qn i (pre ++ [t]) ts path h
        simpa using this
end

mutual
  theorem pathT_exists (qn : QName) (i : Nat) (pre post : List Tree) (t : Tree)
      (h : i ∈ Tree.ids t) : ∃ path, pathT qn i pre post t = some path := by
    match t with
    | .node j p ks =>
      unfold pathT
      split
      · exact ⟨_, rfl⟩
      · next hj =>
        simp only [Tree.ids, List.mem_cons] at h
        rcases h with h | h
        · exact absurd h.symm hj
        · obtain ⟨rest, hr⟩ := pathL_exists qn i [] ks h
          rw [hr]; exact ⟨_, rfl⟩
  theorem pathL_exists (qn : QName) (i : Nat) (pre ks : List Tree)
      (h : i ∈ Tree.idsL ks) : ∃ path, pathL qn i pre ks = some path := by
    match ks with
    | [] => simp [Tree.idsL] at h
    | t :: ts =>
      unfold pathL
      cases hp : pathT qn i pre ts t with
      | some p => exact ⟨p, rfl⟩
      | none =>
        simp only
        simp only [Tree.idsL, List.mem_append] at h
        rcases h with h | h
        · obtain ⟨p, hp'⟩ := pathT_exists qn i pre ts t h
          rw [hp] at hp'; cases hp'
        · exact pathL_exists qn i (pre ++ [t]) ts h
end

theorem forceLastIdx_last (p : Path) (h : p ≠ []) :
    ∃ s, (forceLastIdx p).getLast? = some s ∧ s.idx.isSome := by
  induction p with
  | nil => exact absurd rfl h
  | cons a rest ih =>
    match rest with
    | [] => exact ⟨{ a with idx := some (a.idx.getD 1) }, by simp [forceLastIdx], by simp⟩
    | b :: rest' =>
      obtain ⟨s, hs1, hs2⟩ := ih (by simp)
      refine ⟨s, ?_, hs2⟩
      have hne := forceLastIdx_ne_nil (b :: rest') (by simp)
      simp only [forceLastIdx]
      match hfr : forceLastIdx (b :: rest'), hne with
      | c :: d, _ =>
        rw [hfr] at hs1
        simpa [List.getLast?_cons_cons] using hs1

/-! ### the selected node is the one `find` returns -/

mutual
  theorem pathT_none_find (qn : QName) (i : Nat) (pre post : List Tree) (t : Tree)
      (h : pathT qn i pre post t = none) : Tree.find i t = none := by
    apply Tree.find_none
    intro hm
    obtain ⟨p, hp⟩ := pathT_exists qn i pre post t hm
    rw [h] at hp; cases hp
end

/-- `PathGood` with the selected node identified as `find`'s result. -/
def PathFind (qn : QName) (i : Nat) (forest : List Tree) (path : Path) (sub : Tree) : Prop :=
  path ≠ [] ∧ resolveL qn path forest = [sub] ∧ resolveL qn (forceLastIdx path) forest = [sub]

mutual
  theorem pathT_find (qn : QName) (i : Nat) (pre post : List Tree) (t : Tree) (path : Path)
      (h : pathT qn i pre post t = some path) :
      ∃ sub, Tree.find i t = some sub ∧ PathFind qn i (pre ++ t :: post) path sub := by
    match t with
    | .node j p ks =>
      unfold pathT at h
      split at h
      · next hj =>
        cases h
        refine ⟨.node j p ks, by simp [Tree.find, hj], by simp, ?_, ?_⟩
        · rw [resolveL_single]; exact resolveStep_stepOf qn pre post _
        · simp only [forceLastIdx, resolveL_single]
          exact resolveStep_force qn _ _ _ (resolveStep_stepOf qn pre post _)
      · next hj =>
        split at h
        · next rest hrest =>
          cases h
          obtain ⟨sub, hfind, hne, h1, h2⟩ := pathL_find qn i [] ks rest hrest
          simp only [List.nil_append] at h1 h2
          have hstep := resolveStep_stepOf qn pre post (.node j p ks)
          refine ⟨sub, by simp [Tree.find, hj, hfind], ?_⟩
          match rest, hne with
          | st' :: rest', _ =>
            refine ⟨by simp, ?_, ?_⟩
            · rw [resolveL_cons_cons, hstep]
              simp [Tree.kids, h1]
            · have hf : forceLastIdx (stepOf qn pre (.node j p ks) post :: st' :: rest') =
                  stepOf qn pre (.node j p ks) post :: forceLastIdx (st' :: rest') := by
                simp [forceLastIdx]
              rw [hf]
              have hne' := forceLastIdx_ne_nil (st' :: rest') (by simp)
              match hfr : forceLastIdx (st' :: rest'), hne' with
              | a :: b, _ =>
                rw [resolveL_cons_cons, hstep]
                rw [hfr] at h2
                simp [Tree.kids, h2]
        · cases h
  theorem pathL_find (qn : QName) (i : Nat) (pre ks : List Tree) (path : Path)
      (h : pathL qn i pre ks = some path) :
      ∃ sub, Tree.findL i ks = some sub ∧ PathFind qn i (pre ++ ks) path sub := by
    match ks with
    | [] => simp [pathL] at h
    | t :: ts =>
      unfold pathL at h
      split at h
      · next p hp =>
        simp only [Option.some.injEq] at h
        subst h
        obtain ⟨sub, hf, hg⟩ := pathT_find qn i pre ts t _ hp
        exact ⟨sub, by simp [Tree.findL, hf], hg⟩
      · next hnone =>
        obtain ⟨sub, hf, hg⟩ := pathL_find qn i (pre ++ [t]) ts path h
        refine ⟨sub, ?_, by simpa using hg⟩
        simp [Tree.findL, pathT_none_find qn i pre ts t hnone, hf]
end

/-- `getpath` of node `i` resolves to exactly the subtree `find i` returns. -/
theorem getpath_resolve_find (qn : QName) (t : Tree) (i : Nat) (p : Path)
    (h : getpath qn t i = some p) : ∃ sub, Tree.find i t = some sub ∧ resolve qn t p = [sub] := by
  unfold getpath at h
  cases hp : pathT qn i [] [] t with
  | none => simp [hp] at h
  | some path =>
    simp only [hp, Option.map_some, Option.some.injEq] at h
    subst h
    obtain ⟨sub, hf, _, _, h2⟩ := pathT_find qn i [] [] t path hp
    exact ⟨sub, hf, by simpa [resolve] using h2⟩

end XmlDiffModel
