/-
C11 round trip, part 2: placeholder texts as alternating lists (placeholder, plain text), what `split_string` and the
scan for the closing placeholder do with them.
-/
import XmlDiffModel.Proofs.Undo1

namespace XmlDiffModel
namespace Undo
open Tree

/-- a placeholder text after its leading plain text: placeholder characters, each followed by a plain text -/
abbrev Alt := List (Char × Str)

def piecesOf : Alt → List (Sum Str Char)
  | [] => []
  | (c, s) :: rest => Sum.inr c :: Sum.inl s :: piecesOf rest

def flatAlt : Alt → Str
  | [] => []
  | (c, s) :: rest => c :: (s ++ flatAlt rest)

theorem piecesOf_append (a b : Alt) : piecesOf (a ++ b) = piecesOf a ++ piecesOf b := by
  induction a with
  | nil => rfl
  | cons x xs ih => obtain ⟨c, s⟩ := x; simp [piecesOf, ih]

theorem flatAlt_append (a b : Alt) : flatAlt (a ++ b) = flatAlt a ++ flatAlt b := by
  induction a with
  | nil => rfl
  | cons x xs ih => obtain ⟨c, s⟩ := x; simp [flatAlt, ih]

/-- every placeholder of the list is one, every text is plain -/
def AltOK (st : PhSt) (alt : Alt) : Prop := ∀ x ∈ alt, st.isPh x.1 = true ∧ PlainFor st x.2

theorem splitPh_plain_prefix (st : PhSt) (t r cur : Str) (acc : List (Sum Str Char)) (h : PlainFor st t) :
    splitPh st (t ++ r) cur acc = splitPh st r (t.reverse ++ cur) acc := by
  induction t generalizing cur with
  | nil => rfl
  | cons c rest ih =>
    simp only [List.cons_append, splitPh, h c (by simp), Bool.false_eq_true, if_false]
    rw [ih _ (fun x hx => h x (by simp [hx]))]
    simp

theorem splitPh_alt (st : PhSt) (alt : Alt) (h : AltOK st alt) (t cur : Str) (acc : List (Sum Str Char))
    (ht : PlainFor st t) :
    splitPh st (t ++ flatAlt alt) cur acc = acc.reverse ++ Sum.inl (cur.reverse ++ t) :: piecesOf alt := by
  induction alt generalizing t cur acc with
  | nil =>
    simp only [flatAlt, List.append_nil, piecesOf]
    rw [splitPh_plain st t cur acc ht]
    simp
  | cons x rest ih =>
    obtain ⟨c, s⟩ := x
    obtain ⟨hc, hs⟩ := h (c, s) (by simp)
    simp only [flatAlt]
    rw [splitPh_plain_prefix st t _ cur acc ht]
    simp only [splitPh, hc, if_true]
    rw [ih (fun y hy => h y (by simp [hy])) s [] _ hs]
    simp [piecesOf]

theorem splitPh_alt0 (st : PhSt) (alt : Alt) (h : AltOK st alt) (t : Str) (ht : PlainFor st t) :
    splitPh st (t ++ flatAlt alt) [] [] = Sum.inl t :: piecesOf alt := by
  have := splitPh_alt st alt h t [] [] ht
  simpa using this

/-- the scan for a closing placeholder that does not occur in the list in front of it, when no opening placeholder in
front of it closes with the same one (the depth counter stays at 0) -/
theorem collectUntil_alt (st : PhSt) (C : Nat) (alt : Alt) (hno : ∀ x ∈ alt, x.1.toNat ≠ C)
    (hop : ∀ x ∈ alt, ∀ e, st.entryOf x.1.toNat = some e → ¬ (e.role = .open ∧ e.closePh = some C))
    (cl : Char) (hcl : cl.toNat = C) (t acc : Str) (rest : List (Sum Str Char)) :
    collectUntil st (some C) 0 (Sum.inl t :: piecesOf alt ++ Sum.inr cl :: rest) acc =
      .ok (acc ++ t ++ flatAlt alt, rest) := by
  induction alt generalizing t acc with
  | nil =>
    simp only [piecesOf, List.cons_append, List.nil_append, collectUntil, hcl, if_true, flatAlt, List.append_nil]
  | cons x xs ih =>
    obtain ⟨c, s⟩ := x
    have hc : c.toNat ≠ C := hno (c, s) (by simp)
    simp only [piecesOf, List.cons_append]
    rw [collectUntil, collectUntil]
    have : ¬ (some c.toNat = some C) := fun e => hc (Option.some.inj e)
    rw [if_neg this]
    have key := ih (fun y hy => hno y (by simp [hy])) (fun y hy => hop y (by simp [hy])) s (acc ++ t ++ [c])
    simp only [List.cons_append] at key
    cases he : st.entryOf c.toNat with
    | none =>
      simp only []
      rw [key]
      simp [flatAlt]
    | some e =>
      have hne := hop (c, s) (by simp) e he
      simp only [hne, if_false]
      rw [key]
      simp [flatAlt]

/-! ### the loop of `undo_string`, one piece at a time -/

theorem segs_nil (f : Nat) (st : PhSt) (de : List (Nat × Tree)) (rt : Option Str) (kids : List Tree) :
    undoSegs f st de [] rt kids = .ok (rt, kids.reverse) := by
  rw [undoSegs.eq_def]

theorem segs_text_empty (f : Nat) (st : PhSt) (de : List (Nat × Tree)) (rest : List (Sum Str Char))
    (rt : Option Str) (kids : List Tree) :
    undoSegs f st de (Sum.inl [] :: rest) rt kids = undoSegs f st de rest rt kids := by
  rw [undoSegs.eq_def]; simp

theorem segs_text_first (f : Nat) (st : PhSt) (de : List (Nat × Tree)) (s : Str) (hs : s ≠ [])
    (rest : List (Sum Str Char)) (rt : Option Str) :
    undoSegs f st de (Sum.inl s :: rest) rt [] =
      undoSegs f st de rest (if (strOf rt).isEmpty then some s else rt) [] := by
  have : s.isEmpty = false := by cases s <;> simp_all
  rw [undoSegs.eq_def]; simp [this]

theorem segs_text_tail (f : Nat) (st : PhSt) (de : List (Nat × Tree)) (s : Str) (hs : s ≠ [])
    (rest : List (Sum Str Char)) (rt : Option Str) (k : Tree) (ks : List Tree) :
    undoSegs f st de (Sum.inl s :: rest) rt (k :: ks) =
      undoSegs f st de rest rt ((if (strOf k.payload.tail).isEmpty then setTailT (some s) k else k) :: ks) := by
  have : s.isEmpty = false := by cases s <;> simp_all
  rw [undoSegs.eq_def]; simp [this]

theorem segs_single (f : Nat) (st : PhSt) (de : List (Nat × Tree)) (c : Char) (e : PhEntry) (obj el2 : Tree)
    (x : List Tree) (rest : List (Sum Str Char)) (rt : Option Str) (kids : List Tree)
    (he : st.entryOf c.toNat = some e) (hr : e.role = .single) (ho : st.elemOf e de = some obj)
    (hu : undoElement f st de (eraseIds obj) = .ok (el2, x)) :
    undoSegs (f + 1) st de (Sum.inr c :: rest) rt kids = undoSegs f st de rest rt (el2 :: kids) := by
  rw [undoSegs.eq_def]
  simp only [he, ho, hr, hu]

theorem segs_open (f : Nat) (st : PhSt) (de : List (Nat × Tree)) (c : Char) (e : PhEntry) (obj el2 : Tree)
    (x : List Tree) (rest rest' : List (Sum Str Char)) (inner : Str) (rt : Option Str) (kids : List Tree)
    (he : st.entryOf c.toNat = some e) (hr : e.role = .open) (ho : st.elemOf e de = some obj)
    (hc : collectUntil st e.closePh 0 rest [] = .ok (inner, rest'))
    (hu : undoElement f st de
      (setTailT none (setText (if inner.isEmpty then none else some inner) (eraseIds obj))) = .ok (el2, x)) :
    undoSegs (f + 1) st de (Sum.inr c :: rest) rt kids = undoSegs f st de rest' rt (el2 :: kids) := by
  rw [undoSegs.eq_def]
  simp only [he, ho, hr, hc, hu]

end Undo
end XmlDiffModel
