/-
Script generation reaches the right document, part 6: the delete phase and the final comparison.
-/
import XmlDiffModel.Proofs.Chaw5

namespace XmlDiffModel
namespace Chw
open Tree

/-! ### documents equal as values, up to attribute order and ignored attributes -/

mutual
  def docEq (ign : List Str) : Tree → Tree → Prop
    | .node _ p ks, .node _ q ls => PayEq ign p q ∧ docEqL ign ks ls
  def docEqL (ign : List Str) : List Tree → List Tree → Prop
    | [], [] => True
    | a :: as, b :: bs => docEq ign a b ∧ docEqL ign as bs
    | _, _ => False
end

/-- the working copy and the right tree have the same shape along the partner map `g`, with equal payloads -/
theorem iso_docEq (ign : List Str) (W R : Tree) (hWn : (ids W).Nodup) (hRn : (ids R).Nodup) (g : Nat → Nat)
    (hiso : ∀ z n, find z R = some n → ∃ w, find (g z) W = some w ∧ PayEq ign w.payload n.payload ∧
      w.kids.map Tree.id = n.kids.map (fun b => g b.id)) :
    ∀ n, find n.id R = some n → ∀ w, find (g n.id) W = some w → docEq ign w n := by
  intro n
  induction n using Tree.rec (motive_2 := fun ls => ∀ ks : List Tree, (∀ b ∈ ls, find b.id R = some b) →
      ks.map Tree.id = ls.map (fun b => g b.id) → (∀ a ∈ ks, find a.id W = some a) → docEqL ign ks ls) with
  | node j q ls ih =>
    intro hn w hw
    obtain ⟨w', hw', hp, hk⟩ := hiso j _ hn
    simp only [Tree.id] at hw
    rw [hw] at hw'
    injection hw' with hw'
    subst hw'
    cases w with
    | node i p ks =>
      simp only [docEq]
      refine ⟨hp, ih ks ?_ hk ?_⟩
      · intro b hb
        exact find_of_sub R hRn j _ hn b hb
      · intro a ha
        exact find_of_sub W hWn (g j) _ hw a ha
  | nil =>
    rename_i ks _ hk _
    cases ks with
    | nil => simp [docEqL]
    | cons a as => simp at hk
  | cons b bs ihb ihbs =>
    rename_i ks hR hk hW
    cases ks with
    | nil => simp at hk
    | cons a as =>
      simp only [List.map_cons, List.cons.injEq] at hk
      simp only [docEqL]
      refine ⟨ihb (hR b List.mem_cons_self) a ?_, ihbs as (fun c hc => hR c (List.mem_cons_of_mem _ hc)) hk.2
        (fun c hc => hW c (List.mem_cons_of_mem _ hc))⟩
      rw [← hk.1]
      exact hW a List.mem_cons_self

/-! ### the delete phase -/

mutual
  theorem mem_revPostOrder (t : Tree) (i : Nat) (h : i ∈ ids t) : i ∈ revPostOrder t := by
    match t with
    | .node j p ks =>
      simp only [ids, List.mem_cons] at h
      simp only [revPostOrder, List.mem_append, List.mem_singleton]
      rcases h with h | h
      · exact Or.inr h
      · exact Or.inl (mem_revPostOrderL ks i h)
  theorem mem_revPostOrderL (ts : List Tree) (i : Nat) (h : i ∈ idsL ts) : i ∈ revPostOrderL ts := by
    match ts with
    | [] => simp [idsL] at h
    | t :: rest =>
      simp only [idsL, List.mem_append] at h
      simp only [revPostOrderL, List.mem_append]
      rcases h with h | h
      · exact Or.inr (mem_revPostOrder t i h)
      · exact Or.inl (mem_revPostOrderL rest i h)
end

/-- below a node without partner there are only nodes without partner, if partners have partners as parents -/
theorem unmatched_below (W : Tree) (hn : (ids W).Nodup) (matched : Nat → Prop)
    (HW : ∀ c p, c ∈ kidIds W p → matched c → matched p) :
    ∀ n, find n.id W = some n → ¬ matched n.id → ∀ j ∈ ids n, ¬ matched j := by
  intro n
  induction n using Tree.rec (motive_2 := fun ks => ∀ p, (∀ k ∈ ks, find k.id W = some k) →
      (∀ k ∈ ks, k.id ∈ kidIds W p) → ¬ matched p → ∀ j ∈ idsL ks, ¬ matched j) with
  | node i q ks ih =>
    intro hf hnm j hj
    simp only [ids, List.mem_cons] at hj
    rcases hj with e | e
    · rw [e]; exact hnm
    · refine ih i ?_ ?_ hnm j e
      · intro k hk; exact find_of_sub W hn i _ hf k hk
      · intro k hk
        simp only [Tree.id] at hf
        unfold kidIds; rw [hf]
        exact List.mem_map.mpr ⟨k, hk, rfl⟩
  | nil => rename_i p _ _ _ j hj; simp [idsL] at hj
  | cons k rest ihk ihr =>
    rename_i p hfk hkid hnm j hj
    intro hm
    simp only [idsL, List.mem_append] at hj
    rcases hj with e | e
    · have hk1 := hfk k List.mem_cons_self
      have hk2 := hkid k List.mem_cons_self
      exact ihk hk1 (fun hm' => hnm (HW k.id p hk2 hm')) j e hm
    · exact ihr p (fun c hc => hfk c (List.mem_cons_of_mem _ hc)) (fun c hc => hkid c (List.mem_cons_of_mem _ hc)) hnm j e hm

/-- state of the delete phase relative to the working copy `W1` it started from: `Rm` = nodes removed so far -/
structure DInv (W1 : Tree) (ms : Matches) (W : Tree) (Rm : List Nat) : Prop where
  nodup : (ids W).Nodup
  rootId : W.id = W1.id
  keep : ∀ lx, lx ∈ lefts ms → lx ∈ ids W ∧ payOf W lx = payOf W1 lx ∧
    kidIds W lx = (kidIds W1 lx).filter (fun c => !Rm.contains c)
  gone : ∀ c ∈ Rm, c ∉ lefts ms

theorem deleteAll_inv (qn : QName) (W1 : Tree) (hW1 : (ids W1).Nodup) (ms : Matches)
    (hpar : ∀ c, c ∈ lefts ms → c ≠ W1.id → ∃ lq, lq ∈ lefts ms ∧ c ∈ kidIds W1 lq)
    (ls : List Nat) (s s' : DState) (Rm : List Nat) (hms : s.ms = ms) (d : DInv W1 ms s.left Rm)
    (h : deleteAll qn ls s = .ok s') :
    ∃ Rm', DInv W1 ms s'.left Rm' ∧ (∀ c ∈ ls, c ∉ lefts ms → c ∈ Rm') ∧ (∀ c ∈ Rm, c ∈ Rm') := by
  induction ls generalizing s Rm with
  | nil =>
    simp only [deleteAll, Except.ok.injEq] at h
    subst h
    exact ⟨Rm, d, (fun _ hc => by cases hc), fun _ hc => hc⟩
  | cons l rest ih =>
    unfold deleteAll at h
    cases hl : l2rGet s.ms l with
    | some r =>
      rw [hl] at h
      simp only at h
      obtain ⟨Rm', d', h1, h2⟩ := ih s Rm hms d h
      refine ⟨Rm', d', ?_, h2⟩
      intro c hc hcm
      rcases List.mem_cons.mp hc with e | e
      · exfalso; apply hcm; rw [e, ← hms]
        exact mem_lefts s.ms l r (l2rGet_mem s.ms l r hl)
      · exact h1 c e hcm
    | none =>
      rw [hl] at h
      simp only [bind, Except.bind] at h
      split at h
      · cases h
      · next p hp =>
        split at h
        · simp [throw, throwThe, MonadExceptOf.throw] at h
        · next hnr =>
          have hlm : l ∉ lefts ms := by
            intro hm
            rw [← hms] at hm
            obtain ⟨r, hr⟩ := l2rGet_some_of_mem s.ms l hm
            rw [hr] at hl; cases hl
          have hkeepf : ∀ (lx : Nat) (K : List Nat), K.filter (fun c => !(l :: Rm).contains c) =
              (K.filter (fun c => !Rm.contains c)).filter (fun c => c != l) := by
            intro lx K
            rw [List.filter_filter]
            apply Ord.filter_congr'
            intro c _
            by_cases hcl : c = l <;> simp [hcl]
          have d1 : DInv W1 ms (s.left.remove l) (l :: Rm) := by
            by_cases hin : l ∈ ids s.left
            · obtain ⟨sub, hsub⟩ := find_some_of_mem l s.left hin
              -- partners have partners as parents, in the current tree as well
              have HW : ∀ c p, c ∈ kidIds s.left p → c ∈ lefts ms → p ∈ lefts ms := by
                intro c p hc hcm
                have hcr : c ≠ W1.id := by
                  intro e
                  have := (parId_iff _ d.nodup c p).mpr hc
                  rw [e, ← d.rootId, root_no_parent _ d.nodup] at this
                  cases this
                obtain ⟨lq, hlq, hclq⟩ := hpar c hcm hcr
                have : c ∈ kidIds s.left lq := by
                  rw [(d.keep lq hlq).2.2, List.mem_filter]
                  refine ⟨hclq, ?_⟩
                  simp only [Bool.not_eq_true', List.contains_eq_mem, decide_eq_false_iff_not]
                  exact fun hr => d.gone c hr hcm
                rw [parent_unique _ d.nodup c p lq hc this]; exact hlq
              have hsubid : sub.id = l := find_id l s.left sub hsub
              have hbelow := unmatched_below s.left d.nodup (· ∈ lefts ms) HW sub (hsubid ▸ hsub) (hsubid ▸ hlm)
              refine ⟨(ids_remove_sublist l s.left).nodup d.nodup, by rw [id_remove]; exact d.rootId, ?_, ?_⟩
              · intro lx hlx
                have hout : lx ∉ ids sub := fun hm => hbelow lx hm hlx
                obtain ⟨k1, k2, k3⟩ := d.keep lx hlx
                refine ⟨(mem_ids_remove l s.left sub d.nodup hsub hnr lx).mpr ⟨k1, hout⟩, ?_, ?_⟩
                · rw [payOf_remove l s.left sub d.nodup hsub hnr lx hout]; exact k2
                · rw [kidIds_remove l s.left sub d.nodup hsub hnr lx hout, k3, hkeepf lx]
                  exact List.Nodup.erase_eq_filter ((kidIds_nodup W1 hW1 lx).filter _) l
              · intro c hc
                rcases List.mem_cons.mp hc with e | e
                · rw [e]; exact hlm
                · exact d.gone c e
            · -- not there any more: nothing changes
              rw [remove_not_mem l s.left hin]
              refine ⟨d.nodup, d.rootId, ?_, ?_⟩
              · intro lx hlx
                obtain ⟨k1, k2, k3⟩ := d.keep lx hlx
                refine ⟨k1, k2, ?_⟩
                rw [hkeepf lx, ← k3]
                symm
                rw [List.filter_eq_self]
                intro c hc
                simp only [bne_iff_ne, ne_eq]
                exact fun e => hin (e ▸ (kidIds_sub _ lx c hc).1)
              · intro c hc
                rcases List.mem_cons.mp hc with e | e
                · rw [e]; exact hlm
                · exact d.gone c e
          obtain ⟨Rm', d', h1, h2⟩ := ih { s with left := s.left.remove l, out := .deleteNode p :: s.out } (l :: Rm) hms d1 h
          refine ⟨Rm', d', ?_, fun c hc => h2 c (List.mem_cons_of_mem _ hc)⟩
          intro c hc hcm
          rcases List.mem_cons.mp hc with e | e
          · rw [e]; exact h2 l List.mem_cons_self
          · exact h1 c e hcm

/-! ### the final working copy is the right document -/

theorem scriptGen_final (qn : QName) (cfg : Cfg) (L R : Tree) (M : List (Nat × Nat)) (fresh : Nat)
    (script : List Action) (final : Tree)
    (hL : (ids L).Nodup) (hRn : (ids R).Nodup) (hdisj : ∀ i ∈ ids L, i ∉ ids R)
    (hfL : ∀ i ∈ ids L, i < fresh) (hfR : ∀ i ∈ ids R, i < fresh) (hM : GoodMatching L R M)
    (hA : ∀ x ∈ bfs R, (keys x.payload.attrs).Nodup)
    (hC : ∀ x ∈ bfs R, x.payload.kind = .comment → x.payload.tag = [])
    (h : scriptGen qn cfg L R M fresh = .ok (script, final)) : docEq cfg.ignored final R := by
  unfold scriptGen at h
  simp only [bind, Except.bind, pure, Except.pure] at h
  split at h
  · cases h
  · next s1 hs1 =>
    split at h
    · cases h
    · next s2 hs2 =>
      simp only [Except.ok.injEq, Prod.mk.injEq] at h
      obtain ⟨_, hfin⟩ := h
      subst hfin
      have inv0 := init_inv cfg.ignored L R M fresh hL hdisj hfL hfR hM
      obtain ⟨D, hD, inv⟩ := visitAll_inv cfg qn R hRn hA hC (bfs R) [] (by simp) _ s1 [] (by simp) inv0 hs1
      -- every right node is visited
      have E1 : ∀ y, y ∈ ids R → ∃ l pl pr, r2lGet s1.ms y = some l ∧ payOf s1.left l = some pl ∧
          payOf R y = some pr ∧ PayEq cfg.ignored pl pr ∧ (y ≠ R.id → y ∈ s1.inorder) :=
        fun y hy => inv.vis y ((hD y).mpr hy)
      have hrootM : r2lGet s1.ms R.id = some s1.left.id := r2lGet_of_mem s1.ms inv.mR _ _ inv.mroot
      -- a matched node other than the root is in order, hence at home
      have hinorder : ∀ c y, (c, y) ∈ s1.ms → c ≠ s1.left.id → y ∈ s1.inorder := by
        intro c y hcy hcr
        have hyR := (inv.mdom _ hcy).2
        obtain ⟨_, _, _, _, _, _, _, hio⟩ := E1 y hyR
        apply hio
        intro e
        have := r2lGet_of_mem s1.ms inv.mR c y hcy
        rw [e, hrootM] at this
        injection this with this
        exact hcr this.symm
      have hpar : ∀ c, c ∈ lefts s1.ms → c ≠ s1.left.id → ∃ lq, lq ∈ lefts s1.ms ∧ c ∈ kidIds s1.left lq := by
        intro c hc hcr
        obtain ⟨r, hr⟩ := l2rGet_some_of_mem s1.ms c hc
        have hcy := l2rGet_mem s1.ms c r hr
        obtain ⟨q, lq, _, h2, h3⟩ := inv.home _ hcy (hinorder c r hcy hcr)
        exact ⟨lq, mem_lefts s1.ms lq q (r2lGet_mem s1.ms q lq h2), (parId_iff _ inv.wf c lq).mp h3⟩
      have d0 : DInv s1.left s1.ms s1.left [] := by
        refine ⟨inv.wf, rfl, ?_, fun c hc => by cases hc⟩
        intro lx hlx
        obtain ⟨p, hp, e⟩ := List.mem_map.mp hlx
        refine ⟨e ▸ (inv.mdom p hp).1, rfl, ?_⟩
        symm
        rw [List.filter_eq_self]
        intro c _; simp
      obtain ⟨Rm, d, hcov, _⟩ := deleteAll_inv qn s1.left inv.wf s1.ms hpar (revPostOrder s1.left) s1 s2 [] rfl d0 hs2
      -- the children tables of the final tree
      have hkidsfinal : ∀ l z, (l, z) ∈ s1.ms → kidIds s2.left l = (kidIds R z).map (psi s1.ms) := by
        intro l z hlz
        have hlm := mem_lefts s1.ms l z hlz
        rw [(d.keep l hlm).2.2]
        have e1 : (kidIds s1.left l).filter (fun c => !Rm.contains c) = (kidIds s1.left l).filter (ioB s1.inorder) := by
          apply Ord.filter_congr'
          intro c hc
          have hcW := (kidIds_sub _ l c hc).1
          have hcr : c ≠ s1.left.id := by
            intro e
            have := (parId_iff _ inv.wf c l).mpr hc
            rw [e, root_no_parent _ inv.wf] at this
            cases this
          have key : c ∈ s1.inorder ↔ c ∉ Rm := by
            constructor
            · intro hio hrm
              rcases inv.ioM c hio with hm | hm
              · exact d.gone c hrm hm
              · obtain ⟨p, hp, e⟩ := List.mem_map.mp hm
                exact inv.disj c hcW (e ▸ (inv.mdom p hp).2)
            · intro hrm
              have hcm : c ∈ lefts s1.ms := by
                by_cases hm : c ∈ lefts s1.ms
                · exact hm
                · exact absurd (hcov c (mem_revPostOrder _ c hcW) hm) hrm
              obtain ⟨r, hr⟩ := l2rGet_some_of_mem s1.ms c hcm
              have hcy := l2rGet_mem s1.ms c r hr
              exact (inv.ioPair _ hcy).mpr (hinorder c r hcy hcr)
          by_cases hio : c ∈ s1.inorder
          · have := key.mp hio
            simp [ioB, hio, this]
          · have : c ∈ Rm := by
              by_cases hrm : c ∈ Rm
              · exact hrm
              · exact absurd (key.mpr hrm) hio
            simp [ioB, hio, this]
        rw [e1, inv.ord _ hlz]
        congr 1
        rw [List.filter_eq_self]
        intro y hy
        have hyR := (kidIds_sub R z y hy).1
        obtain ⟨_, _, _, _, _, _, _, hio⟩ := E1 y hyR
        rw [ioB_iff]
        apply hio
        intro e
        have := (parId_iff R hRn y z).mpr hy
        rw [e, root_no_parent R hRn] at this
        cases this
      -- the isomorphism
      have hiso : ∀ z n, find z R = some n → ∃ w, find (psi s1.ms z) s2.left = some w ∧
          PayEq cfg.ignored w.payload n.payload ∧ w.kids.map Tree.id = n.kids.map (fun b => psi s1.ms b.id) := by
        intro z n hz
        have hzR : z ∈ ids R := (mem_ids_iff_find z R).mpr ⟨n, hz⟩
        obtain ⟨l, pl, pr, h1, h2, h3, h4, _⟩ := E1 z hzR
        have hlz := r2lGet_mem s1.ms z l h1
        have hlm := mem_lefts s1.ms l z hlz
        obtain ⟨k1, k2, _⟩ := d.keep l hlm
        obtain ⟨w, hw⟩ := find_some_of_mem l s2.left k1
        have hpsi : psi s1.ms z = l := by simp [psi, h1]
        refine ⟨w, by rw [hpsi]; exact hw, ?_, ?_⟩
        · have e1 : payOf s2.left l = some w.payload := by simp [payOf, hw]
          have e2 : payOf R z = some n.payload := by simp [payOf, hz]
          rw [k2, h2] at e1
          rw [h3] at e2
          injection e1 with e1; injection e2 with e2
          rw [← e1, ← e2]; exact h4
        · have e1 : w.kids.map Tree.id = kidIds s2.left l := by unfold kidIds; rw [hw]
          have e2 : kidIds R z = n.kids.map Tree.id := by unfold kidIds; rw [hz]
          rw [e1, hkidsfinal l z hlz, e2, List.map_map]
          rfl
      have hroot : find (psi s1.ms R.id) s2.left = some s2.left := by
        have : psi s1.ms R.id = s2.left.id := by simp [psi, hrootM, d.rootId]
        rw [this]; exact find_self _
      exact iso_docEq cfg.ignored s2.left R d.nodup hRn (psi s1.ms) hiso R (find_self R) s2.left hroot

end Chw
end XmlDiffModel
