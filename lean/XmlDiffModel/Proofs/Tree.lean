/-
Tree surgery lemmas: how `modify`, `remove`, `insertChild`, `find` act on the id list.
-/
import XmlDiffModel.Model.Tree

namespace XmlDiffModel.Tree

/-! ### modify -/

mutual
  theorem ids_modify (i : Nat) (f : Payload → Payload) (t : Tree) : ids (modify i f t) = ids t := by
    match t with
    | node j p ks =>
      unfold modify
      split
      · simp [ids]
      · simp only [ids]; rw [idsL_modifyL i f ks]
  theorem idsL_modifyL (i : Nat) (f : Payload → Payload) (ts : List Tree) :
      idsL (modifyL i f ts) = idsL ts := by
    match ts with
    | [] => simp [modifyL]
    | t :: ts =>
      simp only [modifyL, idsL]
      rw [ids_modify i f t, idsL_modifyL i f ts]
end

theorem id_modify (i : Nat) (f : Payload → Payload) (t : Tree) : (modify i f t).id = t.id := by
  cases t with
  | node j p ks => unfold modify; split <;> simp [Tree.id]

mutual
  theorem modify_not_mem (i : Nat) (f : Payload → Payload) (t : Tree) (h : i ∉ ids t) :
      modify i f t = t := by
    match t with
    | node j p ks =>
      simp only [ids, List.mem_cons, not_or] at h
      unfold modify
      rw [if_neg (fun e => h.1 e.symm), modifyL_not_mem i f ks h.2]
  theorem modifyL_not_mem (i : Nat) (f : Payload → Payload) (ts : List Tree) (h : i ∉ idsL ts) :
      modifyL i f ts = ts := by
    match ts with
    | [] => simp [modifyL]
    | t :: ts =>
      simp only [idsL, List.mem_append, not_or] at h
      simp only [modifyL]
      rw [modify_not_mem i f t h.1, modifyL_not_mem i f ts h.2]
end

/-! ### find -/

mutual
  theorem find_id (i : Nat) (t n : Tree) (h : find i t = some n) : n.id = i := by
    match t with
    | node j p ks =>
      unfold find at h
      split at h
      · next hj => cases h; exact hj
      · exact findL_id i ks n h
  theorem findL_id (i : Nat) (ts : List Tree) (n : Tree) (h : findL i ts = some n) : n.id = i := by
    match ts with
    | [] => simp [findL] at h
    | t :: ts =>
      unfold findL at h
      split at h
      · next r hr => cases h; exact find_id i t _ hr
      · exact findL_id i ts n h
end

mutual
  theorem find_none (i : Nat) (t : Tree) (h : i ∉ ids t) : find i t = none := by
    match t with
    | node j p ks =>
      simp only [ids, List.mem_cons, not_or] at h
      unfold find
      rw [if_neg (fun e => h.1 e.symm)]
      exact findL_none i ks h.2
  theorem findL_none (i : Nat) (ts : List Tree) (h : i ∉ idsL ts) : findL i ts = none := by
    match ts with
    | [] => simp [findL]
    | t :: ts =>
      simp only [idsL, List.mem_append, not_or] at h
      unfold findL
      rw [find_none i t h.1]
      exact findL_none i ts h.2
end

mutual
  theorem find_some_of_mem (i : Nat) (t : Tree) (h : i ∈ ids t) : ∃ n, find i t = some n := by
    match t with
    | node j p ks =>
      unfold find
      split
      · exact ⟨_, rfl⟩
      · next hj =>
        simp only [ids, List.mem_cons] at h
        rcases h with h | h
        · exact absurd h.symm hj
        · exact findL_some_of_mem i ks h
  theorem findL_some_of_mem (i : Nat) (ts : List Tree) (h : i ∈ idsL ts) : ∃ n, findL i ts = some n := by
    match ts with
    | [] => simp [idsL] at h
    | t :: ts =>
      unfold findL
      cases hf : find i t with
      | some r => exact ⟨r, rfl⟩
      | none =>
        simp only [idsL, List.mem_append] at h
        rcases h with h | h
        · obtain ⟨n, hn⟩ := find_some_of_mem i t h
          rw [hf] at hn; cases hn
        · exact findL_some_of_mem i ts h
end

mutual
  theorem find_ids_sublist (i : Nat) (t n : Tree) (h : find i t = some n) : (ids n).Sublist (ids t) := by
    match t with
    | node j p ks =>
      unfold find at h
      split at h
      · cases h; exact List.Sublist.refl _
      · simp only [ids]
        exact List.Sublist.cons _ (findL_ids_sublist i ks n h)
  theorem findL_ids_sublist (i : Nat) (ts : List Tree) (n : Tree) (h : findL i ts = some n) :
      (ids n).Sublist (idsL ts) := by
    match ts with
    | [] => simp [findL] at h
    | t :: ts =>
      unfold findL at h
      simp only [idsL]
      split at h
      · next r hr =>
        cases h
        exact (find_ids_sublist i t _ hr).trans (List.sublist_append_left _ _)
      · exact (findL_ids_sublist i ts n h).trans (List.sublist_append_right _ _)
end

/-! ### remove -/

mutual
  theorem ids_remove_sublist (i : Nat) (t : Tree) : (ids (remove i t)).Sublist (ids t) := by
    match t with
    | node j p ks =>
      simp only [remove, ids]
      exact List.Sublist.cons_cons _ (idsL_removeL_sublist i ks)
  theorem idsL_removeL_sublist (i : Nat) (ts : List Tree) : (idsL (removeL i ts)).Sublist (idsL ts) := by
    match ts with
    | [] => simp [removeL]
    | t :: ts =>
      simp only [removeL]
      split
      · simp only [idsL]; exact List.sublist_append_right _ _
      · simp only [idsL]
        exact List.Sublist.append (ids_remove_sublist i t) (idsL_removeL_sublist i ts)
end

theorem id_remove (i : Nat) (t : Tree) : (remove i t).id = t.id := by
  cases t with
  | node j p ks => simp [remove, Tree.id]

/-! ### insertChild -/

theorem idsL_append (a b : List Tree) : idsL (a ++ b) = idsL a ++ idsL b := by
  induction a with
  | nil => simp [idsL]
  | cons x xs ih => simp [idsL, ih]

theorem idsL_insertAt_perm (ks : List Tree) (pos : Nat) (sub : Tree) :
    (idsL (insertAt ks pos sub)).Perm (idsL ks ++ ids sub) := by
  unfold insertAt
  rw [idsL_append]
  simp only [idsL]
  have h : idsL ks = idsL (ks.take pos) ++ idsL (ks.drop pos) := by
    rw [← idsL_append, List.take_append_drop]
  rw [h]
  -- a ++ (s ++ d)  ~  (a ++ d) ++ s
  exact (List.perm_append_left_iff _).2 List.perm_append_comm |>.trans (List.append_assoc _ _ _ ▸ List.Perm.refl _)

theorem id_insertChild (i pos : Nat) (sub t : Tree) : (insertChild i pos sub t).id = t.id := by
  cases t with
  | node j p ks => unfold insertChild; split <;> simp [Tree.id]

mutual
  /-- Every id after an insertion comes from the tree or from the inserted subtree. -/
  theorem mem_ids_insertChild (i pos : Nat) (sub t : Tree) (x : Nat)
      (h : x ∈ ids (insertChild i pos sub t)) : x ∈ ids t ∨ x ∈ ids sub := by
    match t with
    | node j p ks =>
      unfold insertChild at h
      split at h
      · simp only [ids, List.mem_cons] at h ⊢
        rcases h with h | h
        · exact Or.inl (Or.inl h)
        · have := (idsL_insertAt_perm ks pos sub).mem_iff.1 h
          simp only [List.mem_append] at this
          rcases this with h | h
          · exact Or.inl (Or.inr h)
          · exact Or.inr h
      · simp only [ids, List.mem_cons] at h ⊢
        rcases h with h | h
        · exact Or.inl (Or.inl h)
        · rcases mem_idsL_insertChildL i pos sub ks x h with h | h
          · exact Or.inl (Or.inr h)
          · exact Or.inr h
  theorem mem_idsL_insertChildL (i pos : Nat) (sub : Tree) (ts : List Tree) (x : Nat)
      (h : x ∈ idsL (insertChildL i pos sub ts)) : x ∈ idsL ts ∨ x ∈ ids sub := by
    match ts with
    | [] => simp [insertChildL, idsL] at h
    | t :: ts =>
      simp only [insertChildL, idsL, List.mem_append] at h ⊢
      rcases h with h | h
      · rcases mem_ids_insertChild i pos sub t x h with h | h
        · exact Or.inl (Or.inl h)
        · exact Or.inr h
      · rcases mem_idsL_insertChildL i pos sub ts x h with h | h
        · exact Or.inl (Or.inr h)
        · exact Or.inr h
end

mutual
  theorem insertChild_not_mem (i pos : Nat) (sub t : Tree) (h : i ∉ ids t) :
      insertChild i pos sub t = t := by
    match t with
    | node j p ks =>
      simp only [ids, List.mem_cons, not_or] at h
      unfold insertChild
      rw [if_neg (fun e => h.1 e.symm), insertChildL_not_mem i pos sub ks h.2]
  theorem insertChildL_not_mem (i pos : Nat) (sub : Tree) (ts : List Tree) (h : i ∉ idsL ts) :
      insertChildL i pos sub ts = ts := by
    match ts with
    | [] => simp [insertChildL]
    | t :: ts =>
      simp only [idsL, List.mem_append, not_or] at h
      simp only [insertChildL]
      rw [insertChild_not_mem i pos sub t h.1, insertChildL_not_mem i pos sub ts h.2]
end

mutual
  /-- Inserting a subtree with fresh, distinct ids keeps ids distinct. -/
  theorem nodup_insertChild (i pos : Nat) (sub t : Tree) (ht : (ids t).Nodup) (hs : (ids sub).Nodup)
      (hd : ∀ x ∈ ids sub, x ∉ ids t) : (ids (insertChild i pos sub t)).Nodup := by
    match t with
    | node j p ks =>
      simp only [ids, List.nodup_cons] at ht
      unfold insertChild
      split
      · simp only [ids, List.nodup_cons]
        constructor
        · intro hm
          have := (idsL_insertAt_perm ks pos sub).mem_iff.1 hm
          simp only [List.mem_append] at this
          rcases this with h | h
          · exact ht.1 h
          · exact hd j h (by simp [ids])
        · apply (idsL_insertAt_perm ks pos sub).nodup_iff.2
          rw [List.nodup_append]
          refine ⟨ht.2, hs, ?_⟩
          intro a ha b hb hab
          subst hab
          exact hd a hb (by simp [ids, ha])
      · simp only [ids, List.nodup_cons]
        constructor
        · intro hm
          rcases mem_idsL_insertChildL i pos sub ks j hm with h | h
          · exact ht.1 h
          · exact hd j h (by simp [ids])
        · exact nodup_insertChildL i pos sub ks ht.2 hs (fun x hx hm => hd x hx (by simp [ids, hm]))
  theorem nodup_insertChildL (i pos : Nat) (sub : Tree) (ts : List Tree) (ht : (idsL ts).Nodup)
      (hs : (ids sub).Nodup) (hd : ∀ x ∈ ids sub, x ∉ idsL ts) :
      (idsL (insertChildL i pos sub ts)).Nodup := by
    match ts with
    | [] => simp [insertChildL, idsL]
    | t :: ts =>
      simp only [idsL, List.nodup_append] at ht
      obtain ⟨h1, h2, h3⟩ := ht
      have hd1 : ∀ x ∈ ids sub, x ∉ ids t := fun x hx hm => hd x hx (by simp [idsL, hm])
      have hd2 : ∀ x ∈ ids sub, x ∉ idsL ts := fun x hx hm => hd x hx (by simp [idsL, hm])
      by_cases hi : i ∈ ids t
      · -- the target is inside `t`; the rest is untouched
        have hni : i ∉ idsL ts := fun hm => h3 i hi i hm rfl
        simp only [insertChildL, idsL]
        rw [insertChildL_not_mem i pos sub ts hni, List.nodup_append]
        refine ⟨nodup_insertChild i pos sub t h1 hs hd1, h2, ?_⟩
        intro a ha b hb hab
        subst hab
        rcases mem_ids_insertChild i pos sub t a ha with h | h
        · exact h3 a h a hb rfl
        · exact hd2 a h hb
      · simp only [insertChildL, idsL]
        rw [insertChild_not_mem i pos sub t hi, List.nodup_append]
        refine ⟨h1, nodup_insertChildL i pos sub ts h2 hs hd2, ?_⟩
        intro a ha b hb hab
        subst hab
        rcases mem_idsL_insertChildL i pos sub ts a hb with h | h
        · exact h3 a ha a h rfl
        · exact hd1 a h ha
end

/-! ### detaching a subtree -/

mutual
  theorem remove_not_mem (i : Nat) (t : Tree) (h : i ∉ ids t) : remove i t = t := by
    match t with
    | node j p ks =>
      simp only [ids, List.mem_cons, not_or] at h
      simp only [remove]
      rw [removeL_not_mem i ks h.2]
  theorem removeL_not_mem (i : Nat) (ts : List Tree) (h : i ∉ idsL ts) : removeL i ts = ts := by
    match ts with
    | [] => simp [removeL]
    | t :: ts =>
      simp only [idsL, List.mem_append, not_or] at h
      simp only [removeL]
      have hid : t.id ≠ i := by
        intro e
        apply h.1
        cases t with
        | node j p ks => simp only [Tree.id] at e; simp [ids, e]
      rw [if_neg hid, remove_not_mem i t h.1, removeL_not_mem i ts h.2]
end

theorem find_self (t : Tree) : find t.id t = some t := by
  cases t with
  | node j p ks => simp [find, Tree.id]

theorem id_mem_ids (t : Tree) : t.id ∈ ids t := by
  cases t with
  | node j p ks => simp [ids, Tree.id]

mutual
  /-- Detaching the subtree found under id `i` splits the id list. -/
  theorem ids_remove_perm (i : Nat) (t sub : Tree) (hn : (ids t).Nodup) (hf : find i t = some sub)
      (hr : t.id ≠ i) : (ids t).Perm (ids (remove i t) ++ ids sub) := by
    match t with
    | node j p ks =>
      simp only [Tree.id] at hr
      unfold find at hf
      rw [if_neg hr] at hf
      simp only [ids, List.nodup_cons] at hn
      simp only [remove, ids, List.cons_append]
      exact List.Perm.cons _ (idsL_removeL_perm i ks sub hn.2 hf)
  theorem idsL_removeL_perm (i : Nat) (ts : List Tree) (sub : Tree) (hn : (idsL ts).Nodup)
      (hf : findL i ts = some sub) : (idsL ts).Perm (idsL (removeL i ts) ++ ids sub) := by
    match ts with
    | [] => simp [findL] at hf
    | t :: ts =>
      simp only [idsL, List.nodup_append] at hn
      obtain ⟨h1, h2, h3⟩ := hn
      unfold findL at hf
      by_cases hid : t.id = i
      · have : find i t = some t := hid ▸ find_self t
        rw [this] at hf
        simp only [Option.some.injEq] at hf
        subst hf
        simp only [removeL, hid, if_true, idsL]
        exact List.perm_append_comm
      · simp only [removeL, hid, if_false, idsL]
        cases hft : find i t with
        | some r =>
          rw [hft] at hf
          simp only [Option.some.injEq] at hf
          subst hf
          have hmem : i ∈ ids t := by
            have := (find_ids_sublist i t r hft).subset (id_mem_ids r)
            rwa [find_id i t r hft] at this
          have hni : i ∉ idsL ts := fun hm => h3 i hmem i hm rfl
          rw [removeL_not_mem i ts hni]
          have ih := ids_remove_perm i t r h1 hft hid
          -- ids t ++ rest ~ (ids (remove i t) ++ rest) ++ ids r
          have s1 : (ids t ++ idsL ts).Perm ((ids (remove i t) ++ ids r) ++ idsL ts) :=
            List.Perm.append_right _ ih
          have s2 : (ids (remove i t) ++ (ids r ++ idsL ts)).Perm (ids (remove i t) ++ (idsL ts ++ ids r)) :=
            List.Perm.append_left _ List.perm_append_comm
          rw [List.append_assoc] at s1
          rw [List.append_assoc]
          exact s1.trans s2
        | none =>
          rw [hft] at hf
          simp only at hf
          have hni : i ∉ ids t := by
            intro hm
            obtain ⟨n, hn'⟩ := find_some_of_mem i t hm
            rw [hft] at hn'; cases hn'
          rw [remove_not_mem i t hni]
          have ih := idsL_removeL_perm i ts sub h2 hf
          rw [List.append_assoc]
          exact List.Perm.append_left _ ih
end

/-- Moving a subtree (detach, then insert under some node) keeps ids distinct. -/
theorem nodup_move (i tgt pos : Nat) (t sub : Tree) (hn : (ids t).Nodup) (hf : find i t = some sub)
    (hr : t.id ≠ i) : (ids (insertChild tgt pos sub (remove i t))).Nodup := by
  have hp := ids_remove_perm i t sub hn hf hr
  have hn' := hp.nodup_iff.1 hn
  rw [List.nodup_append] at hn'
  obtain ⟨h1, h2, h3⟩ := hn'
  exact nodup_insertChild tgt pos sub _ h1 h2 (fun x hx hm => h3 x hm x hx rfl)

/-- Ids after a move are ids of the original tree. -/
theorem mem_ids_move (i tgt pos : Nat) (t sub : Tree) (hf : find i t = some sub) (x : Nat)
    (h : x ∈ ids (insertChild tgt pos sub (remove i t))) : x ∈ ids t := by
  rcases mem_ids_insertChild tgt pos sub _ x h with h | h
  · exact (ids_remove_sublist i t).subset h
  · exact (find_ids_sublist i t sub hf).subset h

end XmlDiffModel.Tree
