/-
"No change is unmarked and no mark is spurious" (the last sentence of C10), for the pipeline model.

`MarkupFree t`: no element of `t` is a `diff:insert` / `diff:delete` wrapper and no attribute is in the `diff:`
namespace.  On a markup-free tree accepting and rejecting every change read the same (`acc_rej_markupFree`).  Hence,
by C09 (accept-all gives the right document) and C10 with the attributes (reject-all gives the left document), an
output without markup means that the two documents are equal as values (`no_unmarked_change`).
-/
import XmlDiffModel.Proofs.Pipeline

namespace XmlDiffModel
namespace Fin
open Tree Undo TextMark XmlDiffModel.Acc XmlDiffModel.Rej XmlDiffModel.Names XmlDiffModel.Along MapId JInv Chw

mutual
  /-- no wrapper element and no `diff:` attribute anywhere -/
  def MarkupFree : Tree → Prop
    | .node _ p ks => (p.tag ≠ INSERT_NAME ∧ p.tag ≠ DELETE_NAME) ∧ (∀ kv ∈ p.attrs, isDiffKey kv.1 = false) ∧ MarkupFreeL ks
  def MarkupFreeL : List Tree → Prop
    | [] => True
    | t :: ts => MarkupFree t ∧ MarkupFreeL ts
end

/-- attributes without `diff:` names decode to themselves -/
theorem rejAttrs_plain (as : Attrs) (h : ∀ kv ∈ as, isDiffKey kv.1 = false) : rejAttrs as = as := by
  have hnone : ∀ a : String, annot as a = [] := by
    intro a
    unfold annot
    rw [attrGet_none_of_plain as h _ (isDiffKey_dname _)]
  unfold rejAttrs
  simp only [hnone, List.foldl_nil]
  exact stripDiff_clean as h

theorem markupFree_flags (i : Nat) (p : Payload) (ks : List Tree) (h : MarkupFree (.node i p ks)) :
    isWrapTag (.node i p ks) = false ∧ isGhost (.node i p ks) = false ∧ Rej.isIns (.node i p ks) = false ∧
      attrGet p.attrs RENAME_NAME = none := by
  simp only [MarkupFree] at h
  refine ⟨?_, ?_, ?_, ?_⟩
  · simp [isWrapTag, Tree.payload, h.1.1, h.1.2]
  · unfold isGhost attrHas
    simp only [Tree.payload]
    rw [attrGet_none_of_plain p.attrs h.2.1 _ isDiffKey_delete]; rfl
  · unfold Rej.isIns attrHas
    simp only [Tree.payload]
    rw [attrGet_none_of_plain p.attrs h.2.1 INSERT_NAME (isDiffKey_dname "insert")]; rfl
  · exact attrGet_none_of_plain p.attrs h.2.1 _ isDiffKey_rename

mutual
  /-- on a tree without markup accepting and rejecting every change read the same -/
  theorem acc_rej_markupFree (t : Tree) (h : MarkupFree t) : accFT t = rejFTA t := by
    match t with
    | .node i p ks =>
      obtain ⟨_, _, _, hren⟩ := markupFree_flags i p ks h
      simp only [MarkupFree] at h
      have hk := accK_rejK_markupFree ks h.2.2 false (strOf p.text)
      simp only [accFT, rejFTA, hk, hren, Option.getD_none, stripDiff_clean p.attrs h.2.1, rejAttrs_plain p.attrs h.2.1]
  theorem accK_rejK_markupFree (ts : List Tree) (h : MarkupFreeL ts) (drop : Bool) (sink : Str) :
      accFK drop sink ts = rejFKA drop sink ts := by
    match ts with
    | [] => cases drop <;> simp [accFK, rejFKA]
    | t :: rest =>
      simp only [MarkupFreeL] at h
      have e1 := acc_rej_markupFree t h.1
      have e2 := accK_rejK_markupFree rest h.2 false (strOf t.payload.tail)
      match t, h, e1, e2 with
      | .node i p ks, h, e1, e2 =>
        obtain ⟨f1, f2, f3, _⟩ := markupFree_flags i p ks h.1
        simp only [accFK, rejFKA, f1, f2, f3, Bool.false_eq_true, if_false, e1, e2]
end

/-! ### from "same shape, same attributes node by node" to `docEq` -/

mutual
  theorem find_bare (z : Nat) (t : Tree) : find z (bare t) = (find z t).map bare := by
    match t with
    | .node i p ks =>
      simp only [bare, find]
      split
      · simp [bare]
      · exact findL_bareL z ks
  theorem findL_bareL (z : Nat) (ts : List Tree) : findL z (bareL ts) = (findL z ts).map bare := by
    match ts with
    | [] => rfl
    | t :: rest =>
      simp only [bareL, findL, find_bare z t]
      cases find z t with
      | none => simpa using findL_bareL z rest
      | some r => simp
end

theorem bare_fields (w n : Tree) (h : bare w = bare n) :
    w.payload.kind = n.payload.kind ∧ w.payload.tag = n.payload.tag ∧ w.payload.text = n.payload.text ∧
      w.payload.tail = n.payload.tail ∧ w.kids.map Tree.id = n.kids.map Tree.id := by
  cases w with
  | node i p ks =>
    cases n with
    | node j q ls =>
      simp only [bare, Tree.node.injEq] at h
      obtain ⟨_, hp, hk⟩ := h
      have e1 := congrArg Payload.kind hp
      have e2 := congrArg Payload.tag hp
      have e3 := congrArg Payload.text hp
      have e4 := congrArg Payload.tail hp
      simp only at e1 e2 e3 e4
      refine ⟨e1, e2, e3, e4, ?_⟩
      simp only [Tree.kids]
      have : ∀ (a b : List Tree), bareL a = bareL b → a.map Tree.id = b.map Tree.id := by
        intro a
        induction a with
        | nil => intro b hb; cases b <;> simp_all [bareL]
        | cons x xs ih =>
          intro b hb
          cases b with
          | nil => simp [bareL] at hb
          | cons y ys =>
            simp only [bareL, List.cons.injEq] at hb
            simp only [List.map_cons, List.cons.injEq]
            refine ⟨?_, ih ys hb.2⟩
            cases x; cases y
            simp only [bare, Tree.node.injEq] at hb
            exact hb.1.1
      exact this ks ls hk

/-- two trees of the same shape whose nodes have, id by id, the same attributes outside `ign` are equal as values -/
theorem docEq_of_bare (ign : List Str) (W B : Tree) (hWn : (ids W).Nodup) (hBn : (ids B).Nodup) (hb : bare W = bare B)
    (hattr : ∀ z p q, payOf W z = some p → payOf B z = some q → ∀ k, k ∉ ign →
      attrGet p.attrs k = attrGet q.attrs k) : docEq ign W B := by
  have hiso : ∀ z n, find z B = some n → ∃ w, find z W = some w ∧ PayEq ign w.payload n.payload ∧
      w.kids.map Tree.id = n.kids.map (fun b => b.id) := by
    intro z n hn
    have h1 : find z (bare W) = some (bare n) := by rw [hb, find_bare, hn]; rfl
    rw [find_bare] at h1
    cases hw : find z W with
    | none => rw [hw] at h1; cases h1
    | some w =>
      rw [hw] at h1
      simp only [Option.map_some, Option.some.injEq] at h1
      obtain ⟨f1, f2, f3, f4, f5⟩ := bare_fields w n h1
      exact ⟨w, rfl, ⟨f1, f2, f3, f4, fun k hk => hattr z w.payload n.payload (by unfold payOf; rw [hw]; rfl)
        (by unfold payOf; rw [hn]; rfl) k hk⟩, f5⟩
  have hid : W.id = B.id := by
    have := congrArg Tree.id hb
    cases W; cases B
    simpa [bare, Tree.id] using this
  have := iso_docEq ign W B hWn hBn (fun x => x) hiso B (find_self B) W (by rw [← hid]; exact find_self W)
  exact this

/-! ### symmetry and transitivity of `docEq` -/

theorem payEq_symm (ign : List Str) (a b : Payload) (h : PayEq ign a b) : PayEq ign b a :=
  ⟨h.1.symm, h.2.1.symm, h.2.2.1.symm, h.2.2.2.1.symm, fun k hk => (h.2.2.2.2 k hk).symm⟩

theorem payEq_trans (ign : List Str) (a b c : Payload) (h1 : PayEq ign a b) (h2 : PayEq ign b c) : PayEq ign a c :=
  ⟨h1.1.trans h2.1, h1.2.1.trans h2.2.1, h1.2.2.1.trans h2.2.2.1, h1.2.2.2.1.trans h2.2.2.2.1,
    fun k hk => (h1.2.2.2.2 k hk).trans (h2.2.2.2.2 k hk)⟩

mutual
  theorem docEq_symm (ign : List Str) (a b : Tree) (h : docEq ign a b) : docEq ign b a := by
    match a, b with
    | .node i p ks, .node j q ls =>
      simp only [docEq] at h ⊢
      exact ⟨payEq_symm ign p q h.1, docEqL_symm ign ks ls h.2⟩
  theorem docEqL_symm (ign : List Str) (as bs : List Tree) (h : docEqL ign as bs) : docEqL ign bs as := by
    match as, bs with
    | [], [] => trivial
    | a :: as, b :: bs =>
      simp only [docEqL] at h ⊢
      exact ⟨docEq_symm ign a b h.1, docEqL_symm ign as bs h.2⟩
    | [], _ :: _ => simp [docEqL] at h
    | _ :: _, [] => simp [docEqL] at h
end

mutual
  theorem docEq_trans (ign : List Str) (a b c : Tree) (h1 : docEq ign a b) (h2 : docEq ign b c) : docEq ign a c := by
    match a, b, c with
    | .node i p ks, .node j q ls, .node k r ms =>
      simp only [docEq] at h1 h2 ⊢
      exact ⟨payEq_trans ign p q r h1.1 h2.1, docEqL_trans ign ks ls ms h1.2 h2.2⟩
  theorem docEqL_trans (ign : List Str) (as bs cs : List Tree) (h1 : docEqL ign as bs) (h2 : docEqL ign bs cs) :
      docEqL ign as cs := by
    match as, bs, cs with
    | [], [], [] => trivial
    | a :: as, b :: bs, c :: cs =>
      simp only [docEqL] at h1 h2 ⊢
      exact ⟨docEq_trans ign a b c h1.1 h2.1, docEqL_trans ign as bs cs h1.2 h2.2⟩
    | [], _ :: _, _ => simp [docEqL] at h1
    | _ :: _, [], _ => simp [docEqL] at h1
    | [], [], _ :: _ => simp [docEqL] at h2
    | _ :: _, _ :: _, [] => simp [docEqL] at h2
end

/-! ### an output without markup comes from a working tree without `diff:` attributes -/

theorem markupFreeL_append (a b : List Tree) (h : MarkupFreeL (a ++ b)) : MarkupFreeL b := by
  induction a with
  | nil => exact h
  | cons x xs ih =>
    simp only [List.cons_append, MarkupFreeL] at h
    exact ih h.2

mutual
  theorem keysPlain_of_fin (t r : Tree) (after : List Tree) (hf : FinT t r after) (hm : MarkupFree r) :
      AllP KeysPlain t := by
    match t with
    | .node i p ks =>
      simp only [FinT] at hf
      obtain ⟨tx, tl, front, ks', rfl, _, _, hl⟩ := hf
      simp only [MarkupFree] at hm
      simp only [AllP]
      exact ⟨hm.2.1, keysPlainL_of_fin ks ks' hl (markupFreeL_append front ks' hm.2.2)⟩
  theorem keysPlainL_of_fin (ts out : List Tree) (hf : FinL ts out) (hm : MarkupFreeL out) : AllPL KeysPlain ts := by
    match ts with
    | [] => trivial
    | t :: rest =>
      simp only [FinL] at hf
      obtain ⟨k', after, rest', rfl, h1, h2⟩ := hf
      simp only [MarkupFreeL] at hm
      simp only [AllPL]
      exact ⟨keysPlain_of_fin t k' after h1 hm.1, keysPlainL_of_fin rest rest' h2 (markupFreeL_append after rest' hm.2)⟩
end

theorem ids_setTailT (o : Option Str) (t : Tree) : ids (setTailT o t) = ids t := by
  cases t; simp [setTailT, ids]

mutual
  theorem markupFree_of_clean (t : Tree) (hc : CleanT t) (hg : AllP TagOK t) : MarkupFree t := by
    match t with
    | .node i p ks =>
      simp only [CleanT] at hc
      simp only [AllP] at hg
      simp only [MarkupFree]
      exact ⟨hg.1, hc.1, markupFreeL_of_clean ks hc.2.2.2 hg.2⟩
  theorem markupFreeL_of_clean (ts : List Tree) (hc : CleanL ts) (hg : AllPL TagOK ts) : MarkupFreeL ts := by
    match ts with
    | [] => trivial
    | t :: rest =>
      simp only [CleanL] at hc
      simp only [AllPL] at hg
      simp only [MarkupFreeL]
      exact ⟨markupFree_of_clean t hc.1 hg.1, markupFreeL_of_clean rest hc.2 hg.2⟩
end

/-- **No change is unmarked**, for a script of the differ whose final working copy is the right document as a
value: if the tree `finalize` returns carries no markup, the two documents are equal as values. -/
theorem no_unmarked_change (bis : Dmp.Bisect) (qn : QName) (cfg : Cfg) (L R : Tree) (M : List (Nat × Nat))
    (fresh : Nat) (script : List Action) (final : Tree) (ft : List Str) (w : Bool)
    (hclean : CleanT L) (hshort : AllP (ShortP w) L) (htag : AllP TagOK L) (hL : (ids L).Nodup) (hRn : (ids R).Nodup)
    (hdisj : ∀ i ∈ ids L, i ∉ ids R)
    (hfL : ∀ i ∈ ids L, i < fresh) (hfR : ∀ i ∈ ids R, i < fresh) (hM : GoodMatching L R M)
    (hR : ∀ x ∈ bfs R, (keys x.payload.attrs).Nodup ∧ XClean (fun k => isDiffKey k = false) x ∧ ShortP w x.payload ∧
      TagOK x.payload)
    (hLa : AllP (AttrFit.PairsP nameOKb valOKb) L)
    (hRa : ∀ x ∈ bfs R, AttrFit.PairsOK nameOKb valOKb x.payload.attrs)
    (h : scriptGen qn cfg L R M fresh = .ok (script, final)) (hd : docEq cfg.ignored final R) :
    ∃ s' out after, runFmtE w bis qn (fstate0 L fresh ft [] w) script = .ok s' ∧
      (∃ N, ∀ f, N ≤ f → undoElement f s'.ph diffElemList s'.tree = .ok (out, after)) ∧
      (MarkupFree out → docEq cfg.ignored (setTailT none L) (setTailT none R)) := by
  obtain ⟨s', σ, out, after, h1, hu, hfin, tg, hnd, _, hacc, hrejL, K⟩ := differ_script_core bis qn cfg L R M fresh
    script final ft w hclean hshort htag hL hRn hdisj hfL hfR hM hR hLa hRa h
  refine ⟨s', out, after, h1, hu, fun hm => ?_⟩
  -- accepting: the right document
  have hA : docEq cfg.ignored (accFT out) (setTailT none R) := by
    rw [accFT_fin s'.tree out after hfin tg, hacc]
    exact docEq_setTail _ _ _ (docEq_mapId _ σ final R hd)
  -- rejecting: the left document, attributes included
  have hrA := rejFTA_fin s'.tree out after hfin tg
  have hkp := keysPlain_of_fin s'.tree out after hfin hm
  have hkL := keysPlain_of_clean L hclean
  have hbare : bare (rejFTA out) = bare (setTailT none L) := by
    rw [hrA, bare_setTailT, bare_rejA, hrejL, bare_setTailT]
  have hidW : ids (rejFTA out) = ids L := by
    rw [hrA, ids_setTailT, ids_rejA, hrejL, ids_bare]
  have hB : docEq cfg.ignored (rejFTA out) (setTailT none L) := by
    apply docEq_of_bare cfg.ignored _ _ (by rw [hidW]; exact hL) (by rw [ids_setTailT]; exact hL) hbare
    intro z p q hp hq k _
    rw [hrA] at hp
    obtain ⟨p1, hp1, e1⟩ := payOf_setTailT_attrs none (rejA s'.tree) z p hp
    obtain ⟨p2, hp2, e2⟩ := payOf_rejA s'.tree hnd z p1 hp1
    obtain ⟨q0, hq0, e3⟩ := payOf_setTailT_attrs none L z q hq
    have hz : z ∈ ids L := by
      unfold payOf at hq0
      cases hf : find z L with
      | none => rw [hf] at hq0; cases hq0
      | some n => exact mem_of_find z L n hf
    obtain ⟨pw, q1, hw1, hq1, hk⟩ := K z hz
    rw [hp2] at hw1
    injection hw1 with hw1
    subst hw1
    rw [hq0] at hq1
    injection hq1 with hq1
    subst hq1
    have hpl := allP_payOf KeysPlain s'.tree hkp z p2 hp2
    rw [← e1, e2, ← e3, rejAttrs_plain p2.attrs hpl]
    by_cases hdk : isDiffKey k = true
    · rw [attrGet_none_of_plain p2.attrs hpl k hdk,
        attrGet_none_of_plain q0.attrs (allP_payOf KeysPlain L hkL z q0 hq0) k hdk]
    · have hdk' : isDiffKey k = false := by simpa using hdk
      rcases rejAttrs_of_ki q0.attrs p2.attrs hk k hdk' with h6 | h6
      · rw [rejAttrs_plain p2.attrs hpl] at h6; exact h6
      · have : annot p2.attrs "delete" = [] := by
          unfold annot
          rw [attrGet_none_of_plain p2.attrs hpl _ (isDiffKey_dname _)]
        rw [this] at h6
        exact absurd h6.2.2 (by simp)
  rw [acc_rej_markupFree out hm] at hA
  exact docEq_trans _ _ _ _ (docEq_symm _ _ _ hB) hA

/-- **No mark is spurious**: the formatter on the empty script returns the left document itself, which carries no
markup. -/
theorem no_spurious_mark (bis : Dmp.Bisect) (qn : QName) (L : Tree) (fresh : Nat) (ft : List Str) (w : Bool)
    (hclean : CleanT L) (htag : AllP TagOK L) :
    runFmtE w bis qn (fstate0 L fresh ft [] w) [] = .ok (fstate0 L fresh ft [] w) ∧
      (∃ N, ∀ f, N ≤ f → undoElement f (fstate0 L fresh ft [] w).ph diffElemList L = .ok (L, [])) ∧ MarkupFree L := by
  have hb : TextMark.Base (phInit [] ft) := by
    have := TextMark.base_history [] ft [] (by
      show (phInit [] ft).counter < 0x110000
      have : (phInit [] ft).counter = phStart + 6 := rfl
      rw [this]; decide)
    exact this
  refine ⟨rfl, ?_, markupFree_of_clean L hclean htag⟩
  exact undoElement_plain _ diffElemList L (plainT_of_lowT _ hb.closed.lob L (lowT_of_clean L hclean))

end Fin
end XmlDiffModel
