/-
The placeholder table under any history of `get_placeholder` calls on one maker.
-/
import XmlDiffModel.Model.Placeholder

namespace XmlDiffModel

mutual
  theorem Tree.beq_refl (a : Tree) : Tree.beq a a = true := by
    match a with
    | .node i p ks => simp [Tree.beq, Tree.beqL_refl ks]
  theorem Tree.beqL_refl (as : List Tree) : Tree.beqL as as = true := by
    match as with
    | [] => simp [Tree.beqL]
    | t :: ts => simp [Tree.beqL, Tree.beq_refl t, Tree.beqL_refl ts]
end

mutual
  theorem Tree.beq_eq (a b : Tree) (h : Tree.beq a b = true) : a = b := by
    match a, b with
    | .node i p ks, .node j q ls =>
      simp only [Tree.beq, Bool.and_eq_true, beq_iff_eq] at h
      obtain ⟨⟨h1, h2⟩, h3⟩ := h
      rw [h1, h2, Tree.beqL_eq ks ls h3]
  theorem Tree.beqL_eq (as bs : List Tree) (h : Tree.beqL as bs = true) : as = bs := by
    match as, bs with
    | [], [] => rfl
    | a :: as, b :: bs =>
      simp only [Tree.beqL, Bool.and_eq_true] at h
      rw [Tree.beq_eq a b h.1, Tree.beqL_eq as bs h.2]
    | [], _ :: _ => simp [Tree.beqL] at h
    | _ :: _, [] => simp [Tree.beqL] at h
end

/-- same (serialisation, role, close placeholder) -/
def SameKey (e : PhEntry) (k : Tree) (r : Role) (c : Option Nat) : Prop :=
  e.key = k ∧ e.role = r ∧ e.closePh = c

theorem sameKey_iff (e : PhEntry) (k : Tree) (r : Role) (c : Option Nat) :
    (Tree.beq e.key k && e.role == r && e.closePh == c) = true ↔ SameKey e k r c := by
  simp only [Bool.and_eq_true, beq_iff_eq, SameKey]
  constructor
  · rintro ⟨⟨h1, h2⟩, h3⟩
    exact ⟨Tree.beq_eq _ _ h1, h2, h3⟩
  · rintro ⟨h1, h2, h3⟩
    exact ⟨⟨h1 ▸ Tree.beq_refl _, h2⟩, h3⟩

/-- Invariant of the table. -/
structure TableOK (st : PhSt) : Prop where
  phNodup : (st.table.map (·.ph)).Nodup
  bound : ∀ e ∈ st.table, e.ph ≤ st.counter
  keyNodup : st.table.Pairwise (fun a b => ¬ SameKey a b.key b.role b.closePh)

theorem lookup_some (st : PhSt) (k : Tree) (r : Role) (c : Option Nat) (ph : Nat)
    (h : st.lookup k r c = some ph) : ∃ e ∈ st.table, SameKey e k r c ∧ e.ph = ph := by
  unfold PhSt.lookup at h
  cases hf : st.table.find? (fun e => Tree.beq e.key k && e.role == r && e.closePh == c) with
  | none => simp [hf] at h
  | some e =>
    simp only [hf, Option.map_some, Option.some.injEq] at h
    have hp := List.find?_some (p := fun (e : PhEntry) => Tree.beq e.key k && e.role == r && e.closePh == c) hf
    exact ⟨e, List.mem_of_find?_eq_some hf, (sameKey_iff e k r c).1 hp, h⟩

theorem lookup_none (st : PhSt) (k : Tree) (r : Role) (c : Option Nat)
    (h : st.lookup k r c = none) : ∀ e ∈ st.table, ¬ SameKey e k r c := by
  unfold PhSt.lookup at h
  simp only [Option.map_eq_none_iff, List.find?_eq_none] at h
  intro e he hs
  exact h e he ((sameKey_iff e k r c).2 hs)

/-- `get_placeholder` keeps the table one-to-one; it only appends. -/
theorem getPlaceholder_ok (st : PhSt) (el : Tree) (r : Role) (c : Option Nat) (h : TableOK st) :
    TableOK (getPlaceholder st el r c).2 ∧
      (∃ ext, (getPlaceholder st el r c).2.table = st.table ++ ext) ∧
      st.counter ≤ (getPlaceholder st el r c).2.counter := by
  unfold getPlaceholder
  simp only
  cases hl : st.lookup (keyOf el) r c with
  | some ph => exact ⟨h, ⟨[], by simp⟩, Nat.le_refl _⟩
  | none =>
    simp only
    refine ⟨⟨?_, ?_, ?_⟩, ⟨_, rfl⟩, Nat.le_succ _⟩
    · simp only [List.map_append, List.map_cons, List.map_nil]
      rw [List.nodup_append]
      refine ⟨h.phNodup, by simp, ?_⟩
      intro a ha b hb hab
      simp only [List.mem_singleton] at hb
      subst hb
      simp only [List.mem_map] at ha
      obtain ⟨e, he, rfl⟩ := ha
      have := h.bound e he
      omega
    · intro e he
      simp only [List.mem_append, List.mem_singleton] at he
      rcases he with he | rfl
      · exact Nat.le_succ_of_le (h.bound e he)
      · exact Nat.le_refl _
    · rw [List.pairwise_append]
      refine ⟨h.keyNodup, by simp, ?_⟩
      intro a ha b hb
      simp only [List.mem_singleton] at hb
      subst hb
      exact lookup_none st (keyOf el) r c hl a ha

/-- A placeholder handed out for a new key is fresh: no entry had it before. -/
theorem getPlaceholder_fresh (st : PhSt) (el : Tree) (r : Role) (c : Option Nat) (h : TableOK st)
    (hn : st.lookup (keyOf el) r c = none) :
    ∀ e ∈ st.table, e.ph ≠ (getPlaceholder st el r c).1 := by
  intro e he
  unfold getPlaceholder
  simp only [hn]
  have := h.bound e he
  omega

/-- Existing answers never change: once a key has a placeholder it keeps it in every later
state (the table only grows at the end). -/
theorem lookup_stable (st : PhSt) (ext : List PhEntry) (k : Tree) (r : Role) (c : Option Nat) (ph : Nat)
    (h : st.lookup k r c = some ph) :
    PhSt.lookup { st with table := st.table ++ ext } k r c = some ph := by
  unfold PhSt.lookup at h ⊢
  simp only
  cases hf : st.table.find? (fun e => Tree.beq e.key k && e.role == r && e.closePh == c) with
  | none => simp [hf] at h
  | some e =>
    rw [List.find?_append, hf]
    simpa [hf] using h

/-- Asking again - for an element with the same serialisation, in any later state - returns
the same placeholder. -/
theorem getPlaceholder_again (st : PhSt) (el el' : Tree) (r : Role) (c : Option Nat)
    (hk : keyOf el = keyOf el') (st' : PhSt)
    (hext : ∃ ext, st'.table = (getPlaceholder st el r c).2.table ++ ext) :
    (getPlaceholder st' el' r c).1 = (getPlaceholder st el r c).1 := by
  obtain ⟨ext, hext⟩ := hext
  have hl : (getPlaceholder st el r c).2.lookup (keyOf el) r c = some (getPlaceholder st el r c).1 := by
    unfold getPlaceholder
    simp only
    cases hl : st.lookup (keyOf el) r c with
    | some ph => simpa using hl
    | none =>
      simp only
      unfold PhSt.lookup
      simp only
      rw [List.find?_append]
      have hnone : st.table.find? (fun e => Tree.beq e.key (keyOf el) && e.role == r && e.closePh == c) = none := by
        unfold PhSt.lookup at hl
        simpa using hl
      rw [hnone]
      simp [Tree.beq_refl]
  have h2 := lookup_stable (getPlaceholder st el r c).2 ext (keyOf el) r c _ hl
  have h3 : st'.lookup (keyOf el') r c = some (getPlaceholder st el r c).1 := by
    rw [← hk]
    unfold PhSt.lookup at h2 ⊢
    rw [hext]
    exact h2
  have : getPlaceholder st' el' r c = ((getPlaceholder st el r c).1, st') := by
    conv => lhs; unfold getPlaceholder
    simp only [h3]
  rw [this]

/-! ### the invariant through `do_element` / `do_tree` -/

/-- `st'` extends `st`: same table prefix, invariant kept. -/
def Extends (st st' : PhSt) : Prop := TableOK st' ∧ ∃ ext, st'.table = st.table ++ ext

theorem Extends.refl (st : PhSt) (h : TableOK st) : Extends st st := ⟨h, [], by simp⟩

theorem Extends.trans {a b c : PhSt} (h1 : Extends a b) (h2 : Extends b c) : Extends a c := by
  obtain ⟨_, e1, he1⟩ := h1
  obtain ⟨hc, e2, he2⟩ := h2
  exact ⟨hc, e1 ++ e2, by rw [he2, he1, List.append_assoc]⟩

theorem getPlaceholder_extends (st : PhSt) (el : Tree) (r : Role) (c : Option Nat) (h : TableOK st) :
    Extends st (getPlaceholder st el r c).2 :=
  ⟨(getPlaceholder_ok st el r c h).1, (getPlaceholder_ok st el r c h).2.1⟩

theorem extends_heap (st : PhSt) (h : TableOK st) (hp : List Tree) : Extends st { st with heap := hp } :=
  ⟨⟨h.phNodup, h.bound, h.keyNodup⟩, [], by simp⟩

mutual
  theorem doElement_extends (t : Tree) (st : PhSt) (h : TableOK st) : Extends st (doElement t st).2 := by
    match t with
    | .node i p ks =>
      simp only [doElement]
      exact doKids_extends ks _ st h
  theorem doKids_extends (ks : List Tree) (acc : Str) (st : PhSt) (h : TableOK st) :
      Extends st (doKids ks acc st).2 := by
    match ks with
    | [] => simpa [doKids] using Extends.refl st h
    | c :: rest =>
      simp only [doKids]
      split
      · -- formatting child
        have e1 := getPlaceholder_extends st (setTailT (some []) c) .close none h
        generalize getPlaceholder st (setTailT (some []) c) .close none = r1 at e1
        obtain ⟨phClose, st1⟩ := r1
        have e2 := getPlaceholder_extends st1 (setTailT (some []) c) .open (some phClose) e1.1
        generalize getPlaceholder st1 (setTailT (some []) c) .open (some phClose) = r2 at e2
        obtain ⟨phOpen, st2⟩ := r2
        have e3 := doElement_extends c st2 e2.1
        generalize doElement c st2 = r3 at e3
        obtain ⟨c2, st3⟩ := r3
        simp only at e1 e2 e3 ⊢
        have e4 := extends_heap st3 e3.1 (setTailT (some []) (setText (some []) c2) :: st3.heap)
        exact (((e1.trans e2).trans e3).trans e4).trans (doKids_extends rest _ _ e4.1)
      · have e1 := getPlaceholder_extends st (setTailT (some []) c) .single none h
        generalize getPlaceholder st (setTailT (some []) c) .single none = r1 at e1
        obtain ⟨phSingle, st1⟩ := r1
        simp only at e1 ⊢
        have e2 := extends_heap st1 e1.1 (setTailT (some []) c :: st1.heap)
        exact (e1.trans e2).trans (doKids_extends rest _ _ e2.1)
end

theorem doElementAt_extends (i : Nat) (tree : Tree) (st : PhSt) (h : TableOK st) :
    Extends st (doElementAt i tree st).2 := by
  unfold doElementAt
  split
  · next e he =>
    exact doElement_extends e st h
  · split
    · next e he =>
      have e1 := doElement_extends e st h
      generalize doElement e st = r at e1
      obtain ⟨e', st'⟩ := r
      simp only at e1 ⊢
      exact e1.trans (extends_heap st' e1.1 _)
    · exact Extends.refl st h

theorem foldl_doElementAt_extends (idsList : List Nat) (tree : Tree) (st : PhSt) (h : TableOK st) :
    Extends st (idsList.foldl (fun (acc : Tree × PhSt) i => doElementAt i acc.1 acc.2) (tree, st)).2 := by
  induction idsList generalizing tree st with
  | nil => simpa using Extends.refl st h
  | cons i rest ih =>
    simp only [List.foldl_cons]
    have e1 := doElementAt_extends i tree st h
    generalize doElementAt i tree st = r at e1
    obtain ⟨t', st'⟩ := r
    exact e1.trans (ih t' st' e1.1)

theorem doTree_extends (tree : Tree) (st : PhSt) (h : TableOK st) : Extends st (doTree tree st).2 := by
  unfold doTree
  split
  · exact Extends.refl st h
  · exact foldl_doElementAt_extends _ tree st h

/-- Any history of `do_tree` calls on one maker. -/
def doTrees : List Tree → PhSt → PhSt
  | [], st => st
  | t :: ts, st => doTrees ts (doTree t st).2

theorem doTrees_extends (ts : List Tree) (st : PhSt) (h : TableOK st) : Extends st (doTrees ts st) := by
  induction ts generalizing st with
  | nil => exact Extends.refl st h
  | cons t ts ih =>
    simp only [doTrees]
    have e1 := doTree_extends t st h
    exact e1.trans (ih _ e1.1)

theorem tableOK_empty (tt ft : List Str) :
    TableOK { table := [], counter := phStart, heap := [], textTags := tt, formattingTags := ft } :=
  ⟨by simp, by simp, by simp⟩

end XmlDiffModel
