/-
Script generation reaches the right document, part 2: the invariant is preserved when a node is placed
(inserted, or moved across or inside a parent) at the position `find_pos` computes.
-/
import XmlDiffModel.Proofs.Chaw1

namespace XmlDiffModel
namespace Chw
open Tree

theorem ioB_cons2 (io : List Nat) (y v c : Nat) (h1 : c ≠ y) (h2 : c ≠ v) : ioB (y :: v :: io) c = ioB io c := by
  simp [ioB, h1, h2]

theorem placed_inv (ign : List Str) (R : Tree) (hRn : (ids R).Nodup) (s s' : DState) (A D : List Nat)
    (inv : Inv ign R s A D) (v tgt pos y py : Nat)
    (hpl : Placed s.left s'.left v tgt pos)
    (hio : s'.inorder = y :: v :: s.inorder)
    (hm1 : ∀ p, p ∈ s'.ms ↔ p ∈ s.ms ∨ p = (v, y))
    (hmL : (lefts s'.ms).Nodup) (hmR : (rights s'.ms).Nodup)
    (hnext : s.next ≤ s'.next) (hvn : v < s'.next)
    (hy : y ∈ kidIds R py) (hpy : (tgt, py) ∈ s.ms) (hpyA : py ∈ A) (hyD : y ∉ D)
    (hvR : v ∉ ids R) (hvio : v ∉ s.inorder) (hyio : y ∉ s.inorder)
    (hkind : ∀ pl pr, payOf s'.left v = some pl → payOf R y = some pr → pl.kind = pr.kind)
    (hvy : (kidIds s.left v).filter (ioB s.inorder) = ((kidIds R y).filter (ioB s.inorder)).map (psi s.ms))
    (hvt : v ≠ tgt)
    (hpos : ∀ X1 X2, kidIds R py = X1 ++ y :: X2 →
        match (X1.filter (ioB s.inorder)).getLast? with
        | none => pos = 0
        | some u => ∃ A' B, (kidIds s.left tgt).erase v = A' ++ psi s.ms u :: B ∧ psi s.ms u ∉ A' ∧ pos = A'.length + 1) :
    Inv ign R s' A D := by
  have hyR : y ∈ ids R := (kidIds_sub R py y hy).1
  have hpyR : py ∈ ids R := (kidIds_sub R py y hy).2
  have hvyM : (v, y) ∈ s'.ms := (hm1 _).mpr (Or.inr rfl)
  have hsubM : ∀ p, p ∈ s.ms → p ∈ s'.ms := fun p hp => (hm1 p).mpr (Or.inl hp)
  -- left ids are not right ids
  have hLR : ∀ i, i ∈ ids s'.left → i ∉ ids R := by
    intro i hi
    rcases (hpl.mem i).mp hi with h | h
    · exact inv.disj i h
    · rw [h]; exact hvR
  -- other pairs avoid `v` and `y`
  have hother : ∀ p, p ∈ s'.ms → p ≠ (v, y) → p ∈ s.ms ∧ p.1 ≠ v ∧ p.2 ≠ y := by
    intro p hp hne
    have hin : p ∈ s.ms := by
      rcases (hm1 p).mp hp with h | h
      · exact h
      · exact absurd h hne
    refine ⟨hin, ?_, ?_⟩
    · intro e
      have h1 := l2rGet_of_mem s'.ms hmL p.1 p.2 hp
      have h2 := l2rGet_of_mem s'.ms hmL v y hvyM
      rw [e] at h1; rw [h1] at h2; injection h2 with h2
      exact hne (Prod.ext e h2)
    · intro e
      have h1 := r2lGet_of_mem s'.ms hmR p.1 p.2 hp
      have h2 := r2lGet_of_mem s'.ms hmR v y hvyM
      rw [e] at h1; rw [h1] at h2; injection h2 with h2
      exact hne (Prod.ext h2 e)
  have hioc : ∀ c, c ≠ y → c ≠ v → (c ∈ s'.inorder ↔ c ∈ s.inorder) := by
    intro c h1 h2; rw [hio]; simp [h1, h2]
  have hioB : ∀ c, c ≠ y → c ≠ v → ioB s'.inorder c = ioB s.inorder c := by
    intro c h1 h2; rw [hio]; exact ioB_cons2 _ _ _ _ h1 h2
  have hLy : ∀ c, c ∈ ids s.left → c ≠ y := fun c hc e => inv.disj c hc (e ▸ hyR)
  have hRv : ∀ c, c ∈ ids R → c ≠ v := fun c hc e => hvR (e ▸ hc)
  have hpsi : ∀ c, c ≠ y → psi s'.ms c = psi s.ms c := fun c hc => psi_ext s.ms s'.ms v y hm1 hmR c hc
  have hr2l : ∀ c, c ≠ y → r2lGet s'.ms c = r2lGet s.ms c := fun c hc => r2lGet_ext s.ms s'.ms v y hm1 hmR c hc
  refine
    { wf := hpl.nodup, disj := hLR, freshL := ?_, freshR := ?_, mL := hmL, mR := hmR, mdom := ?_, mroot := ?_,
      mkind := ?_, ioPair := ?_, ioM := ?_, home := ?_, ord := ?_, unvis := ?_, vis := ?_, aligned := ?_,
      sub := inv.sub }
  · -- freshL
    intro i hi
    rcases (hpl.mem i).mp hi with h | h
    · exact Nat.lt_of_lt_of_le (inv.freshL i h) hnext
    · rw [h]; exact hvn
  · intro i hi; exact Nat.lt_of_lt_of_le (inv.freshR i hi) hnext
  · -- mdom
    intro p hp
    rcases (hm1 p).mp hp with h | h
    · exact ⟨(hpl.mem _).mpr (Or.inl (inv.mdom p h).1), (inv.mdom p h).2⟩
    · rw [h]; exact ⟨(hpl.mem _).mpr (Or.inr rfl), hyR⟩
  · rw [hpl.rootId]; exact hsubM _ inv.mroot
  · -- mkind
    intro p hp pl pr h1 h2
    by_cases hne : p = (v, y)
    · rw [hne] at h1 h2; exact hkind pl pr h1 h2
    · obtain ⟨hin, hv1, _⟩ := hother p hp hne
      rw [hpl.pay p.1 hv1] at h1
      exact inv.mkind p hin pl pr h1 h2
  · -- ioPair
    intro p hp
    by_cases hne : p = (v, y)
    · rw [hne, hio]; simp
    · obtain ⟨hin, hv1, hy2⟩ := hother p hp hne
      have d := inv.mdom p hin
      rw [hioc p.1 (hLy _ d.1) hv1, hioc p.2 hy2 (hRv _ d.2)]
      exact inv.ioPair p hin
  · -- ioM
    intro i hi
    rw [hio] at hi
    simp only [List.mem_cons] at hi
    rcases hi with h | h | h
    · rw [h]; exact Or.inr (mem_rights _ v y hvyM)
    · rw [h]; exact Or.inl (mem_lefts _ v y hvyM)
    · rcases inv.ioM i h with h | h
      · obtain ⟨p, hp, e⟩ := List.mem_map.mp h
        exact Or.inl (List.mem_map.mpr ⟨p, hsubM p hp, e⟩)
      · obtain ⟨p, hp, e⟩ := List.mem_map.mp h
        exact Or.inr (List.mem_map.mpr ⟨p, hsubM p hp, e⟩)
  · -- home
    intro p hp hin'
    by_cases hne : p = (v, y)
    · rw [hne]
      refine ⟨py, tgt, (parId_iff R hRn y py).mpr hy, ?_, (parId_iff _ hpl.nodup v tgt).mpr hpl.kid_new⟩
      exact r2lGet_of_mem _ hmR tgt py (hsubM _ hpy)
    · obtain ⟨hin, hv1, hy2⟩ := hother p hp hne
      have d := inv.mdom p hin
      have hio2 : p.2 ∈ s.inorder := (hioc p.2 hy2 (hRv _ d.2)).mp hin'
      obtain ⟨q, lq, h1, h2, h3⟩ := inv.home p hin hio2
      refine ⟨q, lq, h1, ?_, ?_⟩
      · exact r2lGet_of_mem _ hmR lq q (hsubM _ (r2lGet_mem s.ms q lq h2))
      · have hk : p.1 ∈ kidIds s.left lq := (parId_iff _ inv.wf p.1 lq).mp h3
        exact (parId_iff _ hpl.nodup p.1 lq).mpr ((hpl.kid_old p.1 lq hv1).mpr hk)
  · -- ord
    intro p hp
    by_cases hne : p = (v, y)
    · rw [hne]
      simp only
      have hk : kidIds s'.left v = kidIds s.left v := by
        rw [hpl.kids v, if_neg hvt, List.erase_of_not_mem (self_not_kid _ inv.wf v)]
      rw [hk]
      have e1 : (kidIds s.left v).filter (ioB s'.inorder) = (kidIds s.left v).filter (ioB s.inorder) := by
        apply Ord.filter_congr'
        intro c hc
        have hcW := (kidIds_sub _ v c hc).1
        exact hioB c (hLy c hcW) (fun e => self_not_kid _ inv.wf v (e ▸ hc))
      have e2 : (kidIds R y).filter (ioB s'.inorder) = (kidIds R y).filter (ioB s.inorder) := by
        apply Ord.filter_congr'
        intro c hc
        have hcR := (kidIds_sub _ y c hc).1
        exact hioB c (fun e => self_not_kid _ hRn y (e ▸ hc)) (hRv c hcR)
      rw [e1, e2, hvy]
      apply Ord.map_congr'
      intro c hc
      have hc' := (List.mem_filter.mp hc).1
      exact (hpsi c (fun e => self_not_kid _ hRn y (e ▸ hc'))).symm
    · obtain ⟨hin, hv1, hy2⟩ := hother p hp hne
      have d := inv.mdom p hin
      by_cases ht : p.1 = tgt
      · -- the parent that receives `v`
        have hp2 : p.2 = py := by
          have h1 := l2rGet_of_mem s.ms inv.mL p.1 p.2 hin
          have h2 := l2rGet_of_mem s.ms inv.mL tgt py hpy
          rw [ht, h2] at h1; injection h1 with h1; exact h1.symm
        rw [hpl.kids p.1, if_pos ht, hp2, ht]
        obtain ⟨X1, X2, hX⟩ := List.append_of_mem hy
        rw [hX]
        have hXn : (X1 ++ y :: X2).Nodup := hX ▸ kidIds_nodup R hRn py
        have hKn : (kidIds s.left tgt).Nodup := kidIds_nodup _ inv.wf tgt
        have hold := inv.ord (tgt, py) hpy
        simp only at hold
        rw [hX] at hold
        refine Ord.place ((kidIds s.left tgt).erase v) X1 X2 y v (ioB s.inorder) (ioB s.inorder) (psi s.ms) pos
          ?_ ?_ hXn ?_ ?_ (hpos X1 X2 hX) (ioB s'.inorder) (ioB s'.inorder) (psi s'.ms) ?_ ?_ ?_ ?_ ?_ ?_
        · rw [filter_erase_of_false _ v _ (by
            cases h : ioB s.inorder v with
            | false => rfl
            | true => exact absurd ((ioB_iff _ _).mp h) hvio)]
          exact hold
        · cases h : ioB s.inorder y with
          | false => rfl
          | true => exact absurd ((ioB_iff _ _).mp h) hyio
        · -- partners of in-order right nodes are distinct
          intro a ha b hb hab
          have ha' := (ioB_iff _ _).mp (List.mem_filter.mp ha).2
          have hb' := (ioB_iff _ _).mp (List.mem_filter.mp hb).2
          have haR : a ∈ ids R := (kidIds_sub R py a (hX ▸ (List.mem_filter.mp ha).1)).1
          have hbR : b ∈ ids R := (kidIds_sub R py b (hX ▸ (List.mem_filter.mp hb).1)).1
          have hmatched : ∀ c, c ∈ s.inorder → c ∈ ids R → ∃ l, (l, c) ∈ s.ms := by
            intro c hc hcR
            rcases inv.ioM c hc with h | h
            · obtain ⟨q, hq, e⟩ := List.mem_map.mp h
              exact absurd hcR (inv.disj c (e ▸ (inv.mdom q hq).1))
            · obtain ⟨q, hq, e⟩ := List.mem_map.mp h
              exact ⟨q.1, by rw [← e]; exact hq⟩
          obtain ⟨la, hla⟩ := hmatched a ha' haR
          obtain ⟨lb, hlb⟩ := hmatched b hb' hbR
          rw [psi_of_mem _ inv.mR la a hla, psi_of_mem _ inv.mR lb b hlb] at hab
          subst hab
          have h1 := l2rGet_of_mem s.ms inv.mL la a hla
          have h2 := l2rGet_of_mem s.ms inv.mL la b hlb
          rw [h1] at h2; injection h2
        · exact fun h => (List.Nodup.mem_erase_iff hKn).mp h |>.1 rfl
        · intro c hc
          have hc' := List.mem_of_mem_erase hc
          have hcW := (kidIds_sub _ tgt c hc').1
          exact hioB c (hLy c hcW) (fun e => ((List.Nodup.mem_erase_iff hKn).mp hc).1 e)
        · rw [hio]; simp [ioB]
        · intro c hc hcy
          have hcR := (kidIds_sub R py c (hX ▸ hc)).1
          exact hioB c hcy (hRv c hcR)
        · rw [hio]; simp [ioB]
        · intro c _ hcy; exact hpsi c hcy
        · exact psi_of_mem _ hmR v y hvyM
      · rw [hpl.kids p.1, if_neg ht]
        have hKn : (kidIds s.left p.1).Nodup := kidIds_nodup _ inv.wf p.1
        have e1 : ((kidIds s.left p.1).erase v).filter (ioB s'.inorder) =
            ((kidIds s.left p.1).erase v).filter (ioB s.inorder) := by
          apply Ord.filter_congr'
          intro c hc
          have hc' := List.mem_of_mem_erase hc
          have hcW := (kidIds_sub _ p.1 c hc').1
          exact hioB c (hLy c hcW) (fun e => ((List.Nodup.mem_erase_iff hKn).mp hc).1 e)
        rw [e1, filter_erase_of_false _ v _ (by
            cases h : ioB s.inorder v with
            | false => rfl
            | true => exact absurd ((ioB_iff _ _).mp h) hvio)]
        rw [inv.ord p hin]
        have hyk : y ∉ kidIds R p.2 := by
          intro hk
          have := parent_unique R hRn y p.2 py hk hy
          have h1 := r2lGet_of_mem s.ms inv.mR p.1 p.2 hin
          have h2 := r2lGet_of_mem s.ms inv.mR tgt py hpy
          rw [this, h2] at h1; injection h1 with h1
          exact ht h1.symm
        have e2 : (kidIds R p.2).filter (ioB s'.inorder) = (kidIds R p.2).filter (ioB s.inorder) := by
          apply Ord.filter_congr'
          intro c hc
          have hcR := (kidIds_sub _ p.2 c hc).1
          exact hioB c (fun e => hyk (e ▸ hc)) (hRv c hcR)
        rw [e2]
        apply Ord.map_congr'
        intro c hc
        have hc' := (List.mem_filter.mp hc).1
        exact (hpsi c (fun e => hyk (e ▸ hc'))).symm
  · -- unvis
    intro x hx hxA c hc hcio
    rw [hio] at hcio
    simp only [List.mem_cons] at hcio
    have hcR := (kidIds_sub R x c hc).1
    rcases hcio with h | h | h
    · -- `c = y`: then `x = py`, whose alignment has started
      rw [h] at hc
      exact hxA (parent_unique R hRn y x py hc hy ▸ hpyA)
    · exact hRv c hcR h
    · exact inv.unvis x hx hxA c hc h
  · -- vis
    intro y' hy'
    obtain ⟨l, pl, pr, h1, h2, h3, h4, h5⟩ := inv.vis y' hy'
    have hne : y' ≠ y := fun e => hyD (e ▸ hy')
    have hlv : l ≠ v := by
      intro e
      have := r2lGet_mem s.ms y' l h1
      have h6 := l2rGet_of_mem s'.ms hmL l y' (hsubM _ this)
      have h7 := l2rGet_of_mem s'.ms hmL v y hvyM
      rw [e, h7] at h6; injection h6 with h6
      exact hne h6.symm
    refine ⟨l, pl, pr, by rw [hr2l y' hne]; exact h1, by rw [hpl.pay l hlv]; exact h2, h3, h4, ?_⟩
    intro hr
    rw [hio]; exact List.mem_cons_of_mem _ (List.mem_cons_of_mem _ (h5 hr))
  · -- aligned
    intro x hx c' hc' c lx h1 h2 h3
    by_cases hcy : c' = y
    · rw [hcy, hio]; exact List.mem_cons_self
    · have hxy : x ≠ y := fun e => hyD (e ▸ hx)
      rw [hr2l c' hcy] at h1
      rw [hr2l x hxy] at h2
      have hcv : c ≠ v := by
        intro e
        have := r2lGet_mem s.ms c' c h1
        have h6 := l2rGet_of_mem s'.ms hmL c c' (hsubM _ this)
        have h7 := l2rGet_of_mem s'.ms hmL v y hvyM
        rw [e, h7] at h6; injection h6 with h6
        exact hcy h6.symm
      have h3' : c ∈ kidIds s.left lx := (hpl.kid_old c lx hcv).mp h3
      have := inv.aligned x hx c' hc' c lx h1 h2 h3'
      rw [hio]; exact List.mem_cons_of_mem _ (List.mem_cons_of_mem _ this)

end Chw
end XmlDiffModel
