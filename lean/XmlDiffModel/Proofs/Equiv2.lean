/-
`applyUniq_equiv` with the relation between the old and the new renaming.
-/
import XmlDiffModel.Proofs.Equiv

namespace XmlDiffModel
namespace MapId
open Tree

/-- `applyUniq_equiv` with the new renaming made explicit: it agrees with the old one on the ids of the tree, and a
node created by the action is sent to the other side's fresh id -/
theorem applyUniq_equiv_agree (qn : QName) (a : Action) (σ : Nat → Nat) (T U : Tree) (nx nx' : Nat)
    (r : Rel σ T U nx nx') (p1 : PState) (h : applyUniq qn ⟨T, nx⟩ a = .ok p1) :
    ∃ σ' q1, applyUniq qn ⟨U, nx'⟩ a = .ok q1 ∧ Rel σ' p1.tree q1.tree p1.next q1.next ∧
      (∀ i ∈ ids T, σ' i = σ i) ∧ σ' nx = (if p1.next = nx then σ nx else nx') := by
  have hU := r.eq
  cases a <;> simp only [applyUniq, applyWith, bind, Except.bind] at h ⊢
  case deleteNode n =>
    cases hh : uniqueHit qn T n with
    | error e => rw [hh] at h; cases h
    | ok nd =>
      rw [hh] at h
      simp only at h
      have hf := uniqueHit_find qn T r.nd n nd hh
      have hin := mem_of_find nd.id T nd hf
      rw [hU, uniqueHit_mapId qn σ T n nd hh]
      simp only
      split at h
      · cases h
      · next hroot =>
        simp only [Except.ok.injEq] at h
        subst h
        have hroot' : isRoot (mapId σ T) (mapId σ nd).id = false := by
          simp only [isRoot, mapId_id, beq_eq_false_iff_ne, ne_eq]
          intro e
          apply hroot
          simp only [isRoot, beq_iff_eq]
          exact r.inj T.id (id_mem_ids T) nd.id hin e
        rw [hroot']
        simp only [Bool.false_eq_true, if_false]
        refine ⟨σ, _, rfl, ⟨?_, ?_, ?_, ?_, ?_⟩, fun _ _ => rfl, by simp⟩
        · simp only [mapId_id]
          exact remove_mapId σ nd.id T (r.sep nd.id hin)
        · exact r.inj.sub (fun a ha => (ids_remove_sublist nd.id T).subset ha)
        · exact (ids_remove_sublist nd.id T).nodup r.nd
        · exact fun i hi => r.fr i ((ids_remove_sublist nd.id T).subset hi)
        · exact fun i hi => r.fr' i ((ids_remove_sublist nd.id T).subset hi)
  case insertNode tgt tag pos =>
    cases hh : uniqueHit qn T tgt with
    | error e => rw [hh] at h; cases h
    | ok tg =>
      rw [hh] at h
      simp only [Except.ok.injEq] at h
      subst h
      have hf := uniqueHit_find qn T r.nd tgt tg hh
      have hin := mem_of_find tg.id T tg hf
      rw [hU, uniqueHit_mapId qn σ T tgt tg hh]
      simp only
      let σ' : Nat → Nat := fun x => if x = nx then nx' else σ x
      have hnx : nx ∉ ids T := fun hm => Nat.lt_irrefl _ (r.fr _ hm)
      have hagree : ∀ a ∈ ids T, σ' a = σ a := by
        intro a ha
        have : a ≠ nx := fun e => hnx (e ▸ ha)
        simp [σ', this]
      have hsep : Sep σ' tg.id (ids T) := by
        intro a ha e
        rw [hagree a ha, hagree tg.id hin] at e
        exact r.inj a ha tg.id hin e
      refine ⟨σ', _, rfl, ⟨?_, ?_, ?_, ?_, ?_⟩, hagree, by simp [σ']⟩
      · simp only [mapId_id]
        rw [← insertChild_mapId σ' tg.id pos _ T hsep, mapId_congr σ' σ T hagree, hagree tg.id hin]
        simp [mapId, mapIdL, σ']
      · intro a ha b hb e
        have hnew : ∀ x, x ∈ ids T → σ' x ≠ σ' nx := by
          intro x hx e2
          rw [hagree x hx] at e2
          have := r.fr' x hx
          simp only [σ', if_true] at e2
          omega
        have ha' := mem_ids_insertChild _ _ _ _ a ha
        have hb' := mem_ids_insertChild _ _ _ _ b hb
        simp only [ids, idsL, List.mem_cons, List.mem_nil_iff, or_false, List.append_nil] at ha' hb'
        rcases ha' with ha1 | ha2
        · rcases hb' with hb1 | hb2
          · rw [hagree a ha1, hagree b hb1] at e
            exact r.inj a ha1 b hb1 e
          · rw [hb2] at e
            exact absurd e (hnew a ha1)
        · rcases hb' with hb1 | hb2
          · rw [ha2] at e
            exact absurd e.symm (hnew b hb1)
          · rw [ha2, hb2]
      · apply nodup_insertChild _ _ _ _ r.nd (by simp [ids, idsL])
        intro y hy
        simp only [ids, idsL, List.mem_cons, List.mem_nil_iff, or_false] at hy
        subst hy; exact hnx
      · intro i hi
        rcases mem_ids_insertChild _ _ _ _ i hi with hi | hi
        · exact Nat.lt_succ_of_lt (r.fr i hi)
        · simp only [ids, idsL, List.mem_cons, List.mem_nil_iff, or_false] at hi
          subst hi; exact Nat.lt_succ_self _
      · intro i hi
        rcases mem_ids_insertChild _ _ _ _ i hi with hi | hi
        · rw [hagree i hi]; exact Nat.lt_succ_of_lt (r.fr' i hi)
        · simp only [ids, idsL, List.mem_cons, List.mem_nil_iff, or_false] at hi
          subst hi
          simp [σ']
  case insertComment tgt pos text =>
    cases hh : uniqueHit qn T tgt with
    | error e => rw [hh] at h; cases h
    | ok tg =>
      rw [hh] at h
      simp only [Except.ok.injEq] at h
      subst h
      have hf := uniqueHit_find qn T r.nd tgt tg hh
      have hin := mem_of_find tg.id T tg hf
      rw [hU, uniqueHit_mapId qn σ T tgt tg hh]
      simp only
      let σ' : Nat → Nat := fun x => if x = nx then nx' else σ x
      have hnx : nx ∉ ids T := fun hm => Nat.lt_irrefl _ (r.fr _ hm)
      have hagree : ∀ a ∈ ids T, σ' a = σ a := by
        intro a ha
        have : a ≠ nx := fun e => hnx (e ▸ ha)
        simp [σ', this]
      have hsep : Sep σ' tg.id (ids T) := by
        intro a ha e
        rw [hagree a ha, hagree tg.id hin] at e
        exact r.inj a ha tg.id hin e
      refine ⟨σ', _, rfl, ⟨?_, ?_, ?_, ?_, ?_⟩, hagree, by simp [σ']⟩
      · simp only [mapId_id]
        rw [← insertChild_mapId σ' tg.id pos _ T hsep, mapId_congr σ' σ T hagree, hagree tg.id hin]
        simp [mapId, mapIdL, σ']
      · intro a ha b hb e
        have hnew : ∀ x, x ∈ ids T → σ' x ≠ σ' nx := by
          intro x hx e2
          rw [hagree x hx] at e2
          have := r.fr' x hx
          simp only [σ', if_true] at e2
          omega
        have ha' := mem_ids_insertChild _ _ _ _ a ha
        have hb' := mem_ids_insertChild _ _ _ _ b hb
        simp only [ids, idsL, List.mem_cons, List.mem_nil_iff, or_false, List.append_nil] at ha' hb'
        rcases ha' with ha1 | ha2
        · rcases hb' with hb1 | hb2
          · rw [hagree a ha1, hagree b hb1] at e
            exact r.inj a ha1 b hb1 e
          · rw [hb2] at e
            exact absurd e (hnew a ha1)
        · rcases hb' with hb1 | hb2
          · rw [ha2] at e
            exact absurd e.symm (hnew b hb1)
          · rw [ha2, hb2]
      · apply nodup_insertChild _ _ _ _ r.nd (by simp [ids, idsL])
        intro y hy
        simp only [ids, idsL, List.mem_cons, List.mem_nil_iff, or_false] at hy
        subst hy; exact hnx
      · intro i hi
        rcases mem_ids_insertChild _ _ _ _ i hi with hi | hi
        · exact Nat.lt_succ_of_lt (r.fr i hi)
        · simp only [ids, idsL, List.mem_cons, List.mem_nil_iff, or_false] at hi
          subst hi; exact Nat.lt_succ_self _
      · intro i hi
        rcases mem_ids_insertChild _ _ _ _ i hi with hi | hi
        · rw [hagree i hi]; exact Nat.lt_succ_of_lt (r.fr' i hi)
        · simp only [ids, idsL, List.mem_cons, List.mem_nil_iff, or_false] at hi
          subst hi
          simp [σ']
  case moveNode n tgt pos =>
    cases hh : uniqueHit qn T n with
    | error e => rw [hh] at h; cases h
    | ok nd =>
      rw [hh] at h
      simp only at h
      cases ht : uniqueHit qn T tgt with
      | error e => rw [ht] at h; cases h
      | ok tg =>
        rw [ht] at h
        simp only at h
        have hf := uniqueHit_find qn T r.nd n nd hh
        have hin := mem_of_find nd.id T nd hf
        have hft := uniqueHit_find qn T r.nd tgt tg ht
        have hint := mem_of_find tg.id T tg hft
        rw [hU, uniqueHit_mapId qn σ T n nd hh, uniqueHit_mapId qn σ T tgt tg ht]
        simp only
        split at h
        · cases h
        · next hroot =>
          simp only [Except.ok.injEq] at h
          subst h
          have hroot' : isRoot (mapId σ T) (mapId σ nd).id = false := by
            simp only [isRoot, mapId_id, beq_eq_false_iff_ne, ne_eq]
            intro e
            apply hroot
            simp only [isRoot, beq_iff_eq]
            exact r.inj T.id (id_mem_ids T) nd.id hin e
          have hr : T.id ≠ nd.id := by
            intro e
            apply hroot
            simp only [isRoot, beq_iff_eq]
            exact e
          rw [hroot']
          simp only [Bool.false_eq_true, if_false]
          refine ⟨σ, _, rfl, ⟨?_, ?_, ?_, ?_, ?_⟩, fun _ _ => rfl, by simp⟩
          · simp only [mapId_id]
            rw [remove_mapId σ nd.id T (r.sep nd.id hin)]
            exact insertChild_mapId σ tg.id pos nd _
              ((r.sep tg.id hint).sub (fun a ha => (ids_remove_sublist nd.id T).subset ha))
          · exact r.inj.sub (fun a ha => mem_ids_move nd.id tg.id pos T nd hf a ha)
          · exact nodup_move nd.id tg.id pos T nd r.nd hf hr
          · exact fun i hi => r.fr i (mem_ids_move nd.id tg.id pos T nd hf i hi)
          · exact fun i hi => r.fr' i (mem_ids_move nd.id tg.id pos T nd hf i hi)
  case insertNamespace => simp only [Except.ok.injEq] at h; subst h; exact ⟨σ, _, rfl, r, fun _ _ => rfl, by simp⟩
  case deleteNamespace => simp only [Except.ok.injEq] at h; subst h; exact ⟨σ, _, rfl, r, fun _ _ => rfl, by simp⟩
  case renameNode n tag =>
    cases hh : uniqueHit qn T n with
    | error e => rw [hh] at h; cases h
    | ok nd =>
      rw [hh] at h
      simp only [Except.ok.injEq] at h
      subst h
      have hin := mem_of_find nd.id T nd (uniqueHit_find qn T r.nd n nd hh)
      rw [hU, uniqueHit_mapId qn σ T n nd hh]
      simp only [mapId_id]
      exact ⟨σ, _, rfl, by rw [← hU]; exact rel_modify r nd.id hin _, fun _ _ => rfl, by simp⟩
  case updateTextIn n t =>
    cases hh : uniqueHit qn T n with
    | error e => rw [hh] at h; cases h
    | ok nd =>
      rw [hh] at h
      simp only [Except.ok.injEq] at h
      subst h
      have hin := mem_of_find nd.id T nd (uniqueHit_find qn T r.nd n nd hh)
      rw [hU, uniqueHit_mapId qn σ T n nd hh]
      simp only [mapId_id]
      exact ⟨σ, _, rfl, by rw [← hU]; exact rel_modify r nd.id hin _, fun _ _ => rfl, by simp⟩
  case updateTextAfter n t =>
    cases hh : uniqueHit qn T n with
    | error e => rw [hh] at h; cases h
    | ok nd =>
      rw [hh] at h
      simp only [Except.ok.injEq] at h
      subst h
      have hin := mem_of_find nd.id T nd (uniqueHit_find qn T r.nd n nd hh)
      rw [hU, uniqueHit_mapId qn σ T n nd hh]
      simp only [mapId_id]
      exact ⟨σ, _, rfl, by rw [← hU]; exact rel_modify r nd.id hin _, fun _ _ => rfl, by simp⟩
  case updateAttrib n name value =>
    cases hh : uniqueHit qn T n with
    | error e => rw [hh] at h; cases h
    | ok nd =>
      rw [hh] at h
      simp only at h
      have hin := mem_of_find nd.id T nd (uniqueHit_find qn T r.nd n nd hh)
      rw [hU, uniqueHit_mapId qn σ T n nd hh]
      simp only [mapId_id, mapId_payload]
      split at h
      · cases h
      · next hc =>
        simp only [Except.ok.injEq] at h
        subst h
        rw [if_neg hc]
        exact ⟨σ, _, rfl, by rw [← hU]; exact rel_modify r nd.id hin _, fun _ _ => rfl, by simp⟩
  case deleteAttrib n name =>
    cases hh : uniqueHit qn T n with
    | error e => rw [hh] at h; cases h
    | ok nd =>
      rw [hh] at h
      simp only at h
      have hin := mem_of_find nd.id T nd (uniqueHit_find qn T r.nd n nd hh)
      rw [hU, uniqueHit_mapId qn σ T n nd hh]
      simp only [mapId_id, mapId_payload]
      split at h
      · cases h
      · next hc =>
        simp only [Except.ok.injEq] at h
        subst h
        rw [if_neg hc]
        exact ⟨σ, _, rfl, by rw [← hU]; exact rel_modify r nd.id hin _, fun _ _ => rfl, by simp⟩
  case insertAttrib n name value =>
    cases hh : uniqueHit qn T n with
    | error e => rw [hh] at h; cases h
    | ok nd =>
      rw [hh] at h
      simp only at h
      have hin := mem_of_find nd.id T nd (uniqueHit_find qn T r.nd n nd hh)
      rw [hU, uniqueHit_mapId qn σ T n nd hh]
      simp only [mapId_id, mapId_payload]
      split at h
      · cases h
      · next hc =>
        simp only [Except.ok.injEq] at h
        subst h
        rw [if_neg hc]
        exact ⟨σ, _, rfl, by rw [← hU]; exact rel_modify r nd.id hin _, fun _ _ => rfl, by simp⟩
  case renameAttrib n old new =>
    cases hh : uniqueHit qn T n with
    | error e => rw [hh] at h; cases h
    | ok nd =>
      rw [hh] at h
      simp only at h
      have hin := mem_of_find nd.id T nd (uniqueHit_find qn T r.nd n nd hh)
      rw [hU, uniqueHit_mapId qn σ T n nd hh]
      simp only [mapId_id, mapId_payload]
      split at h
      · cases h
      · next v hv =>
        split at h
        · cases h
        · next hc =>
          simp only [Except.ok.injEq] at h
          subst h
          rw [if_neg hc]
          exact ⟨σ, _, rfl, by rw [← hU]; exact rel_modify r nd.id hin _, fun _ _ => rfl, by simp⟩

end MapId
end XmlDiffModel
