/-
C17, the attribute-action bound for a whole script: no more attribute actions than there are (non-ignored) attributes
in the two documents together.

A potential is threaded through the generator: the attributes of the nodes of the working copy whose partner has not
been visited yet (or that have no partner).  Visiting a right node `x` with partner `l` emits at most
`|attrs l| + |attrs x|` attribute actions (`AttrCount.updateAttrs_count`) and takes `l` out of the potential; no other
step changes the attributes of any other node, and each left node is the partner of one right node only.
-/
import XmlDiffModel.Proofs.Counts2
import XmlDiffModel.Proofs.AttrCount

namespace XmlDiffModel
namespace AttrTotal
open Tree Chw C17 AttrCount

/-! ### sums over duplicate-free lists -/

theorem sum_map_erase {α : Type} [DecidableEq α] (g : α → Nat) (B : List α) (a : α) (h : a ∈ B) :
    (B.map g).sum = g a + ((B.erase a).map g).sum := by
  induction B with
  | nil => cases h
  | cons b rest ih =>
    by_cases e : b = a
    · subst e; simp
    · have : a ∈ rest := by
        simp only [List.mem_cons] at h
        rcases h with h | h
        · exact absurd h.symm e
        · exact h
      rw [List.erase_cons_tail (by simpa using e)]
      simp only [List.map_cons, List.sum_cons, ih this]
      omega

theorem sum_le_of_nodup {α : Type} [DecidableEq α] (f g : α → Nat) : ∀ (A B : List α), A.Nodup →
    (∀ a ∈ A, a ∈ B ∧ f a ≤ g a) → (A.map f).sum ≤ (B.map g).sum := by
  intro A
  induction A with
  | nil => intro B _ _; simp
  | cons a rest ih =>
    intro B hn h
    rw [List.nodup_cons] at hn
    obtain ⟨haB, hfa⟩ := h a (by simp)
    have := ih (B.erase a) hn.2 (by
      intro c hc
      have hca : c ≠ a := fun e => hn.1 (e ▸ hc)
      exact ⟨(List.mem_erase_of_ne hca).2 (h c (by simp [hc])).1, (h c (by simp [hc])).2⟩)
    rw [sum_map_erase g B a haB]
    simp only [List.map_cons, List.sum_cons]
    omega

/-! ### payloads under the tree surgery of the generator -/

mutual
  theorem insertChild_absent (tgt pos : Nat) (sub t : Tree) (h : tgt ∉ ids t) : insertChild tgt pos sub t = t := by
    match t with
    | .node j p ks =>
      simp only [ids, List.mem_cons, not_or] at h
      unfold insertChild
      rw [if_neg (fun e => h.1 e.symm), insertChildL_absent tgt pos sub ks h.2]
  theorem insertChildL_absent (tgt pos : Nat) (sub : Tree) (ts : List Tree) (h : tgt ∉ idsL ts) :
      insertChildL tgt pos sub ts = ts := by
    match ts with
    | [] => rfl
    | t :: rest =>
      simp only [idsL, List.mem_append, not_or] at h
      unfold insertChildL
      rw [insertChild_absent tgt pos sub t h.1, insertChildL_absent tgt pos sub rest h.2]
end

/-- `remove` + `insert` of a subtree keeps the payload of every node that is still there - also when the target lies
inside the moved subtree (then the subtree is simply gone) -/
theorem payOf_moveIn (t : Tree) (i tgt pos : Nat) (sub : Tree) (hn : (ids t).Nodup) (hf : find i t = some sub)
    (hr : t.id ≠ i) (j : Nat) (hj : j ∈ ids (moved t i tgt pos sub)) : payOf (moved t i tgt pos sub) j = payOf t j := by
  by_cases h1 : tgt ∈ ids t ∧ tgt ∉ ids sub
  · exact payOf_moved t i tgt pos sub ⟨hn, hf, hr, h1.1, h1.2⟩ j
  · have habs : tgt ∉ ids (remove i t) := by
      intro hm
      exact h1 ((mem_ids_remove i t sub hn hf hr tgt).1 hm)
    unfold moved at hj ⊢
    rw [insertChild_absent tgt pos sub _ habs] at hj ⊢
    exact payOf_remove i t sub hn hf hr j ((mem_ids_remove i t sub hn hf hr j).1 hj).2

/-! ### the potential -/

/-- number of non-ignored attributes of node `i` of the tree (0 if there is no such node) -/
def asz (ign : List Str) (t : Tree) (i : Nat) : Nat :=
  match payOf t i with
  | some p => (nodeAttribs ign p.attrs).length
  | none => 0

/-- `i` has no partner, or its partner has not been visited -/
def pendP (ms : Matches) (D : List Nat) (i : Nat) : Bool :=
  match l2rGet ms i with
  | some r => !D.contains r
  | none => true

def pend (ign : List Str) (s : DState) (D : List Nat) : Nat :=
  (((ids s.left).filter (pendP s.ms D)).map (asz ign s.left)).sum

/-- the same without the node `l` that is being processed -/
def pendX (ign : List Str) (s : DState) (D : List Nat) (l : Nat) : Nat :=
  (((ids s.left).filter (fun i => i != l && pendP s.ms D i)).map (asz ign s.left)).sum

theorem asz_congr (ign : List Str) (t t' : Tree) (i : Nat) (h : payOf t' i = payOf t i) : asz ign t' i = asz ign t i := by
  unfold asz; rw [h]

/-- a step that adds no node, leaves the matching alone and the payload of every node but `l` -/
theorem pendX_mono (ign : List Str) (s s' : DState) (D : List Nat) (l : Nat) (hn : (ids s'.left).Nodup)
    (hsub : ∀ i ∈ ids s'.left, i ∈ ids s.left) (hms : s'.ms = s.ms)
    (hpay : ∀ i ∈ ids s'.left, i ≠ l → payOf s'.left i = payOf s.left i) : pendX ign s' D l ≤ pendX ign s D l := by
  unfold pendX
  apply sum_le_of_nodup _ _ _ _ (hn.filter _)
  intro a ha
  rw [List.mem_filter] at ha ⊢
  obtain ⟨h1, h2⟩ := ha
  have hal : a ≠ l := by
    intro e
    simp [e] at h2
  refine ⟨⟨hsub a h1, by rw [← hms]; exact h2⟩, Nat.le_of_eq (asz_congr ign _ _ a (hpay a h1 hal))⟩

/-- the insert step: the new node is `l` itself -/
theorem pendX_ins (ign : List Str) (s s' : DState) (D : List Nat) (l x : Nat) (hn : (ids s'.left).Nodup)
    (hsub : ∀ i ∈ ids s'.left, i = l ∨ i ∈ ids s.left) (hms : s'.ms = (l, x) :: s.ms)
    (hpay : ∀ i ∈ ids s'.left, i ≠ l → payOf s'.left i = payOf s.left i) : pendX ign s' D l ≤ pend ign s D := by
  unfold pendX pend
  apply sum_le_of_nodup _ _ _ _ (hn.filter _)
  intro a ha
  rw [List.mem_filter] at ha ⊢
  obtain ⟨h1, h2⟩ := ha
  have hal : a ≠ l := by
    intro e
    simp [e] at h2
  have hin : a ∈ ids s.left := by
    rcases hsub a h1 with e | e
    · exact absurd e hal
    · exact e
  refine ⟨⟨hin, ?_⟩, Nat.le_of_eq (asz_congr ign _ _ a (hpay a h1 hal))⟩
  simp only [Bool.and_eq_true] at h2
  have := h2.2
  unfold pendP at this ⊢
  rw [hms] at this
  simp only [l2rGet] at this
  rw [if_neg (fun e => hal e.symm)] at this
  exact this

/-! ### steps that emit no attribute action and leave every node but `l` alone -/

structure Quiet (l : Nat) (s s' : DState) : Prop where
  sub : ∀ i ∈ ids s'.left, i ∈ ids s.left
  ms : s'.ms = s.ms
  pay : ∀ i ∈ ids s'.left, i ≠ l → payOf s'.left i = payOf s.left i
  acnt : cnt s'.out = cnt s.out

theorem Quiet.refl (l : Nat) (s : DState) : Quiet l s s := ⟨fun _ h => h, rfl, fun _ _ _ => rfl, rfl⟩

theorem Quiet.trans {l : Nat} {s s1 s2 : DState} (h1 : Quiet l s s1) (h2 : Quiet l s1 s2) : Quiet l s s2 :=
  ⟨fun i hi => h1.sub i (h2.sub i hi), h2.ms.trans h1.ms,
   fun i hi hl => (h2.pay i hi hl).trans (h1.pay i (h2.sub i hi) hl), h2.acnt.trans h1.acnt⟩

theorem Quiet.pendX {l : Nat} {s s' : DState} (q : Quiet l s s') (ign : List Str) (D : List Nat)
    (hn : (ids s'.left).Nodup) : pendX ign s' D l ≤ pendX ign s D l :=
  pendX_mono ign s s' D l hn q.sub q.ms q.pay

theorem quiet_of_mod {s s' : DState} {l : Nat} {f : Payload → Payload} (m : ModBy s s' l f) (hn : (ids s.left).Nodup)
    (hc : cnt s'.out = cnt s.out) : Quiet l s s' := by
  refine ⟨fun i hi => by rw [m.left, ids_modify] at hi; exact hi, m.ms, ?_, hc⟩
  intro i _ hl
  rw [m.left, payOf_modify l f _ hn, if_neg hl]

theorem cnt_cons (a : Action) (out : List Action) (h : isAttr a = false) : cnt (a :: out) = cnt out := by
  simp [cnt, List.countP_cons, h]

theorem renameStep_quiet (qn : QName) (l : Nat) (x : Payload) (s s' : DState) (hn : (ids s.left).Nodup)
    (h : renameStep qn l x s = .ok s') : Quiet l s s' := by
  refine quiet_of_mod (renameStep_shape qn l x s s' hn h).2 hn ?_
  unfold renameStep at h
  split at h
  · cases h
  · split at h
    · simp only [bind, Except.bind] at h
      split at h
      · cases h
      · simp only [pure, Except.pure, Except.ok.injEq] at h
        subst h
        exact cnt_cons _ _ rfl
    · simp only [pure, Except.pure, Except.ok.injEq] at h
      subst h; rfl

theorem updateText_quiet (qn : QName) (l : Nat) (x : Payload) (s s' : DState) (hn : (ids s.left).Nodup)
    (h : updateText qn l x s = .ok s') : Quiet l s s' := by
  refine quiet_of_mod (updateText_shape qn l x s s' hn h) hn ?_
  unfold updateText at h
  split at h
  · cases h
  · next ln hln =>
    simp only [bind, Except.bind] at h
    split at h
    · cases h
    · next path hpath =>
      simp only [Except.ok.injEq] at h
      subst h
      unfold tailStep textStep
      by_cases h1 : ln.payload.text ≠ x.text <;> by_cases h2 : ln.payload.tail ≠ x.tail
      · rw [if_pos h1, if_pos h2]; simp only; rw [cnt_cons _ _ rfl, cnt_cons _ _ rfl]
      · rw [if_pos h1, if_neg h2]; exact cnt_cons _ _ rfl
      · rw [if_neg h1, if_pos h2]; exact cnt_cons _ _ rfl
      · rw [if_neg h1, if_neg h2]

theorem moveStep_quiet (qn : QName) (R x : Tree) (l : Nat) (lt : Option Nat) (s s' : DState) (l0 : Nat)
    (hn : (ids s.left).Nodup) (h : moveStep qn R x l lt s = .ok s') : Quiet l0 s s' := by
  rcases moveStep_shape2 qn R x l lt s s' hn h with e | ⟨tgt, pos, sub, p1, p2, _, _, _, _, hf, hr, e⟩
  · rw [e]; exact Quiet.refl l0 s
  · rw [e]
    refine ⟨fun i hi => mem_ids_move l tgt pos s.left sub hf i hi, rfl, ?_, cnt_cons _ _ rfl⟩
    intro i hi _
    exact payOf_moveIn s.left l tgt pos sub hn hf hr i hi

theorem alignMoves_quiet (f0 : Nat) (qn : QName) (ign : List Str) (R : Tree) (l : Nat) (cs : List Nat) (s s' : DState)
    (l0 : Nat) (c : CI f0 s) (hroot : ∀ a ∈ cs, s.left.id ≠ a) (h : alignMoves qn R l cs s = .ok s') :
    Quiet l0 s s' := by
  induction cs generalizing s with
  | nil =>
    simp only [alignMoves, Except.ok.injEq] at h
    subst h; exact Quiet.refl l0 s
  | cons lc rest ih =>
    obtain ⟨s1, h1, h2⟩ := alignMoves_split qn R l lc rest s s' h
    have hr1 : ∀ a ∈ [lc], s.left.id ≠ a := fun a ha => by simp at ha; rw [ha]; exact hroot lc (by simp)
    have r1 := alignMoves_res f0 qn ign R l [lc] s s1 c hr1 h1
    obtain ⟨_, st⟩ := alignMoves_steps qn ign R l [lc] s s1 c.sok hr1 h1
    have q1 : Quiet l0 s s1 := by
      rcases alignMoves_one_shape2 qn R l lc s s1 h1 with e |
        ⟨rc, rp, lt, pos, sub, p1, p2, _, _, _, hfl, _, _, _, _, e⟩
      · rw [e]; exact Quiet.refl l0 s
      · rw [e]
        refine ⟨fun i hi => mem_ids_move lc lt pos s.left sub hfl i hi, rfl, ?_, cnt_cons _ _ rfl⟩
        intro i hi _
        exact payOf_moveIn s.left lc lt pos sub c.sok.nodup hfl (hroot lc (by simp)) i hi
    exact q1.trans (ih s1 r1.ci (fun a ha => by rw [st.rootid]; exact hroot a (by simp [ha])) h2)

theorem alignChildren_quiet (f0 : Nat) (qn : QName) (ign : List Str) (R : Tree) (l : Nat) (x : Tree) (s s' : DState)
    (l0 : Nat) (c : CI f0 s) (h : alignChildren qn R l x s = .ok s') : Quiet l0 s s' := by
  unfold alignChildren at h
  cases hfl : find l s.left with
  | none => rw [hfl] at h; cases h
  | some ln =>
    rw [hfl] at h
    simp only at h
    have hK : ln.kids.map Tree.id = kidIds s.left l := by unfold kidIds; rw [hfl]
    generalize hlch : (ln.kids.map Tree.id).filter (fun a =>
      match l2rGet s.ms a with
      | some r => (R.parentOf r).map Tree.id == some x.id
      | none => false) = lch at h
    have hmem : ∀ a ∈ lch, a ∈ kidIds s.left l := by
      intro a ha
      rw [← hlch, List.mem_filter] at ha
      exact hK ▸ ha.1
    split at h
    · simp only [Except.ok.injEq] at h
      subst h; exact Quiet.refl l0 s
    · split at h
      · have q := alignMoves_quiet f0 qn ign R l lch _ s' l0 (c.setIO _) (by
          intro a ha e
          have hk := hmem a ha
          have := (parId_iff _ c.sok.nodup a l).mpr hk
          simp only at e
          rw [← e, root_no_parent _ c.sok.nodup] at this
          cases this) h
        exact ⟨q.sub, q.ms, q.pay, q.acnt⟩
      · cases h

/-! ### the two steps that are not quiet -/

theorem updateAttrStep_attr (qn : QName) (ign : List Str) (l : Nat) (x : Payload) (s s' : DState)
    (hn : (ids s.left).Nodup) (h : updateAttrStep qn ign l x s = .ok s') :
    (∀ i ∈ ids s'.left, i ∈ ids s.left) ∧ s'.ms = s.ms ∧
      (∀ i ∈ ids s'.left, i ≠ l → payOf s'.left i = payOf s.left i) ∧
      cnt s'.out ≤ cnt s.out + asz ign s.left l + (nodeAttribs ign x.attrs).length := by
  obtain ⟨ln, path, hfl, m⟩ := updateAttrStep_shape qn ign l x s s' h
  refine ⟨fun i hi => by rw [m.left, ids_modify] at hi; exact hi, m.ms, ?_, ?_⟩
  · intro i _ hl
    rw [m.left, payOf_modify l _ _ hn, if_neg hl]
  · unfold updateAttrStep at h
    rw [hfl] at h
    simp only [bind, Except.bind] at h
    split at h
    · cases h
    · next p hp =>
      have hc := updateAttrs_count ign p ln.payload.attrs x.attrs s.out
      generalize updateAttrs ign p ln.payload.attrs x.attrs s.out = res at h hc
      obtain ⟨las, out⟩ := res
      simp only [Except.ok.injEq] at h
      subst h
      have : asz ign s.left l = (nodeAttribs ign ln.payload.attrs).length := by
        unfold asz payOf; rw [hfl]; rfl
      rw [this]
      exact hc

theorem insertStep_attr (qn : QName) (ign : List Str) (R x : Tree) (lt : Option Nat) (s s' : DState) (l : Nat)
    (hs : SOK s) (h : insertStep qn R x lt s = .ok (l, s')) :
    l = s.next ∧ (∀ i ∈ ids s'.left, i = l ∨ i ∈ ids s.left) ∧ s'.ms = (l, x.id) :: s.ms ∧
      (∀ i ∈ ids s'.left, i ≠ l → payOf s'.left i = payOf s.left i) ∧ cnt s'.out = cnt s.out ∧
      asz ign s'.left l = 0 := by
  cases lt with
  | none =>
    simp only [insertStep, bind, Except.bind, throw, throwThe, MonadExceptOf.throw] at h
    split at h <;> cases h
  | some tgt =>
    simp only [insertStep, bind, Except.bind, pure, Except.pure] at h
    split at h
    · cases h
    · next pos hpos =>
      split at h
      · cases h
      · next tp htp =>
        have hfresh : s.next ∉ ids s.left := fun hm => Nat.lt_irrefl _ (hs.fresh _ hm)
        have key : ∀ (act : Action) (pl : Payload), isAttr act = false → pl.attrs = [] → l = s.next →
            s' = { left := Tree.insertChild tgt pos (.node s.next pl []) s.left, ms := (s.next, x.id) :: s.ms,
                   inorder := x.id :: s.next :: s.inorder, out := act :: s.out, next := s.next + 1 } →
            l = s.next ∧ (∀ i ∈ ids s'.left, i = l ∨ i ∈ ids s.left) ∧ s'.ms = (l, x.id) :: s.ms ∧
              (∀ i ∈ ids s'.left, i ≠ l → payOf s'.left i = payOf s.left i) ∧ cnt s'.out = cnt s.out ∧
              asz ign s'.left l = 0 := by
          intro act pl h1 h2 hl e
          subst hl
          rw [e]
          refine ⟨rfl, ?_, rfl, ?_, cnt_cons _ _ h1, ?_⟩
          · intro i hi
            rcases mem_ids_insertChild tgt pos _ _ i hi with hi | hi
            · exact Or.inr hi
            · left; simpa [ids, idsL] using hi
          · intro i _ hne
            apply payOf_insertChild_old tgt pos _ _ hs.nodup i
            simpa [ids, idsL] using hne
          · unfold asz
            simp only
            by_cases ht : tgt ∈ ids s.left
            · rw [payOf_insertChild_new tgt pos _ _ ht _ hfresh]
              simp [payOf, find, Tree.payload, h2, nodeAttribs]
            · rw [insertChild_absent tgt pos _ _ ht]
              have : payOf s.left s.next = none := by
                unfold payOf; rw [find_none _ _ hfresh]; rfl
              rw [this]
        cases hk : x.payload.kind with
        | comment =>
          simp only [hk, Except.ok.injEq, Prod.mk.injEq] at h
          exact key _ _ rfl rfl h.1.symm h.2.symm
        | elem =>
          simp only [hk, Except.ok.injEq, Prod.mk.injEq] at h
          exact key _ _ rfl rfl h.1.symm h.2.symm

/-! ### one iteration of the main loop -/

theorem pend_done (ign : List Str) (s : DState) (D : List Nat) (l x : Nat) (hn : (ids s.left).Nodup)
    (hl : l2rGet s.ms l = some x) : pend ign s (x :: D) ≤ pendX ign s D l := by
  unfold pend pendX
  apply sum_le_of_nodup _ _ _ _ (hn.filter _)
  intro a ha
  rw [List.mem_filter] at ha ⊢
  obtain ⟨h1, h2⟩ := ha
  refine ⟨⟨h1, ?_⟩, Nat.le_refl _⟩
  unfold pendP at h2 ⊢
  simp only [Bool.and_eq_true, bne_iff_ne, ne_eq]
  constructor
  · intro e
    subst e
    rw [hl] at h2
    simp at h2
  · cases hr : l2rGet s.ms a with
    | none => rfl
    | some r =>
      rw [hr] at h2
      simp only [List.contains_cons, Bool.not_or, Bool.and_eq_true] at h2
      exact h2.2

theorem pendX_le_pend (ign : List Str) (s : DState) (D : List Nat) (l : Nat) (hn : (ids s.left).Nodup) :
    pendX ign s D l ≤ pend ign s D := by
  unfold pend pendX
  apply sum_le_of_nodup _ _ _ _ (hn.filter _)
  intro a ha
  rw [List.mem_filter] at ha ⊢
  simp only [Bool.and_eq_true] at ha
  exact ⟨⟨ha.1, ha.2.2⟩, Nat.le_refl _⟩

theorem pendX_add (ign : List Str) (s : DState) (D : List Nat) (l x : Nat) (hn : (ids s.left).Nodup)
    (hl : l2rGet s.ms l = some x) (hx : x ∉ D) : pendX ign s D l + asz ign s.left l ≤ pend ign s D := by
  by_cases hm : l ∈ ids s.left
  · unfold pend pendX
    have hmem : l ∈ (ids s.left).filter (pendP s.ms D) := by
      rw [List.mem_filter]
      refine ⟨hm, ?_⟩
      unfold pendP
      rw [hl]
      simpa [List.contains_iff_mem] using hx
    rw [sum_map_erase (asz ign s.left) _ l hmem]
    have e : ((ids s.left).filter (pendP s.ms D)).erase l =
        (ids s.left).filter (fun i => i != l && pendP s.ms D i) := by
      rw [List.Nodup.erase_eq_filter (hn.filter _), List.filter_filter]
    rw [e]; omega
  · have : asz ign s.left l = 0 := by
      unfold asz payOf
      rw [find_none _ _ hm]; rfl
    rw [this]
    exact pendX_le_pend ign s D l hn

theorem visit_attr (f0 : Nat) (qn : QName) (cfg : Cfg) (R : Tree) (hRn : (ids R).Nodup) (x : Tree)
    (hx : find x.id R = some x) (hattr : (keys x.payload.attrs).Nodup) (s s' : DState) (c : CI f0 s) (D : List Nat)
    (hxD : x.id ∉ D) (h : visit qn cfg R x s = .ok s') :
    cnt s'.out + pend cfg.ignored s' (x.id :: D) ≤
      cnt s.out + pend cfg.ignored s D + (nodeAttribs cfg.ignored x.payload.attrs).length := by
  have hres := visit_res f0 qn cfg R hRn x hx hattr s s' c h
  unfold visit at h
  simp only at h
  cases hun : r2lGet s.ms x.id with
  | none =>
    rw [hun] at h
    simp only [bind, Except.bind] at h
    split at h
    · cases h
    · next res hins =>
      obtain ⟨l, s1⟩ := res
      simp only at h
      split at h
      · cases h
      · next s2 hattrs =>
        have r1 := insertStep_res f0 qn cfg.ignored R x _ s s1 l c hun hins
        have r2 := updateAttrStep_res f0 qn cfg.ignored l x.payload s1 s2 r1.ci hattr hattrs
        obtain ⟨_, i1, i2, i3, i4, i5⟩ := insertStep_attr qn cfg.ignored R x _ s s1 l c.sok hins
        obtain ⟨a1, a2, a3, a4⟩ := updateAttrStep_attr qn cfg.ignored l x.payload s1 s2 r1.ci.sok.nodup hattrs
        -- the tail of the iteration
        unfold visitTail at h
        simp only [bind, Except.bind] at h
        split at h
        · cases h
        · next s3 hal =>
          have r3 := alignChildren_res f0 qn cfg.ignored R hRn l x hx s2 s3 r2.ci hal
          have q3 := alignChildren_quiet f0 qn cfg.ignored R l x s2 s3 l r2.ci hal
          split at h
          · next l' hl' =>
            have q4 := updateText_quiet qn l' x.payload s3 s' r3.ci.sok.nodup h
            have hl2 : l2rGet s'.ms l = some x.id := by
              rw [q4.ms, q3.ms, a2, i2]; simp [l2rGet]
            have hl'l : l' = l := by
              have : r2lGet s3.ms x.id = some l := by rw [q3.ms, a2, i2]; simp [r2lGet]
              rw [this] at hl'; injection hl' with hl'; exact hl'.symm
            subst hl'l
            have p4 := q4.pendX cfg.ignored D hres.ci.sok.nodup
            have p3 := q3.pendX cfg.ignored D r3.ci.sok.nodup
            have p2 := pendX_mono cfg.ignored s1 s2 D l' r2.ci.sok.nodup a1 a2 a3
            have p1 := pendX_ins cfg.ignored s s1 D l' x.id r1.ci.sok.nodup i1 i2 i3
            have pd := pend_done cfg.ignored s' D l' x.id hres.ci.sok.nodup hl2
            have c4 := q4.acnt
            have c3 := q3.acnt
            omega
          · cases h
  | some l =>
    rw [hun] at h
    simp only [bind, Except.bind] at h
    split at h
    · cases h
    · next s1 hmove =>
      split at h
      · cases h
      · next s2 hren =>
        split at h
        · cases h
        · next s3 hattrs =>
          have r1 := moveStep_res f0 qn cfg.ignored R x l _ s s1 c hmove
          have r2 := renameStep_res f0 qn cfg.ignored l x.payload s1 s2 r1.ci hren
          have r3 := updateAttrStep_res f0 qn cfg.ignored l x.payload s2 s3 r2.ci hattr hattrs
          have q1 := moveStep_quiet qn R x l _ s s1 l c.sok.nodup hmove
          have q1' := moveStep_quiet qn R x l _ s s1 (l + 1) c.sok.nodup hmove
          have q2 := renameStep_quiet qn l x.payload s1 s2 r1.ci.sok.nodup hren
          obtain ⟨a1, a2, a3, a4⟩ := updateAttrStep_attr qn cfg.ignored l x.payload s2 s3 r2.ci.sok.nodup hattrs
          -- the attributes of `l` are still those of the beginning
          have hasz : asz cfg.ignored s2.left l = asz cfg.ignored s.left l := by
            obtain ⟨hfound, m⟩ := renameStep_shape qn l x.payload s1 s2 r1.ci.sok.nodup hren
            have hl1 : l ∈ ids s1.left := by
              rw [Option.isSome_iff_exists] at hfound
              exact (mem_ids_iff_find l s1.left).2 hfound
            have e1 : payOf s1.left l = payOf s.left l := q1'.pay l hl1 (by omega)
            have e2 := m.pay r1.ci.sok.nodup
            unfold asz
            rw [e2, e1]
            cases payOf s.left l <;> rfl
          have hlx : l2rGet s.ms l = some x.id :=
            l2rGet_of_mem s.ms c.mL l x.id (r2lGet_mem s.ms x.id l hun)
          unfold visitTail at h
          simp only [bind, Except.bind] at h
          split at h
          · cases h
          · next s4 hal =>
            have r4 := alignChildren_res f0 qn cfg.ignored R hRn l x hx s3 s4 r3.ci hal
            have q4 := alignChildren_quiet f0 qn cfg.ignored R l x s3 s4 l r3.ci hal
            split at h
            · next l' hl' =>
              have q5 := updateText_quiet qn l' x.payload s4 s' r4.ci.sok.nodup h
              have hl'l : l' = l := by
                have : r2lGet s4.ms x.id = some l := by rw [q4.ms, a2, q2.ms, q1.ms]; exact hun
                rw [this] at hl'; injection hl' with hl'; exact hl'.symm
              subst hl'l
              have hl2 : l2rGet s'.ms l' = some x.id := by
                rw [q5.ms, q4.ms, a2, q2.ms, q1.ms]; exact hlx
              have p5 := q5.pendX cfg.ignored D hres.ci.sok.nodup
              have p4 := q4.pendX cfg.ignored D r4.ci.sok.nodup
              have p3 := pendX_mono cfg.ignored s2 s3 D l' r3.ci.sok.nodup a1 a2 a3
              have p2 := q2.pendX cfg.ignored D r2.ci.sok.nodup
              have p1 := q1.pendX cfg.ignored D r1.ci.sok.nodup
              have pd := pend_done cfg.ignored s' D l' x.id hres.ci.sok.nodup hl2
              have pa := pendX_add cfg.ignored s D l' x.id c.sok.nodup hlx hxD
              have c5 := q5.acnt
              have c4 := q4.acnt
              have c2 := q2.acnt
              have c1 := q1.acnt
              omega
            · cases h

/-! ### the loops and the whole script -/

def rattrs (ign : List Str) (xs : List Tree) : Nat :=
  (xs.map (fun x => (nodeAttribs ign x.payload.attrs).length)).sum

theorem visitAll_attr (f0 : Nat) (qn : QName) (cfg : Cfg) (R : Tree) (hRn : (ids R).Nodup) (xs : List Tree)
    (hxs : ∀ x ∈ xs, find x.id R = some x ∧ (keys x.payload.attrs).Nodup) (hnd : (xs.map Tree.id).Nodup)
    (s s' : DState) (c : CI f0 s) (D : List Nat) (hD : ∀ x ∈ xs, x.id ∉ D)
    (h : visitAll qn cfg R xs s = .ok s') :
    ∃ D', cnt s'.out + pend cfg.ignored s' D' ≤ cnt s.out + pend cfg.ignored s D + rattrs cfg.ignored xs := by
  induction xs generalizing s D with
  | nil =>
    simp only [visitAll, Except.ok.injEq] at h
    subst h
    exact ⟨D, by simp [rattrs]⟩
  | cons x rest ih =>
    simp only [visitAll, bind, Except.bind] at h
    split at h
    · cases h
    · next s1 hv =>
      simp only [List.map_cons, List.nodup_cons] at hnd
      obtain ⟨hx1, hx2⟩ := hxs x (by simp)
      have r1 := visit_res f0 qn cfg R hRn x hx1 hx2 s s1 c hv
      have a1 := visit_attr f0 qn cfg R hRn x hx1 hx2 s s1 c D (hD x (by simp)) hv
      obtain ⟨D', hD'⟩ := ih (fun y hy => hxs y (by simp [hy])) hnd.2 s1 r1.ci (x.id :: D) (by
        intro y hy hm
        simp only [List.mem_cons] at hm
        rcases hm with e | e
        · exact hnd.1 (e ▸ List.mem_map_of_mem hy)
        · exact hD y (by simp [hy]) e) h
      refine ⟨D', ?_⟩
      simp only [rattrs, List.map_cons, List.sum_cons] at hD' a1 ⊢
      omega

theorem deleteAll_attr (qn : QName) (ls : List Nat) (s s' : DState) (h : deleteAll qn ls s = .ok s') :
    cnt s'.out = cnt s.out := by
  obtain ⟨ds, hds, hall⟩ := deleteAll_out qn ls s s' h
  rw [hds]
  unfold cnt
  rw [List.countP_append]
  have : ds.countP isAttr = 0 := by
    rw [List.countP_eq_zero]
    intro a ha
    have := hall a ha
    cases a <;> simp_all [isDel, isAttr]
  omega

/-- **C17, attribute actions of a whole script**: at most the number of non-ignored attributes of the nodes of the left
document plus that of the nodes of the right document. -/
theorem scriptGen_attr_bound (qn : QName) (cfg : Cfg) (L R : Tree) (M : List (Nat × Nat)) (fresh : Nat)
    (script : List Action) (final : Tree) (hL : (ids L).Nodup) (hRn : (ids R).Nodup)
    (hfL : ∀ i ∈ ids L, i < fresh) (hM : GoodMatching L R M)
    (hA : ∀ x ∈ bfs R, (keys x.payload.attrs).Nodup)
    (h : scriptGen qn cfg L R M fresh = .ok (script, final)) :
    script.countP isAttr ≤ ((ids L).map (asz cfg.ignored L)).sum + rattrs cfg.ignored (bfs R) := by
  obtain ⟨s1, s2, hs1, hs2, rfl, _, _⟩ := scriptGen_walk qn cfg L R M fresh script final hL hRn hfL hM hA h
  obtain ⟨D', hD'⟩ := visitAll_attr fresh qn cfg R hRn (bfs R) (fun x hx => ⟨bfs_sub R hRn x hx, hA x hx⟩)
    (bfs_nodup R hRn) _ s1 (init_ci L R M fresh hL hfL hM) [] (fun _ _ hm => by cases hm) hs1
  have hd := deleteAll_attr qn _ s1 s2 hs2
  have h0 : pend cfg.ignored { left := L, ms := M.reverse, inorder := [], out := [], next := fresh } [] ≤
      ((ids L).map (asz cfg.ignored L)).sum := by
    unfold pend
    apply sum_le_of_nodup _ _ _ _ (hL.filter _)
    intro a ha
    exact ⟨(List.mem_filter.1 ha).1, Nat.le_refl _⟩
  simp only [List.countP_reverse]
  have h00 : cnt ({ left := L, ms := M.reverse, inorder := [], out := [], next := fresh } : DState).out = 0 := rfl
  rw [h00] at hD'
  unfold cnt at hD' hd
  omega

end AttrTotal
end XmlDiffModel
