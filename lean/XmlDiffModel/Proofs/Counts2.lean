/-
C17, the bounds that need the matching to be one-to-one: at most |L| deletes, at most 2|R| moves, and the
bookkeeping behind "a node the script creates is never deleted by it".

A light invariant `CI` is threaded through the generator (ids of the working copy distinct and below the next fresh
id, the matching one-to-one with all left ids below the next fresh id, every node created so far matched), together
with the number `unm` of unmatched nodes of the working copy, which never grows.
-/
import XmlDiffModel.Proofs.Strict
import XmlDiffModel.Proofs.Counts

namespace XmlDiffModel
namespace C17
open Tree Chw

def isMove : Action → Bool
  | .moveNode _ _ _ => true
  | _ => false

/-! ### lists -/

theorem nodup_subset_length {α : Type} [DecidableEq α] : ∀ (A B : List α), A.Nodup → (∀ a ∈ A, a ∈ B) →
    A.length ≤ B.length := by
  intro A
  induction A with
  | nil => intro B _ _; simp
  | cons a rest ih =>
    intro B hn hs
    rw [List.nodup_cons] at hn
    have haB : a ∈ B := hs a (by simp)
    have := ih (B.erase a) hn.2 (by
      intro c hc
      have hca : c ≠ a := fun e => hn.1 (e ▸ hc)
      exact (List.mem_erase_of_ne hca).2 (hs c (by simp [hc])))
    rw [List.length_erase_of_mem haB] at this
    have hpos : 0 < B.length := List.length_pos_of_mem haB
    simp only [List.length_cons]
    omega

theorem countP_le_of_nodup {α : Type} [DecidableEq α] (A B : List α) (p q : α → Bool) (hn : A.Nodup)
    (h : ∀ a ∈ A, p a = true → a ∈ B ∧ q a = true) : A.countP p ≤ B.countP q := by
  rw [List.countP_eq_length_filter, List.countP_eq_length_filter]
  apply nodup_subset_length _ _ (hn.filter _)
  intro a ha
  rw [List.mem_filter] at ha ⊢
  exact h a ha.1 ha.2

/-! ### the threaded invariant -/

/-- number of nodes of the working copy without a partner -/
def unm (s : DState) : Nat := (ids s.left).countP (fun i => (l2rGet s.ms i).isNone)

structure CI (f0 : Nat) (s : DState) : Prop where
  sok : SOK s
  mL : (lefts s.ms).Nodup
  mR : (rights s.ms).Nodup
  mlt : ∀ a ∈ lefts s.ms, a < s.next
  created : ∀ i ∈ ids s.left, f0 ≤ i → i ∈ lefts s.ms
  f0le : f0 ≤ s.next

theorem l2rGet_isNone_iff (ms : Matches) (i : Nat) : (l2rGet ms i).isNone = true ↔ i ∉ lefts ms := by
  constructor
  · intro h hm
    obtain ⟨r, hr⟩ := l2rGet_some_of_mem ms i hm
    rw [hr] at h; cases h
  · intro h; rw [l2rGet_none ms i h]; rfl

/-- a step that adds no node and leaves the matching alone -/
theorem CI.same {f0 : Nat} {s s' : DState} (c : CI f0 s) (hs : SOK s') (hsub : ∀ i ∈ ids s'.left, i ∈ ids s.left)
    (hms : s'.ms = s.ms) (hnx : s'.next = s.next) : CI f0 s' ∧ unm s' ≤ unm s := by
  refine ⟨⟨hs, hms ▸ c.mL, hms ▸ c.mR, ?_, ?_, hnx ▸ c.f0le⟩, ?_⟩
  · intro a ha; rw [hnx]; exact c.mlt a (hms ▸ ha)
  · intro i hi hf; rw [hms]; exact c.created i (hsub i hi) hf
  · unfold unm
    rw [hms]
    exact countP_le_of_nodup _ _ _ _ hs.nodup (fun a ha hp => ⟨hsub a ha, hp⟩)

/-- the insert step: one new node, matched at once -/
theorem CI.ins {f0 : Nat} {s s' : DState} (c : CI f0 s) (x : Nat) (hs : SOK s')
    (hsub : ∀ i ∈ ids s'.left, i = s.next ∨ i ∈ ids s.left) (hms : s'.ms = (s.next, x) :: s.ms)
    (hx : x ∉ rights s.ms) (hnx : s'.next = s.next + 1) : CI f0 s' ∧ unm s' ≤ unm s := by
  have hnl : s.next ∉ lefts s.ms := fun hm => Nat.lt_irrefl _ (c.mlt _ hm)
  refine ⟨⟨hs, ?_, ?_, ?_, ?_, ?_⟩, ?_⟩
  · rw [hms]; simp only [lefts, List.map_cons, List.nodup_cons]; exact ⟨hnl, c.mL⟩
  · rw [hms]; simp only [rights, List.map_cons, List.nodup_cons]; exact ⟨hx, c.mR⟩
  · intro a ha
    rw [hms] at ha
    simp only [lefts, List.map_cons, List.mem_cons] at ha
    rw [hnx]
    rcases ha with rfl | ha
    · omega
    · have := c.mlt a ha; omega
  · intro i hi hf
    rw [hms]
    simp only [lefts, List.map_cons, List.mem_cons]
    rcases hsub i hi with e | e
    · exact Or.inl e
    · exact Or.inr (c.created i e hf)
  · rw [hnx]; have := c.f0le; omega
  · unfold unm
    apply countP_le_of_nodup _ _ _ _ hs.nodup
    intro a ha hp
    rw [hms] at hp
    simp only [l2rGet] at hp
    by_cases e : s.next = a
    · rw [if_pos e] at hp; cases hp
    · rw [if_neg e] at hp
      rcases hsub a ha with e' | e'
      · exact absurd e'.symm e
      · exact ⟨e', hp⟩

/-- what a piece of the generator does to the counters -/
structure Res (f0 : Nat) (s s' : DState) (m : Nat) : Prop where
  ci : CI f0 s'
  unm : unm s' ≤ unm s
  moves : s'.out.countP isMove ≤ s.out.countP isMove + m
  dels : s'.out.countP isDel = s.out.countP isDel

theorem Res.trans {f0 : Nat} {s s1 s2 : DState} {m1 m2 : Nat} (h1 : Res f0 s s1 m1) (h2 : Res f0 s1 s2 m2) :
    Res f0 s s2 (m1 + m2) :=
  ⟨h2.ci, Nat.le_trans h2.unm h1.unm, by have := h1.moves; have := h2.moves; omega, h2.dels.trans h1.dels⟩

theorem Res.mono {f0 : Nat} {s s' : DState} {m m' : Nat} (h : Res f0 s s' m) (hm : m ≤ m') : Res f0 s s' m' :=
  ⟨h.ci, h.unm, by have := h.moves; omega, h.dels⟩

/-! ### the payload steps emit neither moves nor deletes -/

def Keep (out out' : List Action) : Prop :=
  out'.countP isMove = out.countP isMove ∧ out'.countP isDel = out.countP isDel

theorem Keep.refl (out : List Action) : Keep out out := ⟨rfl, rfl⟩

theorem Keep.trans {a b c : List Action} (h1 : Keep a b) (h2 : Keep b c) : Keep a c :=
  ⟨h2.1.trans h1.1, h2.2.trans h1.2⟩

theorem keep_cons (out : List Action) (a : Action) (h1 : isMove a = false) (h2 : isDel a = false) :
    Keep out (a :: out) := by
  unfold Keep
  simp [List.countP_cons, h1, h2]

theorem renameStep_keep (qn : QName) (l : Nat) (x : Payload) (s s' : DState)
    (h : renameStep qn l x s = .ok s') : Keep s.out s'.out := by
  unfold renameStep at h
  split at h
  · cases h
  · split at h
    · simp only [bind, Except.bind] at h
      split at h
      · cases h
      · simp only [pure, Except.pure, Except.ok.injEq] at h
        subst h
        exact keep_cons _ _ rfl rfl
    · simp only [pure, Except.pure, Except.ok.injEq] at h
      subst h
      exact Keep.refl _

theorem updateText_keep (qn : QName) (l : Nat) (x : Payload) (s s' : DState)
    (h : updateText qn l x s = .ok s') : Keep s.out s'.out := by
  unfold updateText at h
  split at h
  · cases h
  · next ln hln =>
    simp only [bind, Except.bind] at h
    split at h
    · cases h
    · next path hpath =>
      simp only [Except.ok.injEq] at h
      subst h
      unfold tailStep textStep
      by_cases h1 : ln.payload.text ≠ x.text <;> by_cases h2 : ln.payload.tail ≠ x.tail
      · rw [if_pos h1, if_pos h2]
        exact (keep_cons s.out (.updateTextIn path x.text) rfl rfl).trans (keep_cons _ _ rfl rfl)
      · rw [if_pos h1, if_neg h2]; exact keep_cons _ _ rfl rfl
      · rw [if_neg h1, if_pos h2]; exact keep_cons _ _ rfl rfl
      · rw [if_neg h1, if_neg h2]; exact Keep.refl _

theorem updateAttrStep_keep (qn : QName) (ign : List Str) (l : Nat) (x : Payload) (s s' : DState)
    (hx : (keys x.attrs).Nodup) (h : updateAttrStep qn ign l x s = .ok s') : Keep s.out s'.out := by
  unfold updateAttrStep at h
  split at h
  · cases h
  · next ln hln =>
    simp only [bind, Except.bind] at h
    split at h
    · cases h
    · next path hpath =>
      obtain ⟨acts, hph⟩ := updateAttrs_phase ign path ln.payload.attrs x.attrs s.out hx
      have hout := hph.out_eq
      generalize updateAttrs ign path ln.payload.attrs x.attrs s.out = res at h hout
      obtain ⟨las, out⟩ := res
      simp only [Except.ok.injEq] at h
      subst h
      simp only at hout ⊢
      rw [hout]
      have hon : ∀ a ∈ acts.reverse, IsAttrOn path a := fun a ha => (hph.on a (List.mem_reverse.1 ha)).1
      unfold Keep
      simp only [List.countP_append]
      rw [countP_attrs path _ hon isMove (fun a ha => by cases a <;> simp_all [IsAttrOn, isMove]),
        countP_attrs path _ hon isDel (fun a ha => by cases a <;> simp_all [IsAttrOn, isDel])]
      simp

theorem res_of_mod {f0 : Nat} {s s' : DState} {l : Nat} {f : Payload → Payload} (c : CI f0 s) (m : ModBy s s' l f)
    (hs : SOK s') (hk : Keep s.out s'.out) : Res f0 s s' 0 := by
  obtain ⟨ci, hu⟩ := c.same hs (fun i hi => by rw [m.left, ids_modify] at hi; exact hi) m.ms m.next
  exact ⟨ci, hu, by rw [hk.1]; omega, hk.2⟩

theorem renameStep_res (f0 : Nat) (qn : QName) (ign : List Str) (l : Nat) (x : Payload) (s s' : DState) (c : CI f0 s)
    (h : renameStep qn l x s = .ok s') : Res f0 s s' 0 := by
  obtain ⟨_, st⟩ := renameStep_steps qn ign l x s s' c.sok h
  exact res_of_mod c (renameStep_shape qn l x s s' c.sok.nodup h).2 st.ok (renameStep_keep qn l x s s' h)

theorem updateText_res (f0 : Nat) (qn : QName) (ign : List Str) (l : Nat) (x : Payload) (s s' : DState) (c : CI f0 s)
    (h : updateText qn l x s = .ok s') : Res f0 s s' 0 := by
  obtain ⟨_, st⟩ := updateText_steps qn ign l x s s' c.sok h
  exact res_of_mod c (updateText_shape qn l x s s' c.sok.nodup h) st.ok (updateText_keep qn l x s s' h)

theorem updateAttrStep_res (f0 : Nat) (qn : QName) (ign : List Str) (l : Nat) (x : Payload) (s s' : DState)
    (c : CI f0 s) (hx : (keys x.attrs).Nodup) (h : updateAttrStep qn ign l x s = .ok s') : Res f0 s s' 0 := by
  obtain ⟨_, st⟩ := updateAttrStep_steps qn ign l x s s' c.sok hx h
  obtain ⟨ln, path, _, m⟩ := updateAttrStep_shape qn ign l x s s' h
  exact res_of_mod c m st.ok (updateAttrStep_keep qn ign l x s s' hx h)

/-! ### insert and move -/

theorem insertStep_res (f0 : Nat) (qn : QName) (ign : List Str) (R x : Tree) (lt : Option Nat) (s s' : DState) (l : Nat)
    (c : CI f0 s) (hun : r2lGet s.ms x.id = none) (h : insertStep qn R x lt s = .ok (l, s')) : Res f0 s s' 0 := by
  obtain ⟨_, _, st⟩ := insertStep_steps qn ign R x lt s s' l c.sok h
  have hx : x.id ∉ rights s.ms := by
    intro hm
    obtain ⟨a, ha⟩ := r2lGet_some_of_mem s.ms x.id hm
    rw [ha] at hun; cases hun
  cases lt with
  | none =>
    simp only [insertStep, bind, Except.bind, throw, throwThe, MonadExceptOf.throw] at h
    split at h <;> cases h
  | some tgt =>
    simp only [insertStep, bind, Except.bind, pure, Except.pure] at h
    split at h
    · cases h
    · next pos hpos =>
      split at h
      · cases h
      · next tp htp =>
        have key : ∀ (act : Action) (pl : Payload), isMove act = false → isDel act = false →
            s' = { left := Tree.insertChild tgt pos (.node s.next pl []) s.left, ms := (s.next, x.id) :: s.ms,
                   inorder := x.id :: s.next :: s.inorder, out := act :: s.out, next := s.next + 1 } →
            Res f0 s s' 0 := by
          intro act pl h1 h2 e
          obtain ⟨ci, hu⟩ := c.ins x.id st.ok (by
            intro i hi
            rw [e] at hi
            rcases mem_ids_insertChild tgt pos _ _ i hi with hi | hi
            · exact Or.inr hi
            · left; simpa [ids, idsL] using hi) (by rw [e]) hx (by rw [e])
          refine ⟨ci, hu, ?_, ?_⟩
          · rw [e]; simp [List.countP_cons, h1]
          · rw [e]; simp [List.countP_cons, h2]
        cases hk : x.payload.kind with
        | comment =>
          simp only [hk, Except.ok.injEq, Prod.mk.injEq] at h
          exact key _ _ rfl rfl h.2.symm
        | elem =>
          simp only [hk, Except.ok.injEq, Prod.mk.injEq] at h
          exact key _ _ rfl rfl h.2.symm

theorem moveStep_res (f0 : Nat) (qn : QName) (ign : List Str) (R x : Tree) (l : Nat) (lt : Option Nat) (s s' : DState)
    (c : CI f0 s) (h : moveStep qn R x l lt s = .ok s') : Res f0 s s' 1 := by
  obtain ⟨_, st⟩ := moveStep_steps qn ign R x l lt s s' c.sok h
  rcases moveStep_shape2 qn R x l lt s s' c.sok.nodup h with e | ⟨tgt, pos, sub, p1, p2, _, _, _, _, hf, _, e⟩
  · subst e
    exact ⟨c, Nat.le_refl _, by omega, rfl⟩
  · obtain ⟨ci, hu⟩ := c.same st.ok (by
      intro i hi
      rw [e] at hi
      exact mem_ids_move l tgt pos s.left sub hf i hi) (by rw [e]) (by rw [e])
    refine ⟨ci, hu, ?_, ?_⟩
    · rw [e]; simp [List.countP_cons, isMove]
    · rw [e]; simp [List.countP_cons, isDel]

/-! ### alignment -/

theorem CI.setIO {f0 : Nat} {s : DState} (c : CI f0 s) (io : List Nat) : CI f0 { s with inorder := io } :=
  ⟨⟨c.sok.nodup, c.sok.fresh⟩, c.mL, c.mR, c.mlt, c.created, c.f0le⟩

theorem alignMoves_res (f0 : Nat) (qn : QName) (ign : List Str) (R : Tree) (l : Nat) (cs : List Nat) (s s' : DState)
    (c : CI f0 s) (hroot : ∀ a ∈ cs, s.left.id ≠ a) (h : alignMoves qn R l cs s = .ok s') :
    Res f0 s s' cs.length := by
  induction cs generalizing s with
  | nil =>
    simp only [alignMoves, Except.ok.injEq] at h
    subst h
    exact ⟨c, Nat.le_refl _, by omega, rfl⟩
  | cons lc rest ih =>
    obtain ⟨s1, h1, h2⟩ := alignMoves_split qn R l lc rest s s' h
    obtain ⟨_, st⟩ := alignMoves_steps qn ign R l [lc] s s1 c.sok
      (fun a ha => by simp at ha; rw [ha]; exact hroot lc (by simp)) h1
    have r1 : Res f0 s s1 1 := by
      rcases alignMoves_one_shape2 qn R l lc s s1 h1 with e |
        ⟨rc, rp, lt, pos, sub, p1, p2, _, _, _, hfl, _, _, _, _, e⟩
      · subst e; exact ⟨c, Nat.le_refl _, by omega, rfl⟩
      · obtain ⟨ci, hu⟩ := c.same st.ok (by
          intro i hi
          rw [e] at hi
          exact mem_ids_move lc lt pos s.left sub hfl i hi) (by rw [e]) (by rw [e])
        refine ⟨ci, hu, ?_, ?_⟩
        · rw [e]; simp [List.countP_cons, isMove]
        · rw [e]; simp [List.countP_cons, isDel]
    have r2 := ih s1 r1.ci (fun a ha => by rw [st.rootid]; exact hroot a (by simp [ha])) h2
    have := r1.trans r2
    simp only [List.length_cons]
    exact this.mono (by omega)

theorem nodup_map_of_injOn {α β : Type} (f : α → β) : ∀ (l : List α), l.Nodup →
    (∀ a ∈ l, ∀ b ∈ l, f a = f b → a = b) → (l.map f).Nodup := by
  intro l
  induction l with
  | nil => intro _ _; simp
  | cons a rest ih =>
    intro hn hi
    rw [List.nodup_cons] at hn
    simp only [List.map_cons, List.nodup_cons]
    refine ⟨?_, ih hn.2 (fun x hx y hy => hi x (by simp [hx]) y (by simp [hy]))⟩
    intro hm
    obtain ⟨b, hb, e⟩ := List.mem_map.1 hm
    have := hi b (by simp [hb]) a (by simp) e
    exact hn.1 (this ▸ hb)

theorem alignChildren_res (f0 : Nat) (qn : QName) (ign : List Str) (R : Tree) (hRn : (ids R).Nodup) (l : Nat)
    (x : Tree) (hx : find x.id R = some x) (s s' : DState) (c : CI f0 s)
    (h : alignChildren qn R l x s = .ok s') : Res f0 s s' x.kids.length := by
  unfold alignChildren at h
  cases hfl : find l s.left with
  | none => rw [hfl] at h; cases h
  | some ln =>
    rw [hfl] at h
    simp only at h
    have hK : ln.kids.map Tree.id = kidIds s.left l := by unfold kidIds; rw [hfl]
    have hX : x.kids.map Tree.id = kidIds R x.id := by unfold kidIds; rw [hx]
    generalize hlch : (ln.kids.map Tree.id).filter (fun a =>
      match l2rGet s.ms a with
      | some r => (R.parentOf r).map Tree.id == some x.id
      | none => false) = lch at h
    have hmem : ∀ a ∈ lch, a ∈ kidIds s.left l ∧ ∃ r, l2rGet s.ms a = some r ∧ r ∈ kidIds R x.id := by
      intro a ha
      rw [← hlch, List.mem_filter] at ha
      refine ⟨hK ▸ ha.1, ?_⟩
      cases hr : l2rGet s.ms a with
      | none => rw [hr] at ha; cases ha.2
      | some r =>
        rw [hr] at ha
        exact ⟨r, rfl, (parId_beq R hRn r x.id).mp ha.2⟩
    have hnd : lch.Nodup := by
      rw [← hlch, hK]
      exact (kidIds_nodup s.left c.sok.nodup l).filter _
    -- the partner map is one-to-one on these children and lands among the children of `x`
    have hlen : lch.length ≤ x.kids.length := by
      have h1 : (lch.map (fun a => (l2rGet s.ms a).getD 0)).Nodup := by
        apply nodup_map_of_injOn _ _ hnd
        intro a ha b hb e
        obtain ⟨_, ra, hra, _⟩ := hmem a ha
        obtain ⟨_, rb, hrb, _⟩ := hmem b hb
        simp only [hra, hrb, Option.getD_some] at e
        subst e
        have e1 := r2lGet_of_mem s.ms c.mR a ra (l2rGet_mem s.ms a ra hra)
        have e2 := r2lGet_of_mem s.ms c.mR b ra (l2rGet_mem s.ms b ra hrb)
        rw [e1] at e2; injection e2
      have h2 := nodup_subset_length _ (x.kids.map Tree.id) h1 (by
        intro r hr
        obtain ⟨a, ha, rfl⟩ := List.mem_map.1 hr
        obtain ⟨_, ra, hra, hk⟩ := hmem a ha
        simp only [hra, Option.getD_some]
        rw [hX]; exact hk)
      simpa using h2
    split at h
    · simp only [Except.ok.injEq] at h
      subst h
      exact ⟨c, Nat.le_refl _, by omega, rfl⟩
    · split at h
      · next ps hps =>
        have := alignMoves_res f0 qn ign R l lch _ s' (c.setIO _) (by
          intro a ha e
          have hk := (hmem a ha).1
          have := (parId_iff _ c.sok.nodup a l).mpr hk
          simp only at e
          rw [← e, root_no_parent _ c.sok.nodup] at this
          cases this) h
        exact ⟨this.ci, this.unm, by have := this.moves; simp only at this; omega, this.dels⟩
      · cases h

/-! ### one iteration and the main loop -/

theorem visitTail_res (f0 : Nat) (qn : QName) (ign : List Str) (R : Tree) (hRn : (ids R).Nodup) (x : Tree)
    (hx : find x.id R = some x) (l : Nat) (s s' : DState) (c : CI f0 s)
    (h : visitTail qn R l x s = .ok s') : Res f0 s s' x.kids.length := by
  unfold visitTail at h
  simp only [bind, Except.bind] at h
  split at h
  · cases h
  · next s2 hs2 =>
    have a := alignChildren_res f0 qn ign R hRn l x hx s s2 c hs2
    split at h
    · next l' hl' =>
      have b := updateText_res f0 qn ign l' x.payload s2 s' a.ci h
      exact (a.trans b).mono (by omega)
    · cases h

theorem visit_res (f0 : Nat) (qn : QName) (cfg : Cfg) (R : Tree) (hRn : (ids R).Nodup) (x : Tree)
    (hx : find x.id R = some x) (hattr : (keys x.payload.attrs).Nodup) (s s' : DState) (c : CI f0 s)
    (h : visit qn cfg R x s = .ok s') : Res f0 s s' (1 + x.kids.length) := by
  unfold visit at h
  simp only at h
  cases hun : r2lGet s.ms x.id with
  | none =>
    rw [hun] at h
    simp only [bind, Except.bind] at h
    split at h
    · cases h
    · next res hins =>
      obtain ⟨l, s1⟩ := res
      simp only at h
      split at h
      · cases h
      · next s2 hattrs =>
        have a := insertStep_res f0 qn cfg.ignored R x _ s s1 l c hun hins
        have b := updateAttrStep_res f0 qn cfg.ignored l x.payload s1 s2 a.ci hattr hattrs
        have d := visitTail_res f0 qn cfg.ignored R hRn x hx l s2 s' b.ci h
        exact ((a.trans b).trans d).mono (by omega)
  | some l =>
    rw [hun] at h
    simp only [bind, Except.bind] at h
    split at h
    · cases h
    · next s1 hmove =>
      split at h
      · cases h
      · next s2 hren =>
        split at h
        · cases h
        · next s3 hattrs =>
          have a := moveStep_res f0 qn cfg.ignored R x l _ s s1 c hmove
          have b := renameStep_res f0 qn cfg.ignored l x.payload s1 s2 a.ci hren
          have d := updateAttrStep_res f0 qn cfg.ignored l x.payload s2 s3 b.ci hattr hattrs
          have e := visitTail_res f0 qn cfg.ignored R hRn x hx l s3 s' d.ci h
          exact (((a.trans b).trans d).trans e).mono (by omega)

/-- total budget of a list of right nodes: one move for the node itself, one for each of its children -/
def budget : List Tree → Nat
  | [] => 0
  | x :: xs => 1 + x.kids.length + budget xs

theorem visitAll_res (f0 : Nat) (qn : QName) (cfg : Cfg) (R : Tree) (hRn : (ids R).Nodup) (xs : List Tree)
    (hxs : ∀ x ∈ xs, find x.id R = some x ∧ (keys x.payload.attrs).Nodup) (s s' : DState) (c : CI f0 s)
    (h : visitAll qn cfg R xs s = .ok s') : Res f0 s s' (budget xs) := by
  induction xs generalizing s with
  | nil =>
    simp only [visitAll, Except.ok.injEq] at h
    subst h
    exact ⟨c, Nat.le_refl _, by simp [budget], rfl⟩
  | cons x rest ih =>
    simp only [visitAll, bind, Except.bind] at h
    split at h
    · cases h
    · next s1 hv =>
      have a := visit_res f0 qn cfg R hRn x (hxs x (by simp)).1 (hxs x (by simp)).2 s s1 c hv
      have b := ih (fun y hy => hxs y (by simp [hy])) s1 a.ci h
      exact (a.trans b).mono (by simp [budget])

theorem sizeL_app (a b : List Tree) : sizeL (a ++ b) = sizeL a + sizeL b := by
  induction a with
  | nil => simp [sizeL]
  | cons x xs ih => simp only [List.cons_append, sizeL, ih]; omega

/-- in a breadth-first listing every node is listed once and is the child of one listed node -/
theorem bfsAux_budget (fuel : Nat) (q : List Tree) :
    budget (bfsAux fuel q) + q.length ≤ 2 * sizeL q := by
  induction fuel generalizing q with
  | zero =>
    simp only [bfsAux, budget, Nat.zero_add]
    induction q with
    | nil => simp [sizeL]
    | cons t ts ih =>
      simp only [List.length_cons, sizeL]
      have := size_eq t
      omega
  | succ f ih =>
    cases q with
    | nil => simp [bfsAux, budget, sizeL]
    | cons t rest =>
      simp only [bfsAux, budget, List.length_cons, sizeL]
      have := ih (rest ++ t.kids)
      have e1 : sizeL (rest ++ t.kids) = sizeL rest + sizeL t.kids := sizeL_app rest t.kids
      have e2 := size_eq t
      rw [e1, List.length_append] at this
      omega

theorem bfs_budget (R : Tree) : budget (bfs R) + 1 ≤ 2 * size R := by
  have := bfsAux_budget (size R) [R]
  simpa [bfs, sizeL] using this

/-! ### the delete phase and the whole script -/

theorem deleteAll_count (qn : QName) (ls : List Nat) (s s' : DState) (h : deleteAll qn ls s = .ok s') :
    s'.out.countP isDel ≤ s.out.countP isDel + ls.countP (fun l => (l2rGet s.ms l).isNone) ∧
      s'.out.countP isMove = s.out.countP isMove := by
  induction ls generalizing s with
  | nil =>
    simp only [deleteAll, Except.ok.injEq] at h
    subst h
    exact ⟨by simp, rfl⟩
  | cons l rest ih =>
    unfold deleteAll at h
    cases hl : l2rGet s.ms l with
    | some r =>
      rw [hl] at h
      simp only at h
      have := ih s h
      refine ⟨?_, this.2⟩
      simp only [List.countP_cons, hl, Option.isNone_some, Bool.false_eq_true, if_false]
      exact this.1
    | none =>
      rw [hl] at h
      simp only [bind, Except.bind] at h
      split at h
      · cases h
      · split at h
        · cases h
        · have := ih _ h
          simp only [List.countP_cons, isDel, isMove, if_true, Bool.false_eq_true, if_false, Nat.add_zero] at this
          refine ⟨?_, this.2⟩
          simp only [List.countP_cons, hl, Option.isNone_none, if_true]
          omega

mutual
  theorem ids_length (t : Tree) : (ids t).length = size t := by
    match t with
    | .node i p ks => simp only [ids, size, List.length_cons, idsL_length ks]; omega
  theorem idsL_length (ts : List Tree) : (idsL ts).length = sizeL ts := by
    match ts with
    | [] => rfl
    | t :: rest => simp only [idsL, sizeL, List.length_append, ids_length t, idsL_length rest]
end

theorem init_ci (L R : Tree) (M : List (Nat × Nat)) (fresh : Nat) (hL : (ids L).Nodup)
    (hfL : ∀ i ∈ ids L, i < fresh) (hM : GoodMatching L R M) :
    CI fresh { left := L, ms := M.reverse, inorder := [], out := [], next := fresh } := by
  refine ⟨⟨hL, hfL⟩, ?_, ?_, ?_, ?_, Nat.le_refl _⟩
  · have : lefts M.reverse = (lefts M).reverse := by simp [lefts]
    rw [this]; exact List.pairwise_reverse.2 (hM.lefts.imp (fun h => Ne.symm h))
  · have : rights M.reverse = (rights M).reverse := by simp [rights]
    rw [this]; exact List.pairwise_reverse.2 (hM.rights.imp (fun h => Ne.symm h))
  · intro a ha
    simp only [lefts, List.map_reverse, List.mem_reverse, List.mem_map] at ha
    obtain ⟨p, hp, rfl⟩ := ha
    exact hfL _ (hM.dom p hp).1
  · intro i hi hf
    have := hfL i hi
    omega

/-- what the walk gives for a whole run: counters, and the state between the two phases -/
theorem scriptGen_walk (qn : QName) (cfg : Cfg) (L R : Tree) (M : List (Nat × Nat)) (fresh : Nat)
    (script : List Action) (final : Tree) (hL : (ids L).Nodup) (hRn : (ids R).Nodup)
    (hfL : ∀ i ∈ ids L, i < fresh) (hM : GoodMatching L R M)
    (hA : ∀ x ∈ bfs R, (keys x.payload.attrs).Nodup)
    (h : scriptGen qn cfg L R M fresh = .ok (script, final)) :
    ∃ s1 s2, visitAll qn cfg R (bfs R) { left := L, ms := M.reverse, inorder := [], out := [], next := fresh } = .ok s1 ∧
      deleteAll qn (revPostOrder s1.left) s1 = .ok s2 ∧ script = s2.out.reverse ∧ final = s2.left ∧
      Res fresh { left := L, ms := M.reverse, inorder := [], out := [], next := fresh } s1 (budget (bfs R)) := by
  unfold scriptGen at h
  simp only [bind, Except.bind, pure, Except.pure] at h
  split at h
  · cases h
  · next s1 hs1 =>
    split at h
    · cases h
    · next s2 hs2 =>
      simp only [Except.ok.injEq, Prod.mk.injEq] at h
      refine ⟨s1, s2, hs1, hs2, h.1.symm, h.2.symm, ?_⟩
      exact visitAll_res fresh qn cfg R hRn (bfs R) (fun x hx => ⟨bfs_sub R hRn x hx, hA x hx⟩) _ s1
        (init_ci L R M fresh hL hfL hM) hs1

/-- **C17 bounds**: at most `2·|R|` moves and at most `|L|` deletes. -/
theorem scriptGen_counts2 (qn : QName) (cfg : Cfg) (L R : Tree) (M : List (Nat × Nat)) (fresh : Nat)
    (script : List Action) (final : Tree) (hL : (ids L).Nodup) (hRn : (ids R).Nodup)
    (hfL : ∀ i ∈ ids L, i < fresh) (hM : GoodMatching L R M)
    (hA : ∀ x ∈ bfs R, (keys x.payload.attrs).Nodup)
    (h : scriptGen qn cfg L R M fresh = .ok (script, final)) :
    script.countP isMove ≤ 2 * size R ∧ script.countP isDel ≤ size L := by
  obtain ⟨s1, s2, _, hs2, rfl, _, res⟩ := scriptGen_walk qn cfg L R M fresh script final hL hRn hfL hM hA h
  obtain ⟨d1, d2⟩ := deleteAll_count qn _ s1 s2 hs2
  simp only [List.countP_reverse]
  constructor
  · have := res.moves
    have hb := bfs_budget R
    simp only [List.countP_nil] at this
    omega
  · have hd := res.dels
    simp only [List.countP_nil] at hd
    have hperm : (revPostOrder s1.left).countP (fun l => (l2rGet s1.ms l).isNone) = unm s1 :=
      (revPostOrder_perm s1.left).countP_eq _
    have hu := res.unm
    have h0 : unm { left := L, ms := M.reverse, inorder := [], out := [], next := fresh } ≤ (ids L).length :=
      List.countP_le_length
    rw [ids_length] at h0
    omega

/-! ### a node the script creates is never deleted by it -/

/-- ids of the nodes the `deleteNode` actions of a script hit, in the strict replay from state `p` -/
def delTargets (qn : QName) : PState → List Action → List Nat
  | _, [] => []
  | p, a :: rest =>
    match applyStrict qn p a with
    | .error _ => []
    | .ok p' =>
      (match a with
        | .deleteNode nd =>
          match uniqueHit qn p.tree nd with
          | .ok x => [x.id]
          | .error _ => []
        | _ => []) ++ delTargets qn p' rest

theorem runStrict_cons_inv (qn : QName) (p p' : PState) (a : Action) (rest : List Action)
    (h : runStrict qn p (a :: rest) = .ok p') :
    ∃ p1, applyStrict qn p a = .ok p1 ∧ runStrict qn p1 rest = .ok p' := by
  simp only [runStrict, runWith] at h
  cases hx : applyStrict qn p a with
  | error e => simp [hx] at h
  | ok p1 =>
    simp only [hx] at h
    cases hr : runWith (applyStrict qn) p1 rest with
    | error e => obtain ⟨k, e'⟩ := e; simp [hr] at h
    | ok r =>
      simp only [hr, Except.ok.injEq] at h
      refine ⟨p1, rfl, ?_⟩
      show runWith (applyStrict qn) p1 rest = .ok p'
      rw [hr, h]

theorem runStrict_append_inv (qn : QName) (a b : List Action) (p p1 p' : PState)
    (h1 : runStrict qn p a = .ok p1) (h : runStrict qn p (a ++ b) = .ok p') : runStrict qn p1 b = .ok p' := by
  induction a generalizing p with
  | nil => rw [runStrict_nil] at h1; cases h1; simpa using h
  | cons x xs ih =>
    obtain ⟨q, hq, hr⟩ := runStrict_cons_inv qn p p1 x xs h1
    obtain ⟨q', hq', hr'⟩ := runStrict_cons_inv qn p p' x (xs ++ b) h
    rw [hq] at hq'; cases hq'
    exact ih q hr hr'

theorem delTargets_append (qn : QName) (a b : List Action) (p p1 : PState) (h1 : runStrict qn p a = .ok p1) :
    delTargets qn p (a ++ b) = delTargets qn p a ++ delTargets qn p1 b := by
  induction a generalizing p with
  | nil => rw [runStrict_nil] at h1; cases h1; simp [delTargets]
  | cons x xs ih =>
    obtain ⟨q, hq, hr⟩ := runStrict_cons_inv qn p p1 x xs h1
    simp only [List.cons_append, delTargets, hq]
    rw [ih q hr, List.append_assoc]

theorem delTargets_nodel (qn : QName) (acts : List Action) (p : PState) (h : ∀ a ∈ acts, isDel a = false) :
    delTargets qn p acts = [] := by
  induction acts generalizing p with
  | nil => rfl
  | cons a rest ih =>
    simp only [delTargets]
    cases applyStrict qn p a with
    | error e => rfl
    | ok p' =>
      simp only
      rw [ih p' (fun b hb => h b (by simp [hb]))]
      have := h a (by simp)
      cases a <;> simp_all [isDel]

theorem deleteAll_out (qn : QName) (ls : List Nat) (s s' : DState) (h : deleteAll qn ls s = .ok s') :
    ∃ ds, s'.out = ds ++ s.out ∧ ∀ a ∈ ds, isDel a = true := by
  induction ls generalizing s with
  | nil =>
    simp only [deleteAll, Except.ok.injEq] at h
    subst h
    exact ⟨[], rfl, by simp⟩
  | cons l rest ih =>
    unfold deleteAll at h
    split at h
    · exact ih s h
    · simp only [bind, Except.bind] at h
      split at h
      · cases h
      · next p _ =>
        split at h
        · cases h
        · obtain ⟨ds, hds, hall⟩ := ih _ h
          refine ⟨ds ++ [Action.deleteNode p], by rw [hds]; simp, ?_⟩
          intro a ha
          simp only [List.mem_append, List.mem_singleton] at ha
          rcases ha with ha | ha
          · exact hall a ha
          · rw [ha]; rfl

/-- the delete phase only deletes nodes of the working copy that have no partner -/
theorem deleteAll_targets (qn : QName) (ls : List Nat) (s s' : DState) (h : deleteAll qn ls s = .ok s')
    (acts : List Action) (hout : s'.out = acts.reverse ++ s.out)
    (hrun : ∃ p', runStrict qn ⟨s.left, s.next⟩ acts = .ok p') :
    ∀ i ∈ delTargets qn ⟨s.left, s.next⟩ acts, i ∈ ids s.left ∧ l2rGet s.ms i = none := by
  induction ls generalizing s acts with
  | nil =>
    simp only [deleteAll, Except.ok.injEq] at h
    subst h
    have : acts = [] := by
      have := congrArg List.length hout
      simp only [List.length_append, List.length_reverse] at this
      exact List.eq_nil_of_length_eq_zero (by omega)
    subst this
    intro i hi; simp [delTargets] at hi
  | cons l rest ih =>
    unfold deleteAll at h
    cases hl : l2rGet s.ms l with
    | some r =>
      rw [hl] at h
      simp only at h
      exact ih s h acts hout hrun
    | none =>
      rw [hl] at h
      simp only [bind, Except.bind] at h
      split at h
      · cases h
      · next p hp =>
        split at h
        · simp [throw, throwThe, MonadExceptOf.throw] at h
        · next hnr =>
          -- the rest of the phase emits `acts'`, after the delete of `l`
          obtain ⟨acts', hacts'⟩ : ∃ acts' : List Action,
              s'.out = acts'.reverse ++ (Action.deleteNode p :: s.out) := by
            obtain ⟨ds, hds, _⟩ := deleteAll_out qn rest _ s' h
            exact ⟨ds.reverse, by simpa using hds⟩
          have hacts : acts = Action.deleteNode p :: acts' := by
            have : acts.reverse ++ s.out = (Action.deleteNode p :: acts').reverse ++ s.out := by
              rw [← hout, hacts']; simp
            have := List.append_cancel_right this
            have := congrArg List.reverse this
            simpa using this
          subst hacts
          obtain ⟨p', hp'⟩ := hrun
          obtain ⟨p1, hp1, hrest⟩ := runStrict_cons_inv qn _ p' _ _ hp'
          simp only [delTargets, hp1]
          -- the action hits `l`
          simp only [applyStrict, bind, Except.bind] at hp1
          cases hn : uniqueHit qn s.left p with
          | error e => rw [hn] at hp1; cases hp1
          | ok n =>
            rw [hn] at hp1
            simp only at hp1
            have hfn := hit_of_pathStr qn s.left l p hp n hn
            have hid := find_id _ _ _ hfn
            split at hp1
            · cases hp1
            · split at hp1
              · cases hp1
              · simp only [Except.ok.injEq] at hp1
                subst hp1
                intro i hi
                simp only [List.mem_append, List.mem_singleton] at hi
                rcases hi with hi | hi
                · rw [hi, hid]
                  exact ⟨(mem_ids_iff_find l s.left).2 ⟨n, hfn⟩, hl⟩
                · rw [hid] at hi hrest
                  have := ih _ h acts' hacts' ⟨p', hrest⟩ i hi
                  exact ⟨(ids_remove_sublist l s.left).subset this.1, this.2⟩

/-- **No node the script creates is deleted by it**: in the strict replay of the differ's script every `deleteNode`
hits a node of the original left document (ids below `fresh`; created nodes get the ids from `fresh` on). -/
theorem scriptGen_created_not_deleted (qn : QName) (cfg : Cfg) (L R : Tree) (M : List (Nat × Nat)) (fresh : Nat)
    (script : List Action) (final : Tree)
    (hL : (ids L).Nodup) (hRn : (ids R).Nodup) (hdisj : ∀ i ∈ ids L, i ∉ ids R)
    (hfL : ∀ i ∈ ids L, i < fresh) (hfR : ∀ i ∈ ids R, i < fresh) (hM : GoodMatching L R M)
    (hA : ∀ x ∈ bfs R, (keys x.payload.attrs).Nodup)
    (hC : ∀ x ∈ bfs R, x.payload.kind = .comment → x.payload.tag = [])
    (h : scriptGen qn cfg L R M fresh = .ok (script, final)) :
    ∀ i ∈ delTargets qn ⟨L, fresh⟩ script, i < fresh := by
  obtain ⟨nx, hstrict⟩ := scriptGen_strict qn cfg L R M fresh script final hL hRn hdisj hfL hfR hM hA hC h
  obtain ⟨s1, s2, hs1, hs2, hscript, _, res⟩ := scriptGen_walk qn cfg L R M fresh script final hL hRn hfL hM hA h
  have inv0 := init_inv cfg.ignored L R M fresh hL hdisj hfL hfR hM
  have anc0 : AncInv { left := L, ms := M.reverse, inorder := [], out := [], next := fresh } [] :=
    fun p hp => by cases hp
  obtain ⟨acts1, hout1, hrun1⟩ := visitAll_SS cfg qn R hRn hA hC (bfs R) [] (by simp) _ s1 [] (by simp) inv0 anc0 hs1
  simp only [List.append_nil] at hout1
  obtain ⟨ds, hds, _⟩ := deleteAll_out qn _ s1 s2 hs2
  have hsplit : script = acts1 ++ ds.reverse := by
    rw [hscript, hds, hout1]; simp
  rw [hsplit] at hstrict ⊢
  have hrun2 := runStrict_append_inv qn acts1 ds.reverse _ _ _ hrun1 hstrict
  rw [delTargets_append qn acts1 ds.reverse _ _ hrun1]
  have hno : delTargets qn ⟨L, fresh⟩ acts1 = [] := by
    apply delTargets_nodel
    intro a ha
    have hd := res.dels
    simp only [List.countP_nil] at hd
    rw [List.countP_eq_zero] at hd
    have : a ∈ s1.out := by rw [hout1]; exact List.mem_reverse.2 ha
    have := hd a this
    simpa using this
  rw [hno, List.nil_append]
  intro i hi
  have := deleteAll_targets qn _ s1 s2 hs2 ds.reverse (by rw [List.reverse_reverse]; exact hds) ⟨_, hrun2⟩ i hi
  rcases Nat.lt_or_ge i fresh with hlt | hge
  · exact hlt
  · exfalso
    have hm := res.ci.created i this.1 hge
    obtain ⟨r, hr⟩ := l2rGet_some_of_mem s1.ms i hm
    rw [hr] at this; cases this.2

end C17
end XmlDiffModel
