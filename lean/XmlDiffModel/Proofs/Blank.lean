/- Re-indentation is invisible after blank-text removal. -/
import XmlDiffModel.Model.Blank

namespace XmlDiffModel

theorem stripBlank_setTail (x : Option Str) (t : Tree) :
    stripBlank (setTail x t) = setTail x (stripBlank t) := by
  cases t with
  | node i p ks =>
    cases ks with
    | nil => simp [setTail, stripBlank]
    | cons k rest => simp [setTail, stripBlank]

theorem stripBlank_tail (t : Tree) : (stripBlank t).payload.tail = t.payload.tail := by
  cases t with
  | node i p ks => cases ks <;> simp [stripBlank, Tree.payload]

theorem reindent_tail (ws : Nat → Str) (d : Nat) (t : Tree) :
    (reindent ws d t).payload.tail = t.payload.tail := by
  cases t with
  | node i p ks => cases ks <;> simp [reindent, Tree.payload]

theorem setTail_setTail (x y : Option Str) (t : Tree) : setTail x (setTail y t) = setTail x t := by
  cases t; rfl

theorem setTail_congr (x : Option Str) (a b : Tree) (h : setTail none a = setTail none b) :
    setTail x a = setTail x b := by
  cases a; cases b
  simp only [setTail, Tree.node.injEq] at h ⊢
  obtain ⟨h1, h2, h3⟩ := h
  refine ⟨h1, ?_, h3⟩
  cases ‹Payload›; cases ‹Payload›
  simp_all

mutual
  theorem strip_reindent (ws : Nat → Str) (hws : ∀ d, isBlank (some (ws d)) = true) (d : Nat)
      (t : Tree) (h : SepContent t = true) :
      setTail none (stripBlank (reindent ws d t)) = setTail none (stripBlank t) := by
    match t with
    | .node i p ks =>
      match ks with
      | [] => simp [reindent, stripBlank]
      | k :: rest =>
        simp only [SepContent, Bool.and_eq_true] at h
        have hl := stripL_reindentL ws hws d (k :: rest) h.2
        simp only [reindent]
        -- the re-indented child list is non-empty
        cases hr : reindentL ws d (k :: rest) with
        | nil => simp [reindentL] at hr
        | cons k' rest' =>
          rw [hr] at hl
          simp only [stripBlank, setTail, hl, dropBlank, hws, h.1, if_true]
  theorem stripL_reindentL (ws : Nat → Str) (hws : ∀ d, isBlank (some (ws d)) = true) (d : Nat)
      (ts : List Tree) (h : SepContentL ts = true) :
      stripBlankL (reindentL ws d ts) = stripBlankL ts := by
    match ts with
    | [] => simp [reindentL, stripBlankL]
    | t :: ts =>
      simp only [SepContentL, Bool.and_eq_true] at h
      obtain ⟨⟨h1, h2⟩, h3⟩ := h
      simp only [reindentL, stripBlankL]
      rw [stripL_reindentL ws hws d ts h3, stripBlank_setTail]
      congr 1
      have ih := strip_reindent ws hws (d + 1) t h2
      -- both sides drop a blank tail
      have e1 : ∀ u : Tree, dropTail (setTail (some (ws (if ts.isEmpty = true then d else d + 1))) u)
          = setTail none u := by
        intro u; cases u; simp [dropTail, setTail, dropBlank, hws]
      have e2 : dropTail (stripBlank t) = setTail none (stripBlank t) := by
        have ht := stripBlank_tail t
        cases hst : stripBlank t with
        | node i p ks =>
          rw [hst] at ht
          have hb : isBlank p.tail = true := by
            simp only [Tree.payload] at ht
            rw [ht]; exact h1
          simp [dropTail, setTail, dropBlank, hb]
      rw [e1, e2]
      exact ih
end

/-- Blank-text removal does not see re-indentation (documents whose elements have either
child nodes or text; the root's own tail is not part of a document). -/
theorem stripBlank_reindent (ws : Nat → Str) (hws : ∀ d, isBlank (some (ws d)) = true) (t : Tree)
    (h : SepContent t = true) :
    setTail none (stripBlank (reindent ws 0 t)) = setTail none (stripBlank t) :=
  strip_reindent ws hws 0 t h

end XmlDiffModel
