/-
C11 round trip, part 7: `do_tree` on a document whose text tags are not nested in text tags is a plain left-to-right
traversal (`doAll`): every text element is replaced, in place and in document order, by what `do_element` makes of it.
-/
import XmlDiffModel.Proofs.Undo6

namespace XmlDiffModel
namespace Undo
open Tree

def isTextTag (tags : List Str) (t : Tree) : Bool := t.payload.kind == .elem && tags.contains t.payload.tag

mutual
  /-- substitute every text element, left to right; text elements are not entered -/
  def doAll (tags : List Str) : Tree → PhSt → Tree × PhSt
    | .node i p ks, st =>
      if p.kind == .elem && tags.contains p.tag then doElement (.node i p ks) st
      else
        let r := doAllL tags ks st
        (.node i p r.1, r.2)
  def doAllL (tags : List Str) : List Tree → PhSt → List Tree × PhSt
    | [], st => ([], st)
    | t :: ts, st =>
      let r1 := doAll tags t st
      let r2 := doAllL tags ts r1.2
      (r1.1 :: r2.1, r2.2)
end

mutual
  /-- no text tag strictly inside a text tag -/
  def NonNested (tags : List Str) : Tree → Prop
    | .node _ p ks =>
      (if p.kind == .elem && tags.contains p.tag then textTagIdsL tags ks = [] else True) ∧ NonNestedL tags ks
  def NonNestedL (tags : List Str) : List Tree → Prop
    | [] => True
    | t :: ts => NonNested tags t ∧ NonNestedL tags ts
end

/-! ### `updateAt` and `find` -/

mutual
  theorem updateAt_absent (i : Nat) (f : Tree → Tree) (t : Tree) (h : i ∉ ids t) : updateAt i f t = t := by
    match t with
    | .node j p ks =>
      simp only [ids, List.mem_cons, not_or] at h
      unfold updateAt
      rw [if_neg (fun e => h.1 e.symm), updateAtL_absent i f ks h.2]
  theorem updateAtL_absent (i : Nat) (f : Tree → Tree) (ts : List Tree) (h : i ∉ idsL ts) : updateAtL i f ts = ts := by
    match ts with
    | [] => rfl
    | t :: rest =>
      simp only [idsL, List.mem_append, not_or] at h
      unfold updateAtL
      rw [updateAt_absent i f t h.1, updateAtL_absent i f rest h.2]
end

mutual
  theorem textTagIds_sub (tags : List Str) (t : Tree) : ∀ i ∈ textTagIds tags t, i ∈ ids t := by
    match t with
    | .node j p ks =>
      intro i hi
      simp only [textTagIds, List.mem_append] at hi
      simp only [ids, List.mem_cons]
      rcases hi with hi | hi
      · left
        split at hi
        · simpa using hi
        · cases hi
      · exact Or.inr (textTagIdsL_sub tags ks i hi)
  theorem textTagIdsL_sub (tags : List Str) (ts : List Tree) : ∀ i ∈ textTagIdsL tags ts, i ∈ idsL ts := by
    match ts with
    | [] => intro i hi; cases hi
    | t :: rest =>
      intro i hi
      simp only [textTagIdsL, List.mem_append] at hi
      simp only [idsL, List.mem_append]
      rcases hi with hi | hi
      · exact Or.inl (textTagIds_sub tags t i hi)
      · exact Or.inr (textTagIdsL_sub tags rest i hi)
end

theorem updateAtL_cons (i : Nat) (f : Tree → Tree) (t : Tree) (ts : List Tree) :
    updateAtL i f (t :: ts) = updateAt i f t :: updateAtL i f ts := by
  rw [updateAtL]

/-- what `doElementAt` does when the element is not in the tree: it looks for it among the detached elements -/
def doHeap (i : Nat) (st : PhSt) : PhSt :=
  match st.heap.findSome? (fun h => h.find i) with
  | some e =>
    let r := doElement e st
    { r.2 with heap := r.2.heap.map (updateAt i (fun _ => r.1)) }
  | none => st

/-- the list version of `doElementAt` -/
def doAtL (i : Nat) (ks : List Tree) (st : PhSt) : List Tree × PhSt :=
  match findL i ks with
  | some e =>
    let r := doElement e st
    (updateAtL i (fun _ => r.1) ks, r.2)
  | none => (ks, doHeap i st)

theorem doElementAt_eq (i : Nat) (t : Tree) (st : PhSt) :
    doElementAt i t st = match find i t with
      | some e => (updateAt i (fun _ => (doElement e st).1) t, (doElement e st).2)
      | none => (t, doHeap i st) := by
  unfold doElementAt doHeap
  cases find i t with
  | some e => rfl
  | none =>
    simp only
    cases st.heap.findSome? (fun h => h.find i) with
    | some e => rfl
    | none => rfl

/-- F1: through a node that is not the element itself -/
theorem doElementAt_node (i j : Nat) (p : Payload) (ks : List Tree) (st : PhSt) (hij : j ≠ i) :
    doElementAt i (.node j p ks) st = (.node j p (doAtL i ks st).1, (doAtL i ks st).2) := by
  rw [doElementAt_eq]
  unfold doAtL
  have hf : find i (.node j p ks) = findL i ks := by
    unfold find; rw [if_neg hij]
  rw [hf]
  cases hfl : findL i ks with
  | some e =>
    simp only
    unfold updateAt
    rw [if_neg hij]
  | none => rfl

/-- F2: the element is in (or belongs to) the first tree of the list -/
theorem doAtL_head (i : Nat) (k : Tree) (rest : List Tree) (st : PhSt) (h : i ∉ idsL rest) :
    doAtL i (k :: rest) st = ((doElementAt i k st).1 :: rest, (doElementAt i k st).2) := by
  rw [doElementAt_eq]
  unfold doAtL
  rw [findL_cons]
  cases hf : find i k with
  | some e =>
    simp only
    rw [updateAtL_cons, updateAtL_absent i _ rest h]
  | none =>
    simp only
    rw [findL_none i rest h]

/-- F3: the element is not in the first tree -/
theorem doAtL_skip (i : Nat) (k : Tree) (rest : List Tree) (st : PhSt) (h : i ∉ ids k) :
    doAtL i (k :: rest) st = (k :: (doAtL i rest st).1, (doAtL i rest st).2) := by
  unfold doAtL
  rw [findL_cons, find_none i k h]
  simp only
  cases hf : findL i rest with
  | some e =>
    simp only
    rw [updateAtL_cons, updateAt_absent i _ k h]
  | none => rfl

/-! ### the folds of `do_tree` -/

def foldT (L : List Nat) (t : Tree) (st : PhSt) : Tree × PhSt :=
  L.foldl (fun (acc : Tree × PhSt) i => doElementAt i acc.1 acc.2) (t, st)

def foldLst (L : List Nat) (ks : List Tree) (st : PhSt) : List Tree × PhSt :=
  L.foldl (fun (acc : List Tree × PhSt) i => doAtL i acc.1 acc.2) (ks, st)

theorem foldT_node (L : List Nat) (j : Nat) (p : Payload) (ks : List Tree) (st : PhSt) (h : ∀ i ∈ L, j ≠ i) :
    foldT L (.node j p ks) st = (.node j p (foldLst L ks st).1, (foldLst L ks st).2) := by
  induction L generalizing ks st with
  | nil => rfl
  | cons i rest ih =>
    simp only [foldT, foldLst, List.foldl_cons]
    rw [doElementAt_node i j p ks st (h i (by simp))]
    exact ih _ _ (fun x hx => h x (by simp [hx]))

theorem foldLst_head (L : List Nat) (k : Tree) (rest : List Tree) (st : PhSt) (h : ∀ i ∈ L, i ∉ idsL rest) :
    foldLst L (k :: rest) st = ((foldT L k st).1 :: rest, (foldT L k st).2) := by
  induction L generalizing k st with
  | nil => rfl
  | cons i more ih =>
    simp only [foldT, foldLst, List.foldl_cons]
    rw [doAtL_head i k rest st (h i (by simp))]
    exact ih _ _ (fun x hx => h x (by simp [hx]))

theorem foldLst_skip (L : List Nat) (k : Tree) (rest : List Tree) (st : PhSt) (h : ∀ i ∈ L, i ∉ ids k) :
    foldLst L (k :: rest) st = (k :: (foldLst L rest st).1, (foldLst L rest st).2) := by
  induction L generalizing rest st with
  | nil => rfl
  | cons i more ih =>
    simp only [foldLst, List.foldl_cons]
    rw [doAtL_skip i k rest st (h i (by simp))]
    exact ih _ _ (fun x hx => h x (by simp [hx]))

theorem foldLst_append (A B : List Nat) (ks : List Tree) (st : PhSt) :
    foldLst (A ++ B) ks st = foldLst B (foldLst A ks st).1 (foldLst A ks st).2 := by
  simp [foldLst, List.foldl_append]

/-! ### ids of the substituted document -/

theorem doElement_ids (e : Tree) (st : PhSt) : ids (doElement e st).1 = [e.id] := by
  cases e with
  | node i p ks => simp [doElement, ids, idsL, Tree.id]

mutual
  theorem doAll_ids (tags : List Str) (t : Tree) (st : PhSt) : ∀ i ∈ ids (doAll tags t st).1, i ∈ ids t := by
    match t with
    | .node j p ks =>
      intro i hi
      unfold doAll at hi
      split at hi
      · rw [doElement_ids] at hi
        simp only [List.mem_singleton, Tree.id] at hi
        simp [ids, hi]
      · simp only [ids, List.mem_cons] at hi ⊢
        rcases hi with hi | hi
        · exact Or.inl hi
        · exact Or.inr (doAllL_ids tags ks st i hi)
  theorem doAllL_ids (tags : List Str) (ts : List Tree) (st : PhSt) :
      ∀ i ∈ idsL (doAllL tags ts st).1, i ∈ idsL ts := by
    match ts with
    | [] => intro i hi; simp [doAllL, idsL] at hi
    | t :: rest =>
      intro i hi
      simp only [doAllL, idsL, List.mem_append] at hi ⊢
      rcases hi with hi | hi
      · exact Or.inl (doAll_ids tags t st i hi)
      · exact Or.inr (doAllL_ids tags rest _ i hi)
end

/-! ### `do_tree` is the traversal -/

mutual
  theorem foldT_doAll (tags : List Str) (t : Tree) (st : PhSt) (hn : (ids t).Nodup) (hnn : NonNested tags t) :
      foldT (textTagIds tags t) t st = doAll tags t st := by
    match t with
    | .node j p ks =>
      simp only [NonNested] at hnn
      simp only [ids, List.nodup_cons] at hn
      by_cases htt : (p.kind == .elem && tags.contains p.tag) = true
      · rw [if_pos htt] at hnn
        simp only [textTagIds, htt, if_true, hnn.1, List.append_nil]
        unfold doAll
        rw [if_pos htt]
        simp only [foldT, List.foldl_cons, List.foldl_nil]
        rw [doElementAt_eq]
        have hfs : find j (.node j p ks) = some (.node j p ks) := find_self (.node j p ks)
        rw [hfs]
        simp only [updateAt, if_true]
      · simp only [textTagIds, htt, Bool.false_eq_true, if_false, List.nil_append]
        unfold doAll
        rw [if_neg htt]
        rw [foldT_node _ j p ks st (fun i hi e => hn.1 (e ▸ textTagIdsL_sub tags ks i hi))]
        rw [foldLst_doAllL tags ks st hn.2 hnn.2]
  theorem foldLst_doAllL (tags : List Str) (ts : List Tree) (st : PhSt) (hn : (idsL ts).Nodup)
      (hnn : NonNestedL tags ts) : foldLst (textTagIdsL tags ts) ts st = doAllL tags ts st := by
    match ts with
    | [] => rfl
    | k :: rest =>
      simp only [NonNestedL] at hnn
      simp only [idsL, List.nodup_append] at hn
      obtain ⟨h1, h2, h3⟩ := hn
      simp only [textTagIdsL]
      rw [foldLst_append]
      rw [foldLst_head _ k rest st (fun i hi hm => h3 i (textTagIds_sub tags k i hi) i hm rfl)]
      rw [foldT_doAll tags k st h1 hnn.1]
      simp only
      rw [foldLst_skip _ _ rest _ (fun i hi hm =>
        h3 i (doAll_ids tags k st i hm) i (textTagIdsL_sub tags rest i hi) rfl)]
      rw [foldLst_doAllL tags rest _ h2 hnn.2]
      simp only [doAllL]
end

/-- **`do_tree` on a document without text tags nested in text tags** -/
theorem doTree_eq_doAll (t : Tree) (st : PhSt) (hne : st.textTags ≠ []) (hn : (ids t).Nodup)
    (hnn : NonNested st.textTags t) : doTree t st = doAll st.textTags t st := by
  unfold doTree
  have : st.textTags.isEmpty = false := by cases h : st.textTags <;> simp_all
  rw [this]
  simp only [Bool.false_eq_true, if_false]
  exact foldT_doAll st.textTags t st hn hnn

end Undo
end XmlDiffModel
