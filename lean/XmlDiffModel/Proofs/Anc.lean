/-
Ancestors in the working copy, through the children tables only: `Desc W a j` = `j` is `a` or lies below `a`.
Used to show that script generation never moves a node into its own subtree and never addresses a node that is
gone - i.e. that the differ does not raise.
-/
import XmlDiffModel.Proofs.Chaw6

namespace XmlDiffModel
namespace Chw
open Tree

/-- `j` is `a` or a descendant of `a` -/
inductive Desc (W : Tree) : Nat → Nat → Prop
  | refl (a : Nat) : Desc W a a
  | step {a q c : Nat} : Desc W a q → c ∈ kidIds W q → Desc W a c

theorem Desc.trans {W : Tree} {a b c : Nat} (h1 : Desc W a b) (h2 : Desc W b c) : Desc W a c := by
  induction h2 with
  | refl => exact h1
  | step _ hk ih => exact Desc.step ih hk

theorem Desc.inv {W : Tree} {a c : Nat} (h : Desc W a c) : a = c ∨ ∃ q, Desc W a q ∧ c ∈ kidIds W q := by
  cases h with
  | refl => exact Or.inl rfl
  | step h1 hk => exact Or.inr ⟨_, h1, hk⟩

/-- everything in the subtree found under `a` is a descendant of `a` -/
theorem desc_of_sub (W : Tree) (hn : (ids W).Nodup) :
    ∀ sub, find sub.id W = some sub → ∀ j ∈ ids sub, Desc W sub.id j := by
  intro sub
  induction sub using Tree.rec (motive_2 := fun ks => ∀ p, (∀ k ∈ ks, find k.id W = some k) →
      (∀ k ∈ ks, k.id ∈ kidIds W p) → ∀ j ∈ idsL ks, Desc W p j) with
  | node i q ks ih =>
    intro hf j hj
    simp only [ids, List.mem_cons] at hj
    simp only [Tree.id]
    rcases hj with e | e
    · rw [e]; exact Desc.refl _
    · refine ih i ?_ ?_ j e
      · intro k hk; exact find_of_sub W hn i _ hf k hk
      · intro k hk
        simp only [Tree.id] at hf
        unfold kidIds; rw [hf]
        exact List.mem_map.mpr ⟨k, hk, rfl⟩
  | nil => rename_i p _ _ j hj; simp [idsL] at hj
  | cons k rest ihk ihr =>
    rename_i p hfk hkid j hj
    simp only [idsL, List.mem_append] at hj
    rcases hj with e | e
    · have hk1 := hfk k List.mem_cons_self
      have hk2 := hkid k List.mem_cons_self
      exact Desc.trans (Desc.step (Desc.refl p) hk2) (ihk hk1 j e)
    · exact ihr p (fun c hc => hfk c (List.mem_cons_of_mem _ hc)) (fun c hc => hkid c (List.mem_cons_of_mem _ hc)) j e

theorem desc_of_found (W : Tree) (hn : (ids W).Nodup) (a j : Nat) (sub : Tree) (hf : find a W = some sub)
    (hj : j ∈ ids sub) : Desc W a j := by
  have hid := find_id a W sub hf
  have := desc_of_sub W hn sub (hid ▸ hf) j hj
  rwa [hid] at this

/-- descendants stay inside the subtree found under the ancestor -/
theorem sub_of_desc (W : Tree) (hn : (ids W).Nodup) (a j : Nat) (sub : Tree) (hf : find a W = some sub)
    (h : Desc W a j) : j ∈ ids sub := by
  induction h with
  | refl => have := id_mem_ids sub; rwa [find_id a W sub hf] at this
  | @step q c _ hk ih =>
    have hk' : c ∈ kidIds sub q := by rw [← kidIds_of_sub a q W sub hn hf ih]; exact hk
    exact (kidIds_sub sub q c hk').1

theorem desc_congr (W W' : Tree) (h : ∀ q, kidIds W' q = kidIds W q) (a j : Nat) : Desc W' a j ↔ Desc W a j := by
  constructor
  · intro hd
    induction hd with
    | refl => exact Desc.refl _
    | step _ hk ih => exact Desc.step ih (h _ ▸ hk)
  · intro hd
    induction hd with
    | refl => exact Desc.refl _
    | step _ hk ih => exact Desc.step ih ((h _).symm ▸ hk)

/-- nodes outside the subtree of the placed node keep their ancestors -/
theorem desc_placed_back {W W' : Tree} {v tgt pos : Nat} (hpl : Placed W W' v tgt pos) (a j : Nat)
    (hvj : ¬ Desc W v j) (h : Desc W' a j) : Desc W a j := by
  induction h with
  | refl => exact Desc.refl _
  | @step q c _ hk ih =>
    have hcv : c ≠ v := fun e => hvj (e ▸ Desc.refl c)
    have hk' : c ∈ kidIds W q := (hpl.kid_old c q hcv).mp hk
    have hvq : ¬ Desc W v q := fun hd => hvj (Desc.step hd hk')
    exact Desc.step (ih hvq) hk'

/-- a node that is not in the tree has no descendants but itself -/
theorem desc_absent (W : Tree) (v j : Nat) (hv : v ∉ ids W) (h : Desc W v j) : j = v := by
  induction h with
  | refl => rfl
  | @step q c _ hk ih =>
    exfalso
    have := ih
    rw [this] at hk
    exact hv (kidIds_sub W v c hk).2

/-- ancestors of partners of completely visited right nodes are partners of completely visited right nodes -/
def AncInv (s : DState) (D : List Nat) : Prop :=
  ∀ p ∈ D, ∀ l, r2lGet s.ms p = some l → ∀ a, Desc s.left a l → ∃ z ∈ D, r2lGet s.ms z = some a

theorem AncInv.placed {s s' : DState} {D : List Nat} {v tgt pos : Nat} (anc : AncInv s D)
    (hpl : Placed s.left s'.left v tgt pos)
    (hr2l : ∀ c ∈ D, r2lGet s'.ms c = r2lGet s.ms c)
    (hv : ∀ p ∈ D, ∀ l, r2lGet s.ms p = some l → ¬ Desc s.left v l) : AncInv s' D := by
  intro p hp l hl a hd
  rw [hr2l p hp] at hl
  have := desc_placed_back hpl a l (hv p hp l hl) hd
  obtain ⟨z, hz, hza⟩ := anc p hp l hl a this
  exact ⟨z, hz, by rw [hr2l z hz]; exact hza⟩

theorem AncInv.congr {s s' : DState} {D : List Nat} (anc : AncInv s D)
    (hk : ∀ q, kidIds s'.left q = kidIds s.left q) (hms : s'.ms = s.ms) : AncInv s' D := by
  intro p hp l hl a hd
  rw [hms] at hl
  obtain ⟨z, hz, hza⟩ := anc p hp l hl a ((desc_congr _ _ hk a l).mp hd)
  exact ⟨z, hz, by rw [hms]; exact hza⟩

/-- the node just visited joins: it is the root, or sits under the partner of a completely visited node -/
theorem AncInv.close {s : DState} {D : List Nat} (anc : AncInv s D) (hn : (ids s.left).Nodup)
    (x l : Nat) (hl : r2lGet s.ms x = some l)
    (hhome : l = s.left.id ∨ ∃ py tgt, py ∈ D ∧ r2lGet s.ms py = some tgt ∧ l ∈ kidIds s.left tgt) :
    AncInv s (x :: D) := by
  have key : ∀ a, Desc s.left a l → ∃ z ∈ x :: D, r2lGet s.ms z = some a := by
    intro a hd
    rcases hd.inv with e | ⟨q, hq, hk⟩
    · exact ⟨x, List.mem_cons_self, e ▸ hl⟩
    · rcases hhome with e | ⟨py, tgt, hpy, htg, hkt⟩
      · exfalso
        have := (parId_iff _ hn l q).mpr hk
        rw [e, root_no_parent _ hn] at this
        cases this
      · have : q = tgt := parent_unique _ hn l q tgt hk hkt
        rw [this] at hq
        obtain ⟨z, hz, hza⟩ := anc py hpy tgt htg a hq
        exact ⟨z, List.mem_cons_of_mem _ hz, hza⟩
  intro p hp l' hl' a hd
  rcases List.mem_cons.mp hp with e | e
  · rw [e, hl] at hl'
    injection hl' with hl'
    exact key a (hl' ▸ hd)
  · obtain ⟨z, hz, hza⟩ := anc p e l' hl' a hd
    exact ⟨z, List.mem_cons_of_mem _ hz, hza⟩

end Chw
end XmlDiffModel
