/-
The invariant of the XML formatter's handlers (no text tags in the texts, no `use_replace`): the maker state is never
touched and every text / tail of the working tree stays `Marked`.  With `Proofs/Finalize.lean`: the tree `format`
hands to `render` has no placeholder characters.
-/
import XmlDiffModel.Proofs.Finalize

namespace XmlDiffModel
namespace TextMark
open Tree Undo

/-! ### `Marked` and the tree operations -/

theorem markedL_iff (st : PhSt) (ts : List Tree) : MarkedL st ts ↔ ∀ t ∈ ts, MarkedT st t := by
  induction ts with
  | nil => simp [MarkedL]
  | cons x xs ih => simp [MarkedL, ih]

mutual
  theorem markedT_modify (st : PhSt) (i : Nat) (f : Payload → Payload)
      (hf : ∀ p, MarkedStr st p.text → MarkedStr st p.tail → MarkedStr st (f p).text ∧ MarkedStr st (f p).tail)
      (t : Tree) (h : MarkedT st t) : MarkedT st (modify i f t) := by
    match t with
    | .node j p ks =>
      simp only [MarkedT] at h
      unfold Tree.modify
      split
      · simp only [MarkedT]
        exact ⟨(hf p h.1 h.2.1).1, (hf p h.1 h.2.1).2, h.2.2⟩
      · simp only [MarkedT]
        exact ⟨h.1, h.2.1, markedL_modify st i f hf ks h.2.2⟩
  theorem markedL_modify (st : PhSt) (i : Nat) (f : Payload → Payload)
      (hf : ∀ p, MarkedStr st p.text → MarkedStr st p.tail → MarkedStr st (f p).text ∧ MarkedStr st (f p).tail)
      (ts : List Tree) (h : MarkedL st ts) : MarkedL st (modifyL i f ts) := by
    match ts with
    | [] => simp [modifyL, MarkedL]
    | t :: rest =>
      simp only [MarkedL] at h
      simp only [modifyL, MarkedL]
      exact ⟨markedT_modify st i f hf t h.1, markedL_modify st i f hf rest h.2⟩
end

theorem markedL_insertAt (st : PhSt) (ks : List Tree) (pos : Nat) (x : Tree) (hk : MarkedL st ks) (hx : MarkedT st x) :
    MarkedL st (insertAt ks pos x) := by
  rw [markedL_iff] at hk ⊢
  intro t ht
  simp only [insertAt, List.mem_append, List.mem_cons] at ht
  rcases ht with ht | rfl | ht
  · exact hk t (List.mem_of_mem_take ht)
  · exact hx
  · exact hk t (List.mem_of_mem_drop ht)

mutual
  theorem markedT_insertChild (st : PhSt) (i pos : Nat) (sub : Tree) (hs : MarkedT st sub) (t : Tree)
      (h : MarkedT st t) : MarkedT st (insertChild i pos sub t) := by
    match t with
    | .node j p ks =>
      simp only [MarkedT] at h
      unfold insertChild
      split
      · simp only [MarkedT]
        exact ⟨h.1, h.2.1, markedL_insertAt st ks pos sub h.2.2 hs⟩
      · simp only [MarkedT]
        exact ⟨h.1, h.2.1, markedL_insertChildL st i pos sub hs ks h.2.2⟩
  theorem markedL_insertChildL (st : PhSt) (i pos : Nat) (sub : Tree) (hs : MarkedT st sub) (ts : List Tree)
      (h : MarkedL st ts) : MarkedL st (insertChildL i pos sub ts) := by
    match ts with
    | [] => simp [insertChildL, MarkedL]
    | t :: rest =>
      simp only [MarkedL] at h
      simp only [insertChildL, MarkedL]
      exact ⟨markedT_insertChild st i pos sub hs t h.1, markedL_insertChildL st i pos sub hs rest h.2⟩
end

theorem markedT_kids (st : PhSt) (t : Tree) (h : MarkedT st t) : MarkedL st t.kids := by
  cases t with
  | node j p ks => simp only [MarkedT] at h; exact h.2.2

theorem markedT_payload (st : PhSt) (t : Tree) (h : MarkedT st t) :
    MarkedStr st t.payload.text ∧ MarkedStr st t.payload.tail := by
  cases t with
  | node j p ks => simp only [MarkedT] at h; exact ⟨h.1, h.2.1⟩

/-- `_xpath` returns a node of the tree -/
theorem xstep_marked (st : PhSt) (qn : QName) (s : Step) (forest : List Tree) (m : Tree)
    (hf : MarkedL st forest) (h : xstep qn s forest = .ok m) : MarkedT st m := by
  rw [markedL_iff] at hf
  unfold xstep at h
  simp only at h
  have key : ∀ x, x ∈ (forest.filter (fun t => s.test.matches qn t.payload)).filter (fun t => !isGhost t) →
      MarkedT st x := fun x hx => hf x (List.mem_filter.1 (List.mem_filter.1 hx).1).1
  split at h
  · split at h
    · next mm hm =>
      simp only [Except.ok.injEq] at h
      subst h
      exact key _ (List.mem_of_getElem? hm)
    · cases h
  · cases h
  · split at h
    · cases h
    · next mm hm =>
      simp only [Except.ok.injEq] at h
      subst h
      exact key _ (by rw [hm]; simp)
    · cases h

theorem xresolveL_marked (st : PhSt) (qn : QName) (p : Path) (forest : List Tree) (m : Tree)
    (hf : MarkedL st forest) (h : xresolveL qn p forest = .ok m) : MarkedT st m := by
  induction p generalizing forest with
  | nil => simp [xresolveL] at h
  | cons s rest ih =>
    simp only [xresolveL] at h
    split at h
    · cases h
    · next m1 hm1 =>
      have h1 := xstep_marked st qn s forest m1 hf hm1
      cases rest with
      | nil =>
        simp only [Except.ok.injEq] at h
        subst h
        exact h1
      | cons s2 rest2 => exact ih m1.kids (markedT_kids st m1 h1) h

theorem xresolve_marked (st : PhSt) (qn : QName) (t : Tree) (p : Path) (m : Tree)
    (ht : MarkedT st t) (h : xresolve qn t p = .ok m) : MarkedT st m :=
  xresolveL_marked st qn p [t] m (by simp [MarkedL, ht]) h

mutual
  theorem markedT_renum (st : PhSt) (start : Nat) (t : Tree) (h : MarkedT st t) :
      MarkedT st (applyFmt.renum start t) := by
    match t with
    | .node j p ks =>
      simp only [MarkedT] at h
      simp only [applyFmt.renum, MarkedT]
      exact ⟨h.1, h.2.1, markedL_renumL st (start + 1) ks h.2.2⟩
  theorem markedL_renumL (st : PhSt) (start : Nat) (ts : List Tree) (h : MarkedL st ts) :
      MarkedL st (applyFmt.renumL start ts) := by
    match ts with
    | [] => simp [applyFmt.renumL, MarkedL]
    | t :: rest =>
      simp only [MarkedL] at h
      simp only [applyFmt.renumL, MarkedL]
      exact ⟨markedT_renum st start t h.1, markedL_renumL st (start + Tree.size t) rest h.2⟩
end

theorem markedT_setAttrsT (st : PhSt) (f : List (Str × Str) → List (Str × Str)) (t : Tree) (h : MarkedT st t) :
    MarkedT st (setAttrsT f t) := by
  cases t with
  | node j p ks =>
    simp only [MarkedT] at h
    simp only [setAttrsT, MarkedT]
    exact h

/-! ### `_make_diff_tags` in both positions -/

theorem emit_eq_b (b : Bool) (s : FState) (segs : List Seg) (hn : NoRep segs)
    (hp : ∀ d ∈ segs, PlainFor s.ph d.text) (acc : Str) :
    emitSegs b segs s acc = .ok (acc ++ emitted segs, s) := by
  induction segs generalizing acc with
  | nil => simp [emitSegs, emitted, altOf, flatAlt]
  | cons d rest ih =>
    have ih' := ih (fun x hx => hn x (by simp [hx])) (fun x hx => hp x (by simp [hx]))
    have hd := hn d (by simp)
    have hpl := hp d (by simp)
    rw [emitSegs]
    by_cases he : d.op = .eq
    · rw [if_pos he, ih']
      simp [emitted, altOf, he]
    · rw [if_neg he]
      have hold : (if d.op = Op.rep then some d.old else none) = none := by rw [if_neg hd]
      simp only [hold]
      have key : (let r := wrapDiff s d.text d.op none; emitSegs b rest r.2 (acc ++ r.1)) =
          .ok (acc ++ emitted (d :: rest), s) := by
        rw [wrapDiff_none]
        simp only
        rw [ih']
        simp [emitted, altOf, he, flatAlt]
      cases hdt : d.text with
      | nil => simp only [hdt] at key ⊢; exact key
      | cons c cs =>
        cases cs with
        | nil =>
          have hc : s.ph.isPh c = false := hpl c (by rw [hdt]; simp)
          simp only [hdt, hc, Bool.false_eq_true, if_false] at key ⊢
          exact key
        | cons c2 cs2 => simp only [hdt] at key ⊢; exact key

/-- the oracle answers still to come are plain diffs of texts without private-use characters -/
def SegsOK (segs : List (List Seg)) : Prop :=
  ∀ d ∈ segs, NoRep d ∧ (∀ x ∈ d, x.old = []) ∧ ∀ x ∈ d, Low x.text

theorem makeDiffTags_eq (b : Bool) (s : FState) (hb : Base s.ph) (hu : s.useReplace = false)
    (d : List Seg) (more : List (List Seg)) (hs : s.segs = d :: more)
    (hn : NoRep d) (ho : ∀ x ∈ d, x.old = []) (hl : ∀ x ∈ d, Low x.text) :
    makeDiffTags s b = .ok (emitted (nonEmpty d), { s with segs := more }) ∧
      NoRep (nonEmpty d) ∧ ∀ x ∈ nonEmpty d, Low x.text := by
  have ha : Above s.ph := hb.closed.lob
  have hp : ∀ x ∈ d, PlainFor s.ph x.text := fun x hx => plainFor_of_low s.ph ha _ (hl x hx)
  have hsub : ∀ x ∈ nonEmpty d, x ∈ d := fun x hx => (List.mem_filter.1 hx).1
  refine ⟨?_, fun x hx => hn x (hsub x hx), fun x hx => hl x (hsub x hx)⟩
  unfold makeDiffTags
  rw [hs]
  simp only
  rw [realign_plain s.ph d hp [] []]
  simp only [hu, List.nil_append, Bool.false_eq_true, if_false]
  rw [map_pair_asSeg (nonEmpty d) (fun x hx => ho x (hsub x hx))]
  have := emit_eq_b b { s with segs := more } (nonEmpty d) (fun x hx => hn x (hsub x hx))
    (fun x hx => hp x (hsub x hx)) []
  simp only [List.nil_append, hu] at this
  exact this

/-! ### the handlers keep the invariant -/

structure FInv (s : FState) : Prop where
  base : Base s.ph
  marked : MarkedT s.ph s.tree
  norep : s.useReplace = false
  segs : SegsOK s.segs

/-- new texts carried by the script are free of private-use characters -/
def ActLow : Action → Prop
  | .updateTextIn _ t => Low (strOf t)
  | _ => True

theorem finv_modify (s : FState) (inv : FInv s) (i : Nat) (f : Payload → Payload)
    (hf : ∀ p, (f p).text = p.text ∧ (f p).tail = p.tail) : FInv (modifyNode s i f) := by
  refine ⟨inv.base, ?_, inv.norep, inv.segs⟩
  exact markedT_modify s.ph i f (fun p h1 h2 => by rw [(hf p).1, (hf p).2]; exact ⟨h1, h2⟩) s.tree inv.marked

theorem markedStr_of_low (st : PhSt) (ha : Above st) (t : Option Str) (h : Low (strOf t)) : MarkedStr st t :=
  Or.inl (plainFor_of_low st ha _ h)

theorem markedStr_emitted (st : PhSt) (segs : List Seg) (hn : NoRep segs) (hl : ∀ d ∈ segs, Low d.text) :
    MarkedStr st (if (emitted segs).isEmpty then none else some (emitted segs)) := by
  split
  · left; intro c hc; cases hc
  · right; exact ⟨segs, hn, hl, rfl⟩

theorem applyFmt_inv (qn : QName) (s s' : FState) (a : Action) (inv : FInv s) (ha : ActLow a)
    (h : applyFmt qn s a = .ok s') : FInv s' ∧ s'.ph = s.ph := by
  have hab : Above s.ph := inv.base.closed.lob
  cases a <;> simp only [applyFmt, bind, Except.bind, pure, Except.pure] at h
  case deleteNode n =>
    split at h
    · cases h
    · simp only [Except.ok.injEq] at h; subst h
      exact ⟨finv_modify s inv _ _ (fun p => ⟨rfl, rfl⟩), rfl⟩
  case insertNode tgt tag pos =>
    split at h
    · cases h
    · simp only [Except.ok.injEq] at h; subst h
      refine ⟨⟨inv.base, ?_, inv.norep, inv.segs⟩, rfl⟩
      apply markedT_insertChild _ _ _ _ _ _ inv.marked
      simp only [MarkedT, MarkedL, and_true]
      exact ⟨Or.inl (fun c hc => by cases hc), Or.inl (fun c hc => by cases hc)⟩
  case renameNode n tag =>
    split at h
    · cases h
    · simp only [Except.ok.injEq] at h; subst h
      exact ⟨finv_modify s inv _ _ (fun p => ⟨rfl, rfl⟩), rfl⟩
  case moveNode n tgt pos =>
    split at h
    · cases h
    · next node hnode =>
      split at h
      · cases h
      · next target htarget =>
        simp only [Except.ok.injEq] at h; subst h
        have inv1 := finv_modify s inv node.id (fun p => { p with attrs := attrSet p.attrs DELETE_NAME [] })
          (fun p => ⟨rfl, rfl⟩)
        refine ⟨⟨inv.base, ?_, inv.norep, inv.segs⟩, rfl⟩
        apply markedT_insertChild _ _ _ _ _ _ inv1.marked
        apply markedT_setAttrsT
        simp only [applyFmt.renumber]
        exact markedT_renum s.ph s.next node (xresolve_marked s.ph qn s.tree n node inv.marked hnode)
  case updateTextIn n text =>
    split at h
    · cases h
    · next node hnode =>
      split at h
      · simp only [Except.ok.injEq] at h; subst h
        refine ⟨⟨inv.base, ?_, inv.norep, inv.segs⟩, rfl⟩
        exact markedT_modify s.ph node.id (fun p => { p with text := text })
          (fun p _ h2 => ⟨markedStr_of_low s.ph hab text ha, h2⟩) s.tree inv.marked
      · cases hsg : s.segs with
        | nil => simp [makeDiffTags, hsg] at h
        | cons d more =>
          obtain ⟨h1, h2, h3⟩ := inv.segs d (by rw [hsg]; simp)
          obtain ⟨hm, hn', hl'⟩ := makeDiffTags_eq false s inv.base inv.norep d more hsg h1 h2 h3
          rw [hm] at h
          simp only [Except.ok.injEq] at h; subst h
          refine ⟨⟨inv.base, ?_, inv.norep, fun x hx => inv.segs x (by rw [hsg]; exact List.mem_cons_of_mem _ hx)⟩, rfl⟩
          exact markedT_modify s.ph node.id
            (fun p => { p with text := if (emitted (nonEmpty d)).isEmpty then none else some (emitted (nonEmpty d)) })
            (fun p _ h2 => ⟨markedStr_emitted s.ph _ hn' hl', h2⟩) s.tree inv.marked
  case updateTextAfter n text =>
    split at h
    · cases h
    · next node hnode =>
      cases hsg : s.segs with
      | nil => simp [makeDiffTags, hsg] at h
      | cons d more =>
        obtain ⟨h1, h2, h3⟩ := inv.segs d (by rw [hsg]; simp)
        obtain ⟨hm, hn', hl'⟩ := makeDiffTags_eq true s inv.base inv.norep d more hsg h1 h2 h3
        rw [hm] at h
        simp only [Except.ok.injEq] at h; subst h
        refine ⟨⟨inv.base, ?_, inv.norep, fun x hx => inv.segs x (by rw [hsg]; exact List.mem_cons_of_mem _ hx)⟩, rfl⟩
        exact markedT_modify s.ph node.id
          (fun p => { p with tail := if (emitted (nonEmpty d)).isEmpty then none else some (emitted (nonEmpty d)) })
          (fun p h1 _ => ⟨h1, markedStr_emitted s.ph _ hn' hl'⟩) s.tree inv.marked
  case updateAttrib n name value =>
    split at h
    · cases h
    · split at h
      · cases h
      · simp only [Except.ok.injEq] at h; subst h
        exact ⟨finv_modify s inv _ _ (fun p => ⟨rfl, rfl⟩), rfl⟩
  case deleteAttrib n name =>
    split at h
    · cases h
    · split at h
      · cases h
      · simp only [Except.ok.injEq] at h; subst h
        exact ⟨finv_modify s inv _ _ (fun p => ⟨rfl, rfl⟩), rfl⟩
  case insertAttrib n name value =>
    split at h
    · cases h
    · simp only [Except.ok.injEq] at h; subst h
      exact ⟨finv_modify s inv _ _ (fun p => ⟨rfl, rfl⟩), rfl⟩
  case renameAttrib n old new =>
    split at h
    · cases h
    · split at h
      · cases h
      · simp only [Except.ok.injEq] at h; subst h
        exact ⟨finv_modify s inv _ _ (fun p => ⟨rfl, rfl⟩), rfl⟩
  case insertComment => cases h
  case insertNamespace => simp only [Except.ok.injEq] at h; subst h; exact ⟨inv, rfl⟩
  case deleteNamespace => simp only [Except.ok.injEq] at h; subst h; exact ⟨inv, rfl⟩

theorem runFmt_inv (qn : QName) (script : List Action) (s s' : FState) (inv : FInv s)
    (ha : ∀ a ∈ script, ActLow a) (h : runFmt qn s script = .ok s') : FInv s' ∧ s'.ph = s.ph := by
  induction script generalizing s with
  | nil => simp only [runFmt, Except.ok.injEq] at h; subst h; exact ⟨inv, rfl⟩
  | cons a rest ih =>
    simp only [runFmt] at h
    split at h
    · cases h
    · next s1 h1 =>
      obtain ⟨inv1, hph1⟩ := applyFmt_inv qn s s1 a inv (ha a (by simp)) h1
      split at h
      · cases h
      · next r hr =>
        simp only [Except.ok.injEq] at h; subst h
        obtain ⟨i2, hph2⟩ := ih s1 inv1 (fun b hb => ha b (by simp [hb])) hr
        exact ⟨i2, hph2.trans hph1⟩

/-- **What `format` hands to `render` has no placeholder characters** (formatter without text tags in the texts and
without `use_replace`): from a state whose tree texts are marked, after any script the handlers accept, `finalize`
(`undo_element` on the root, for every sufficiently large fuel) succeeds and the tree it returns is free of
placeholder characters. -/
theorem format_placeholder_free (qn : QName) (script : List Action) (s s' : FState) (inv : FInv s)
    (ha : ∀ a ∈ script, ActLow a) (h : runFmt qn s script = .ok s') :
    s'.ph = s.ph ∧ ∃ r after, (∃ N, ∀ f, N ≤ f → undoElement f s'.ph diffElemList s'.tree = .ok (r, after)) ∧
      PlainT s'.ph r := by
  obtain ⟨inv', hph⟩ := runFmt_inv qn script s s' inv ha h
  obtain ⟨r, after, hu, hr, _⟩ := undoElement_marked s'.ph inv'.base s'.tree inv'.marked
  exact ⟨hph, r, after, hu, hr⟩

/-- the state `format` starts from when no text tags are configured: `prepare` leaves the maker as `__init__` built
it (`do_tree` does nothing without text tags) -/
theorem finv_init (ft : List Str) (L : Tree) (nx : Nat) (segs : List (List Seg)) (w : Bool) (hlow : LowT L)
    (hsegs : SegsOK segs) :
    FInv { tree := L, next := nx, ph := phInit [] ft, segs := segs, useReplace := false, wsText := w } := by
  have hb : Base (phInit [] ft) := by
    have := base_history [] ft [] (by
      show (phInit [] ft).counter < 0x110000
      have : (phInit [] ft).counter = phStart + 6 := rfl
      rw [this]; decide)
    exact this
  exact ⟨hb, markedT_of_plain _ L (plainT_of_lowT _ hb.closed.lob L hlow), rfl, hsegs⟩

end TextMark
end XmlDiffModel
