/-
C10, tree level, part 2: every handler of the XML formatter keeps the rejected view of the working tree.
-/
import XmlDiffModel.Proofs.Rej1
import XmlDiffModel.Proofs.AttrsFinal

namespace XmlDiffModel
namespace Rej
open Tree Undo TextMark Acc

/-! ### rejected reading of emitted strings -/

theorem rejChars_low_append (d : Bool) (t rest : Str) (h : Low t) :
    rejChars d (t ++ rest) = (if d then [] else t) ++ rejChars d rest := by
  induction t with
  | nil => cases d <;> simp
  | cons c cs ih =>
    obtain ⟨n1, n2, n3, n4⟩ := low_ne_wrap c (h c (by simp))
    have ih' := ih (fun x hx => h x (by simp [hx]))
    simp only [List.cons_append, rejChars, n1, n2, n3, n4, if_false, or_self]
    cases d
    · simp only [Bool.false_eq_true, if_false] at ih' ⊢
      rw [ih']; rfl
    · simp only [if_true] at ih' ⊢
      exact ih'

theorem rejChars_low (t : Str) (h : Low t) : rejChars false t = t := by
  have := rejChars_low_append false t [] h
  simpa [rejChars] using this

/-- the rejected reading of an emitted string is the equal + delete text -/
theorem rejChars_emitted (segs : List Seg) (hn : NoRep segs) (hl : ∀ d ∈ segs, Low d.text) :
    rejChars false (emitted segs) = rejText segs := by
  induction segs with
  | nil => simp [emitted, altOf, flatAlt, rejChars, rejText]
  | cons d rest ih =>
    have ih' := ih (fun x hx => hn x (by simp [hx])) (fun x hx => hl x (by simp [hx]))
    have hd := hn d (by simp)
    have hlow := hl d (by simp)
    rw [emitted_cons]
    cases hop : d.op with
    | eq =>
      simp only [if_true, rejText, hop]
      rw [rejChars_low_append false d.text _ hlow, ih']
      simp
    | del =>
      simp only [reduceCtorEq, if_false, rejText, hop, wrapPhs]
      have e1 : phChar (phStart + 4) = delOpen := rfl
      have e2 : phChar (phStart + 3) = delClose := rfl
      have a1 : delOpen ≠ insOpen := by decide
      have a2 : delOpen ≠ insClose := by decide
      have b1 : delClose ≠ insOpen := by decide
      have b2 : delClose ≠ insClose := by decide
      rw [e1, e2]
      simp only [rejChars, a1, a2, if_false, true_or, if_true]
      rw [rejChars_low_append false d.text _ hlow]
      simp only [Bool.false_eq_true, if_false, rejChars, b1, b2, or_true, if_true]
      rw [ih']
    | ins =>
      simp only [reduceCtorEq, if_false, rejText, hop, wrapPhs]
      have e1 : phChar (phStart + 2) = insOpen := rfl
      have e2 : phChar (phStart + 1) = insClose := rfl
      have b1 : insClose ≠ insOpen := by decide
      rw [e1, e2]
      simp only [rejChars, if_true]
      rw [rejChars_low_append true d.text _ hlow]
      simp only [if_true, List.nil_append, rejChars, b1, if_false]
      rw [ih']
    | rep => exact absurd hop hd

theorem rejText_nonEmpty' (segs : List Seg) (hn : NoRep segs) : rejText (nonEmpty segs) = rejText segs :=
  rejText_nonEmpty segs hn

/-- what the text handlers store, read back as rejected: the engine answer's equal + delete text, normalised -/
theorem rejS_emitted (d : List Seg) (hn : NoRep d) (hl : ∀ x ∈ d, Low x.text) :
    rejS (if (emitted (nonEmpty d)).isEmpty then none else some (emitted (nonEmpty d))) = nt (some (rejText d)) := by
  have hsub : ∀ x ∈ nonEmpty d, x ∈ d := fun x hx => (List.mem_filter.1 hx).1
  have key : rejChars false (emitted (nonEmpty d)) = rejText d := by
    rw [rejChars_emitted _ (fun x hx => hn x (hsub x hx)) (fun x hx => hl x (hsub x hx)), rejText_nonEmpty d hn]
  split
  · next he =>
    have : emitted (nonEmpty d) = [] := List.isEmpty_iff.1 he
    rw [this] at key
    simp only [rejChars] at key
    rw [← key]
    rfl
  · simp only [rejS, Option.map_some, key]

theorem nt_idem (o : Option Str) : nt (some (strOf (nt o))) = nt o := by
  cases o with
  | none => rfl
  | some x =>
    by_cases hx : x = []
    · subst hx; rfl
    · simp [nt, strOf, hx]

theorem rejS_nt (o : Option Str) : nt (some (strOf (rejS o))) = rejS o := by
  unfold rejS
  exact nt_idem _

/-! ### the invariant -/

structure ROK (s : FState) : Prop where
  nodup : (ids s.tree).Nodup
  fresh : ∀ i ∈ ids s.tree, i < s.next
  root : isIns s.tree = false
  base : Base s.ph
  norep : s.useReplace = false

/-- a well-formed engine answer -/
def AnswerOK (d : List Seg) : Prop := NoRep d ∧ (∀ x ∈ d, x.old = []) ∧ ∀ x ∈ d, Low x.text

/-- what is assumed for one action, in the state the formatter is in: a node is renamed at most once, a text is
marked at most once (its current rejected reading is what the engine answer rejects to) -/
def RejStep (qn : QName) (s : FState) : Action → Prop
  | .renameNode n _ => ∀ node, xresolve qn s.tree n = .ok node →
      isIns node = true ∨ attrGet node.payload.attrs RENAME_NAME = none
  | .updateTextIn n _ => ∀ node, xresolve qn s.tree n = .ok node → isIns node = false →
      ∃ d more, s.segs = d :: more ∧ AnswerOK d ∧ rejText d = strOf (rejS node.payload.text)
  | .updateTextAfter n _ => ∀ node, xresolve qn s.tree n = .ok node →
      ∃ d more, s.segs = d :: more ∧ AnswerOK d ∧
        (isIns node = true ∨ rejText d = strOf (rejS node.payload.tail))
  | _ => True

theorem rej_modify' (s : FState) (inv : ROK s) (i : Nat) (f : Payload → Payload) (m : Tree)
    (hg : ∀ p, attrHas (f p).attrs INSERT_NAME = attrHas p.attrs INSERT_NAME)
    (hf : find i s.tree = some m) (hm : isIns m = true ∨ rejP (f m.payload) = rejP m.payload) :
    rej (modify i f s.tree) = rej s.tree ∧ ROK (modifyNode s i f) := by
  refine ⟨rej_modify i f m hg s.tree inv.nodup hf ?_ hm, ?_⟩
  · intro e
    have : m = s.tree := by
      have h0 := find_self s.tree
      rw [e] at h0
      rw [h0] at hf
      injection hf with hf
      exact hf.symm
    rcases hm with hm | hm
    · rw [this, inv.root] at hm; cases hm
    · exact hm
  · refine ⟨?_, ?_, ?_, inv.base, inv.norep⟩
    · simp only [modifyNode, ids_modify]; exact inv.nodup
    · intro j hj
      simp only [modifyNode, ids_modify] at hj
      exact inv.fresh j hj
    · simp only [modifyNode]
      rw [isIns_modify i f s.tree hg]
      exact inv.root

/-- payload maps that only touch attributes other than `diff:insert` and `diff:rename` -/
theorem rejP_attrs_only (f : Payload → Payload) (p : Payload)
    (h1 : (f p).kind = p.kind ∧ (f p).tag = p.tag ∧ (f p).text = p.text ∧ (f p).tail = p.tail)
    (h2 : attrGet (f p).attrs RENAME_NAME = attrGet p.attrs RENAME_NAME) : rejP (f p) = rejP p := by
  simp only [rejP, h1.1, h1.2.1, h1.2.2.1, h1.2.2.2, h2]

theorem get_extend (as : Attrs) (action : String) (value : Str) (k : Str) (hne : k ≠ dname (action ++ "-attr")) :
    attrGet (extendDiffAttr as action value) k = attrGet as k := by
  unfold extendDiffAttr
  simp only
  split
  · split <;> simp [attrGet_attrSet, hne]
  · simp [attrGet_attrSet, hne]

theorem has_extend (as : Attrs) (action : String) (value : Str) (k : Str) (hne : k ≠ dname (action ++ "-attr")) :
    attrHas (extendDiffAttr as action value) k = attrHas as k := by
  unfold attrHas; rw [get_extend as action value k hne]

theorem ne_of_plain (k d : Str) (hk : isDiffKey k = false) (hd : isDiffKey d = true) : d ≠ k := by
  intro e
  rw [e, hk] at hd
  cases hd

theorem isDiffKey_insert : isDiffKey INSERT_NAME = true := isDiffKey_dname "insert"

mutual
  theorem ids_renum (start : Nat) (t : Tree) : ids (applyFmt.renum start t) = List.range' start (size t) := by
    match t with
    | .node j p ks =>
      simp only [applyFmt.renum, ids, size]
      rw [idsL_renumL (start + 1) ks, Nat.add_comm 1, List.range'_succ]
  theorem idsL_renumL (start : Nat) (ts : List Tree) :
      idsL (applyFmt.renumL start ts) = List.range' start (sizeL ts) := by
    match ts with
    | [] => simp [applyFmt.renumL, idsL, sizeL]
    | t :: rest =>
      simp only [applyFmt.renumL, idsL, sizeL]
      rw [ids_renum start t, idsL_renumL (start + size t) rest, List.range'_append_1]
end

theorem ids_setAttrsT (f : List (Str × Str) → List (Str × Str)) (t : Tree) : ids (setAttrsT f t) = ids t := by
  cases t; simp [setAttrsT, ids]

/-! ### one handler -/

theorem rok_segs (s : FState) (more : List (List Seg)) (inv : ROK s) : ROK { s with segs := more } :=
  ⟨inv.nodup, inv.fresh, inv.root, inv.base, inv.norep⟩

theorem rej_step (qn : QName) (s s' : FState) (a : Action) (inv : ROK s) (side : RejStep qn s a)
    (hpn : PlainNames a) (h : applyFmt qn s a = .ok s') : rej s'.tree = rej s.tree ∧ ROK s' := by
  have hID : INSERT_NAME ≠ DELETE_NAME := by decide
  have hRD : RENAME_NAME ≠ DELETE_NAME := by decide
  have hIR : INSERT_NAME ≠ RENAME_NAME := by decide
  cases a <;> simp only [applyFmt, bind, Except.bind, pure, Except.pure] at h
  case deleteNode n =>
    split at h
    · cases h
    · next m hm =>
      simp only [Except.ok.injEq] at h; subst h
      have hf := xresolve_find qn s.tree inv.nodup n m hm
      exact rej_modify' s inv m.id markDel m (fun p => by simp [markDel, AttrCount.attrHas_attrSet, hID]) hf
        (Or.inr (rejP_attrs_only markDel _ ⟨rfl, rfl, rfl, rfl⟩ (by simp [markDel, attrGet_attrSet, hRD])))
  case insertNode tgt tag pos =>
    split at h
    · cases h
    · next m hm =>
      simp only [Except.ok.injEq] at h; subst h
      have hfresh : s.next ∉ ids s.tree := fun hx => Nat.lt_irrefl _ (inv.fresh _ hx)
      refine ⟨rej_insert _ _ _ (by simp [isIns, Tree.payload, attrHas, attrGet]) s.tree, ?_, ?_, ?_, inv.base, inv.norep⟩
      · apply nodup_insertChild _ _ _ _ inv.nodup (by simp [ids, idsL])
        intro y hy
        simp only [ids, idsL, List.mem_cons, List.mem_nil_iff, or_false] at hy
        subst hy; exact hfresh
      · intro i hi
        rcases mem_ids_insertChild _ _ _ _ i hi with hi | hi
        · exact Nat.lt_succ_of_lt (inv.fresh i hi)
        · simp only [ids, idsL, List.mem_cons, List.mem_nil_iff, or_false] at hi
          subst hi; exact Nat.lt_succ_self _
      · simp only
        rw [isIns_insertChild]; exact inv.root
  case renameNode n tag =>
    split at h
    · cases h
    · next m hm =>
      simp only [Except.ok.injEq] at h; subst h
      have hf := xresolve_find qn s.tree inv.nodup n m hm
      refine rej_modify' s inv m.id (fRen tag) m (fun p => by simp [fRen, AttrCount.attrHas_attrSet, hIR]) hf ?_
      rcases side m hm with hi | hr
      · exact Or.inl hi
      · right
        simp only [rejP, fRen, attrGet_attrSet, if_true, hr, Option.getD_some, Option.getD_none]
  case moveNode n tgt pos =>
    split at h
    · cases h
    · next m hm =>
      split at h
      · cases h
      · next target htarget =>
        simp only [Except.ok.injEq] at h; subst h
        have hf := xresolve_find qn s.tree inv.nodup n m hm
        obtain ⟨r1, inv1⟩ := rej_modify' s inv m.id markDel m
          (fun p => by simp [markDel, AttrCount.attrHas_attrSet, hID]) hf
          (Or.inr (rejP_attrs_only markDel _ ⟨rfl, rfl, rfl, rfl⟩ (by simp [markDel, attrGet_attrSet, hRD])))
        have hcopy : isIns (setAttrsT (fun as => attrSet as INSERT_NAME []) (applyFmt.renum s.next m)) = true := by
          cases m with
          | node j p ks =>
            simp only [applyFmt.renum, setAttrsT, isIns, Tree.payload]
            exact attrHas_attrSet_self _ _ _
        have hids : ids (setAttrsT (fun as => attrSet as INSERT_NAME []) (applyFmt.renum s.next m)) =
            List.range' s.next (size m) := by rw [ids_setAttrsT, ids_renum]
        simp only [applyFmt.renumber]
        refine ⟨?_, ?_, ?_, ?_, inv.base, inv.norep⟩
        · rw [rej_insert _ _ _ hcopy]
          exact r1
        · apply nodup_insertChild _ _ _ _ inv1.nodup
          · rw [hids]; exact List.nodup_range'
          · intro y hy hy2
            rw [hids, List.mem_range'_1] at hy
            have := inv1.fresh y hy2
            simp only [modifyNode] at this
            omega
        · intro i hi
          show i < s.next + size m
          rcases mem_ids_insertChild _ _ _ _ i hi with hi | hi
          · have := inv1.fresh i hi
            simp only [modifyNode] at this
            omega
          · rw [hids, List.mem_range'_1] at hi
            omega
        · simp only
          rw [isIns_insertChild]
          exact inv1.root
  case updateTextIn n t =>
    split at h
    · cases h
    · next m hm =>
      have hf := xresolve_find qn s.tree inv.nodup n m hm
      split at h
      · next hins =>
        simp only [Except.ok.injEq] at h; subst h
        exact rej_modify' s inv m.id (fun p => { p with text := t }) m (fun p => rfl) hf (Or.inl hins)
      · next hins =>
        have hins' : isIns m = false := by simpa [isIns] using hins
        obtain ⟨d, more, hsg, ⟨hn, ho, hl⟩, hrt⟩ := side m hm hins'
        obtain ⟨hmk, _, _⟩ := makeDiffTags_eq false s inv.base inv.norep d more hsg hn ho hl
        rw [hmk] at h
        simp only [Except.ok.injEq] at h; subst h
        refine rej_modify' { s with segs := more } (rok_segs s more inv) m.id
          (fun p => { p with text := if (emitted (nonEmpty d)).isEmpty then none else some (emitted (nonEmpty d)) }) m
          (fun p => rfl) hf (Or.inr ?_)
        simp only [rejP]
        rw [rejS_emitted d hn hl, hrt, rejS_nt]
  case updateTextAfter n t =>
    split at h
    · cases h
    · next m hm =>
      have hf := xresolve_find qn s.tree inv.nodup n m hm
      obtain ⟨d, more, hsg, ⟨hn, ho, hl⟩, hrt⟩ := side m hm
      obtain ⟨hmk, _, _⟩ := makeDiffTags_eq true s inv.base inv.norep d more hsg hn ho hl
      rw [hmk] at h
      simp only [Except.ok.injEq] at h; subst h
      refine rej_modify' { s with segs := more } (rok_segs s more inv) m.id
        (fun p => { p with tail := if (emitted (nonEmpty d)).isEmpty then none else some (emitted (nonEmpty d)) }) m
        (fun p => rfl) hf ?_
      rcases hrt with hi | hrt
      · exact Or.inl hi
      · right
        simp only [rejP]
        rw [rejS_emitted d hn hl, hrt, rejS_nt]
  case updateAttrib n name value =>
    simp only [PlainNames] at hpn
    split at h
    · cases h
    · next m hm =>
      have hf := xresolve_find qn s.tree inv.nodup n m hm
      split at h
      · cases h
      · next oldv _ =>
        simp only [Except.ok.injEq] at h; subst h
        have n1 := ne_of_plain name INSERT_NAME hpn isDiffKey_insert
        have n2 := ne_of_plain name RENAME_NAME hpn isDiffKey_rename
        exact rej_modify' s inv m.id (fUpd name value oldv) m
          (fun p => by
            simp only [fUpd]
            rw [has_extend _ _ _ _ (by decide)]
            simp [AttrCount.attrHas_attrSet, n1]) hf
          (Or.inr (rejP_attrs_only (fUpd name value oldv) _ ⟨rfl, rfl, rfl, rfl⟩ (by
            simp only [fUpd]
            rw [get_extend _ _ _ _ (by decide)]
            simp [attrGet_attrSet, n2])))
  case deleteAttrib n name =>
    simp only [PlainNames] at hpn
    split at h
    · cases h
    · next m hm =>
      have hf := xresolve_find qn s.tree inv.nodup n m hm
      split at h
      · cases h
      · simp only [Except.ok.injEq] at h; subst h
        have n1 := ne_of_plain name INSERT_NAME hpn isDiffKey_insert
        have n2 := ne_of_plain name RENAME_NAME hpn isDiffKey_rename
        exact rej_modify' s inv m.id (fDel name) m
          (fun p => by
            simp only [fDel]
            rw [has_extend _ _ _ _ (by decide)]
            simp [AttrCount.attrHas_attrDel, n1]) hf
          (Or.inr (rejP_attrs_only (fDel name) _ ⟨rfl, rfl, rfl, rfl⟩ (by
            simp only [fDel]
            rw [get_extend _ _ _ _ (by decide)]
            simp [attrGet_attrDel, n2])))
  case insertAttrib n name value =>
    simp only [PlainNames] at hpn
    split at h
    · cases h
    · next m hm =>
      have hf := xresolve_find qn s.tree inv.nodup n m hm
      simp only [Except.ok.injEq] at h; subst h
      have n1 := ne_of_plain name INSERT_NAME hpn isDiffKey_insert
      have n2 := ne_of_plain name RENAME_NAME hpn isDiffKey_rename
      exact rej_modify' s inv m.id (fAdd name value) m
        (fun p => by
          simp only [fAdd]
          rw [has_extend _ _ _ _ (by decide)]
          simp [AttrCount.attrHas_attrSet, n1]) hf
        (Or.inr (rejP_attrs_only (fAdd name value) _ ⟨rfl, rfl, rfl, rfl⟩ (by
          simp only [fAdd]
          rw [get_extend _ _ _ _ (by decide)]
          simp [attrGet_attrSet, n2])))
  case renameAttrib n old new =>
    simp only [PlainNames] at hpn
    split at h
    · cases h
    · next m hm =>
      have hf := xresolve_find qn s.tree inv.nodup n m hm
      split at h
      · cases h
      · next v _ =>
        simp only [Except.ok.injEq] at h; subst h
        have a1 := ne_of_plain old INSERT_NAME hpn.1 isDiffKey_insert
        have a2 := ne_of_plain old RENAME_NAME hpn.1 isDiffKey_rename
        have b1 := ne_of_plain new INSERT_NAME hpn.2 isDiffKey_insert
        have b2 := ne_of_plain new RENAME_NAME hpn.2 isDiffKey_rename
        exact rej_modify' s inv m.id (fRenA old new v) m
          (fun p => by
            simp only [fRenA]
            rw [has_extend _ _ _ _ (by decide)]
            simp [AttrCount.attrHas_attrDel, AttrCount.attrHas_attrSet, a1, b1]) hf
          (Or.inr (rejP_attrs_only (fRenA old new v) _ ⟨rfl, rfl, rfl, rfl⟩ (by
            simp only [fRenA]
            rw [get_extend _ _ _ _ (by decide)]
            simp [attrGet_attrDel, attrGet_attrSet, a2, b2])))
  case insertComment => cases h
  case insertNamespace => simp only [Except.ok.injEq] at h; subst h; exact ⟨rfl, inv⟩
  case deleteNamespace => simp only [Except.ok.injEq] at h; subst h; exact ⟨rfl, inv⟩

/-- the assumption along the formatter's run -/
def RejOK (qn : QName) : FState → List Action → Prop
  | _, [] => True
  | s, a :: rest => RejStep qn s a ∧ ∀ s', applyFmt qn s a = .ok s' → RejOK qn s' rest

/-- **Rejecting every change gives the left document back** (tree before `finalize`; structure, tags and texts):
whatever script the handlers accept - moves included - the rejected view of the working tree never changes. -/
theorem run_rej (qn : QName) (script : List Action) (s s' : FState) (inv : ROK s)
    (hpn : ∀ a ∈ script, PlainNames a) (hside : RejOK qn s script) (h : runFmt qn s script = .ok s') :
    rej s'.tree = rej s.tree := by
  induction script generalizing s with
  | nil => simp only [runFmt, Except.ok.injEq] at h; subst h; rfl
  | cons a rest ih =>
    simp only [runFmt] at h
    split at h
    · cases h
    · next s1 h1 =>
      obtain ⟨r1, inv1⟩ := rej_step qn s s1 a inv hside.1 (hpn a (by simp)) h1
      split at h
      · cases h
      · next r hr =>
        simp only [Except.ok.injEq] at h; subst h
        rw [ih s1 inv1 (fun b hb => hpn b (by simp [hb])) (hside.2 s1 h1) hr, r1]

/-! ### the rejected view of a clean document -/

mutual
  /-- the document without its attributes -/
  def bare : Tree → Tree
    | .node i p ks => .node i { p with attrs := [] } (bareL ks)
  def bareL : List Tree → List Tree
    | [] => []
    | t :: ts => bare t :: bareL ts
end

theorem rejS_of_textOK (t : Option Str) (h : TextOK t) : rejS t = t := by
  cases t with
  | none => rfl
  | some x =>
    have hx : x ≠ [] := fun e => h.2 (by rw [e])
    simp only [rejS, Option.map_some, rejChars_low x h.1, nt, strOf, Option.getD_some, hx, if_false]

theorem attrGet_none_of_clean (as : Attrs) (h : ∀ kv ∈ as, isDiffKey kv.1 = false) (k : Str) (hk : isDiffKey k = true) :
    attrGet as k = none := by
  rw [attrGet_none_iff]
  intro hm
  obtain ⟨kv, hkv, he⟩ := List.mem_map.1 hm
  have := h kv hkv
  rw [he, hk] at this
  cases this

mutual
  theorem rej_clean (t : Tree) (h : CleanT t) : rej t = bare t := by
    match t with
    | .node i p ks =>
      simp only [CleanT] at h
      simp only [rej, bare, rejP, attrGet_none_of_clean p.attrs h.1 RENAME_NAME isDiffKey_rename, Option.getD_none,
        rejS_of_textOK p.text h.2.1, rejS_of_textOK p.tail h.2.2.1, rejL_clean ks h.2.2.2]
  theorem rejL_clean (ts : List Tree) (h : CleanL ts) : rejL ts = bareL ts := by
    match ts with
    | [] => rfl
    | t :: rest =>
      simp only [CleanL] at h
      have hi : isIns t = false := by
        cases t with
        | node i p ks =>
          simp only [CleanT] at h
          simp only [isIns, Tree.payload, attrHas, attrGet_none_of_clean p.attrs h.1.1 INSERT_NAME isDiffKey_insert]
          rfl
      simp only [rejL, hi, Bool.false_eq_true, if_false, bareL, rej_clean t h.1, rejL_clean rest h.2]
end

theorem isIns_of_clean (t : Tree) (h : CleanT t) : isIns t = false := by
  cases t with
  | node i p ks =>
    simp only [CleanT] at h
    simp only [isIns, Tree.payload, attrHas, attrGet_none_of_clean p.attrs h.1 INSERT_NAME isDiffKey_insert]
    rfl

end Rej
end XmlDiffModel
