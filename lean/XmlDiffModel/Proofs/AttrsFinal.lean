/-
What `update_node_attr` leaves behind: every attribute that is not ignored has the value it has on the right
node (or is absent if it is absent there); ignored attributes are untouched.
-/
import XmlDiffModel.Proofs.Attrs

namespace XmlDiffModel

theorem attrGet_of_mem (as : Attrs) (hn : (keys as).Nodup) (k v : Str) (h : (k, v) ∈ as) : attrGet as k = some v := by
  induction as with
  | nil => cases h
  | cons kv rest ih =>
    obtain ⟨k', v'⟩ := kv
    simp only [keys, List.map_cons, List.nodup_cons] at hn
    rw [attrGet_cons]
    rcases List.mem_cons.mp h with h | h
    · injection h with h1 h2; subst h1; subst h2; simp
    · have : k ≠ k' := by
        intro e
        exact hn.1 (List.mem_map.mpr ⟨(k, v), h, e⟩)
      rw [if_neg this]
      exact ih hn.2 h

theorem attrGet_none_iff (as : Attrs) (k : Str) : attrGet as k = none ↔ k ∉ keys as := by
  rw [← attrGet_some_iff]
  cases attrGet as k <;> simp

/-- the rename map sends a value to a new key that has this value on the right node -/
theorem newAttrMap_val (newKeys : List Str) (ras : Attrs) (hn : (keys ras).Nodup) :
    ∀ v k, attrGet (newAttrMap ras newKeys) v = some k → attrGet ras k = some v := by
  unfold newAttrMap
  have gen : ∀ (rest : Attrs) (m : Attrs), (∀ kv ∈ rest, kv ∈ ras) →
      (∀ v k, attrGet m v = some k → attrGet ras k = some v) →
      ∀ v k, attrGet (rest.foldl (fun m kv => if newKeys.contains kv.1 then attrSet m kv.2 kv.1 else m) m) v = some k →
        attrGet ras k = some v := by
    intro rest
    induction rest with
    | nil => intro m _ h; exact h
    | cons kv rest ih =>
      obtain ⟨k0, v0⟩ := kv
      intro m hsub h
      simp only [List.foldl_cons]
      apply ih
      · exact fun kv hkv => hsub kv (List.mem_cons_of_mem _ hkv)
      · split
        · intro v k hv
          rw [attrGet_attrSet] at hv
          split at hv
          · next e =>
            injection hv with hv
            rw [← hv, e]
            exact attrGet_of_mem ras hn k0 v0 (hsub _ List.mem_cons_self)
          · exact h v k hv
        · exact h
  exact gen ras [] (fun _ h => h) (by simp [attrGet])

/-! ### the four phases, as lookups -/

theorem attrUpdates_get (path : Path) (ras : Attrs) (ks : List Str) (las : Attrs) (out : List Action) (x : Str) :
    attrGet (attrUpdates path ras ks las out).1 x =
      if x ∈ ks ∧ (attrGet las x).isSome ∧ (attrGet ras x).isSome then attrGet ras x else attrGet las x := by
  induction ks generalizing las out with
  | nil => simp [attrUpdates]
  | cons k ks ih =>
    simp only [attrUpdates]
    cases hl : attrGet las k with
    | none =>
      simp only
      rw [ih]
      by_cases hx : x = k
      · subst hx; simp [hl]
      · simp [hx]
    | some lv =>
      cases hr : attrGet ras k with
      | none =>
        simp only
        rw [ih]
        by_cases hx : x = k
        · subst hx; simp [hr]
        · simp [hx]
      | some rv =>
        simp only
        split
        · rw [ih]
          simp only [attrGet_attrSet]
          by_cases hx : x = k
          · subst hx; simp [hl, hr]
          · simp [hx]
        · next heq =>
          have heq' : lv = rv := by simpa using heq
          rw [ih]
          by_cases hx : x = k
          · subst hx; simp [hl, hr, heq']
          · simp [hx]

theorem attrInserts_get (path : Path) (ras : Attrs) (ks : List Str) (las : Attrs) (out : List Action) (x : Str) :
    attrGet (attrInserts path ras ks las out).1 x =
      if x ∈ ks ∧ (attrGet ras x).isSome then attrGet ras x else attrGet las x := by
  induction ks generalizing las out with
  | nil => simp [attrInserts]
  | cons k ks ih =>
    simp only [attrInserts]
    cases hr : attrGet ras k with
    | none =>
      simp only
      rw [ih]
      by_cases hx : x = k
      · subst hx; simp [hr]
      · simp [hx]
    | some rv =>
      simp only
      rw [ih]
      simp only [attrGet_attrSet]
      by_cases hx : x = k
      · subst hx; simp [hr]
      · simp [hx]

theorem attrDeletes_get (path : Path) (ks : List Str) (las : Attrs) (out : List Action) (x : Str) :
    attrGet (attrDeletes path ks las out).1 x = if x ∈ ks then none else attrGet las x := by
  induction ks generalizing las out with
  | nil => simp [attrDeletes]
  | cons k ks ih =>
    simp only [attrDeletes]
    split
    · rw [ih]
      simp only [attrGet_attrDel]
      by_cases hx : x = k
      · subst hx; simp
      · simp [hx]
    · next hh =>
      rw [ih]
      by_cases hx : x = k
      · subst hx
        have : attrGet las x = none := by
          simp only [attrHas] at hh
          cases h : attrGet las x with
          | none => rfl
          | some v => rw [h] at hh; simp at hh
        simp [this]
      · simp [hx]

theorem attrRenames_get (path : Path) (ras : Attrs) (lks : List Str) (las nmap : Attrs) (newKeys : List Str)
    (out : List Action)
    (hf : ∀ k ∈ newKeys, attrGet las k = none)
    (hv : ∀ v k, attrGet nmap v = some k → k ∈ newKeys ∧ attrGet ras k = some v)
    (hi : ∀ v1 v2 k, attrGet nmap v1 = some k → attrGet nmap v2 = some k → v1 = v2)
    (hd : ∀ k ∈ lks, k ∉ newKeys) :
    (∀ x, x ∉ lks → x ∉ newKeys → attrGet (attrRenames path lks las nmap newKeys out).1 x = attrGet las x) ∧
    (∀ x ∈ newKeys,
      (x ∈ (attrRenames path lks las nmap newKeys out).2.1 ∧ attrGet (attrRenames path lks las nmap newKeys out).1 x = none) ∨
      (x ∉ (attrRenames path lks las nmap newKeys out).2.1 ∧
        attrGet (attrRenames path lks las nmap newKeys out).1 x = attrGet ras x)) ∧
    (∀ x ∈ (attrRenames path lks las nmap newKeys out).2.1, x ∈ newKeys) := by
  induction lks generalizing las nmap newKeys out with
  | nil =>
    simp only [attrRenames]
    exact ⟨fun _ _ _ => trivial, fun x hx => Or.inl ⟨hx, hf x hx⟩, fun _ h => h⟩
  | cons lk lks ih =>
    have hd' : ∀ k ∈ lks, k ∉ newKeys := fun k hk => hd k (List.mem_cons_of_mem _ hk)
    simp only [attrRenames]
    cases hl : attrGet las lk with
    | none =>
      simp only
      obtain ⟨c1, c2, c3⟩ := ih las nmap newKeys out hf hv hi hd'
      exact ⟨fun x hx hn => c1 x (fun h => hx (List.mem_cons_of_mem _ h)) hn, c2, c3⟩
    | some value =>
      simp only
      cases hm : attrGet nmap value with
      | none =>
        simp only
        obtain ⟨c1, c2, c3⟩ := ih las nmap newKeys out hf hv hi hd'
        exact ⟨fun x hx hn => c1 x (fun h => hx (List.mem_cons_of_mem _ h)) hn, c2, c3⟩
      | some rk =>
        simp only
        obtain ⟨hrkN, hrkR⟩ := hv value rk hm
        have hlkN : lk ∉ newKeys := hd lk List.mem_cons_self
        have hne : rk ≠ lk := fun e => hlkN (e ▸ hrkN)
        have hrkL : rk ∉ lks := fun h => hd' rk h hrkN
        have memf : ∀ k, k ∈ newKeys.filter (· ≠ rk) ↔ k ∈ newKeys ∧ k ≠ rk := by
          intro k; simp [List.mem_filter]
        obtain ⟨c1, c2, c3⟩ := ih (attrDel (attrSet las rk value) lk) (attrDel nmap value) (newKeys.filter (· ≠ rk))
          (.renameAttrib path lk rk :: out)
          (by
            intro k hk
            obtain ⟨hk1, hk2⟩ := (memf k).mp hk
            rw [attrGet_attrDel]
            split
            · rfl
            · rw [attrGet_attrSet, if_neg hk2]; exact hf k hk1)
          (by
            intro v k hvk
            rw [attrGet_attrDel] at hvk
            split at hvk
            · cases hvk
            · next hvv =>
              obtain ⟨a, b⟩ := hv v k hvk
              refine ⟨(memf k).mpr ⟨a, ?_⟩, b⟩
              intro e
              subst e
              exact hvv (hi v value k hvk hm))
          (by
            intro v1 v2 k h1 h2
            rw [attrGet_attrDel] at h1 h2
            split at h1
            · cases h1
            · split at h2
              · cases h2
              · exact hi v1 v2 k h1 h2)
          (fun k hk hkn => hd' k hk ((memf k).mp hkn).1)
        refine ⟨?_, ?_, ?_⟩
        · intro x hx hn
          have hx1 : x ≠ lk := fun e => hx (e ▸ List.mem_cons_self)
          have hx2 : x ∉ lks := fun h => hx (List.mem_cons_of_mem _ h)
          have hx3 : x ≠ rk := fun e => hn (e ▸ hrkN)
          rw [c1 x hx2 (fun h => hn ((memf x).mp h).1), attrGet_attrDel, attrGet_attrSet, if_neg hx1, if_neg hx3]
        · intro x hx
          by_cases hxr : x = rk
          · subst hxr
            right
            refine ⟨fun h => ((memf x).mp (c3 x h)).2 rfl, ?_⟩
            rw [c1 x hrkL (fun h => ((memf x).mp h).2 rfl), attrGet_attrDel, attrGet_attrSet, if_neg hne]
            simp [hrkR]
          · exact c2 x ((memf x).mpr ⟨hx, hxr⟩)
        · intro x hx
          exact ((memf x).mp (c3 x hx)).1

/-- `update_node_attr`: afterwards every attribute that is not ignored has the value it has on the right node (none if it
is absent there), and ignored attributes are as before. -/
theorem updateAttrs_get (ign : List Str) (path : Path) (las ras : Attrs) (out : List Action)
    (hr : (keys ras).Nodup) (x : Str) :
    attrGet (updateAttrs ign path las ras out).1 x = if x ∈ ign then attrGet las x else attrGet ras x := by
  unfold updateAttrs
  dsimp only
  generalize hlk : (nodeAttribs ign las).map (·.1) = lkeys
  generalize hrk : (nodeAttribs ign ras).map (·.1) = rkeys
  have hlmem : ∀ k, k ∈ lkeys ↔ k ∈ keys las ∧ k ∉ ign := fun k => by
    rw [← hlk]; exact mem_nodeAttribs_keys ign las k
  have hrmem : ∀ k, k ∈ rkeys ↔ k ∈ keys ras ∧ k ∉ ign := fun k => by
    rw [← hrk]; exact mem_nodeAttribs_keys ign ras k
  have hcommon : ∀ k, k ∈ sortStrs (lkeys.filter fun k => rkeys.contains k) ↔ k ∈ lkeys ∧ k ∈ rkeys := by
    intro k; rw [mem_sortStrs]; simp [List.mem_filter]
  have hremoved : ∀ k, k ∈ sortStrs (lkeys.filter fun k => !rkeys.contains k) ↔ k ∈ lkeys ∧ k ∉ rkeys := by
    intro k; rw [mem_sortStrs]; simp [List.mem_filter]
  have hnewk : ∀ k, k ∈ rkeys.filter (fun k => !lkeys.contains k) ↔ k ∈ rkeys ∧ k ∉ lkeys := by
    intro k; simp [List.mem_filter]
  -- phase 1
  have g1 := attrUpdates_get path ras (sortStrs (lkeys.filter fun k => rkeys.contains k)) las out
  generalize attrUpdates path ras (sortStrs (lkeys.filter fun k => rkeys.contains k)) las out = r1 at g1 ⊢
  obtain ⟨las1, out1⟩ := r1
  simp only at g1 ⊢
  -- phase 2
  have hmap := newAttrMap_inv (rkeys.filter fun k => !lkeys.contains k) ras hr
  have hval := newAttrMap_val (rkeys.filter fun k => !lkeys.contains k) ras hr
  have g2 := attrRenames_get path ras (sortStrs (lkeys.filter fun k => !rkeys.contains k)) las1
    (newAttrMap ras (rkeys.filter fun k => !lkeys.contains k)) (rkeys.filter fun k => !lkeys.contains k) out1
    (by
      intro k hk
      obtain ⟨h1, h2⟩ := (hnewk k).mp hk
      rw [g1 k, if_neg (fun h => h2 ((hcommon k).mp h.1).1)]
      rw [attrGet_none_iff]
      exact fun hm => h2 ((hlmem k).mpr ⟨hm, ((hrmem k).mp h1).2⟩))
    (fun v k h => ⟨hmap.1 v k h, hval v k h⟩) hmap.2
    (fun k hk hn => ((hnewk k).mp hn).2 ((hremoved k).mp hk).1)
  generalize attrRenames path (sortStrs (lkeys.filter fun k => !rkeys.contains k)) las1
    (newAttrMap ras (rkeys.filter fun k => !lkeys.contains k)) (rkeys.filter fun k => !lkeys.contains k) out1 = r2 at g2 ⊢
  obtain ⟨las2, newKeys2, out2⟩ := r2
  simp only at g2 ⊢
  obtain ⟨c1, c2, c3⟩ := g2
  -- phase 3
  have g3 := attrInserts_get path ras (sortStrs newKeys2) las2 out2
  generalize attrInserts path ras (sortStrs newKeys2) las2 out2 = r3 at g3 ⊢
  obtain ⟨las3, out3⟩ := r3
  simp only at g3 ⊢
  -- phase 4
  rw [attrDeletes_get, g3]
  by_cases hxi : x ∈ ign
  · -- ignored: untouched by every phase
    have hxl : x ∉ lkeys := fun h => ((hlmem x).mp h).2 hxi
    have hxr : x ∉ rkeys := fun h => ((hrmem x).mp h).2 hxi
    rw [if_pos hxi, if_neg (fun h => hxl ((hremoved x).mp h).1)]
    rw [if_neg (fun h => hxr ((hnewk x).mp (c3 x ((mem_sortStrs _ _).mp h.1))).1)]
    rw [c1 x (fun h => hxl ((hremoved x).mp h).1) (fun h => hxr ((hnewk x).mp h).1), g1 x,
      if_neg (fun h => hxl ((hcommon x).mp h.1).1)]
  · rw [if_neg hxi]
    by_cases hl : x ∈ keys las
    · have hxl : x ∈ lkeys := (hlmem x).mpr ⟨hl, hxi⟩
      by_cases hrr : x ∈ keys ras
      · -- common
        have hxr : x ∈ rkeys := (hrmem x).mpr ⟨hrr, hxi⟩
        rw [if_neg (fun h => ((hremoved x).mp h).2 hxr)]
        rw [if_neg (fun h => ((hnewk x).mp (c3 x ((mem_sortStrs _ _).mp h.1))).2 hxl)]
        rw [c1 x (fun h => ((hremoved x).mp h).2 hxr) (fun h => ((hnewk x).mp h).2 hxl), g1 x]
        have s1 : (attrGet las x).isSome = true := by
          obtain ⟨v, hv⟩ := (attrGet_some_iff las x).mpr hl; simp [hv]
        have s2 : (attrGet ras x).isSome = true := by
          obtain ⟨v, hv⟩ := (attrGet_some_iff ras x).mpr hrr; simp [hv]
        rw [if_pos ⟨(hcommon x).mpr ⟨hxl, hxr⟩, s1, s2⟩]
      · -- removed
        have hxr : x ∉ rkeys := fun h => hrr ((hrmem x).mp h).1
        rw [if_pos ((hremoved x).mpr ⟨hxl, hxr⟩)]
        exact ((attrGet_none_iff ras x).mpr hrr).symm
    · have hxl : x ∉ lkeys := fun h => hl ((hlmem x).mp h).1
      rw [if_neg (fun h => hxl ((hremoved x).mp h).1)]
      by_cases hrr : x ∈ keys ras
      · -- new
        have hxr : x ∈ rkeys := (hrmem x).mpr ⟨hrr, hxi⟩
        have s2 : (attrGet ras x).isSome = true := by
          obtain ⟨v, hv⟩ := (attrGet_some_iff ras x).mpr hrr; simp [hv]
        rcases c2 x ((hnewk x).mpr ⟨hxr, hxl⟩) with ⟨h1, _⟩ | ⟨h1, h2⟩
        · rw [if_pos ⟨(mem_sortStrs _ _).mpr h1, s2⟩]
        · rw [if_neg (fun h => h1 ((mem_sortStrs _ _).mp h.1)), h2]
      · have hxr : x ∉ rkeys := fun h => hrr ((hrmem x).mp h).1
        rw [if_neg (fun h => hxr ((hnewk x).mp (c3 x ((mem_sortStrs _ _).mp h.1))).1)]
        rw [c1 x (fun h => hxl ((hremoved x).mp h).1) (fun h => hxr ((hnewk x).mp h).1), g1 x,
          if_neg (fun h => hxl ((hcommon x).mp h.1).1)]
        rw [(attrGet_none_iff las x).mpr hl, (attrGet_none_iff ras x).mpr hrr]

end XmlDiffModel
