/-
C09, tree level, part 3: one handler of the XML formatter against the patcher, through the accepted view.

`cln tx` removes the `diff:` attributes and maps texts with `tx`.  For every action other than a move and a text
update, on a working tree with distinct ids whose counter agrees with the patcher's: if the patcher accepts the
action on the accepted view (paths stepwise unique), the formatter's handler succeeds and the accepted view of its
result is the patcher's result.
-/
import XmlDiffModel.Proofs.Acc2
import XmlDiffModel.Proofs.AttrCount
import XmlDiffModel.Proofs.Strict
import XmlDiffModel.Model.Project

namespace XmlDiffModel
namespace Acc
open Tree

/-! ### cleaning attributes -/


theorem isDiffKey_dname (n : String) : isDiffKey (dname n) = true := by
  unfold isDiffKey dname diffPrefix
  rw [List.isPrefixOf_iff_prefix]
  exact List.prefix_append _ _

theorem attrGet_strip (as : Attrs) (k : Str) (hk : isDiffKey k = false) : attrGet (stripDiff as) k = attrGet as k := by
  induction as with
  | nil => rfl
  | cons kv rest ih =>
    obtain ⟨k', v'⟩ := kv
    simp only [stripDiff, List.filter_cons]
    by_cases hd : isDiffKey k' = true
    · have hne : k' ≠ k := fun e => by rw [e, hk] at hd; cases hd
      simp only [hd, Bool.not_true, Bool.false_eq_true, if_false, attrGet, hne]
      exact ih
    · have hd' : isDiffKey k' = false := by simpa using hd
      simp only [hd', Bool.not_false, if_true, attrGet]
      split
      · rfl
      · exact ih

theorem attrHas_strip (as : Attrs) (k : Str) (hk : isDiffKey k = false) : attrHas (stripDiff as) k = attrHas as k := by
  unfold attrHas; rw [attrGet_strip as k hk]

theorem strip_attrSet (as : Attrs) (k v : Str) (hk : isDiffKey k = false) :
    stripDiff (attrSet as k v) = attrSet (stripDiff as) k v := by
  induction as with
  | nil => simp [attrSet, stripDiff, hk]
  | cons kv rest ih =>
    obtain ⟨k', v'⟩ := kv
    simp only [attrSet]
    split
    · next h =>
      subst h
      simp [stripDiff, hk, attrSet]
    · next h =>
      simp only [stripDiff, List.filter_cons] at ih ⊢
      by_cases hd : isDiffKey k' = true
      · simp only [hd, Bool.not_true, Bool.false_eq_true, if_false]
        exact ih
      · have hd' : isDiffKey k' = false := by simpa using hd
        simp only [hd', Bool.not_false, if_true, attrSet, h, if_false]
        rw [ih]

theorem strip_attrSet_diff (as : Attrs) (k v : Str) (hk : isDiffKey k = true) :
    stripDiff (attrSet as k v) = stripDiff as := by
  induction as with
  | nil => simp [attrSet, stripDiff, hk]
  | cons kv rest ih =>
    obtain ⟨k', v'⟩ := kv
    simp only [attrSet]
    split
    · next h =>
      subst h
      simp [stripDiff, hk]
    · next h =>
      simp only [stripDiff, List.filter_cons] at ih ⊢
      rw [ih]

theorem strip_attrDel (as : Attrs) (k : Str) : stripDiff (attrDel as k) = attrDel (stripDiff as) k := by
  simp only [stripDiff, attrDel, List.filter_filter]
  congr 1
  funext kv
  exact Bool.and_comm _ _

theorem strip_extend (as : Attrs) (action : String) (value : Str) :
    stripDiff (extendDiffAttr as action value) = stripDiff as := by
  unfold extendDiffAttr
  have hd := isDiffKey_dname (action ++ "-attr")
  simp only
  split
  · split <;> exact strip_attrSet_diff _ _ _ hd
  · exact strip_attrSet_diff _ _ _ hd

theorem isDiffKey_delete : isDiffKey DELETE_NAME = true := isDiffKey_dname "delete"

theorem ne_delete_of_plain (k : Str) (hk : isDiffKey k = false) : DELETE_NAME ≠ k := by
  intro e
  rw [← e, isDiffKey_delete] at hk
  cases hk

theorem has_delete_extend (as : Attrs) (action : String) (value : Str)
    (hne : DELETE_NAME ≠ dname (action ++ "-attr")) :
    attrHas (extendDiffAttr as action value) DELETE_NAME = attrHas as DELETE_NAME := by
  unfold extendDiffAttr
  simp only
  split
  · split <;> simp [AttrCount.attrHas_attrSet, hne]
  · simp [AttrCount.attrHas_attrSet, hne]

/-- the cleaning of a payload: `diff:` attributes removed, texts mapped -/
def cln (tx : Option Str → Option Str) (p : Payload) : Payload :=
  { p with attrs := stripDiff p.attrs, text := tx p.text, tail := tx p.tail }

theorem cln_keeps (tx : Option Str → Option Str) : KeepsName (cln tx) := fun _ => ⟨rfl, rfl⟩

/-! ### the invariant of the working tree -/

structure TOK (s : FState) : Prop where
  nodup : (ids s.tree).Nodup
  fresh : ∀ i ∈ ids s.tree, i < s.next
  root : isGhost s.tree = false

theorem tok_modify (s : FState) (h : TOK s) (i : Nat) (f : Payload → Payload)
    (hg : ∀ p, attrHas (f p).attrs DELETE_NAME = attrHas p.attrs DELETE_NAME) : TOK (modifyNode s i f) := by
  refine ⟨?_, ?_, ?_⟩
  · simp only [modifyNode, ids_modify]; exact h.nodup
  · intro j hj
    simp only [modifyNode, ids_modify] at hj
    exact h.fresh j hj
  · simp only [modifyNode]
    rw [isGhost_modify i f s.tree hg]
    exact h.root

/-- the addressed node, on both sides -/
theorem hit_both (qn : QName) (tx : Option Str → Option Str) (s : FState) (h : TOK s) (path : Path) (n x : Tree)
    (hsu : SU qn path [acc (cln tx) s.tree] x) (hhit : uniqueHit qn (acc (cln tx) s.tree) path = .ok n) :
    ∃ m, xresolve qn s.tree path = .ok m ∧ acc (cln tx) m = n ∧ isGhost m = false ∧ find m.id s.tree = some m := by
  obtain ⟨m, h1, h2, h3, h4⟩ := xresolve_of_acc qn (cln tx) (cln_keeps tx) s.tree h.nodup h.root path x hsu
  have hr := resolveL_of_su qn path _ x hsu
  unfold uniqueHit at hhit
  split at hhit
  · cases hhit
  · unfold resolve at hhit
    rw [hr] at hhit
    simp only [Except.ok.injEq] at hhit
    subst hhit
    exact ⟨m, h1, h2, h3, h4⟩

/-! ### one action -/

/-- every node path of the action is stepwise unique on the tree -/
def SUAct (qn : QName) (T : Tree) : Action → Prop
  | .deleteNode n => ∃ x, SU qn n [T] x
  | .insertNode t _ _ => ∃ x, SU qn t [T] x
  | .insertComment t _ _ => ∃ x, SU qn t [T] x
  | .renameNode n _ => ∃ x, SU qn n [T] x
  | .moveNode n t _ => (∃ x, SU qn n [T] x) ∧ ∃ y, SU qn t [T] y
  | .updateTextIn n _ => ∃ x, SU qn n [T] x
  | .updateTextAfter n _ => ∃ x, SU qn n [T] x
  | .updateAttrib n _ _ => ∃ x, SU qn n [T] x
  | .deleteAttrib n _ => ∃ x, SU qn n [T] x
  | .insertAttrib n _ _ => ∃ x, SU qn n [T] x
  | .renameAttrib n _ _ => ∃ x, SU qn n [T] x
  | .insertNamespace _ _ => True
  | .deleteNamespace _ => True

/-- attribute names of the action are not in the `diff:` namespace -/
def PlainNames : Action → Prop
  | .updateAttrib _ k _ => isDiffKey k = false
  | .deleteAttrib _ k => isDiffKey k = false
  | .insertAttrib _ k _ => isDiffKey k = false
  | .renameAttrib _ a b => isDiffKey a = false ∧ isDiffKey b = false
  | _ => True

/-- the actions of this part: everything but moves, text updates and comments -/
def Structural : Action → Prop
  | .moveNode _ _ _ => False
  | .updateTextIn _ _ => False
  | .updateTextAfter _ _ => False
  | .insertComment _ _ _ => False
  | _ => True

def fRen (tag : Str) : Payload → Payload := fun p => { p with attrs := attrSet p.attrs RENAME_NAME p.tag, tag := tag }
def fUpd (name value oldv : Str) : Payload → Payload :=
  fun p => { p with attrs := extendDiffAttr (attrSet p.attrs name value) "update" (name ++ [':'] ++ oldv) }
def fDel (name : Str) : Payload → Payload :=
  fun p => { p with attrs := extendDiffAttr (attrDel p.attrs name) "delete" name }
def fAdd (name value : Str) : Payload → Payload :=
  fun p => { p with attrs := extendDiffAttr (attrSet p.attrs name value) "add" name }
def fRenA (old new v : Str) : Payload → Payload :=
  fun p => { p with attrs := extendDiffAttr (attrDel (attrSet p.attrs new v) old) "rename" (old ++ [':'] ++ new) }

theorem isDiffKey_rename : isDiffKey RENAME_NAME = true := isDiffKey_dname "rename"

theorem step_sim (qn : QName) (tx : Option Str → Option Str) (htx : tx none = none) (s : FState) (h : TOK s)
    (a : Action) (hst : Structural a) (hsu : SUAct qn (acc (cln tx) s.tree) a) (hpn : PlainNames a) (p' : PState)
    (hp : applyUniq qn ⟨acc (cln tx) s.tree, s.next⟩ a = .ok p') :
    ∃ s', applyFmt qn s a = .ok s' ∧ acc (cln tx) s'.tree = p'.tree ∧ s'.next = p'.next ∧ TOK s' ∧
      s'.ph = s.ph ∧ s'.segs = s.segs ∧ s'.useReplace = s.useReplace := by
  cases a <;> simp only [Structural] at hst
  case deleteNode n =>
    obtain ⟨x, hx⟩ := hsu
    simp only [applyUniq, applyWith, bind, Except.bind] at hp
    cases hh : uniqueHit qn (acc (cln tx) s.tree) n with
    | error e => rw [hh] at hp; cases hp
    | ok nd =>
      rw [hh] at hp
      simp only at hp
      obtain ⟨m, h1, h2, h3, h4⟩ := hit_both qn tx s h n nd x hx hh
      have hid : nd.id = m.id := by rw [← h2, acc_id]
      split at hp
      · cases hp
      · next hroot =>
        simp only [Except.ok.injEq] at hp
        subst hp
        have hr : s.tree.id ≠ m.id := by
          intro e
          apply hroot
          simp only [isRoot, acc_id, hid, e, beq_self_eq_true]
        refine ⟨modifyNode s m.id markDel, ?_, ?_, rfl, ?_, rfl, rfl, rfl⟩
        · simp only [applyFmt, bind, Except.bind, pure, Except.pure, h1]
          rfl
        · simp only [modifyNode]
          rw [acc_markDel (cln tx) m.id s.tree h.nodup hr, hid]
        · refine ⟨?_, ?_, ?_⟩
          · simp only [modifyNode, ids_modify]; exact h.nodup
          · intro j hj
            simp only [modifyNode, ids_modify] at hj
            exact h.fresh j hj
          · simp only [modifyNode]
            rw [isGhost_markDel_other m.id s.tree hr]
            exact h.root
  case insertNode tgt tag pos =>
    obtain ⟨x, hx⟩ := hsu
    simp only [applyUniq, applyWith, bind, Except.bind] at hp
    cases hh : uniqueHit qn (acc (cln tx) s.tree) tgt with
    | error e => rw [hh] at hp; cases hp
    | ok tg =>
      rw [hh] at hp
      simp only [Except.ok.injEq] at hp
      subst hp
      obtain ⟨m, h1, h2, h3, h4⟩ := hit_both qn tx s h tgt tg x hx hh
      have hid : tg.id = m.id := by rw [← h2, acc_id]
      let new : Tree := .node s.next { kind := .elem, tag := tag, attrs := [(INSERT_NAME, [])], text := none, tail := none } []
      have hnew : isGhost new = false := by
        simp only [isGhost, new, Tree.payload, attrHas, attrGet]
        have : INSERT_NAME ≠ DELETE_NAME := by decide
        simp [this]
      have hfresh : s.next ∉ ids s.tree := fun hm => Nat.lt_irrefl _ (h.fresh _ hm)
      refine ⟨{ s with tree := Tree.insertChild m.id (realPos m.kids pos) new s.tree, next := s.next + 1 },
        ?_, ?_, rfl, ?_, rfl, rfl, rfl⟩
      · simp only [applyFmt, bind, Except.bind, pure, Except.pure, h1]
        rfl
      · simp only
        rw [acc_insert (cln tx) m.id pos new m hnew s.tree h.nodup h4, hid]
        congr 1
        simp only [acc, new, accL, cln, elemPayload, htx]
        have : stripDiff [(INSERT_NAME, ([] : Str))] = [] := by
          simp [stripDiff, INSERT_NAME, isDiffKey_dname]
        rw [this]
      · refine ⟨?_, ?_, ?_⟩
        · apply nodup_insertChild _ _ _ _ h.nodup (by simp [ids, idsL, new])
          intro y hy
          simp only [new, ids, idsL, List.mem_cons, List.mem_nil_iff, or_false, List.append_nil] at hy
          subst hy; exact hfresh
        · intro i hi
          rcases mem_ids_insertChild _ _ _ _ i hi with hi | hi
          · exact Nat.lt_succ_of_lt (h.fresh i hi)
          · simp only [new, ids, idsL, List.mem_cons, List.mem_nil_iff, or_false, List.append_nil] at hi
            subst hi; exact Nat.lt_succ_self _
        · simp only
          rw [isGhost_insertChild]
          exact h.root
  case renameNode n tag =>
    obtain ⟨x, hx⟩ := hsu
    simp only [applyUniq, applyWith, bind, Except.bind] at hp
    cases hh : uniqueHit qn (acc (cln tx) s.tree) n with
    | error e => rw [hh] at hp; cases hp
    | ok nd =>
      rw [hh] at hp
      simp only [Except.ok.injEq] at hp
      subst hp
      obtain ⟨m, h1, h2, h3, h4⟩ := hit_both qn tx s h n nd x hx hh
      have hid : nd.id = m.id := by rw [← h2, acc_id]
      have hg : ∀ p : Payload, attrHas (fRen tag p).attrs DELETE_NAME = attrHas p.attrs DELETE_NAME := by
        intro p
        have : DELETE_NAME ≠ RENAME_NAME := by decide
        simp [fRen, AttrCount.attrHas_attrSet, this]
      refine ⟨modifyNode s m.id (fRen tag), ?_, ?_, rfl, tok_modify s h _ _ hg, rfl, rfl, rfl⟩
      · simp only [applyFmt, bind, Except.bind, pure, Except.pure, h1]
        rfl
      · simp only [modifyNode]
        rw [acc_modify (cln tx) (fRen tag) (fun p => { p with tag := tag }) m.id hg (fun p => by
          simp only [cln, fRen]
          rw [strip_attrSet_diff _ _ _ isDiffKey_rename]) s.tree, hid]
  case updateAttrib n name value =>
    obtain ⟨x, hx⟩ := hsu
    simp only [PlainNames] at hpn
    simp only [applyUniq, applyWith, bind, Except.bind] at hp
    cases hh : uniqueHit qn (acc (cln tx) s.tree) n with
    | error e => rw [hh] at hp; cases hp
    | ok nd =>
      rw [hh] at hp
      simp only at hp
      obtain ⟨m, h1, h2, h3, h4⟩ := hit_both qn tx s h n nd x hx hh
      have hid : nd.id = m.id := by rw [← h2, acc_id]
      have hat : nd.payload.attrs = stripDiff m.payload.attrs := by rw [← h2, acc_payload]; rfl
      split at hp
      · cases hp
      · next hhas =>
        simp only [Except.ok.injEq] at hp
        subst hp
        rw [hat, attrHas_strip _ _ hpn] at hhas
        have hhas' : attrHas m.payload.attrs name = true := by simpa using hhas
        obtain ⟨oldv, hold⟩ : ∃ v, attrGet m.payload.attrs name = some v := by
          unfold attrHas at hhas'
          exact Option.isSome_iff_exists.1 hhas'
        have hg : ∀ p : Payload, attrHas (fUpd name value oldv p).attrs DELETE_NAME = attrHas p.attrs DELETE_NAME := by
          intro p
          simp only [fUpd]
          rw [has_delete_extend _ _ _ (by decide)]
          simp [AttrCount.attrHas_attrSet, ne_delete_of_plain name hpn]
        refine ⟨modifyNode s m.id (fUpd name value oldv), ?_, ?_, rfl, tok_modify s h _ _ hg, rfl, rfl, rfl⟩
        · simp only [applyFmt, bind, Except.bind, pure, Except.pure, h1, hold]
          rfl
        · simp only [modifyNode]
          rw [acc_modify (cln tx) (fUpd name value oldv) (fun p => { p with attrs := attrSet p.attrs name value })
            m.id hg (fun p => by
              simp only [cln, fUpd]
              rw [strip_extend, strip_attrSet _ _ _ hpn]) s.tree, hid]
  case deleteAttrib n name =>
    obtain ⟨x, hx⟩ := hsu
    simp only [PlainNames] at hpn
    simp only [applyUniq, applyWith, bind, Except.bind] at hp
    cases hh : uniqueHit qn (acc (cln tx) s.tree) n with
    | error e => rw [hh] at hp; cases hp
    | ok nd =>
      rw [hh] at hp
      simp only at hp
      obtain ⟨m, h1, h2, h3, h4⟩ := hit_both qn tx s h n nd x hx hh
      have hid : nd.id = m.id := by rw [← h2, acc_id]
      have hat : nd.payload.attrs = stripDiff m.payload.attrs := by rw [← h2, acc_payload]; rfl
      split at hp
      · cases hp
      · next hhas =>
        simp only [Except.ok.injEq] at hp
        subst hp
        rw [hat, attrHas_strip _ _ hpn] at hhas
        have hhas' : attrHas m.payload.attrs name = true := by simpa using hhas
        have hg : ∀ p : Payload, attrHas (fDel name p).attrs DELETE_NAME = attrHas p.attrs DELETE_NAME := by
          intro p
          simp only [fDel]
          rw [has_delete_extend _ _ _ (by decide)]
          simp [AttrCount.attrHas_attrDel, ne_delete_of_plain name hpn]
        refine ⟨modifyNode s m.id (fDel name), ?_, ?_, rfl, tok_modify s h _ _ hg, rfl, rfl, rfl⟩
        · simp only [applyFmt, bind, Except.bind, pure, Except.pure, h1, hhas', Bool.not_true,
            Bool.false_eq_true, if_false]
          rfl
        · simp only [modifyNode]
          rw [acc_modify (cln tx) (fDel name) (fun p => { p with attrs := attrDel p.attrs name }) m.id hg (fun p => by
            simp only [cln, fDel]
            rw [strip_extend, strip_attrDel]) s.tree, hid]
  case insertAttrib n name value =>
    obtain ⟨x, hx⟩ := hsu
    simp only [PlainNames] at hpn
    simp only [applyUniq, applyWith, bind, Except.bind] at hp
    cases hh : uniqueHit qn (acc (cln tx) s.tree) n with
    | error e => rw [hh] at hp; cases hp
    | ok nd =>
      rw [hh] at hp
      simp only at hp
      obtain ⟨m, h1, h2, h3, h4⟩ := hit_both qn tx s h n nd x hx hh
      have hid : nd.id = m.id := by rw [← h2, acc_id]
      split at hp
      · cases hp
      · simp only [Except.ok.injEq] at hp
        subst hp
        have hg : ∀ p : Payload, attrHas (fAdd name value p).attrs DELETE_NAME = attrHas p.attrs DELETE_NAME := by
          intro p
          simp only [fAdd]
          rw [has_delete_extend _ _ _ (by decide)]
          simp [AttrCount.attrHas_attrSet, ne_delete_of_plain name hpn]
        refine ⟨modifyNode s m.id (fAdd name value), ?_, ?_, rfl, tok_modify s h _ _ hg, rfl, rfl, rfl⟩
        · simp only [applyFmt, bind, Except.bind, pure, Except.pure, h1]
          rfl
        · simp only [modifyNode]
          rw [acc_modify (cln tx) (fAdd name value) (fun p => { p with attrs := attrSet p.attrs name value }) m.id hg
            (fun p => by
              simp only [cln, fAdd]
              rw [strip_extend, strip_attrSet _ _ _ hpn]) s.tree, hid]
  case renameAttrib n old new =>
    obtain ⟨x, hx⟩ := hsu
    simp only [PlainNames] at hpn
    simp only [applyUniq, applyWith, bind, Except.bind] at hp
    cases hh : uniqueHit qn (acc (cln tx) s.tree) n with
    | error e => rw [hh] at hp; cases hp
    | ok nd =>
      rw [hh] at hp
      simp only at hp
      obtain ⟨m, h1, h2, h3, h4⟩ := hit_both qn tx s h n nd x hx hh
      have hid : nd.id = m.id := by rw [← h2, acc_id]
      have hat : nd.payload.attrs = stripDiff m.payload.attrs := by rw [← h2, acc_payload]; rfl
      split at hp
      · cases hp
      · next v hv =>
        rw [hat, attrGet_strip _ _ hpn.1] at hv
        split at hp
        · cases hp
        · simp only [Except.ok.injEq] at hp
          subst hp
          have hg : ∀ p : Payload, attrHas (fRenA old new v p).attrs DELETE_NAME = attrHas p.attrs DELETE_NAME := by
            intro p
            simp only [fRenA]
            rw [has_delete_extend _ _ _ (by decide)]
            simp [AttrCount.attrHas_attrDel, AttrCount.attrHas_attrSet, ne_delete_of_plain old hpn.1,
              ne_delete_of_plain new hpn.2]
          refine ⟨modifyNode s m.id (fRenA old new v), ?_, ?_, rfl, tok_modify s h _ _ hg, rfl, rfl, rfl⟩
          · simp only [applyFmt, bind, Except.bind, pure, Except.pure, h1, hv]
            rfl
          · simp only [modifyNode]
            rw [acc_modify (cln tx) (fRenA old new v) (fun p => { p with attrs := attrDel (attrSet p.attrs new v) old })
              m.id hg (fun p => by
                simp only [cln, fRenA]
                rw [strip_extend, strip_attrDel, strip_attrSet _ _ _ hpn.2]) s.tree, hid]
  case insertNamespace pfx uri =>
    simp only [applyUniq, applyWith, Except.ok.injEq] at hp
    subst hp
    exact ⟨s, rfl, rfl, rfl, h, rfl, rfl, rfl⟩
  case deleteNamespace pfx =>
    simp only [applyUniq, applyWith, Except.ok.injEq] at hp
    subst hp
    exact ⟨s, rfl, rfl, rfl, h, rfl, rfl, rfl⟩

/-! ### a script -/

/-- along the replay, every path is stepwise unique -/
def SUScript (qn : QName) : PState → List Action → Prop
  | _, [] => True
  | p, a :: rest => SUAct qn p.tree a ∧ ∀ p', applyUniq qn p a = .ok p' → SUScript qn p' rest

theorem run_sim (qn : QName) (tx : Option Str → Option Str) (htx : tx none = none) (script : List Action)
    (s : FState) (h : TOK s) (hst : ∀ a ∈ script, Structural a ∧ PlainNames a)
    (hsu : SUScript qn ⟨acc (cln tx) s.tree, s.next⟩ script) (p' : PState)
    (hp : runUniq qn ⟨acc (cln tx) s.tree, s.next⟩ script = .ok p') :
    ∃ s', runFmt qn s script = .ok s' ∧ acc (cln tx) s'.tree = p'.tree ∧ s'.next = p'.next ∧ TOK s' ∧
      s'.ph = s.ph := by
  induction script generalizing s with
  | nil =>
    rw [runShipped_nil] at hp
    injection hp with hp
    subst hp
    exact ⟨s, rfl, rfl, rfl, h, rfl⟩
  | cons a rest ih =>
    obtain ⟨p1, h1, h2⟩ := Chw.runUniq_cons_inv qn _ p' a rest hp
    obtain ⟨hsa, hsr⟩ := hsu
    obtain ⟨s1, e1, e2, e3, e4, e5, _, _⟩ := step_sim qn tx htx s h a (hst a (by simp)).1 hsa (hst a (by simp)).2 p1 h1
    have hp1 : p1 = ⟨acc (cln tx) s1.tree, s1.next⟩ := by
      cases p1
      simp only at e2 e3
      rw [e2, e3]
    obtain ⟨s2, f1, f2, f3, f4, f5⟩ := ih s1 e4 (fun b hb => hst b (by simp [hb]))
      (by rw [← hp1]; exact hsr p1 h1) (by rw [← hp1]; exact h2)
    refine ⟨s2, ?_, f2, f3, f4, f5.trans e5⟩
    simp only [runFmt, e1, f1]

end Acc
end XmlDiffModel
