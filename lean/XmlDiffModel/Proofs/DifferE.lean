/-
The XML formatter, with the text engine inside, on the script of the differ: accepted view = the patched document,
rejected view = the left document.  Nothing is assumed about the run: the side conditions of the two simulations come
from C17 (every node is renamed / gets its text / gets its tail at most once) through the invariant of `JStep.lean`.
-/
import XmlDiffModel.Proofs.JRun
import XmlDiffModel.Proofs.DifferFmt

namespace XmlDiffModel
namespace Along
open Tree Chw XmlDiffModel.Acc XmlDiffModel.Names XmlDiffModel.Rej XmlDiffModel.JInv

/-- texts and tails no longer than the engine model is proved for and, when the formatter normalises texts (`w`), in
whitespace-normal form (no white-space run other than a single blank, none at either end) -/
def ShortP (w : Bool) (p : Payload) : Prop :=
  (strOf p.text).length ≤ TEXT_MAX ∧ (strOf p.tail).length ≤ TEXT_MAX ∧
    (w = true → wsNorm (strOf p.text) = strOf p.text ∧ wsNorm (strOf p.tail) = strOf p.tail)

/-- what `CleanT` says of every payload -/
def CleanP (p : Payload) : Prop := (∀ kv ∈ p.attrs, isDiffKey kv.1 = false) ∧ TextOK p.text ∧ TextOK p.tail

mutual
  theorem cleanP_of_clean (t : Tree) (h : CleanT t) : AllP CleanP t := by
    match t with
    | .node i p ks =>
      simp only [CleanT] at h
      simp only [AllP]
      exact ⟨⟨h.1, h.2.1, h.2.2.1⟩, cleanPL_of_clean ks h.2.2.2⟩
  theorem cleanPL_of_clean (ts : List Tree) (h : CleanL ts) : AllPL CleanP ts := by
    match ts with
    | [] => trivial
    | t :: rest =>
      simp only [CleanL] at h
      simp only [AllPL]
      exact ⟨cleanP_of_clean t h.1, cleanPL_of_clean rest h.2⟩
end

/-- the invariant at the start: nothing is marked in a clean document with short texts -/
theorem jall_init (w : Bool) (L : Tree) (hclean : CleanT L) (hshort : AllP (ShortP w) L) :
    JAll w (fun x => x) L L [] [] [] := by
  have key : ∀ l p, payOf L l = some p → CleanP p ∧ ShortP w p := by
    intro l p hp
    unfold payOf at hp
    cases hf : find l L with
    | none => rw [hf] at hp; cases hp
    | some n =>
      rw [hf] at hp
      simp only [Option.map_some, Option.some.injEq] at hp
      subst hp
      exact ⟨allP_root _ _ (allP_find CleanP l L n hf (cleanP_of_clean L hclean)), allP_root _ _ (allP_find (ShortP w) l L n hf hshort)⟩
  refine ⟨?_, ?_, ?_⟩
  · intro l _ p hp hF
    obtain ⟨hc, _⟩ := key l p hp
    unfold FR at hF
    rw [attrGet_none_of_clean p.attrs hc.1 RENAME_NAME isDiffKey_rename] at hF
    cases hF
  · intro l _ p hp hF
    obtain ⟨hc, hs⟩ := key l p hp
    exact absurd ⟨hc.2.1.1, hs.1, fun hw => (hs.2.2 hw).1⟩ hF
  · intro l _ p hp hF
    obtain ⟨hc, hs⟩ := key l p hp
    exact absurd ⟨hc.2.2.1, hs.2.1, fun hw => (hs.2.2 hw).2⟩ hF

/-- the state `XMLFormatter.prepare` leaves: the left document, no text tags, no `use_replace` -/
def fstate0 (L : Tree) (fresh : Nat) (ft : List Str) (segs : List (List Seg)) (w : Bool) : FState :=
  { tree := L, next := fresh, ph := phInit [] ft, segs := segs, useReplace := false, wsText := w }

/-- **The XML formatter on the script of the differ, engine included.** -/
theorem differ_script_engine (bis : Dmp.Bisect) (qn : QName) (cfg : Cfg) (L R : Tree) (M : List (Nat × Nat)) (fresh : Nat)
    (script : List Action) (final : Tree) (ft : List Str) (segs : List (List Seg)) (w : Bool)
    (hclean : CleanT L) (hshort : AllP (ShortP w) L) (hL : (ids L).Nodup) (hRn : (ids R).Nodup)
    (hdisj : ∀ i ∈ ids L, i ∉ ids R)
    (hfL : ∀ i ∈ ids L, i < fresh) (hfR : ∀ i ∈ ids R, i < fresh) (hM : GoodMatching L R M)
    (hR : ∀ x ∈ bfs R, (keys x.payload.attrs).Nodup ∧ XClean (fun k => isDiffKey k = false) x)
    (hsh : ∀ a ∈ script, ShortTexts w a)
    (h : scriptGen qn cfg L R M fresh = .ok (script, final)) :
    ∃ s' σ, runFmtE w bis qn (fstate0 L fresh ft segs w) script = .ok s' ∧
      acc (cln accS) s'.tree = MapId.mapId σ final ∧ MapId.InjOn σ (ids final) ∧ rej s'.tree = bare L := by
  obtain ⟨nx, hstrict⟩ := scriptGen_strict qn cfg L R M fresh script final hL hRn hdisj hfL hfR hM
    (fun x hx => (hR x hx).1) (fun x hx hk => by rw [(hR x hx).2.1] at hk; cases hk) h
  have hal := scriptGen_along qn (fun k => isDiffKey k = false) cfg L R M fresh script final hL hfL hR h
  obtain ⟨hpaths, hrun, hacts⟩ := pathsOK_of qn _ script ⟨L, fresh⟩ ⟨final, nx⟩ hal hstrict
  have hpn := plainNames_of_run qn script L fresh ⟨final, nx⟩ hL hfL (keysPlain_of_clean L hclean)
    (fun a ha => (hacts a ha).2.2) hrun
  have hb : TextMark.Base (phInit [] ft) := by
    have := TextMark.base_history [] ft [] (by
      show (phInit [] ft).counter < 0x110000
      have : (phInit [] ft).counter = phStart + 6 := rfl
      rw [this]; decide)
    exact this
  have htok : TOK { tree := L, next := fresh, ph := phInit [] ft, segs := segs, useReplace := false, wsText := w } :=
    ⟨hL, hfL, isGhost_of_clean L hclean⟩
  have hrok : ROK { tree := L, next := fresh, ph := phInit [] ft, segs := segs, useReplace := false, wsText := w } :=
    ⟨hL, hfL, isIns_of_clean L hclean, hb, rfl⟩
  have r0 : MapId.Rel (fun x => x) L (acc (cln accS) L) fresh fresh :=
    ⟨by rw [acc_clean L hclean, MapId.mapId_ident], fun a _ b _ e => e, hL, hfL, hfL⟩
  have hA : ∀ x ∈ bfs R, (keys x.payload.attrs).Nodup := fun x hx => (hR x hx).1
  have o1 := Once.scriptGen_once Once.renSel Once.goodSel_ren _ Once.isSome_renSel Once.one_ren qn cfg L R M
    fresh script final hL hRn hfL hM hA h
  have o2 := Once.scriptGen_once Once.textSel Once.goodSel_text _ Once.isSome_textSel Once.one_txt qn cfg L R M
    fresh script final hL hRn hfL hM hA h
  have o3 := Once.scriptGen_once Once.tailSel Once.goodSel_tail _ Once.isSome_tailSel Once.one_tail qn cfg L R
    M fresh script final hL hRn hfL hM hA h
  obtain ⟨s', σ, h1, r, _, h4⟩ := run_E w bis qn script _ ⟨htok, hb, rfl⟩ hrok L fresh (fun x => x) r0 [] [] []
    (jall_init w L hclean hshort)
    (fun a ha => ⟨(hacts a ha).1, hpn a ha, (hacts a ha).2.1, hsh a ha⟩) hpaths
    (by simpa using o1) (by simpa using o2) (by simpa using o3) ⟨final, nx⟩ hrun
  exact ⟨s', σ, h1, r.eq, r.inj, by rw [h4]; exact rej_clean L hclean⟩

end Along
end XmlDiffModel
