/-
Script generation reaches the right document (the invariant of Chawathe et al. for this implementation), part 1:
lookups in the matching, the invariant of the main loop, and the general "placement" step (an inserted or moved
node becomes a child of the partner of its partner's parent, at the position `find_pos` computes).
-/
import XmlDiffModel.Proofs.Order
import XmlDiffModel.Proofs.TreeView
import XmlDiffModel.Proofs.Match

namespace XmlDiffModel
namespace Chw
open Tree

/-! ### the matching as two partial functions -/

theorem r2lGet_mem (ms : Matches) (r l : Nat) (h : r2lGet ms r = some l) : (l, r) ∈ ms := by
  induction ms with
  | nil => simp [r2lGet] at h
  | cons p rest ih =>
    obtain ⟨a, b⟩ := p
    simp only [r2lGet] at h
    split at h
    · next hb => injection h with h; subst h; subst hb; exact List.mem_cons_self
    · exact List.mem_cons_of_mem _ (ih h)

theorem l2rGet_mem (ms : Matches) (l r : Nat) (h : l2rGet ms l = some r) : (l, r) ∈ ms := by
  induction ms with
  | nil => simp [l2rGet] at h
  | cons p rest ih =>
    obtain ⟨a, b⟩ := p
    simp only [l2rGet] at h
    split at h
    · next ha => injection h with h; subst h; subst ha; exact List.mem_cons_self
    · exact List.mem_cons_of_mem _ (ih h)

theorem r2lGet_of_mem (ms : Matches) (hr : (rights ms).Nodup) (l r : Nat) (h : (l, r) ∈ ms) : r2lGet ms r = some l := by
  induction ms with
  | nil => cases h
  | cons p rest ih =>
    obtain ⟨a, b⟩ := p
    simp only [rights, List.map_cons, List.nodup_cons] at hr
    simp only [r2lGet]
    rcases List.mem_cons.mp h with h | h
    · injection h with h1 h2; subst h1; subst h2; simp
    · have : b ≠ r := by
        intro e
        exact hr.1 (List.mem_map.mpr ⟨(l, r), h, e.symm⟩)
      rw [if_neg this]
      exact ih hr.2 h

theorem l2rGet_of_mem (ms : Matches) (hl : (lefts ms).Nodup) (l r : Nat) (h : (l, r) ∈ ms) : l2rGet ms l = some r := by
  induction ms with
  | nil => cases h
  | cons p rest ih =>
    obtain ⟨a, b⟩ := p
    simp only [lefts, List.map_cons, List.nodup_cons] at hl
    simp only [l2rGet]
    rcases List.mem_cons.mp h with h | h
    · injection h with h1 h2; subst h1; subst h2; simp
    · have : a ≠ l := by
        intro e
        exact hl.1 (List.mem_map.mpr ⟨(l, r), h, e.symm⟩)
      rw [if_neg this]
      exact ih hl.2 h

theorem mem_lefts (ms : Matches) (l r : Nat) (h : (l, r) ∈ ms) : l ∈ lefts ms := List.mem_map.mpr ⟨(l, r), h, rfl⟩
theorem mem_rights (ms : Matches) (l r : Nat) (h : (l, r) ∈ ms) : r ∈ rights ms := List.mem_map.mpr ⟨(l, r), h, rfl⟩

theorem r2lGet_none (ms : Matches) (r : Nat) (h : r ∉ rights ms) : r2lGet ms r = none := by
  cases hh : r2lGet ms r with
  | none => rfl
  | some l => exact absurd (mem_rights ms l r (r2lGet_mem ms r l hh)) h

theorem l2rGet_none (ms : Matches) (l : Nat) (h : l ∉ lefts ms) : l2rGet ms l = none := by
  cases hh : l2rGet ms l with
  | none => rfl
  | some r => exact absurd (mem_lefts ms l r (l2rGet_mem ms l r hh)) h

/-- partner of a right node, total (0 if unmatched) -/
def psi (ms : Matches) (r : Nat) : Nat := (r2lGet ms r).getD 0

theorem psi_of_mem (ms : Matches) (hr : (rights ms).Nodup) (l r : Nat) (h : (l, r) ∈ ms) : psi ms r = l := by
  simp [psi, r2lGet_of_mem ms hr l r h]

/-- membership in the `_inorder` set -/
def ioB (io : List Nat) (i : Nat) : Bool := io.contains i

theorem ioB_iff (io : List Nat) (i : Nat) : ioB io i = true ↔ i ∈ io := by simp [ioB]

/-! ### payloads up to attribute order and ignored attributes -/

/-- the payload of a left node agrees with that of its partner: kind, tag, text, tail, and every attribute that
is not ignored (attribute order does not matter) -/
def PayEq (ign : List Str) (a b : Payload) : Prop :=
  a.kind = b.kind ∧ a.tag = b.tag ∧ a.text = b.text ∧ a.tail = b.tail ∧
    ∀ k, k ∉ ign → attrGet a.attrs k = attrGet b.attrs k

/-! ### the invariant of the main loop -/

/-- `A` = right nodes whose alignment has started, `D ⊆ A` = right nodes completely visited. -/
structure Inv (ign : List Str) (R : Tree) (s : DState) (A D : List Nat) : Prop where
  wf : (ids s.left).Nodup
  disj : ∀ i ∈ ids s.left, i ∉ ids R
  freshL : ∀ i ∈ ids s.left, i < s.next
  freshR : ∀ i ∈ ids R, i < s.next
  mL : (lefts s.ms).Nodup
  mR : (rights s.ms).Nodup
  mdom : ∀ p ∈ s.ms, p.1 ∈ ids s.left ∧ p.2 ∈ ids R
  mroot : (s.left.id, R.id) ∈ s.ms
  mkind : ∀ p ∈ s.ms, ∀ pl pr, payOf s.left p.1 = some pl → payOf R p.2 = some pr → pl.kind = pr.kind
  ioPair : ∀ p ∈ s.ms, p.1 ∈ s.inorder ↔ p.2 ∈ s.inorder
  ioM : ∀ i ∈ s.inorder, i ∈ lefts s.ms ∨ i ∈ rights s.ms
  home : ∀ p ∈ s.ms, p.2 ∈ s.inorder →
    ∃ q lq, parId R p.2 = some q ∧ r2lGet s.ms q = some lq ∧ parId s.left p.1 = some lq
  ord : ∀ p ∈ s.ms, (kidIds s.left p.1).filter (ioB s.inorder) =
    ((kidIds R p.2).filter (ioB s.inorder)).map (psi s.ms)
  unvis : ∀ x ∈ ids R, x ∉ A → ∀ y ∈ kidIds R x, y ∉ s.inorder
  vis : ∀ y ∈ D, ∃ l pl pr, r2lGet s.ms y = some l ∧ payOf s.left l = some pl ∧ payOf R y = some pr ∧
    PayEq ign pl pr ∧ (y ≠ R.id → y ∈ s.inorder)
  aligned : ∀ x ∈ D, ∀ y ∈ kidIds R x, ∀ c lx, r2lGet s.ms y = some c → r2lGet s.ms x = some lx →
    c ∈ kidIds s.left lx → y ∈ s.inorder
  sub : ∀ x ∈ D, x ∈ A

/-! ### small facts about children tables -/

theorem top_ids_sublist (ks : List Tree) : (ks.map Tree.id).Sublist (idsL ks) := by
  induction ks with
  | nil => simp [idsL]
  | cons t rest ih =>
    simp only [List.map_cons, idsL]
    rw [ids_eq]
    simp only [List.cons_append]
    exact List.Sublist.cons_cons _ (List.Sublist.trans ih (List.sublist_append_right _ _))

theorem kidIds_nodup (t : Tree) (hn : (ids t).Nodup) (p : Nat) : (kidIds t p).Nodup := by
  unfold kidIds
  cases hf : find p t with
  | none => simp
  | some n =>
    have h1 : (ids n).Nodup := nodup_sub hn hf
    rw [ids_eq, List.nodup_cons] at h1
    exact (top_ids_sublist n.kids).nodup h1.2

theorem self_not_kid (t : Tree) (hn : (ids t).Nodup) (p : Nat) : p ∉ kidIds t p := by
  unfold kidIds
  cases hf : find p t with
  | none => simp
  | some n =>
    intro h
    have h1 : (ids n).Nodup := nodup_sub hn hf
    have h2 : p ∈ idsL n.kids := kid_id_mem n p h
    exact root_ne_of_desc n p h1 h2 (find_id p t n hf)

/-- a node has one parent -/
theorem parent_unique (t : Tree) (hn : (ids t).Nodup) (c p q : Nat) (h1 : c ∈ kidIds t p) (h2 : c ∈ kidIds t q) :
    p = q := by
  have e1 := (parId_iff t hn c p).mpr h1
  have e2 := (parId_iff t hn c q).mpr h2
  rw [e1] at e2
  injection e2

theorem filter_erase_of_false {α} [DecidableEq α] (l : List α) (a : α) (p : α → Bool) (h : p a = false) :
    (l.erase a).filter p = l.filter p := by
  induction l with
  | nil => rfl
  | cons b rest ih =>
    by_cases hb : b = a
    · subst hb
      simp [h]
    · rw [List.erase_cons_tail (by simpa using hb)]
      simp only [List.filter_cons, ih]

theorem mem_erase_ne {α} [DecidableEq α] (l : List α) (a c : α) (h : c ∈ l.erase a) : c ∈ l :=
  List.mem_of_mem_erase h

theorem mem_insertAt {α} (l : List α) (pos : Nat) (v c : α) : c ∈ insertAt l pos v ↔ c = v ∨ c ∈ l := by
  unfold insertAt
  simp only [List.mem_append, List.mem_cons]
  constructor
  · rintro (h | h | h)
    · exact Or.inr (List.mem_of_mem_take h)
    · exact Or.inl h
    · exact Or.inr (List.mem_of_mem_drop h)
  · rintro (h | h)
    · exact Or.inr (Or.inl h)
    · have := List.take_append_drop pos l
      rw [← this] at h
      rcases List.mem_append.mp h with h | h
      · exact Or.inl h
      · exact Or.inr (Or.inr h)

/-! ### placing a node -/

/-- table-level effect of making `v` (a new leaf, or a node that is detached with its subtree first) the child
number `pos` of `tgt` -/
structure Placed (W W' : Tree) (v tgt pos : Nat) : Prop where
  nodup : (ids W').Nodup
  mem : ∀ i, i ∈ ids W' ↔ i ∈ ids W ∨ i = v
  rootId : W'.id = W.id
  kids : ∀ q, kidIds W' q = if q = tgt then insertAt ((kidIds W q).erase v) pos v else (kidIds W q).erase v
  pay : ∀ j, j ≠ v → payOf W' j = payOf W j

theorem Placed.kid_old {W W' : Tree} {v tgt pos : Nat} (h : Placed W W' v tgt pos) (c q : Nat) (hc : c ≠ v) :
    c ∈ kidIds W' q ↔ c ∈ kidIds W q := by
  rw [h.kids q]
  split
  · rw [mem_insertAt]
    constructor
    · rintro (e | e)
      · exact absurd e hc
      · exact List.mem_of_mem_erase e
    · intro e; exact Or.inr ((List.mem_erase_of_ne hc).mpr e)
  · exact List.mem_erase_of_ne hc

theorem Placed.kid_new {W W' : Tree} {v tgt pos : Nat} (h : Placed W W' v tgt pos) : v ∈ kidIds W' tgt := by
  rw [h.kids tgt, if_pos rfl, mem_insertAt]; exact Or.inl rfl

theorem r2lGet_some_of_mem (ms : Matches) (c : Nat) (h : c ∈ rights ms) : ∃ l, r2lGet ms c = some l := by
  induction ms with
  | nil => cases h
  | cons p rest ih =>
    obtain ⟨a, b⟩ := p
    simp only [r2lGet]
    by_cases hb : b = c
    · exact ⟨a, by simp [hb]⟩
    · simp only [hb, if_false]
      apply ih
      simp only [rights, List.map_cons, List.mem_cons] at h
      rcases h with e | e
      · exact absurd e.symm hb
      · exact e

theorem l2rGet_some_of_mem (ms : Matches) (c : Nat) (h : c ∈ lefts ms) : ∃ r, l2rGet ms c = some r := by
  induction ms with
  | nil => cases h
  | cons p rest ih =>
    obtain ⟨a, b⟩ := p
    simp only [l2rGet]
    by_cases ha : a = c
    · exact ⟨b, by simp [ha]⟩
    · simp only [ha, if_false]
      apply ih
      simp only [lefts, List.map_cons, List.mem_cons] at h
      rcases h with e | e
      · exact absurd e.symm ha
      · exact e

/-- lookups in a matching extended by the pair `(v, y)` (or equal to it, if the pair was there) -/
theorem r2lGet_ext (ms ms' : Matches) (v y : Nat) (hm : ∀ p, p ∈ ms' ↔ p ∈ ms ∨ p = (v, y))
    (hR' : (rights ms').Nodup) (c : Nat) (hc : c ≠ y) : r2lGet ms' c = r2lGet ms c := by
  cases h : r2lGet ms c with
  | some l => exact r2lGet_of_mem ms' hR' l c ((hm _).mpr (Or.inl (r2lGet_mem ms c l h)))
  | none =>
    cases h' : r2lGet ms' c with
    | none => rfl
    | some l =>
      exfalso
      rcases (hm _).mp (r2lGet_mem ms' c l h') with h1 | h1
      · obtain ⟨l', hl'⟩ := r2lGet_some_of_mem ms c (mem_rights ms l c h1)
        rw [hl'] at h; cases h
      · injection h1 with _ h2; exact hc h2

theorem psi_ext (ms ms' : Matches) (v y : Nat) (hm : ∀ p, p ∈ ms' ↔ p ∈ ms ∨ p = (v, y))
    (hR' : (rights ms').Nodup) (c : Nat) (hc : c ≠ y) : psi ms' c = psi ms c := by
  unfold psi; rw [r2lGet_ext ms ms' v y hm hR' c hc]

end Chw
end XmlDiffModel
