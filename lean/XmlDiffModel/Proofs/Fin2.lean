/-
The accept-all / reject-all projections on the tree `finalize` returns (wrappers as elements), and their agreement
with the accepted / rejected view of the marked tree:

* accept: a `diff:insert` wrapper gives its text and tail to the text in front of it, a `diff:delete` wrapper its tail
  only; an element marked `diff:delete` is dropped with the text region after it (its tail and the wrappers up to the
  next element); `diff:` attributes are removed;
* reject: symmetric - `diff:delete` wrappers give text and tail, `diff:insert` wrappers the tail, elements flagged
  `diff:insert` are dropped with the text region after them, a renamed element gets its old tag back, attributes are
  forgotten.
-/
import XmlDiffModel.Proofs.Fin1
import XmlDiffModel.Model.Project
import XmlDiffModel.Proofs.Names

namespace XmlDiffModel
namespace Fin
open Tree Undo TextMark XmlDiffModel.Acc XmlDiffModel.Rej XmlDiffModel.Names

/-- no element of the document has a wrapper tag -/
def TagOK (p : Payload) : Prop := p.tag ≠ INSERT_NAME ∧ p.tag ≠ DELETE_NAME

theorem acceptOf_cons (t0 : Str) (w : Tree) (ws : List Tree) : acceptOf t0 (w :: ws) = acceptOf (t0 ++ accOfW w) ws := by
  simp only [acceptOf, accOfW, List.flatMap_cons, List.append_assoc]

theorem rejectOf_cons (t0 : Str) (w : Tree) (ws : List Tree) : rejectOf t0 (w :: ws) = rejectOf (t0 ++ rejOfW w) ws := by
  simp only [rejectOf, rejOfW, List.flatMap_cons, List.append_assoc]

theorem isWrapTag_of_isW (w : Tree) (h : IsW w) : isWrapTag w = true := by
  unfold isWrapTag
  rcases h.1 with e | e <;> simp [e]

theorem accFK_wrappers (ws rest : List Tree) (hw : ∀ w ∈ ws, IsW w) (sink : Str) :
    accFK false sink (ws ++ rest) = accFK false (acceptOf sink ws) rest ∧
      accFK true sink (ws ++ rest) = accFK true sink rest := by
  induction ws generalizing sink with
  | nil => simp [acceptOf]
  | cons w ws ih =>
    have h1 := isWrapTag_of_isW w (hw w (by simp))
    have ih' := fun s => ih (fun x hx => hw x (by simp [hx])) s
    simp only [List.cons_append, accFK, h1, if_true, Bool.false_eq_true, if_false]
    exact ⟨by rw [(ih' _).1, acceptOf_cons], (ih' _).2⟩

theorem rejFK_wrappers (ws rest : List Tree) (hw : ∀ w ∈ ws, IsW w) (sink : Str) :
    rejFK false sink (ws ++ rest) = rejFK false (rejectOf sink ws) rest ∧
      rejFK true sink (ws ++ rest) = rejFK true sink rest := by
  induction ws generalizing sink with
  | nil => simp [rejectOf]
  | cons w ws ih =>
    have h1 := isWrapTag_of_isW w (hw w (by simp))
    have ih' := fun s => ih (fun x hx => hw x (by simp [hx])) s
    simp only [List.cons_append, rejFK, h1, if_true, Bool.false_eq_true, if_false]
    exact ⟨by rw [(ih' _).1, rejectOf_cons], (ih' _).2⟩

theorem nt_accChars (o : Option Str) : nt (some (accChars false (strOf o))) = accS o := by
  cases o with
  | none => simp [accS, nt, strOf, accChars]
  | some x => rfl

theorem nt_rejChars (o : Option Str) : nt (some (rejChars false (strOf o))) = rejS o := by
  cases o with
  | none => simp [rejS, nt, strOf, rejChars]
  | some x => rfl

theorem not_wrapTag (p : Payload) (i : Nat) (ks : List Tree) (h : TagOK p) : isWrapTag (.node i p ks) = false := by
  unfold isWrapTag
  simp [Tree.payload, h.1, h.2]

mutual
  /-- **accept-all on the output = accepted view of the marked tree** -/
  theorem accFT_fin (t r : Tree) (after : List Tree) (hf : FinT t r after) (hg : AllP TagOK t) :
      accFT r = setTailT none (acc (cln accS) t) := by
    match t with
    | .node i p ks =>
      simp only [FinT] at hf
      obtain ⟨tx, tl, front, ks', rfl, r1, _, hl⟩ := hf
      simp only [AllP] at hg
      have hk := accFK_fin ks ks' hl hg.2
      simp only [accFT, acc, setTailT, cln]
      rw [(accFK_wrappers front ks' r1.wl _).1, hk false, r1.accept, nt_accChars]
  theorem accFK_fin (ts out : List Tree) (hf : FinL ts out) (hg : AllPL TagOK ts) (drop : Bool) (sink : Str) :
      accFK drop sink out = (sink, accL (cln accS) ts) := by
    match ts with
    | [] =>
      simp only [FinL] at hf
      subst hf
      cases drop <;> simp [accFK, accL]
    | t :: rest =>
      simp only [FinL] at hf
      obtain ⟨k', after, rest', rfl, h1, h2⟩ := hf
      simp only [AllPL] at hg
      have e1 := accFT_fin t k' after h1 hg.1
      have e2 := accFK_fin rest rest' h2 hg.2
      match t, h1, hg, e1 with
      | .node i p ks, h1, hg, e1 =>
        simp only [FinT] at h1
        obtain ⟨tx, tl, front, ks', rfl, _, r2, _⟩ := h1
        simp only [AllP] at hg
        have hnw : isWrapTag (.node i { p with text := tx, tail := tl } (front ++ ks')) = false :=
          not_wrapTag _ i _ hg.1.1
        have hgh : isGhost (.node i { p with text := tx, tail := tl } (front ++ ks')) = isGhost (.node i p ks) := rfl
        simp only [accFK, hnw, Bool.false_eq_true, if_false, accL]
        by_cases hgo : isGhost (.node i p ks) = true
        · rw [hgh, if_pos hgo, if_pos hgo, (accFK_wrappers after rest' r2.wl sink).2, e2 true]
        · rw [hgh, if_neg hgo, if_neg hgo]
          simp only [Tree.payload]
          rw [(accFK_wrappers after rest' r2.wl _).1, e2 false, e1, r2.accept, nt_accChars]
          simp only [acc, setTailT, cln]
end

mutual
  /-- **reject-all on the output = rejected view of the marked tree** -/
  theorem rejFT_fin (t r : Tree) (after : List Tree) (hf : FinT t r after) (hg : AllP TagOK t) :
      rejFT r = setTailT none (rej t) := by
    match t with
    | .node i p ks =>
      simp only [FinT] at hf
      obtain ⟨tx, tl, front, ks', rfl, r1, _, hl⟩ := hf
      simp only [AllP] at hg
      have hk := rejFK_fin ks ks' hl hg.2
      simp only [rejFT, rej, setTailT, rejP]
      rw [(rejFK_wrappers front ks' r1.wl _).1, hk false, r1.reject, nt_rejChars]
  theorem rejFK_fin (ts out : List Tree) (hf : FinL ts out) (hg : AllPL TagOK ts) (drop : Bool) (sink : Str) :
      rejFK drop sink out = (sink, rejL ts) := by
    match ts with
    | [] =>
      simp only [FinL] at hf
      subst hf
      cases drop <;> simp [rejFK, rejL]
    | t :: rest =>
      simp only [FinL] at hf
      obtain ⟨k', after, rest', rfl, h1, h2⟩ := hf
      simp only [AllPL] at hg
      have e1 := rejFT_fin t k' after h1 hg.1
      have e2 := rejFK_fin rest rest' h2 hg.2
      match t, h1, hg, e1 with
      | .node i p ks, h1, hg, e1 =>
        simp only [FinT] at h1
        obtain ⟨tx, tl, front, ks', rfl, _, r2, _⟩ := h1
        simp only [AllP] at hg
        have hnw : isWrapTag (.node i { p with text := tx, tail := tl } (front ++ ks')) = false :=
          not_wrapTag _ i _ hg.1.1
        have hgh : isIns (.node i { p with text := tx, tail := tl } (front ++ ks')) = isIns (.node i p ks) := rfl
        simp only [rejFK, hnw, Bool.false_eq_true, if_false, rejL]
        by_cases hgo : isIns (.node i p ks) = true
        · rw [hgh, if_pos hgo, if_pos hgo, (rejFK_wrappers after rest' r2.wl sink).2, e2 true]
        · rw [hgh, if_neg hgo, if_neg hgo]
          simp only [Tree.payload]
          rw [(rejFK_wrappers after rest' r2.wl _).1, e2 false, e1, r2.reject, nt_rejChars]
          simp only [rej, setTailT, rejP]
end

end Fin
end XmlDiffModel
