/-
A formatter-side invariant for "at most once": a live node of the working tree carries a mark (a `diff:rename`
attribute, a marked text, a marked tail) only if the patcher node it stands for was hit by such an action before.
`JF F σ MT T H`: for every patcher node `l`, if the working-tree node with id `σ l` satisfies the flag `F`, then
`l ∈ H`.  This file: the invariant under the three kinds of tree surgery.
-/
import XmlDiffModel.Proofs.Equiv2
import XmlDiffModel.Proofs.Once

namespace XmlDiffModel
namespace JInv
open Tree MapId

def JF (F : Payload → Prop) (σ : Nat → Nat) (MT T : Tree) (H : List Nat) : Prop :=
  ∀ l ∈ ids T, ∀ p, payOf MT (σ l) = some p → F p → l ∈ H

/-- a payload change at the node that stands for `l0` -/
theorem jf_modify (F : Payload → Prop) (σ σ' : Nat → Nat) (MT T T' : Tree) (H H' : List Nat) (i0 l0 : Nat)
    (f : Payload → Payload) (hn : (ids MT).Nodup) (hsub : ∀ l ∈ ids T', l ∈ ids T)
    (hag : ∀ l ∈ ids T, σ' l = σ l) (hinj : InjOn σ (ids T)) (hl0 : l0 ∈ ids T) (hi0 : i0 = σ l0)
    (hf : ∀ p, F (f p) → F p ∨ l0 ∈ H') (hH : ∀ x ∈ H, x ∈ H') (J : JF F σ MT T H) :
    JF F σ' (modify i0 f MT) T' H' := by
  intro l hl p hp hF
  have hlT := hsub l hl
  rw [hag l hlT, payOf_modify i0 f MT hn] at hp
  by_cases e : σ l = i0
  · rw [if_pos e] at hp
    have hll : l = l0 := hinj l hlT l0 hl0 (by rw [e, hi0])
    cases h0 : payOf MT (σ l) with
    | none => rw [h0] at hp; cases hp
    | some p0 =>
      rw [h0] at hp
      simp only [Option.map_some, Option.some.injEq] at hp
      subst hp
      rcases hf p0 hF with h1 | h1
      · exact hH l (J l hlT p0 h0 h1)
      · rw [hll]; exact h1
  · rw [if_neg e] at hp
    exact hH l (J l hlT p hp hF)

/-- inserting a fresh node without the flag -/
theorem jf_insert (F : Payload → Prop) (σ σ' : Nat → Nat) (MT T T' : Tree) (H : List Nat) (tgt pos k nx : Nat)
    (pl : Payload) (hn : (ids MT).Nodup) (htgt : tgt ∈ ids MT) (hk : k ∉ ids MT)
    (hT' : ∀ l ∈ ids T', l ∈ ids T ∨ l = nx) (hag : ∀ l ∈ ids T, σ' l = σ l) (hnx : σ' nx = k)
    (hlt : ∀ l ∈ ids T, σ l ≠ k) (hpl : ¬ F pl) (J : JF F σ MT T H) :
    JF F σ' (insertChild tgt pos (.node k pl []) MT) T' H := by
  intro l hl p hp hF
  rcases hT' l hl with hlT | rfl
  · rw [hag l hlT, payOf_insertChild_old tgt pos _ MT hn (σ l) (by
      simp only [ids, idsL, List.mem_cons, List.mem_nil_iff, or_false, List.append_nil]
      exact hlt l hlT)] at hp
    exact J l hlT p hp hF
  · rw [hnx, payOf_insertChild_new tgt pos _ MT htgt k hk] at hp
    simp only [payOf, find, if_true, Option.map_some, Tree.payload, Option.some.injEq] at hp
    subst hp
    exact absurd hF hpl

/-- removing a node on the patcher side while the working tree only changes payloads elsewhere -/
theorem jf_shrink (F : Payload → Prop) (σ : Nat → Nat) (MT T T' : Tree) (H : List Nat)
    (hsub : ∀ l ∈ ids T', l ∈ ids T) (J : JF F σ MT T H) : JF F σ MT T' H :=
  fun l hl p hp hF => J l (hsub l hl) p hp hF

/-! ### renamed copies -/

mutual
  theorem find_mapId (τ : Nat → Nat) (i : Nat) (t : Tree) (hi : InjOn τ (ids t)) (hin : i ∈ ids t) :
      find (τ i) (mapId τ t) = (find i t).map (mapId τ) := by
    match t with
    | .node j p ks =>
      by_cases h : j = i
      · subst h
        simp [mapId, find]
      · have hne : τ j ≠ τ i := fun e => h (hi j (by simp [ids]) i hin e)
        simp only [mapId, find, h, hne, if_false]
        have hin' : i ∈ idsL ks := by
          simp only [ids, List.mem_cons] at hin
          rcases hin with e | e
          · exact absurd e.symm h
          · exact e
        exact findL_mapIdL τ i ks (hi.sub (fun a ha => by simp [ids, ha])) hin'
  theorem findL_mapIdL (τ : Nat → Nat) (i : Nat) (ts : List Tree) (hi : InjOn τ (idsL ts)) (hin : i ∈ idsL ts) :
      findL (τ i) (mapIdL τ ts) = (findL i ts).map (mapId τ) := by
    match ts with
    | [] => simp [idsL] at hin
    | t :: rest =>
      simp only [mapIdL, findL]
      by_cases hit : i ∈ ids t
      · rw [find_mapId τ i t (hi.sub (fun a ha => by simp [idsL, ha])) hit]
        obtain ⟨n, hn⟩ := find_some_of_mem i t hit
        simp [hn]
      · have h1 : find i t = none := find_none i t hit
        have h2 : find (τ i) (mapId τ t) = none := by
          apply find_none
          rw [ids_mapId]
          intro hm
          obtain ⟨a, ha, e⟩ := List.mem_map.1 hm
          have : a = i := hi a (by simp [idsL, ha]) i hin e
          exact hit (this ▸ ha)
        rw [h1, h2]
        simp only
        have hin' : i ∈ idsL rest := by
          simp only [idsL, List.mem_append] at hin
          rcases hin with e | e
          · exact absurd e hit
          · exact e
        exact findL_mapIdL τ i rest (hi.sub (fun a ha => by simp [idsL, ha])) hin'
end

theorem payOf_mapId (τ : Nat → Nat) (i : Nat) (t : Tree) (hi : InjOn τ (ids t)) (hin : i ∈ ids t) :
    payOf (mapId τ t) (τ i) = payOf t i := by
  unfold payOf
  rw [find_mapId τ i t hi hin]
  cases find i t with
  | none => rfl
  | some n => simp [mapId_payload]

theorem payOf_setAttrsT (g : List (Str × Str) → List (Str × Str)) (t : Tree) (hn : (ids t).Nodup) (j : Nat) :
    payOf (setAttrsT g t) j =
      if j = t.id then (payOf t j).map (fun p => { p with attrs := g p.attrs }) else payOf t j := by
  cases t with
  | node k p ks =>
    simp only [setAttrsT, payOf, find, Tree.id]
    by_cases h : k = j
    · subst h; simp [Tree.payload]
    · have : ¬ j = k := fun e => h e.symm
      simp [h, this]

end JInv
end XmlDiffModel
