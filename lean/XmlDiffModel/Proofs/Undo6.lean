/-
C11 round trip, part 6: the maker's initial state (`PlaceholderMaker.__init__`) satisfies the heap invariant, with the
three `diff:` elements as the objects of its entries.
-/
import XmlDiffModel.Proofs.Undo5

namespace XmlDiffModel
namespace Undo
open Tree

theorem phInit_table (tt ft : List Str) : (phInit tt ft).table =
    [⟨keyOf (diffElemOf "insert").2, .close, none, phStart + 1, 900001⟩,
     ⟨keyOf (diffElemOf "insert").2, .open, some (phStart + 1), phStart + 2, 900001⟩,
     ⟨keyOf (diffElemOf "delete").2, .close, none, phStart + 3, 900002⟩,
     ⟨keyOf (diffElemOf "delete").2, .open, some (phStart + 3), phStart + 4, 900002⟩,
     ⟨keyOf (diffElemOf "replace").2, .close, none, phStart + 5, 900003⟩,
     ⟨keyOf (diffElemOf "replace").2, .open, some (phStart + 5), phStart + 6, 900003⟩] := by
  rfl

theorem phInit_heap (tt ft : List Str) : (phInit tt ft).heap = [] := by rfl

theorem phInit_hinv (tt ft : List Str) : HInv (phInit tt ft) diffElemList [] := by
  intro e he _ hr
  rw [phInit_table] at he
  simp only [List.mem_cons, List.mem_nil_iff, or_false] at he
  rcases he with rfl | rfl | rfl | rfl | rfl | rfl
  · exact absurd rfl hr
  · exact ⟨(diffElemOf "insert").2, rfl, rfl, rfl, rfl, rfl⟩
  · exact absurd rfl hr
  · exact ⟨(diffElemOf "delete").2, rfl, rfl, rfl, rfl, rfl⟩
  · exact absurd rfl hr
  · exact ⟨(diffElemOf "replace").2, rfl, rfl, rfl, rfl, rfl⟩

theorem phInit_elemIds (tt ft : List Str) : ∀ x ∈ (phInit tt ft).table, 900001 ≤ x.elemId ∧ x.elemId ≤ 900003 := by
  intro x hx
  rw [phInit_table] at hx
  simp only [List.mem_cons, List.mem_nil_iff, or_false] at hx
  rcases hx with rfl | rfl | rfl | rfl | rfl | rfl <;> exact ⟨by decide, by decide⟩

theorem diffElemList_ids : ∀ p ∈ diffElemList, 900001 ≤ p.1 ∧ p.1 ≤ 900003 := by
  intro p hp
  simp only [diffElemList, List.map_cons, List.map_nil, List.mem_cons, List.mem_nil_iff, or_false] at hp
  rcases hp with rfl | rfl | rfl <;> exact ⟨by decide, by decide⟩

end Undo
end XmlDiffModel
