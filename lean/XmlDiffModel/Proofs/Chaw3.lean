/-
Script generation reaches the right document, part 3: what `find_pos` returns, and the three places where a node
is placed - insert, move to another parent, move inside a parent during alignment.
-/
import XmlDiffModel.Proofs.Chaw2

namespace XmlDiffModel
namespace Chw
open Tree

/-- `find_pos`: first, or right after the partner of the nearest in-order left sibling -/
theorem findPos_spec (ign : List Str) (R : Tree) (hRn : (ids R).Nodup) (s : DState) (A D : List Nat)
    (inv : Inv ign R s A D) (y py tgt v pos : Nat)
    (hy : y ∈ kidIds R py) (hpy : (tgt, py) ∈ s.ms)
    (hskip : r2lGet s.ms y = some v ∨ (r2lGet s.ms y = none ∧ v ∉ kidIds s.left tgt))
    (hvio : v ∉ s.inorder)
    (h : findPos s R y = .ok pos) :
    ∀ X1 X2, kidIds R py = X1 ++ y :: X2 →
      match (X1.filter (ioB s.inorder)).getLast? with
      | none => pos = 0
      | some u => ∃ A' B, (kidIds s.left tgt).erase v = A' ++ psi s.ms u :: B ∧ psi s.ms u ∉ A' ∧ pos = A'.length + 1 := by
  intro X1 X2 hX
  -- the parent of `y` in the right tree
  have hk := hy
  unfold kidIds at hk
  cases hf : find py R with
  | none => rw [hf] at hk; cases hk
  | some n =>
    rw [hf] at hk
    simp only at hk
    have hpar : R.parentOf y = some n := parentOf_of_kid py y R n hRn hf hk
    have hnk : n.kids.map Tree.id = X1 ++ y :: X2 := by
      rw [← hX]; unfold kidIds; rw [hf]
    have hXn : (X1 ++ y :: X2).Nodup := hX ▸ kidIds_nodup R hRn py
    have hy1 : y ∉ X1 := by
      intro hm
      exact (List.nodup_append.mp hXn).2.2 y hm y List.mem_cons_self rfl
    unfold findPos at h
    rw [hpar] at h
    simp only at h
    rw [hnk, Ord.lastInorderBefore_spec s.inorder (ioB s.inorder) (fun _ => rfl) y X1 X2 none hy1] at h
    cases hg : (X1.filter (ioB s.inorder)).getLast? with
    | none =>
      rw [hg] at h
      simp only at h
      injection h with h
      exact h.symm
    | some u =>
      rw [hg] at h
      simp only at h
      have hu : u ∈ X1.filter (ioB s.inorder) := List.mem_of_getLast? hg
      have huio : u ∈ s.inorder := (ioB_iff _ _).mp (List.mem_filter.mp hu).2
      have huk : u ∈ kidIds R py := by rw [hX]; exact List.mem_append_left _ (List.mem_filter.mp hu).1
      cases hsm : r2lGet s.ms u with
      | none => rw [hsm] at h; cases h
      | some sm =>
        rw [hsm] at h
        simp only at h
        have hsmM : (sm, u) ∈ s.ms := r2lGet_mem s.ms u sm hsm
        have hpsi : psi s.ms u = sm := by simp [psi, hsm]
        -- `sm` is at home: a child of `tgt`
        obtain ⟨q, lq, h1, h2, h3⟩ := inv.home (sm, u) hsmM huio
        have hq : q = py := by
          have := (parId_iff R hRn u py).mpr huk
          simp only at h1
          rw [this] at h1; injection h1 with h1; exact h1.symm
        have hlq : lq = tgt := by
          have := r2lGet_of_mem s.ms inv.mR tgt py hpy
          rw [hq, this] at h2; injection h2 with h2; exact h2.symm
        subst hlq
        simp only at h3
        cases hlp : s.left.parentOf sm with
        | none => rw [hlp] at h; cases h
        | some lp =>
          rw [hlp] at h
          simp only at h
          injection h with h
          have hlpid : lp.id = lq := by
            unfold parId at h3; rw [hlp] at h3; simpa using h3
          have hlpk : lp.kids.map Tree.id = kidIds s.left lq := by
            obtain ⟨_, hfl⟩ := parentOf_spec sm s.left lp inv.wf hlp
            unfold kidIds; rw [← hlpid, hfl]
          rw [hlpk] at h
          have hKn : (kidIds s.left lq).Nodup := kidIds_nodup _ inv.wf lq
          have hsmK : sm ∈ kidIds s.left lq := (parId_iff _ inv.wf sm lq).mp h3
          have hsmio : sm ∈ s.inorder := (inv.ioPair (sm, u) hsmM).mpr huio
          have hsmv : sm ≠ v := fun e => hvio (e ▸ hsmio)
          have hfilt : (kidIds s.left lq).filter (fun c => some c ≠ r2lGet s.ms y) = (kidIds s.left lq).erase v := by
            rcases hskip with hs | ⟨hs, hvk⟩
            · rw [hs, List.Nodup.erase_eq_filter hKn]
              apply Ord.filter_congr'
              intro c _
              by_cases hcv : c = v <;> simp [hcv]
            · rw [hs, List.erase_of_not_mem hvk]
              simp
          have hsmE : sm ∈ (kidIds s.left lq).erase v := (List.mem_erase_of_ne hsmv).mpr hsmK
          obtain ⟨A', B, hAB⟩ := List.append_of_mem hsmE
          have hEn : ((kidIds s.left lq).erase v).Nodup := hKn.erase v
          have hnA : sm ∉ A' := by
            intro hm
            rw [hAB] at hEn
            exact (List.nodup_append.mp hEn).2.2 sm hm sm List.mem_cons_self rfl
          simp only
          rw [hpsi]
          refine ⟨A', B, hAB, hnA, ?_⟩
          rw [Ord.countUpTo_spec (r2lGet s.ms y) sm (kidIds s.left lq) 0 A' B (by rw [hfilt, hAB]) hnA] at h
          omega

/-! ### `Placed` for an inserted leaf and for a moved subtree -/

theorem placed_insert (W : Tree) (hn : (ids W).Nodup) (l tgt pos : Nat) (pl : Payload) (hl : l ∉ ids W)
    (ht : tgt ∈ ids W) : Placed W (insertChild tgt pos (.node l pl []) W) l tgt pos := by
  have hids : ids (Tree.node l pl []) = [l] := by simp [ids, idsL]
  have hd : ∀ x ∈ ids (Tree.node l pl []), x ∉ ids W := by
    intro x hx; rw [hids] at hx; simp at hx; rw [hx]; exact hl
  refine ⟨?_, ?_, id_insertChild _ _ _ _, ?_, ?_⟩
  · exact nodup_insertChild tgt pos _ W hn (by rw [hids]; simp) hd
  · intro i
    rw [mem_ids_insertChild_iff tgt pos _ W hn ht hd, hids]; simp
  · intro q
    by_cases hq : q = l
    · subst hq
      have hqt : q ≠ tgt := fun e => hl (e ▸ ht)
      rw [kidIds_insertChild_new tgt pos _ W ht q hl, if_neg hqt]
      have h1 : kidIds (Tree.node q pl []) q = [] := by simp [kidIds, find, kids]
      have h2 : kidIds W q = [] := by
        unfold kidIds; rw [find_none q W hl]
      rw [h1, h2]; rfl
    · have hq' : q ∉ ids (Tree.node l pl []) := by rw [hids]; simpa using hq
      rw [kidIds_insertChild_old tgt pos _ W hn q hq']
      have hne : l ∉ kidIds W q := fun h => hl (kidIds_sub W q l h).1
      rw [List.erase_of_not_mem hne]
      simp only [ht, and_true, Tree.id]
  · intro j hj
    exact payOf_insertChild_old tgt pos _ W hn j (by rw [hids]; simpa using hj)

theorem placed_move (W : Tree) (i tgt pos : Nat) (sub : Tree) (h : MoveOK W i tgt sub) :
    Placed W (moved W i tgt pos sub) i tgt pos := by
  refine ⟨nodup_moved W i tgt pos sub h, ?_, ?_, kidIds_moved W i tgt pos sub h, fun j _ => payOf_moved W i tgt pos sub h j⟩
  · intro x
    rw [mem_ids_moved W i tgt pos sub h x]
    constructor
    · exact Or.inl
    · rintro (hx | hx)
      · exact hx
      · rw [hx]; exact (mem_ids_iff_find i W).mpr ⟨sub, h.found⟩
  · unfold moved; rw [id_insertChild, id_remove]

/-- a parent is not inside the subtree of its child -/
theorem parent_not_in_child (W : Tree) (hn : (ids W).Nodup) (c l : Nat) (sub : Tree) (hc : c ∈ kidIds W l)
    (hf : find c W = some sub) : l ∉ ids sub := by
  unfold kidIds at hc
  cases hfl : find l W with
  | none => rw [hfl] at hc; cases hc
  | some n =>
    rw [hfl] at hc
    simp only at hc
    obtain ⟨k, hk, hid⟩ := List.mem_map.mp hc
    have := find_of_sub W hn l n hfl k hk
    rw [hid, hf] at this
    injection this with this
    subst this
    have hnn : (ids n).Nodup := nodup_sub hn hfl
    rw [ids_eq, List.nodup_cons] at hnn
    intro hm
    apply hnn.1
    rw [find_id l W n hfl]
    exact idsL_of_mem n.kids sub hk l hm

theorem root_no_parent (W : Tree) (hn : (ids W).Nodup) : parId W W.id = none := by
  unfold parId
  cases h : parentOf W.id W with
  | none => rfl
  | some p =>
    exfalso
    exact root_ne_of_desc W W.id hn (parentOf_desc W.id W p h) rfl

/-- if the target of a move lay inside the moved subtree, the node would be lost -/
theorem move_target_outside (W : Tree) (hn : (ids W).Nodup) (l tgt pos : Nat) (sub : Tree) (hf : find l W = some sub)
    (hr : W.id ≠ l) (hfound : (find l (moved W l tgt pos sub)).isSome = true) : tgt ∉ ids sub := by
  intro hm
  have h1 : tgt ∉ ids (remove l W) := fun h => ((mem_ids_remove l W sub hn hf hr tgt).mp h).2 hm
  unfold moved at hfound
  rw [insertChild_not_mem tgt pos sub _ h1] at hfound
  have hl : l ∈ ids sub := by
    have := id_mem_ids sub; rwa [find_id l W sub hf] at this
  rw [find_remove_gone l l W sub hn hf hr hl] at hfound
  cases hfound

theorem kid_of_parentOf (t : Tree) (hn : (ids t).Nodup) (i : Nat) (p : Tree) (h : parentOf i t = some p) :
    i ∈ kidIds t p.id := by
  obtain ⟨h1, h2⟩ := parentOf_spec i t p hn h
  unfold kidIds; rw [h2]; exact h1

theorem not_inorder_of_unmatched (ign : List Str) (R : Tree) (s : DState) (A D : List Nat) (inv : Inv ign R s A D)
    (y : Nat) (hy : y ∈ ids R) (hun : r2lGet s.ms y = none) : y ∉ s.inorder := by
  intro hio
  rcases inv.ioM y hio with h | h
  · obtain ⟨q, hq, e⟩ := List.mem_map.mp h
    exact inv.disj y (e ▸ (inv.mdom q hq).1) hy
  · obtain ⟨l, hl⟩ := r2lGet_some_of_mem s.ms y h
    rw [hl] at hun; cases hun

theorem fresh_not_inorder (ign : List Str) (R : Tree) (s : DState) (A D : List Nat) (inv : Inv ign R s A D) :
    s.next ∉ s.inorder := by
  intro hio
  rcases inv.ioM _ hio with h | h
  · obtain ⟨q, hq, e⟩ := List.mem_map.mp h
    exact Nat.lt_irrefl _ (inv.freshL _ (e ▸ (inv.mdom q hq).1))
  · obtain ⟨q, hq, e⟩ := List.mem_map.mp h
    exact Nat.lt_irrefl _ (inv.freshR _ (e ▸ (inv.mdom q hq).2))

/-- (b) of the main loop: an unmatched right node gets a new partner -/
theorem insertStep_inv (ign : List Str) (qn : QName) (R : Tree) (hRn : (ids R).Nodup) (x : Tree)
    (hx : find x.id R = some x) (s s' : DState) (A D : List Nat) (inv : Inv ign R s A D) (l : Nat)
    (hun : r2lGet s.ms x.id = none) (hxA : x.id ∉ A)
    (hpar : ∀ py, x.id ∈ kidIds R py → py ∈ A)
    (h : insertStep qn R x ((R.parentOf x.id).bind (fun rp => r2lGet s.ms rp.id)) s = .ok (l, s')) :
    Inv ign R s' A D ∧ r2lGet s'.ms x.id = some l ∧ x.id ∈ s'.inorder ∧
      payOf s'.left l = some (match x.payload.kind with
        | .comment => commentPayload x.payload.text
        | .elem => elemPayload x.payload.tag) := by
  cases hrp : R.parentOf x.id with
  | none =>
    rw [hrp] at h
    simp only [Option.bind_none, insertStep, bind, Except.bind, throw, throwThe, MonadExceptOf.throw] at h
    split at h <;> cases h
  | some rp =>
    rw [hrp] at h
    simp only [Option.bind_some] at h
    cases htg : r2lGet s.ms rp.id with
    | none =>
      rw [htg] at h
      simp only [insertStep, bind, Except.bind, throw, throwThe, MonadExceptOf.throw] at h
      split at h <;> cases h
    | some tgt =>
      rw [htg] at h
      simp only [insertStep, bind, Except.bind, pure, Except.pure] at h
      split at h
      · cases h
      · next pos hpos =>
        split at h
        · cases h
        · next tp htp =>
          have hxk : x.id ∈ kidIds R rp.id := kid_of_parentOf R hRn x.id rp hrp
          have hpyM : (tgt, rp.id) ∈ s.ms := r2lGet_mem s.ms rp.id tgt htg
          have htW : tgt ∈ ids s.left := (inv.mdom _ hpyM).1
          have hlW : s.next ∉ ids s.left := fun hm => Nat.lt_irrefl _ (inv.freshL _ hm)
          have hlR : s.next ∉ ids R := fun hm => Nat.lt_irrefl _ (inv.freshR _ hm)
          have hxR : x.id ∈ ids R := (mem_ids_iff_find x.id R).mpr ⟨x, hx⟩
          have hxio : x.id ∉ s.inorder := not_inorder_of_unmatched ign R s A D inv x.id hxR hun
          have hkidsx : (kidIds R x.id).filter (ioB s.inorder) = [] := by
            rw [List.filter_eq_nil_iff]
            intro c hc hcio
            exact inv.unvis x.id hxR hxA c hc ((ioB_iff _ _).mp hcio)
          have key : ∀ (pl : Payload) (act : Action), pl.kind = x.payload.kind →
              Inv ign R { left := Tree.insertChild tgt pos (.node s.next pl []) s.left, ms := (s.next, x.id) :: s.ms,
                          inorder := x.id :: s.next :: s.inorder, out := act :: s.out, next := s.next + 1 } A D := by
            intro pl act hkind
            have hpl := placed_insert s.left inv.wf s.next tgt pos pl hlW htW
            apply placed_inv ign R hRn s _ A D inv s.next tgt pos x.id rp.id hpl rfl
            · intro p; simp only [List.mem_cons]
              constructor
              · rintro (h | h); exact Or.inr h; exact Or.inl h
              · rintro (h | h); exact Or.inr h; exact Or.inl h
            · simp only [lefts, List.map_cons, List.nodup_cons]
              refine ⟨?_, inv.mL⟩
              intro hm
              obtain ⟨q, hq, e⟩ := List.mem_map.mp hm
              exact hlW (e ▸ (inv.mdom q hq).1)
            · simp only [rights, List.map_cons, List.nodup_cons]
              refine ⟨?_, inv.mR⟩
              intro hm
              obtain ⟨l', hl'⟩ := r2lGet_some_of_mem s.ms x.id hm
              rw [hl'] at hun; cases hun
            · exact Nat.le_succ _
            · exact Nat.lt_succ_self _
            · exact hxk
            · exact hpyM
            · exact hpar rp.id hxk
            · exact fun hd => hxA (inv.sub _ hd)
            · exact hlR
            · exact fresh_not_inorder ign R s A D inv
            · exact hxio
            · intro pl' pr h1 h2
              have e1 : payOf (Tree.insertChild tgt pos (.node s.next pl []) s.left) s.next = some pl := by
                rw [payOf_insertChild_new tgt pos _ s.left htW s.next hlW]
                simp [payOf, find, payload]
              have e2 : payOf R x.id = some x.payload := by simp [payOf, hx]
              simp only at h1
              rw [e1] at h1; rw [e2] at h2
              injection h1 with h1; injection h2 with h2
              rw [← h1, ← h2]; exact hkind
            · have : kidIds s.left s.next = [] := by unfold kidIds; rw [find_none _ _ hlW]
              rw [this, hkidsx]; rfl
            · exact fun e => hlW (e ▸ htW)
            · exact findPos_spec ign R hRn s A D inv x.id rp.id tgt s.next pos hxk hpyM
                (Or.inr ⟨hun, fun hk => hlW (kidIds_sub _ _ _ hk).1⟩) (fresh_not_inorder ign R s A D inv) hpos
          have pay : ∀ (pl : Payload),
              payOf (Tree.insertChild tgt pos (.node s.next pl []) s.left) s.next = some pl := by
            intro pl
            rw [payOf_insertChild_new tgt pos _ s.left htW s.next hlW]
            simp [payOf, find, payload]
          cases hk : x.payload.kind with
          | comment =>
            simp only [hk, Except.ok.injEq, Prod.mk.injEq] at h
            obtain ⟨rfl, rfl⟩ := h
            exact ⟨key _ _ (by simp [commentPayload, hk]), by simp [r2lGet], by simp, pay _⟩
          | elem =>
            simp only [hk, Except.ok.injEq, Prod.mk.injEq] at h
            obtain ⟨rfl, rfl⟩ := h
            exact ⟨key _ _ (by simp [elemPayload, hk]), by simp [r2lGet], by simp, pay _⟩

mutual
  /-- every node below the root has a parent -/
  theorem parentOf_exists (i : Nat) (t : Tree) (h : i ∈ idsL t.kids) : ∃ p, parentOf i t = some p := by
    match t with
    | node j q ks =>
      simp only [kids] at h
      unfold parentOf
      by_cases hany : (ks.any fun k => k.id == i) = true
      · exact ⟨_, by rw [if_pos hany]⟩
      · rw [if_neg hany]
        have hno : ∀ c ∈ ks, c.id ≠ i := by
          intro c hc e
          apply hany
          simp only [List.any_eq_true, beq_iff_eq]
          exact ⟨c, hc, e⟩
        exact parentOfL_exists i ks h hno
  theorem parentOfL_exists (i : Nat) (ts : List Tree) (h : i ∈ idsL ts) (hno : ∀ c ∈ ts, c.id ≠ i) :
      ∃ p, parentOfL i ts = some p := by
    match ts with
    | [] => simp [idsL] at h
    | t :: rest =>
      simp only [idsL, List.mem_append] at h
      unfold parentOfL
      by_cases hit : i ∈ ids t
      · have : i ∈ idsL t.kids := by
          rw [ids_eq] at hit
          rcases List.mem_cons.mp hit with e | e
          · exact absurd e.symm (hno t List.mem_cons_self)
          · exact e
        obtain ⟨p, hp⟩ := parentOf_exists i t this
        exact ⟨p, by rw [hp]⟩
      · have hnone : parentOf i t = none := by
          cases hpt : parentOf i t with
          | none => rfl
          | some m =>
            exfalso; apply hit
            rw [ids_eq]; exact List.mem_cons_of_mem _ (parentOf_desc i t m hpt)
        rw [hnone]
        rcases h with h | h
        · exact absurd h hit
        · exact parentOfL_exists i rest h (fun c hc => hno c (List.mem_cons_of_mem _ hc))
end

theorem parId_some_of_nonroot (t : Tree) (i : Nat) (h : i ∈ ids t) (hr : i ≠ t.id) : ∃ p, parId t i = some p := by
  rw [ids_eq] at h
  rcases List.mem_cons.mp h with e | e
  · exact absurd e hr
  · obtain ⟨p, hp⟩ := parentOf_exists i t e
    exact ⟨p.id, by simp [parId, hp]⟩

/-- (c)(iii) of the main loop: the partner of a matched right node is moved under the partner of its parent -/
theorem moveStep_inv (ign : List Str) (qn : QName) (R : Tree) (hRn : (ids R).Nodup) (x : Tree)
    (hx : find x.id R = some x) (s s' : DState) (A D : List Nat) (inv : Inv ign R s A D) (l : Nat)
    (hl : r2lGet s.ms x.id = some l) (hxD : x.id ∉ D)
    (hpar : ∀ py, x.id ∈ kidIds R py → py ∈ D)
    (h : moveStep qn R x l ((R.parentOf x.id).bind (fun rp => r2lGet s.ms rp.id)) s = .ok s')
    (hfound : (find l s'.left).isSome = true) :
    Inv ign R s' A D ∧ s'.ms = s.ms ∧ s'.next = s.next ∧ (x.id ≠ R.id → x.id ∈ s'.inorder) ∧
      payOf s'.left l = payOf s.left l := by
  have hlM : (l, x.id) ∈ s.ms := r2lGet_mem s.ms x.id l hl
  have hxR : x.id ∈ ids R := (mem_ids_iff_find x.id R).mpr ⟨x, hx⟩
  unfold moveStep at h
  simp only at h
  split at h
  · next hne =>
    -- a move
    cases hrp : R.parentOf x.id with
    | none =>
      rw [hrp] at h
      simp only [Option.bind_none, bind, Except.bind, throw, throwThe, MonadExceptOf.throw] at h
      split at h <;> cases h
    | some rp =>
      rw [hrp] at h hne
      simp only [Option.bind_some] at h hne
      cases htg : r2lGet s.ms rp.id with
      | none =>
        rw [htg] at h
        simp only [bind, Except.bind, throw, throwThe, MonadExceptOf.throw] at h
        split at h <;> cases h
      | some tgt =>
        rw [htg] at h hne
        simp only [bind, Except.bind, pure, Except.pure] at h
        split at h
        · cases h
        · next pos hpos =>
          cases hlp : parentOf l s.left with
          | none => simp [hlp, throw, throwThe, MonadExceptOf.throw] at h
          | some par =>
            simp only [hlp, Option.map_some, Option.isNone_some, Bool.false_eq_true, if_false] at h
            split at h
            · cases h
            · next p1 hp1 =>
              split at h
              · cases h
              · next p2 hp2 =>
                split at h
                · cases h
                · next left' hl' =>
                  simp only [Except.ok.injEq] at h
                  subst h
                  simp only at hfound ⊢
                  have hxk : x.id ∈ kidIds R rp.id := kid_of_parentOf R hRn x.id rp hrp
                  have hpyM : (tgt, rp.id) ∈ s.ms := r2lGet_mem s.ms rp.id tgt htg
                  have htW : tgt ∈ ids s.left := (inv.mdom _ hpyM).1
                  have hroot : s.left.id ≠ l := root_ne_of_desc s.left l inv.wf (parentOf_desc l s.left par hlp)
                  unfold moveIn at hl'
                  cases hfl : find l s.left with
                  | none => rw [hfl] at hl'; cases hl'
                  | some sub =>
                    rw [hfl] at hl'
                    simp only [Except.ok.injEq] at hl'
                    subst hl'
                    have hout : tgt ∉ ids sub := move_target_outside s.left inv.wf l tgt pos sub hfl hroot hfound
                    have hmv : MoveOK s.left l tgt sub := ⟨inv.wf, hfl, hroot, htW, hout⟩
                    have hpl := placed_move s.left l tgt pos sub hmv
                    have hparl : parId s.left l = some par.id := by simp [parId, hlp]
                    have hlio : l ∉ s.inorder := by
                      intro hio
                      have hxio := (inv.ioPair _ hlM).mp hio
                      obtain ⟨q, lq, h1, h2, h3⟩ := inv.home _ hlM hxio
                      simp only at h1 h3
                      have e1 : parId R x.id = some rp.id := by simp [parId, hrp]
                      rw [e1] at h1; injection h1 with h1
                      rw [← h1, htg] at h2; injection h2 with h2
                      rw [hparl, ← h2] at h3
                      injection h3 with h3
                      apply hne
                      simp [hlp, h3]
                    have hxio : x.id ∉ s.inorder := fun hio => hlio ((inv.ioPair _ hlM).mpr hio)
                    refine ⟨?_, trivial, trivial, fun _ => by simp, payOf_moved s.left l tgt pos sub hmv l⟩
                    apply placed_inv ign R hRn s _ A D inv l tgt pos x.id rp.id hpl rfl
                    · intro p
                      constructor
                      · exact Or.inl
                      · rintro (hp | hp)
                        · exact hp
                        · rw [hp]; exact hlM
                    · exact inv.mL
                    · exact inv.mR
                    · exact Nat.le_refl _
                    · exact inv.freshL l (inv.mdom _ hlM).1
                    · exact hxk
                    · exact hpyM
                    · exact inv.sub _ (hpar rp.id hxk)
                    · exact hxD
                    · exact inv.disj l (inv.mdom _ hlM).1
                    · exact hlio
                    · exact hxio
                    · intro pl pr h1 h2
                      have e1 := payOf_moved s.left l tgt pos sub hmv l
                      unfold moved at e1
                      simp only at h1
                      rw [e1] at h1
                      exact inv.mkind _ hlM pl pr h1 h2
                    · exact inv.ord _ hlM
                    · intro e
                      apply hout
                      rw [← e]
                      have := id_mem_ids sub
                      rwa [find_id l s.left sub hfl] at this
                    · exact findPos_spec ign R hRn s A D inv x.id rp.id tgt l pos hxk hpyM (Or.inl hl) hlio hpos
  · next heq =>
    -- already under the right parent
    simp only [pure, Except.pure, Except.ok.injEq] at h
    subst h
    refine ⟨inv, rfl, rfl, ?_, rfl⟩
    intro hnr
    obtain ⟨py, hpy⟩ := parId_some_of_nonroot R x.id hxR hnr
    have hxk : x.id ∈ kidIds R py := (parId_iff R hRn x.id py).mp hpy
    have hpyD := hpar py hxk
    obtain ⟨lp, _, _, hlp, _⟩ := inv.vis py hpyD
    have heq' : (R.parentOf x.id).bind (fun rp => r2lGet s.ms rp.id) = some lp := by
      unfold parId at hpy
      cases hrp : R.parentOf x.id with
      | none => rw [hrp] at hpy; cases hpy
      | some rp =>
        rw [hrp] at hpy
        simp only [Option.map_some, Option.some.injEq] at hpy
        simp [hpy, hlp]
    have hne : ¬ ((R.parentOf x.id).bind (fun rp => r2lGet s.ms rp.id) ≠ (s.left.parentOf l).map Tree.id) := heq
    have hparl : parId s.left l = some lp := by
      unfold parId
      have := Classical.not_not.mp hne
      rw [← this, heq']
    have hlk : l ∈ kidIds s.left lp := (parId_iff _ inv.wf l lp).mp hparl
    exact inv.aligned py hpyD x.id hxk l lp hl hlp hlk

end Chw
end XmlDiffModel
