/-
C09 / C10 on the tree `finalize` returns, for the scripts of the differ (engine included): the accept-all projection of
the output is the patched document, the reject-all projection is the left document without its attributes.
-/
import XmlDiffModel.Proofs.Fin3
import XmlDiffModel.Proofs.DifferE2

namespace XmlDiffModel
namespace Fin
open Tree Undo TextMark XmlDiffModel.Acc XmlDiffModel.Rej XmlDiffModel.Names XmlDiffModel.Along MapId JInv Chw

/-- along the run of `run_E`: the maker state stays, every text stays a marked text, no element gets a wrapper tag -/
theorem run_E_fin (w : Bool) (bis : Dmp.Bisect) (qn : QName) (script : List Action) (s : FState) (h : FOK s) (inv : ROK s)
    (T : Tree) (nx : Nat) (σ : Nat → Nat) (r : Rel σ T (acc (cln accS) s.tree) nx s.next) (HR HT HA : List Nat)
    (J : JAll w σ s.tree T HR HT HA) (fi : FInv s) (tg : AllP TagOK s.tree)
    (hst : ∀ a ∈ script, NoComment a ∧ PlainNames a ∧ TextsOK a ∧ ShortTexts w a ∧ ActTagsOK a)
    (hpaths : PathsOK qn ⟨T, nx⟩ script)
    (nR : (HR ++ Once.targets Once.renSel qn ⟨T, nx⟩ script).Nodup)
    (nT : (HT ++ Once.targets Once.textSel qn ⟨T, nx⟩ script).Nodup)
    (nA : (HA ++ Once.targets Once.tailSel qn ⟨T, nx⟩ script).Nodup)
    (p' : PState) (hp : runUniq qn ⟨T, nx⟩ script = .ok p') (s' : FState)
    (hrun : runFmtE w bis qn s script = .ok s') : FInv s' ∧ s'.ph = s.ph ∧ AllP TagOK s'.tree := by
  induction script generalizing s T nx σ HR HT HA with
  | nil =>
    simp only [runFmtE, Except.ok.injEq] at hrun
    subst hrun
    exact ⟨fi, rfl, tg⟩
  | cons a rest ih =>
    obtain ⟨p1, h1, h2⟩ := Chw.runUniq_cons_inv qn _ p' a rest hp
    obtain ⟨hsa, hpm, hsr⟩ := hpaths
    obtain ⟨ha1, ha2, ha3, ha4, ha5⟩ := hst a (by simp)
    rw [targets_cons _ qn ⟨T, nx⟩ p1 a rest h1] at nR nT nA
    obtain ⟨s1, σ1, e1, e2, e3, e4, _, e6⟩ := step_E w bis qn s h inv T nx σ r HR HT HA J a ha1 hsa hpm ha2 ha3 ha4 p1 h1
      (disjoint_of_nodup nR) (disjoint_of_nodup nT) (disjoint_of_nodup nA)
    have hso := segsOK_feed w bis qn s h T nx σ r HR HT HA J a hsa ha3 ha4 p1 h1 (disjoint_of_nodup nT)
      (disjoint_of_nodup nA) fi.segs
    obtain ⟨sg, hfe⟩ := feed_eq w bis qn s a
    rw [hfe] at hso e1
    have fi0 : FInv { s with segs := sg } := ⟨fi.base, fi.marked, fi.norep, hso⟩
    obtain ⟨fi1, hph1⟩ := applyFmt_inv qn _ s1 a fi0 (actLow_of_textsOK a ha3) e1
    have tg1 := applyFmt_tags qn { s with segs := sg } s1 a h.tok.nodup fi0 tg ha5 e1
    simp only [runFmtE, hfe, e1] at hrun
    obtain ⟨f1, f2, f3⟩ := ih s1 e3 e4 p1.tree p1.next σ1 e2 _ _ _ e6 fi1 tg1 (fun b hb => hst b (by simp [hb]))
      (hsr p1 h1) (by rw [List.append_assoc]; exact nR) (by rw [List.append_assoc]; exact nT)
      (by rw [List.append_assoc]; exact nA) h2 hrun
    exact ⟨f1, f2.trans hph1, f3⟩

/-- the tags a differ script brings in are tags of right nodes -/
theorem actTagsOK_of_right (qn : QName) (cfg : Cfg) (L R : Tree) (M : List (Nat × Nat)) (fresh : Nat)
    (script : List Action) (final : Tree)
    (hR : ∀ x ∈ bfs R, (keys x.payload.attrs).Nodup ∧ TagOK x.payload)
    (h : scriptGen qn cfg L R M fresh = .ok (script, final)) : ∀ a ∈ script, ActTagsOK a := by
  have key := Texts.scriptGen_fits (Texts.badTag (fun t => decide (t ≠ INSERT_NAME ∧ t ≠ DELETE_NAME)))
    (Texts.neutral_badTag _) qn cfg L R M fresh script final
    (fun x hx => ⟨(hR x hx).1, ⟨fun _ => rfl, fun _ => rfl, fun _ => by simpa [Texts.badTag, TagOK] using (hR x hx).2,
      fun _ _ => by simpa [Texts.badTag, TagOK] using (hR x hx).2, fun _ _ => rfl⟩⟩) h
  intro a ha
  have := key a ha
  cases a <;> simp only [ActTagsOK] <;> first | trivial | simpa [Texts.badTag] using this

/-- **The output of the XML formatter on a differ script, wrappers as elements**: the handlers accept the script,
`finalize` succeeds for every sufficiently large fuel, and on the tree it returns the accept-all projection is the
patched document (ids renamed one-to-one) and the reject-all projection is the left document without its attributes
(root tails aside). -/
theorem differ_script_output (bis : Dmp.Bisect) (qn : QName) (cfg : Cfg) (L R : Tree) (M : List (Nat × Nat))
    (fresh : Nat) (script : List Action) (final : Tree) (ft : List Str) (w : Bool)
    (hclean : CleanT L) (hshort : AllP (ShortP w) L) (htag : AllP TagOK L) (hL : (ids L).Nodup) (hRn : (ids R).Nodup)
    (hdisj : ∀ i ∈ ids L, i ∉ ids R)
    (hfL : ∀ i ∈ ids L, i < fresh) (hfR : ∀ i ∈ ids R, i < fresh) (hM : GoodMatching L R M)
    (hR : ∀ x ∈ bfs R, (keys x.payload.attrs).Nodup ∧ XClean (fun k => isDiffKey k = false) x ∧ ShortP w x.payload ∧
      TagOK x.payload)
    (h : scriptGen qn cfg L R M fresh = .ok (script, final)) :
    ∃ s' σ out after, runFmtE w bis qn (fstate0 L fresh ft [] w) script = .ok s' ∧
      (∃ N, ∀ f, N ≤ f → undoElement f s'.ph diffElemList s'.tree = .ok (out, after)) ∧
      PlainT s'.ph out ∧ InjOn σ (ids final) ∧
      accFT out = setTailT none (mapId σ final) ∧ rejFT out = setTailT none (bare L) := by
  have hR' : ∀ x ∈ bfs R, (keys x.payload.attrs).Nodup ∧ XClean (fun k => isDiffKey k = false) x :=
    fun x hx => ⟨(hR x hx).1, (hR x hx).2.1⟩
  have hsh := shortTexts_of_right w qn cfg L R M fresh script final (fun x hx => ⟨(hR x hx).1, (hR x hx).2.2.1⟩) h
  have htg := actTagsOK_of_right qn cfg L R M fresh script final (fun x hx => ⟨(hR x hx).1, (hR x hx).2.2.2⟩) h
  obtain ⟨nx, hstrict⟩ := scriptGen_strict qn cfg L R M fresh script final hL hRn hdisj hfL hfR hM
    (fun x hx => (hR x hx).1) (fun x hx hk => by rw [(hR x hx).2.1.1] at hk; cases hk) h
  have hal := scriptGen_along qn (fun k => isDiffKey k = false) cfg L R M fresh script final hL hfL hR' h
  obtain ⟨hpaths, hrun, hacts⟩ := pathsOK_of qn _ script ⟨L, fresh⟩ ⟨final, nx⟩ hal hstrict
  have hpn := plainNames_of_run qn script L fresh ⟨final, nx⟩ hL hfL (keysPlain_of_clean L hclean)
    (fun a ha => (hacts a ha).2.2) hrun
  have hb : TextMark.Base (phInit [] ft) := by
    have := TextMark.base_history [] ft [] (by
      show (phInit [] ft).counter < 0x110000
      have : (phInit [] ft).counter = phStart + 6 := rfl
      rw [this]; decide)
    exact this
  have htok : TOK (fstate0 L fresh ft [] w) := ⟨hL, hfL, isGhost_of_clean L hclean⟩
  have hrok : ROK (fstate0 L fresh ft [] w) := ⟨hL, hfL, isIns_of_clean L hclean, hb, rfl⟩
  have r0 : MapId.Rel (fun x => x) L (acc (cln accS) L) fresh fresh :=
    ⟨by rw [acc_clean L hclean, MapId.mapId_ident], fun a _ b _ e => e, hL, hfL, hfL⟩
  have hA : ∀ x ∈ bfs R, (keys x.payload.attrs).Nodup := fun x hx => (hR x hx).1
  have o1 := Once.scriptGen_once Once.renSel Once.goodSel_ren _ Once.isSome_renSel Once.one_ren qn cfg L R M
    fresh script final hL hRn hfL hM hA h
  have o2 := Once.scriptGen_once Once.textSel Once.goodSel_text _ Once.isSome_textSel Once.one_txt qn cfg L R M
    fresh script final hL hRn hfL hM hA h
  have o3 := Once.scriptGen_once Once.tailSel Once.goodSel_tail _ Once.isSome_tailSel Once.one_tail qn cfg L R
    M fresh script final hL hRn hfL hM hA h
  have hst : ∀ a ∈ script, NoComment a ∧ PlainNames a ∧ TextsOK a ∧ ShortTexts w a :=
    fun a ha => ⟨(hacts a ha).1, hpn a ha, (hacts a ha).2.1, hsh a ha⟩
  obtain ⟨s', σ, h1, r, _, h4⟩ := run_E w bis qn script _ ⟨htok, hb, rfl⟩ hrok L fresh (fun x => x) r0 [] [] []
    (jall_init w L hclean hshort) hst hpaths (by simpa using o1) (by simpa using o2) (by simpa using o3) ⟨final, nx⟩ hrun
  have fi0 : TextMark.FInv (fstate0 L fresh ft [] w) :=
    TextMark.finv_init ft L fresh [] w (lowT_of_clean L hclean) (fun d hd => by cases hd)
  obtain ⟨fi, _, tg⟩ := run_E_fin w bis qn script _ ⟨htok, hb, rfl⟩ hrok L fresh (fun x => x) r0 [] [] []
    (jall_init w L hclean hshort) fi0 htag
    (fun a ha => ⟨(hst a ha).1, (hst a ha).2.1, (hst a ha).2.2.1, (hst a ha).2.2.2, htg a ha⟩) hpaths
    (by simpa using o1) (by simpa using o2) (by simpa using o3) ⟨final, nx⟩ hrun s' h1
  obtain ⟨out, after, hu, hpl, _, hfin⟩ := undoElement_fin s'.ph fi.base s'.tree fi.marked
  refine ⟨s', σ, out, after, h1, hu, hpl, r.inj, ?_, ?_⟩
  · rw [accFT_fin s'.tree out after hfin tg, r.eq]
  · rw [rejFT_fin s'.tree out after hfin tg, h4]
    show setTailT none (rej L) = _
    rw [rej_clean L hclean]

end Fin
end XmlDiffModel
