/-
Round trip of the text edit-script format: `parseScript (formatScript as) = .ok as`.
Helper lemmas; the property theorem is in `Props/C02.lean`.
-/
import XmlDiffModel.Model.TextFormat
import XmlDiffModel.Proofs.Json

namespace XmlDiffModel
namespace TF

/-! ### numbers -/

def pnStep (acc : Option Nat) (ch : Char) : Option Nat :=
  match acc with
  | none => none
  | some n => if ch.isDigit then some (n * 10 + (ch.toNat - '0'.toNat)) else none

theorem parseNat?_eq (s : Str) : parseNat? s = if s.isEmpty then none else s.foldl pnStep (some 0) := rfl

theorem digitChar_spec : ∀ k : Fin 10, (Nat.digitChar k.val).isDigit = true ∧ (Nat.digitChar k.val).toNat - 48 = k.val := by
  decide

theorem zero_toNat : '0'.toNat = 48 := by decide

theorem foldl_digits (n : Nat) : (Nat.toDigits 10 n).foldl pnStep (some 0) = some n := by
  induction n using Nat.strongRecOn with
  | _ n ih =>
    rw [Nat.toDigits_eq_if (by decide)]
    split
    · next h =>
      have := digitChar_spec ⟨n, h⟩
      simp only [List.foldl_cons, List.foldl_nil, pnStep, this.1, if_true, zero_toNat]
      have h2 := this.2
      simp only at h2
      rw [h2]; simp
    · next h =>
      rw [List.foldl_append, ih (n / 10) (by omega)]
      have := digitChar_spec ⟨n % 10, Nat.mod_lt _ (by decide)⟩
      simp only [List.foldl_cons, List.foldl_nil, pnStep, this.1, if_true, zero_toNat]
      have h2 := this.2
      simp only at h2
      rw [h2]
      congr 1
      omega

theorem natToStr_eq (n : Nat) : natToStr n = Nat.toDigits 10 n := by
  unfold natToStr
  simp

theorem parseNat?_natToStr (n : Nat) : parseNat? (natToStr n) = some n := by
  rw [parseNat?_eq, natToStr_eq]
  have : (Nat.toDigits 10 n).isEmpty = false := by
    have := @Nat.toDigits_ne_nil n 10
    cases h : Nat.toDigits 10 n with
    | nil => exact absurd h this
    | cons _ _ => rfl
  rw [this]
  simp only [Bool.false_eq_true, if_false]
  exact foldl_digits n

theorem natToStr_digits (n : Nat) : ∀ c ∈ natToStr n, c.isDigit = true := by
  intro c hc
  rw [natToStr_eq] at hc
  exact Nat.isDigit_of_mem_toDigits (by decide) (by decide) hc

theorem natToStr_ne_nil (n : Nat) : natToStr n ≠ [] := by
  rw [natToStr_eq]; exact Nat.toDigits_ne_nil

/-! ### paths -/

theorem splitOn_ne_nil (c : Char) (s : Str) : splitOn c s ≠ [] := by
  cases s with
  | nil => simp [splitOn]
  | cons x xs =>
    simp only [splitOn]
    split
    · simp
    · split <;> simp

theorem splitOn_append (c : Char) (a b h : Str) (t : List Str) (ha : ∀ x ∈ a, x ≠ c)
    (hb : splitOn c b = h :: t) : splitOn c (a ++ b) = (a ++ h) :: t := by
  induction a with
  | nil => simpa using hb
  | cons x xs ih =>
    have hx : x ≠ c := ha x (by simp)
    have := ih (fun y hy => ha y (by simp [hy]))
    simp only [List.cons_append, splitOn, this, hx, if_false]

theorem splitOn_none (c : Char) (a : Str) (ha : ∀ x ∈ a, x ≠ c) : splitOn c a = [a] := by
  have := splitOn_append c a [] [] [] ha (by simp [splitOn])
  simpa using this

theorem splitOn_sep (c : Char) (b h : Str) (t : List Str) (hb : splitOn c b = h :: t) :
    splitOn c (c :: b) = [] :: h :: t := by
  simp [splitOn, hb]

def testStr : Test → Str
  | .name n => n
  | .star => ['*']
  | .comment => "comment()".toList

/-- characters that cannot disturb the field splitter or `strip` -/
def Plain (f : Str) : Prop := ∀ c ∈ f, c ≠ ',' ∧ c ≠ '"' ∧ isPySpace c = false

theorem comment_chars : "comment()".toList = ['c','o','m','m','e','n','t','(',')'] := by decide

/-- A step whose text form is read back unchanged: element names are non-empty, are not `*` or
`comment()` and contain no `/` or `[`. -/
def StepOK (s : Step) : Prop :=
  match s.test with
  | .name n => n ≠ [] ∧ n ≠ ['*'] ∧ n ≠ "comment()".toList ∧ (∀ c ∈ n, c ≠ '/' ∧ c ≠ '[') ∧ Plain n
  | _ => True

theorem testStr_ok (s : Step) (h : StepOK s) :
    testStr s.test ≠ [] ∧ (∀ c ∈ testStr s.test, c ≠ '/' ∧ c ≠ '[') ∧ parseTest (testStr s.test) = s.test := by
  unfold StepOK at h
  cases ht : s.test with
  | name n =>
    rw [ht] at h
    obtain ⟨h1, h2, h3, h4, _⟩ := h
    refine ⟨h1, h4, ?_⟩
    show parseTest n = Test.name n
    unfold parseTest
    rw [if_neg h2, if_neg h3]
  | star =>
    refine ⟨?_, ?_, ?_⟩
    · show ['*'] ≠ []; simp
    · show ∀ c ∈ ['*'], c ≠ '/' ∧ c ≠ '['
      intro c hc
      simp only [List.mem_cons, List.not_mem_nil, or_false] at hc
      subst hc; decide
    · show parseTest ['*'] = Test.star
      unfold parseTest
      rw [if_pos rfl]
  | comment =>
    refine ⟨?_, ?_, ?_⟩
    · show "comment()".toList ≠ []; rw [comment_chars]; simp
    · show ∀ c ∈ "comment()".toList, c ≠ '/' ∧ c ≠ '['
      rw [comment_chars]
      intro c hc
      simp only [List.mem_cons, List.not_mem_nil, or_false] at hc
      rcases hc with h|h|h|h|h|h|h|h|h <;> subst h <;> decide
    · show parseTest "comment()".toList = Test.comment
      unfold parseTest
      rw [if_neg (by rw [comment_chars]; simp), if_pos rfl]

theorem print_eq (s : Step) : s.print = match s.idx with
    | none => testStr s.test
    | some k => testStr s.test ++ ['['] ++ natToStr k ++ [']'] := by
  unfold Step.print testStr
  cases s.test <;> rfl

theorem isDigit_ne (c : Char) (h : c.isDigit = true) : c ≠ '[' ∧ c ≠ '/' ∧ c ≠ ']' := by
  simp only [Char.isDigit, Bool.and_eq_true, decide_eq_true_eq] at h
  refine ⟨?_, ?_, ?_⟩ <;> (intro e; subst e; revert h; decide)

theorem parseStep_print (s : Step) (h : StepOK s) : parseStep s.print = some s := by
  obtain ⟨h1, h2, h3⟩ := testStr_ok s h
  rw [print_eq]
  obtain ⟨test, idx⟩ := s
  cases idx with
  | none =>
    simp only
    unfold parseStep
    have : (testStr test).isEmpty = false := by cases hh : testStr test <;> simp_all
    rw [this, splitOn_none '[' _ (fun c hc => (h2 c hc).2)]
    simp [h3]
  | some k =>
    simp only
    unfold parseStep
    have hne : (testStr test ++ ['['] ++ natToStr k ++ [']']).isEmpty = false := by
      cases hh : testStr test <;> simp_all
    have htail : splitOn '[' (natToStr k ++ [']']) = [natToStr k ++ [']']] :=
      splitOn_none '[' _ (by
        intro c hc
        rcases List.mem_append.mp hc with hc | hc
        · exact (isDigit_ne c (natToStr_digits k c hc)).1
        · simp at hc; subst hc; decide)
    have hsp : splitOn '[' (testStr test ++ ['['] ++ natToStr k ++ [']']) = [testStr test, natToStr k ++ [']']] := by
      have e : testStr test ++ ['['] ++ natToStr k ++ [']'] = testStr test ++ ('[' :: (natToStr k ++ [']'])) := by simp
      rw [e, splitOn_append '[' (testStr test) _ [] [natToStr k ++ [']']] (fun c hc => (h2 c hc).2)
        (splitOn_sep '[' _ _ _ htail)]
      simp
    rw [hne, hsp]
    have ht : (testStr test).isEmpty = false := by cases hh : testStr test <;> simp_all
    simp [parseNat?_natToStr, h3, ht]

/-- A path whose text form is read back unchanged. -/
def PathOK (p : Path) : Prop := p ≠ [] ∧ ∀ s ∈ p, StepOK s

theorem print_no_slash (s : Step) (h : StepOK s) : ∀ c ∈ s.print, c ≠ '/' := by
  obtain ⟨_, h2, _⟩ := testStr_ok s h
  rw [print_eq]
  cases s.idx with
  | none => exact fun c hc => (h2 c hc).1
  | some k =>
    intro c hc
    simp only [List.mem_append, List.mem_singleton] at hc
    rcases hc with ((hc | hc) | hc) | hc
    · exact (h2 c hc).1
    · subst hc; decide
    · exact (isDigit_ne c (natToStr_digits k c hc)).2.1
    · subst hc; decide

theorem splitOn_printPath (p : Path) (h : ∀ s ∈ p, StepOK s) :
    splitOn '/' (printPath p) = [] :: p.map Step.print := by
  induction p with
  | nil => simp [printPath, splitOn]
  | cons s rest ih =>
    have e : printPath (s :: rest) = '/' :: (s.print ++ printPath rest) := by simp [printPath]
    rw [e]
    have := ih (fun x hx => h x (by simp [hx]))
    have h2 := splitOn_append '/' s.print (printPath rest) [] (rest.map Step.print)
      (print_no_slash s (h s (by simp))) this
    rw [splitOn_sep '/' _ _ _ h2]
    simp

theorem mapM_parseStep (p : Path) (h : ∀ s ∈ p, StepOK s) : (p.map Step.print).mapM parseStep = some p := by
  induction p with
  | nil => rfl
  | cons s rest ih =>
    simp [List.mapM_cons, parseStep_print s (h s (by simp)), ih (fun x hx => h x (by simp [hx]))]

theorem parsePath_printPath (p : Path) (h : PathOK p) : parsePath (printPath p) = some p := by
  unfold parsePath
  rw [splitOn_printPath p h.2]
  have : (p.map Step.print).isEmpty = false := by
    cases p with
    | nil => exact absurd rfl h.1
    | cons _ _ => rfl
  simp only [this, Bool.false_eq_true, if_false]
  exact mapM_parseStep p h.2

/-! ### lines -/

theorem splitLinesAux_line (line X cur : Str) (acc : List Str) (h : ∀ c ∈ line, isBreak c = false) :
    splitLinesAux (line ++ X) false cur acc = splitLinesAux X false (line.reverse ++ cur) acc := by
  induction line generalizing cur with
  | nil => rfl
  | cons c rest ih =>
    have hc : isBreak c = false := h c (by simp)
    simp only [List.cons_append, splitLinesAux, Bool.false_and, hc, List.reverse_cons, List.append_assoc,
      Bool.false_eq_true, if_false]
    exact ih _ (fun x hx => h x (by simp [hx]))

theorem splitLinesAux_join (lines : List Str) (acc : List Str)
    (h : ∀ l ∈ lines, l ≠ [] ∧ ∀ c ∈ l, isBreak c = false) :
    splitLinesAux (joinLines lines) false [] acc = acc.reverse ++ lines := by
  induction lines generalizing acc with
  | nil => simp [joinLines, splitLinesAux]
  | cons x rest ih =>
    obtain ⟨hx1, hx2⟩ := h x (by simp)
    cases rest with
    | nil =>
      have := splitLinesAux_line x [] [] acc hx2
      simp only [List.append_nil] at this
      simp only [joinLines, this, splitLinesAux]
      have : x.reverse.isEmpty = false := by cases x <;> simp_all
      simp [this]
    | cons y rest' =>
      have e : joinLines (x :: y :: rest') = x ++ ('\n' :: joinLines (y :: rest')) := by simp [joinLines]
      rw [e, splitLinesAux_line x _ [] acc hx2]
      have hb : isBreak '\n' = true := by decide
      simp only [splitLinesAux, Bool.false_and, hb, List.append_nil, List.reverse_reverse]
      have hd : ('\n' = '\r') = False := by decide
      simp only [hd, decide_false]
      rw [ih (x :: acc) (fun l hl => h l (by simp [hl]))]
      simp

theorem splitLines_joinLines (lines : List Str) (h : ∀ l ∈ lines, l ≠ [] ∧ ∀ c ∈ l, isBreak c = false) :
    splitLines (joinLines lines) = lines := by
  unfold splitLines
  rw [splitLinesAux_join lines [] h]
  simp

/-! ### fields -/

/-- a field of an action line: a plain one or a dumped JSON value -/
def FieldOK (f : Str) : Prop := Plain f ∨ ∃ v, f = jsonDump v

theorem sfa_plain (f rest field : Str) (fields : List Str) (h : ∀ c ∈ f, c ≠ ',' ∧ c ≠ '"') :
    splitFieldsAux (f ++ rest) false false field fields = splitFieldsAux rest false false (f.reverse ++ field) fields := by
  induction f generalizing field with
  | nil => rfl
  | cons c cs ih =>
    obtain ⟨h1, h2⟩ := h c (by simp)
    simp only [List.cons_append, splitFieldsAux, Bool.false_eq_true, if_false, h1, h2, decide_false]
    rw [ih _ (fun x hx => h x (by simp [hx]))]
    simp

/-- inside a string literal: characters other than the quote and the backslash are kept -/
theorem sfa_in_plain (f rest field : Str) (fields : List Str) (h : ∀ c ∈ f, c ≠ '\\' ∧ c ≠ '"') :
    splitFieldsAux (f ++ rest) true false field fields = splitFieldsAux rest true false (f.reverse ++ field) fields := by
  induction f generalizing field with
  | nil => rfl
  | cons c cs ih =>
    obtain ⟨h1, h2⟩ := h c (by simp)
    simp only [List.cons_append, splitFieldsAux, if_true, Bool.false_eq_true, if_false, h1, h2]
    rw [ih _ (fun x hx => h x (by simp [hx]))]
    simp

/-- inside a string literal: a backslash and the character after it are kept -/
theorem sfa_in_esc (e : Char) (rest field : Str) (fields : List Str) :
    splitFieldsAux ('\\' :: e :: rest) true false field fields = splitFieldsAux rest true false (e :: '\\' :: field) fields := by
  simp [splitFieldsAux]

theorem hexDigit_plain : ∀ d : Fin 16, hexDigit d.val ≠ '\\' ∧ hexDigit d.val ≠ '"' := by decide

theorem sfa_u4 (n : Nat) (rest field : Str) (fields : List Str) :
    splitFieldsAux (u4 n ++ rest) true false field fields = splitFieldsAux rest true false ((u4 n).reverse ++ field) fields := by
  unfold u4
  have h1 := hexDigit_plain ⟨n / 4096 % 16, Nat.mod_lt _ (by decide)⟩
  have h2 := hexDigit_plain ⟨n / 256 % 16, Nat.mod_lt _ (by decide)⟩
  have h3 := hexDigit_plain ⟨n / 16 % 16, Nat.mod_lt _ (by decide)⟩
  have h4 := hexDigit_plain ⟨n % 16, Nat.mod_lt _ (by decide)⟩
  simp only at h1 h2 h3 h4
  simp only [List.cons_append, List.nil_append]
  rw [sfa_in_esc]
  have := sfa_in_plain [hexDigit (n / 4096 % 16), hexDigit (n / 256 % 16), hexDigit (n / 16 % 16), hexDigit (n % 16)]
    rest ('u' :: '\\' :: field) fields (by
      intro c hc
      simp only [List.mem_cons, List.not_mem_nil, or_false] at hc
      rcases hc with h | h | h | h <;> subst h <;> assumption)
  simp only [List.cons_append, List.nil_append] at this
  rw [this]
  simp

theorem sfa_escChar (c : Char) (rest field : Str) (fields : List Str) :
    splitFieldsAux (escChar c ++ rest) true false field fields =
      splitFieldsAux rest true false ((escChar c).reverse ++ field) fields := by
  unfold escChar
  split
  · simp [sfa_in_esc]
  · split
    · simp [sfa_in_esc]
    · split
      · simp [sfa_in_esc]
      · split
        · simp [sfa_in_esc]
        · split
          · simp [sfa_in_esc]
          · split
            · simp [sfa_in_esc]
            · split
              · simp [sfa_in_esc]
              · split
                · next h1 h2 _ _ _ _ _ _ =>
                  have := sfa_in_plain [c] rest field fields (by
                    intro x hx; simp at hx; subst hx; exact ⟨h2, h1⟩)
                  simpa using this
                · split
                  · exact sfa_u4 _ _ _ _
                  · dsimp only
                    rw [List.append_assoc, sfa_u4, sfa_u4]
                    simp

theorem sfa_body (s rest field : Str) (fields : List Str) :
    splitFieldsAux (s.flatMap escChar ++ rest) true false field fields =
      splitFieldsAux rest true false ((s.flatMap escChar).reverse ++ field) fields := by
  induction s generalizing field with
  | nil => rfl
  | cons c cs ih =>
    simp only [List.flatMap_cons, List.append_assoc]
    rw [sfa_escChar, ih]
    simp

theorem null_chars : "null".toList = ['n', 'u', 'l', 'l'] := by decide

/-- one whole field is consumed and the splitter is outside any string literal again -/
theorem sfa_field (f rest field : Str) (fields : List Str) (h : FieldOK f) :
    splitFieldsAux (f ++ rest) false false field fields = splitFieldsAux rest false false (f.reverse ++ field) fields := by
  rcases h with h | ⟨v, hv⟩
  · exact sfa_plain f rest field fields (fun c hc => ⟨(h c hc).1, (h c hc).2.1⟩)
  · subst hv
    cases v with
    | none =>
      show splitFieldsAux ("null".toList ++ rest) false false field fields = _
      rw [show jsonDump none = "null".toList from rfl, null_chars]
      simp [splitFieldsAux]
    | some s =>
      show splitFieldsAux (('"' :: (s.flatMap escChar ++ ['"'])) ++ rest) false false field fields = _
      simp only [List.cons_append, List.append_assoc, splitFieldsAux, Bool.false_eq_true, if_false]
      have hq : ('"' = ',') = False := by decide
      simp only [hq, if_false, decide_true]
      rw [sfa_body]
      simp [splitFieldsAux, jsonDump]

/-- the fields come back, all but the first with the blank that followed the comma -/
theorem sfa_join (fs : List Str) (f0 field : Str) (fields : List Str) (h0 : FieldOK f0) (h : ∀ f ∈ fs, FieldOK f) :
    splitFieldsAux (joinSep (f0 :: fs)) false false field fields =
      fields.reverse ++ (field.reverse ++ f0) :: fs.map (fun f => ' ' :: f) := by
  induction fs generalizing f0 field fields with
  | nil =>
    have := sfa_field f0 [] field fields h0
    simp only [List.append_nil] at this
    simp [joinSep, this, splitFieldsAux]
  | cons f1 rest ih =>
    have e : joinSep (f0 :: f1 :: rest) = f0 ++ (',' :: ' ' :: joinSep (f1 :: rest)) := by simp [joinSep, sep]
    rw [e, sfa_field f0 _ field fields h0]
    have hs : (' ' = ',') = False := by decide
    have hq : (' ' = '"') = False := by decide
    simp only [splitFieldsAux, Bool.false_eq_true, if_false, if_true, hs, hq, decide_false]
    rw [ih f1 [' '] _ (h f1 (by simp)) (fun f hf => h f (by simp [hf]))]
    simp

theorem splitFields_join (f0 : Str) (fs : List Str) (h0 : FieldOK f0) (h : ∀ f ∈ fs, FieldOK f) :
    splitFields (joinSep (f0 :: fs)) = f0 :: fs.map (fun f => ' ' :: f) := by
  unfold splitFields
  rw [sfa_join fs f0 [] [] h0 h]
  simp

/-! ### strip -/

/-- no white space at either end -/
def Trim (f : Str) : Prop := (∀ c, f.head? = some c → isPySpace c = false) ∧ (∀ c, f.getLast? = some c → isPySpace c = false)

theorem dropWhile_trim (f : Str) (h : ∀ c, f.head? = some c → isPySpace c = false) : f.dropWhile isPySpace = f := by
  cases f with
  | nil => rfl
  | cons c cs => simp [List.dropWhile, h c rfl]

theorem strip_trim (f : Str) (h : Trim f) : strip f = f := by
  unfold strip
  rw [dropWhile_trim f h.1, dropWhile_trim f.reverse (by
    intro c hc
    rw [List.head?_reverse] at hc
    exact h.2 c hc)]
  simp

theorem strip_blank (f : Str) (h : Trim f) : strip (' ' :: f) = f := by
  have hsp : isPySpace ' ' = true := by decide
  cases f with
  | nil => simp [strip, List.dropWhile, hsp]
  | cons c cs =>
    unfold strip
    have h1 : (' ' :: c :: cs).dropWhile isPySpace = c :: cs := by
      simp [List.dropWhile, hsp, h.1 c rfl]
    rw [h1, dropWhile_trim (c :: cs).reverse (by
      intro x hx
      rw [List.head?_reverse] at hx
      exact h.2 x hx)]
    simp

theorem plain_trim (f : Str) (h : Plain f) : Trim f := by
  constructor
  · intro c hc
    cases f with
    | nil => cases hc
    | cons x xs => simp at hc; subst hc; exact (h x (by simp)).2.2
  · intro c hc
    exact (h c (List.mem_of_getLast? hc)).2.2

theorem jsonDump_trim (v : Option Str) : Trim (jsonDump v) := by
  cases v with
  | none =>
    show Trim "null".toList
    rw [null_chars]
    constructor <;> (intro c hc; simp at hc; subst hc; decide)
  | some s =>
    show Trim ('"' :: (s.flatMap escChar ++ ['"']))
    constructor
    · intro c hc; simp at hc; subst hc; decide
    · intro c hc
      have : ('"' :: (s.flatMap escChar ++ ['"'])).getLast? = some '"' := by
        rw [show ('"' :: (s.flatMap escChar ++ ['"'])) = ('"' :: s.flatMap escChar) ++ ['"'] by simp]
        exact List.getLast?_concat
      rw [this] at hc
      injection hc with hc; subst hc; decide

theorem fieldOK_trim (f : Str) (h : FieldOK f) : Trim f := by
  rcases h with h | ⟨v, hv⟩
  · exact plain_trim f h
  · subst hv; exact jsonDump_trim v

/-- the parameters of an action line as `make_action` sees them -/
theorem fields_roundtrip (f0 : Str) (fs : List Str) (h0 : FieldOK f0) (h : ∀ f ∈ fs, FieldOK f) :
    (splitFields (joinSep (f0 :: fs))).map strip = f0 :: fs := by
  rw [splitFields_join f0 fs h0 h]
  simp only [List.map_cons, List.map_map]
  rw [strip_trim f0 (fieldOK_trim f0 h0)]
  congr 1
  have : ∀ (l : List Str), (∀ f ∈ l, FieldOK f) → l.map (strip ∘ fun f => ' ' :: f) = l := by
    intro l hl
    induction l with
    | nil => rfl
    | cons x xs ih =>
      have e1 : (strip ∘ fun f => ' ' :: f) x = x := strip_blank x (fieldOK_trim x (hl x (by simp)))
      rw [List.map_cons, e1, ih (fun f hf => hl f (by simp [hf]))]
  exact this fs h

/-! ### one action line -/

def plainB (f : Str) : Bool := f.all (fun c => c != ',' && c != '"' && !isPySpace c)

theorem plain_of_plainB (f : Str) (h : plainB f = true) : Plain f := by
  intro c hc
  unfold plainB at h
  rw [List.all_eq_true] at h
  have := h c hc
  simp only [Bool.and_eq_true, bne_iff_ne, ne_eq, Bool.not_eq_true'] at this
  exact ⟨this.1.1, this.1.2, this.2⟩

theorem plain_append {a b : Str} (ha : Plain a) (hb : Plain b) : Plain (a ++ b) := by
  intro c hc
  rcases List.mem_append.mp hc with h | h
  · exact ha c h
  · exact hb c h

theorem plain_digits (k : Nat) : Plain (natToStr k) := by
  intro c hc
  have hd := Char.isDigit_iff_toNat.mp (natToStr_digits k c hc)
  have z0 : '0'.toNat = 48 := by decide
  have z9 : '9'.toNat = 57 := by decide
  rw [z0, z9] at hd
  refine ⟨?_, ?_, ?_⟩
  · intro e; subst e; revert hd; decide
  · intro e; subst e; revert hd; decide
  · have h1 : 48 ≤ c.toNat := hd.1
    have h2 : c.toNat ≤ 57 := hd.2
    simp only [isPySpace]
    simp only [Bool.or_eq_false_iff, Bool.and_eq_false_iff, decide_eq_false_iff_not]
    omega

theorem plain_testStr (s : Step) (h : StepOK s) : Plain (testStr s.test) := by
  unfold StepOK at h
  cases ht : s.test with
  | name n => rw [ht] at h; exact h.2.2.2.2
  | star => exact plain_of_plainB _ (by decide)
  | comment => show Plain "comment()".toList; rw [comment_chars]; exact plain_of_plainB _ (by decide)

theorem plain_print (s : Step) (h : StepOK s) : Plain s.print := by
  rw [print_eq]
  cases s.idx with
  | none => exact plain_testStr s h
  | some k =>
    exact plain_append (plain_append (plain_append (plain_testStr s h) (plain_of_plainB _ (by decide)))
      (plain_digits k)) (plain_of_plainB _ (by decide))

theorem plain_printPath (p : Path) (h : ∀ s ∈ p, StepOK s) : Plain (printPath p) := by
  induction p with
  | nil => intro c hc; cases hc
  | cons s rest ih =>
    have e : printPath (s :: rest) = ['/'] ++ s.print ++ printPath rest := by simp [printPath]
    rw [e]
    exact plain_append (plain_append (plain_of_plainB _ (by decide)) (plain_print s (h s (by simp))))
      (ih (fun x hx => h x (by simp [hx])))

/-- An action whose line is read back unchanged: node paths as `PathOK`; tags, attribute names, prefixes and URIs
contain no comma, no double quote and no white space (true of every XML name; a namespace URI could contain a
comma - the code then fails to parse its own output, which is outside the modelled domain). -/
def ActionOK : Action → Prop
  | .deleteNode n => PathOK n
  | .insertNode t g _ => PathOK t ∧ Plain g
  | .renameNode n g => PathOK n ∧ Plain g
  | .moveNode n t _ => PathOK n ∧ PathOK t
  | .updateTextIn n _ => PathOK n
  | .updateTextAfter n _ => PathOK n
  | .updateAttrib n k _ => PathOK n ∧ Plain k
  | .deleteAttrib n k => PathOK n ∧ Plain k
  | .insertAttrib n k _ => PathOK n ∧ Plain k
  | .renameAttrib n a b => PathOK n ∧ Plain a ∧ Plain b
  | .insertComment t _ _ => PathOK t
  | .insertNamespace p u => Plain p ∧ Plain u
  | .deleteNamespace p => Plain p

theorem fp (p : Path) (h : PathOK p) : FieldOK (printPath p) := Or.inl (plain_printPath p h.2)
theorem fn (k : Nat) : FieldOK (natToStr k) := Or.inl (plain_digits k)
theorem fj (v : Option Str) : FieldOK (jsonDump v) := Or.inr ⟨v, rfl⟩

theorem makeAction_of_fields (f0 : Str) (fs : List Str) (h0 : FieldOK f0) (h : ∀ f ∈ fs, FieldOK f) :
    makeAction ('[' :: (joinSep (f0 :: fs) ++ [']'])) = dispatch f0 fs := by
  unfold makeAction
  simp only [List.drop_succ_cons, List.drop_zero, List.dropLast_concat]
  rw [fields_roundtrip f0 fs h0 h]

theorem plain_lit (f : Str) (h : plainB f = true) : FieldOK f := Or.inl (plain_of_plainB f h)

theorem parseNode_print (p : Path) (h : PathOK p) : parseNode (printPath p) = .ok p := by
  simp [parseNode, parsePath_printPath p h]

theorem parsePos_print (k : Nat) : parsePos (natToStr k) = .ok k := by
  simp [parsePos, parseNat?_natToStr]

theorem parseJson_dump (v : Option Str) : parseJson (jsonDump v) = .ok v := by
  simp [parseJson, jsonLoad_jsonDump]

/-- `make_action` reads back the line `DiffFormatter` writes for an action. -/
theorem makeAction_formatAction (a : Action) (h : ActionOK a) : makeAction (formatAction a) = .ok a := by
  unfold formatAction
  cases a with
  | deleteNode n =>
    rw [show actionFields (.deleteNode n) = ["delete".toList, printPath n] from rfl,
      makeAction_of_fields _ _ (plain_lit _ (by decide)) (by
        intro f hf; simp at hf; subst hf; exact fp n h)]
    simp [dispatch, parseNode_print n h]; rfl
  | insertNode t g p =>
    rw [show actionFields (.insertNode t g p) = ["insert".toList, printPath t, g, natToStr p] from rfl,
      makeAction_of_fields _ _ (plain_lit _ (by decide)) (by
        intro f hf; simp at hf
        rcases hf with hf | hf | hf <;> subst hf
        · exact fp t h.1
        · exact Or.inl h.2
        · exact fn p)]
    simp [dispatch, parseNode_print t h.1, parsePos_print]; rfl
  | renameNode n g =>
    rw [show actionFields (.renameNode n g) = ["rename".toList, printPath n, g] from rfl,
      makeAction_of_fields _ _ (plain_lit _ (by decide)) (by
        intro f hf; simp at hf
        rcases hf with hf | hf <;> subst hf
        · exact fp n h.1
        · exact Or.inl h.2)]
    simp [dispatch, parseNode_print n h.1]; rfl
  | moveNode n t p =>
    rw [show actionFields (.moveNode n t p) = ["move".toList, printPath n, printPath t, natToStr p] from rfl,
      makeAction_of_fields _ _ (plain_lit _ (by decide)) (by
        intro f hf; simp at hf
        rcases hf with hf | hf | hf <;> subst hf
        · exact fp n h.1
        · exact fp t h.2
        · exact fn p)]
    simp [dispatch, parseNode_print n h.1, parseNode_print t h.2, parsePos_print]; rfl
  | updateTextIn n t =>
    rw [show actionFields (.updateTextIn n t) = ["update-text".toList, printPath n, jsonDump t] from rfl,
      makeAction_of_fields _ _ (plain_lit _ (by decide)) (by
        intro f hf; simp at hf
        rcases hf with hf | hf <;> subst hf
        · exact fp n h
        · exact fj t)]
    simp [dispatch, parseNode_print n h, parseJson_dump]; rfl
  | updateTextAfter n t =>
    rw [show actionFields (.updateTextAfter n t) = ["update-text-after".toList, printPath n, jsonDump t] from rfl,
      makeAction_of_fields _ _ (plain_lit _ (by decide)) (by
        intro f hf; simp at hf
        rcases hf with hf | hf <;> subst hf
        · exact fp n h
        · exact fj t)]
    simp [dispatch, parseNode_print n h, parseJson_dump]; rfl
  | updateAttrib n k v =>
    rw [show actionFields (.updateAttrib n k v) = ["update-attribute".toList, printPath n, k, jsonDump (some v)] from rfl,
      makeAction_of_fields _ _ (plain_lit _ (by decide)) (by
        intro f hf; simp at hf
        rcases hf with hf | hf | hf <;> subst hf
        · exact fp n h.1
        · exact Or.inl h.2
        · exact fj (some v))]
    simp [dispatch, parseNode_print n h.1, parseJson_dump]; rfl
  | deleteAttrib n k =>
    rw [show actionFields (.deleteAttrib n k) = ["delete-attribute".toList, printPath n, k] from rfl,
      makeAction_of_fields _ _ (plain_lit _ (by decide)) (by
        intro f hf; simp at hf
        rcases hf with hf | hf <;> subst hf
        · exact fp n h.1
        · exact Or.inl h.2)]
    simp [dispatch, parseNode_print n h.1]; rfl
  | insertAttrib n k v =>
    rw [show actionFields (.insertAttrib n k v) = ["insert-attribute".toList, printPath n, k, jsonDump (some v)] from rfl,
      makeAction_of_fields _ _ (plain_lit _ (by decide)) (by
        intro f hf; simp at hf
        rcases hf with hf | hf | hf <;> subst hf
        · exact fp n h.1
        · exact Or.inl h.2
        · exact fj (some v))]
    simp [dispatch, parseNode_print n h.1, parseJson_dump]; rfl
  | renameAttrib n a b =>
    rw [show actionFields (.renameAttrib n a b) = ["rename-attribute".toList, printPath n, a, b] from rfl,
      makeAction_of_fields _ _ (plain_lit _ (by decide)) (by
        intro f hf; simp at hf
        rcases hf with hf | hf | hf <;> subst hf
        · exact fp n h.1
        · exact Or.inl h.2.1
        · exact Or.inl h.2.2)]
    simp [dispatch, parseNode_print n h.1]; rfl
  | insertComment t p x =>
    rw [show actionFields (.insertComment t p x) = ["insert-comment".toList, printPath t, natToStr p, jsonDump x] from rfl,
      makeAction_of_fields _ _ (plain_lit _ (by decide)) (by
        intro f hf; simp at hf
        rcases hf with hf | hf | hf <;> subst hf
        · exact fp t h
        · exact fn p
        · exact fj x)]
    simp [dispatch, parseNode_print t h, parsePos_print, parseJson_dump]; rfl
  | insertNamespace p u =>
    rw [show actionFields (.insertNamespace p u) = ["insert-namespace".toList, p, u] from rfl,
      makeAction_of_fields _ _ (plain_lit _ (by decide)) (by
        intro f hf; simp at hf
        rcases hf with hf | hf <;> subst hf
        · exact Or.inl h.1
        · exact Or.inl h.2)]
    simp [dispatch]; rfl
  | deleteNamespace p =>
    rw [show actionFields (.deleteNamespace p) = ["delete-namespace".toList, p] from rfl,
      makeAction_of_fields _ _ (plain_lit _ (by decide)) (by
        intro f hf; simp at hf; subst hf; exact Or.inl h)]
    simp [dispatch]; rfl

/-! ### the whole script -/

theorem actionFields_ok (a : Action) (h : ActionOK a) : ∀ f ∈ actionFields a, FieldOK f := by
  intro f hf
  cases a <;> simp only [actionFields, List.mem_cons, List.not_mem_nil, or_false] at hf
  case deleteNode n => rcases hf with hf | hf <;> subst hf; exact plain_lit _ (by decide); exact fp n h
  case insertNode t g p =>
    rcases hf with hf | hf | hf | hf <;> subst hf
    exact plain_lit _ (by decide); exact fp t h.1; exact Or.inl h.2; exact fn p
  case renameNode n g =>
    rcases hf with hf | hf | hf <;> subst hf
    exact plain_lit _ (by decide); exact fp n h.1; exact Or.inl h.2
  case moveNode n t p =>
    rcases hf with hf | hf | hf | hf <;> subst hf
    exact plain_lit _ (by decide); exact fp n h.1; exact fp t h.2; exact fn p
  case updateTextIn n t =>
    rcases hf with hf | hf | hf <;> subst hf
    exact plain_lit _ (by decide); exact fp n h; exact fj t
  case updateTextAfter n t =>
    rcases hf with hf | hf | hf <;> subst hf
    exact plain_lit _ (by decide); exact fp n h; exact fj t
  case updateAttrib n k v =>
    rcases hf with hf | hf | hf | hf <;> subst hf
    exact plain_lit _ (by decide); exact fp n h.1; exact Or.inl h.2; exact fj _
  case deleteAttrib n k =>
    rcases hf with hf | hf | hf <;> subst hf
    exact plain_lit _ (by decide); exact fp n h.1; exact Or.inl h.2
  case insertAttrib n k v =>
    rcases hf with hf | hf | hf | hf <;> subst hf
    exact plain_lit _ (by decide); exact fp n h.1; exact Or.inl h.2; exact fj _
  case renameAttrib n a b =>
    rcases hf with hf | hf | hf | hf <;> subst hf
    exact plain_lit _ (by decide); exact fp n h.1; exact Or.inl h.2.1; exact Or.inl h.2.2
  case insertComment t p x =>
    rcases hf with hf | hf | hf | hf <;> subst hf
    exact plain_lit _ (by decide); exact fp t h; exact fn p; exact fj x
  case insertNamespace p u =>
    rcases hf with hf | hf | hf <;> subst hf
    exact plain_lit _ (by decide); exact Or.inl h.1; exact Or.inl h.2
  case deleteNamespace p =>
    rcases hf with hf | hf <;> subst hf
    exact plain_lit _ (by decide); exact Or.inl h

theorem break_is_space (c : Char) (h : isPySpace c = false) : isBreak c = false := by
  simp only [isPySpace, Bool.or_eq_false_iff, Bool.and_eq_false_iff, decide_eq_false_iff_not] at h
  simp only [isBreak, Bool.or_eq_false_iff, decide_eq_false_iff_not]
  have e : c = Char.ofNat c.toNat := (Char.ofNat_toNat c).symm
  refine ⟨⟨⟨⟨⟨⟨⟨⟨⟨?_, ?_⟩, ?_⟩, ?_⟩, ?_⟩, ?_⟩, ?_⟩, ?_⟩, ?_⟩, ?_⟩
  · intro hc; subst hc; revert h; decide
  · intro hc; subst hc; revert h; decide
  all_goals omega

theorem field_no_break (f : Str) (h : FieldOK f) : ∀ c ∈ f, isBreak c = false := by
  rcases h with h | ⟨v, hv⟩
  · intro c hc; exact break_is_space c (h c hc).2.2
  · subst hv
    intro c hc
    obtain ⟨h1, h2⟩ := jsonDump_printable v c hc
    simp only [isBreak, Bool.or_eq_false_iff, decide_eq_false_iff_not]
    refine ⟨⟨⟨⟨⟨⟨⟨⟨⟨?_, ?_⟩, ?_⟩, ?_⟩, ?_⟩, ?_⟩, ?_⟩, ?_⟩, ?_⟩, ?_⟩
    · intro e; rw [e] at h1; exact absurd h1 (by decide)
    · intro e; rw [e] at h1; exact absurd h1 (by decide)
    all_goals omega

theorem joinSep_no_break (fs : List Str) (h : ∀ f ∈ fs, ∀ c ∈ f, isBreak c = false) :
    ∀ c ∈ joinSep fs, isBreak c = false := by
  induction fs with
  | nil => intro c hc; cases hc
  | cons f rest ih =>
    cases rest with
    | nil => simpa [joinSep] using h f (by simp)
    | cons g rest' =>
      intro c hc
      have e : joinSep (f :: g :: rest') = f ++ sep ++ joinSep (g :: rest') := rfl
      rw [e] at hc
      simp only [List.mem_append] at hc
      rcases hc with (hc | hc) | hc
      · exact h f (by simp) c hc
      · simp only [sep, List.mem_cons, List.not_mem_nil, or_false] at hc
        rcases hc with hc | hc <;> subst hc <;> decide
      · exact ih (fun x hx => h x (by simp [hx])) c hc

theorem formatAction_line (a : Action) (h : ActionOK a) :
    formatAction a ≠ [] ∧ ∀ c ∈ formatAction a, isBreak c = false := by
  constructor
  · simp [formatAction]
  · intro c hc
    simp only [formatAction, List.mem_cons, List.mem_append, List.not_mem_nil, or_false] at hc
    rcases hc with hc | hc | hc
    · subst hc; decide
    · exact joinSep_no_break _ (fun f hf => field_no_break f (actionFields_ok a h f hf)) c hc
    · subst hc; decide

theorem parseLines_format (as : List Action) (acc : List Action) (h : ∀ a ∈ as, ActionOK a) :
    parseLines (as.map formatAction) [] acc = .ok (acc.reverse ++ as) := by
  induction as generalizing acc with
  | nil => simp [parseLines]
  | cons a rest ih =>
    have hm := makeAction_formatAction a (h a (by simp))
    simp only [List.map_cons, parseLines, List.nil_append]
    have hl : (formatAction a).getLast? = some ']' := by
      rw [show formatAction a = ('[' :: joinSep (actionFields a)) ++ [']'] by simp [formatAction]]
      exact List.getLast?_concat
    rw [show formatAction a = '[' :: (joinSep (actionFields a) ++ [']']) from rfl] at hm hl ⊢
    simp only [ne_eq, not_true_eq_false, if_false, hl, hm]
    rw [ih (a :: acc) (fun x hx => h x (by simp [hx]))]
    simp

theorem pathOK_nonempty (a : Action) (h : ActionOK a) : a.paths.any List.isEmpty = false := by
  have ne : ∀ p : Path, PathOK p → p.isEmpty = false := by
    intro p hp
    cases p with
    | nil => exact absurd rfl hp.1
    | cons _ _ => rfl
  cases a <;> simp only [Action.paths, List.any_cons, List.any_nil, Bool.or_false]
  case deleteNode n => exact ne n h
  case insertNode t g p => exact ne t h.1
  case renameNode n g => exact ne n h.1
  case moveNode n t p => rw [ne n h.1, ne t h.2]; rfl
  case updateTextIn n t => exact ne n h
  case updateTextAfter n t => exact ne n h
  case updateAttrib n k v => exact ne n h.1
  case deleteAttrib n k => exact ne n h.1
  case insertAttrib n k v => exact ne n h.1
  case renameAttrib n a b => exact ne n h.1
  case insertComment t p x => exact ne t h

/-- `DiffParser.parse` reads back exactly the actions `DiffFormatter.format` wrote. -/
theorem parseScript_formatScript (as : List Action) (h : ∀ a ∈ as, ActionOK a) :
    parseScript (formatScript as) = .ok as := by
  unfold parseScript formatScript
  rw [splitLines_joinLines _ (by
    intro l hl
    obtain ⟨a, ha, rfl⟩ := List.mem_map.mp hl
    exact formatAction_line a (h a ha))]
  rw [parseLines_format as [] h]
  have : as.any (fun a => a.paths.any List.isEmpty) = false := by
    rw [List.any_eq_false]
    intro a ha
    simp [pathOK_nonempty a (h a ha)]
  simp [this]

/-! ### the guards are decidable -/

instance (f : Str) : Decidable (Plain f) := by unfold Plain; infer_instance

instance (s : Step) : Decidable (StepOK s) := by
  unfold StepOK
  cases s.test <;> simp only <;> infer_instance

instance (p : Path) : Decidable (PathOK p) := by unfold PathOK; infer_instance

instance (a : Action) : Decidable (ActionOK a) := by
  cases a <;> simp only [ActionOK] <;> infer_instance

end TF
end XmlDiffModel
