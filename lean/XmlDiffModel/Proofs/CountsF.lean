/-
Counting with one arbitrary counter that is blind to everything but attribute actions: the steps of a visit other than
`update_node_attr` add nothing to it.  (As `Counts.lean`: purely about the `out` component.)  With
`updateAttrs_mentions`: one visit names an attribute in at most one action.
-/
import XmlDiffModel.Proofs.Counts
import XmlDiffModel.Proofs.AttrOnce
import XmlDiffModel.Proofs.AttrCount

namespace XmlDiffModel

def GrowsF (f : Action → Bool) (out out' : List Action) (n : Nat) : Prop := out'.countP f ≤ out.countP f + n

theorem GrowsF.refl (f : Action → Bool) (out : List Action) : GrowsF f out out 0 := by simp [GrowsF]

theorem GrowsF.trans {f : Action → Bool} {a b c : List Action} {n m : Nat} (h1 : GrowsF f a b n) (h2 : GrowsF f b c m) :
    GrowsF f a c (n + m) := by
  unfold GrowsF at *; omega

theorem GrowsF.mono {f : Action → Bool} {a b : List Action} {n m : Nat} (h : GrowsF f a b n) (h1 : n ≤ m) :
    GrowsF f a b m := by
  unfold GrowsF at *; omega

theorem growsF_cons (f : Action → Bool) (hf : ∀ a, AttrCount.isAttr a = false → f a = false) (out : List Action)
    (a : Action) (ha : AttrCount.isAttr a = false) : GrowsF f out (a :: out) 0 := by
  unfold GrowsF
  simp [List.countP_cons, hf a ha]

theorem updateText_growsF (f : Action → Bool) (hf : ∀ a, AttrCount.isAttr a = false → f a = false) (qn : QName) (l : Nat) (x : Payload) (s s' : DState)
    (h : updateText qn l x s = .ok s') : GrowsF f s.out s'.out 0 := by
  unfold updateText at h
  split at h
  · cases h
  · next ln hln =>
    simp only [bind, Except.bind] at h
    split at h
    · cases h
    · next path hpath =>
      simp only [Except.ok.injEq] at h
      subst h
      unfold tailStep textStep
      by_cases h1 : ln.payload.text ≠ x.text <;> by_cases h2 : ln.payload.tail ≠ x.tail
      · rw [if_pos h1, if_pos h2]
        have a := growsF_cons f hf s.out (.updateTextIn path x.text) rfl
        have b := growsF_cons f hf (.updateTextIn path x.text :: s.out) (.updateTextAfter path x.tail) rfl
        exact (a.trans b).mono (by simp)
      · rw [if_pos h1, if_neg h2]
        exact growsF_cons f hf s.out (.updateTextIn path x.text) rfl
      · rw [if_neg h1, if_pos h2]
        exact growsF_cons f hf s.out (.updateTextAfter path x.tail) rfl
      · rw [if_neg h1, if_neg h2]
        exact GrowsF.refl f s.out

theorem renameStep_growsF (f : Action → Bool) (hf : ∀ a, AttrCount.isAttr a = false → f a = false) (qn : QName) (l : Nat) (x : Payload) (s s' : DState)
    (h : renameStep qn l x s = .ok s') : GrowsF f s.out s'.out 0 := by
  unfold renameStep at h
  split at h
  · cases h
  · split at h
    · simp only [bind, Except.bind] at h
      split at h
      · cases h
      · next path hpath =>
        simp only [pure, Except.pure, Except.ok.injEq] at h
        subst h
        exact growsF_cons f hf s.out (.renameNode path x.tag) rfl
    · simp only [pure, Except.pure, Except.ok.injEq] at h
      subst h
      exact GrowsF.refl f s.out

theorem insertStep_growsF (f : Action → Bool) (hf : ∀ a, AttrCount.isAttr a = false → f a = false) (qn : QName) (R x : Tree) (lt : Option Nat) (s s' : DState) (l : Nat)
    (h : insertStep qn R x lt s = .ok (l, s')) : GrowsF f s.out s'.out 0 := by
  cases lt with
  | none =>
    simp only [insertStep, bind, Except.bind, throw, throwThe, MonadExceptOf.throw] at h
    split at h <;> cases h
  | some t0 =>
    simp only [insertStep, bind, Except.bind, pure, Except.pure] at h
    split at h
    · cases h
    · split at h
      · cases h
      · next tp htp =>
        cases hk : x.payload.kind <;> simp only [hk, Except.ok.injEq, Prod.mk.injEq] at h <;>
          obtain ⟨_, rfl⟩ := h
        · exact growsF_cons f hf s.out _ rfl
        · exact growsF_cons f hf s.out _ rfl

theorem moveStep_growsF (f : Action → Bool) (hf : ∀ a, AttrCount.isAttr a = false → f a = false) (qn : QName) (R x : Tree) (l : Nat) (lt : Option Nat) (s s' : DState)
    (h : moveStep qn R x l lt s = .ok s') : GrowsF f s.out s'.out 0 := by
  unfold moveStep at h
  simp only at h
  split at h
  · cases lt with
    | none =>
      simp only [bind, Except.bind, throw, throwThe, MonadExceptOf.throw] at h
      split at h <;> cases h
    | some tgt =>
      simp only [bind, Except.bind, pure, Except.pure] at h
      split at h
      · cases h
      · split at h
        · simp [throw, throwThe, MonadExceptOf.throw] at h
        · split at h
          · cases h
          · split at h
            · cases h
            · split at h
              · cases h
              · simp only [Except.ok.injEq] at h
                subst h
                exact growsF_cons f hf s.out _ rfl
  · simp only [pure, Except.pure, Except.ok.injEq] at h
    subst h
    exact GrowsF.refl f _

theorem alignMoves_growsF (f : Action → Bool) (hf : ∀ a, AttrCount.isAttr a = false → f a = false) (qn : QName) (R : Tree) (l : Nat) (lcs : List Nat) (s s' : DState)
    (h : alignMoves qn R l lcs s = .ok s') : GrowsF f s.out s'.out 0 := by
  induction lcs generalizing s with
  | nil =>
    simp only [alignMoves, Except.ok.injEq] at h
    subst h; exact GrowsF.refl f _
  | cons lc rest ih =>
    simp only [alignMoves] at h
    split at h
    · exact ih s h
    · split at h
      · cases h
      · next rc hrc =>
        simp only [bind, Except.bind, pure, Except.pure] at h
        split at h
        · cases h
        · cases hrp : Tree.parentOf rc R with
          | none => simp [hrp, throw, throwThe, MonadExceptOf.throw] at h
          | some rp =>
            simp only [hrp] at h
            cases hlt : r2lGet s.ms rp.id with
            | none => simp [hlt, throw, throwThe, MonadExceptOf.throw] at h
            | some lt =>
              simp only [hlt] at h
              split at h
              · cases h
              · split at h
                · cases h
                · split at h
                  · cases h
                  · have h1 := ih _ h
                    exact (GrowsF.trans (growsF_cons f hf s.out _ rfl) h1).mono (by simp)

theorem alignChildren_growsF (f : Action → Bool) (hf : ∀ a, AttrCount.isAttr a = false → f a = false) (qn : QName) (R : Tree) (l : Nat) (x : Tree) (s s' : DState)
    (h : alignChildren qn R l x s = .ok s') : GrowsF f s.out s'.out 0 := by
  unfold alignChildren at h
  split at h
  · cases h
  · simp only at h
    split at h
    · simp only [Except.ok.injEq] at h
      subst h; exact GrowsF.refl f _
    · split at h
      · have := alignMoves_growsF f hf qn R l _ _ s' h
        exact this
      · cases h

theorem visitTail_growsF (f : Action → Bool) (hf : ∀ a, AttrCount.isAttr a = false → f a = false) (qn : QName) (R x : Tree) (l : Nat) (s1 s' : DState)
    (h : visitTail qn R l x s1 = .ok s') : GrowsF f s1.out s'.out 0 := by
  unfold visitTail at h
  simp only [bind, Except.bind] at h
  split at h
  · cases h
  · next s2 hs2 =>
    have a := alignChildren_growsF f hf qn R l x s1 s2 hs2
    split at h
    · next l' hl' =>
      have b := updateText_growsF f hf qn l' x.payload s2 s' h
      exact (a.trans b).mono (by simp)
    · cases h

theorem updateAttrStep_growsF (f : Action → Bool)
    (hu : ∀ ign path las ras out, (keys ras).Nodup → GrowsF f out (updateAttrs ign path las ras out).2 1)
    (qn : QName) (ign : List Str) (l : Nat) (x : Payload) (s s' : DState)
    (hx : (keys x.attrs).Nodup) (h : updateAttrStep qn ign l x s = .ok s') : GrowsF f s.out s'.out 1 := by
  unfold updateAttrStep at h
  split at h
  · cases h
  · next ln hln =>
    simp only [bind, Except.bind] at h
    split at h
    · cases h
    · next path hpath =>
      have := hu ign path ln.payload.attrs x.attrs s.out hx
      generalize updateAttrs ign path ln.payload.attrs x.attrs s.out = res at h this
      obtain ⟨las, out⟩ := res
      simp only [Except.ok.injEq] at h
      subst h
      exact this

theorem visit_growsF (f : Action → Bool) (hf : ∀ a, AttrCount.isAttr a = false → f a = false)
    (hu : ∀ ign path las ras out, (keys ras).Nodup → GrowsF f out (updateAttrs ign path las ras out).2 1)
    (qn : QName) (cfg : Cfg) (R x : Tree) (s s' : DState)
    (hx : (keys x.payload.attrs).Nodup) (h : visit qn cfg R x s = .ok s') : GrowsF f s.out s'.out 1 := by
  unfold visit at h
  simp only [bind, Except.bind] at h
  split at h
  · split at h
    · cases h
    · next v hv =>
      obtain ⟨l, s1⟩ := v
      have a := insertStep_growsF f hf qn R x _ s s1 l hv
      simp only at h
      split at h
      · cases h
      · next s2 hs2 =>
        have b := updateAttrStep_growsF f hu qn cfg.ignored l x.payload s1 s2 hx hs2
        have c := visitTail_growsF f hf qn R x l s2 s' h
        exact ((a.trans b).trans c).mono (by simp)
  · next l hl =>
    split at h
    · cases h
    · next s1 hs1 =>
      have a := moveStep_growsF f hf qn R x l _ s s1 hs1
      split at h
      · cases h
      · next s2 hs2 =>
        have b := renameStep_growsF f hf qn l x.payload s1 s2 hs2
        split at h
        · cases h
        · next s3 hs3 =>
          have c := updateAttrStep_growsF f hu qn cfg.ignored l x.payload s2 s3 hx hs3
          have d := visitTail_growsF f hf qn R x l s3 s' h
          exact (((a.trans b).trans c).trans d).mono (by simp)


/-- **One visit names an attribute in at most one action.** -/
theorem visit_mentions (k : Str) (qn : QName) (cfg : Cfg) (R x : Tree) (s s' : DState)
    (hx : (keys x.payload.attrs).Nodup) (h : visit qn cfg R x s = .ok s') :
    s'.out.countP (mentions k) ≤ s.out.countP (mentions k) + 1 := by
  apply visit_growsF (mentions k) ?_ ?_ qn cfg R x s s' hx h
  · intro a ha
    cases a <;> simp_all [AttrCount.isAttr, mentions]
  · intro ign path las ras out hr
    exact updateAttrs_mentions ign k path las ras out hr

end XmlDiffModel
