/-
The differ does not raise, part 2: one iteration of the main loop, the loop, the delete phase.
-/
import XmlDiffModel.Proofs.Prog

namespace XmlDiffModel
namespace Chw
open Tree

/-- the tail of an iteration (alignment and text updates) succeeds and keeps the ancestor invariant -/
theorem visitTail_total (ign : List Str) (qn : QName) (R : Tree) (hRn : (ids R).Nodup) (x : Tree)
    (hx : find x.id R = some x) (l : Nat) (s : DState) (D : List Nat) (inv : Inv ign R s D D) (anc : AncInv s D)
    (hlx : (l, x.id) ∈ s.ms) (hxD : x.id ∉ D) :
    ∃ s', visitTail qn R l x s = .ok s' ∧ AncInv s' D ∧ s'.ms = s.ms := by
  have hxR : x.id ∈ ids R := (mem_ids_iff_find x.id R).mpr ⟨x, hx⟩
  have invA := inv.weaken (x.id :: D) (fun a ha => List.mem_cons_of_mem _ ha)
  have hkx : (kidIds R x.id).filter (ioB s.inorder) = [] := by
    rw [List.filter_eq_nil_iff]
    intro c hc hcio
    exact inv.unvis x.id hxR hxD c hc ((ioB_iff _ _).mp hcio)
  obtain ⟨s3, hs3⟩ := alignChildren_ok ign qn R hRn x hx l s (x.id :: D) D invA hlx List.mem_cons_self hkx
  obtain ⟨inv3, hms, _, _, _, _⟩ :=
    alignChildren_inv ign qn R hRn x hx l s s3 (x.id :: D) D invA hlx List.mem_cons_self hkx hs3
  -- ancestors after the alignment
  have anc3 : AncInv s3 D := by
    rcases alignChildren_prep ign qn R hRn x hx l s (x.id :: D) D invA hlx List.mem_cons_self hkx with
      ⟨h0, _⟩ | ⟨lch, io', heq, invM, _, mlch⟩
    · rw [h0] at hs3; simp only [Except.ok.injEq] at hs3; rw [← hs3]; exact anc
    · rw [heq] at hs3
      have ancM : AncInv { s with inorder := io' } D := anc.congr (fun _ => rfl) rfl
      exact alignMoves_anc ign qn R hRn l x.id (x.id :: D) D List.mem_cons_self lch _ s3 invM ancM hlx
        (fun c hc => (mlch c).mp hc) hs3
  have hl3 : r2lGet s3.ms x.id = some l := by rw [hms]; exact r2lGet_of_mem s.ms inv.mR l x.id hlx
  have hlW3 : l ∈ ids s3.left := (inv3.mdom _ (hms ▸ hlx)).1
  obtain ⟨s4, hs4⟩ := updateText_ok qn l x.payload s3 hlW3
  have m := updateText_shape qn l x.payload s3 s4 inv3.wf hs4
  refine ⟨s4, ?_, ?_, by rw [m.ms, hms]⟩
  · unfold visitTail
    simp only [bind, Except.bind, hs3, hl3]
    exact hs4
  · exact anc3.congr (fun q => by rw [m.left, kidIds_modify _ _ _ inv3.wf]) m.ms

theorem ModBy.anc {s s' : DState} {D : List Nat} {l : Nat} {f : Payload → Payload} (m : ModBy s s' l f)
    (hn : (ids s.left).Nodup) (anc : AncInv s D) : AncInv s' D :=
  anc.congr (fun q => by rw [m.left, kidIds_modify _ _ _ hn]) m.ms

/-- one iteration of the main loop succeeds (and keeps the ancestor invariant) -/
theorem visit_total (cfg : Cfg) (qn : QName) (R : Tree) (hRn : (ids R).Nodup) (x : Tree)
    (hx : find x.id R = some x) (s : DState) (D : List Nat) (inv : Inv cfg.ignored R s D D) (anc : AncInv s D)
    (hxD : x.id ∉ D) (hparD : x.id = R.id ∨ ∃ py, x.id ∈ kidIds R py ∧ py ∈ D) :
    ∃ s', visit qn cfg R x s = .ok s' ∧ AncInv s' D := by
  have hxR : x.id ∈ ids R := (mem_ids_iff_find x.id R).mpr ⟨x, hx⟩
  have hpar : ∀ py, x.id ∈ kidIds R py → py ∈ D := by
    intro py hk
    rcases hparD with e | ⟨py', hk', hd⟩
    · exfalso
      have := (parId_iff R hRn x.id py).mpr hk
      rw [e, root_no_parent R hRn] at this
      cases this
    · rw [parent_unique R hRn x.id py py' hk hk']; exact hd
  unfold visit
  simp only
  cases hun : r2lGet s.ms x.id with
  | none =>
    simp only [bind, Except.bind]
    -- not the root: the root has a partner
    have hnr : x.id ≠ R.id := by
      intro e
      have := r2lGet_of_mem s.ms inv.mR _ _ inv.mroot
      rw [← e, hun] at this; cases this
    rcases hparD with e | ⟨py, hk, hd⟩
    · exact absurd e hnr
    · obtain ⟨tgt, _, _, htg, _⟩ := inv.vis py hd
      obtain ⟨⟨l, s1⟩, hins⟩ := insertStep_ok cfg.ignored qn R hRn x s D D inv py tgt hk htg
      obtain ⟨inv1, hl1, _, _⟩ := insertStep_inv cfg.ignored qn R hRn x hx s s1 D D inv l hun hxD hpar hins
      obtain ⟨hl, tgt', pos, pl, act, hlt', hs1⟩ := insertStep_shape qn R x _ s s1 l hins
      have hlW : s.next ∉ ids s.left := fun hm => Nat.lt_irrefl _ (inv.freshL _ hm)
      have anc1 : AncInv s1 D := by
        have hpl : Placed s.left s1.left s.next tgt' pos := by
          rw [hs1]
          apply placed_insert s.left inv.wf s.next tgt' pos pl hlW
          obtain ⟨rp, hrp, hid⟩ := parentOf_some_of_kid R hRn x.id py hk
          rw [hrp] at hlt'
          simp only [Option.bind_some, hid, htg, Option.some.injEq] at hlt'
          rw [← hlt']
          exact (inv.mdom _ (r2lGet_mem s.ms py tgt htg)).1
        refine anc.placed hpl ?_ ?_
        · intro c hc
          rw [hs1]
          exact r2lGet_cons_ne s.ms s.next x.id c (fun e => hxD (e ▸ hc))
        · intro p hp lp hlp hd'
          have := desc_absent s.left s.next lp hlW hd'
          exact hlW (this ▸ (inv.mdom _ (r2lGet_mem s.ms p lp hlp)).1)
      have hlx1 : (l, x.id) ∈ s1.ms := r2lGet_mem s1.ms x.id l hl1
      have hlW1 : l ∈ ids s1.left := (inv1.mdom _ hlx1).1
      obtain ⟨s2, hs2⟩ := updateAttrStep_ok qn cfg.ignored l x.payload s1 hlW1
      obtain ⟨ln, path, _, m⟩ := updateAttrStep_shape qn cfg.ignored l x.payload s1 s2 hs2
      have inv2 := m.inv inv1 (fun _ => rfl) x.id hlx1 hxD
      have anc2 := m.anc inv1.wf anc1
      obtain ⟨s', hs', anc', _⟩ := visitTail_total cfg.ignored qn R hRn x hx l s2 D inv2 anc2 (m.ms ▸ hlx1) hxD
      refine ⟨s', ?_, anc'⟩
      simp only [hins, hs2]
      exact hs'
  | some l =>
    simp only [bind, Except.bind]
    have hlx : (l, x.id) ∈ s.ms := r2lGet_mem s.ms x.id l hun
    have hlW : l ∈ ids s.left := (inv.mdom _ hlx).1
    have hpm : x.id = R.id ∨ ∃ py tgt, x.id ∈ kidIds R py ∧ r2lGet s.ms py = some tgt := by
      rcases hparD with e | ⟨py, hk, hd⟩
      · exact Or.inl e
      · obtain ⟨tgt, _, _, htg, _⟩ := inv.vis py hd
        exact Or.inr ⟨py, tgt, hk, htg⟩
    obtain ⟨s1, hs1⟩ := moveStep_ok cfg.ignored qn R hRn x s D D inv l hlx hpm
    -- the partner is still in the tree after the move: the target does not lie below it
    have hkeep : (find l s1.left).isSome = true ∧ AncInv s1 D := by
      rcases moveStep_shape qn R x l _ s s1 inv.wf hs1 with e | ⟨tgt, pos, sub, p1, p2, hlt, hfl, hroot, e⟩
      · rw [e]; exact ⟨find_isSome_of_mem l s.left hlW, anc⟩
      · -- `tgt` is the partner of the (completely visited) parent of `x`
        have htgt : ∃ py, py ∈ D ∧ r2lGet s.ms py = some tgt := by
          cases hrp : R.parentOf x.id with
          | none => rw [hrp] at hlt; cases hlt
          | some rp =>
            rw [hrp] at hlt
            simp only [Option.bind_some] at hlt
            exact ⟨rp.id, hpar rp.id (kid_of_parentOf R hRn x.id rp hrp), hlt⟩
        obtain ⟨py, hpyD, hpytg⟩ := htgt
        have hout : tgt ∉ ids sub := by
          intro hm
          have hd := desc_of_found s.left inv.wf l tgt sub hfl hm
          obtain ⟨z, hz, hzl⟩ := anc py hpyD tgt hpytg l hd
          have h1 := l2rGet_of_mem s.ms inv.mL l z (r2lGet_mem s.ms z l hzl)
          have h2 := l2rGet_of_mem s.ms inv.mL l x.id hlx
          rw [h1] at h2; injection h2 with h2
          exact hxD (h2 ▸ hz)
        have htW : tgt ∈ ids s.left := (inv.mdom _ (r2lGet_mem s.ms py tgt hpytg)).1
        have hmv : MoveOK s.left l tgt sub := ⟨inv.wf, hfl, hroot, htW, hout⟩
        have hpl := placed_move s.left l tgt pos sub hmv
        rw [e]
        refine ⟨?_, ?_⟩
        · exact find_isSome_of_mem l _ ((mem_ids_moved s.left l tgt pos sub hmv l).mpr hlW)
        · exact AncInv.placed (s := s) anc hpl (fun _ _ => rfl)
            (not_desc_of_unvisited cfg.ignored R s D D inv anc l x.id hlx hxD)
    obtain ⟨hfound, anc1⟩ := hkeep
    obtain ⟨inv1, hms1, _, _, _⟩ := moveStep_inv cfg.ignored qn R hRn x hx s s1 D D inv l hun hxD hpar hs1 hfound
    have hlx1 : (l, x.id) ∈ s1.ms := hms1 ▸ hlx
    have hlW1 : l ∈ ids s1.left := (inv1.mdom _ hlx1).1
    obtain ⟨s2, hs2⟩ := renameStep_ok qn l x.payload s1 hlW1
    obtain ⟨_, mren⟩ := renameStep_shape qn l x.payload s1 s2 inv1.wf hs2
    have inv2 := mren.inv inv1 (fun _ => rfl) x.id hlx1 hxD
    have anc2 := mren.anc inv1.wf anc1
    have hlx2 : (l, x.id) ∈ s2.ms := mren.ms ▸ hlx1
    obtain ⟨s3, hs3⟩ := updateAttrStep_ok qn cfg.ignored l x.payload s2 (inv2.mdom _ hlx2).1
    obtain ⟨ln, path, _, m⟩ := updateAttrStep_shape qn cfg.ignored l x.payload s2 s3 hs3
    have inv3 := m.inv inv2 (fun _ => rfl) x.id hlx2 hxD
    have anc3 := m.anc inv2.wf anc2
    obtain ⟨s', hs', anc', _⟩ := visitTail_total cfg.ignored qn R hRn x hx l s3 D inv3 anc3 (m.ms ▸ hlx2) hxD
    refine ⟨s', ?_, anc'⟩
    simp only [hs1, hs2, hs3]
    exact hs'

/-- the main loop succeeds -/
theorem visitAll_total (cfg : Cfg) (qn : QName) (R : Tree) (hRn : (ids R).Nodup)
    (hA : ∀ x ∈ bfs R, (keys x.payload.attrs).Nodup)
    (hC : ∀ x ∈ bfs R, x.payload.kind = .comment → x.payload.tag = [])
    (xs pre : List Tree) (hb : bfs R = pre ++ xs) (s : DState) (D : List Nat)
    (hD : ∀ i, i ∈ D ↔ i ∈ pre.map Tree.id) (inv : Inv cfg.ignored R s D D) (anc : AncInv s D) :
    ∃ s', visitAll qn cfg R xs s = .ok s' := by
  induction xs generalizing pre s D with
  | nil => exact ⟨s, rfl⟩
  | cons x rest ih =>
    have hxb : x ∈ bfs R := by rw [hb]; simp
    have hx : find x.id R = some x := bfs_sub R hRn x hxb
    have hnd := bfs_nodup R hRn
    rw [hb, List.map_append, List.map_cons] at hnd
    have hxD : x.id ∉ D := by
      intro hd
      have := (hD _).mp hd
      exact (List.nodup_append.mp hnd).2.2 _ this _ List.mem_cons_self rfl
    have hparD : x.id = R.id ∨ ∃ py, x.id ∈ kidIds R py ∧ py ∈ D := by
      rcases bfs_parent_before R pre rest x hb with e | ⟨p, hp, hxp⟩
      · exact Or.inl (by rw [e])
      · right
        have hpb : p ∈ bfs R := by rw [hb]; simp [hp]
        have hpf : find p.id R = some p := bfs_sub R hRn p hpb
        refine ⟨p.id, ?_, (hD _).mpr (List.mem_map.mpr ⟨p, hp, rfl⟩)⟩
        unfold kidIds; rw [hpf]; exact List.mem_map.mpr ⟨x, hxp, rfl⟩
    have hpar : ∀ py, x.id ∈ kidIds R py → py ∈ D := by
      intro py hk
      rcases hparD with e | ⟨py', hk', hd⟩
      · exfalso
        have := (parId_iff R hRn x.id py).mpr hk
        rw [e, root_no_parent R hRn] at this
        cases this
      · rw [parent_unique R hRn x.id py py' hk hk']; exact hd
    obtain ⟨s1, hs1, anc1⟩ := visit_total cfg qn R hRn x hx s D inv anc hxD hparD
    have inv1 := visit_inv cfg qn R hRn x hx s s1 D inv hxD hpar (hA x hxb) (hC x hxb) hs1
    -- the node just visited joins the ancestor invariant
    obtain ⟨l, _, _, hl, _, _, _, hio⟩ := inv1.vis x.id List.mem_cons_self
    have hhome : l = s1.left.id ∨ ∃ py tgt, py ∈ D ∧ r2lGet s1.ms py = some tgt ∧ l ∈ kidIds s1.left tgt := by
      rcases hparD with e | ⟨py, hk, hd⟩
      · left
        have := r2lGet_of_mem s1.ms inv1.mR _ _ inv1.mroot
        rw [← e, hl] at this; injection this
      · right
        have hnr : x.id ≠ R.id := by
          intro e
          have := (parId_iff R hRn x.id py).mpr hk
          rw [e, root_no_parent R hRn] at this
          cases this
        obtain ⟨q, lq, h1, h2, h3⟩ := inv1.home (l, x.id) (r2lGet_mem s1.ms x.id l hl) (hio hnr)
        simp only at h1 h3
        have : q = py := by
          have := (parId_iff R hRn x.id py).mpr hk
          rw [this] at h1; injection h1 with h1; exact h1.symm
        subst this
        exact ⟨q, lq, hd, h2, (parId_iff _ inv1.wf l lq).mp h3⟩
    have anc2 : AncInv s1 (x.id :: D) := anc1.close inv1.wf x.id l hl hhome
    obtain ⟨s', hs'⟩ := ih (pre ++ [x]) (by rw [hb]; simp) s1 (x.id :: D) (by
      intro i
      simp only [List.mem_cons, List.map_append, List.map_cons, List.map_nil, List.mem_append, List.mem_nil_iff,
        or_false, hD i]
      constructor
      · rintro (e | e)
        · exact Or.inr e
        · exact Or.inl e
      · rintro (e | e)
        · exact Or.inr e
        · exact Or.inl e) inv1 anc2
    refine ⟨s', ?_⟩
    simp only [visitAll, bind, Except.bind, hs1]
    exact hs'

end Chw
end XmlDiffModel
