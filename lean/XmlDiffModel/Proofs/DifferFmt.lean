/-
C09 for the scripts of the differ: the hypotheses of the accept simulation about paths, moves, comments and texts
hold of every script `scriptGen` produces for a right document of elements with fit texts.
-/
import XmlDiffModel.Proofs.Along

namespace XmlDiffModel
namespace Along
open Tree Chw XmlDiffModel.Acc XmlDiffModel.Names

/-- the strict semantics only adds checks -/
theorem uniq_of_strict (qn : QName) (p p' : PState) (a : Action) (h : applyStrict qn p a = .ok p') :
    applyUniq qn p a = .ok p' := by
  cases a <;> simp only [applyStrict, applyUniq, applyWith, bind, Except.bind] at h ⊢
  case deleteNode n =>
    cases hh : uniqueHit qn p.tree n with
    | error e => rw [hh] at h; cases h
    | ok nd =>
      rw [hh] at h
      simp only at h ⊢
      split at h
      · cases h
      · next hr =>
        split at h
        · cases h
        · rw [if_neg hr]; exact h
  case insertNode tgt tag pos =>
    cases hh : uniqueHit qn p.tree tgt with
    | error e => rw [hh] at h; cases h
    | ok tg =>
      rw [hh] at h
      simp only at h ⊢
      split at h
      · cases h
      · exact h
  case insertComment tgt pos text =>
    cases hh : uniqueHit qn p.tree tgt with
    | error e => rw [hh] at h; cases h
    | ok tg =>
      rw [hh] at h
      simp only at h ⊢
      split at h
      · cases h
      · exact h
  case moveNode n tgt pos =>
    cases hh : uniqueHit qn p.tree n with
    | error e => rw [hh] at h; cases h
    | ok nd =>
      rw [hh] at h
      simp only at h ⊢
      cases ht : uniqueHit qn p.tree tgt with
      | error e => rw [ht] at h; cases h
      | ok tg =>
        rw [ht] at h
        simp only at h ⊢
        split at h
        · cases h
        · next hr =>
          split at h
          · cases h
          · split at h
            · cases h
            · rw [if_neg hr]; exact h
  all_goals exact h

/-- a move the strict semantics accepts does not go into the moved node's own subtree -/
theorem proper_of_strict (qn : QName) (p p' : PState) (a : Action) (h : applyStrict qn p a = .ok p') :
    ProperMove qn p.tree a := by
  cases a <;> simp only [ProperMove]
  case moveNode n tgt pos =>
    intro nd tg hn ht
    simp only [applyStrict, bind, Except.bind, hn, ht] at h
    split at h
    · cases h
    · split at h
      · cases h
      · next hc =>
        have : containsId tg.id nd = false := by simpa using hc
        intro hm
        rw [← containsId_iff] at hm
        rw [hm] at this; cases this

theorem runStrict_cons_inv' (qn : QName) (p p' : PState) (a : Action) (rest : List Action)
    (h : runStrict qn p (a :: rest) = .ok p') :
    ∃ p1, applyStrict qn p a = .ok p1 ∧ runStrict qn p1 rest = .ok p' := by
  simp only [runStrict, runWith] at h
  cases hx : applyStrict qn p a with
  | error e => simp [hx] at h
  | ok p1 =>
    simp only [hx] at h
    cases hr : runWith (applyStrict qn) p1 rest with
    | error e => obtain ⟨k, e'⟩ := e; simp [hr] at h
    | ok r =>
      simp only [hr, Except.ok.injEq] at h
      refine ⟨p1, rfl, ?_⟩
      show runWith (applyStrict qn) p1 rest = .ok p'
      rw [hr, h]

/-- from "along the run" to the recursive form the simulation uses -/
theorem pathsOK_of (qn : QName) (S : Str → Prop) (script : List Action) (p p' : PState)
    (hal : Along qn (PathP qn S) p script) (hst : runStrict qn p script = .ok p') :
    PathsOK qn p script ∧ runUniq qn p script = .ok p' ∧ ∀ a ∈ script, NoComment a ∧ TextsOK a ∧ NewNamesIn S a := by
  induction script generalizing p with
  | nil =>
    rw [runStrict_nil] at hst
    injection hst with hst
    subst hst
    exact ⟨trivial, runShipped_nil qn p, fun a ha => by cases ha⟩
  | cons a rest ih =>
    obtain ⟨p1, h1, h2⟩ := runStrict_cons_inv' qn p p' a rest hst
    have hu := uniq_of_strict qn p p1 a h1
    have hPa := hal [] a rest rfl p (runShipped_nil qn p)
    have hal' : Along qn (PathP qn S) p1 rest := by
      intro pre x post hsplit q hq
      exact hal (a :: pre) x post (by rw [hsplit]; rfl) q (runShipped_cons qn p p1 q a pre hu hq)
    obtain ⟨i1, i2, i3⟩ := ih p1 hal' h2
    refine ⟨⟨hPa.1, proper_of_strict qn p p1 a h1, ?_⟩, runShipped_cons qn p p1 p' a rest hu i2, ?_⟩
    · intro q hq
      rw [hu] at hq
      injection hq with hq
      subst hq
      exact i1
    · intro b hb
      simp only [List.mem_cons] at hb
      rcases hb with rfl | hb
      · exact ⟨hPa.2.1, hPa.2.2.1, hPa.2.2.2⟩
      · exact i3 b hb

/-- along a run the patcher accepts: plain attribute names in the tree and in what the actions add give plain names
in every action -/
theorem plainNames_of_run (qn : QName) (script : List Action) (T : Tree) (nx : Nat) (p' : PState)
    (hn : (ids T).Nodup) (hfr : ∀ i ∈ ids T, i < nx) (hkp : AllP KeysPlain T)
    (hnew : ∀ a ∈ script, NewNamesIn (fun k => isDiffKey k = false) a)
    (hp : runUniq qn ⟨T, nx⟩ script = .ok p') : ∀ a ∈ script, PlainNames a := by
  induction script generalizing T nx with
  | nil => intro a ha; cases ha
  | cons a rest ih =>
    obtain ⟨p1, h1, h2⟩ := runUniq_cons_inv qn _ p' a rest hp
    obtain ⟨hpl, hkp1⟩ := plain_step qn T nx hn hkp a (hnew a (by simp)) p1 h1
    -- the next state is again well formed (identity renaming)
    have r : MapId.Rel (fun x => x) T (MapId.mapId (fun x => x) T) nx nx :=
      ⟨rfl, fun a _ b _ e => e, hn, hfr, hfr⟩
    obtain ⟨σ', q1, hq, r'⟩ := MapId.applyUniq_equiv qn a (fun x => x) T _ nx nx r p1 h1
    intro b hb
    simp only [List.mem_cons] at hb
    rcases hb with rfl | hb
    · exact hpl
    · cases p1 with
      | mk T1 n1 =>
        exact ih T1 n1 r'.nd r'.fr hkp1 (fun c hc => hnew c (by simp [hc])) h2 b hb

mutual
  theorem keysPlain_of_clean (t : Tree) (h : CleanT t) : AllP KeysPlain t := by
    match t with
    | .node i p ks =>
      simp only [CleanT] at h
      simp only [AllP]
      exact ⟨h.1, keysPlainL_of_clean ks h.2.2.2⟩
  theorem keysPlainL_of_clean (ts : List Tree) (h : CleanL ts) : AllPL KeysPlain ts := by
    match ts with
    | [] => trivial
    | t :: rest =>
      simp only [CleanL] at h
      simp only [AllPL]
      exact ⟨keysPlain_of_clean t h.1, keysPlainL_of_clean rest h.2⟩
end

/-- **The formatter on a script of the differ.**  Left document clean, right document made of elements with fit
texts and distinct attribute names, any good matching: the handlers of the XML formatter (no text tags, no
`use_replace`) accept the script `scriptGen` produces, and the accepted view of the tree they leave is the differ's
final working copy - the document the patcher produces - with its node ids renamed one-to-one.  Still assumed: the
engine's answers spell the new texts (`OracleOK`). -/
theorem differ_script_formatted (qn : QName) (cfg : Cfg) (L R : Tree) (M : List (Nat × Nat)) (fresh : Nat)
    (script : List Action) (final : Tree) (ft : List Str) (segs : List (List Seg)) (w : Bool)
    (hclean : CleanT L) (hL : (ids L).Nodup) (hRn : (ids R).Nodup) (hdisj : ∀ i ∈ ids L, i ∉ ids R)
    (hfL : ∀ i ∈ ids L, i < fresh) (hfR : ∀ i ∈ ids R, i < fresh) (hM : GoodMatching L R M)
    (hR : ∀ x ∈ bfs R, (keys x.payload.attrs).Nodup ∧ XClean (fun k => isDiffKey k = false) x)
    (hor : OracleOK qn { tree := L, next := fresh, ph := phInit [] ft, segs := segs, useReplace := false, wsText := w }
      script)
    (h : scriptGen qn cfg L R M fresh = .ok (script, final)) :
    ∃ s' σ, runFmt qn { tree := L, next := fresh, ph := phInit [] ft, segs := segs, useReplace := false, wsText := w }
        script = .ok s' ∧ acc (cln accS) s'.tree = MapId.mapId σ final ∧ MapId.InjOn σ (ids final) := by
  obtain ⟨nx, hstrict⟩ := scriptGen_strict qn cfg L R M fresh script final hL hRn hdisj hfL hfR hM
    (fun x hx => (hR x hx).1) (fun x hx hk => by rw [(hR x hx).2.1] at hk; cases hk) h
  have hal := scriptGen_along qn (fun k => isDiffKey k = false) cfg L R M fresh script final hL hfL hR h
  obtain ⟨hpaths, hrun, hacts⟩ := pathsOK_of qn _ script ⟨L, fresh⟩ ⟨final, nx⟩ hal hstrict
  have hpn := plainNames_of_run qn script L fresh ⟨final, nx⟩ hL hfL (keysPlain_of_clean L hclean)
    (fun a ha => (hacts a ha).2.2) hrun
  have hb : TextMark.Base (phInit [] ft) := by
    have := TextMark.base_history [] ft [] (by
      show (phInit [] ft).counter < 0x110000
      have : (phInit [] ft).counter = phStart + 6 := rfl
      rw [this]; decide)
    exact this
  have htok : TOK { tree := L, next := fresh, ph := phInit [] ft, segs := segs, useReplace := false, wsText := w } :=
    ⟨hL, hfL, isGhost_of_clean L hclean⟩
  obtain ⟨s', h1, ⟨σ, r⟩, _⟩ := run_sim_moves qn script _ ⟨htok, hb, rfl⟩ L fresh (simRel_init _ htok hclean)
    (fun a ha => ⟨(hacts a ha).1, hpn a ha, (hacts a ha).2.1⟩) hpaths hor ⟨final, nx⟩ hrun
  exact ⟨s', σ, h1, r.eq, r.inj⟩

end Along
end XmlDiffModel
