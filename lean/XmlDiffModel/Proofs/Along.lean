/-
Properties of the actions of a differ script *in the state the replay is in when they are applied*: a generic
"along the run" predicate, threaded through the generator like `Steps`, and its instance for the hypotheses of the
formatter simulation - every path is stepwise unique on the tree it is resolved on, no comment is inserted when the
right document has none, and the new texts are the right document's texts.
-/
import XmlDiffModel.Proofs.Acc5
import XmlDiffModel.Proofs.Changes
import XmlDiffModel.Proofs.Names

namespace XmlDiffModel
namespace Along
open Tree Chw XmlDiffModel.Acc XmlDiffModel.Names

/-- `P` holds of every action of `acts` in the state the replay from `p` has reached -/
def Along (qn : QName) (P : PState → Action → Prop) (p : PState) (acts : List Action) : Prop :=
  ∀ pre a post, acts = pre ++ a :: post → ∀ p1, runUniq qn p pre = .ok p1 → P p1 a

theorem Along.nil (qn : QName) (P : PState → Action → Prop) (p : PState) : Along qn P p [] := by
  intro pre a post h
  cases pre <;> simp at h

theorem Along.append {qn : QName} {P : PState → Action → Prop} {p p1 : PState} {a b : List Action}
    (ha : Along qn P p a) (hr : runUniq qn p a = .ok p1) (hb : Along qn P p1 b) : Along qn P p (a ++ b) := by
  intro pre x post hsplit q1 hq1
  rcases List.append_eq_append_iff.1 hsplit with ⟨c, hc1, hc2⟩ | ⟨c, hc1, hc2⟩
  · subst hc1
    obtain ⟨m, hm1, hm2⟩ := C17.runUniq_append_inv qn a c p q1 hq1
    rw [hr] at hm1
    injection hm1 with hm1
    subst hm1
    exact hb c x post hc2 q1 hm2
  · cases c with
    | nil =>
      simp only [List.append_nil] at hc1
      subst hc1
      simp only [List.nil_append] at hc2
      rw [hr] at hq1
      injection hq1 with hq1
      subst hq1
      exact hb [] x post hc2.symm p1 (runShipped_nil qn _)
    | cons y c =>
      simp only [List.cons_append, List.cons.injEq] at hc2
      obtain ⟨rfl, _⟩ := hc2
      exact ha pre x c hc1 q1 hq1

theorem Along.single (qn : QName) (P : PState → Action → Prop) (p : PState) (a : Action) (h : P p a) :
    Along qn P p [a] := by
  intro pre x post hsplit q1 hq1
  cases pre with
  | nil =>
    simp only [List.nil_append, List.cons.injEq] at hsplit
    obtain ⟨rfl, _⟩ := hsplit
    rw [runShipped_nil] at hq1
    injection hq1 with hq1
    subst hq1
    exact h
  | cons y ys =>
    simp only [List.cons_append, List.cons.injEq] at hsplit
    have := hsplit.2
    cases ys <;> simp at this

/-- a piece of the generator whose actions satisfy `P` along its replay -/
def GS (qn : QName) (ign : List Str) (P : PState → Action → Prop) (s s' : DState) : Prop :=
  ∃ acts, Steps qn ign s s' acts ∧ Along qn P ⟨s.left, s.next⟩ acts

theorem GS.refl (qn : QName) (ign : List Str) (P : PState → Action → Prop) (s : DState) (h : SOK s) :
    GS qn ign P s s := ⟨[], Steps.refl qn ign s h, Along.nil qn P _⟩

theorem GS.trans {qn : QName} {ign : List Str} {P : PState → Action → Prop} {s s1 s2 : DState}
    (h1 : GS qn ign P s s1) (h2 : GS qn ign P s1 s2) : GS qn ign P s s2 := by
  obtain ⟨a1, st1, c1⟩ := h1
  obtain ⟨a2, st2, c2⟩ := h2
  exact ⟨a1 ++ a2, st1.trans st2, c1.append st1.replay c2⟩

theorem GS.of_single {qn : QName} {ign : List Str} {P : PState → Action → Prop} {s s' : DState} {a : Action}
    (st : Steps qn ign s s' [a]) (h : P ⟨s.left, s.next⟩ a) : GS qn ign P s s' :=
  ⟨[a], st, Along.single qn P _ a h⟩

theorem gs_ok {qn : QName} {ign : List Str} {P : PState → Action → Prop} {s s' : DState} (c : GS qn ign P s s') :
    SOK s' := by
  obtain ⟨_, st, _⟩ := c
  exact st.ok

/-! ### the path predicate -/

/-- what the formatter simulation asks of an action, in the state it is applied in -/
def PathP (qn : QName) (S : Str → Prop) (p : PState) (a : Action) : Prop :=
  SUAct qn p.tree a ∧ NoComment a ∧ TextsOK a ∧ NewNamesIn S a

theorem su_path (qn : QName) (t : Tree) (l : Nat) (path : Path) (h : pathStr qn t l = .ok path) :
    ∃ x, SU qn path [t] x := by
  obtain ⟨sub, _, hsu⟩ := su_of_pathStr qn t l path h
  exact ⟨sub, hsu⟩

theorem renameStep_gs (qn : QName) (S : Str → Prop) (ign : List Str) (l : Nat) (x : Payload) (s s' : DState) (hs : SOK s)
    (h : renameStep qn l x s = .ok s') : GS qn ign (PathP qn S) s s' := by
  obtain ⟨acts, st⟩ := renameStep_steps qn ign l x s s' hs h
  unfold renameStep at h
  split at h
  · cases h
  · next ln hln =>
    split at h
    · simp only [bind, Except.bind, pure, Except.pure] at h
      split at h
      · cases h
      · next path hpath =>
        simp only [Except.ok.injEq] at h
        subst h
        have := C17.acts_single st _ rfl
        subst this
        exact GS.of_single st ⟨su_path qn s.left l path hpath, trivial, trivial, trivial⟩
    · simp only [pure, Except.pure, Except.ok.injEq] at h
      subst h
      exact GS.refl qn ign _ s hs

/-- one text / tail update as a piece of its own -/
theorem textPiece_gs (qn : QName) (S : Str → Prop) (ign : List Str) (l : Nat) (s : DState) (hs : SOK s) (path : Path)
    (hpath : pathStr qn s.left l = .ok path) (t : Option Str) (ht : TextOK t) (tail : Bool) :
    let f : Payload → Payload := fun p => if tail then { p with tail := t } else { p with text := t }
    let a : Action := if tail then .updateTextAfter path t else .updateTextIn path t
    GS qn ign (PathP qn S) s { s with left := setPayload s.left l f, out := a :: s.out } := by
  intro f a
  obtain ⟨sub, _, hhit, hid⟩ := applyShipped_modify qn s.left s.next l path hpath
  have st : Steps qn ign s { s with left := setPayload s.left l f, out := a :: s.out } [a] := by
    refine ⟨by simp, ?_, sok_modify s hs l _ _, ?_, by simp [setPayload, id_modify]⟩
    · apply runShipped_single
      cases tail <;> simp [a, f, applyUniq, applyWith, bind, Except.bind, hhit, hid, setPayload]
    · intro b hb
      simp only [List.mem_cons, List.mem_nil_iff, or_false] at hb
      subst hb
      cases tail <;> simp [a, ActAvoids]
  refine GS.of_single st ?_
  cases tail
  · exact ⟨su_path qn s.left l path hpath, trivial, ht, trivial⟩
  · exact ⟨su_path qn s.left l path hpath, trivial, ht, trivial⟩

theorem updateText_gs (qn : QName) (S : Str → Prop) (ign : List Str) (l : Nat) (x : Payload) (s s' : DState) (hs : SOK s)
    (hx : TextOK x.text ∧ TextOK x.tail) (h : updateText qn l x s = .ok s') : GS qn ign (PathP qn S) s s' := by
  unfold updateText at h
  split at h
  · cases h
  · next ln hln =>
    simp only [bind, Except.bind] at h
    split at h
    · cases h
    · next path hpath =>
      simp only [Except.ok.injEq] at h
      subst h
      have c1 : GS qn ign (PathP qn S) s (textStep path l x ln s) := by
        unfold textStep
        split
        · have := textPiece_gs qn S ign l s hs path hpath x.text hx.1 false
          simpa using this
        · exact GS.refl qn ign _ s hs
      have hs1 := gs_ok c1
      have hk : ∀ t0 : Option Str, KeepsName (fun p : Payload => { p with text := t0 }) := fun _ _ => ⟨rfl, rfl⟩
      have c2 : GS qn ign (PathP qn S) (textStep path l x ln s) (tailStep path l x ln (textStep path l x ln s)) := by
        unfold tailStep
        split
        · by_cases ht : ln.payload.text ≠ x.text
          · have e1 : textStep path l x ln s =
                ({ s with left := setPayload s.left l (fun p => { p with text := x.text })
                          out := .updateTextIn path x.text :: s.out } : DState) := by
              unfold textStep; rw [if_pos ht]
            rw [e1] at hs1 ⊢
            have hp2 : pathStr qn (setPayload s.left l (fun p => { p with text := x.text })) l = .ok path := by
              unfold pathStr at hpath ⊢
              simp only [setPayload]
              rw [getpath_modify qn l _ (hk x.text) s.left l]
              exact hpath
            have := textPiece_gs qn S ign l _ hs1 path hp2 x.tail hx.2 true
            simpa using this
          · have e1 : textStep path l x ln s = s := by unfold textStep; rw [if_neg ht]
            rw [e1]
            have := textPiece_gs qn S ign l s hs path hpath x.tail hx.2 true
            simpa using this
        · exact GS.refl qn ign _ _ hs1
      exact c1.trans c2

/-- a run of attribute actions on one node -/
theorem attr_along (qn : QName) (S : Str → Prop) (t : Tree) (nx l : Nat) (p : Path) (n : Tree)
    (hnd : (ids t).Nodup) (hf : find l t = some n) (hp : pathStr qn t l = .ok p)
    (acts : List Action) (hon : ∀ a ∈ acts, IsAttrOn p a) (las' : Attrs)
    (hrun : attrRun n.payload.attrs acts = some las') (hnew : ∀ a ∈ acts, NewNamesIn S a) :
    Along qn (PathP qn S) ⟨t, nx⟩ acts := by
  intro pre a post hsplit p1 hp1
  subst hsplit
  rw [attrRun_append] at hrun
  cases hc1 : attrRun n.payload.attrs pre with
  | none => simp [hc1] at hrun
  | some c1 =>
    have r1 := attr_replay qn t nx l p n hnd hf hp pre (fun x hx => hon x (by simp [hx])) c1 hc1
    rw [r1] at hp1
    injection hp1 with hp1
    subst hp1
    have hpath : pathStr qn (Tree.modify l (setAttrs c1) t) l = .ok p := by
      unfold pathStr at hp ⊢
      rw [getpath_modify qn l _ (setAttrs_keeps c1) t l]
      exact hp
    have hsu := su_path qn _ l p hpath
    have hona := hon a (by simp)
    have hnewa := hnew a (by simp)
    cases a <;> simp only [IsAttrOn] at hona <;> try exact absurd hona id
    all_goals subst hona
    all_goals exact ⟨hsu, trivial, trivial, hnewa⟩

theorem updateAttrStep_gs (qn : QName) (S : Str → Prop) (ign : List Str) (l : Nat) (x : Payload) (s s' : DState) (hs : SOK s)
    (hx : (keys x.attrs).Nodup) (hS : ∀ k ∈ keys x.attrs, S k) (h : updateAttrStep qn ign l x s = .ok s') :
    GS qn ign (PathP qn S) s s' := by
  obtain ⟨acts, st⟩ := updateAttrStep_steps qn ign l x s s' hs hx h
  refine ⟨acts, st, ?_⟩
  unfold updateAttrStep at h
  split at h
  · cases h
  · next ln hln =>
    simp only [bind, Except.bind] at h
    split at h
    · cases h
    · next path hpath =>
      obtain ⟨acts', hph⟩ := updateAttrs_phase ign path ln.payload.attrs x.attrs s.out hx
      obtain ⟨ext, hext, hnw⟩ := updateAttrs_new ign path ln.payload.attrs x.attrs s.out
      generalize updateAttrs ign path ln.payload.attrs x.attrs s.out = res at h hph hext
      obtain ⟨las, out⟩ := res
      simp only [Except.ok.injEq] at h
      subst h
      have e1 : acts = acts' := acts_of_out acts acts' s.out (by rw [← st.out]; exact hph.out_eq)
      have e2 : acts' = ext := acts_of_out acts' ext s.out (by rw [← hph.out_eq]; exact hext)
      subst e1 e2
      refine attr_along qn S s.left s.next l path ln hs.nodup hln hpath acts (fun a ha => (hph.on a ha).1) las hph.run ?_
      intro a ha
      have := hnw a ha
      cases a <;> simp only [NewNamesIn] at this ⊢
      · exact hS _ this
      · exact hS _ this

theorem insertStep_gs (qn : QName) (S : Str → Prop) (ign : List Str) (R x : Tree) (lt : Option Nat) (s s' : DState) (l : Nat)
    (hs : SOK s) (hk : x.payload.kind = .elem) (h : insertStep qn R x lt s = .ok (l, s')) :
    GS qn ign (PathP qn S) s s' := by
  obtain ⟨_, acts, st⟩ := insertStep_steps qn ign R x lt s s' l hs h
  obtain ⟨tgt, pos, tp, act, hlt, _, htp, hout, hact⟩ := insertStep_shape2 qn R x lt s s' l h
  have := C17.acts_single st act hout
  subst this
  refine GS.of_single st ?_
  have hsu := su_path qn s.left tgt tp htp
  subst hlt
  simp only [insertStep, bind, Except.bind, pure, Except.pure, hk] at h
  split at h
  · cases h
  · split at h
    · cases h
    · next pos' _ _ tp' htp' =>
      simp only [Except.ok.injEq, Prod.mk.injEq] at h
      obtain ⟨_, rfl⟩ := h
      simp only [List.cons.injEq, and_true] at hout
      subst hout
      have e : tp' = tp := by rw [htp] at htp'; injection htp' with e; exact e.symm
      subst e
      exact ⟨hsu, trivial, trivial, trivial⟩

theorem move_path (qn : QName) (S : Str → Prop) (s : DState) (l tgt pos : Nat) (p1 p2 : Path)
    (h1 : pathStr qn s.left l = .ok p1) (h2 : pathStr qn s.left tgt = .ok p2) :
    PathP qn S ⟨s.left, s.next⟩ (.moveNode p1 p2 pos) :=
  ⟨⟨su_path qn s.left l p1 h1, su_path qn s.left tgt p2 h2⟩, trivial, trivial, trivial⟩

theorem moveStep_gs (qn : QName) (S : Str → Prop) (ign : List Str) (R x : Tree) (l : Nat) (lt : Option Nat) (s s' : DState)
    (hs : SOK s) (h : moveStep qn R x l lt s = .ok s') : GS qn ign (PathP qn S) s s' := by
  obtain ⟨acts, st⟩ := moveStep_steps qn ign R x l lt s s' hs h
  rcases moveStep_shape2 qn R x l lt s s' hs.nodup h with e | ⟨tgt, pos, sub, p1, p2, _, _, hp1, hp2, _, _, e⟩
  · have : acts = [] := acts_of_out acts [] s.out (by rw [← st.out, e]; simp)
    subst this
    exact ⟨[], st, Along.nil qn _ _⟩
  · have := C17.acts_single st (.moveNode p1 p2 pos) (by rw [e])
    subst this
    exact GS.of_single st (move_path qn S s l tgt pos p1 p2 hp1 hp2)

theorem alignMoves_gs (qn : QName) (S : Str → Prop) (ign : List Str) (R : Tree) (l : Nat) (lcs : List Nat) (s s' : DState)
    (hs : SOK s) (hroot : ∀ c ∈ lcs, s.left.id ≠ c) (h : alignMoves qn R l lcs s = .ok s') :
    GS qn ign (PathP qn S) s s' := by
  induction lcs generalizing s with
  | nil => simp only [alignMoves, Except.ok.injEq] at h; subst h; exact GS.refl qn ign _ s hs
  | cons lc rest ih =>
    obtain ⟨s1, h1, h2⟩ := alignMoves_split qn R l lc rest s s' h
    obtain ⟨acts, st⟩ := alignMoves_steps qn ign R l [lc] s s1 hs
      (fun c hc => by simp at hc; rw [hc]; exact hroot lc (by simp)) h1
    have c1 : GS qn ign (PathP qn S) s s1 := by
      rcases alignMoves_one_shape2 qn R l lc s s1 h1 with e |
        ⟨rc, rp, lt, pos, sub, p1, p2, _, _, _, _, _, _, hp1, hp2, e⟩
      · have : acts = [] := acts_of_out acts [] s.out (by rw [← st.out, e]; simp)
        subst this
        exact ⟨[], st, Along.nil qn _ _⟩
      · have := C17.acts_single st (.moveNode p1 p2 pos) (by rw [e])
        subst this
        exact GS.of_single st (move_path qn S s lc lt pos p1 p2 hp1 hp2)
    exact c1.trans (ih s1 st.ok (fun c hc => by rw [st.rootid]; exact hroot c (by simp [hc])) h2)

theorem alignChildren_gs (qn : QName) (S : Str → Prop) (ign : List Str) (R : Tree) (l : Nat) (x : Tree) (s s' : DState) (hs : SOK s)
    (h : alignChildren qn R l x s = .ok s') : GS qn ign (PathP qn S) s s' := by
  unfold alignChildren at h
  split at h
  · cases h
  · next ln hln =>
    simp only at h
    split at h
    · simp only [Except.ok.injEq] at h
      subst h
      exact GS.refl qn ign _ s hs
    · split at h
      · next ps hps =>
        refine Exists.elim (alignMoves_gs qn S ign R l _ _ s' ?a ?b h) ?c
        case a => exact ⟨hs.nodup, hs.fresh⟩
        case b =>
          intro c hc
          simp only [List.mem_filter, List.mem_map] at hc
          obtain ⟨⟨k, hk, rfl⟩, _⟩ := hc
          apply root_ne_of_desc s.left k.id hs.nodup
          exact find_kids_desc l s.left ln hln _ (mem_idsL_of_mem k _ hk)
        case c =>
          intro acts hh
          obtain ⟨st, cg⟩ := hh
          exact ⟨acts, ⟨st.out, st.replay, st.ok, st.avoid, st.rootid⟩, cg⟩
      · cases h

/-- a right node as the formatter simulation needs it: an element whose texts are fit -/
def XClean (S : Str → Prop) (x : Tree) : Prop :=
  x.payload.kind = .elem ∧ TextOK x.payload.text ∧ TextOK x.payload.tail ∧ ∀ k ∈ keys x.payload.attrs, S k

theorem visitTail_gs (qn : QName) (S : Str → Prop) (ign : List Str) (R x : Tree) (l : Nat) (s1 s' : DState)
    (hs : SOK s1) (hxc : XClean S x) (h : visitTail qn R l x s1 = .ok s') : GS qn ign (PathP qn S) s1 s' := by
  unfold visitTail at h
  simp only [bind, Except.bind] at h
  split at h
  · cases h
  · next s2 hs2 =>
    have c1 := alignChildren_gs qn S ign R l x s1 s2 hs hs2
    split at h
    · next l' hl' => exact c1.trans (updateText_gs qn S ign l' x.payload s2 s' (gs_ok c1) ⟨hxc.2.1, hxc.2.2.1⟩ h)
    · cases h

theorem visit_gs (qn : QName) (S : Str → Prop) (cfg : Cfg) (R x : Tree) (s s' : DState) (hs : SOK s)
    (hx : (keys x.payload.attrs).Nodup) (hxc : XClean S x) (h : visit qn cfg R x s = .ok s') :
    GS qn cfg.ignored (PathP qn S) s s' := by
  unfold visit at h
  simp only [bind, Except.bind] at h
  split at h
  · split at h
    · cases h
    · next v hv =>
      obtain ⟨l, s1⟩ := v
      have c1 := insertStep_gs qn S cfg.ignored R x _ s s1 l hs hxc.1 hv
      simp only at h
      split at h
      · cases h
      · next s2 hs2 =>
        have c2 := updateAttrStep_gs qn S cfg.ignored l x.payload s1 s2 (gs_ok c1) hx hxc.2.2.2 hs2
        have c3 := visitTail_gs qn S cfg.ignored R x l s2 s' (gs_ok c2) hxc h
        exact (c1.trans c2).trans c3
  · next l hl =>
    split at h
    · cases h
    · next s1 hs1 =>
      have c1 := moveStep_gs qn S cfg.ignored R x l _ s s1 hs hs1
      split at h
      · cases h
      · next s2 hs2 =>
        have c2 := renameStep_gs qn S cfg.ignored l x.payload s1 s2 (gs_ok c1) hs2
        split at h
        · cases h
        · next s3 hs3 =>
          have c3 := updateAttrStep_gs qn S cfg.ignored l x.payload s2 s3 (gs_ok c2) hx hxc.2.2.2 hs3
          have c4 := visitTail_gs qn S cfg.ignored R x l s3 s' (gs_ok c3) hxc h
          exact ((c1.trans c2).trans c3).trans c4

theorem visitAll_gs (qn : QName) (S : Str → Prop) (cfg : Cfg) (R : Tree) (xs : List Tree) (s s' : DState)
    (hs : SOK s) (hx : ∀ x ∈ xs, (keys x.payload.attrs).Nodup ∧ XClean S x)
    (h : visitAll qn cfg R xs s = .ok s') : GS qn cfg.ignored (PathP qn S) s s' := by
  induction xs generalizing s with
  | nil =>
    simp only [visitAll, Except.ok.injEq] at h
    subst h
    exact GS.refl qn _ _ s hs
  | cons x xs ih =>
    simp only [visitAll, bind, Except.bind] at h
    split at h
    · cases h
    · next s1 hs1 =>
      have c1 := visit_gs qn S cfg R x s s1 hs (hx x (by simp)).1 (hx x (by simp)).2 hs1
      exact c1.trans (ih s1 (gs_ok c1) (fun y hy => hx y (by simp [hy])) h)

theorem deleteAll_gs (qn : QName) (S : Str → Prop) (ign : List Str) (ls : List Nat) (s s' : DState)
    (hs : SOK s) (h : deleteAll qn ls s = .ok s') : GS qn ign (PathP qn S) s s' := by
  induction ls generalizing s with
  | nil =>
    simp only [deleteAll, Except.ok.injEq] at h
    subst h
    exact GS.refl qn ign _ s hs
  | cons l ls ih =>
    simp only [deleteAll] at h
    split at h
    · exact ih s hs h
    · simp only [bind, Except.bind] at h
      split at h
      · cases h
      · next p hp =>
        split at h
        · cases h
        · next hroot =>
          obtain ⟨sub, hfs, hhit, hid⟩ := applyShipped_modify qn s.left s.next l p hp
          have st1 : Steps qn ign s { s with left := s.left.remove l, out := .deleteNode p :: s.out }
              [.deleteNode p] := by
            refine ⟨by simp, ?_, ⟨?_, ?_⟩, ?_, by simp [id_remove]⟩
            · apply runShipped_single
              have hr : isRoot s.left l = false := by
                simp only [isRoot, beq_eq_false_iff_ne, ne_eq]
                exact hroot
              simp [applyUniq, applyWith, bind, Except.bind, hhit, hid, hr]
            · exact (ids_remove_sublist l s.left).nodup hs.nodup
            · intro i hi
              exact hs.fresh i ((ids_remove_sublist l s.left).subset hi)
            · intro a ha
              simp only [List.mem_cons, List.mem_nil_iff, or_false] at ha
              subst ha; simp [ActAvoids]
          have c1 : GS qn ign (PathP qn S) s { s with left := s.left.remove l, out := .deleteNode p :: s.out } :=
            GS.of_single st1 ⟨su_path qn s.left l p hp, trivial, trivial, trivial⟩
          exact c1.trans (ih _ st1.ok h)

/-- **Every action of a differ script, in the state the replay applies it in**: its paths are stepwise unique, it is
not a comment insertion and its new texts are fit - for a right document of elements with fit texts. -/
theorem scriptGen_along (qn : QName) (S : Str → Prop) (cfg : Cfg) (L R : Tree) (M : List (Nat × Nat)) (fresh : Nat)
    (script : List Action) (final : Tree) (hL : L.WF) (hfresh : ∀ i ∈ ids L, i < fresh)
    (hR : ∀ x ∈ Tree.bfs R, (keys x.payload.attrs).Nodup ∧ XClean S x)
    (h : scriptGen qn cfg L R M fresh = .ok (script, final)) :
    Along qn (PathP qn S) ⟨L, fresh⟩ script := by
  unfold scriptGen at h
  simp only [bind, Except.bind, pure, Except.pure] at h
  split at h
  · cases h
  · next s1 hs1 =>
    split at h
    · cases h
    · next s2 hs2 =>
      simp only [Except.ok.injEq, Prod.mk.injEq] at h
      obtain ⟨rfl, rfl⟩ := h
      have hs0 : SOK { left := L, ms := M.reverse, inorder := [], out := [], next := fresh } :=
        ⟨hL, hfresh⟩
      have c1 := visitAll_gs qn S cfg R _ _ s1 hs0 hR hs1
      have c2 := deleteAll_gs qn S cfg.ignored _ s1 s2 (gs_ok c1) hs2
      obtain ⟨acts, st, cg⟩ := c1.trans c2
      have hout : s2.out.reverse = acts := by rw [st.out]; simp
      rw [hout]
      exact cg

end Along
end XmlDiffModel
