/-
C10, attributes, part 3: the attribute invariant along the whole run of the XML formatter (engine inside).

`attrSide_of_J`: the side conditions of `step_K` from the "mentioned at most once" invariant `JF (FK k)` and "this
action's node was not hit by an action naming `k` before", and from the patcher's own checks through the accepted
view.  `step_FE`: the flag invariant for the state and renaming `step_E` returns.  `run_E_attr`: `KAll` at the end
of the run.
-/
import XmlDiffModel.Proofs.RejAttr2
import XmlDiffModel.Proofs.JRun2

namespace XmlDiffModel
namespace Acc
open Tree Undo TextMark MapId JInv Rej Names Dmp

/-- the working-tree node a patcher path resolves to, with its attributes -/
theorem node_link_attrs (qn : QName) (s : FState) (h : FOK s) (T : Tree) (nx : Nat) (σ : Nat → Nat)
    (r : Rel σ T (acc (cln accS) s.tree) nx s.next) (path : Path) (nd x : Tree) (hx : SU qn path [T] x)
    (hh : uniqueHit qn T path = .ok nd) :
    ∃ m, xresolve qn s.tree path = .ok m ∧ nd.id ∈ ids T ∧ find (σ nd.id) s.tree = some m ∧
      nd.payload.attrs = stripDiff m.payload.attrs := by
  have hU := r.eq
  have hxU : SU qn path [acc (cln accS) s.tree] (mapId σ x) := by
    have := su_mapId qn σ path [T] x hx
    simpa [hU] using this
  have hhU : uniqueHit qn (acc (cln accS) s.tree) path = .ok (mapId σ nd) := by
    rw [hU]; exact uniqueHit_mapId qn σ T path nd hh
  obtain ⟨m, m1, m2, _, m4⟩ := hit_both qn accS s h.tok path (mapId σ nd) (mapId σ x) hxU hhU
  have hid : m.id = σ nd.id := by rw [← acc_id (cln accS) m, m2, mapId_id]
  refine ⟨m, m1, mem_of_find nd.id T nd (uniqueHit_find qn T r.nd path nd hh), by rw [← hid]; exact m4, ?_⟩
  have : (acc (cln accS) m).payload = (mapId σ nd).payload := by rw [m2]
  rw [acc_payload, mapId_payload] at this
  rw [← this]; rfl

theorem keySel_upd (k : Str) (n : Path) (v : Str) : Once.keySel k (.updateAttrib n k v) = some n := by
  simp [Once.keySel, mentions]
theorem keySel_del (k : Str) (n : Path) : Once.keySel k (.deleteAttrib n k) = some n := by
  simp [Once.keySel, mentions]
theorem keySel_add (k : Str) (n : Path) (v : Str) : Once.keySel k (.insertAttrib n k v) = some n := by
  simp [Once.keySel, mentions]
theorem keySel_ren1 (k : Str) (n : Path) (b : Str) : Once.keySel k (.renameAttrib n k b) = some n := by
  simp [Once.keySel, mentions]
theorem keySel_ren2 (k : Str) (n : Path) (a : Str) : Once.keySel k (.renameAttrib n a k) = some n := by
  simp [Once.keySel, mentions]

/-- the side conditions of the attribute handlers, from the invariant -/
theorem attrSide_of_J (qn : QName) (s : FState) (h : FOK s) (T : Tree) (nx : Nat) (σ : Nat → Nat)
    (r : Rel σ T (acc (cln accS) s.tree) nx s.next) (HK : Str → List Nat)
    (JK : ∀ k, JF (FK k) σ s.tree T (HK k)) (a : Action) (hsu : SUAct qn T a) (han : AttrNamesOK a) (p1 : PState)
    (hp : applyUniq qn ⟨T, nx⟩ a = .ok p1)
    (dK : ∀ k, ∀ i ∈ Once.targets (Once.keySel k) qn ⟨T, nx⟩ [a], i ∉ HK k) : AttrSide qn s a := by
  have tS := fun k => targets_single (Once.keySel k) qn ⟨T, nx⟩ p1 a hp
  -- the common part: the node, and freshness of a name the action mentions
  have key : ∀ (n : Path) (nd x : Tree), SU qn n [T] x → uniqueHit qn T n = .ok nd →
      ∃ m, xresolve qn s.tree n = .ok m ∧ nd.payload.attrs = stripDiff m.payload.attrs ∧
        ∀ k, Once.keySel k a = some n → k ∉ touched m.payload.attrs := by
    intro n nd x hx hh
    obtain ⟨m, hm, hin, hf, hat⟩ := node_link_attrs qn s h T nx σ r n nd x hx hh
    refine ⟨m, hm, hat, fun k hk => ?_⟩
    have hd := dK k
    rw [tS k, hk] at hd
    simp only [hh] at hd
    exact unflagged (FK k) σ s.tree T (HK k) (JK k) nd.id hin (hd nd.id (by simp)) m hf
  cases a <;> simp only [AttrSide]
  case updateAttrib n name value =>
    obtain ⟨x, hx⟩ := hsu
    simp only [applyUniq, applyWith, bind, Except.bind] at hp
    cases hh : uniqueHit qn T n with
    | error e => rw [hh] at hp; cases hp
    | ok nd =>
      obtain ⟨m, hm, _, hk⟩ := key n nd x hx hh
      intro m' hm'
      rw [hm] at hm'; injection hm' with e; subst e
      exact hk name (keySel_upd name n value)
  case deleteAttrib n name =>
    obtain ⟨x, hx⟩ := hsu
    simp only [applyUniq, applyWith, bind, Except.bind] at hp
    cases hh : uniqueHit qn T n with
    | error e => rw [hh] at hp; cases hp
    | ok nd =>
      obtain ⟨m, hm, _, hk⟩ := key n nd x hx hh
      intro m' hm'
      rw [hm] at hm'; injection hm' with e; subst e
      exact hk name (keySel_del name n)
  case insertAttrib n name value =>
    obtain ⟨x, hx⟩ := hsu
    simp only [applyUniq, applyWith, bind, Except.bind] at hp
    cases hh : uniqueHit qn T n with
    | error e => rw [hh] at hp; cases hp
    | ok nd =>
      rw [hh] at hp
      simp only at hp
      obtain ⟨m, hm, hat, hk⟩ := key n nd x hx hh
      intro m' hm'
      rw [hm] at hm'; injection hm' with e; subst e
      refine ⟨hk name (keySel_add name n value), ?_⟩
      split at hp
      · cases hp
      · next hhas =>
        have : attrHas nd.payload.attrs name = false := by simpa using hhas
        rw [hat] at this
        unfold attrHas at this
        rw [attrGet_strip _ _ han.1] at this
        cases hg : attrGet m.payload.attrs name with
        | none => rfl
        | some v => rw [hg] at this; cases this
  case renameAttrib n old new =>
    obtain ⟨x, hx⟩ := hsu
    simp only [applyUniq, applyWith, bind, Except.bind] at hp
    cases hh : uniqueHit qn T n with
    | error e => rw [hh] at hp; cases hp
    | ok nd =>
      rw [hh] at hp
      simp only at hp
      obtain ⟨m, hm, hat, hk⟩ := key n nd x hx hh
      intro m' hm'
      rw [hm] at hm'; injection hm' with e; subst e
      refine ⟨hk old (keySel_ren1 old n new), hk new (keySel_ren2 new n old), ?_⟩
      split at hp
      · cases hp
      · split at hp
        · cases hp
        · next hhas =>
          have : attrHas nd.payload.attrs new = false := by simpa using hhas
          rw [hat] at this
          unfold attrHas at this
          rw [attrGet_strip _ _ han.2.1] at this
          cases hg : attrGet m.payload.attrs new with
          | none => rfl
          | some v => rw [hg] at this; cases this

/-- two renamings that describe the same accepted view agree on the patcher's nodes -/
theorem rel_agree (σ1 σ2 : Nat → Nat) (T U : Tree) (n1 n2 : Nat) (r1 : Rel σ1 T U n1 n2) (r2 : Rel σ2 T U n1 n2) :
    ∀ l ∈ ids T, σ1 l = σ2 l := by
  have e : mapId σ1 T = mapId σ2 T := by rw [← r1.eq, ← r2.eq]
  have := congrArg ids e
  rw [ids_mapId, ids_mapId] at this
  exact List.map_inj_left.1 this

theorem jf_congr (F : Payload → Prop) (σ1 σ2 : Nat → Nat) (MT T : Tree) (H : List Nat)
    (hag : ∀ l ∈ ids T, σ1 l = σ2 l) (J : JF F σ2 MT T H) : JF F σ1 MT T H := by
  intro l hl p hp hF
  rw [hag l hl] at hp
  exact J l hl p hp hF

/-- **The flag invariant for the result of one action**, whatever renaming describes it -/
theorem step_FE (qn : QName) (s : FState) (h : FOK s) (T : Tree) (nx : Nat) (σ : Nat → Nat)
    (r : Rel σ T (acc (cln accS) s.tree) nx s.next) (F : Payload → Prop) (sel : Once.Sel) (ok : FlagOK F sel)
    (H : List Nat) (J : JF F σ s.tree T H) (a : Action) (hnc : NoComment a) (hsu : SUAct qn T a)
    (hpm : ProperMove qn T a) (hpn : PlainNames a) (htx : TextsOK a) (han : AttrNamesOK a)
    (hv : AllP ValsOK s.tree) (hor : OracleStep qn s a) (p1 : PState) (hp : applyUniq qn ⟨T, nx⟩ a = .ok p1)
    (s1 : FState) (σ1 : Nat → Nat) (e1 : applyFmt qn s a = .ok s1)
    (r1 : Rel σ1 p1.tree (acc (cln accS) s1.tree) p1.next s1.next) :
    JF F σ1 s1.tree p1.tree (H ++ Once.targets sel qn ⟨T, nx⟩ [a]) := by
  by_cases hmv : ∃ n tgt pos, a = .moveNode n tgt pos
  · obtain ⟨n, tgt, pos, rfl⟩ := hmv
    obtain ⟨s', σ', f1, f2, _, f4⟩ := move_sim_J qn s h T nx σ r n tgt pos hsu hpm p1 hp
    rw [e1] at f1
    injection f1 with f1
    subst f1
    have := f4 F H ok.insAttr J
    exact jf_mono F σ1 _ _ H _ (mem_append_left' _ _) (jf_congr F σ1 σ' _ _ H (rel_agree σ1 σ' _ _ _ _ r1 f2) this)
  · have hsim : Simulated a := by
      cases a <;> simp only [Simulated, NoComment] at hnc ⊢
      case moveNode n tgt pos => exact hmv ⟨n, tgt, pos, rfl⟩
    obtain ⟨s', σ', f1, f2, f3⟩ := step_F qn s h T nx σ r F sel ok H J a hsim hsu hpn htx han hv hor p1 hp
    rw [e1] at f1
    injection f1 with f1
    subst f1
    exact jf_congr F σ1 σ' _ _ _ (rel_agree σ1 σ' _ _ _ _ r1 f2) f3

/-- **The attribute invariant along the whole run** (engine inside) -/
theorem run_E_attr (w : Bool) (bis : Bisect) (qn : QName) (L : Tree) (script : List Action) (s : FState) (h : FOK s)
    (inv : ROK s) (T : Tree) (nx : Nat) (σ : Nat → Nat) (r : Rel σ T (acc (cln accS) s.tree) nx s.next)
    (HR HT HA : List Nat) (J : JAll w σ s.tree T HR HT HA) (fi : FInv s) (HK : Str → List Nat)
    (JK : ∀ k, JF (FK k) σ s.tree T (HK k)) (hv : AllP ValsOK s.tree) (K : KAll L s.tree)
    (hst : ∀ a ∈ script, NoComment a ∧ PlainNames a ∧ TextsOK a ∧ ShortTexts w a ∧ AttrNamesOK a ∧ ActValsOK a)
    (hpaths : PathsOK qn ⟨T, nx⟩ script)
    (nR : (HR ++ Once.targets Once.renSel qn ⟨T, nx⟩ script).Nodup)
    (nT : (HT ++ Once.targets Once.textSel qn ⟨T, nx⟩ script).Nodup)
    (nA : (HA ++ Once.targets Once.tailSel qn ⟨T, nx⟩ script).Nodup)
    (nK : ∀ k, (HK k ++ Once.targets (Once.keySel k) qn ⟨T, nx⟩ script).Nodup)
    (p' : PState) (hp : runUniq qn ⟨T, nx⟩ script = .ok p') (s' : FState)
    (hrun : runFmtE w bis qn s script = .ok s') : KAll L s'.tree := by
  induction script generalizing s T nx σ HR HT HA HK with
  | nil =>
    simp only [runFmtE, Except.ok.injEq] at hrun
    subst hrun
    exact K
  | cons a rest ih =>
    obtain ⟨p1, h1, h2⟩ := Chw.runUniq_cons_inv qn _ p' a rest hp
    obtain ⟨hsa, hpm, hsr⟩ := hpaths
    obtain ⟨ha1, ha2, ha3, ha4, ha5, ha6⟩ := hst a (by simp)
    rw [targets_cons _ qn ⟨T, nx⟩ p1 a rest h1] at nR nT nA
    have nK' : ∀ k, (HK k ++ (Once.targets (Once.keySel k) qn ⟨T, nx⟩ [a] ++
        Once.targets (Once.keySel k) qn p1 rest)).Nodup := by
      intro k; rw [← targets_cons _ qn ⟨T, nx⟩ p1 a rest h1]; exact nK k
    obtain ⟨s1, σ1, e1, e2, e3, e4, _, e6⟩ := step_E w bis qn s h inv T nx σ r HR HT HA J a ha1 hsa hpm ha2 ha3 ha4 p1 h1
      (disjoint_of_nodup nR) (disjoint_of_nodup nT) (disjoint_of_nodup nA)
    obtain ⟨ho, _⟩ := sides_of_J w bis qn s h T nx σ r HR HT HA J a hsa ha3 ha4 p1 h1
      (disjoint_of_nodup nR) (disjoint_of_nodup nT) (disjoint_of_nodup nA)
    have hso := segsOK_feed w bis qn s h T nx σ r HR HT HA J a hsa ha3 ha4 p1 h1 (disjoint_of_nodup nT)
      (disjoint_of_nodup nA) fi.segs
    obtain ⟨sg, hfe⟩ := feed_eq w bis qn s a
    rw [hfe] at hso e1 ho
    have h0 : FOK { s with segs := sg } := fok_segs s sg h
    have fi0 : FInv { s with segs := sg } := ⟨fi.base, fi.marked, fi.norep, hso⟩
    obtain ⟨fi1, _⟩ := applyFmt_inv qn _ s1 a fi0 (actLow_of_textsOK a ha3) e1
    have r0 : Rel σ T (acc (cln accS) ({ s with segs := sg } : FState).tree) nx ({ s with segs := sg } : FState).next := r
    have hv0 : AllP ValsOK ({ s with segs := sg } : FState).tree := hv
    have K0 : KAll L ({ s with segs := sg } : FState).tree := K
    have JK0 : ∀ k, JF (FK k) σ ({ s with segs := sg } : FState).tree T (HK k) := JK
    have hv1 := applyFmt_vals qn { s with segs := sg } s1 a h.tok.nodup fi0 hv0 ha6 ha5 e1
    have hside := attrSide_of_J qn { s with segs := sg } h0 T nx σ r0 HK JK0 a hsa ha5 p1 h1
      (fun k => disjoint_of_nodup (nK' k))
    have K1 := step_K L qn { s with segs := sg } s1 a h.tok.nodup h.tok.fresh fi0 hv0 K0 ha5 hside e1
    have JK1 : ∀ k, JF (FK k) σ1 s1.tree p1.tree (HK k ++ Once.targets (Once.keySel k) qn ⟨T, nx⟩ [a]) :=
      fun k => step_FE qn { s with segs := sg } h0 T nx σ r0 (FK k) (Once.keySel k) (flagOK_key k) (HK k) (JK0 k) a ha1
        hsa hpm ha2 ha3 ha5 hv0 ho p1 h1 s1 σ1 e1 e2
    simp only [runFmtE, hfe, e1] at hrun
    exact ih s1 e3 e4 p1.tree p1.next σ1 e2 _ _ _ e6 fi1 _ JK1 hv1 K1 (fun b hb => hst b (by simp [hb]))
      (hsr p1 h1) (by rw [List.append_assoc]; exact nR) (by rw [List.append_assoc]; exact nT)
      (by rw [List.append_assoc]; exact nA) (fun k => by rw [List.append_assoc]; exact nK' k) h2 hrun

end Acc
end XmlDiffModel
