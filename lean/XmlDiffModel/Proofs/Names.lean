/-
Attribute names of a differ script: an attribute that an action adds (insert, the new name of a rename) is an
attribute name of the right document; every other attribute an action names is an attribute of the node it is applied
to.  Hence, when no attribute of the two documents is in the `diff:` namespace, no action names one (`PlainNames`).
-/
import XmlDiffModel.Proofs.Acc5
import XmlDiffModel.Proofs.AttrCount

namespace XmlDiffModel
namespace Names
open Tree XmlDiffModel.Acc

/-! ### a predicate on every payload of a tree -/

mutual
  def AllP (Q : Payload → Prop) : Tree → Prop
    | .node _ p ks => Q p ∧ AllPL Q ks
  def AllPL (Q : Payload → Prop) : List Tree → Prop
    | [] => True
    | t :: ts => AllP Q t ∧ AllPL Q ts
end

theorem allPL_iff (Q : Payload → Prop) (ts : List Tree) : AllPL Q ts ↔ ∀ t ∈ ts, AllP Q t := by
  induction ts with
  | nil => simp [AllPL]
  | cons x xs ih => simp [AllPL, ih]

mutual
  theorem allP_modify (Q : Payload → Prop) (i : Nat) (f : Payload → Payload) (hf : ∀ p, Q p → Q (f p))
      (t : Tree) (h : AllP Q t) : AllP Q (modify i f t) := by
    match t with
    | .node j p ks =>
      simp only [AllP] at h
      unfold Tree.modify
      split
      · simp only [AllP]; exact ⟨hf p h.1, h.2⟩
      · simp only [AllP]; exact ⟨h.1, allPL_modify Q i f hf ks h.2⟩
  theorem allPL_modify (Q : Payload → Prop) (i : Nat) (f : Payload → Payload) (hf : ∀ p, Q p → Q (f p))
      (ts : List Tree) (h : AllPL Q ts) : AllPL Q (modifyL i f ts) := by
    match ts with
    | [] => simp [modifyL, AllPL]
    | t :: rest =>
      simp only [AllPL] at h
      simp only [modifyL, AllPL]
      exact ⟨allP_modify Q i f hf t h.1, allPL_modify Q i f hf rest h.2⟩
end

mutual
  theorem allP_insertChild (Q : Payload → Prop) (i pos : Nat) (sub : Tree) (hs : AllP Q sub) (t : Tree)
      (h : AllP Q t) : AllP Q (insertChild i pos sub t) := by
    match t with
    | .node j p ks =>
      simp only [AllP] at h
      unfold insertChild
      split
      · simp only [AllP]
        refine ⟨h.1, ?_⟩
        rw [allPL_iff] at h ⊢
        intro x hx
        simp only [insertAt, List.mem_append, List.mem_cons] at hx
        rcases hx with hx | rfl | hx
        · exact h.2 x (List.mem_of_mem_take hx)
        · exact hs
        · exact h.2 x (List.mem_of_mem_drop hx)
      · simp only [AllP]; exact ⟨h.1, allPL_insertChildL Q i pos sub hs ks h.2⟩
  theorem allPL_insertChildL (Q : Payload → Prop) (i pos : Nat) (sub : Tree) (hs : AllP Q sub) (ts : List Tree)
      (h : AllPL Q ts) : AllPL Q (insertChildL i pos sub ts) := by
    match ts with
    | [] => simp [insertChildL, AllPL]
    | t :: rest =>
      simp only [AllPL] at h
      simp only [insertChildL, AllPL]
      exact ⟨allP_insertChild Q i pos sub hs t h.1, allPL_insertChildL Q i pos sub hs rest h.2⟩
end

mutual
  theorem allP_remove (Q : Payload → Prop) (i : Nat) (t : Tree) (h : AllP Q t) : AllP Q (remove i t) := by
    match t with
    | .node j p ks =>
      simp only [AllP] at h
      simp only [remove, AllP]
      exact ⟨h.1, allPL_removeL Q i ks h.2⟩
  theorem allPL_removeL (Q : Payload → Prop) (i : Nat) (ts : List Tree) (h : AllPL Q ts) :
      AllPL Q (removeL i ts) := by
    match ts with
    | [] => simp [removeL, AllPL]
    | t :: rest =>
      simp only [AllPL] at h
      simp only [removeL]
      split
      · exact h.2
      · simp only [AllPL]
        exact ⟨allP_remove Q i t h.1, allPL_removeL Q i rest h.2⟩
end

mutual
  theorem allP_find (Q : Payload → Prop) (i : Nat) (t n : Tree) (hf : find i t = some n) (h : AllP Q t) :
      AllP Q n := by
    match t with
    | .node j p ks =>
      unfold find at hf
      split at hf
      · injection hf with hf; subst hf; exact h
      · simp only [AllP] at h
        exact allPL_findL Q i ks n hf h.2
  theorem allPL_findL (Q : Payload → Prop) (i : Nat) (ts : List Tree) (n : Tree) (hf : findL i ts = some n)
      (h : AllPL Q ts) : AllP Q n := by
    match ts with
    | [] => simp [findL] at hf
    | t :: rest =>
      simp only [AllPL] at h
      unfold findL at hf
      cases hft : find i t with
      | some r =>
        rw [hft] at hf
        injection hf with hf
        subst hf
        exact allP_find Q i t r hft h.1
      | none =>
        rw [hft] at hf
        exact allPL_findL Q i rest n hf h.2
end

theorem allP_root (Q : Payload → Prop) (t : Tree) (h : AllP Q t) : Q t.payload := by
  cases t; simp only [AllP] at h; exact h.1

/-! ### new names come from the right node -/

/-- the attribute names an action adds satisfy `S` -/
def NewNamesIn (S : Str → Prop) : Action → Prop
  | .insertAttrib _ k _ => S k
  | .renameAttrib _ _ b => S b
  | _ => True

theorem attrUpdates_new (S : Str → Prop) (path : Path) (ras : Attrs) (ks : List Str) (las : Attrs) (out : List Action) :
    ∃ ext : List Action, (attrUpdates path ras ks las out).2 = ext.reverse ++ out ∧ ∀ a ∈ ext, NewNamesIn S a := by
  induction ks generalizing las out with
  | nil => exact ⟨[], by simp [attrUpdates], fun a ha => by cases ha⟩
  | cons k ks ih =>
    simp only [attrUpdates]
    cases hl : attrGet las k with
    | none => simpa using ih las out
    | some lv =>
      cases hr : attrGet ras k with
      | none => simpa using ih las out
      | some rv =>
        simp only
        split
        · obtain ⟨ext, he, hn⟩ := ih (attrSet las k rv) (.updateAttrib path k rv :: out)
          refine ⟨.updateAttrib path k rv :: ext, by rw [he]; simp, ?_⟩
          intro a ha
          simp only [List.mem_cons] at ha
          rcases ha with rfl | ha
          · trivial
          · exact hn a ha
        · exact ih las out

theorem attrRenames_new (S : Str → Prop) (path : Path) (lks : List Str) (las nmap : Attrs) (newKeys : List Str)
    (out : List Action) (hm : ∀ v rk, attrGet nmap v = some rk → S rk) :
    ∃ ext : List Action, (attrRenames path lks las nmap newKeys out).2.2 = ext.reverse ++ out ∧ ∀ a ∈ ext, NewNamesIn S a := by
  induction lks generalizing las nmap newKeys out with
  | nil => exact ⟨[], by simp [attrRenames], fun a ha => by cases ha⟩
  | cons lk lks ih =>
    simp only [attrRenames]
    cases hl : attrGet las lk with
    | none => simpa using ih las nmap newKeys out hm
    | some value =>
      simp only
      cases hmv : attrGet nmap value with
      | none => simpa using ih las nmap newKeys out hm
      | some rk =>
        simp only
        obtain ⟨ext, he, hn⟩ := ih (attrDel (attrSet las rk value) lk) (attrDel nmap value)
          (newKeys.filter (· ≠ rk)) (.renameAttrib path lk rk :: out)
          (fun v r h => hm v r (AttrCount.attrGet_attrDel_some nmap value v r h))
        refine ⟨.renameAttrib path lk rk :: ext, by rw [he]; simp, ?_⟩
        intro a ha
        simp only [List.mem_cons] at ha
        rcases ha with rfl | ha
        · exact hm value rk hmv
        · exact hn a ha

theorem attrInserts_new (S : Str → Prop) (path : Path) (ras : Attrs) (ks : List Str) (las : Attrs) (out : List Action)
    (hS : ∀ k, k ∈ keys ras → S k) :
    ∃ ext : List Action, (attrInserts path ras ks las out).2 = ext.reverse ++ out ∧ ∀ a ∈ ext, NewNamesIn S a := by
  induction ks generalizing las out with
  | nil => exact ⟨[], by simp [attrInserts], fun a ha => by cases ha⟩
  | cons k ks ih =>
    simp only [attrInserts]
    cases hr : attrGet ras k with
    | none => simpa using ih las out
    | some rv =>
      simp only
      obtain ⟨ext, he, hn⟩ := ih (attrSet las k rv) (.insertAttrib path k rv :: out)
      refine ⟨.insertAttrib path k rv :: ext, by rw [he]; simp, ?_⟩
      intro a ha
      simp only [List.mem_cons] at ha
      rcases ha with rfl | ha
      · exact hS k ((attrGet_some_iff ras k).1 ⟨rv, hr⟩)
      · exact hn a ha

theorem attrDeletes_new (S : Str → Prop) (path : Path) (ks : List Str) (las : Attrs) (out : List Action) :
    ∃ ext : List Action, (attrDeletes path ks las out).2 = ext.reverse ++ out ∧ ∀ a ∈ ext, NewNamesIn S a := by
  induction ks generalizing las out with
  | nil => exact ⟨[], by simp [attrDeletes], fun a ha => by cases ha⟩
  | cons k ks ih =>
    simp only [attrDeletes]
    split
    · obtain ⟨ext, he, hn⟩ := ih (attrDel las k) (.deleteAttrib path k :: out)
      refine ⟨.deleteAttrib path k :: ext, by rw [he]; simp, ?_⟩
      intro a ha
      simp only [List.mem_cons] at ha
      rcases ha with rfl | ha
      · trivial
      · exact hn a ha
    · exact ih las out

/-- what `update_node_attr` emits adds only attribute names of the right node -/
theorem updateAttrs_new (ign : List Str) (path : Path) (las ras : Attrs) (out : List Action) :
    ∃ ext : List Action, (updateAttrs ign path las ras out).2 = ext.reverse ++ out ∧
      ∀ a ∈ ext, NewNamesIn (fun k => k ∈ keys ras) a := by
  unfold updateAttrs
  dsimp only
  generalize (nodeAttribs ign las).map (·.1) = lkeys
  generalize hrk : (nodeAttribs ign ras).map (·.1) = rkeys
  have hrsub : ∀ k ∈ rkeys, k ∈ keys ras := by
    intro k hk
    rw [← hrk] at hk
    exact ((mem_nodeAttribs_keys ign ras k).1 hk).1
  obtain ⟨e1, h1, n1⟩ := attrUpdates_new (fun k => k ∈ keys ras) path ras
    (sortStrs (lkeys.filter fun k => rkeys.contains k)) las out
  generalize attrUpdates path ras (sortStrs (lkeys.filter fun k => rkeys.contains k)) las out = r1 at h1 ⊢
  obtain ⟨las1, out1⟩ := r1
  simp only at h1 ⊢
  obtain ⟨e2, h2, n2⟩ := attrRenames_new (fun k => k ∈ keys ras) path
    (sortStrs (lkeys.filter fun k => !rkeys.contains k)) las1
    (newAttrMap ras (rkeys.filter fun k => !lkeys.contains k)) (rkeys.filter fun k => !lkeys.contains k) out1
    (fun v rk h => hrsub rk (List.mem_filter.1 (AttrCount.newAttrMap_range ras _ v rk h)).1)
  generalize attrRenames path (sortStrs (lkeys.filter fun k => !rkeys.contains k)) las1
    (newAttrMap ras (rkeys.filter fun k => !lkeys.contains k))
    (rkeys.filter fun k => !lkeys.contains k) out1 = r2 at h2 ⊢
  obtain ⟨las2, newKeys2, out2⟩ := r2
  simp only at h2 ⊢
  obtain ⟨e3, h3, n3⟩ := attrInserts_new (fun k => k ∈ keys ras) path ras (sortStrs newKeys2) las2 out2 (fun k hk => hk)
  generalize attrInserts path ras (sortStrs newKeys2) las2 out2 = r3 at h3 ⊢
  obtain ⟨las3, out3⟩ := r3
  simp only at h3 ⊢
  obtain ⟨e4, h4, n4⟩ := attrDeletes_new (fun k => k ∈ keys ras) path
    (sortStrs (lkeys.filter fun k => !rkeys.contains k)) las3 out3
  refine ⟨e1 ++ (e2 ++ (e3 ++ e4)), ?_, ?_⟩
  · rw [h4, h3, h2, h1]; simp
  · intro a ha
    simp only [List.mem_append] at ha
    rcases ha with ha | ha | ha | ha
    · exact n1 a ha
    · exact n2 a ha
    · exact n3 a ha
    · exact n4 a ha

/-! ### the patcher keeps attribute names plain -/

def KeysPlain (p : Payload) : Prop := ∀ kv ∈ p.attrs, isDiffKey kv.1 = false

theorem plain_of_mem (as : Attrs) (h : ∀ kv ∈ as, isDiffKey kv.1 = false) (k : Str) (hk : k ∈ keys as) :
    isDiffKey k = false := by
  obtain ⟨kv, hkv, e⟩ := List.mem_map.1 hk
  rw [← e]; exact h kv hkv

theorem keysPlain_of_keys (as : Attrs) (h : ∀ k ∈ keys as, isDiffKey k = false) :
    ∀ kv ∈ as, isDiffKey kv.1 = false :=
  fun kv hkv => h kv.1 (List.mem_map.2 ⟨kv, hkv, rfl⟩)

theorem keysPlain_attrSet (as : Attrs) (k v : Str) (h : ∀ kv ∈ as, isDiffKey kv.1 = false) (hk : isDiffKey k = false) :
    ∀ kv ∈ attrSet as k v, isDiffKey kv.1 = false := by
  apply keysPlain_of_keys
  intro x hx
  rcases (mem_keys_attrSet as k v x).1 hx with hx | rfl
  · exact plain_of_mem as h x hx
  · exact hk

theorem keysPlain_attrDel (as : Attrs) (k : Str) (h : ∀ kv ∈ as, isDiffKey kv.1 = false) :
    ∀ kv ∈ attrDel as k, isDiffKey kv.1 = false := by
  apply keysPlain_of_keys
  intro x hx
  exact plain_of_mem as h x ((mem_keys_attrDel as k x).1 hx).1

/-- one patcher step: if the tree's attribute names are plain and the names the action adds are plain, every name the
action mentions is plain, and the resulting tree's names are plain -/
theorem plain_step (qn : QName) (T : Tree) (nx : Nat) (hn : (ids T).Nodup) (hkp : AllP KeysPlain T) (a : Action)
    (hnew : NewNamesIn (fun k => isDiffKey k = false) a) (p1 : PState) (hp : applyUniq qn ⟨T, nx⟩ a = .ok p1) :
    PlainNames a ∧ AllP KeysPlain p1.tree := by
  have hnode : ∀ path n, uniqueHit qn T path = .ok n → KeysPlain n.payload := by
    intro path n hh
    exact allP_root _ n (allP_find _ n.id T n (MapId.uniqueHit_find qn T hn path n hh) hkp)
  cases a <;> simp only [applyUniq, applyWith, bind, Except.bind] at hp
  case deleteNode n =>
    cases hh : uniqueHit qn T n with
    | error e => rw [hh] at hp; cases hp
    | ok nd =>
      rw [hh] at hp
      simp only at hp
      split at hp
      · cases hp
      · simp only [Except.ok.injEq] at hp; subst hp
        exact ⟨trivial, allP_remove _ _ _ hkp⟩
  case insertNode tgt tag pos =>
    cases hh : uniqueHit qn T tgt with
    | error e => rw [hh] at hp; cases hp
    | ok tg =>
      rw [hh] at hp
      simp only [Except.ok.injEq] at hp; subst hp
      refine ⟨trivial, allP_insertChild _ _ _ _ ?_ _ hkp⟩
      simp only [AllP, AllPL, and_true, KeysPlain, elemPayload]
      intro kv hkv; cases hkv
  case insertComment tgt pos text =>
    cases hh : uniqueHit qn T tgt with
    | error e => rw [hh] at hp; cases hp
    | ok tg =>
      rw [hh] at hp
      simp only [Except.ok.injEq] at hp; subst hp
      refine ⟨trivial, allP_insertChild _ _ _ _ ?_ _ hkp⟩
      simp only [AllP, AllPL, and_true, KeysPlain, commentPayload]
      intro kv hkv; cases hkv
  case renameNode n tag =>
    cases hh : uniqueHit qn T n with
    | error e => rw [hh] at hp; cases hp
    | ok nd =>
      rw [hh] at hp
      simp only [Except.ok.injEq] at hp; subst hp
      exact ⟨trivial, by apply allP_modify _ _ _ _ _ hkp; intro p h; exact h⟩
  case moveNode n tgt pos =>
    cases hh : uniqueHit qn T n with
    | error e => rw [hh] at hp; cases hp
    | ok nd =>
      rw [hh] at hp
      simp only at hp
      cases ht : uniqueHit qn T tgt with
      | error e => rw [ht] at hp; cases hp
      | ok tg =>
        rw [ht] at hp
        simp only at hp
        split at hp
        · cases hp
        · simp only [Except.ok.injEq] at hp; subst hp
          refine ⟨trivial, allP_insertChild _ _ _ _ ?_ _ (allP_remove _ _ _ hkp)⟩
          exact allP_find _ nd.id T nd (MapId.uniqueHit_find qn T hn n nd hh) hkp
  case updateTextIn n t =>
    cases hh : uniqueHit qn T n with
    | error e => rw [hh] at hp; cases hp
    | ok nd =>
      rw [hh] at hp
      simp only [Except.ok.injEq] at hp; subst hp
      exact ⟨trivial, by apply allP_modify _ _ _ _ _ hkp; intro p h; exact h⟩
  case updateTextAfter n t =>
    cases hh : uniqueHit qn T n with
    | error e => rw [hh] at hp; cases hp
    | ok nd =>
      rw [hh] at hp
      simp only [Except.ok.injEq] at hp; subst hp
      exact ⟨trivial, by apply allP_modify _ _ _ _ _ hkp; intro p h; exact h⟩
  case updateAttrib n name value =>
    cases hh : uniqueHit qn T n with
    | error e => rw [hh] at hp; cases hp
    | ok nd =>
      rw [hh] at hp
      simp only at hp
      split at hp
      · cases hp
      · next hc =>
        simp only [Except.ok.injEq] at hp; subst hp
        have hhas : attrHas nd.payload.attrs name = true := by simpa using hc
        have hpl : isDiffKey name = false :=
          plain_of_mem _ (hnode n nd hh) name ((attrHas_iff _ _).1 hhas)
        exact ⟨hpl, allP_modify _ _ _ (fun p h => keysPlain_attrSet p.attrs name value h hpl) _ hkp⟩
  case deleteAttrib n name =>
    cases hh : uniqueHit qn T n with
    | error e => rw [hh] at hp; cases hp
    | ok nd =>
      rw [hh] at hp
      simp only at hp
      split at hp
      · cases hp
      · next hc =>
        simp only [Except.ok.injEq] at hp; subst hp
        have hhas : attrHas nd.payload.attrs name = true := by simpa using hc
        have hpl : isDiffKey name = false :=
          plain_of_mem _ (hnode n nd hh) name ((attrHas_iff _ _).1 hhas)
        exact ⟨hpl, allP_modify _ _ _ (fun p h => keysPlain_attrDel p.attrs name h) _ hkp⟩
  case insertAttrib n name value =>
    cases hh : uniqueHit qn T n with
    | error e => rw [hh] at hp; cases hp
    | ok nd =>
      rw [hh] at hp
      simp only at hp
      split at hp
      · cases hp
      · simp only [Except.ok.injEq] at hp; subst hp
        have hpl : isDiffKey name = false := hnew
        exact ⟨hpl, allP_modify _ _ _ (fun p h => keysPlain_attrSet p.attrs name value h hpl) _ hkp⟩
  case renameAttrib n old new =>
    cases hh : uniqueHit qn T n with
    | error e => rw [hh] at hp; cases hp
    | ok nd =>
      rw [hh] at hp
      simp only at hp
      split at hp
      · cases hp
      · next v hv =>
        split at hp
        · cases hp
        · simp only [Except.ok.injEq] at hp; subst hp
          have hpo : isDiffKey old = false :=
            plain_of_mem _ (hnode n nd hh) old ((attrGet_some_iff _ _).1 ⟨v, hv⟩)
          have hpn : isDiffKey new = false := hnew
          exact ⟨⟨hpo, hpn⟩, allP_modify _ _ _
            (fun p h => keysPlain_attrDel _ old (keysPlain_attrSet p.attrs new v h hpn)) _ hkp⟩
  case insertNamespace => simp only [Except.ok.injEq] at hp; subst hp; exact ⟨trivial, hkp⟩
  case deleteNamespace => simp only [Except.ok.injEq] at hp; subst hp; exact ⟨trivial, hkp⟩

end Names
end XmlDiffModel
