/-
The whole pipeline model: match, generate the script, format it with the engine inside, finalize - and project.
Accepting every change gives the right document (as a value: ids and the order of attributes aside), rejecting every
change gives the left document without its attributes.
-/
import XmlDiffModel.Proofs.Fin4
import XmlDiffModel.Proofs.RejAttr6
import XmlDiffModel.Props.C01

namespace XmlDiffModel
namespace Fin
open Tree Undo TextMark XmlDiffModel.Acc XmlDiffModel.Rej XmlDiffModel.Names XmlDiffModel.Along MapId Chw

mutual
  theorem docEq_mapId (ign : List Str) (σ : Nat → Nat) (a b : Tree) (h : docEq ign a b) : docEq ign (mapId σ a) b := by
    match a, b with
    | .node i p ks, .node j q ls =>
      simp only [docEq] at h
      simp only [mapId, docEq]
      exact ⟨h.1, docEqL_mapIdL ign σ ks ls h.2⟩
  theorem docEqL_mapIdL (ign : List Str) (σ : Nat → Nat) (as bs : List Tree) (h : docEqL ign as bs) :
      docEqL ign (mapIdL σ as) bs := by
    match as, bs with
    | [], [] => simp [mapIdL, docEqL]
    | a :: as, b :: bs =>
      simp only [docEqL] at h
      simp only [mapIdL, docEqL]
      exact ⟨docEq_mapId ign σ a b h.1, docEqL_mapIdL ign σ as bs h.2⟩
    | [], _ :: _ => simp [docEqL] at h
    | _ :: _, [] => simp [docEqL] at h
end

theorem docEq_setTail (ign : List Str) (a b : Tree) (h : docEq ign a b) :
    docEq ign (setTailT none a) (setTailT none b) := by
  cases a with
  | node i p ks =>
    cases b with
    | node j q ls =>
      simp only [docEq] at h
      simp only [setTailT, docEq]
      obtain ⟨⟨h1, h2, h3, _, h5⟩, h6⟩ := h
      exact ⟨⟨h1, h2, h3, rfl, h5⟩, h6⟩

/-- **diff, format, finalize, project** -/
theorem pipeline (bis : Dmp.Bisect) (sim : Sim) (qn : QName) (cfg : Cfg) (L R : Tree) (fresh : Nat) (ft : List Str)
    (w : Bool) (hF : 0 < cfg.F)
    (hclean : CleanT L) (hshort : AllP (ShortP w) L) (htag : AllP TagOK L) (hkL : L.payload.kind = .elem)
    (hL : (ids L).Nodup) (hRn : (ids R).Nodup) (hdisj : ∀ i ∈ ids L, i ∉ ids R)
    (hfL : ∀ i ∈ ids L, i < fresh) (hfR : ∀ i ∈ ids R, i < fresh)
    (hR : ∀ x ∈ bfs R, (keys x.payload.attrs).Nodup ∧ XClean (fun k => isDiffKey k = false) x ∧ ShortP w x.payload ∧
      TagOK x.payload) :
    ∃ script final s' out after,
      scriptGen qn cfg L R (matchNodes cfg sim L R) fresh = .ok (script, final) ∧
      runFmtE w bis qn (fstate0 L fresh ft [] w) script = .ok s' ∧
      (∃ N, ∀ f, N ≤ f → undoElement f s'.ph diffElemList s'.tree = .ok (out, after)) ∧
      PlainT s'.ph out ∧
      docEq cfg.ignored (accFT out) (setTailT none R) ∧ rejFT out = setTailT none (bare L) := by
  have hroot : L.payload.kind = R.payload.kind := by
    have hr : R ∈ bfs R := by
      obtain ⟨x, hx, hid⟩ := bfs_covers R R.id (by cases R; simp [ids, Tree.id])
      have h1 := bfs_sub R hRn x hx
      rw [hid, find_self] at h1
      injection h1 with h1
      exact h1 ▸ hx
    rw [hkL, (hR R hr).2.1.1]
  have hA : ∀ x ∈ bfs R, (keys x.payload.attrs).Nodup := fun x hx => (hR x hx).1
  have hC : ∀ x ∈ bfs R, x.payload.kind = .comment → x.payload.tag = [] := fun x hx hk => by
    rw [(hR x hx).2.1.1] at hk; cases hk
  have hM := matchNodes_good cfg sim L R hF hL hRn hroot
  obtain ⟨script, final, nx, hs, _, hd⟩ := C01_roundtrip qn cfg L R fresh sim hF hL hRn hdisj hfL hfR hroot hA hC
  obtain ⟨s', σ, out, after, h1, h2, h3, _, h5, h6⟩ := differ_script_output bis qn cfg L R _ fresh script final ft w
    hclean hshort htag hL hRn hdisj hfL hfR hM hR hs
  refine ⟨script, final, s', out, after, hs, h1, h2, h3, ?_, h6⟩
  rw [h5]
  exact docEq_setTail _ _ _ (docEq_mapId _ σ final R hd)

/-- **diff, format, finalize, reject - with the attributes**: the reject-all projection that decodes the attribute
annotations (`rejFTA`) has the shape of the left document, and every node of it has the attributes of the left
document's node with the same id - the value of a deleted attribute aside, which the markup does not record. -/
theorem pipeline_attrs (bis : Dmp.Bisect) (sim : Sim) (qn : QName) (cfg : Cfg) (L R : Tree) (fresh : Nat) (ft : List Str)
    (w : Bool) (hF : 0 < cfg.F)
    (hclean : CleanT L) (hshort : AllP (ShortP w) L) (htag : AllP TagOK L) (hkL : L.payload.kind = .elem)
    (hL : (ids L).Nodup) (hRn : (ids R).Nodup) (hdisj : ∀ i ∈ ids L, i ∉ ids R)
    (hfL : ∀ i ∈ ids L, i < fresh) (hfR : ∀ i ∈ ids R, i < fresh)
    (hR : ∀ x ∈ bfs R, (keys x.payload.attrs).Nodup ∧ XClean (fun k => isDiffKey k = false) x ∧ ShortP w x.payload ∧
      TagOK x.payload)
    (hLa : AllP (AttrFit.PairsP nameOKb valOKb) L)
    (hRa : ∀ x ∈ bfs R, AttrFit.PairsOK nameOKb valOKb x.payload.attrs) :
    ∃ script final s' out after,
      scriptGen qn cfg L R (matchNodes cfg sim L R) fresh = .ok (script, final) ∧
      runFmtE w bis qn (fstate0 L fresh ft [] w) script = .ok s' ∧
      (∃ N, ∀ f, N ≤ f → undoElement f s'.ph diffElemList s'.tree = .ok (out, after)) ∧
      bare (rejFTA out) = setTailT none (bare L) ∧
      ∀ i p, payOf (rejFTA out) i = some p → ∃ q, payOf L i = some q ∧ AttrBack p.attrs q.attrs := by
  have hroot : L.payload.kind = R.payload.kind := by
    have hr : R ∈ bfs R := by
      obtain ⟨x, hx, hid⟩ := bfs_covers R R.id (by cases R; simp [ids, Tree.id])
      have h1 := bfs_sub R hRn x hx
      rw [hid, find_self] at h1
      injection h1 with h1
      exact h1 ▸ hx
    rw [hkL, (hR R hr).2.1.1]
  have hA : ∀ x ∈ bfs R, (keys x.payload.attrs).Nodup := fun x hx => (hR x hx).1
  have hC : ∀ x ∈ bfs R, x.payload.kind = .comment → x.payload.tag = [] := fun x hx hk => by
    rw [(hR x hx).2.1.1] at hk; cases hk
  have hM := matchNodes_good cfg sim L R hF hL hRn hroot
  obtain ⟨script, final, nx, hs, _, _⟩ := C01_roundtrip qn cfg L R fresh sim hF hL hRn hdisj hfL hfR hroot hA hC
  obtain ⟨s', out, after, h1, h2, h3, h4⟩ := differ_script_output_attrs bis qn cfg L R _ fresh script final ft w
    hclean hshort htag hL hRn hdisj hfL hfR hM hR hLa hRa hs
  exact ⟨script, final, s', out, after, hs, h1, h2, h3, h4⟩

end Fin
end XmlDiffModel
