/- Lemmas for the option plumbing of main.py. -/
import XmlDiffModel.Model.Api

namespace XmlDiffModel

theorem splitOn_not_mem (c : Char) (a : Str) (h : c ∉ a) : splitOn c a = [a] := by
  induction a with
  | nil => simp [splitOn]
  | cons x xs ih =>
    simp only [List.mem_cons, not_or] at h
    simp only [splitOn, ih h.2]
    have : ¬ x = c := fun e => h.1 e.symm
    simp [this]

theorem splitOn_append (c : Char) (a b : Str) (h : c ∉ a) :
    splitOn c (a ++ c :: b) = a :: splitOn c b := by
  induction a with
  | nil =>
    simp only [List.nil_append, splitOn]
    cases hb : splitOn c b with
    | nil =>
      -- splitOn never returns []
      exfalso
      cases b with
      | nil => simp [splitOn] at hb
      | cons y ys =>
        simp only [splitOn] at hb
        split at hb <;> (try split at hb) <;> simp at hb
    | cons cur rest => simp
  | cons x xs ih =>
    simp only [List.mem_cons, not_or] at h
    simp only [List.cons_append, splitOn, ih h.2]
    have : ¬ x = c := fun e => h.1 e.symm
    simp [this]

def renderUAttr : UAttr → Str
  | .plain a => a
  | .tagged t a => t ++ '@' :: a

def joinComma : List Str → Str
  | [] => []
  | [x] => x
  | x :: y :: rest => x ++ ',' :: joinComma (y :: rest)

/-- A name that can be written in `--unique-attributes` / `--ignored-attributes`. -/
def PlainName (s : Str) : Prop := ',' ∉ s ∧ '@' ∉ s

def UAttrOK : UAttr → Prop
  | .plain a => PlainName a
  | .tagged t a => PlainName t ∧ ',' ∉ a

theorem splitOn_joinComma (xs : List Str) (hne : xs ≠ []) (h : ∀ x ∈ xs, ',' ∉ x) :
    splitOn ',' (joinComma xs) = xs := by
  induction xs with
  | nil => exact absurd rfl hne
  | cons x rest ih =>
    cases rest with
    | nil => simp [joinComma, splitOn_not_mem ',' x (h x (by simp))]
    | cons y ys =>
      simp only [joinComma]
      rw [splitOn_append ',' x _ (h x (by simp))]
      rw [ih (by simp) (fun z hz => h z (by simp [hz]))]

theorem takeWhile_append_of_not_mem (c : Char) (a b : Str) (h : c ∉ a) :
    (a ++ c :: b).takeWhile (· ≠ c) = a := by
  induction a with
  | nil => simp
  | cons x xs ih =>
    simp only [List.mem_cons, not_or] at h
    have hx : decide (x ≠ c) = true := by simpa using fun e => h.1 (Eq.symm e)
    rw [List.cons_append, List.takeWhile_cons, hx, ih h.2]
    rfl

theorem dropWhile_append_of_not_mem (c : Char) (a b : Str) (h : c ∉ a) :
    (a ++ c :: b).dropWhile (· ≠ c) = c :: b := by
  induction a with
  | nil => simp
  | cons x xs ih =>
    simp only [List.mem_cons, not_or] at h
    have hx : decide (x ≠ c) = true := by simpa using fun e => h.1 (Eq.symm e)
    rw [List.cons_append, List.dropWhile_cons, hx, ih h.2]
    rfl

theorem parse_render_one (u : UAttr) (h : UAttrOK u) :
    (if (renderUAttr u).contains '@' then
      UAttr.tagged ((renderUAttr u).takeWhile (· ≠ '@')) (((renderUAttr u).dropWhile (· ≠ '@')).drop 1)
     else UAttr.plain (renderUAttr u)) = u := by
  cases u with
  | plain a =>
    have : (renderUAttr (.plain a)).contains '@' = false := by
      simp only [renderUAttr, List.contains_eq_mem, decide_eq_false_iff_not]
      exact h.2
    rw [this]; simp [renderUAttr]
  | tagged t a =>
    have hc : (renderUAttr (.tagged t a)).contains '@' = true := by
      simp [renderUAttr]
    rw [hc]
    simp only [if_true, renderUAttr]
    rw [takeWhile_append_of_not_mem '@' t a h.1.2, dropWhile_append_of_not_mem '@' t a h.1.2]
    simp

end XmlDiffModel
