/-
C09 / C10 at the level of one text update (no text tags, no `use_replace`): the segments of the character diff are
emitted as wrapper placeholders, `finalize` turns them into `diff:insert` / `diff:delete` elements, and accepting
every change gives the new text, rejecting every change the old one.
-/
import XmlDiffModel.Proofs.Undo8

namespace XmlDiffModel
namespace TextMark
open Tree Undo

/-- only equal / insert / delete segments (no `use_replace`) -/
def NoRep (segs : List Seg) : Prop := ∀ d ∈ segs, d.op ≠ .rep

/-- the wrapper element of a change: `<diff:insert>text</diff:insert>tail` -/
def wrapper (op : Op) (text tail : Str) : Tree :=
  .node 0 { kind := .elem, tag := dname (opName op), attrs := [], text := some text, tail := some tail } []

/-- the text in front of the first wrapper and the wrappers, each with the equal text that follows it as tail -/
def toForest : List Seg → Str × List Tree
  | [] => ([], [])
  | d :: rest =>
    let r := toForest rest
    if d.op = .eq then (d.text ++ r.1, r.2) else ([], wrapper d.op d.text r.1 :: r.2)

/-- the placeholder text of the wrappers -/
def altOf : List Seg → Str × Alt
  | [] => ([], [])
  | d :: rest =>
    let r := altOf rest
    if d.op = .eq then (d.text ++ r.1, r.2)
    else ([], (phChar (wrapPhs d.op).1, d.text) :: (phChar (wrapPhs d.op).2, r.1) :: r.2)

def emitted (segs : List Seg) : Str := (altOf segs).1 ++ flatAlt (altOf segs).2

/-- accepting / rejecting every change on the restored children -/
def acceptOf (t0 : Str) (ks : List Tree) : Str :=
  t0 ++ ks.flatMap (fun w => (if w.payload.tag = INSERT_NAME then strOf w.payload.text else []) ++ strOf w.payload.tail)

def rejectOf (t0 : Str) (ks : List Tree) : Str :=
  t0 ++ ks.flatMap (fun w => (if w.payload.tag = DELETE_NAME then strOf w.payload.text else []) ++ strOf w.payload.tail)

theorem dname_ins_ne_del : dname "insert" ≠ dname "delete" := by decide

theorem accept_toForest (segs : List Seg) (h : NoRep segs) :
    acceptOf (toForest segs).1 (toForest segs).2 = accText segs := by
  induction segs with
  | nil => rfl
  | cons d rest ih =>
    have ih' := ih (fun x hx => h x (by simp [hx]))
    have hd := h d (by simp)
    simp only [toForest, accText]
    cases hop : d.op with
    | eq =>
      simp only [if_true]
      rw [← ih']
      simp [acceptOf]
    | rep => exact absurd hop hd
    | ins =>
      simp only [reduceCtorEq, if_false]
      rw [← ih']
      simp [acceptOf, wrapper, opName, INSERT_NAME, Tree.payload, strOf]
    | del =>
      simp only [reduceCtorEq, if_false]
      rw [← ih']
      have : dname "delete" ≠ INSERT_NAME := fun e => dname_ins_ne_del e.symm
      simp [acceptOf, wrapper, opName, Tree.payload, strOf, this]

theorem reject_toForest (segs : List Seg) (h : NoRep segs) :
    rejectOf (toForest segs).1 (toForest segs).2 = rejText segs := by
  induction segs with
  | nil => rfl
  | cons d rest ih =>
    have ih' := ih (fun x hx => h x (by simp [hx]))
    have hd := h d (by simp)
    simp only [toForest, rejText]
    cases hop : d.op with
    | eq =>
      simp only [if_true]
      rw [← ih']
      simp [rejectOf]
    | rep => exact absurd hop hd
    | del =>
      simp only [reduceCtorEq, if_false]
      rw [← ih']
      simp [rejectOf, wrapper, opName, DELETE_NAME, Tree.payload, strOf]
    | ins =>
      simp only [reduceCtorEq, if_false]
      rw [← ih']
      have : dname "insert" ≠ DELETE_NAME := dname_ins_ne_del
      simp [rejectOf, wrapper, opName, Tree.payload, strOf, this]

/-! ### the maker state of a formatter -/

/-- a maker state that still contains the six entries of `PlaceholderMaker.__init__` -/
structure Base (st : PhSt) : Prop where
  tok : TableOK st
  closed : Closed st
  hi : st.counter < 0x110000
  base : ∀ e ∈ (phInit [] []).table, e ∈ st.table

theorem altOf_fst (segs : List Seg) : (altOf segs).1 = (toForest segs).1 := by
  induction segs with
  | nil => rfl
  | cons d rest ih =>
    simp only [altOf, toForest, ih]
    split <;> rfl

theorem low_append {a b : Str} (ha : Low a) (hb : Low b) : Low (a ++ b) := by
  intro c hc
  rcases List.mem_append.1 hc with h | h
  · exact ha c h
  · exact hb c h

theorem low_front (segs : List Seg) (h : ∀ d ∈ segs, Low d.text) : Low (toForest segs).1 := by
  induction segs with
  | nil => intro c hc; cases hc
  | cons d rest ih =>
    simp only [toForest]
    split
    · exact low_append (h d (by simp)) (ih (fun x hx => h x (by simp [hx])))
    · intro c hc; cases hc

/-- the two wrapper entries of an insert or delete -/
theorem wrap_entries (st : PhSt) (hb : Base st) (op : Op) (hop : op = .ins ∨ op = .del) :
    ∃ eo, st.entryOf (phChar (wrapPhs op).1).toNat = some eo ∧ eo.role = .open ∧
      eo.closePh = some (phChar (wrapPhs op).2).toNat ∧
      st.elemOf eo diffElemList = some (diffElemOf (opName op)).2 ∧ st.isPh (phChar (wrapPhs op).2) = true := by
  have hT := hb.tok
  have htab := phInit_table [] []
  have hmem : ∀ e, e ∈ (phInit [] []).table → st.entryOf e.ph = some e :=
    fun e he => entryOf_of_mem st hT e (hb.base e he)
  have hok : ∀ e, e ∈ (phInit [] []).table → (phChar e.ph).toNat = e.ph :=
    fun e he => phChar_ok st hT hb.closed hb.hi e (hb.base e he)
  rcases hop with rfl | rfl
  · have m1 : (⟨keyOf (diffElemOf "insert").2, .close, none, phStart + 1, 900001⟩ : PhEntry) ∈ (phInit [] []).table := by
      rw [htab]; simp
    have m2 : (⟨keyOf (diffElemOf "insert").2, .open, some (phStart + 1), phStart + 2, 900001⟩ : PhEntry) ∈
        (phInit [] []).table := by rw [htab]; simp
    have t1 := hok _ m1
    have t2 := hok _ m2
    simp only at t1 t2
    refine ⟨⟨keyOf (diffElemOf "insert").2, .open, some (phStart + 1), phStart + 2, 900001⟩, ?_, rfl, ?_, ?_, ?_⟩
    · simp only [wrapPhs]; rw [t2]; exact hmem _ m2
    · simp only [wrapPhs]; rw [t1]
    · unfold PhSt.elemOf; rfl
    · unfold PhSt.isPh; simp only [wrapPhs]; rw [t1, hmem _ m1]; rfl
  · have m1 : (⟨keyOf (diffElemOf "delete").2, .close, none, phStart + 3, 900002⟩ : PhEntry) ∈ (phInit [] []).table := by
      rw [htab]; simp
    have m2 : (⟨keyOf (diffElemOf "delete").2, .open, some (phStart + 3), phStart + 4, 900002⟩ : PhEntry) ∈
        (phInit [] []).table := by rw [htab]; simp
    have t1 := hok _ m1
    have t2 := hok _ m2
    simp only at t1 t2
    refine ⟨⟨keyOf (diffElemOf "delete").2, .open, some (phStart + 3), phStart + 4, 900002⟩, ?_, rfl, ?_, ?_, ?_⟩
    · simp only [wrapPhs]; rw [t2]; exact hmem _ m2
    · simp only [wrapPhs]; rw [t1]
    · unfold PhSt.elemOf; rfl
    · unfold PhSt.isPh; simp only [wrapPhs]; rw [t1, hmem _ m1]; rfl

theorem good_forest (st : PhSt) (hb : Base st) (segs : List Seg) (hn : NoRep segs) (hl : ∀ d ∈ segs, Low d.text) :
    Good st diffElemList (toForest segs).2 (altOf segs).2 := by
  induction segs with
  | nil => exact Good.nil
  | cons d rest ih =>
    have ih' := ih (fun x hx => hn x (by simp [hx])) (fun x hx => hl x (by simp [hx]))
    have hd := hn d (by simp)
    simp only [toForest, altOf]
    by_cases he : d.op = .eq
    · simp only [he, if_true]; exact ih'
    · simp only [he, if_false]
      have hop : d.op = .ins ∨ d.op = .del := by
        cases h : d.op with
        | eq => exact absurd h he
        | rep => exact absurd h hd
        | ins => exact Or.inl rfl
        | del => exact Or.inr rfl
      obtain ⟨eo, h1, h2, h3, h4, h5⟩ := wrap_entries st hb d.op hop
      have := Good.fmt (st := st) (de := diffElemList) (wrapper d.op d.text (toForest rest).1) (toForest rest).2
        (phChar (wrapPhs d.op).1) (phChar (wrapPhs d.op).2) eo (diffElemOf (opName d.op)).2 [] (altOf rest).2
        h1 h2 h3 h4 (by rcases hop with e | e <;> rw [e] <;> rfl) (by rcases hop with e | e <;> rw [e] <;> rfl)
        (by rcases hop with e | e <;> rw [e] <;> rfl) (by rcases hop with e | e <;> rw [e] <;> rfl)
        h5 (fun x hx => nomatch hx) (by simp only [wrapper, Tree.payload, strOf]; exact hl d (by simp))
        (by simp only [wrapper, Tree.payload, strOf]
            exact low_front rest (fun x hx => hl x (by simp [hx])))
        Good.nil ih'
      simpa [wrapper, Tree.payload, strOf, altOf_fst] using this

/-! ### emission -/

theorem wrapDiff_none (s : FState) (text : Str) (op : Op) :
    wrapDiff s text op none = ([phChar (wrapPhs op).1] ++ text ++ [phChar (wrapPhs op).2], s) := by
  unfold wrapDiff
  cases wrapPhs op
  rfl

theorem emit_eq (s : FState) (segs : List Seg) (hn : NoRep segs) (hp : ∀ d ∈ segs, PlainFor s.ph d.text) (acc : Str) :
    emitSegs false segs s acc = .ok (acc ++ emitted segs, s) := by
  induction segs generalizing acc with
  | nil => simp [emitSegs, emitted, altOf, flatAlt]
  | cons d rest ih =>
    have ih' := ih (fun x hx => hn x (by simp [hx])) (fun x hx => hp x (by simp [hx]))
    have hd := hn d (by simp)
    have hpl := hp d (by simp)
    rw [emitSegs]
    by_cases he : d.op = .eq
    · rw [if_pos he, ih']
      simp [emitted, altOf, he]
    · rw [if_neg he]
      have hold : (if d.op = Op.rep then some d.old else none) = none := by rw [if_neg hd]
      simp only [hold]
      have key : (let r := wrapDiff s d.text d.op none; emitSegs false rest r.2 (acc ++ r.1)) =
          .ok (acc ++ emitted (d :: rest), s) := by
        rw [wrapDiff_none]
        simp only
        rw [ih']
        simp [emitted, altOf, he, flatAlt]
      cases hdt : d.text with
      | nil => simp only [hdt] at key ⊢; exact key
      | cons c cs =>
        cases cs with
        | nil =>
          have hc : s.ph.isPh c = false := hpl c (by rw [hdt]; simp)
          simp only [hdt, hc, Bool.false_eq_true, if_false] at key ⊢
          exact key
        | cons c2 cs2 => simp only [hdt] at key ⊢; exact key

/-! ### accepting and rejecting on restored children -/

theorem strOf_nt (o : Option Str) : strOf (nt o) = strOf o := by
  cases o with
  | none => rfl
  | some t =>
    by_cases h : t = []
    · subst h; rfl
    · rw [nt_some h]

theorem acceptOf_norm (t0 : Str) (a b : List Tree) (h : normL a = normL b) : acceptOf t0 a = acceptOf t0 b := by
  unfold acceptOf
  congr 1
  induction a generalizing b with
  | nil =>
    cases b with
    | nil => rfl
    | cons y ys => simp [normL] at h
  | cons x xs ih =>
    cases b with
    | nil => simp [normL] at h
    | cons y ys =>
      simp only [normL, List.cons.injEq] at h
      simp only [List.flatMap_cons]
      rw [ih ys h.2]
      congr 1
      cases x with
      | node i p ks =>
        cases y with
        | node j q ls =>
          simp only [normT, Tree.node.injEq, true_and] at h
          have hp := h.1.1
          have e1 := congrArg Payload.tag hp
          have e2 := congrArg Payload.text hp
          have e3 := congrArg Payload.tail hp
          simp only at e1 e2 e3
          have t1 : strOf p.text = strOf q.text := by rw [← strOf_nt p.text, e2, strOf_nt]
          have t2 : strOf p.tail = strOf q.tail := by rw [← strOf_nt p.tail, e3, strOf_nt]
          simp only [Tree.payload, e1, t1, t2]
          rfl

theorem rejectOf_norm (t0 : Str) (a b : List Tree) (h : normL a = normL b) : rejectOf t0 a = rejectOf t0 b := by
  unfold rejectOf
  congr 1
  induction a generalizing b with
  | nil =>
    cases b with
    | nil => rfl
    | cons y ys => simp [normL] at h
  | cons x xs ih =>
    cases b with
    | nil => simp [normL] at h
    | cons y ys =>
      simp only [normL, List.cons.injEq] at h
      simp only [List.flatMap_cons]
      rw [ih ys h.2]
      congr 1
      cases x with
      | node i p ks =>
        cases y with
        | node j q ls =>
          simp only [normT, Tree.node.injEq, true_and] at h
          have hp := h.1.1
          have e1 := congrArg Payload.tag hp
          have e2 := congrArg Payload.text hp
          have e3 := congrArg Payload.tail hp
          simp only at e1 e2 e3
          have t1 : strOf p.text = strOf q.text := by rw [← strOf_nt p.text, e2, strOf_nt]
          have t2 : strOf p.tail = strOf q.tail := by rw [← strOf_nt p.tail, e3, strOf_nt]
          simp only [Tree.payload, e1, t1, t2]
          rfl

/-- **One text update through the XML formatter** (no text tags, no `use_replace`): the segments are emitted as wrapper
placeholders, `undo_string` (what `finalize` runs on the text) turns them into `diff:insert` / `diff:delete` elements,
accepting every change gives the text the equal + insert segments spell, rejecting every change the text the
equal + delete segments spell. -/
theorem text_update_marks (s : FState) (hb : Base s.ph) (segs : List Seg) (hn : NoRep segs)
    (hl : ∀ d ∈ segs, Low d.text) :
    emitSegs false segs s [] = .ok (emitted segs, s) ∧
      ∃ rt rs, (∃ N, ∀ f, N ≤ f → undoString f s.ph diffElemList (emitted segs) = .ok (rt, rs)) ∧
        acceptOf (strOf rt) rs = accText segs ∧ rejectOf (strOf rt) rs = rejText segs ∧
        PlainFor s.ph (strOf rt) ∧ PlainL s.ph rs := by
  have ha : Above s.ph := hb.closed.lob
  have hpl : ∀ d ∈ segs, PlainFor s.ph d.text := fun d hd => plainFor_of_low s.ph ha _ (hl d hd)
  refine ⟨by simpa using emit_eq s segs hn hpl [], ?_⟩
  have hG := good_forest s.ph hb segs hn hl
  obtain ⟨rs, nrs, prs, crs⟩ := hG.forest ha hb.tok hb.closed
  have hAK := hG.altOK ha
  have ht0 : PlainFor s.ph (altOf segs).1 := by
    rw [altOf_fst]; exact plainFor_of_low s.ph ha _ (low_front segs hl)
  let T2 : Option Str := if (altOf segs).1 = [] then none else some (altOf segs).1
  obtain ⟨N3, hN3⟩ := crs [] T2 [] (T2, rs) ⟨0, fun f _ => by rw [List.append_nil, segs_nil, List.reverse_reverse]⟩
  refine ⟨T2, rs, ⟨N3 + 1, fun f hf => ?_⟩, ?_, ?_, ?_, prs⟩
  · obtain ⟨g, rfl⟩ : ∃ g, f = g + 1 := ⟨f - 1, by omega⟩
    rw [undoString_succ]
    unfold emitted
    rw [splitPh_alt0 s.ph _ hAK _ ht0]
    have hN := hN3 g (by omega)
    simp only [List.append_nil] at hN
    by_cases htc : (altOf segs).1 = []
    · rw [htc, segs_text_empty]
      simp only [T2, htc, if_true] at hN ⊢
      exact hN
    · rw [segs_text_first _ _ _ _ htc]
      have he : (strOf (none : Option Str)).isEmpty = true := rfl
      rw [if_pos he]
      have hT : T2 = some (altOf segs).1 := by simp only [T2, htc, if_false]
      rw [hT] at hN ⊢
      exact hN
  · have hs : strOf T2 = (toForest segs).1 := by
      simp only [T2, altOf_fst]
      by_cases h : (toForest segs).1 = [] <;> simp [h, strOf]
    rw [hs, acceptOf_norm _ rs _ nrs]
    exact accept_toForest segs hn
  · have hs : strOf T2 = (toForest segs).1 := by
      simp only [T2, altOf_fst]
      by_cases h : (toForest segs).1 = [] <;> simp [h, strOf]
    rw [hs, rejectOf_norm _ rs _ nrs]
    exact reject_toForest segs hn
  · have hs : strOf T2 = (toForest segs).1 := by
      simp only [T2, altOf_fst]
      by_cases h : (toForest segs).1 = [] <;> simp [h, strOf]
    rw [hs]
    exact plainFor_of_low s.ph ha _ (low_front segs hl)

end TextMark
end XmlDiffModel
