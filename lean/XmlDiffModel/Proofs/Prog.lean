/-
The differ does not raise: on the C01 domain of the model every step of script generation returns `.ok`.
-/
import XmlDiffModel.Proofs.Anc

namespace XmlDiffModel
namespace Chw
open Tree

theorem pathStr_ok (qn : QName) (t : Tree) (i : Nat) (h : i ∈ ids t) : ∃ p, pathStr qn t i = .ok p := by
  obtain ⟨p, hp⟩ := pathT_exists qn i [] [] t h
  exact ⟨forceLastIdx p, by simp [pathStr, getpath, hp]⟩

theorem matched_of_inorder_right (ign : List Str) (R : Tree) (s : DState) (A D : List Nat) (inv : Inv ign R s A D)
    (c : Nat) (hc : c ∈ s.inorder) (hcR : c ∈ ids R) : ∃ l, r2lGet s.ms c = some l := by
  rcases inv.ioM c hc with h | h
  · obtain ⟨q, hq, e⟩ := List.mem_map.mp h
    exact absurd hcR (inv.disj c (e ▸ (inv.mdom q hq).1))
  · exact r2lGet_some_of_mem s.ms c h

/-- `find_pos` succeeds for a child of a right node whose partner exists -/
theorem findPos_ok (ign : List Str) (R : Tree) (hRn : (ids R).Nodup) (s : DState) (A D : List Nat)
    (inv : Inv ign R s A D) (y py : Nat) (hy : y ∈ kidIds R py) : ∃ pos, findPos s R y = .ok pos := by
  have hk := hy
  unfold kidIds at hk
  cases hf : find py R with
  | none => rw [hf] at hk; cases hk
  | some n =>
    rw [hf] at hk
    simp only at hk
    have hpar : R.parentOf y = some n := parentOf_of_kid py y R n hRn hf hk
    obtain ⟨X1, X2, hX⟩ := List.append_of_mem hy
    have hnk : n.kids.map Tree.id = X1 ++ y :: X2 := by
      rw [← hX]; unfold kidIds; rw [hf]
    have hXn : (X1 ++ y :: X2).Nodup := hX ▸ kidIds_nodup R hRn py
    have hy1 : y ∉ X1 := fun hm => (List.nodup_append.mp hXn).2.2 y hm y List.mem_cons_self rfl
    unfold findPos
    rw [hpar]
    simp only
    rw [hnk, Ord.lastInorderBefore_spec s.inorder (ioB s.inorder) (fun _ => rfl) y X1 X2 none hy1]
    cases hg : (X1.filter (ioB s.inorder)).getLast? with
    | none => exact ⟨0, rfl⟩
    | some u =>
      simp only
      have hu : u ∈ X1.filter (ioB s.inorder) := List.mem_of_getLast? hg
      have huio : u ∈ s.inorder := (ioB_iff _ _).mp (List.mem_filter.mp hu).2
      have huk : u ∈ kidIds R py := by rw [hX]; exact List.mem_append_left _ (List.mem_filter.mp hu).1
      obtain ⟨sm, hsm⟩ := matched_of_inorder_right ign R s A D inv u huio (kidIds_sub R py u huk).1
      rw [hsm]
      simp only
      obtain ⟨q, lq, _, _, h3⟩ := inv.home (sm, u) (r2lGet_mem s.ms u sm hsm) huio
      simp only [parId] at h3
      cases hlp : s.left.parentOf sm with
      | none => rw [hlp] at h3; cases h3
      | some lp => exact ⟨_, rfl⟩

theorem insertStep_ok (ign : List Str) (qn : QName) (R : Tree) (hRn : (ids R).Nodup) (x : Tree)
    (s : DState) (A D : List Nat) (inv : Inv ign R s A D) (py tgt : Nat)
    (hxk : x.id ∈ kidIds R py) (htg : r2lGet s.ms py = some tgt) :
    ∃ r, insertStep qn R x ((R.parentOf x.id).bind (fun rp => r2lGet s.ms rp.id)) s = .ok r := by
  have hpar : ∃ rp, R.parentOf x.id = some rp ∧ rp.id = py := by
    have := (parId_iff R hRn x.id py).mpr hxk
    unfold parId at this
    cases h : R.parentOf x.id with
    | none => rw [h] at this; cases this
    | some rp => rw [h] at this; exact ⟨rp, rfl, by simpa using this⟩
  obtain ⟨rp, hrp, hid⟩ := hpar
  obtain ⟨pos, hpos⟩ := findPos_ok ign R hRn s A D inv x.id py hxk
  have htW : tgt ∈ ids s.left := (inv.mdom _ (r2lGet_mem s.ms py tgt htg)).1
  obtain ⟨tp, htp⟩ := pathStr_ok qn s.left tgt htW
  rw [hrp]
  simp only [Option.bind_some, hid, htg, insertStep, bind, Except.bind, pure, Except.pure, hpos, htp]
  cases x.payload.kind <;> exact ⟨_, rfl⟩

theorem parentOf_some_of_kid (t : Tree) (hn : (ids t).Nodup) (c p : Nat) (h : c ∈ kidIds t p) :
    ∃ n, t.parentOf c = some n ∧ n.id = p := by
  have := (parId_iff t hn c p).mpr h
  unfold parId at this
  cases h' : t.parentOf c with
  | none => rw [h'] at this; cases this
  | some n => rw [h'] at this; exact ⟨n, rfl, by simpa using this⟩

/-- the move step succeeds; `hpar` : for a non-root `x` the parent is matched -/
theorem moveStep_ok (ign : List Str) (qn : QName) (R : Tree) (hRn : (ids R).Nodup) (x : Tree)
    (s : DState) (A D : List Nat) (inv : Inv ign R s A D) (l : Nat) (hl : (l, x.id) ∈ s.ms)
    (hpar : x.id = R.id ∨ ∃ py tgt, x.id ∈ kidIds R py ∧ r2lGet s.ms py = some tgt) :
    ∃ s', moveStep qn R x l ((R.parentOf x.id).bind (fun rp => r2lGet s.ms rp.id)) s = .ok s' := by
  have hlW : l ∈ ids s.left := (inv.mdom _ hl).1
  unfold moveStep
  simp only
  rcases hpar with hroot | ⟨py, tgt, hxk, htg⟩
  · -- the root: no parent on either side
    have h1 : R.parentOf x.id = none := by
      have := root_no_parent R hRn
      unfold parId at this
      rw [hroot]
      cases h : R.parentOf R.id with
      | none => rfl
      | some p => rw [h] at this; cases this
    have hlroot : l = s.left.id := by
      have e1 := r2lGet_of_mem s.ms inv.mR l x.id hl
      have e2 := r2lGet_of_mem s.ms inv.mR s.left.id R.id inv.mroot
      rw [hroot, e2] at e1; injection e1 with e1; exact e1.symm
    have h2 : s.left.parentOf l = none := by
      have := root_no_parent s.left inv.wf
      unfold parId at this
      rw [hlroot]
      cases h : s.left.parentOf s.left.id with
      | none => rfl
      | some p => rw [h] at this; cases this
    rw [h1, h2]
    simp only [Option.bind_none, Option.map_none, ne_eq, not_true_eq_false, if_false]
    exact ⟨s, rfl⟩
  · obtain ⟨rp, hrp, hid⟩ := parentOf_some_of_kid R hRn x.id py hxk
    rw [hrp]
    simp only [Option.bind_some, hid, htg]
    split
    · next hne =>
      obtain ⟨pos, hpos⟩ := findPos_ok ign R hRn s A D inv x.id py hxk
      have htW : tgt ∈ ids s.left := (inv.mdom _ (r2lGet_mem s.ms py tgt htg)).1
      -- `l` is not the root: the root's partner is the right root, which has no parent
      have hlnr : l ≠ s.left.id := by
        intro e
        have e1 := l2rGet_of_mem s.ms inv.mL l x.id hl
        have e2 := l2rGet_of_mem s.ms inv.mL s.left.id R.id inv.mroot
        rw [e, e2] at e1; injection e1 with e1
        have := (parId_iff R hRn x.id py).mpr hxk
        rw [← e1, root_no_parent R hRn] at this
        cases this
      obtain ⟨lp, hlp⟩ := parId_some_of_nonroot s.left l hlW hlnr
      unfold parId at hlp
      cases hpl : s.left.parentOf l with
      | none => rw [hpl] at hlp; cases hlp
      | some par =>
        obtain ⟨p1, hp1⟩ := pathStr_ok qn s.left l hlW
        obtain ⟨p2, hp2⟩ := pathStr_ok qn s.left tgt htW
        obtain ⟨sub, hsub⟩ := find_some_of_mem l s.left hlW
        simp only [bind, Except.bind, pure, Except.pure, hpos, Option.map_some, Option.isNone_some,
          Bool.false_eq_true, if_false, hp1, hp2, moveIn, hsub]
        exact ⟨_, rfl⟩
    · exact ⟨s, rfl⟩

theorem renameStep_ok (qn : QName) (l : Nat) (x : Payload) (s : DState) (hl : l ∈ ids s.left) :
    ∃ s', renameStep qn l x s = .ok s' := by
  obtain ⟨ln, hln⟩ := find_some_of_mem l s.left hl
  obtain ⟨p, hp⟩ := pathStr_ok qn s.left l hl
  unfold renameStep
  rw [hln]
  simp only
  split
  · simp only [bind, Except.bind, pure, Except.pure, hp]; exact ⟨_, rfl⟩
  · exact ⟨s, rfl⟩

theorem updateAttrStep_ok (qn : QName) (ign : List Str) (l : Nat) (x : Payload) (s : DState) (hl : l ∈ ids s.left) :
    ∃ s', updateAttrStep qn ign l x s = .ok s' := by
  obtain ⟨ln, hln⟩ := find_some_of_mem l s.left hl
  obtain ⟨p, hp⟩ := pathStr_ok qn s.left l hl
  unfold updateAttrStep
  rw [hln]
  simp only [bind, Except.bind, hp]
  exact ⟨_, rfl⟩

theorem updateText_ok (qn : QName) (l : Nat) (x : Payload) (s : DState) (hl : l ∈ ids s.left) :
    ∃ s', updateText qn l x s = .ok s' := by
  obtain ⟨ln, hln⟩ := find_some_of_mem l s.left hl
  obtain ⟨p, hp⟩ := pathStr_ok qn s.left l hl
  unfold updateText
  rw [hln]
  simp only [bind, Except.bind, hp]
  exact ⟨_, rfl⟩

/-- the loop of `align_children` over a concatenation -/
theorem alignMoves_append (qn : QName) (R : Tree) (l : Nat) (a b : List Nat) (s : DState) :
    alignMoves qn R l (a ++ b) s = (alignMoves qn R l a s).bind (alignMoves qn R l b) := by
  induction a generalizing s with
  | nil => simp [alignMoves, Except.bind]
  | cons lc rest ih =>
    simp only [List.cons_append]
    unfold alignMoves
    split
    · exact ih s
    · cases h1 : l2rGet s.ms lc with
      | none => simp [Except.bind]
      | some rc =>
        simp only [bind, Except.bind, pure, Except.pure]
        cases findPos s R rc with
        | error e => rfl
        | ok pos =>
          simp only
          cases R.parentOf rc with
          | none => rfl
          | some rp =>
            simp only
            cases r2lGet s.ms rp.id with
            | none => rfl
            | some lt =>
              simp only
              cases pathStr qn s.left lc with
              | error e => rfl
              | ok p1 =>
                simp only
                cases pathStr qn s.left lt with
                | error e => rfl
                | ok p2 =>
                  simp only
                  cases moveIn s.left lc lt pos with
                  | error e => rfl
                  | ok left' =>
                    simp only
                    exact ih _

/-- one iteration of the loop succeeds -/
theorem alignMoves_one_ok (ign : List Str) (qn : QName) (R : Tree) (hRn : (ids R).Nodup) (l xid : Nat) (A D : List Nat)
    (lc : Nat) (s : DState) (inv : Inv ign R s A D) (hlx : (l, xid) ∈ s.ms)
    (hS : lc ∈ kidIds s.left l ∧ ∃ r, l2rGet s.ms lc = some r ∧ r ∈ kidIds R xid) :
    ∃ s', alignMoves qn R l [lc] s = .ok s' := by
  obtain ⟨hlcK, rc, hrc, hrcK⟩ := hS
  unfold alignMoves
  split
  · exact ⟨s, by simp [alignMoves]⟩
  · rw [hrc]
    simp only [bind, Except.bind, pure, Except.pure]
    obtain ⟨pos, hpos⟩ := findPos_ok ign R hRn s A D inv rc xid hrcK
    obtain ⟨rp, hrp, hid⟩ := parentOf_some_of_kid R hRn rc xid hrcK
    have hlt : r2lGet s.ms rp.id = some l := by rw [hid]; exact r2lGet_of_mem s.ms inv.mR l xid hlx
    have hlcW : lc ∈ ids s.left := (kidIds_sub _ l lc hlcK).1
    have hlW : l ∈ ids s.left := (inv.mdom _ hlx).1
    obtain ⟨p1, hp1⟩ := pathStr_ok qn s.left lc hlcW
    obtain ⟨p2, hp2⟩ := pathStr_ok qn s.left l hlW
    obtain ⟨sub, hsub⟩ := find_some_of_mem lc s.left hlcW
    simp only [hpos, hrp, hlt, hp1, hp2, moveIn, hsub, alignMoves]
    exact ⟨_, rfl⟩

theorem alignMoves_ok (ign : List Str) (qn : QName) (R : Tree) (hRn : (ids R).Nodup) (l xid : Nat) (A D : List Nat)
    (hxA : xid ∈ A) (lcs : List Nat) (s : DState) (inv : Inv ign R s A D) (hlx : (l, xid) ∈ s.ms)
    (hS : ∀ c ∈ lcs, c ∈ kidIds s.left l ∧ ∃ r, l2rGet s.ms c = some r ∧ r ∈ kidIds R xid) :
    ∃ s', alignMoves qn R l lcs s = .ok s' := by
  induction lcs generalizing s with
  | nil => exact ⟨s, by simp [alignMoves]⟩
  | cons lc rest ih =>
    obtain ⟨s1, hs1⟩ := alignMoves_one_ok ign qn R hRn l xid A D lc s inv hlx (hS lc List.mem_cons_self)
    obtain ⟨inv1, hms, _, _, _, _, hk⟩ := alignMoves_inv ign qn R hRn l xid A D hxA [lc] s s1 inv hlx
      (fun c hc => by simp at hc; rw [hc]; exact hS lc List.mem_cons_self) hs1
    have hS1 : ∀ c ∈ rest, c ∈ kidIds s1.left l ∧ ∃ r, l2rGet s1.ms c = some r ∧ r ∈ kidIds R xid := by
      intro c hc
      obtain ⟨a, b⟩ := hS c (List.mem_cons_of_mem _ hc)
      exact ⟨(hk c).mpr a, by rw [hms]; exact b⟩
    obtain ⟨s2, hs2⟩ := ih s1 inv1 (hms ▸ hlx) hS1
    refine ⟨s2, ?_⟩
    have := alignMoves_append qn R l [lc] rest s
    simp only [List.singleton_append] at this
    rw [this, hs1]
    exact hs2

theorem alignChildren_ok (ign : List Str) (qn : QName) (R : Tree) (hRn : (ids R).Nodup) (x : Tree)
    (hx : find x.id R = some x) (l : Nat) (s : DState) (A D : List Nat) (inv : Inv ign R s A D)
    (hlx : (l, x.id) ∈ s.ms) (hxA : x.id ∈ A) (hkx : (kidIds R x.id).filter (ioB s.inorder) = []) :
    ∃ s', alignChildren qn R l x s = .ok s' := by
  rcases alignChildren_prep ign qn R hRn x hx l s A D inv hlx hxA hkx with ⟨h0, _⟩ | ⟨lch, io', heq, invA, _, mlch⟩
  · exact ⟨s, h0⟩
  · rw [heq]
    exact alignMoves_ok ign qn R hRn l x.id A D hxA lch _ invA hlx (fun c hc => (mlch c).mp hc)

/-! ### shapes of the placement steps (for the ancestor invariant) -/

/-- what one successful iteration of the alignment loop does -/
theorem alignMoves_one_shape (qn : QName) (R : Tree) (l lc : Nat) (s s' : DState)
    (h : alignMoves qn R l [lc] s = .ok s') :
    s' = s ∨ ∃ rc rp lt pos sub p1 p2, l2rGet s.ms lc = some rc ∧ R.parentOf rc = some rp ∧
      r2lGet s.ms rp.id = some lt ∧ find lc s.left = some sub ∧ lc ∉ s.inorder ∧
      s' = { s with left := moved s.left lc lt pos sub, out := .moveNode p1 p2 pos :: s.out,
                    inorder := rc :: lc :: s.inorder } := by
  unfold alignMoves at h
  split at h
  · left; simp only [alignMoves, Except.ok.injEq] at h; exact h.symm
  · next hnin =>
    have hlcio : lc ∉ s.inorder := by simpa using hnin
    right
    cases hrc : l2rGet s.ms lc with
    | none => rw [hrc] at h; cases h
    | some rc =>
      rw [hrc] at h
      simp only [bind, Except.bind, pure, Except.pure] at h
      split at h
      · cases h
      · next pos hpos =>
        cases hrp : R.parentOf rc with
        | none => simp [hrp, throw, throwThe, MonadExceptOf.throw] at h
        | some rp =>
          simp only [hrp] at h
          cases hlt : r2lGet s.ms rp.id with
          | none => simp [hlt, throw, throwThe, MonadExceptOf.throw] at h
          | some lt =>
            simp only [hlt] at h
            split at h
            · cases h
            · next p1 hp1 =>
              split at h
              · cases h
              · next p2 hp2 =>
                split at h
                · cases h
                · next left' hl' =>
                  unfold moveIn at hl'
                  cases hfl : find lc s.left with
                  | none => rw [hfl] at hl'; cases hl'
                  | some sub =>
                    rw [hfl] at hl'
                    simp only [Except.ok.injEq] at hl'
                    subst hl'
                    simp only [alignMoves, Except.ok.injEq] at h
                    exact ⟨rc, rp, lt, pos, sub, p1, p2, rfl, hrp, hlt, rfl, hlcio, h.symm⟩

theorem alignMoves_split (qn : QName) (R : Tree) (l lc : Nat) (rest : List Nat) (s s' : DState)
    (h : alignMoves qn R l (lc :: rest) s = .ok s') :
    ∃ s1, alignMoves qn R l [lc] s = .ok s1 ∧ alignMoves qn R l rest s1 = .ok s' := by
  have := alignMoves_append qn R l [lc] rest s
  simp only [List.singleton_append] at this
  rw [this] at h
  cases h1 : alignMoves qn R l [lc] s with
  | error e => rw [h1] at h; cases h
  | ok s1 => rw [h1] at h; exact ⟨s1, rfl, h⟩

theorem not_desc_of_unvisited (ign : List Str) (R : Tree) (s : DState) (A D : List Nat) (inv : Inv ign R s A D)
    (anc : AncInv s D) (v y : Nat) (hvy : (v, y) ∈ s.ms) (hyD : y ∉ D) :
    ∀ p ∈ D, ∀ l, r2lGet s.ms p = some l → ¬ Desc s.left v l := by
  intro p hp l hl hd
  obtain ⟨z, hz, hzv⟩ := anc p hp l hl v hd
  have h1 := l2rGet_of_mem s.ms inv.mL v z (r2lGet_mem s.ms z v hzv)
  have h2 := l2rGet_of_mem s.ms inv.mL v y hvy
  rw [h1] at h2; injection h2 with h2
  exact hyD (h2 ▸ hz)

theorem alignMoves_anc (ign : List Str) (qn : QName) (R : Tree) (hRn : (ids R).Nodup) (l xid : Nat) (A D : List Nat)
    (hxA : xid ∈ A) (lcs : List Nat) (s s' : DState) (inv : Inv ign R s A D) (anc : AncInv s D)
    (hlx : (l, xid) ∈ s.ms)
    (hS : ∀ c ∈ lcs, c ∈ kidIds s.left l ∧ ∃ r, l2rGet s.ms c = some r ∧ r ∈ kidIds R xid)
    (h : alignMoves qn R l lcs s = .ok s') : AncInv s' D := by
  induction lcs generalizing s with
  | nil => simp only [alignMoves, Except.ok.injEq] at h; subst h; exact anc
  | cons lc rest ih =>
    obtain ⟨s1, h1, h2⟩ := alignMoves_split qn R l lc rest s s' h
    obtain ⟨hlcK, rc', hrc', hrcK⟩ := hS lc List.mem_cons_self
    obtain ⟨inv1, hms, _, _, _, _, hk⟩ := alignMoves_inv ign qn R hRn l xid A D hxA [lc] s s1 inv hlx
      (fun c hc => by simp at hc; rw [hc]; exact hS lc List.mem_cons_self) h1
    have hS1 : ∀ c ∈ rest, c ∈ kidIds s1.left l ∧ ∃ r, l2rGet s1.ms c = some r ∧ r ∈ kidIds R xid := by
      intro c hc
      obtain ⟨a, b⟩ := hS c (List.mem_cons_of_mem _ hc)
      exact ⟨(hk c).mpr a, by rw [hms]; exact b⟩
    have anc1 : AncInv s1 D := by
      rcases alignMoves_one_shape qn R l lc s s1 h1 with e | ⟨rc, rp, lt, pos, sub, p1, p2, hrc, hrp, hlt, hfl, hlcio, e⟩
      · rw [e]; exact anc
      · have hrceq : rc = rc' := by rw [hrc] at hrc'; injection hrc'
        subst hrceq
        obtain ⟨rp', hrp', hid⟩ := parentOf_some_of_kid R hRn rc xid hrcK
        rw [hrp] at hrp'; injection hrp' with hrp'
        subst hrp'
        have hltl : lt = l := by
          have := r2lGet_of_mem s.ms inv.mR l xid hlx
          rw [hid, this] at hlt; injection hlt with hlt; exact hlt.symm
        subst hltl
        have hroot : s.left.id ≠ lc := by
          intro e'
          have := (parId_iff _ inv.wf lc lt).mpr hlcK
          rw [← e', root_no_parent _ inv.wf] at this
          cases this
        have hmv : MoveOK s.left lc lt sub :=
          ⟨inv.wf, hfl, hroot, (inv.mdom _ hlx).1, parent_not_in_child s.left inv.wf lc lt sub hlcK hfl⟩
        have hpl := placed_move s.left lc lt pos sub hmv
        have hrcM : (lc, rc) ∈ s.ms := l2rGet_mem s.ms lc rc hrc
        have hrcD : rc ∉ D := by
          intro hd
          obtain ⟨_, _, _, _, _, _, _, hh⟩ := inv.vis rc hd
          have hrcroot : rc ≠ R.id := by
            intro e'
            have := (parId_iff R hRn rc xid).mpr hrcK
            rw [e', root_no_parent R hRn] at this
            cases this
          exact hlcio ((inv.ioPair _ hrcM).mpr (hh hrcroot))
        rw [e]
        exact AncInv.placed (s := s) anc hpl (fun _ _ => rfl)
          (not_desc_of_unvisited ign R s A D inv anc lc rc hrcM hrcD)
    exact ih s1 inv1 anc1 (hms ▸ hlx) hS1 h2

theorem moveStep_shape (qn : QName) (R : Tree) (x : Tree) (l : Nat) (lt : Option Nat) (s s' : DState)
    (hn : (ids s.left).Nodup) (h : moveStep qn R x l lt s = .ok s') :
    s' = s ∨ ∃ tgt pos sub p1 p2, lt = some tgt ∧ find l s.left = some sub ∧ s.left.id ≠ l ∧
      s' = { s with left := moved s.left l tgt pos sub, out := .moveNode p1 p2 pos :: s.out,
                    inorder := x.id :: l :: s.inorder } := by
  unfold moveStep at h
  simp only at h
  split at h
  · right
    cases lt with
    | none =>
      simp only [bind, Except.bind, throw, throwThe, MonadExceptOf.throw] at h
      split at h <;> cases h
    | some tgt =>
      simp only [bind, Except.bind, pure, Except.pure] at h
      split at h
      · cases h
      · next pos hpos =>
        cases hpar : parentOf l s.left with
        | none => simp [hpar, throw, throwThe, MonadExceptOf.throw] at h
        | some par =>
          simp only [hpar, Option.map_some, Option.isNone_some, Bool.false_eq_true, if_false] at h
          split at h
          · cases h
          · next p1 hp1 =>
            split at h
            · cases h
            · next p2 hp2 =>
              split at h
              · cases h
              · next left' hl' =>
                unfold moveIn at hl'
                cases hfl : find l s.left with
                | none => rw [hfl] at hl'; cases hl'
                | some sub =>
                  rw [hfl] at hl'
                  simp only [Except.ok.injEq] at hl' h
                  subst hl'
                  have hroot : s.left.id ≠ l := root_ne_of_desc s.left l hn (parentOf_desc l s.left par hpar)
                  exact ⟨tgt, pos, sub, p1, p2, rfl, rfl, hroot, h.symm⟩
  · left
    simp only [pure, Except.pure, Except.ok.injEq] at h
    exact h.symm

theorem insertStep_shape (qn : QName) (R : Tree) (x : Tree) (lt : Option Nat) (s s' : DState) (l : Nat)
    (h : insertStep qn R x lt s = .ok (l, s')) :
    l = s.next ∧ ∃ tgt pos pl act, lt = some tgt ∧
      s' = { left := Tree.insertChild tgt pos (.node s.next pl []) s.left, ms := (s.next, x.id) :: s.ms,
             inorder := x.id :: s.next :: s.inorder, out := act :: s.out, next := s.next + 1 } := by
  cases lt with
  | none =>
    simp only [insertStep, bind, Except.bind, throw, throwThe, MonadExceptOf.throw] at h
    split at h <;> cases h
  | some tgt =>
    simp only [insertStep, bind, Except.bind, pure, Except.pure] at h
    split at h
    · cases h
    · next pos hpos =>
      split at h
      · cases h
      · next tp htp =>
        cases hk : x.payload.kind with
        | comment =>
          simp only [hk, Except.ok.injEq, Prod.mk.injEq] at h
          obtain ⟨rfl, rfl⟩ := h
          exact ⟨rfl, tgt, pos, _, _, rfl, rfl⟩
        | elem =>
          simp only [hk, Except.ok.injEq, Prod.mk.injEq] at h
          obtain ⟨rfl, rfl⟩ := h
          exact ⟨rfl, tgt, pos, _, _, rfl, rfl⟩

/-- r2lGet after a new pair is put in front -/
theorem r2lGet_cons_ne (ms : Matches) (l y c : Nat) (h : c ≠ y) : r2lGet ((l, y) :: ms) c = r2lGet ms c := by
  simp only [r2lGet]
  rw [if_neg (fun e => h e.symm)]

end Chw
end XmlDiffModel
