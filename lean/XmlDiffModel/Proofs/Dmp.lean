/-
Reconstruction lemmas for the text-diff engine model: every pass keeps
`text1` (equal + delete) and `text2` (equal + insert).
-/
import XmlDiffModel.Model.Dmp

namespace XmlDiffModel.Dmp

/-- both reconstructions of a segment list -/
def Recon (d : Diff) (a b : Str) : Prop := text1 d = a ∧ text2 d = b

/-- two segment lists with the same reconstructions -/
def SameTexts (d d' : Diff) : Prop := text1 d' = text1 d ∧ text2 d' = text2 d

theorem text1_append (x y : Diff) : text1 (x ++ y) = text1 x ++ text1 y := by simp [text1]
theorem text2_append (x y : Diff) : text2 (x ++ y) = text2 x ++ text2 y := by simp [text2]
theorem text1_nil : text1 [] = [] := rfl
theorem text2_nil : text2 [] = [] := rfl
theorem text1_cons (p : DOp × Str) (d : Diff) :
    text1 (p :: d) = (if p.1 = .ins then [] else p.2) ++ text1 d := by simp [text1]
theorem text2_cons (p : DOp × Str) (d : Diff) :
    text2 (p :: d) = (if p.1 = .del then [] else p.2) ++ text2 d := by simp [text2]

theorem SameTexts.refl (d : Diff) : SameTexts d d := ⟨rfl, rfl⟩
theorem SameTexts.trans {a b c : Diff} (h1 : SameTexts a b) (h2 : SameTexts b c) : SameTexts a c :=
  ⟨h2.1.trans h1.1, h2.2.trans h1.2⟩

theorem SameTexts.recon {d d' : Diff} {a b : Str} (h : SameTexts d d') (hr : Recon d a b) : Recon d' a b :=
  ⟨h.1.trans hr.1, h.2.trans hr.2⟩

theorem sameTexts_append {x x' y y' : Diff} (h1 : SameTexts x x') (h2 : SameTexts y y') :
    SameTexts (x ++ y) (x' ++ y') := by
  unfold SameTexts at *
  simp only [text1_append, text2_append, h1.1, h1.2, h2.1, h2.2, and_self]

/-! ### slicing -/

theorem take_drop (s : Str) (n : Nat) : s.take n ++ s.drop n = s := List.take_append_drop n s

theorem dropRight_takeRight (s : Str) (n : Nat) : dropRight n s ++ takeRight n s = s := by
  unfold dropRight takeRight
  exact List.take_append_drop _ s

theorem commonPrefix_take (a b : Str) : a.take (commonPrefix a b) = b.take (commonPrefix a b) := by
  induction a generalizing b with
  | nil => simp [commonPrefix]
  | cons x xs ih =>
    cases b with
    | nil => simp [commonPrefix]
    | cons y ys =>
      simp only [commonPrefix]
      split
      · next h =>
        subst h
        have e : 1 + commonPrefix xs ys = commonPrefix xs ys + 1 := Nat.add_comm _ _
        rw [e]
        simp [ih ys]
      · simp

theorem commonPrefix_le_left (a b : Str) : commonPrefix a b ≤ a.length := by
  induction a generalizing b with
  | nil => simp [commonPrefix]
  | cons x xs ih =>
    cases b with
    | nil => simp [commonPrefix]
    | cons y ys =>
      simp only [commonPrefix]
      split
      · have := ih ys; simp; omega
      · simp

theorem commonPrefix_comm (a b : Str) : commonPrefix a b = commonPrefix b a := by
  induction a generalizing b with
  | nil => cases b <;> simp [commonPrefix]
  | cons x xs ih =>
    cases b with
    | nil => simp [commonPrefix]
    | cons y ys =>
      simp only [commonPrefix]
      by_cases h : x = y
      · subst h; simp [ih ys]
      · have : ¬ y = x := fun e => h e.symm
        simp [h, this]

/-- the common suffix really is a suffix of both -/
theorem commonSuffix_takeRight (a b : Str) : takeRight (commonSuffix a b) a = takeRight (commonSuffix a b) b := by
  unfold commonSuffix takeRight
  have h := commonPrefix_take a.reverse b.reverse
  have e1 : ∀ (s : Str) (n : Nat), s.drop (s.length - n) = (s.reverse.take n).reverse := by
    intro s n
    rw [List.reverse_take]
    simp
  rw [e1 a, e1 b, h]

theorem findAux_le (needle : Str) (hay : Str) (i j : Nat) (h : findAux needle hay i = some j) :
    i ≤ j ∧ j ≤ i + hay.length := by
  induction hay generalizing i with
  | nil =>
    simp only [findAux] at h
    split at h
    · cases h; simp
    · cases h
  | cons c rest ih =>
    simp only [findAux] at h
    split at h
    · cases h; simp
    · have := ih (i + 1) h
      simp only [List.length_cons]
      omega

theorem findAux_lt (needle : Str) (hn : needle ≠ []) (hay : Str) (i j : Nat)
    (h : findAux needle hay i = some j) : j < i + hay.length := by
  induction hay generalizing i with
  | nil =>
    simp only [findAux] at h
    split at h
    · next he => simp at he; exact absurd he hn
    · cases h
  | cons c rest ih =>
    simp only [findAux] at h
    split at h
    · cases h; simp
    · have := ih (i + 1) h
      simp only [List.length_cons]
      omega

theorem find_lt (hay needle : Str) (hn : needle ≠ []) (start j : Nat)
    (h : find hay needle start = some j) : j < hay.length := by
  unfold find at h
  have := findAux_lt needle hn (hay.drop start) start j h
  simp only [List.length_drop] at this
  have h2 := findAux_le needle (hay.drop start) start j h
  by_cases hs : start ≤ hay.length
  · omega
  · have : hay.drop start = [] := List.drop_of_length_le (by omega)
    rw [this] at h
    simp only [findAux] at h
    split at h
    · next he => simp at he; exact absurd he hn
    · cases h

theorem find_le (hay needle : Str) (start j : Nat) (hs : start ≤ hay.length)
    (h : find hay needle start = some j) : j ≤ hay.length := by
  unfold find at h
  have := findAux_le needle (hay.drop start) start j h
  simp only [List.length_drop] at this
  omega

theorem commonSuffix_le_left (a b : Str) : commonSuffix a b ≤ a.length := by
  unfold commonSuffix
  have := commonPrefix_le_left a.reverse b.reverse
  simpa using this

theorem commonSuffix_comm (a b : Str) : commonSuffix a b = commonSuffix b a := by
  unfold commonSuffix; exact commonPrefix_comm _ _

/-- the part of a string between two cut points -/
theorem slice_split (s : Str) (i n : Nat) (h : n ≤ i) (hi : i ≤ s.length) :
    s.take (i - n) ++ takeRight n (s.take i) = s.take i := by
  unfold takeRight
  have hl : (s.take i).length = i := by simp [List.length_take]; omega
  rw [hl]
  have : s.take (i - n) = (s.take i).take (i - n) := by
    rw [List.take_take]; congr 1; omega
  rw [this]
  exact List.take_append_drop _ _

theorem takeRight_take_eq (s : Str) (j n : Nat) (h : n ≤ j) (hj : j ≤ s.length) :
    takeRight n (s.take j) = (s.drop (j - n)).take n := by
  unfold takeRight
  have hl : (s.take j).length = j := by simp [List.length_take]; omega
  rw [hl, List.drop_take]
  congr 1
  omega

/-- One candidate of `halfMatchI`: cutting both strings around the common part found at `(i, j)`. -/
theorem halfCandidate_split (long short : Str) (i j : Nat) (hi : i ≤ long.length) (hj : j ≤ short.length) :
    let pl := commonPrefix (long.drop i) (short.drop j)
    let sl := commonSuffix (long.take i) (short.take j)
    let mid := (short.drop (j - sl)).take sl ++ (short.drop j).take pl
    long.take (i - sl) ++ mid ++ long.drop (i + pl) = long ∧
      short.take (j - sl) ++ mid ++ short.drop (j + pl) = short := by
  intro pl sl mid
  have hsl_i : sl ≤ i := by
    have := commonSuffix_le_left (long.take i) (short.take j)
    simp only [List.length_take] at this
    show commonSuffix (long.take i) (short.take j) ≤ i
    omega
  have hsl_j : sl ≤ j := by
    have := commonSuffix_le_left (short.take j) (long.take i)
    rw [commonSuffix_comm] at this
    simp only [List.length_take] at this
    show commonSuffix (long.take i) (short.take j) ≤ j
    omega
  have hsuf : takeRight sl (long.take i) = takeRight sl (short.take j) :=
    commonSuffix_takeRight (long.take i) (short.take j)
  have hpre : (long.drop i).take pl = (short.drop j).take pl := commonPrefix_take (long.drop i) (short.drop j)
  have m1 : (short.drop (j - sl)).take sl = takeRight sl (short.take j) := (takeRight_take_eq short j sl hsl_j hj).symm
  constructor
  · -- long
    have e1 := slice_split long i sl hsl_i hi
    have e2 : long.drop (i + pl) = (long.drop i).drop pl := by rw [List.drop_drop]
    show long.take (i - sl) ++ ((short.drop (j - sl)).take sl ++ (short.drop j).take pl) ++ long.drop (i + pl) = long
    rw [m1, ← hsuf, ← hpre, e2]
    calc long.take (i - sl) ++ (takeRight sl (long.take i) ++ (long.drop i).take pl) ++ (long.drop i).drop pl
        = (long.take (i - sl) ++ takeRight sl (long.take i)) ++ ((long.drop i).take pl ++ (long.drop i).drop pl) := by
          simp [List.append_assoc]
      _ = long.take i ++ long.drop i := by rw [e1, List.take_append_drop]
      _ = long := List.take_append_drop _ _
  · have e1 := slice_split short j sl hsl_j hj
    have e2 : short.drop (j + pl) = (short.drop j).drop pl := by rw [List.drop_drop]
    show short.take (j - sl) ++ ((short.drop (j - sl)).take sl ++ (short.drop j).take pl) ++ short.drop (j + pl) = short
    rw [m1, e2]
    calc short.take (j - sl) ++ (takeRight sl (short.take j) ++ (short.drop j).take pl) ++ (short.drop j).drop pl
        = (short.take (j - sl) ++ takeRight sl (short.take j)) ++ ((short.drop j).take pl ++ (short.drop j).drop pl) := by
          simp [List.append_assoc]
      _ = short.take j ++ short.drop j := by rw [e1, List.take_append_drop]
      _ = short := List.take_append_drop _ _

/-- What `halfMatchI` holds in `best`: nothing yet, or a proper split of both strings. -/
def GoodBest (long short : Str) (b : Str × Str × Str × Str × Str) : Prop :=
  b = ([], [], [], [], []) ∨ (b.1 ++ b.2.2.2.2 ++ b.2.1 = long ∧ b.2.2.1 ++ b.2.2.2.2 ++ b.2.2.2.1 = short)

theorem halfLoop_good (long short : Str) (i : Nat) (hi : i ≤ long.length)
    (hseed : (long.drop i).take (long.length / 4) ≠ []) (fuel : Nat) (j : Option Nat)
    (hj : ∀ x, j = some x → x ≤ short.length) (best : Str × Str × Str × Str × Str)
    (hb : GoodBest long short best) :
    GoodBest long short (halfMatchI.loop long short i ((long.drop i).take (long.length / 4)) fuel j best) := by
  induction fuel generalizing j best with
  | zero => simpa [halfMatchI.loop] using hb
  | succ f ih =>
    cases j with
    | none => simpa [halfMatchI.loop] using hb
    | some jj =>
      simp only [halfMatchI.loop]
      apply ih
      · intro x hx
        exact Nat.le_of_lt (find_lt short _ hseed (jj + 1) x hx)
      · split
        · right
          exact halfCandidate_split long short i jj hi (hj jj rfl)
        · exact hb

/-- `halfMatchI` splits both strings around the same middle part. -/
theorem halfMatchI_split (long short : Str) (i : Nat) (h4 : 4 ≤ long.length) (hi : i < long.length)
    (la lb sa sb mid : Str)
    (h : halfMatchI long short i = some (la, lb, sa, sb, mid)) :
    la ++ mid ++ lb = long ∧ sa ++ mid ++ sb = short := by
  unfold halfMatchI at h
  have hseed : (long.drop i).take (long.length / 4) ≠ [] := by
    intro he
    have := congrArg List.length he
    simp only [List.length_take, List.length_drop, List.length_nil] at this
    omega
  have hg := halfLoop_good long short i (Nat.le_of_lt hi) hseed (short.length + 2)
    (find short ((long.drop i).take (long.length / 4)))
    (fun x hx => Nat.le_of_lt (find_lt short _ hseed 0 x hx)) ([], [], [], [], []) (Or.inl rfl)
  dsimp only at h
  generalize halfMatchI.loop long short i ((long.drop i).take (long.length / 4)) (short.length + 2)
    (find short ((long.drop i).take (long.length / 4))) ([], [], [], [], []) = best at h hg
  split at h
  · next hlen =>
    cases h
    rcases hg with hg | hg
    · injection hg with _ hg; injection hg with _ hg; injection hg with _ hg; injection hg with _ hg
      subst hg
      simp only [List.length_nil] at hlen
      omega
    · exact hg
  · cases h

theorem halfMatch_split (t1 t2 : Str) (hm : Half) (h : halfMatch t1 t2 = some hm) :
    hm.t1a ++ hm.mid ++ hm.t1b = t1 ∧ hm.t2a ++ hm.mid ++ hm.t2b = t2 := by
  unfold halfMatch at h
  generalize hls : (if t1.length > t2.length then (t1, t2) else (t2, t1)) = ls at h
  obtain ⟨long, short⟩ := ls
  dsimp only at h
  split at h
  · cases h
  · next hc =>
    have h4 : 4 ≤ long.length := by
      simp only [Bool.or_eq_true, decide_eq_true_eq, not_or, Nat.not_lt] at hc
      exact hc.1
    have key : ∀ la lb sa sb mid,
        (halfMatchI long short ((long.length + 3) / 4) = some (la, lb, sa, sb, mid) ∨
         halfMatchI long short ((long.length + 1) / 2) = some (la, lb, sa, sb, mid)) →
        la ++ mid ++ lb = long ∧ sa ++ mid ++ sb = short := by
      intro la lb sa sb mid hh
      rcases hh with hh | hh
      · exact halfMatchI_split long short _ h4 (by omega) la lb sa sb mid hh
      · exact halfMatchI_split long short _ h4 (by omega) la lb sa sb mid hh
    generalize h1 : halfMatchI long short ((long.length + 3) / 4) = hm1 at h key
    generalize h2 : halfMatchI long short ((long.length + 1) / 2) = hm2 at h key
    have sel : ∀ q, (match hm1, hm2 with
        | none, none => none
        | some a, none => some a
        | none, some b => some b
        | some a, some b => if a.2.2.2.2.length > b.2.2.2.2.length then some a else some b) = some q →
        hm1 = some q ∨ hm2 = some q := by
      intro q hq
      cases hm1 <;> cases hm2 <;> simp only at hq
      · cases hq
      · right; exact hq
      · left; exact hq
      · split at hq
        · left; exact hq
        · right; exact hq
    split at h
    · cases h
    · next la lb sa sb mid heq =>
      have := key la lb sa sb mid (sel _ heq)
      split at h
      · next hgt =>
        cases h
        simp only [hgt, if_true] at hls
        cases hls
        exact this
      · next hgt =>
        cases h
        simp only [hgt, if_false] at hls
        cases hls
        exact ⟨this.2, this.1⟩

/-! ### list surgery in zipper form -/

def c1 (p : DOp × Str) : Str := if p.1 = .ins then [] else p.2
def c2 (p : DOp × Str) : Str := if p.1 = .del then [] else p.2

theorem text1_cons' (p : DOp × Str) (d : Diff) : text1 (p :: d) = c1 p ++ text1 d := text1_cons p d
theorem text2_cons' (p : DOp × Str) (d : Diff) : text2 (p :: d) = c2 p ++ text2 d := text2_cons p d

theorem getElem?_mid {α} (A : List α) (x : α) (B : List α) : (A ++ x :: B)[A.length]? = some x := by
  simp

theorem set_mid {α} (A : List α) (x y : α) (B : List α) : (A ++ x :: B).set A.length y = A ++ y :: B := by
  induction A with
  | nil => rfl
  | cons a A ih => simp [ih]

theorem eraseIdx_mid {α} (A : List α) (x : α) (B : List α) : (A ++ x :: B).eraseIdx A.length = A ++ B := by
  induction A with
  | nil => rfl
  | cons a A ih => simp [ih]

/-- split a list at a valid index -/
theorem split_at {α} (d : List α) (i : Nat) (h : i < d.length) :
    ∃ A x B, d = A ++ x :: B ∧ A.length = i := by
  refine ⟨d.take i, d[i], d.drop (i + 1), ?_, ?_⟩
  · rw [← List.drop_eq_getElem_cons h, List.take_append_drop]
  · simp [List.length_take]; omega

/-- split a list around three consecutive entries -/
theorem split3 {α} (d : List α) (p : Nat) (hp : 1 ≤ p) (h : p + 1 < d.length) :
    ∃ A x y z B, d = A ++ x :: y :: z :: B ∧ A.length = p - 1 := by
  obtain ⟨A, x, B, hd, hA⟩ := split_at d (p - 1) (by omega)
  have hB : 2 ≤ B.length := by
    have := congrArg List.length hd
    simp at this
    omega
  match B, hB with
  | y :: z :: B', _ => exact ⟨A, x, y, z, B', hd, hA⟩

theorem getOp_at (A : Diff) (x : DOp × Str) (B : Diff) (i : Nat) (h : A.length = i) :
    getOp (A ++ x :: B) i = some x.1 := by
  subst h; simp [getOp]

theorem getTx_at (A : Diff) (x : DOp × Str) (B : Diff) (i : Nat) (h : A.length = i) :
    getTx (A ++ x :: B) i = x.2 := by
  subst h; simp [getTx]

theorem set_mid1 {α} (A : List α) (x y y' : α) (B : List α) :
    (A ++ x :: y :: B).set (A.length + 1) y' = A ++ x :: y' :: B := by
  induction A with
  | nil => rfl
  | cons a A ih => simp [ih]

theorem set_mid2 {α} (A : List α) (x y z z' : α) (B : List α) :
    (A ++ x :: y :: z :: B).set (A.length + 2) z' = A ++ x :: y :: z' :: B := by
  induction A with
  | nil => rfl
  | cons a A ih => simp [ih]

theorem eraseIdx_mid1 {α} (A : List α) (x y : α) (B : List α) :
    (A ++ x :: y :: B).eraseIdx (A.length + 1) = A ++ x :: B := by
  induction A with
  | nil => rfl
  | cons a A ih => simp [ih]

theorem eraseIdx_mid2 {α} (A : List α) (x y z : α) (B : List α) :
    (A ++ x :: y :: z :: B).eraseIdx (A.length + 2) = A ++ x :: y :: B := by
  induction A with
  | nil => rfl
  | cons a A ih => simp [ih]

/-! ### cleanupSemanticLossless -/

theorem slideRight_inv (fuel : Nat) (e1 edit e2 : Str) (bs : Nat) (best : Str × Str × Str) (T U : Str)
    (h1 : e1 ++ edit ++ e2 = T) (h2 : e1 ++ e2 = U)
    (hb : best.1 ++ best.2.1 ++ best.2.2 = T ∧ best.1 ++ best.2.2 = U) :
    (slideRight fuel e1 edit e2 bs best).1 ++ (slideRight fuel e1 edit e2 bs best).2.1 ++
        (slideRight fuel e1 edit e2 bs best).2.2 = T ∧
      (slideRight fuel e1 edit e2 bs best).1 ++ (slideRight fuel e1 edit e2 bs best).2.2 = U := by
  induction fuel generalizing e1 edit e2 bs best with
  | zero => simpa [slideRight] using hb
  | succ f ih =>
    unfold slideRight
    cases edit with
    | nil => exact hb
    | cons c erest =>
      cases e2 with
      | nil => exact hb
      | cons c2 e2rest =>
        dsimp only
        split
        · next hc =>
          subst hc
          have g1 : (e1 ++ [c]) ++ (erest ++ [c]) ++ e2rest = T := by rw [← h1]; simp
          have g2 : (e1 ++ [c]) ++ e2rest = U := by rw [← h2]; simp
          split
          · exact ih _ _ _ _ _ g1 g2 ⟨g1, g2⟩
          · exact ih _ _ _ _ _ g1 g2 hb
        · exact hb

theorem slideRight_first (fuel : Nat) (e1 edit e2 : Str) (bs : Nat) (best : Str × Str × Str) :
    slideRight fuel e1 edit e2 bs best = best ∨ (slideRight fuel e1 edit e2 bs best).1 ≠ [] := by
  induction fuel generalizing e1 edit e2 bs best with
  | zero => left; simp [slideRight]
  | succ f ih =>
    unfold slideRight
    cases edit with
    | nil => left; rfl
    | cons c erest =>
      cases e2 with
      | nil => left; rfl
      | cons c2 e2rest =>
        dsimp only
        split
        · split
          · rcases ih (e1 ++ [c]) (erest ++ [c2]) e2rest
                (semanticScore (e1 ++ [c]) (erest ++ [c2]) + semanticScore (erest ++ [c2]) e2rest)
                (e1 ++ [c], erest ++ [c2], e2rest) with h | h
            · right; rw [h]; simp
            · right; exact h
          · exact ih _ _ _ _ _
        · left; rfl

theorem takeRight_length_le (n : Nat) (s : Str) (h : n ≤ s.length) : (takeRight n s).length = n := by
  unfold takeRight; simp [List.length_drop]; omega

theorem c1_eq (t : Str) : c1 (DOp.eq, t) = t := rfl
theorem c2_eq (t : Str) : c2 (DOp.eq, t) = t := rfl

/-- texts of a list with three consecutive entries `eq, op, eq` -/
theorem texts_three (A B : Diff) (op : DOp) (a e b a' e' b' : Str)
    (hT : a' ++ e' ++ b' = a ++ e ++ b) (hU : a' ++ b' = a ++ b) :
    SameTexts (A ++ (DOp.eq, a) :: (op, e) :: (DOp.eq, b) :: B)
      (A ++ (DOp.eq, a') :: (op, e') :: (DOp.eq, b') :: B) := by
  unfold SameTexts
  simp only [text1_append, text2_append, text1_cons', text2_cons', c1_eq, c2_eq]
  cases op
  · -- del
    simp only [c1, c2]
    simp only [reduceCtorEq, if_false, if_true, List.nil_append]
    constructor
    · have h := congrArg (· ++ text1 B) hT; simp only [List.append_assoc] at h ⊢; rw [h]
    · have h := congrArg (· ++ text2 B) hU; simp only [List.append_assoc] at h ⊢; rw [h]
  · simp only [c1, c2]
    simp only [reduceCtorEq, if_false, if_true, List.nil_append]
    constructor
    · have h := congrArg (· ++ text1 B) hU; simp only [List.append_assoc] at h ⊢; rw [h]
    · have h := congrArg (· ++ text2 B) hT; simp only [List.append_assoc] at h ⊢; rw [h]
  · simp only [c1, c2]
    simp only [reduceCtorEq, if_false]
    constructor
    · have h := congrArg (· ++ text1 B) hT; simp only [List.append_assoc] at h ⊢; rw [h]
    · have h := congrArg (· ++ text2 B) hT; simp only [List.append_assoc] at h ⊢; rw [h]

/-- texts when the left equality of `eq, op, eq` vanished -/
theorem texts_three_dropL (A B : Diff) (op : DOp) (a e b e' b' : Str)
    (hT : e' ++ b' = a ++ e ++ b) (hU : b' = a ++ b) :
    SameTexts (A ++ (DOp.eq, a) :: (op, e) :: (DOp.eq, b) :: B) (A ++ (op, e') :: (DOp.eq, b') :: B) := by
  have h := texts_three A B op a e b [] e' b' (by simpa using hT) (by simpa using hU)
  refine SameTexts.trans h ?_
  unfold SameTexts
  simp [text1_append, text2_append, text1_cons', text2_cons', c1_eq, c2_eq]

/-- texts when the right equality of `eq, op, eq` vanished -/
theorem texts_three_dropR (A B : Diff) (op : DOp) (a e b a' e' : Str)
    (hT : a' ++ e' = a ++ e ++ b) (hU : a' = a ++ b) :
    SameTexts (A ++ (DOp.eq, a) :: (op, e) :: (DOp.eq, b) :: B) (A ++ (DOp.eq, a') :: (op, e') :: B) := by
  have h := texts_three A B op a e b a' e' [] (by simpa using hT) (by simpa using hU)
  refine SameTexts.trans h ?_
  unfold SameTexts
  simp [text1_append, text2_append, text1_cons', text2_cons', c1_eq, c2_eq]

theorem lossless_same (fuel : Nat) (d : Diff) (ptr : Nat) (hp : 1 ≤ ptr) :
    SameTexts d (lossless fuel d ptr) := by
  induction fuel generalizing d ptr with
  | zero => exact SameTexts.refl d
  | succ f ih =>
    unfold lossless
    split
    · next hlen =>
      split
      · next hops =>
        obtain ⟨A, x, y, z, B, hd, hA⟩ := split3 d ptr hp hlen
        obtain ⟨q, hq⟩ : ∃ q, ptr = q + 1 := ⟨ptr - 1, by omega⟩
        subst hq
        simp only [Nat.add_sub_cancel] at hA hops ⊢
        subst hA
        obtain ⟨xo, xt⟩ := x
        obtain ⟨yo, yt⟩ := y
        obtain ⟨zo, zt⟩ := z
        have gx : getOp d A.length = some xo := by rw [hd]; exact getOp_at A _ _ _ rfl
        have gz : getOp d (A.length + 1 + 1) = some zo := by
          rw [hd]; exact getOp_at (A ++ [(xo, xt), (yo, yt)]) (zo, zt) B _ (by simp) |> (by simpa using ·)
        have tx : getTx d A.length = xt := by rw [hd]; exact getTx_at A _ _ _ rfl
        have ty : getTx d (A.length + 1) = yt := by
          rw [hd]; exact getTx_at (A ++ [(xo, xt)]) (yo, yt) _ _ (by simp) |> (by simpa using ·)
        have tz : getTx d (A.length + 1 + 1) = zt := by
          rw [hd]; exact getTx_at (A ++ [(xo, xt), (yo, yt)]) (zo, zt) B _ (by simp) |> (by simpa using ·)
        have gy : getOp d (A.length + 1) = some yo := by
          rw [hd]; exact getOp_at (A ++ [(xo, xt)]) (yo, yt) _ _ (by simp) |> (by simpa using ·)
        rw [gx, gz] at hops
        have hxo : xo = .eq := by have := hops.1; injection this
        have hzo : zo = .eq := by have := hops.2; injection this
        subst hxo; subst hzo
        simp only [tx, ty, tz, gy, Option.getD_some]
        -- the shifted triple
        generalize hsh : (if commonSuffix xt yt ≠ 0 then
            (dropRight (commonSuffix xt yt) xt, takeRight (commonSuffix xt yt) yt ++ dropRight (commonSuffix xt yt) yt,
              takeRight (commonSuffix xt yt) yt ++ zt)
          else (xt, yt, zt)) = sh
        obtain ⟨e1, ed, e2⟩ := sh
        have hshT : e1 ++ ed ++ e2 = xt ++ yt ++ zt ∧ e1 ++ e2 = xt ++ zt := by
          split at hsh
          · injection hsh with h1 hsh; injection hsh with h2 h3
            subst h1; subst h2; subst h3
            have hs := commonSuffix_takeRight xt yt
            constructor
            · have a1 := dropRight_takeRight xt (commonSuffix xt yt)
              have a2 := dropRight_takeRight yt (commonSuffix xt yt)
              calc dropRight (commonSuffix xt yt) xt ++ (takeRight (commonSuffix xt yt) yt ++ dropRight (commonSuffix xt yt) yt)
                      ++ (takeRight (commonSuffix xt yt) yt ++ zt)
                  = (dropRight (commonSuffix xt yt) xt ++ takeRight (commonSuffix xt yt) xt)
                      ++ (dropRight (commonSuffix xt yt) yt ++ takeRight (commonSuffix xt yt) yt) ++ zt := by
                    rw [hs]; simp only [List.append_assoc]
                _ = xt ++ yt ++ zt := by rw [a1, a2]
            · have a1 := dropRight_takeRight xt (commonSuffix xt yt)
              rw [← hs, ← List.append_assoc, a1]
          · injection hsh with h1 hsh; injection hsh with h2 h3
            subst h1; subst h2; subst h3
            exact ⟨rfl, rfl⟩
        have hshE : e1 = [] → e2 = [] → xt = [] := by
          intro h1 h2
          split at hsh
          · next hco =>
            injection hsh with _ hsh; injection hsh with _ h3
            rw [h2] at h3
            have : takeRight (commonSuffix xt yt) yt = [] := by
              have := congrArg List.length h3
              simp only [List.length_append, List.length_nil] at this
              exact List.eq_nil_of_length_eq_zero (by omega)
            have hl := takeRight_length_le (commonSuffix xt yt) yt (by rw [commonSuffix_comm]; exact commonSuffix_le_left yt xt)
            rw [this] at hl
            simp only [List.length_nil] at hl
            exact absurd hl.symm hco
          · injection hsh with h1' _
            rw [h1']; exact h1
        generalize hsl : slideRight (e2.length + 1) e1 ed e2 (semanticScore e1 ed + semanticScore ed e2) (e1, ed, e2) = res
        obtain ⟨b1, be, b2⟩ := res
        have hinv := slideRight_inv (e2.length + 1) e1 ed e2 (semanticScore e1 ed + semanticScore ed e2) (e1, ed, e2)
          _ _ hshT.1 hshT.2 ⟨hshT.1, hshT.2⟩
        have hfirst := slideRight_first (e2.length + 1) e1 ed e2 (semanticScore e1 ed + semanticScore ed e2) (e1, ed, e2)
        rw [hsl] at hinv hfirst
        dsimp only at hinv hfirst ⊢
        split
        · next hne =>
          -- an improvement is saved back
          by_cases hb1 : b1 = []
          · subst hb1
            simp only [ne_eq, not_true_eq_false, if_false]
            have hb2 : b2 ≠ [] := by
              intro hb2
              subst hb2
              rcases hfirst with hf | hf
              · injection hf with h1 hf; injection hf with _ h3
                exact hne (hshE h1.symm h3.symm)
              · exact hf rfl
            simp only [hb2, not_false_eq_true, if_true]
            rw [hd]
            simp only [eraseIdx_mid, set_mid, set_mid1]
            refine SameTexts.trans ?_ (ih _ _ (by omega))
            exact texts_three_dropL A B yo xt yt zt be b2 (by simpa using hinv.1) (by simpa using hinv.2)
          · simp only [ne_eq, hb1, not_false_eq_true, if_true]
            by_cases hb2 : b2 = []
            · subst hb2
              simp only [not_true_eq_false, if_false]
              rw [hd]
              simp only [set_mid, set_mid1, eraseIdx_mid2]
              refine SameTexts.trans ?_ (ih _ _ (by omega))
              exact texts_three_dropR A B yo xt yt zt b1 be (by simpa using hinv.1) (by simpa using hinv.2)
            · simp only [hb2, not_false_eq_true, if_true]
              rw [hd]
              simp only [set_mid, set_mid1, set_mid2]
              refine SameTexts.trans ?_ (ih _ _ (by omega))
              exact texts_three A B yo xt yt zt b1 be b2 hinv.1 hinv.2
        · exact ih _ _ (by omega)
      · exact ih _ _ (by omega)
    · exact SameTexts.refl d

/-! ### cleanupMerge, second pass -/

theorem isPrefix_spec (p s : Str) (h : isPrefix p s = true) : p ++ s.drop p.length = s := by
  induction p generalizing s with
  | nil => simp
  | cons a p ih =>
    cases s with
    | nil => simp [isPrefix] at h
    | cons b s =>
      simp only [isPrefix, Bool.and_eq_true, beq_iff_eq] at h
      obtain ⟨hab, hp⟩ := h
      subst hab
      simp [ih s hp]

theorem endsWith_spec (s suf : Str) (h : endsWith s suf = true) : dropRight suf.length s ++ suf = s := by
  unfold endsWith at h
  simp only [Bool.and_eq_true, decide_eq_true_eq, beq_iff_eq] at h
  have := dropRight_takeRight s suf.length
  rw [h.2] at this
  exact this

/-- the three entries around `ptr` in zipper form, with their ops and texts read through `getOp` / `getTx` -/
theorem around (d : Diff) (ptr : Nat) (hp : 1 ≤ ptr) (hlen : ptr + 1 < d.length) :
    ∃ A xo xt yo yt zo zt B, d = A ++ (xo, xt) :: (yo, yt) :: (zo, zt) :: B ∧ ptr = A.length + 1 ∧
      getOp d (ptr - 1) = some xo ∧ getOp d ptr = some yo ∧ getOp d (ptr + 1) = some zo ∧
      getTx d (ptr - 1) = xt ∧ getTx d ptr = yt ∧ getTx d (ptr + 1) = zt := by
  obtain ⟨A, x, y, z, B, hd, hA⟩ := split3 d ptr hp hlen
  obtain ⟨xo, xt⟩ := x
  obtain ⟨yo, yt⟩ := y
  obtain ⟨zo, zt⟩ := z
  have hq : ptr = A.length + 1 := by omega
  refine ⟨A, xo, xt, yo, yt, zo, zt, B, hd, hq, ?_, ?_, ?_, ?_, ?_, ?_⟩
  · rw [hd]; exact getOp_at A _ _ _ (by omega)
  · rw [hd]; have := getOp_at (A ++ [(xo, xt)]) (yo, yt) ((zo, zt) :: B) ptr (by simp; omega); simpa using this
  · rw [hd]; have := getOp_at (A ++ [(xo, xt), (yo, yt)]) (zo, zt) B (ptr + 1) (by simp; omega); simpa using this
  · rw [hd]; exact getTx_at A _ _ _ (by omega)
  · rw [hd]; have := getTx_at (A ++ [(xo, xt)]) (yo, yt) ((zo, zt) :: B) ptr (by simp; omega); simpa using this
  · rw [hd]; have := getTx_at (A ++ [(xo, xt), (yo, yt)]) (zo, zt) B (ptr + 1) (by simp; omega); simpa using this

theorem mergePass2_same (fuel : Nat) (d : Diff) (ptr : Nat) (ch : Bool) (hp : 1 ≤ ptr) :
    SameTexts d (mergePass2 fuel d ptr ch).1 := by
  induction fuel generalizing d ptr ch with
  | zero => exact SameTexts.refl d
  | succ f ih =>
    unfold mergePass2
    split
    · next hlen =>
      split
      · next hops =>
        obtain ⟨A, xo, xt, yo, yt, zo, zt, B, hd, hq, g1, g2, g3, t1, t2, t3⟩ := around d ptr hp hlen
        rw [g1, g3] at hops
        have hxo : xo = .eq := by have := hops.1; injection this
        have hzo : zo = .eq := by have := hops.2; injection this
        subst hxo; subst hzo
        simp only [t1, t2, t3, g2, Option.getD_some]
        subst hq
        simp only [Nat.add_sub_cancel]
        split
        · next hend =>
          have hs := endsWith_spec yt xt hend
          refine SameTexts.trans ?_ (ih _ _ _ (by omega))
          by_cases hx : xt = []
          · subst hx
            simp only [ne_eq, not_true_eq_false, if_false]
            rw [hd, eraseIdx_mid]
            exact texts_three_dropL A B yo [] yt zt yt zt (by simp) (by simp)
          · simp only [ne_eq, hx, not_false_eq_true, if_true]
            rw [hd]
            simp only [set_mid1, set_mid2, eraseIdx_mid]
            refine texts_three_dropL A B yo xt yt zt _ _ ?_ rfl
            rw [← hs]
            simp only [List.append_assoc]
            rw [hs]
        · split
          · next hstart =>
            have hs := isPrefix_spec zt yt hstart
            refine SameTexts.trans ?_ (ih _ _ _ (by omega))
            rw [hd]
            simp only [set_mid, set_mid1, eraseIdx_mid2]
            refine texts_three_dropR A B yo xt yt zt _ _ ?_ rfl
            rw [← hs]
            simp only [List.append_assoc]
            rw [hs]
          · exact ih _ _ _ (by omega)
      · exact ih _ _ _ (by omega)
    · exact SameTexts.refl d

/-! ### commonOverlap -/

theorem findAux_spec (needle hay : Str) (i j : Nat) (h : findAux needle hay i = some j) :
    ∃ k, j = i + k ∧ k ≤ hay.length ∧ isPrefix needle (hay.drop k) = true := by
  induction hay generalizing i with
  | nil =>
    simp only [findAux] at h
    split at h
    · next he =>
      cases h
      have : needle = [] := by simpa using he
      subst this
      exact ⟨0, rfl, Nat.le_refl _, rfl⟩
    · cases h
  | cons c rest ih =>
    simp only [findAux] at h
    split at h
    · next hp => cases h; exact ⟨0, rfl, Nat.zero_le _, hp⟩
    · obtain ⟨k, hj, hk, hp⟩ := ih (i + 1) h
      exact ⟨k + 1, by omega, by simp; omega, by simpa using hp⟩

theorem isPrefix_take (p s : Str) (h : isPrefix p s = true) : p.length ≤ s.length ∧ s.take p.length = p := by
  have hs := isPrefix_spec p s h
  have hl := congrArg List.length hs
  simp only [List.length_append, List.length_drop] at hl
  refine ⟨by omega, ?_⟩
  have := congrArg (List.take p.length) hs
  rw [List.take_left' rfl] at this
  exact this.symm

/-- `find hay needle = some k`: the needle sits at offset `k` -/
theorem find_spec (hay needle : Str) (k : Nat) (h : find hay needle = some k) :
    k + needle.length ≤ hay.length ∧ (hay.drop k).take needle.length = needle := by
  unfold find at h
  simp only [List.drop_zero] at h
  obtain ⟨k', hj, hk, hp⟩ := findAux_spec needle hay 0 k h
  have : k = k' := by omega
  subst this
  have := isPrefix_take needle _ hp
  simp only [List.length_drop] at this
  exact ⟨by omega, this.2⟩

theorem takeRight_all (n : Nat) (s : Str) (h : s.length ≤ n) : takeRight n s = s := by
  unfold takeRight
  have : s.length - n = 0 := by omega
  rw [this]; rfl

theorem takeRight_length (n : Nat) (s : Str) : (takeRight n s).length = min n s.length := by
  unfold takeRight; simp [List.length_drop]; omega

theorem commonOverlap_loop_spec (a b : Str) (hab : a ≠ b) (hl : a.length = b.length) (fuel best length : Nat)
    (hb : best ≤ a.length ∧ takeRight best a = b.take best) :
    commonOverlap.loop a b fuel best length ≤ a.length ∧
      takeRight (commonOverlap.loop a b fuel best length) a = b.take (commonOverlap.loop a b fuel best length) := by
  induction fuel generalizing best length with
  | zero => simpa [commonOverlap.loop] using hb
  | succ f ih =>
    unfold commonOverlap.loop
    split
    · exact hb
    · next found hf =>
      dsimp only
      have hsp := find_spec b (takeRight length a) found hf
      rw [takeRight_length] at hsp
      have hle : length ≤ a.length := by
        by_cases hc : length ≤ a.length
        · exact hc
        · exfalso
          have hall : takeRight length a = a := takeRight_all length a (by omega)
          rw [hall] at hsp
          have hmin : min length a.length = a.length := by omega
          rw [hmin] at hsp
          have hf0 : found = 0 := by omega
          subst hf0
          have h2 := hsp.2
          simp only [List.drop_zero] at h2
          rw [hl, List.take_length] at h2
          exact hab h2.symm
      have hmin : min length a.length = length := by omega
      rw [hmin] at hsp
      split
      · next hcond =>
        apply ih
        refine ⟨by omega, ?_⟩
        simp only [Bool.or_eq_true, decide_eq_true_eq] at hcond
        rcases hcond with h0 | h1
        · subst h0
          simp only [Nat.add_zero, List.drop_zero] at hsp ⊢
          exact hsp.2.symm
        · exact h1
      · exact ih _ _ hb

theorem takeRight_takeRight (k n : Nat) (s : Str) (h : k ≤ n) : takeRight k (takeRight n s) = takeRight k s := by
  unfold takeRight
  simp only [List.length_drop, List.drop_drop]
  congr 1
  omega

/-- `diff_commonOverlap`: the result is the length of a suffix of `t1` that is a prefix of `t2` -/
theorem commonOverlap_spec (t1 t2 : Str) :
    commonOverlap t1 t2 ≤ t1.length ∧ commonOverlap t1 t2 ≤ t2.length ∧
      takeRight (commonOverlap t1 t2) t1 = t2.take (commonOverlap t1 t2) := by
  unfold commonOverlap
  split
  · simp [takeRight]
  · dsimp only
    generalize ha : (if t1.length > t2.length then takeRight t2.length t1 else t1) = a
    generalize hb : (if t1.length < t2.length then t2.take t1.length else t2) = b
    have hal : a.length = min t1.length t2.length := by
      rw [← ha]; split
      · rw [takeRight_length]; omega
      · omega
    have hbl : b.length = min t1.length t2.length := by
      rw [← hb]; split
      · simp only [List.length_take]
      · omega
    have hak : ∀ k, k ≤ min t1.length t2.length → takeRight k a = takeRight k t1 := by
      intro k hk
      rw [← ha]; split
      · exact takeRight_takeRight k _ t1 (by omega)
      · rfl
    have hbk : ∀ k, k ≤ min t1.length t2.length → b.take k = t2.take k := by
      intro k hk
      rw [← hb]; split
      · rw [List.take_take]; congr 1; omega
      · rfl
    split
    · next hab =>
      refine ⟨Nat.min_le_left _ _, Nat.min_le_right _ _, ?_⟩
      rw [← hak _ (Nat.le_refl _), ← hbk _ (Nat.le_refl _), takeRight_all _ a (by omega), ← hbl, List.take_length]
      exact hab
    · next hab =>
      have := commonOverlap_loop_spec a b hab (by omega) (min t1.length t2.length + 2) 0 1
        ⟨Nat.zero_le _, by simp [takeRight]⟩
      generalize commonOverlap.loop a b (min t1.length t2.length + 2) 0 1 = r at this
      have hr : r ≤ min t1.length t2.length := by omega
      refine ⟨by omega, by omega, ?_⟩
      rw [← hak r hr, ← hbk r hr]
      exact this.2

/-! ### the overlap pass of cleanupSemantic -/

theorem take_mid1 {α} (A : List α) (x : α) (R : List α) : (A ++ x :: R).take (A.length + 1) = A ++ [x] := by
  induction A with
  | nil => rfl
  | cons a A ih => simp [ih]

theorem drop_mid1 {α} (A : List α) (x : α) (R : List α) : (A ++ x :: R).drop (A.length + 1) = R := by
  induction A with
  | nil => rfl
  | cons a A ih => simp [ih]

theorem take_mid {α} (A R : List α) : (A ++ R).take A.length = A := List.take_left' rfl
theorem drop_mid {α} (A R : List α) : (A ++ R).drop A.length = R := List.drop_left' rfl

theorem split2 {α} (d : List α) (p : Nat) (hp : 1 ≤ p) (h : p < d.length) :
    ∃ A x y B, d = A ++ x :: y :: B ∧ p = A.length + 1 := by
  obtain ⟨A, x, B, hd, hA⟩ := split_at d (p - 1) (by omega)
  have hB : 1 ≤ B.length := by
    have := congrArg List.length hd
    simp at this
    omega
  match B, hB with
  | y :: B', _ => exact ⟨A, x, y, B', hd, by omega⟩

theorem overlapPass_same (fuel : Nat) (d : Diff) (ptr : Nat) (hp : 1 ≤ ptr) :
    SameTexts d (overlapPass fuel d ptr) := by
  induction fuel generalizing d ptr with
  | zero => exact SameTexts.refl d
  | succ f ih =>
    unfold overlapPass
    split
    · next hlen =>
      split
      · next hops =>
        obtain ⟨A, x, y, B, hd, hq⟩ := split2 d ptr hp hlen
        obtain ⟨xo, D⟩ := x
        obtain ⟨yo, I⟩ := y
        subst hq
        simp only [Nat.add_sub_cancel] at hops ⊢
        have g1 : getOp d A.length = some xo := by rw [hd]; exact getOp_at A _ _ _ rfl
        have g2 : getOp d (A.length + 1) = some yo := by
          rw [hd]; have := getOp_at (A ++ [(xo, D)]) (yo, I) B (A.length + 1) (by simp); simpa using this
        have t1 : getTx d A.length = D := by rw [hd]; exact getTx_at A _ _ _ rfl
        have t2 : getTx d (A.length + 1) = I := by
          rw [hd]; have := getTx_at (A ++ [(xo, D)]) (yo, I) B (A.length + 1) (by simp); simpa using this
        rw [g1, g2] at hops
        have hxo : xo = .del := by have := hops.1; injection this
        have hyo : yo = .ins := by have := hops.2; injection this
        subst hxo; subst hyo
        simp only [t1, t2]
        have htk : d.take (A.length + 1) = A ++ [(DOp.del, D)] := by rw [hd]; exact take_mid1 A _ _
        have hdr : d.drop (A.length + 1) = (DOp.ins, I) :: B := by rw [hd]; exact drop_mid1 A _ _
        have s1 := commonOverlap_spec D I
        have s2 := commonOverlap_spec I D
        have base : ∀ (X Y Z : DOp × Str), c1 X ++ c1 Y ++ c1 Z = D → c2 X ++ c2 Y ++ c2 Z = I →
            SameTexts d (A ++ X :: Y :: Z :: B) := by
          intro X Y Z h1 h2
          rw [hd]
          unfold SameTexts
          simp only [text1_append, text2_append, text1_cons', text2_cons']
          constructor
          · have := congrArg (fun t => text1 A ++ (t ++ text1 B)) h1
            simpa [c1, List.append_assoc] using this
          · have := congrArg (fun t => text2 A ++ (t ++ text2 B)) h2
            simpa [c2, List.append_assoc] using this
        split
        · split
          · refine SameTexts.trans ?_ (ih _ _ (by omega))
            rw [htk, hdr]
            have e : A ++ [(DOp.del, D)] ++ [(DOp.eq, List.take (commonOverlap D I) I)] ++ (DOp.ins, I) :: B
                = A ++ (DOp.del, D) :: (DOp.eq, List.take (commonOverlap D I) I) :: (DOp.ins, I) :: B := by simp
            rw [e]
            simp only [set_mid, set_mid2]
            apply base
            · have := dropRight_takeRight D (commonOverlap D I)
              rw [s1.2.2] at this
              simpa [c1, dropRight] using this
            · simp [c2]
          · exact ih _ _ (by omega)
        · split
          · refine SameTexts.trans ?_ (ih _ _ (by omega))
            rw [htk, hdr]
            have e : A ++ [(DOp.del, D)] ++ [(DOp.eq, List.take (commonOverlap I D) D)] ++ (DOp.ins, I) :: B
                = A ++ (DOp.del, D) :: (DOp.eq, List.take (commonOverlap I D) D) :: (DOp.ins, I) :: B := by simp
            rw [e]
            simp only [set_mid, set_mid2]
            apply base
            · simp [c1]
            · have := dropRight_takeRight I (commonOverlap I D)
              rw [s2.2.2] at this
              simpa [c2, dropRight] using this
          · exact ih _ _ (by omega)
      · exact ih _ _ (by omega)
    · exact SameTexts.refl d

/-! ### the first pass of cleanupSemantic -/

theorem split_of_get {α} (d : List α) (i : Nat) (x : α) (h : d[i]? = some x) :
    ∃ A B, d = A ++ x :: B ∧ A.length = i := by
  have hi : i < d.length := by
    by_cases hc : i < d.length
    · exact hc
    · rw [List.getElem?_eq_none (by omega)] at h; cases h
  obtain ⟨A, y, B, hd, hA⟩ := split_at d i hi
  have : d[i]? = some y := by rw [hd, ← hA]; exact getElem?_mid A y B
  rw [this] at h
  injection h with h
  subst h
  exact ⟨A, B, hd, hA⟩

/-- the equality remembered in `lastEq` is the entry on top of the stack -/
def SemInv (s : SemSt) : Prop :=
  ∀ le top rest, s.lastEq = some le → s.eqs = top :: rest → s.d[top]? = some (DOp.eq, le)

theorem semPass1_same (fuel : Nat) (s : SemSt) (hinv : SemInv s) : SameTexts s.d (semPass1 fuel s).1 := by
  induction fuel generalizing s with
  | zero => exact SameTexts.refl _
  | succ f ih =>
    unfold semPass1
    split
    · exact ih _ hinv
    · dsimp only
      split
      · exact SameTexts.refl _
      · next t ht =>
        refine ih _ ?_
        intro le top rest h1 h2
        injection h1 with h1
        injection h2 with h2 _
        subst h1; subst h2
        exact ht
      · next op t hne ht =>
        generalize hs1 : (if op = DOp.ins then { s with li2 := s.li2 + t.length } else { s with ld2 := s.ld2 + t.length }) = s1
        have hd : s1.d = s.d := by rw [← hs1]; split <;> rfl
        have hl : s1.lastEq = s.lastEq := by rw [← hs1]; split <;> rfl
        have he : s1.eqs = s.eqs := by rw [← hs1]; split <;> rfl
        have hinv1 : SemInv s1 := by
          intro le top rest h1 h2
          rw [hd]; rw [hl] at h1; rw [he] at h2
          exact hinv le top rest h1 h2
        split
        · next le top rest hle heq =>
          split
          · -- the equality is split into a delete and an insert
            obtain ⟨A, B, hAB, hA⟩ := split_of_get s1.d top (DOp.eq, le) (hinv1 le top rest hle heq)
            subst hA
            have e1 : s1.d.take A.length ++ [(DOp.del, le)] ++ s1.d.drop A.length
                = A ++ (DOp.del, le) :: (DOp.eq, le) :: B := by
              rw [hAB, take_mid, drop_mid]; simp
            rw [e1]
            have e2 : getTx (A ++ (DOp.del, le) :: (DOp.eq, le) :: B) (A.length + 1) = le := by
              have := getTx_at (A ++ [(DOp.del, le)]) (DOp.eq, le) B (A.length + 1) (by simp)
              simpa using this
            rw [e2, set_mid1]
            refine SameTexts.trans ?_ (ih _ ?_)
            · rw [← hd, hAB]
              unfold SameTexts
              simp [text1_append, text2_append, text1_cons', text2_cons', c1, c2]
            · intro le' top' rest' h1; cases h1
          · rw [← hd]; exact ih _ hinv1
        · rw [← hd]; exact ih _ hinv1

/-! ### cleanupMerge, first pass -/

/-- The state of the first pass in zipper form: `A` = the entries before the current run of deletions /
insertions (it is empty or ends with an equality), `run` = that run, `R` = the entries from the pointer on. -/
structure MZ (s : MergeSt) (A run R : Diff) : Prop where
  hd : s.d = A ++ run ++ R
  hp : s.ptr = A.length + run.length
  hn : run.length = s.cd + s.ci
  hrun : ∀ p ∈ run, p.1 ≠ DOp.eq
  htd : s.td = text1 run
  hti : s.ti = text2 run
  hA : A = [] ∨ ∃ A' e, A = A' ++ [(DOp.eq, e)]

/-- what the two factoring steps return, in zipper form -/
def FR (s : MergeSt) (A run : Diff) (e : Str) (R : Diff) (r : Diff × Nat × Str × Str) : Prop :=
  ∃ A1 pre suf, r.1 = A1 ++ run ++ (DOp.eq, suf ++ e) :: R ∧ r.2.1 = A1.length + run.length ∧
    text1 A1 = text1 A ++ pre ∧ text2 A1 = text2 A ++ pre ∧
    s.ti = pre ++ r.2.2.1 ++ suf ∧ s.td = pre ++ r.2.2.2 ++ suf

theorem FR_id (s : MergeSt) (A run : Diff) (e : Str) (R : Diff) (z : MZ s A run ((DOp.eq, e) :: R)) :
    FR s A run e R (s.d, s.ptr, s.ti, s.td) :=
  ⟨A, [], [], by simpa using z.hd, z.hp, by simp, by simp, by simp, by simp⟩

theorem text1_snoc_eq (A : Diff) (e : Str) : text1 (A ++ [(DOp.eq, e)]) = text1 A ++ e := by
  simp [text1_append, text1_cons', c1, text1_nil]
theorem text2_snoc_eq (A : Diff) (e : Str) : text2 (A ++ [(DOp.eq, e)]) = text2 A ++ e := by
  simp [text2_append, text2_cons', c2, text2_nil]

theorem FR_prefix (s : MergeSt) (A run : Diff) (e : Str) (R : Diff) (z : MZ s A run ((DOp.eq, e) :: R)) :
    FR s A run e R (factorPrefix s) := by
  unfold factorPrefix
  dsimp only
  split
  · next hcl =>
    have hpre : s.ti.take (commonPrefix s.ti s.td) = s.td.take (commonPrefix s.ti s.td) := commonPrefix_take _ _
    have hx : s.ptr - s.cd - s.ci = A.length := by have := z.hp; have := z.hn; omega
    rw [hx]
    rcases z.hA with hA | ⟨A', ae, hA⟩
    · subst hA
      have hc : ¬ ((0 : Nat) ≥ 1 ∧ getOp s.d (0 - 1) = some DOp.eq) := by omega
      simp only [List.length_nil]
      rw [if_neg hc]
      refine ⟨[(DOp.eq, s.ti.take (commonPrefix s.ti s.td))], s.ti.take (commonPrefix s.ti s.td), [], ?_, ?_, ?_, ?_, ?_, ?_⟩
      · have := z.hd; simp only [List.nil_append] at this; simp [this]
      · have := z.hp; simp at this ⊢; omega
      · simp [text1_cons', c1, text1_nil]
      · simp [text2_cons', c2, text2_nil]
      · simp
      · simp only [List.append_nil]; rw [hpre, List.take_append_drop]
    · subst hA
      have hd' : s.d = A' ++ (DOp.eq, ae) :: (run ++ (DOp.eq, e) :: R) := by rw [z.hd]; simp
      have hlen : (A' ++ [(DOp.eq, ae)]).length - 1 = A'.length := by simp
      have hc : (A' ++ [(DOp.eq, ae)]).length ≥ 1 ∧ getOp s.d ((A' ++ [(DOp.eq, ae)]).length - 1) = some DOp.eq := by
        refine ⟨by simp, ?_⟩
        rw [hlen, hd']; exact getOp_at A' _ _ _ rfl
      rw [if_pos hc, hlen]
      have ht : getTx s.d A'.length = ae := by rw [hd']; exact getTx_at A' _ _ _ rfl
      rw [ht]
      refine ⟨A' ++ [(DOp.eq, ae ++ s.ti.take (commonPrefix s.ti s.td))], s.ti.take (commonPrefix s.ti s.td), [], ?_, ?_, ?_, ?_, ?_, ?_⟩
      · dsimp only; rw [hd', set_mid]; simp
      · have := z.hp; simp at this ⊢; omega
      · simp only [text1_snoc_eq, List.append_assoc]
      · simp only [text2_snoc_eq, List.append_assoc]
      · simp
      · simp only [List.append_nil]; rw [hpre, List.take_append_drop]
  · exact FR_id s A run e R z

theorem FR_suffix (s : MergeSt) (A run : Diff) (e : Str) (R : Diff) (r : Diff × Nat × Str × Str)
    (h : FR s A run e R r) : FR s A run e R (factorSuffix r) := by
  unfold factorSuffix
  dsimp only
  split
  · obtain ⟨A1, pre, suf, h1, h2, h3, h4, h5, h6⟩ := h
    have hs := commonSuffix_takeRight r.2.2.1 r.2.2.2
    have hg : getTx r.1 r.2.1 = suf ++ e := by
      rw [h1, h2]
      have := getTx_at (A1 ++ run) (DOp.eq, suf ++ e) R (A1.length + run.length) (by simp)
      simpa using this
    refine ⟨A1, pre, takeRight (commonSuffix r.2.2.1 r.2.2.2) r.2.2.1 ++ suf, ?_, h2, h3, h4, ?_, ?_⟩
    · dsimp only
      rw [hg, h1, h2]
      have := set_mid (A1 ++ run) (DOp.eq, suf ++ e)
        (DOp.eq, takeRight (commonSuffix r.2.2.1 r.2.2.2) r.2.2.1 ++ (suf ++ e)) R
      simp only [List.length_append, List.append_assoc] at this ⊢
      exact this
    · dsimp only
      rw [h5]
      have := dropRight_takeRight r.2.2.1 (commonSuffix r.2.2.1 r.2.2.2)
      calc pre ++ r.2.2.1 ++ suf = pre ++ (dropRight (commonSuffix r.2.2.1 r.2.2.2) r.2.2.1 ++
              takeRight (commonSuffix r.2.2.1 r.2.2.2) r.2.2.1) ++ suf := by rw [this]
        _ = _ := by simp only [List.append_assoc]
    · dsimp only
      rw [h6, hs]
      have := dropRight_takeRight r.2.2.2 (commonSuffix r.2.2.1 r.2.2.2)
      calc pre ++ r.2.2.2 ++ suf = pre ++ (dropRight (commonSuffix r.2.2.1 r.2.2.2) r.2.2.2 ++
              takeRight (commonSuffix r.2.2.1 r.2.2.2) r.2.2.2) ++ suf := by rw [this]
        _ = _ := by simp only [List.append_assoc]
  · exact h

theorem FR_run (s : MergeSt) (A run : Diff) (e : Str) (R : Diff) (z : MZ s A run ((DOp.eq, e) :: R)) :
    FR s A run e R (factorRun s) := by
  unfold factorRun
  split
  · exact FR_suffix s A run e R _ (FR_prefix s A run e R z)
  · exact FR_id s A run e R z

/-- texts of a run without equalities: only its deletions / insertions -/
theorem text_newOps (td ti : Str) :
    text1 ((if td.isEmpty then [] else [(DOp.del, td)]) ++ (if ti.isEmpty then [] else [(DOp.ins, ti)])) = td ∧
    text2 ((if td.isEmpty then [] else [(DOp.del, td)]) ++ (if ti.isEmpty then [] else [(DOp.ins, ti)])) = ti := by
  cases td <;> cases ti <;> simp [text1, text2]

theorem newOps_noeq (td ti : Str) :
    ∀ p ∈ ((if td.isEmpty then [] else [(DOp.del, td)]) ++ (if ti.isEmpty then [] else [(DOp.ins, ti)]) : Diff),
      p.1 ≠ DOp.eq := by
  intro p hp
  cases td <;> cases ti <;> simp at hp
  · subst hp; simp
  · subst hp; simp
  · rcases hp with hp | hp <;> subst hp <;> simp

theorem replaceRun_spec (s : MergeSt) (A run : Diff) (e : Str) (R : Diff) (r : Diff × Nat × Str × Str)
    (z : MZ s A run ((DOp.eq, e) :: R)) (h : FR s A run e R r) :
    ∃ A2, MZ (replaceRun s r) A2 [] R ∧ SameTexts s.d (replaceRun s r).d := by
  obtain ⟨A1, pre, suf, h1, h2, h3, h4, h5, h6⟩ := h
  unfold replaceRun
  dsimp only
  have hstart : r.2.1 - (s.cd + s.ci) = A1.length := by rw [h2, ← z.hn]; omega
  rw [hstart]
  have htake : r.1.take A1.length = A1 := by rw [h1, List.append_assoc]; exact take_mid _ _
  have hdrop : r.1.drop (A1.length + s.cd + s.ci) = (DOp.eq, suf ++ e) :: R := by
    rw [h1]
    have : A1.length + s.cd + s.ci = (A1 ++ run).length := by simp [z.hn]; omega
    rw [this]; exact drop_mid _ _
  rw [htake, hdrop]
  generalize hno : ((if r.2.2.2.isEmpty then [] else [(DOp.del, r.2.2.2)]) ++
    (if r.2.2.1.isEmpty then [] else [(DOp.ins, r.2.2.1)]) : Diff) = newOps
  have hnt := text_newOps r.2.2.2 r.2.2.1
  rw [hno] at hnt
  refine ⟨A1 ++ newOps ++ [(DOp.eq, suf ++ e)], ?_, ?_⟩
  · refine ⟨?_, ?_, ?_, ?_, rfl, rfl, Or.inr ⟨A1 ++ newOps, suf ++ e, rfl⟩⟩
    · simp [MergeSt.reset]
    · simp [MergeSt.reset]; omega
    · simp [MergeSt.reset]
    · intro p hp; cases hp
  · unfold SameTexts
    simp only [MergeSt.reset]
    rw [z.hd]
    simp only [text1_append, text2_append, text1_cons', text2_cons', c1_eq, c2_eq, hnt.1, hnt.2, h3, h4,
      ← z.htd, ← z.hti, h5, h6, List.append_assoc]
    trivial

theorem mergePass1_same (fuel : Nat) (s : MergeSt) (A run R : Diff) (z : MZ s A run R) :
    SameTexts s.d (mergePass1 fuel s) := by
  induction fuel generalizing s A run R with
  | zero => exact SameTexts.refl _
  | succ f ih =>
    unfold mergePass1
    have hget : s.d[s.ptr]? = R.head? := by
      rw [z.hd, z.hp]
      have : A.length + run.length = (A ++ run).length := by simp
      rw [this]
      cases R with
      | nil => simp
      | cons x R' => rw [getElem?_mid]; rfl
    split
    · exact SameTexts.refl _
    · next t ht =>
      -- an insertion joins the run
      rw [hget] at ht
      cases R with
      | nil => cases ht
      | cons x R' =>
        simp only [List.head?_cons, Option.some.injEq] at ht
        subst ht
        refine ih _ A (run ++ [(DOp.ins, t)]) R' ⟨?_, ?_, ?_, ?_, ?_, ?_, z.hA⟩
        · show s.d = _; rw [z.hd]; simp
        · show s.ptr + 1 = _; rw [z.hp]; simp; omega
        · show _ = s.cd + (s.ci + 1); simp [z.hn]; omega
        · intro p hp
          rcases List.mem_append.mp hp with hp | hp
          · exact z.hrun p hp
          · simp at hp; subst hp; simp
        · show s.td = _; rw [z.htd]; simp [text1_append, text1_cons', c1, text1_nil]
        · show s.ti ++ t = _; rw [z.hti]; simp [text2_append, text2_cons', c2, text2_nil]
    · next t ht =>
      rw [hget] at ht
      cases R with
      | nil => cases ht
      | cons x R' =>
        simp only [List.head?_cons, Option.some.injEq] at ht
        subst ht
        refine ih _ A (run ++ [(DOp.del, t)]) R' ⟨?_, ?_, ?_, ?_, ?_, ?_, z.hA⟩
        · show s.d = _; rw [z.hd]; simp
        · show s.ptr + 1 = _; rw [z.hp]; simp; omega
        · show _ = (s.cd + 1) + s.ci; simp [z.hn]; omega
        · intro p hp
          rcases List.mem_append.mp hp with hp | hp
          · exact z.hrun p hp
          · simp at hp; subst hp; simp
        · show s.td ++ t = _; rw [z.htd]; simp [text1_append, text1_cons', c1, text1_nil]
        · show s.ti = _; rw [z.hti]; simp [text2_append, text2_cons', c2, text2_nil]
    · next e ht =>
      rw [hget] at ht
      cases R with
      | nil => cases ht
      | cons x R' =>
        simp only [List.head?_cons, Option.some.injEq] at ht
        subst ht
        split
        · -- the run is replaced
          obtain ⟨A2, z2, hs⟩ := replaceRun_spec s A run e R' _ z (FR_run s A run e R' z)
          exact SameTexts.trans hs (ih _ A2 [] R' z2)
        · next hsmall =>
          split
          · next hj =>
            -- the equality is merged into the previous one: the run is empty
            have hrun : run = [] := by
              cases run with
              | nil => rfl
              | cons y rest =>
                exfalso
                have hl : rest = [] := by
                  have := z.hn; simp at this
                  exact List.eq_nil_of_length_eq_zero (by omega)
                subst hl
                have hp1 : s.ptr - 1 = A.length := by have := z.hp; simp at this; omega
                have : getOp s.d (s.ptr - 1) = some y.1 := by
                  rw [hp1, z.hd]
                  have := getOp_at A y ((DOp.eq, e) :: R') A.length rfl
                  simpa using this
                rw [this] at hj
                have hy := hj.2; injection hy with hy
                exact z.hrun y (by simp) hy
            subst hrun
            have hpA : s.ptr = A.length := by have := z.hp; simpa using this
            rcases z.hA with hA | ⟨A', ae, hA⟩
            · subst hA; exfalso; simp at hpA; exact hj.1 hpA
            · subst hA
              have hd' : s.d = A' ++ (DOp.eq, ae) :: (DOp.eq, e) :: R' := by rw [z.hd]; simp
              have hp1 : s.ptr = A'.length + 1 := by rw [hpA]; simp
              have e1 : getTx s.d (s.ptr - 1) = ae := by
                rw [hp1, hd']; exact getTx_at A' _ _ _ (by omega)
              have e2 : getTx s.d s.ptr = e := by
                rw [hp1, hd']
                have := getTx_at (A' ++ [(DOp.eq, ae)]) (DOp.eq, e) R' (A'.length + 1) (by simp)
                simpa using this
              have hj' : joinEq s = MergeSt.reset (A' ++ (DOp.eq, ae ++ e) :: R') (A'.length + 1) := by
                unfold joinEq
                rw [e1, e2, hp1, hd']
                simp only [Nat.add_sub_cancel, set_mid, eraseIdx_mid1]
              rw [hj']
              refine SameTexts.trans ?_ (ih _ (A' ++ [(DOp.eq, ae ++ e)]) [] R' ⟨?_, ?_, ?_, ?_, rfl, rfl, Or.inr ⟨A', ae ++ e, rfl⟩⟩)
              · rw [hd']
                unfold SameTexts
                simp [MergeSt.reset, text1_append, text2_append, text1_cons', text2_cons', c1_eq, c2_eq]
              · simp [MergeSt.reset]
              · simp [MergeSt.reset]
              · simp [MergeSt.reset]
              · intro p hp; cases hp
          · -- the pointer moves past the equality
            refine ih _ (A ++ run ++ [(DOp.eq, e)]) [] R' ⟨?_, ?_, ?_, ?_, rfl, rfl, Or.inr ⟨A ++ run, e, rfl⟩⟩
            · simp [MergeSt.reset, z.hd]
            · simp [MergeSt.reset, z.hp]; omega
            · simp [MergeSt.reset]
            · intro p hp; cases hp

theorem dropLast_empty_same (d : Diff) (op : DOp) (h : d.getLast? = some (op, [])) : SameTexts d d.dropLast := by
  have hd : d = d.dropLast ++ [(op, [])] := by
    have hne : d ≠ [] := by intro e; subst e; simp at h
    have := List.dropLast_concat_getLast hne
    rw [List.getLast?_eq_some_getLast hne] at h
    injection h with h
    rw [h] at this
    exact this.symm
  unfold SameTexts
  conv => lhs; rhs; rw [hd]
  conv => rhs; rhs; rw [hd]
  cases op <;> simp [text1_append, text2_append, text1_cons', text2_cons', c1, c2, text1_nil, text2_nil]

/-- `diff_cleanupMerge` keeps both texts. -/
theorem cleanupMerge_same (fuel : Nat) (d : Diff) : SameTexts d (cleanupMerge fuel d) := by
  induction fuel generalizing d with
  | zero => exact SameTexts.refl d
  | succ f ih =>
    unfold cleanupMerge
    dsimp only
    have h0 : SameTexts d (d ++ [(DOp.eq, [])]) := by
      unfold SameTexts
      simp [text1_append, text2_append, text1_cons', text2_cons', c1, c2, text1_nil, text2_nil]
    have h1 : SameTexts (d ++ [(DOp.eq, [])])
        (mergePass1 (4 * (d ++ [(DOp.eq, [])]).length + 8)
          { d := d ++ [(DOp.eq, [])], ptr := 0, cd := 0, ci := 0, td := [], ti := [] }) :=
      mergePass1_same _ _ [] [] (d ++ [(DOp.eq, [])]) ⟨by simp, by simp, by simp, (by intro p hp; cases hp), rfl, rfl, Or.inl rfl⟩
    generalize mergePass1 (4 * (d ++ [(DOp.eq, [])]).length + 8)
          { d := d ++ [(DOp.eq, [])], ptr := 0, cd := 0, ci := 0, td := [], ti := [] } = d1 at h1
    have h2 : SameTexts d1 (dropDummy d1) := by
      unfold dropDummy
      split
      · next op hl => exact dropLast_empty_same d1 op hl
      · exact SameTexts.refl _
    generalize dropDummy d1 = d2 at h2
    have h3 := mergePass2_same (2 * d2.length + 4) d2 1 false (Nat.le_refl 1)
    generalize mergePass2 (2 * d2.length + 4) d2 1 false = r at h3
    have h03 : SameTexts d r.1 := (h0.trans h1).trans (h2.trans h3)
    split
    · exact h03.trans (ih r.1)
    · exact h03

/-- `diff_cleanupSemantic` (with its lossless and overlap passes) keeps both texts. -/
theorem cleanupSemantic_same (d : Diff) : SameTexts d (cleanupSemantic d) := by
  unfold cleanupSemantic
  dsimp only
  generalize d.length + (d.map (·.2.length)).sum + 4 = n
  have h1 := semPass1_same (4 * n * n + 16)
    { d := d, ptr := 0, eqs := [], lastEq := none, li1 := 0, ld1 := 0, li2 := 0, ld2 := 0, changes := false }
    (by intro le top rest h; cases h)
  dsimp only at h1
  generalize semPass1 (4 * n * n + 16)
    { d := d, ptr := 0, eqs := [], lastEq := none, li1 := 0, ld1 := 0, li2 := 0, ld2 := 0, changes := false } = r at h1
  have h2 : SameTexts r.1 (if r.2 = true then cleanupMerge (n + 4) r.1 else r.1) := by
    split
    · exact cleanupMerge_same _ _
    · exact SameTexts.refl _
  generalize (if r.2 = true then cleanupMerge (n + 4) r.1 else r.1) = d2 at h2
  have h3 := lossless_same (4 * d2.length + 8) d2 1 (Nat.le_refl 1)
  generalize lossless (4 * d2.length + 8) d2 1 = d3 at h3
  have h4 := overlapPass_same (4 * d3.length + 8) d3 1 (Nat.le_refl 1)
  exact ((h1.trans h2).trans h3).trans h4

/-! ### line mode: lines as characters -/

theorem char_roundtrip (i : Nat) (h : i < 0xD800) : (Char.ofNat i).toNat = i := by
  have hv : i.isValidChar := Or.inl h
  simp [Char.ofNat, hv, Char.toNat, Char.ofNatAux]

theorem splitLinesKeep_flatten (t cur : Str) : (splitLinesKeep t cur).flatten = cur.reverse ++ t := by
  induction t generalizing cur with
  | nil =>
    simp only [splitLinesKeep]
    split
    · next h =>
      have : cur = [] := by simpa using h
      subst this; rfl
    · simp
  | cons c rest ih =>
    simp only [splitLinesKeep]
    split
    · simp [ih]
    · rw [ih]; simp

theorem splitLinesKeep_length (t cur : Str) : (splitLinesKeep t cur).length ≤ t.length + 1 := by
  induction t generalizing cur with
  | nil => simp only [splitLinesKeep]; split <;> simp
  | cons c rest ih =>
    simp only [splitLinesKeep]
    split
    · have := ih []; simp; omega
    · have := ih (c :: cur); simp; omega

/-- decoding one character through the line table -/
def decode (table : List Str) (c : Char) : Str := table.getD c.toNat []

def mungeStep (acc : Str × List Str) (l : Str) : Str × List Str :=
  match acc.2.idxOf? l with
  | some i => (acc.1 ++ [Char.ofNat i], acc.2)
  | none => (acc.1 ++ [Char.ofNat acc.2.length], acc.2 ++ [l])

theorem munge_eq (lines : List Str) (table : List Str) : munge lines table = lines.foldl mungeStep ([], table) := rfl

theorem getD_append_left (t ext : List Str) (i : Nat) (h : i < t.length) : (t ++ ext).getD i [] = t.getD i [] := by
  simp [List.getD, List.getElem?_append_left h]

theorem munge_fold_spec (lines : List Str) (acc : Str) (tbl : List Str) :
    ∃ cs ext, lines.foldl mungeStep (acc, tbl) = (acc ++ cs, tbl ++ ext) ∧ ext.length ≤ lines.length ∧
      (tbl.length + lines.length ≤ 0xD800 →
        (∀ c ∈ cs, c.toNat < (tbl ++ ext).length) ∧ cs.map (decode (tbl ++ ext)) = lines) := by
  induction lines generalizing acc tbl with
  | nil => exact ⟨[], [], by simp, by simp, fun _ => ⟨(by intro c hc; cases hc), rfl⟩⟩
  | cons l rest ih =>
    simp only [List.foldl_cons]
    cases hi : tbl.idxOf? l with
    | some i =>
      have hstep : mungeStep (acc, tbl) l = (acc ++ [Char.ofNat i], tbl) := by simp [mungeStep, hi]
      rw [hstep]
      obtain ⟨cs, ext, h1, h2, h3⟩ := ih (acc ++ [Char.ofNat i]) tbl
      refine ⟨Char.ofNat i :: cs, ext, by rw [h1]; simp, by simp; omega, ?_⟩
      intro hb
      obtain ⟨hlt, hget, _⟩ := List.idxOf?_eq_some_iff.mp hi
      have hr : (Char.ofNat i).toNat = i := char_roundtrip i (by simp at hb; omega)
      obtain ⟨h4, h5⟩ := h3 (by simp at hb; omega)
      constructor
      · intro c hc
        rcases List.mem_cons.mp hc with hc | hc
        · subst hc; rw [hr]; simp; omega
        · exact h4 c hc
      · simp only [List.map_cons, h5]
        congr 1
        unfold decode
        rw [hr, getD_append_left _ _ _ hlt]
        simp [List.getD, hlt, hget]
    | none =>
      have hstep : mungeStep (acc, tbl) l = (acc ++ [Char.ofNat tbl.length], tbl ++ [l]) := by simp [mungeStep, hi]
      rw [hstep]
      obtain ⟨cs, ext, h1, h2, h3⟩ := ih (acc ++ [Char.ofNat tbl.length]) (tbl ++ [l])
      refine ⟨Char.ofNat tbl.length :: cs, l :: ext, by rw [h1]; simp, by simp; omega, ?_⟩
      intro hb
      have hr : (Char.ofNat tbl.length).toNat = tbl.length := char_roundtrip _ (by simp at hb; omega)
      obtain ⟨h4, h5⟩ := h3 (by simp at hb ⊢; omega)
      have happ : tbl ++ l :: ext = tbl ++ [l] ++ ext := by simp
      constructor
      · intro c hc
        rcases List.mem_cons.mp hc with hc | hc
        · subst hc; rw [hr]; simp
        · rw [happ]; exact h4 c hc
      · rw [happ]
        simp only [List.map_cons, h5]
        congr 1
        unfold decode
        rw [hr, getD_append_left _ _ _ (by simp)]
        simp [List.getD]

theorem charsToLines_texts (table : List Str) (d : Diff) :
    text1 (charsToLines table d) = (text1 d).flatMap (decode table) ∧
    text2 (charsToLines table d) = (text2 d).flatMap (decode table) := by
  induction d with
  | nil => exact ⟨rfl, rfl⟩
  | cons p d ih =>
    obtain ⟨op, t⟩ := p
    have hc : charsToLines table ((op, t) :: d) = (op, t.flatMap (decode table)) :: charsToLines table d := rfl
    rw [hc, text1_cons', text2_cons', text1_cons', text2_cons', ih.1, ih.2]
    cases op <;> simp [c1, c2, List.flatMap_append]

theorem flatMap_decode (table : List Str) (cs : Str) : cs.flatMap (decode table) = (cs.map (decode table)).flatten := by
  simp [List.flatMap_def]

theorem decode_ext (tbl ext : List Str) (cs : Str) (h : ∀ c ∈ cs, c.toNat < tbl.length) :
    cs.map (decode (tbl ++ ext)) = cs.map (decode tbl) := by
  apply List.map_congr_left
  intro c hc
  unfold decode
  exact getD_append_left _ _ _ (h c hc)

/-- encoding both texts of line mode and decoding again gives the texts back -/
theorem munge_roundtrip (t1 t2 : Str) (hb : t1.length + t2.length + 3 ≤ 0xD800) :
    let r1 := munge (splitLinesKeep t1 []) [[]]
    let r2 := munge (splitLinesKeep t2 []) r1.2
    r1.1.flatMap (decode r2.2) = t1 ∧ r2.1.flatMap (decode r2.2) = t2 := by
  intro r1 r2
  have l1 := splitLinesKeep_length t1 []
  have l2 := splitLinesKeep_length t2 []
  obtain ⟨cs1, ext1, e1, n1, s1⟩ := munge_fold_spec (splitLinesKeep t1 []) [] [[]]
  have hr1 : r1 = (cs1, [[]] ++ ext1) := by show munge _ _ = _; rw [munge_eq, e1]; simp
  obtain ⟨g1, d1⟩ := s1 (by simp; omega)
  obtain ⟨cs2, ext2, e2, n2, s2⟩ := munge_fold_spec (splitLinesKeep t2 []) [] ([[]] ++ ext1)
  have hr2 : r2 = (cs2, [[]] ++ ext1 ++ ext2) := by
    show munge _ r1.2 = _; rw [hr1, munge_eq, e2]; simp
  obtain ⟨g2, d2⟩ := s2 (by simp; omega)
  rw [hr1, hr2]
  dsimp only
  constructor
  · rw [flatMap_decode, decode_ext _ _ _ g1, d1, splitLinesKeep_flatten]; rfl
  · rw [flatMap_decode, d2, splitLinesKeep_flatten]; rfl

/-! ### the re-diff loop of line mode and the recursion of `diff_main` -/

theorem optEq_texts (t : Str) :
    text1 (if t.isEmpty then [] else [(DOp.eq, t)]) = t ∧ text2 (if t.isEmpty then [] else [(DOp.eq, t)]) = t := by
  cases t <;> simp [text1, text2]

/-- the guard of line mode: with line mode on, the texts are short enough for the line table to be encoded as characters -/
def Small (N : Nat) (cl : Bool) (t1 t2 : Str) : Prop := cl = true → t1.length + t2.length ≤ N

theorem recon_two (t1 t2 : Str) : Recon [(DOp.del, t1), (DOp.ins, t2)] t1 t2 := by
  simp [Recon, text1, text2]

theorem diffMain_step (bis : Bisect) (N f : Nat)
    (hC : ∀ t1 t2 cl, Small N cl t1 t2 → Recon (diffCompute bis f t1 t2 cl) t1 t2) :
    ∀ t1 t2 cl, Small N cl t1 t2 → Recon (diffMain bis (f + 1) t1 t2 cl) t1 t2 := by
  intro t1 t2 cl hs
  unfold diffMain
  split
  · next heq =>
    subst heq
    have := optEq_texts t1
    exact ⟨this.1, this.2⟩
  · dsimp only
    refine SameTexts.recon (cleanupMerge_same _ _) ?_
    have hp := commonPrefix_take t1 t2
    generalize commonPrefix t1 t2 = cp at hp
    have hsf := commonSuffix_takeRight (t1.drop cp) (t2.drop cp)
    generalize commonSuffix (t1.drop cp) (t2.drop cp) = cs at hsf
    have hmid := hC (dropRight cs (t1.drop cp)) (dropRight cs (t2.drop cp)) cl (by
      intro hcl
      have := hs hcl
      simp only [dropRight, List.length_take, List.length_drop]
      omega)
    have e1 := optEq_texts (t1.take cp)
    have e2 := optEq_texts (takeRight cs (t1.drop cp))
    unfold Recon
    simp only [text1_append, text2_append, e1.1, e1.2, e2.1, e2.2, hmid.1, hmid.2]
    constructor
    · rw [List.append_assoc, dropRight_takeRight, List.take_append_drop]
    · rw [hsf, List.append_assoc, dropRight_takeRight, hp, List.take_append_drop]

theorem find_split (long short : Str) (i : Nat) (h : find long short = some i) :
    long.take i ++ short ++ long.drop (i + short.length) = long := by
  have hs := find_spec long short i h
  have e : long.drop (i + short.length) = (long.drop i).drop short.length := by rw [List.drop_drop]
  rw [e]
  conv => lhs; lhs; rhs; rw [← hs.2]
  rw [List.append_assoc, List.take_append_drop, List.take_append_drop]

theorem recon_append {x y : Diff} {a b c d : Str} (h1 : Recon x a b) (h2 : Recon y c d) :
    Recon (x ++ y) (a ++ c) (b ++ d) := by
  unfold Recon at *
  rw [text1_append, text2_append, h1.1, h1.2, h2.1, h2.2]
  exact ⟨rfl, rfl⟩

theorem diffCompute_step (bis : Bisect) (N f : Nat)
    (hM : ∀ t1 t2 cl, Small N cl t1 t2 → Recon (diffMain bis f t1 t2 cl) t1 t2)
    (hL : ∀ t1 t2, t1.length + t2.length ≤ N → Recon (diffLineMode bis f t1 t2) t1 t2) :
    ∀ t1 t2 cl, Small N cl t1 t2 → Recon (diffCompute bis (f + 1) t1 t2 cl) t1 t2 := by
  intro t1 t2 cl hs
  unfold diffCompute
  split
  · next h1 =>
    have : t1 = [] := by simpa using h1
    subst this
    simp [Recon, text1, text2]
  · split
    · next h1 h2 =>
      have : t2 = [] := by simpa using h2
      subst this
      simp [Recon, text1, text2]
    · generalize hls : (if t1.length > t2.length then (t1, t2) else (t2, t1)) = ls
      obtain ⟨long, short⟩ := ls
      dsimp only
      split
      · next i hf =>
        have hsp := find_split long short i hf
        split at hls
        · next hgt =>
          cases hls
          simp only [hgt, if_true]
          unfold Recon
          simp only [text1, text2, List.flatMap_cons, List.flatMap_nil, reduceCtorEq, if_false, if_true,
            List.append_nil, List.nil_append]
          exact ⟨by rw [← List.append_assoc]; exact hsp, trivial⟩
        · next hgt =>
          cases hls
          simp only [hgt, if_false]
          unfold Recon
          simp only [text1, text2, List.flatMap_cons, List.flatMap_nil, reduceCtorEq, if_false, if_true,
            List.append_nil, List.nil_append]
          exact ⟨trivial, by rw [← List.append_assoc]; exact hsp⟩
      · split
        · exact recon_two t1 t2
        · split
          · next hm hh =>
            have hsplit := halfMatch_split t1 t2 hm hh
            have l1 := congrArg List.length hsplit.1
            have l2 := congrArg List.length hsplit.2
            simp only [List.length_append] at l1 l2
            have r1 := hM hm.t1a hm.t2a cl (by intro hcl; have := hs hcl; omega)
            have r2 := hM hm.t1b hm.t2b cl (by intro hcl; have := hs hcl; omega)
            have rm : Recon [(DOp.eq, hm.mid)] hm.mid hm.mid := by simp [Recon, text1, text2]
            have := recon_append (recon_append r1 rm) r2
            rw [hsplit.1, hsplit.2] at this
            exact this
          · split
            · next hcond =>
              simp only [Bool.and_eq_true, decide_eq_true_eq] at hcond
              exact hL t1 t2 (hs hcond.1.1)
            · split
              · next x y hb =>
                have r1 := hM (t1.take x) (t2.take y) false (by intro h; cases h)
                have r2 := hM (t1.drop x) (t2.drop y) false (by intro h; cases h)
                have := recon_append r1 r2
                rw [List.take_append_drop, List.take_append_drop] at this
                exact this
              · exact recon_two t1 t2

theorem rediff_step (bis : Bisect) (f : Nat)
    (hM : ∀ t1 t2, Recon (diffMain bis f t1 t2 false) t1 t2)
    (hR : ∀ d run td ti, td = text1 run → ti = text2 run → SameTexts (run ++ d) (rediff bis f d run td ti)) :
    ∀ d run td ti, td = text1 run → ti = text2 run → SameTexts (run ++ d) (rediff bis (f + 1) d run td ti) := by
  intro d run td ti htd hti
  unfold rediff
  split
  · simp only [List.append_nil]; exact SameTexts.refl _
  · next t rest =>
    have := hR rest (run ++ [(DOp.ins, t)]) td (ti ++ t)
      (by rw [htd]; simp [text1_append, text1_cons', c1, text1_nil])
      (by rw [hti]; simp [text2_append, text2_cons', c2, text2_nil])
    simpa using this
  · next t rest =>
    have := hR rest (run ++ [(DOp.del, t)]) (td ++ t) ti
      (by rw [htd]; simp [text1_append, text1_cons', c1, text1_nil])
      (by rw [hti]; simp [text2_append, text2_cons', c2, text2_nil])
    simpa using this
  · next t rest =>
    dsimp only
    have hrest := hR rest [] [] [] rfl rfl
    simp only [List.nil_append] at hrest
    have hrun : SameTexts run
        (if (run.any fun p => p.1 == DOp.del) && (run.any fun p => p.1 == DOp.ins) then diffMain bis f td ti false else run) := by
      split
      · have := hM td ti
        exact ⟨by rw [this.1, htd], by rw [this.2, hti]⟩
      · exact SameTexts.refl _
    refine sameTexts_append hrun ?_
    have h1 : SameTexts [(DOp.eq, t)] [(DOp.eq, t)] := SameTexts.refl _
    have := sameTexts_append h1 hrest
    simpa using this

theorem rediff_ends (bis : Bisect) (fuel : Nat) (d' run : Diff) (td ti : Str) :
    ∃ X, rediff bis fuel (d' ++ [(DOp.eq, [])]) run td ti = X ++ [(DOp.eq, [])] := by
  induction fuel generalizing d' run td ti with
  | zero => exact ⟨run ++ d', by unfold rediff; simp⟩
  | succ f ih =>
    cases d' with
    | nil =>
      unfold rediff
      simp only [List.nil_append]
      have : rediff bis f [] [] [] [] = [] := by cases f <;> (unfold rediff; rfl)
      rw [this]
      exact ⟨_, rfl⟩
    | cons p d'' =>
      obtain ⟨op, t⟩ := p
      unfold rediff
      cases op
      · obtain ⟨X, hX⟩ := ih d'' (run ++ [(DOp.del, t)]) (td ++ t) ti
        exact ⟨X, by simpa using hX⟩
      · obtain ⟨X, hX⟩ := ih d'' (run ++ [(DOp.ins, t)]) td (ti ++ t)
        exact ⟨X, by simpa using hX⟩
      · obtain ⟨X, hX⟩ := ih d'' [] [] []
        simp only [List.cons_append]
        rw [hX]
        exact ⟨(if ((run.any fun p => p.1 == DOp.del) && run.any fun p => p.1 == DOp.ins) = true then
            diffMain bis f td ti false else run) ++ (DOp.eq, t) :: X, by simp⟩

theorem lineMode_step (bis : Bisect) (N f : Nat) (hN : N + 3 ≤ 0xD800)
    (hM : ∀ t1 t2, Recon (diffMain bis f t1 t2 false) t1 t2)
    (hR : ∀ d run td ti, td = text1 run → ti = text2 run → SameTexts (run ++ d) (rediff bis f d run td ti)) :
    ∀ t1 t2, t1.length + t2.length ≤ N → Recon (diffLineMode bis (f + 1) t1 t2) t1 t2 := by
  intro t1 t2 hb
  unfold diffLineMode
  have hrt := munge_roundtrip t1 t2 (by omega)
  dsimp only at hrt ⊢
  generalize munge (splitLinesKeep t1 []) [[]] = r1 at hrt ⊢
  generalize munge (splitLinesKeep t2 []) r1.2 = r2 at hrt ⊢
  have hdm := hM r1.1 r2.1
  have hct := charsToLines_texts r2.2 (diffMain bis f r1.1 r2.1 false)
  rw [hdm.1, hdm.2, hrt.1, hrt.2] at hct
  have hsem := cleanupSemantic_same (charsToLines r2.2 (diffMain bis f r1.1 r2.1 false))
  generalize cleanupSemantic (charsToLines r2.2 (diffMain bis f r1.1 r2.1 false)) = d1 at hsem
  have hre := hR (d1 ++ [(DOp.eq, [])]) [] [] [] rfl rfl
  obtain ⟨X, hX⟩ := rediff_ends bis f d1 [] [] []
  rw [hX] at hre ⊢
  simp only [List.dropLast_concat, List.nil_append] at hre ⊢
  have h0 : SameTexts (X ++ [(DOp.eq, [])]) X := by
    unfold SameTexts
    simp [text1_append, text2_append, text1_cons', text2_cons', c1, c2, text1_nil, text2_nil]
  have h1 : SameTexts d1 (d1 ++ [(DOp.eq, [])]) := by
    unfold SameTexts
    simp [text1_append, text2_append, text1_cons', text2_cons', c1, c2, text1_nil, text2_nil]
  have hall := ((hsem.trans h1).trans hre).trans h0
  exact ⟨hall.1.trans hct.1, hall.2.trans hct.2⟩

/-- All four mutually recursive functions of `diff_main`, for every fuel, every bisect oracle. -/
theorem diff_all (bis : Bisect) (N : Nat) (hN : N + 3 ≤ 0xD800) (fuel : Nat) :
    (∀ t1 t2 cl, Small N cl t1 t2 → Recon (diffMain bis fuel t1 t2 cl) t1 t2) ∧
    (∀ t1 t2 cl, Small N cl t1 t2 → Recon (diffCompute bis fuel t1 t2 cl) t1 t2) ∧
    (∀ t1 t2, t1.length + t2.length ≤ N → Recon (diffLineMode bis fuel t1 t2) t1 t2) ∧
    (∀ d run td ti, td = text1 run → ti = text2 run → SameTexts (run ++ d) (rediff bis fuel d run td ti)) := by
  induction fuel with
  | zero =>
    refine ⟨?_, ?_, ?_, ?_⟩
    · intro t1 t2 cl _; unfold diffMain; exact recon_two t1 t2
    · intro t1 t2 cl _; unfold diffCompute; exact recon_two t1 t2
    · intro t1 t2 _; unfold diffLineMode; exact recon_two t1 t2
    · intro d run td ti _ _; unfold rediff; exact SameTexts.refl _
  | succ f ih =>
    obtain ⟨hM, hC, hL, hR⟩ := ih
    have hMf : ∀ t1 t2, Recon (diffMain bis f t1 t2 false) t1 t2 :=
      fun t1 t2 => hM t1 t2 false (by intro h; cases h)
    exact ⟨diffMain_step bis N f hC, diffCompute_step bis N f hM hL, lineMode_step bis N f hN hMf hR,
      rediff_step bis f hMf hR⟩

end XmlDiffModel.Dmp
