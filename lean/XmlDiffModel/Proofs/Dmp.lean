/-
Reconstruction lemmas for the text-diff engine model: every pass keeps
`text1` (equal + delete) and `text2` (equal + insert).
-/
import XmlDiffModel.Model.Dmp

namespace XmlDiffModel.Dmp

/-- both reconstructions of a segment list -/
def Recon (d : Diff) (a b : Str) : Prop := text1 d = a ∧ text2 d = b

/-- two segment lists with the same reconstructions -/
def SameTexts (d d' : Diff) : Prop := text1 d' = text1 d ∧ text2 d' = text2 d

theorem text1_append (x y : Diff) : text1 (x ++ y) = text1 x ++ text1 y := by simp [text1]
theorem text2_append (x y : Diff) : text2 (x ++ y) = text2 x ++ text2 y := by simp [text2]
theorem text1_nil : text1 [] = [] := rfl
theorem text2_nil : text2 [] = [] := rfl
theorem text1_cons (p : DOp × Str) (d : Diff) :
    text1 (p :: d) = (if p.1 = .ins then [] else p.2) ++ text1 d := by simp [text1]
theorem text2_cons (p : DOp × Str) (d : Diff) :
    text2 (p :: d) = (if p.1 = .del then [] else p.2) ++ text2 d := by simp [text2]

theorem SameTexts.refl (d : Diff) : SameTexts d d := ⟨rfl, rfl⟩
theorem SameTexts.trans {a b c : Diff} (h1 : SameTexts a b) (h2 : SameTexts b c) : SameTexts a c :=
  ⟨h2.1.trans h1.1, h2.2.trans h1.2⟩

theorem SameTexts.recon {d d' : Diff} {a b : Str} (h : SameTexts d d') (hr : Recon d a b) : Recon d' a b :=
  ⟨h.1.trans hr.1, h.2.trans hr.2⟩

theorem sameTexts_append {x x' y y' : Diff} (h1 : SameTexts x x') (h2 : SameTexts y y') :
    SameTexts (x ++ y) (x' ++ y') := by
  unfold SameTexts at *
  simp only [text1_append, text2_append, h1.1, h1.2, h2.1, h2.2, and_self]

/-! ### slicing -/

theorem take_drop (s : Str) (n : Nat) : s.take n ++ s.drop n = s := List.take_append_drop n s

theorem dropRight_takeRight (s : Str) (n : Nat) : dropRight n s ++ takeRight n s = s := by
  unfold dropRight takeRight
  exact List.take_append_drop _ s

theorem commonPrefix_take (a b : Str) : a.take (commonPrefix a b) = b.take (commonPrefix a b) := by
  induction a generalizing b with
  | nil => simp [commonPrefix]
  | cons x xs ih =>
    cases b with
    | nil => simp [commonPrefix]
    | cons y ys =>
      simp only [commonPrefix]
      split
      · next h =>
        subst h
        have e : 1 + commonPrefix xs ys = commonPrefix xs ys + 1 := Nat.add_comm _ _
        rw [e]
        simp [ih ys]
      · simp

theorem commonPrefix_le_left (a b : Str) : commonPrefix a b ≤ a.length := by
  induction a generalizing b with
  | nil => simp [commonPrefix]
  | cons x xs ih =>
    cases b with
    | nil => simp [commonPrefix]
    | cons y ys =>
      simp only [commonPrefix]
      split
      · have := ih ys; simp; omega
      · simp

theorem commonPrefix_comm (a b : Str) : commonPrefix a b = commonPrefix b a := by
  induction a generalizing b with
  | nil => cases b <;> simp [commonPrefix]
  | cons x xs ih =>
    cases b with
    | nil => simp [commonPrefix]
    | cons y ys =>
      simp only [commonPrefix]
      by_cases h : x = y
      · subst h; simp [ih ys]
      · have : ¬ y = x := fun e => h e.symm
        simp [h, this]

/-- the common suffix really is a suffix of both -/
theorem commonSuffix_takeRight (a b : Str) : takeRight (commonSuffix a b) a = takeRight (commonSuffix a b) b := by
  unfold commonSuffix takeRight
  have h := commonPrefix_take a.reverse b.reverse
  have e1 : ∀ (s : Str) (n : Nat), s.drop (s.length - n) = (s.reverse.take n).reverse := by
    intro s n
    rw [List.reverse_take]
    simp
  rw [e1 a, e1 b, h]

theorem findAux_le (needle : Str) (hay : Str) (i j : Nat) (h : findAux needle hay i = some j) :
    i ≤ j ∧ j ≤ i + hay.length := by
  induction hay generalizing i with
  | nil =>
    simp only [findAux] at h
    split at h
    · cases h; simp
    · cases h
  | cons c rest ih =>
    simp only [findAux] at h
    split at h
    · cases h; simp
    · have := ih (i + 1) h
      simp only [List.length_cons]
      omega

theorem findAux_lt (needle : Str) (hn : needle ≠ []) (hay : Str) (i j : Nat)
    (h : findAux needle hay i = some j) : j < i + hay.length := by
  induction hay generalizing i with
  | nil =>
    simp only [findAux] at h
    split at h
    · next he => simp at he; exact absurd he hn
    · cases h
  | cons c rest ih =>
    simp only [findAux] at h
    split at h
    · cases h; simp
    · have := ih (i + 1) h
      simp only [List.length_cons]
      omega

theorem find_lt (hay needle : Str) (hn : needle ≠ []) (start j : Nat)
    (h : find hay needle start = some j) : j < hay.length := by
  unfold find at h
  have := findAux_lt needle hn (hay.drop start) start j h
  simp only [List.length_drop] at this
  have h2 := findAux_le needle (hay.drop start) start j h
  by_cases hs : start ≤ hay.length
  · omega
  · have : hay.drop start = [] := List.drop_of_length_le (by omega)
    rw [this] at h
    simp only [findAux] at h
    split at h
    · next he => simp at he; exact absurd he hn
    · cases h

theorem find_le (hay needle : Str) (start j : Nat) (hs : start ≤ hay.length)
    (h : find hay needle start = some j) : j ≤ hay.length := by
  unfold find at h
  have := findAux_le needle (hay.drop start) start j h
  simp only [List.length_drop] at this
  omega

theorem commonSuffix_le_left (a b : Str) : commonSuffix a b ≤ a.length := by
  unfold commonSuffix
  have := commonPrefix_le_left a.reverse b.reverse
  simpa using this

theorem commonSuffix_comm (a b : Str) : commonSuffix a b = commonSuffix b a := by
  unfold commonSuffix; exact commonPrefix_comm _ _

/-- the part of a string between two cut points -/
theorem slice_split (s : Str) (i n : Nat) (h : n ≤ i) (hi : i ≤ s.length) :
    s.take (i - n) ++ takeRight n (s.take i) = s.take i := by
  unfold takeRight
  have hl : (s.take i).length = i := by simp [List.length_take]; omega
  rw [hl]
  have : s.take (i - n) = (s.take i).take (i - n) := by
    rw [List.take_take]; congr 1; omega
  rw [this]
  exact List.take_append_drop _ _

theorem takeRight_take_eq (s : Str) (j n : Nat) (h : n ≤ j) (hj : j ≤ s.length) :
    takeRight n (s.take j) = (s.drop (j - n)).take n := by
  unfold takeRight
  have hl : (s.take j).length = j := by simp [List.length_take]; omega
  rw [hl, List.drop_take]
  congr 1
  omega

/-- One candidate of `halfMatchI`: cutting both strings around the common part found at `(i, j)`. -/
theorem halfCandidate_split (long short : Str) (i j : Nat) (hi : i ≤ long.length) (hj : j ≤ short.length) :
    let pl := commonPrefix (long.drop i) (short.drop j)
    let sl := commonSuffix (long.take i) (short.take j)
    let mid := (short.drop (j - sl)).take sl ++ (short.drop j).take pl
    long.take (i - sl) ++ mid ++ long.drop (i + pl) = long ∧
      short.take (j - sl) ++ mid ++ short.drop (j + pl) = short := by
  intro pl sl mid
  have hsl_i : sl ≤ i := by
    have := commonSuffix_le_left (long.take i) (short.take j)
    simp only [List.length_take] at this
    show commonSuffix (long.take i) (short.take j) ≤ i
    omega
  have hsl_j : sl ≤ j := by
    have := commonSuffix_le_left (short.take j) (long.take i)
    rw [commonSuffix_comm] at this
    simp only [List.length_take] at this
    show commonSuffix (long.take i) (short.take j) ≤ j
    omega
  have hsuf : takeRight sl (long.take i) = takeRight sl (short.take j) :=
    commonSuffix_takeRight (long.take i) (short.take j)
  have hpre : (long.drop i).take pl = (short.drop j).take pl := commonPrefix_take (long.drop i) (short.drop j)
  have m1 : (short.drop (j - sl)).take sl = takeRight sl (short.take j) := (takeRight_take_eq short j sl hsl_j hj).symm
  constructor
  · -- long
    have e1 := slice_split long i sl hsl_i hi
    have e2 : long.drop (i + pl) = (long.drop i).drop pl := by rw [List.drop_drop]
    show long.take (i - sl) ++ ((short.drop (j - sl)).take sl ++ (short.drop j).take pl) ++ long.drop (i + pl) = long
    rw [m1, ← hsuf, ← hpre, e2]
    calc long.take (i - sl) ++ (takeRight sl (long.take i) ++ (long.drop i).take pl) ++ (long.drop i).drop pl
        = (long.take (i - sl) ++ takeRight sl (long.take i)) ++ ((long.drop i).take pl ++ (long.drop i).drop pl) := by
          simp [List.append_assoc]
      _ = long.take i ++ long.drop i := by rw [e1, List.take_append_drop]
      _ = long := List.take_append_drop _ _
  · have e1 := slice_split short j sl hsl_j hj
    have e2 : short.drop (j + pl) = (short.drop j).drop pl := by rw [List.drop_drop]
    show short.take (j - sl) ++ ((short.drop (j - sl)).take sl ++ (short.drop j).take pl) ++ short.drop (j + pl) = short
    rw [m1, e2]
    calc short.take (j - sl) ++ (takeRight sl (short.take j) ++ (short.drop j).take pl) ++ (short.drop j).drop pl
        = (short.take (j - sl) ++ takeRight sl (short.take j)) ++ ((short.drop j).take pl ++ (short.drop j).drop pl) := by
          simp [List.append_assoc]
      _ = short.take j ++ short.drop j := by rw [e1, List.take_append_drop]
      _ = short := List.take_append_drop _ _

/-- What `halfMatchI` holds in `best`: nothing yet, or a proper split of both strings. -/
def GoodBest (long short : Str) (b : Str × Str × Str × Str × Str) : Prop :=
  b = ([], [], [], [], []) ∨ (b.1 ++ b.2.2.2.2 ++ b.2.1 = long ∧ b.2.2.1 ++ b.2.2.2.2 ++ b.2.2.2.1 = short)

theorem halfLoop_good (long short : Str) (i : Nat) (hi : i ≤ long.length)
    (hseed : (long.drop i).take (long.length / 4) ≠ []) (fuel : Nat) (j : Option Nat)
    (hj : ∀ x, j = some x → x ≤ short.length) (best : Str × Str × Str × Str × Str)
    (hb : GoodBest long short best) :
    GoodBest long short (halfMatchI.loop long short i ((long.drop i).take (long.length / 4)) fuel j best) := by
  induction fuel generalizing j best with
  | zero => simpa [halfMatchI.loop] using hb
  | succ f ih =>
    cases j with
    | none => simpa [halfMatchI.loop] using hb
    | some jj =>
      simp only [halfMatchI.loop]
      apply ih
      · intro x hx
        exact Nat.le_of_lt (find_lt short _ hseed (jj + 1) x hx)
      · split
        · right
          exact halfCandidate_split long short i jj hi (hj jj rfl)
        · exact hb

/-- `halfMatchI` splits both strings around the same middle part. -/
theorem halfMatchI_split (long short : Str) (i : Nat) (h4 : 4 ≤ long.length) (hi : i < long.length)
    (la lb sa sb mid : Str)
    (h : halfMatchI long short i = some (la, lb, sa, sb, mid)) :
    la ++ mid ++ lb = long ∧ sa ++ mid ++ sb = short := by
  unfold halfMatchI at h
  have hseed : (long.drop i).take (long.length / 4) ≠ [] := by
    intro he
    have := congrArg List.length he
    simp only [List.length_take, List.length_drop, List.length_nil] at this
    omega
  have hg := halfLoop_good long short i (Nat.le_of_lt hi) hseed (short.length + 2)
    (find short ((long.drop i).take (long.length / 4)))
    (fun x hx => Nat.le_of_lt (find_lt short _ hseed 0 x hx)) ([], [], [], [], []) (Or.inl rfl)
  dsimp only at h
  generalize halfMatchI.loop long short i ((long.drop i).take (long.length / 4)) (short.length + 2)
    (find short ((long.drop i).take (long.length / 4))) ([], [], [], [], []) = best at h hg
  split at h
  · next hlen =>
    cases h
    rcases hg with hg | hg
    · injection hg with _ hg; injection hg with _ hg; injection hg with _ hg; injection hg with _ hg
      subst hg
      simp only [List.length_nil] at hlen
      omega
    · exact hg
  · cases h

theorem halfMatch_split (t1 t2 : Str) (hm : Half) (h : halfMatch t1 t2 = some hm) :
    hm.t1a ++ hm.mid ++ hm.t1b = t1 ∧ hm.t2a ++ hm.mid ++ hm.t2b = t2 := by
  unfold halfMatch at h
  generalize hls : (if t1.length > t2.length then (t1, t2) else (t2, t1)) = ls at h
  obtain ⟨long, short⟩ := ls
  dsimp only at h
  split at h
  · cases h
  · next hc =>
    have h4 : 4 ≤ long.length := by
      simp only [Bool.or_eq_true, decide_eq_true_eq, not_or, Nat.not_lt] at hc
      exact hc.1
    have key : ∀ la lb sa sb mid,
        (halfMatchI long short ((long.length + 3) / 4) = some (la, lb, sa, sb, mid) ∨
         halfMatchI long short ((long.length + 1) / 2) = some (la, lb, sa, sb, mid)) →
        la ++ mid ++ lb = long ∧ sa ++ mid ++ sb = short := by
      intro la lb sa sb mid hh
      rcases hh with hh | hh
      · exact halfMatchI_split long short _ h4 (by omega) la lb sa sb mid hh
      · exact halfMatchI_split long short _ h4 (by omega) la lb sa sb mid hh
    generalize h1 : halfMatchI long short ((long.length + 3) / 4) = hm1 at h key
    generalize h2 : halfMatchI long short ((long.length + 1) / 2) = hm2 at h key
    have sel : ∀ q, (match hm1, hm2 with
        | none, none => none
        | some a, none => some a
        | none, some b => some b
        | some a, some b => if a.2.2.2.2.length > b.2.2.2.2.length then some a else some b) = some q →
        hm1 = some q ∨ hm2 = some q := by
      intro q hq
      cases hm1 <;> cases hm2 <;> simp only at hq
      · cases hq
      · right; exact hq
      · left; exact hq
      · split at hq
        · left; exact hq
        · right; exact hq
    split at h
    · cases h
    · next la lb sa sb mid heq =>
      have := key la lb sa sb mid (sel _ heq)
      split at h
      · next hgt =>
        cases h
        simp only [hgt, if_true] at hls
        cases hls
        exact this
      · next hgt =>
        cases h
        simp only [hgt, if_false] at hls
        cases hls
        exact ⟨this.2, this.1⟩

/-! ### list surgery in zipper form -/

def c1 (p : DOp × Str) : Str := if p.1 = .ins then [] else p.2
def c2 (p : DOp × Str) : Str := if p.1 = .del then [] else p.2

theorem text1_cons' (p : DOp × Str) (d : Diff) : text1 (p :: d) = c1 p ++ text1 d := text1_cons p d
theorem text2_cons' (p : DOp × Str) (d : Diff) : text2 (p :: d) = c2 p ++ text2 d := text2_cons p d

theorem getElem?_mid {α} (A : List α) (x : α) (B : List α) : (A ++ x :: B)[A.length]? = some x := by
  simp

theorem set_mid {α} (A : List α) (x y : α) (B : List α) : (A ++ x :: B).set A.length y = A ++ y :: B := by
  induction A with
  | nil => rfl
  | cons a A ih => simp [ih]

theorem eraseIdx_mid {α} (A : List α) (x : α) (B : List α) : (A ++ x :: B).eraseIdx A.length = A ++ B := by
  induction A with
  | nil => rfl
  | cons a A ih => simp [ih]

/-- split a list at a valid index -/
theorem split_at {α} (d : List α) (i : Nat) (h : i < d.length) :
    ∃ A x B, d = A ++ x :: B ∧ A.length = i := by
  refine ⟨d.take i, d[i], d.drop (i + 1), ?_, ?_⟩
  · rw [← List.drop_eq_getElem_cons h, List.take_append_drop]
  · simp [List.length_take]; omega

/-- split a list around three consecutive entries -/
theorem split3 {α} (d : List α) (p : Nat) (hp : 1 ≤ p) (h : p + 1 < d.length) :
    ∃ A x y z B, d = A ++ x :: y :: z :: B ∧ A.length = p - 1 := by
  obtain ⟨A, x, B, hd, hA⟩ := split_at d (p - 1) (by omega)
  have hB : 2 ≤ B.length := by
    have := congrArg List.length hd
    simp at this
    omega
  match B, hB with
  | y :: z :: B', _ => exact ⟨A, x, y, z, B', hd, hA⟩

theorem getOp_at (A : Diff) (x : DOp × Str) (B : Diff) (i : Nat) (h : A.length = i) :
    getOp (A ++ x :: B) i = some x.1 := by
  subst h; simp [getOp]

theorem getTx_at (A : Diff) (x : DOp × Str) (B : Diff) (i : Nat) (h : A.length = i) :
    getTx (A ++ x :: B) i = x.2 := by
  subst h; simp [getTx]

theorem set_mid1 {α} (A : List α) (x y y' : α) (B : List α) :
    (A ++ x :: y :: B).set (A.length + 1) y' = A ++ x :: y' :: B := by
  induction A with
  | nil => rfl
  | cons a A ih => simp [ih]

theorem set_mid2 {α} (A : List α) (x y z z' : α) (B : List α) :
    (A ++ x :: y :: z :: B).set (A.length + 2) z' = A ++ x :: y :: z' :: B := by
  induction A with
  | nil => rfl
  | cons a A ih => simp [ih]

theorem eraseIdx_mid1 {α} (A : List α) (x y : α) (B : List α) :
    (A ++ x :: y :: B).eraseIdx (A.length + 1) = A ++ x :: B := by
  induction A with
  | nil => rfl
  | cons a A ih => simp [ih]

theorem eraseIdx_mid2 {α} (A : List α) (x y z : α) (B : List α) :
    (A ++ x :: y :: z :: B).eraseIdx (A.length + 2) = A ++ x :: y :: B := by
  induction A with
  | nil => rfl
  | cons a A ih => simp [ih]

/-! ### cleanupSemanticLossless -/

theorem slideRight_inv (fuel : Nat) (e1 edit e2 : Str) (bs : Nat) (best : Str × Str × Str) (T U : Str)
    (h1 : e1 ++ edit ++ e2 = T) (h2 : e1 ++ e2 = U)
    (hb : best.1 ++ best.2.1 ++ best.2.2 = T ∧ best.1 ++ best.2.2 = U) :
    (slideRight fuel e1 edit e2 bs best).1 ++ (slideRight fuel e1 edit e2 bs best).2.1 ++
        (slideRight fuel e1 edit e2 bs best).2.2 = T ∧
      (slideRight fuel e1 edit e2 bs best).1 ++ (slideRight fuel e1 edit e2 bs best).2.2 = U := by
  induction fuel generalizing e1 edit e2 bs best with
  | zero => simpa [slideRight] using hb
  | succ f ih =>
    unfold slideRight
    cases edit with
    | nil => exact hb
    | cons c erest =>
      cases e2 with
      | nil => exact hb
      | cons c2 e2rest =>
        dsimp only
        split
        · next hc =>
          subst hc
          have g1 : (e1 ++ [c]) ++ (erest ++ [c]) ++ e2rest = T := by rw [← h1]; simp
          have g2 : (e1 ++ [c]) ++ e2rest = U := by rw [← h2]; simp
          split
          · exact ih _ _ _ _ _ g1 g2 ⟨g1, g2⟩
          · exact ih _ _ _ _ _ g1 g2 hb
        · exact hb

theorem slideRight_first (fuel : Nat) (e1 edit e2 : Str) (bs : Nat) (best : Str × Str × Str) :
    slideRight fuel e1 edit e2 bs best = best ∨ (slideRight fuel e1 edit e2 bs best).1 ≠ [] := by
  induction fuel generalizing e1 edit e2 bs best with
  | zero => left; simp [slideRight]
  | succ f ih =>
    unfold slideRight
    cases edit with
    | nil => left; rfl
    | cons c erest =>
      cases e2 with
      | nil => left; rfl
      | cons c2 e2rest =>
        dsimp only
        split
        · split
          · rcases ih (e1 ++ [c]) (erest ++ [c2]) e2rest
                (semanticScore (e1 ++ [c]) (erest ++ [c2]) + semanticScore (erest ++ [c2]) e2rest)
                (e1 ++ [c], erest ++ [c2], e2rest) with h | h
            · right; rw [h]; simp
            · right; exact h
          · exact ih _ _ _ _ _
        · left; rfl

theorem takeRight_length_le (n : Nat) (s : Str) (h : n ≤ s.length) : (takeRight n s).length = n := by
  unfold takeRight; simp [List.length_drop]; omega

theorem c1_eq (t : Str) : c1 (DOp.eq, t) = t := rfl
theorem c2_eq (t : Str) : c2 (DOp.eq, t) = t := rfl

/-- texts of a list with three consecutive entries `eq, op, eq` -/
theorem texts_three (A B : Diff) (op : DOp) (a e b a' e' b' : Str)
    (hT : a' ++ e' ++ b' = a ++ e ++ b) (hU : a' ++ b' = a ++ b) :
    SameTexts (A ++ (DOp.eq, a) :: (op, e) :: (DOp.eq, b) :: B)
      (A ++ (DOp.eq, a') :: (op, e') :: (DOp.eq, b') :: B) := by
  unfold SameTexts
  simp only [text1_append, text2_append, text1_cons', text2_cons', c1_eq, c2_eq]
  cases op
  · -- del
    simp only [c1, c2]
    simp only [reduceCtorEq, if_false, if_true, List.nil_append]
    constructor
    · have h := congrArg (· ++ text1 B) hT; simp only [List.append_assoc] at h ⊢; rw [h]
    · have h := congrArg (· ++ text2 B) hU; simp only [List.append_assoc] at h ⊢; rw [h]
  · simp only [c1, c2]
    simp only [reduceCtorEq, if_false, if_true, List.nil_append]
    constructor
    · have h := congrArg (· ++ text1 B) hU; simp only [List.append_assoc] at h ⊢; rw [h]
    · have h := congrArg (· ++ text2 B) hT; simp only [List.append_assoc] at h ⊢; rw [h]
  · simp only [c1, c2]
    simp only [reduceCtorEq, if_false, List.nil_append]
    constructor
    · have h := congrArg (· ++ text1 B) hT; simp only [List.append_assoc] at h ⊢; rw [h]
    · have h := congrArg (· ++ text2 B) hT; simp only [List.append_assoc] at h ⊢; rw [h]

end XmlDiffModel.Dmp
