/-
C10, attributes, part 1: the `diff:*-attr` annotations decode to the left node's attributes.

`rejAttrs` (Model/Project.lean) reads the four annotations `diff:add-attr`, `diff:update-attr`, `diff:rename-attr`,
`diff:delete-attr` of an element of the output and undoes them.  This file: the string layer (what
`_extend_diff_attr` appends is what `split(';')` / `partition(':')` give back), the invariant `KI las0 W` ("the working
attributes `W` with their annotations stand for the original attributes `las0`"), the decoding theorem
(`KI las0 W` implies that `rejAttrs W` is `las0` with the values of deleted attributes unknown), and one lemma per
attribute handler of the XML formatter: the handler keeps `KI` when the attribute names it touches have not been
touched on this node before.
-/
import XmlDiffModel.Proofs.Acc3
import XmlDiffModel.Proofs.AttrsFinal

namespace XmlDiffModel
namespace Rej
open Acc

/-! ### `split` and `partition` -/

theorem splitOnC_ne_nil (c : Char) (s : Str) : splitOnC c s ≠ [] := by
  induction s with
  | nil => simp [splitOnC]
  | cons x rest ih =>
    simp only [splitOnC]
    split
    · simp
    · cases h : splitOnC c rest with
      | nil => exact absurd h ih
      | cons a b => simp

theorem splitOnC_append (c : Char) (a b : Str) : splitOnC c (a ++ c :: b) = splitOnC c a ++ splitOnC c b := by
  induction a with
  | nil => simp [splitOnC]
  | cons x rest ih =>
    simp only [List.cons_append, splitOnC]
    by_cases hx : x = c
    · simp only [hx, if_true, ih, List.cons_append]
    · simp only [hx, if_false, ih]
      cases h : splitOnC c rest with
      | nil => exact absurd h (splitOnC_ne_nil c rest)
      | cons p q => simp

theorem splitOnC_free (c : Char) (s : Str) (h : c ∉ s) : splitOnC c s = [s] := by
  induction s with
  | nil => rfl
  | cons x rest ih =>
    have hx : x ≠ c := fun e => h (by simp [e])
    have hr : c ∉ rest := fun e => h (by simp [e])
    simp only [splitOnC, hx, if_false, ih hr]

theorem cutAt_append (c : Char) (a b : Str) (h : c ∉ a) : cutAt c (a ++ c :: b) = (a, b) := by
  induction a with
  | nil => simp [cutAt]
  | cons x rest ih =>
    have hx : x ≠ c := fun e => h (by simp [e])
    have hr : c ∉ rest := fun e => h (by simp [e])
    simp only [List.cons_append, cutAt, hx, if_false, ih hr]

/-! ### the annotations under `_extend_diff_attr` and under changes of ordinary attributes -/

theorem dname_inj (a b : String) (h : dname a = dname b) : a.toList = b.toList := by
  unfold dname at h
  exact List.append_cancel_left h

theorem annName_ne (a b : String) (h : a.toList ≠ b.toList) : dname (a ++ "-attr") ≠ dname (b ++ "-attr") := by
  intro e
  have := dname_inj _ _ e
  simp only [String.toList_append] at this
  exact h (List.append_cancel_right this)

theorem annot_extend_self (as : Attrs) (action : String) (v : Str) (hv : ';' ∉ v) (hne : v ≠ []) :
    annot (extendDiffAttr as action v) action = annot as action ++ [v] := by
  unfold annot extendDiffAttr
  simp only
  cases h : attrGet as (dname (action ++ "-attr")) with
  | none =>
    simp only [attrGet_attrSet, if_true]
    have : v.isEmpty = false := by cases v <;> simp_all
    simp [this, splitOnC_free ';' v hv]
  | some old =>
    simp only
    by_cases ho : old.isEmpty = true
    · simp only [ho, if_true, attrGet_attrSet]
      have : v.isEmpty = false := by cases v <;> simp_all
      simp [this, splitOnC_free ';' v hv]
    · simp only [ho, Bool.false_eq_true, if_false, attrGet_attrSet, if_true]
      have : (old ++ [';'] ++ v).isEmpty = false := by cases old <;> simp_all
      rw [this]
      simp only [Bool.false_eq_true, if_false]
      have e : old ++ [';'] ++ v = old ++ ';' :: v := by simp
      rw [e, splitOnC_append, splitOnC_free ';' v hv]

theorem attrGet_extend_ne (as : Attrs) (action : String) (v x : Str) (hne : x ≠ dname (action ++ "-attr")) :
    attrGet (extendDiffAttr as action v) x = attrGet as x := by
  unfold extendDiffAttr
  simp only
  cases attrGet as (dname (action ++ "-attr")) with
  | none => simp only [attrGet_attrSet, hne, if_false]
  | some old =>
    simp only
    by_cases ho : old.isEmpty = true
    · simp only [ho, if_true, attrGet_attrSet, hne, if_false]
    · simp only [ho, Bool.false_eq_true, if_false, attrGet_attrSet, hne]

theorem annot_extend_other (as : Attrs) (a b : String) (v : Str) (h : a.toList ≠ b.toList) :
    annot (extendDiffAttr as a v) b = annot as b := by
  have hne := annName_ne b a (fun e => h e.symm)
  unfold annot
  rw [attrGet_extend_ne as a v _ hne]

theorem attrGet_extend_plain (as : Attrs) (action : String) (v k : Str) (hk : isDiffKey k = false) :
    attrGet (extendDiffAttr as action v) k = attrGet as k :=
  attrGet_extend_ne as action v k (fun e => by rw [e, isDiffKey_dname] at hk; cases hk)

theorem annot_attrSet_plain (as : Attrs) (k v : Str) (action : String) (hk : isDiffKey k = false) :
    annot (attrSet as k v) action = annot as action := by
  have hne : dname (action ++ "-attr") ≠ k := fun e => by rw [← e, isDiffKey_dname] at hk; cases hk
  unfold annot
  simp only [attrGet_attrSet, hne, if_false]

theorem annot_attrDel_plain (as : Attrs) (k : Str) (action : String) (hk : isDiffKey k = false) :
    annot (attrDel as k) action = annot as action := by
  have hne : dname (action ++ "-attr") ≠ k := fun e => by rw [← e, isDiffKey_dname] at hk; cases hk
  unfold annot
  simp only [attrGet_attrDel, hne, if_false]

/-! ### the four folds of `rejAttrs`, key by key -/

theorem fold_add (adds : List Str) (m : Attrs) (k : Str) :
    attrGet (adds.foldl (fun m name => attrDel m name) m) k = if k ∈ adds then none else attrGet m k := by
  induction adds generalizing m with
  | nil => simp
  | cons a rest ih =>
    simp only [List.foldl_cons, ih, attrGet_attrDel, List.mem_cons]
    by_cases h1 : k ∈ rest
    · simp [h1]
    · by_cases h2 : k = a <;> simp [h1, h2]

theorem fold_del (dels : List Str) (m : Attrs) (k : Str) :
    attrGet (dels.foldl (fun m name => attrSet m name UNKNOWN) m) k =
      if k ∈ dels then some UNKNOWN else attrGet m k := by
  induction dels generalizing m with
  | nil => simp
  | cons a rest ih =>
    simp only [List.foldl_cons, ih, attrGet_attrSet, List.mem_cons]
    by_cases h1 : k ∈ rest
    · simp [h1]
    · by_cases h2 : k = a <;> simp [h1, h2]

theorem fold_upd (upd : List (Str × Str)) (m : Attrs) (k : Str) (hn : (upd.map (·.1)).count k ≤ 1) :
    (∀ o, (k, o) ∈ upd → attrGet (upd.foldl (fun m it => attrSet m it.1 it.2) m) k = some o) ∧
      (k ∉ upd.map (·.1) → attrGet (upd.foldl (fun m it => attrSet m it.1 it.2) m) k = attrGet m k) := by
  induction upd generalizing m with
  | nil => exact ⟨fun o h => (by cases h), fun _ => rfl⟩
  | cons it rest ih =>
    obtain ⟨n, o0⟩ := it
    simp only [List.map_cons, List.count_cons] at hn
    have hn' : (rest.map (·.1)).count k ≤ 1 := by omega
    obtain ⟨i1, i2⟩ := ih (attrSet m n o0) hn'
    simp only [List.foldl_cons]
    refine ⟨fun o h => ?_, fun h => ?_⟩
    · simp only [List.mem_cons, Prod.mk.injEq] at h
      rcases h with ⟨rfl, rfl⟩ | h
      · have hz : (rest.map (·.1)).count k = 0 := by
          simp only [beq_self_eq_true, if_true] at hn; omega
        rw [i2 (List.count_eq_zero.1 hz), attrGet_attrSet]; simp
      · exact i1 o h
    · simp only [List.map_cons, List.mem_cons, not_or] at h
      rw [i2 h.2, attrGet_attrSet, if_neg h.1]

/-- the rename step of the decoding -/
def renStep (m : Attrs) (it : Str × Str) : Attrs :=
  match attrGet m it.2 with
  | some v => attrSet (attrDel m it.2) it.1 v
  | none => m

theorem fold_ren (ren : List (Str × Str)) (m : Attrs) (k : Str)
    (hn : ∀ x, (ren.map (·.1) ++ ren.map (·.2)).count x ≤ 1)
    (hp : ∀ it ∈ ren, (attrGet m it.2).isSome = true) :
    (∀ n, (k, n) ∈ ren → attrGet (ren.foldl renStep m) k = attrGet m n) ∧
      (k ∈ ren.map (·.2) → attrGet (ren.foldl renStep m) k = none) ∧
      (k ∉ ren.map (·.1) → k ∉ ren.map (·.2) → attrGet (ren.foldl renStep m) k = attrGet m k) := by
  induction ren generalizing m with
  | nil => exact ⟨fun n h => (by cases h), fun h => (by cases h), fun _ _ => rfl⟩
  | cons it rest ih =>
    obtain ⟨o, n⟩ := it
    -- facts about the head item
    have hcnt : ∀ x, (if o = x then 1 else 0) + (rest.map (·.1)).count x + ((if n = x then 1 else 0) +
        (rest.map (·.2)).count x) ≤ 1 := by
      intro x
      have := hn x
      simp only [List.map_cons, List.count_append, List.count_cons, beq_iff_eq] at this
      omega
    have hon : o ≠ n := fun e => by have := hcnt o; simp [e] at this; omega
    have ho1 : o ∉ rest.map (·.1) := fun hm => by
      have := hcnt o; have h2 := List.count_pos_iff.2 hm; simp at this; omega
    have ho2 : o ∉ rest.map (·.2) := fun hm => by
      have := hcnt o; have h2 := List.count_pos_iff.2 hm; simp at this; omega
    have hn1 : n ∉ rest.map (·.1) := fun hm => by
      have := hcnt n; have h2 := List.count_pos_iff.2 hm; simp at this; omega
    have hn2 : n ∉ rest.map (·.2) := fun hm => by
      have := hcnt n; have h2 := List.count_pos_iff.2 hm; simp at this; omega
    obtain ⟨v, hv⟩ : ∃ v, attrGet m n = some v := by
      have := hp (o, n) (by simp)
      cases h : attrGet m n with
      | none => simp [h] at this
      | some v => exact ⟨v, rfl⟩
    have hstep : renStep m (o, n) = attrSet (attrDel m n) o v := by simp only [renStep, hv]
    have hget : ∀ x, attrGet (renStep m (o, n)) x = if x = o then some v else if x = n then none else attrGet m x := by
      intro x; rw [hstep, attrGet_attrSet, attrGet_attrDel]
    have hrest : ∀ x, (rest.map (·.1) ++ rest.map (·.2)).count x ≤ 1 := by
      intro x
      have := hcnt x
      simp only [List.count_append]
      omega
    have hp' : ∀ it ∈ rest, (attrGet (renStep m (o, n)) it.2).isSome = true := by
      intro it hit
      have h2 : it.2 ∈ rest.map (·.2) := List.mem_map.2 ⟨it, hit, rfl⟩
      have e1 : it.2 ≠ o := fun e => ho2 (by rw [← e]; exact h2)
      have e2 : it.2 ≠ n := fun e => hn2 (by rw [← e]; exact h2)
      rw [hget, if_neg e1, if_neg e2]
      exact hp it (by simp [hit])
    obtain ⟨i1, i2, i3⟩ := ih (renStep m (o, n)) hrest hp'
    simp only [List.foldl_cons]
    refine ⟨fun n' h => ?_, fun h => ?_, fun h1 h2 => ?_⟩
    · simp only [List.mem_cons, Prod.mk.injEq] at h
      rcases h with ⟨rfl, rfl⟩ | h
      · rw [i3 ho1 ho2, hget, if_pos rfl, hv]
      · have hk1 : k ∈ rest.map (·.1) := List.mem_map.2 ⟨(k, n'), h, rfl⟩
        have hn'2 : n' ∈ rest.map (·.2) := List.mem_map.2 ⟨(k, n'), h, rfl⟩
        rw [i1 n' h, hget, if_neg (fun e => ho2 (by rw [← e]; exact hn'2)), if_neg (fun e => hn2 (by rw [← e]; exact hn'2))]
    · simp only [List.map_cons, List.mem_cons] at h
      rcases h with rfl | h
      · rw [i3 hn1 hn2, hget, if_neg (fun e => hon e.symm), if_pos rfl]
      · exact i2 h
    · simp only [List.map_cons, List.mem_cons, not_or] at h1 h2
      rw [i3 h1.2 h2.2, hget, if_neg h1.1, if_neg h2.1]

/-! ### the invariant -/

/-- the names an annotation of `W` mentions -/
def touched (W : Attrs) : List Str :=
  annot W "add" ++ ((annot W "update").map (cutAt ':')).map (·.1) ++ ((annot W "rename").map (cutAt ':')).map (·.1) ++
    ((annot W "rename").map (cutAt ':')).map (·.2) ++ annot W "delete"

/-- `W` (the attributes of a node of the working tree, annotations included) stands for the original attributes
`las0`: each name is mentioned by at most one annotation, and what the annotation says about it is true. -/
structure KI (las0 W : Attrs) : Prop where
  cnt : ∀ k, (touched W).count k ≤ 1
  plain : ∀ k ∈ touched W, isDiffKey k = false
  add : ∀ k ∈ annot W "add", (attrGet W k).isSome = true ∧ attrGet las0 k = none
  upd : ∀ k o, (k, o) ∈ (annot W "update").map (cutAt ':') → (attrGet W k).isSome = true ∧ attrGet las0 k = some o
  ren : ∀ o n, (o, n) ∈ (annot W "rename").map (cutAt ':') →
    ∃ v, attrGet W n = some v ∧ attrGet W o = none ∧ attrGet las0 o = some v ∧ attrGet las0 n = none
  del : ∀ k ∈ annot W "delete", attrGet W k = none ∧ (attrGet las0 k).isSome = true
  rest : ∀ k, isDiffKey k = false → k ∉ touched W → attrGet W k = attrGet las0 k

theorem attrGet_none_of_plain (as : Attrs) (h : ∀ kv ∈ as, isDiffKey kv.1 = false) (k : Str) (hk : isDiffKey k = true) :
    attrGet as k = none := by
  rw [attrGet_none_iff]
  intro hm
  obtain ⟨kv, hkv, rfl⟩ := List.mem_map.1 hm
  rw [h kv hkv] at hk; cases hk

/-- attributes without `diff:` names stand for themselves -/
theorem ki_init (las0 : Attrs) (h : ∀ kv ∈ las0, isDiffKey kv.1 = false) : KI las0 las0 := by
  have hnone : ∀ a : String, annot las0 a = [] := by
    intro a
    unfold annot
    rw [attrGet_none_of_plain las0 h _ (isDiffKey_dname _)]
  have ht : touched las0 = [] := by simp [touched, hnone]
  refine ⟨by simp [ht], by simp [ht], by simp [hnone], by simp [hnone], by simp [hnone], by simp [hnone],
    fun _ _ _ => rfl⟩

/-- **decoding**: with every marked attribute change rejected the attributes are the original ones; the value of a
deleted attribute is not recorded. -/
theorem rejAttrs_of_ki (las0 W : Attrs) (K : KI las0 W) (k : Str) (hk : isDiffKey k = false) :
    attrGet (rejAttrs W) k = attrGet las0 k ∨
      (attrGet (rejAttrs W) k = some UNKNOWN ∧ (attrGet las0 k).isSome = true ∧ k ∈ annot W "delete") := by
  -- names
  generalize hA : annot W "add" = A at *
  generalize hU : (annot W "update").map (cutAt ':') = U at *
  generalize hR : (annot W "rename").map (cutAt ':') = R at *
  generalize hD : annot W "delete" = D at *
  have hc : ∀ x, A.count x + (U.map (·.1)).count x + (R.map (·.1)).count x + (R.map (·.2)).count x + D.count x ≤ 1 := by
    intro x
    have := K.cnt x
    simp only [touched, hA, hU, hR, hD, List.count_append] at this
    omega
  have hmem : ∀ (l : List Str) x, x ∈ l ↔ 0 < l.count x := fun l x => List.count_pos_iff.symm
  -- the folds
  have e : rejAttrs W = stripDiff (D.foldl (fun m name => attrSet m name UNKNOWN)
      (R.foldl renStep (U.foldl (fun m it => attrSet m it.1 it.2) (A.foldl (fun m name => attrDel m name) W)))) := by
    unfold rejAttrs
    simp only [hA, hD, ← hU, ← hR, List.foldl_map]
    rfl
  rw [e, attrGet_strip _ k hk, fold_del]
  generalize hm1 : A.foldl (fun m name => attrDel m name) W = m1
  generalize hm2 : U.foldl (fun m it => attrSet m it.1 it.2) m1 = m2
  have g1 : ∀ x, attrGet m1 x = if x ∈ A then none else attrGet W x := fun x => by rw [← hm1]; exact fold_add A W x
  have g2 : ∀ x, (∀ o, (x, o) ∈ U → attrGet m2 x = some o) ∧ (x ∉ U.map (·.1) → attrGet m2 x = attrGet m1 x) :=
    fun x => by rw [← hm2]; exact fold_upd U m1 x (by have := hc x; omega)
  have hRc : ∀ x, (R.map (·.1) ++ R.map (·.2)).count x ≤ 1 := by
    intro x; have := hc x; simp only [List.count_append]; omega
  have hRp : ∀ it ∈ R, (attrGet m2 it.2).isSome = true := by
    intro it hit
    obtain ⟨v, h1, _, _, _⟩ := K.ren it.1 it.2 (by rw [hR]; exact hit)
    have hin : it.2 ∈ R.map (·.2) := List.mem_map.2 ⟨it, hit, rfl⟩
    have c := hc it.2
    have c2 := (hmem _ _).1 hin
    have hnU : it.2 ∉ U.map (·.1) := fun hm => by have := (hmem _ _).1 hm; omega
    have hnA : it.2 ∉ A := fun hm => by have := (hmem _ _).1 hm; omega
    rw [(g2 it.2).2 hnU, g1, if_neg hnA, h1]; rfl
  obtain ⟨r1, r2, r3⟩ := fold_ren R m2 k hRc hRp
  have c := hc k
  by_cases hkD : k ∈ D
  · right
    rw [if_pos hkD]
    exact ⟨rfl, (K.del k (by rw [hD]; exact hkD)).2, hkD⟩
  · left
    rw [if_neg hkD]
    by_cases hkR1 : k ∈ R.map (·.1)
    · obtain ⟨it, hit, rfl⟩ := List.mem_map.1 hkR1
      obtain ⟨v, h1, _, h3, _⟩ := K.ren it.1 it.2 (by rw [hR]; exact hit)
      have hin : it.2 ∈ R.map (·.2) := List.mem_map.2 ⟨it, hit, rfl⟩
      have c' := hc it.2
      have c2 := (hmem _ _).1 hin
      have hnU : it.2 ∉ U.map (·.1) := fun hm => by have := (hmem _ _).1 hm; omega
      have hnA : it.2 ∉ A := fun hm => by have := (hmem _ _).1 hm; omega
      rw [r1 it.2 hit, (g2 it.2).2 hnU, g1, if_neg hnA, h1, h3]
    · by_cases hkR2 : k ∈ R.map (·.2)
      · obtain ⟨it, hit, rfl⟩ := List.mem_map.1 hkR2
        obtain ⟨v, _, _, _, h4⟩ := K.ren it.1 it.2 (by rw [hR]; exact hit)
        rw [r2 hkR2, h4]
      · rw [r3 hkR1 hkR2]
        by_cases hkU : k ∈ U.map (·.1)
        · obtain ⟨it, hit, rfl⟩ := List.mem_map.1 hkU
          rw [(g2 it.1).1 it.2 hit, (K.upd it.1 it.2 (by rw [hU]; exact hit)).2]
        · rw [(g2 k).2 hkU, g1]
          by_cases hkA : k ∈ A
          · rw [if_pos hkA, (K.add k (by rw [hA]; exact hkA)).2]
          · rw [if_neg hkA]
            apply K.rest k hk
            simp only [touched, hA, hU, hR, hD, List.mem_append, not_or]
            exact ⟨⟨⟨⟨hkA, hkU⟩, hkR1⟩, hkR2⟩, hkD⟩

/-! ### one more annotation item -/

theorem touched_add (W : Attrs) (k : Str) (h : k ∈ annot W "add") : k ∈ touched W := by
  simp only [touched, List.mem_append]; exact Or.inl (Or.inl (Or.inl (Or.inl h)))
theorem touched_upd (W : Attrs) (it : Str × Str) (h : it ∈ (annot W "update").map (cutAt ':')) : it.1 ∈ touched W := by
  simp only [touched, List.mem_append]
  exact Or.inl (Or.inl (Or.inl (Or.inr (List.mem_map.2 ⟨it, h, rfl⟩))))
theorem touched_ren1 (W : Attrs) (it : Str × Str) (h : it ∈ (annot W "rename").map (cutAt ':')) : it.1 ∈ touched W := by
  simp only [touched, List.mem_append]
  exact Or.inl (Or.inl (Or.inr (List.mem_map.2 ⟨it, h, rfl⟩)))
theorem touched_ren2 (W : Attrs) (it : Str × Str) (h : it ∈ (annot W "rename").map (cutAt ':')) : it.2 ∈ touched W := by
  simp only [touched, List.mem_append]
  exact Or.inl (Or.inr (List.mem_map.2 ⟨it, h, rfl⟩))
theorem touched_del (W : Attrs) (k : Str) (h : k ∈ annot W "delete") : k ∈ touched W := by
  simp only [touched, List.mem_append]; exact Or.inr h


/-- the names of new annotation items -/
def newNames (a : List Str) (u r : List (Str × Str)) (d : List Str) : List Str :=
  a ++ u.map (·.1) ++ r.map (·.1) ++ r.map (·.2) ++ d

/-- `W'` has the annotations of `W` and some more items about names `W` does not mention, agrees with `W` on all
other names, and what the new items say is true -/
theorem ki_step (las0 W W' : Attrs) (K : KI las0 W) (a : List Str) (u r : List (Str × Str)) (d : List Str)
    (hA : annot W' "add" = annot W "add" ++ a)
    (hU : (annot W' "update").map (cutAt ':') = (annot W "update").map (cutAt ':') ++ u)
    (hR : (annot W' "rename").map (cutAt ':') = (annot W "rename").map (cutAt ':') ++ r)
    (hD : annot W' "delete" = annot W "delete" ++ d)
    (hcnt : ∀ k, (newNames a u r d).count k ≤ 1)
    (hfresh : ∀ k ∈ newNames a u r d, k ∉ touched W ∧ isDiffKey k = false)
    (hget : ∀ k, isDiffKey k = false → k ∉ newNames a u r d → attrGet W' k = attrGet W k)
    (fa : ∀ k ∈ a, (attrGet W' k).isSome = true ∧ attrGet las0 k = none)
    (fu : ∀ k o, (k, o) ∈ u → (attrGet W' k).isSome = true ∧ attrGet las0 k = some o)
    (fr : ∀ o n, (o, n) ∈ r →
      ∃ v, attrGet W' n = some v ∧ attrGet W' o = none ∧ attrGet las0 o = some v ∧ attrGet las0 n = none)
    (fd : ∀ k ∈ d, attrGet W' k = none ∧ (attrGet las0 k).isSome = true) : KI las0 W' := by
  have hcount : ∀ k, (touched W').count k = (touched W).count k + (newNames a u r d).count k := by
    intro k
    simp only [touched, newNames, hA, hU, hR, hD, List.count_append, List.map_append]
    omega
  have hmemT : ∀ k, k ∈ touched W' ↔ k ∈ touched W ∨ k ∈ newNames a u r d := by
    intro k
    rw [← List.count_pos_iff, ← List.count_pos_iff, ← List.count_pos_iff, hcount]
    omega
  -- a name `W` mentions is untouched by the step
  have hold : ∀ k, k ∈ touched W → attrGet W' k = attrGet W k := by
    intro k hk
    exact hget k (K.plain k hk) (fun hn => (hfresh k hn).1 hk)
  have inA : ∀ k ∈ annot W "add", k ∈ touched W := touched_add W
  have inU : ∀ it ∈ (annot W "update").map (cutAt ':'), it.1 ∈ touched W := touched_upd W
  have inR1 : ∀ it ∈ (annot W "rename").map (cutAt ':'), it.1 ∈ touched W := touched_ren1 W
  have inR2 : ∀ it ∈ (annot W "rename").map (cutAt ':'), it.2 ∈ touched W := touched_ren2 W
  have inD : ∀ k ∈ annot W "delete", k ∈ touched W := touched_del W
  refine ⟨?_, ?_, ?_, ?_, ?_, ?_, ?_⟩
  · intro k
    rw [hcount]
    have h1 := K.cnt k
    have h2 := hcnt k
    by_cases hk : k ∈ newNames a u r d
    · have := List.count_eq_zero.2 (hfresh k hk).1
      omega
    · have := List.count_eq_zero.2 hk
      omega
  · intro k hk
    rcases (hmemT k).1 hk with h | h
    · exact K.plain k h
    · exact (hfresh k h).2
  · intro k hk
    rw [hA, List.mem_append] at hk
    rcases hk with h | h
    · rw [hold k (inA k h)]; exact K.add k h
    · exact fa k h
  · intro k o hk
    rw [hU, List.mem_append] at hk
    rcases hk with h | h
    · rw [hold k (inU (k, o) h)]; exact K.upd k o h
    · exact fu k o h
  · intro o n hk
    rw [hR, List.mem_append] at hk
    rcases hk with h | h
    · rw [hold o (inR1 (o, n) h), hold n (inR2 (o, n) h)]; exact K.ren o n h
    · exact fr o n h
  · intro k hk
    rw [hD, List.mem_append] at hk
    rcases hk with h | h
    · rw [hold k (inD k h)]; exact K.del k h
    · exact fd k h
  · intro k hk hnt
    rw [hmemT, not_or] at hnt
    rw [hget k hk hnt.2]
    exact K.rest k hk hnt.1

/-! ### the four attribute handlers -/

theorem semi_ne_colon : (';' : Char) ≠ ':' := by decide

/-- `_handle_UpdateAttrib` on a name not touched before -/
theorem ki_upd (las0 W : Attrs) (K : KI las0 W) (name value oldv : Str) (hp : isDiffKey name = false)
    (hc1 : ':' ∉ name) (hc2 : ';' ∉ name) (hc3 : ';' ∉ oldv) (hold : attrGet W name = some oldv)
    (hfresh : name ∉ touched W) :
    KI las0 (extendDiffAttr (attrSet W name value) "update" (name ++ [':'] ++ oldv)) := by
  have hitem : name ++ [':'] ++ oldv = name ++ ':' :: oldv := by simp
  have hsemi : ';' ∉ name ++ [':'] ++ oldv := by
    simp only [List.mem_append, List.mem_cons, List.mem_nil_iff, or_false, not_or]
    exact ⟨⟨hc2, semi_ne_colon⟩, hc3⟩
  have hne : name ++ [':'] ++ oldv ≠ [] := by simp
  apply ki_step las0 W _ K [] [(name, oldv)] [] []
  · rw [annot_extend_other _ "update" "add" _ (by decide), annot_attrSet_plain _ _ _ _ hp]; simp
  · rw [annot_extend_self _ _ _ hsemi hne, annot_attrSet_plain _ _ _ _ hp, List.map_append, hitem]
    simp [cutAt_append ':' name oldv hc1]
  · rw [annot_extend_other _ "update" "rename" _ (by decide), annot_attrSet_plain _ _ _ _ hp]; simp
  · rw [annot_extend_other _ "update" "delete" _ (by decide), annot_attrSet_plain _ _ _ _ hp]; simp
  · intro k; simp only [newNames, List.map_cons, List.map_nil, List.nil_append, List.append_nil, List.count_cons,
      List.count_nil]; split <;> omega
  · intro k hk
    simp only [newNames, List.map_cons, List.map_nil, List.nil_append, List.append_nil, List.mem_cons,
      List.mem_nil_iff, or_false] at hk
    subst hk; exact ⟨hfresh, hp⟩
  · intro k hk hn
    simp only [newNames, List.map_cons, List.map_nil, List.nil_append, List.append_nil, List.mem_cons,
      List.mem_nil_iff, or_false] at hn
    rw [attrGet_extend_plain _ _ _ _ hk, attrGet_attrSet, if_neg hn]
  · intro k hk; cases hk
  · intro k o hk
    simp only [List.mem_cons, List.mem_nil_iff, or_false, Prod.mk.injEq] at hk
    obtain ⟨rfl, rfl⟩ := hk
    rw [attrGet_extend_plain _ _ _ _ hp, attrGet_attrSet, if_pos rfl]
    exact ⟨rfl, by rw [← K.rest k hp hfresh, hold]⟩
  · intro o n hk; cases hk
  · intro k hk; cases hk

/-- `_handle_InsertAttrib` of a name the node does not have and that was not touched before -/
theorem ki_add (las0 W : Attrs) (K : KI las0 W) (name value : Str) (hp : isDiffKey name = false)
    (hc2 : ';' ∉ name) (hne : name ≠ []) (habs : attrGet W name = none) (hfresh : name ∉ touched W) :
    KI las0 (extendDiffAttr (attrSet W name value) "add" name) := by
  apply ki_step las0 W _ K [name] [] [] []
  · rw [annot_extend_self _ _ _ hc2 hne, annot_attrSet_plain _ _ _ _ hp]
  · rw [annot_extend_other _ "add" "update" _ (by decide), annot_attrSet_plain _ _ _ _ hp]; simp
  · rw [annot_extend_other _ "add" "rename" _ (by decide), annot_attrSet_plain _ _ _ _ hp]; simp
  · rw [annot_extend_other _ "add" "delete" _ (by decide), annot_attrSet_plain _ _ _ _ hp]; simp
  · intro k; simp only [newNames, List.map_nil, List.append_nil, List.count_cons, List.count_nil]; split <;> omega
  · intro k hk
    simp only [newNames, List.map_nil, List.append_nil, List.mem_cons, List.mem_nil_iff, or_false] at hk
    subst hk; exact ⟨hfresh, hp⟩
  · intro k hk hn
    simp only [newNames, List.map_nil, List.append_nil, List.mem_cons, List.mem_nil_iff, or_false] at hn
    rw [attrGet_extend_plain _ _ _ _ hk, attrGet_attrSet, if_neg hn]
  · intro k hk
    simp only [List.mem_cons, List.mem_nil_iff, or_false] at hk
    subst hk
    rw [attrGet_extend_plain _ _ _ _ hp, attrGet_attrSet, if_pos rfl]
    exact ⟨rfl, by rw [← K.rest k hp hfresh, habs]⟩
  · intro k o hk; cases hk
  · intro o n hk; cases hk
  · intro k hk; cases hk

/-- `_handle_DeleteAttrib` of a name the node has and that was not touched before -/
theorem ki_del (las0 W : Attrs) (K : KI las0 W) (name : Str) (hp : isDiffKey name = false)
    (hc2 : ';' ∉ name) (hne : name ≠ []) (hhas : (attrGet W name).isSome = true) (hfresh : name ∉ touched W) :
    KI las0 (extendDiffAttr (attrDel W name) "delete" name) := by
  apply ki_step las0 W _ K [] [] [] [name]
  · rw [annot_extend_other _ "delete" "add" _ (by decide), annot_attrDel_plain _ _ _ hp]; simp
  · rw [annot_extend_other _ "delete" "update" _ (by decide), annot_attrDel_plain _ _ _ hp]; simp
  · rw [annot_extend_other _ "delete" "rename" _ (by decide), annot_attrDel_plain _ _ _ hp]; simp
  · rw [annot_extend_self _ _ _ hc2 hne, annot_attrDel_plain _ _ _ hp]
  · intro k; simp only [newNames, List.map_nil, List.append_nil, List.nil_append, List.count_cons, List.count_nil]
    split <;> omega
  · intro k hk
    simp only [newNames, List.map_nil, List.append_nil, List.nil_append, List.mem_cons, List.mem_nil_iff,
      or_false] at hk
    subst hk; exact ⟨hfresh, hp⟩
  · intro k hk hn
    simp only [newNames, List.map_nil, List.append_nil, List.nil_append, List.mem_cons, List.mem_nil_iff,
      or_false] at hn
    rw [attrGet_extend_plain _ _ _ _ hk, attrGet_attrDel, if_neg hn]
  · intro k hk; cases hk
  · intro k o hk; cases hk
  · intro o n hk; cases hk
  · intro k hk
    simp only [List.mem_cons, List.mem_nil_iff, or_false] at hk
    subst hk
    rw [attrGet_extend_plain _ _ _ _ hp, attrGet_attrDel, if_pos rfl]
    exact ⟨rfl, by rw [← K.rest k hp hfresh]; exact hhas⟩

/-- `_handle_RenameAttrib` from a name the node has to one it does not have, neither touched before -/
theorem ki_ren (las0 W : Attrs) (K : KI las0 W) (old new v : Str) (hpo : isDiffKey old = false)
    (hpn : isDiffKey new = false) (hco : ':' ∉ old) (hso : ';' ∉ old) (hsn : ';' ∉ new) (hon : old ≠ new)
    (hhas : attrGet W old = some v) (habs : attrGet W new = none) (hfo : old ∉ touched W) (hfn : new ∉ touched W) :
    KI las0 (extendDiffAttr (attrDel (attrSet W new v) old) "rename" (old ++ [':'] ++ new)) := by
  have hitem : old ++ [':'] ++ new = old ++ ':' :: new := by simp
  have hsemi : ';' ∉ old ++ [':'] ++ new := by
    simp only [List.mem_append, List.mem_cons, List.mem_nil_iff, or_false, not_or]
    exact ⟨⟨hso, semi_ne_colon⟩, hsn⟩
  have hne : old ++ [':'] ++ new ≠ [] := by simp
  have hg : ∀ k, isDiffKey k = false →
      attrGet (extendDiffAttr (attrDel (attrSet W new v) old) "rename" (old ++ [':'] ++ new)) k =
        if k = old then none else if k = new then some v else attrGet W k := by
    intro k hk
    rw [attrGet_extend_plain _ _ _ _ hk, attrGet_attrDel, attrGet_attrSet]
  apply ki_step las0 W _ K [] [] [(old, new)] []
  · rw [annot_extend_other _ "rename" "add" _ (by decide), annot_attrDel_plain _ _ _ hpo,
      annot_attrSet_plain _ _ _ _ hpn]; simp
  · rw [annot_extend_other _ "rename" "update" _ (by decide), annot_attrDel_plain _ _ _ hpo,
      annot_attrSet_plain _ _ _ _ hpn]; simp
  · rw [annot_extend_self _ _ _ hsemi hne, annot_attrDel_plain _ _ _ hpo, annot_attrSet_plain _ _ _ _ hpn,
      List.map_append, hitem]
    simp [cutAt_append ':' old new hco]
  · rw [annot_extend_other _ "rename" "delete" _ (by decide), annot_attrDel_plain _ _ _ hpo,
      annot_attrSet_plain _ _ _ _ hpn]; simp
  · intro k
    simp only [newNames, List.map_cons, List.map_nil, List.nil_append, List.append_nil, List.count_cons,
      List.count_nil, List.count_append, beq_iff_eq]
    by_cases h1 : old = k
    · have : ¬ new = k := fun e => hon (h1.trans e.symm)
      simp [h1, this]
    · by_cases h2 : new = k <;> simp [h1, h2]
  · intro k hk
    simp only [newNames, List.map_cons, List.map_nil, List.nil_append, List.append_nil, List.mem_append,
      List.mem_cons, List.mem_nil_iff, or_false] at hk
    rcases hk with rfl | rfl
    · exact ⟨hfo, hpo⟩
    · exact ⟨hfn, hpn⟩
  · intro k hk hn
    simp only [newNames, List.map_cons, List.map_nil, List.nil_append, List.append_nil, List.mem_append,
      List.mem_cons, List.mem_nil_iff, or_false, not_or] at hn
    rw [hg k hk, if_neg hn.1, if_neg hn.2]
  · intro k hk; cases hk
  · intro k o hk; cases hk
  · intro o n hk
    simp only [List.mem_cons, List.mem_nil_iff, or_false, Prod.mk.injEq] at hk
    obtain ⟨rfl, rfl⟩ := hk
    refine ⟨v, ?_, ?_, ?_, ?_⟩
    · rw [hg n hpn, if_neg (fun e => hon e.symm), if_pos rfl]
    · rw [hg o hpo, if_pos rfl]
    · rw [← K.rest o hpo hfo, hhas]
    · rw [← K.rest n hpn hfn, habs]
  · intro k hk; cases hk

/-- setting a `diff:` attribute that is not an annotation (`diff:delete`, `diff:insert`, `diff:rename`) changes nothing -/
theorem ki_mark (las0 W : Attrs) (K : KI las0 W) (d v : Str) (hd : isDiffKey d = true)
    (hna : ∀ a : String, a ∈ ["add", "update", "rename", "delete"] → d ≠ dname (a ++ "-attr")) :
    KI las0 (attrSet W d v) := by
  have han : ∀ a : String, a ∈ ["add", "update", "rename", "delete"] → annot (attrSet W d v) a = annot W a := by
    intro a ha
    unfold annot
    rw [attrGet_attrSet, if_neg (fun e => hna a ha e.symm)]
  have hg : ∀ k, isDiffKey k = false → attrGet (attrSet W d v) k = attrGet W k := by
    intro k hk
    rw [attrGet_attrSet, if_neg (fun e => by rw [e, hd] at hk; cases hk)]
  have ht : touched (attrSet W d v) = touched W := by
    simp only [touched, han "add" (by simp), han "update" (by simp), han "rename" (by simp), han "delete" (by simp)]
  refine ⟨by rw [ht]; exact K.cnt, by rw [ht]; exact K.plain, ?_, ?_, ?_, ?_, ?_⟩
  · intro k hk
    rw [han "add" (by simp)] at hk
    rw [hg k (K.plain k (touched_add W k hk))]
    exact K.add k hk
  · intro k o hk
    rw [han "update" (by simp)] at hk
    rw [hg k (K.plain k (touched_upd W (k, o) hk))]
    exact K.upd k o hk
  · intro o n hk
    rw [han "rename" (by simp)] at hk
    have h1 : o ∈ touched W := touched_ren1 W (o, n) hk
    have h2 : n ∈ touched W := touched_ren2 W (o, n) hk
    rw [hg o (K.plain o h1), hg n (K.plain n h2)]
    exact K.ren o n hk
  · intro k hk
    rw [han "delete" (by simp)] at hk
    rw [hg k (K.plain k (touched_del W k hk))]
    exact K.del k hk
  · intro k hk hnt
    rw [ht] at hnt
    rw [hg k hk]
    exact K.rest k hk hnt

end Rej
end XmlDiffModel
