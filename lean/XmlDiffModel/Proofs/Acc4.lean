/-
C09, tree level, part 4: text updates.  The accepted reading of a marked string (`accChars`: the insert wrapper
characters are dropped, everything between the delete wrapper characters is dropped) turns what `_make_diff_tags`
emits into the equal + insert text; with it the text handlers commute with the patcher through the accepted view.
-/
import XmlDiffModel.Proofs.Acc3
import XmlDiffModel.Proofs.FmtInv

namespace XmlDiffModel
namespace Acc
open Tree Undo TextMark

def insOpen : Char := phChar (phStart + 2)
def insClose : Char := phChar (phStart + 1)
def delOpen : Char := phChar (phStart + 4)
def delClose : Char := phChar (phStart + 3)

/-- accepted reading of a marked string; the flag says "inside a delete wrapper" -/
def accChars : Bool → Str → Str
  | _, [] => []
  | d, c :: cs =>
    if c = delOpen then accChars true cs
    else if c = delClose then accChars false cs
    else if c = insOpen ∨ c = insClose then accChars d cs
    else if d then accChars d cs else c :: accChars d cs

def accS (o : Option Str) : Option Str := nt (o.map (accChars false))

theorem accS_none : accS none = none := rfl

theorem low_ne_wrap (c : Char) (h : c.toNat ≤ phStart) : c ≠ delOpen ∧ c ≠ delClose ∧ c ≠ insOpen ∧ c ≠ insClose := by
  have h1 : delOpen.toNat = phStart + 4 := by decide
  have h2 : delClose.toNat = phStart + 3 := by decide
  have h3 : insOpen.toNat = phStart + 2 := by decide
  have h4 : insClose.toNat = phStart + 1 := by decide
  refine ⟨?_, ?_, ?_, ?_⟩ <;> intro e <;> subst e <;> omega

theorem accChars_low_append (d : Bool) (t rest : Str) (h : Low t) :
    accChars d (t ++ rest) = (if d then [] else t) ++ accChars d rest := by
  induction t with
  | nil => cases d <;> simp
  | cons c cs ih =>
    obtain ⟨n1, n2, n3, n4⟩ := low_ne_wrap c (h c (by simp))
    have ih' := ih (fun x hx => h x (by simp [hx]))
    simp only [List.cons_append, accChars, n1, n2, n3, n4, if_false, or_self]
    cases d
    · simp only [Bool.false_eq_true, if_false] at ih' ⊢
      rw [ih']; rfl
    · simp only [if_true] at ih' ⊢
      exact ih'

theorem accChars_low (t : Str) (h : Low t) : accChars false t = t := by
  have := accChars_low_append false t [] h
  simpa [accChars] using this

theorem emitted_cons (d : Seg) (rest : List Seg) :
    emitted (d :: rest) =
      if d.op = .eq then d.text ++ emitted rest
      else phChar (wrapPhs d.op).1 :: (d.text ++ phChar (wrapPhs d.op).2 :: emitted rest) := by
  unfold emitted
  simp only [altOf]
  split
  · simp
  · simp [flatAlt]

/-- the accepted reading of an emitted string is the equal + insert text -/
theorem accChars_emitted (segs : List Seg) (hn : NoRep segs) (hl : ∀ d ∈ segs, Low d.text) :
    accChars false (emitted segs) = accText segs := by
  induction segs with
  | nil => simp [emitted, altOf, flatAlt, accChars, accText]
  | cons d rest ih =>
    have ih' := ih (fun x hx => hn x (by simp [hx])) (fun x hx => hl x (by simp [hx]))
    have hd := hn d (by simp)
    have hlow := hl d (by simp)
    rw [emitted_cons]
    cases hop : d.op with
    | eq =>
      simp only [if_true, accText, hop]
      rw [accChars_low_append false d.text _ hlow, ih']
      simp
    | ins =>
      simp only [reduceCtorEq, if_false, accText, hop, wrapPhs]
      have e1 : phChar (phStart + 2) = insOpen := rfl
      have e2 : phChar (phStart + 1) = insClose := rfl
      have a1 : insOpen ≠ delOpen := by decide
      have a2 : insOpen ≠ delClose := by decide
      have b1 : insClose ≠ delOpen := by decide
      have b2 : insClose ≠ delClose := by decide
      rw [e1, e2]
      simp only [accChars, a1, a2, if_false, true_or, if_true]
      rw [accChars_low_append false d.text _ hlow]
      simp only [Bool.false_eq_true, if_false, accChars, b1, b2, or_true, if_true]
      rw [ih']
    | del =>
      simp only [reduceCtorEq, if_false, accText, hop, wrapPhs]
      have e1 : phChar (phStart + 4) = delOpen := rfl
      have e2 : phChar (phStart + 3) = delClose := rfl
      have b1 : delClose ≠ delOpen := by decide
      rw [e1, e2]
      simp only [accChars, if_true]
      rw [accChars_low_append true d.text _ hlow]
      simp only [if_true, List.nil_append, accChars, b1, if_false]
      rw [ih']
    | rep => exact absurd hop hd

theorem accText_nonEmpty' (segs : List Seg) : accText (nonEmpty segs) = accText segs := accText_nonEmpty segs

/-- a new text as the script carries it: no private-use characters, and never the empty string -/
def TextOK (t : Option Str) : Prop := Low (strOf t) ∧ t ≠ some []

theorem accS_of_textOK (t : Option Str) (h : TextOK t) : accS t = t := by
  cases t with
  | none => rfl
  | some x =>
    have hx : x ≠ [] := fun e => h.2 (by rw [e])
    simp only [accS, Option.map_some, accChars_low x h.1, nt, strOf, Option.getD_some, hx, if_false]

/-- what the text handlers store, read back -/
theorem accS_emitted (d : List Seg) (hn : NoRep d) (hl : ∀ x ∈ d, Low x.text) (t : Option Str) (ht : t ≠ some [])
    (hacc : accText d = strOf t) :
    accS (if (emitted (nonEmpty d)).isEmpty then none else some (emitted (nonEmpty d))) = t := by
  have hsub : ∀ x ∈ nonEmpty d, x ∈ d := fun x hx => (List.mem_filter.1 hx).1
  have key : accChars false (emitted (nonEmpty d)) = strOf t := by
    rw [accChars_emitted _ (fun x hx => hn x (hsub x hx)) (fun x hx => hl x (hsub x hx)), accText_nonEmpty, hacc]
  have hnt : nt (some (strOf t)) = t := by
    cases t with
    | none => simp [nt, strOf]
    | some x =>
      have hx : x ≠ [] := fun e => ht (by rw [e])
      simp [nt, strOf, hx]
  split
  · next he =>
    have : emitted (nonEmpty d) = [] := List.isEmpty_iff.1 he
    rw [this] at key
    simp only [accChars] at key
    cases t with
    | none => rfl
    | some x =>
      exfalso
      apply ht
      simp only [strOf, Option.getD_some] at key
      rw [← key]
  · simp only [accS, Option.map_some, key, hnt]

/-! ### the text handlers -/

structure FOK (s : FState) : Prop where
  tok : TOK s
  base : Base s.ph
  norep : s.useReplace = false

/-- an engine answer fit for the new text `t`: equal / insert / delete segments over texts without private-use
characters whose accepted text is `t` -/
def AnswerFor (d : List Seg) (t : Option Str) : Prop :=
  NoRep d ∧ (∀ x ∈ d, x.old = []) ∧ (∀ x ∈ d, Low x.text) ∧ accText d = strOf t

/-- what is assumed of the engine for one action, in the state the formatter is in -/
def OracleStep (qn : QName) (s : FState) : Action → Prop
  | .updateTextIn n t => ∀ node, xresolve qn s.tree n = .ok node → attrHas node.payload.attrs INSERT_NAME = false →
      ∃ d more, s.segs = d :: more ∧ AnswerFor d t
  | .updateTextAfter _ t => ∃ d more, s.segs = d :: more ∧ AnswerFor d t
  | _ => True

/-- new texts of the action -/
def TextsOK : Action → Prop
  | .updateTextIn _ t => TextOK t
  | .updateTextAfter _ t => TextOK t
  | _ => True

/-- the actions of the simulation: no moves, no comments -/
def Simulated : Action → Prop
  | .moveNode _ _ _ => False
  | .insertComment _ _ _ => False
  | _ => True

theorem step_sim_all (qn : QName) (s : FState) (h : FOK s) (a : Action) (hst : Simulated a)
    (hsu : SUAct qn (acc (cln accS) s.tree) a) (hpn : PlainNames a) (htx : TextsOK a) (hor : OracleStep qn s a)
    (p' : PState) (hp : applyUniq qn ⟨acc (cln accS) s.tree, s.next⟩ a = .ok p') :
    ∃ s', applyFmt qn s a = .ok s' ∧ acc (cln accS) s'.tree = p'.tree ∧ s'.next = p'.next ∧ FOK s' := by
  have hgtext : ∀ (t : Option Str) (p : Payload), attrHas ({ p with text := t } : Payload).attrs DELETE_NAME =
      attrHas p.attrs DELETE_NAME := fun _ _ => rfl
  have hgtail : ∀ (t : Option Str) (p : Payload), attrHas ({ p with tail := t } : Payload).attrs DELETE_NAME =
      attrHas p.attrs DELETE_NAME := fun _ _ => rfl
  cases a
  case updateTextIn n t =>
    obtain ⟨x, hx⟩ := hsu
    simp only [TextsOK] at htx
    simp only [applyUniq, applyWith, bind, Except.bind] at hp
    cases hh : uniqueHit qn (acc (cln accS) s.tree) n with
    | error e => rw [hh] at hp; cases hp
    | ok nd =>
      rw [hh] at hp
      simp only [Except.ok.injEq] at hp
      subst hp
      obtain ⟨m, h1, h2, h3, h4⟩ := hit_both qn accS s h.tok n nd x hx hh
      have hid : nd.id = m.id := by rw [← h2, acc_id]
      by_cases hins : attrHas m.payload.attrs INSERT_NAME = true
      · refine ⟨modifyNode s m.id (fun p => { p with text := t }), ?_, ?_, rfl,
          ⟨tok_modify s h.tok _ _ (hgtext t), h.base, h.norep⟩⟩
        · simp only [applyFmt, bind, Except.bind, pure, Except.pure, h1, hins, if_true]
        · simp only [modifyNode]
          rw [acc_modify (cln accS) _ (fun p => { p with text := t }) m.id (hgtext t) (fun p => by
            simp only [cln, accS_of_textOK t htx]) s.tree, hid]
      · have hins' : attrHas m.payload.attrs INSERT_NAME = false := by simpa using hins
        obtain ⟨d, more, hsg, hn, ho, hl, hacc⟩ := hor m h1 hins'
        obtain ⟨hm, hn', hl'⟩ := makeDiffTags_eq false s h.base h.norep d more hsg hn ho hl
        let X : Option Str := if (emitted (nonEmpty d)).isEmpty then none else some (emitted (nonEmpty d))
        refine ⟨modifyNode { s with segs := more } m.id (fun p => { p with text := X }), ?_, ?_, rfl,
          ⟨tok_modify { s with segs := more } ⟨h.tok.nodup, h.tok.fresh, h.tok.root⟩ m.id _ (hgtext X), h.base, h.norep⟩⟩
        · simp only [applyFmt, bind, Except.bind, pure, Except.pure, h1, hins, hm]
          rfl
        · simp only [modifyNode]
          rw [acc_modify (cln accS) _ (fun p => { p with text := t }) m.id (hgtext X) (fun p => by
            simp only [cln, X, accS_emitted d hn hl t htx.2 hacc]) s.tree, hid]
  case updateTextAfter n t =>
    obtain ⟨x, hx⟩ := hsu
    simp only [TextsOK] at htx
    simp only [applyUniq, applyWith, bind, Except.bind] at hp
    cases hh : uniqueHit qn (acc (cln accS) s.tree) n with
    | error e => rw [hh] at hp; cases hp
    | ok nd =>
      rw [hh] at hp
      simp only [Except.ok.injEq] at hp
      subst hp
      obtain ⟨m, h1, h2, h3, h4⟩ := hit_both qn accS s h.tok n nd x hx hh
      have hid : nd.id = m.id := by rw [← h2, acc_id]
      obtain ⟨d, more, hsg, hn, ho, hl, hacc⟩ := hor
      obtain ⟨hm, hn', hl'⟩ := makeDiffTags_eq true s h.base h.norep d more hsg hn ho hl
      let X : Option Str := if (emitted (nonEmpty d)).isEmpty then none else some (emitted (nonEmpty d))
      refine ⟨modifyNode { s with segs := more } m.id (fun p => { p with tail := X }), ?_, ?_, rfl,
        ⟨tok_modify { s with segs := more } ⟨h.tok.nodup, h.tok.fresh, h.tok.root⟩ m.id _ (hgtail X), h.base, h.norep⟩⟩
      · simp only [applyFmt, bind, Except.bind, pure, Except.pure, h1, hm]
        rfl
      · simp only [modifyNode]
        rw [acc_modify (cln accS) _ (fun p => { p with tail := t }) m.id (hgtail X) (fun p => by
          simp only [cln, X, accS_emitted d hn hl t htx.2 hacc]) s.tree, hid]
  case moveNode => exact absurd hst (by simp [Simulated])
  case insertComment => exact absurd hst (by simp [Simulated])
  all_goals
    obtain ⟨s', e1, e2, e3, e4, e5, _, e7⟩ := step_sim qn accS accS_none s h.tok _ (by simp [Structural]) hsu hpn p' hp
    exact ⟨s', e1, e2, e3, ⟨e4, e5 ▸ h.base, e7 ▸ h.norep⟩⟩

/-- the engine assumption along the formatter's run -/
def OracleOK (qn : QName) : FState → List Action → Prop
  | _, [] => True
  | s, a :: rest => OracleStep qn s a ∧ ∀ s', applyFmt qn s a = .ok s' → OracleOK qn s' rest

/-- **Accepting every change gives the patched document** (tree before `finalize`, scripts without moves): if the
patcher accepts the script on the accepted view of the working tree, the formatter's handlers accept it too and the
accepted view of the tree they leave is the patcher's result. -/
theorem run_sim_all (qn : QName) (script : List Action) (s : FState) (h : FOK s)
    (hst : ∀ a ∈ script, Simulated a ∧ PlainNames a ∧ TextsOK a)
    (hsu : SUScript qn ⟨acc (cln accS) s.tree, s.next⟩ script) (hor : OracleOK qn s script) (p' : PState)
    (hp : runUniq qn ⟨acc (cln accS) s.tree, s.next⟩ script = .ok p') :
    ∃ s', runFmt qn s script = .ok s' ∧ acc (cln accS) s'.tree = p'.tree ∧ FOK s' := by
  induction script generalizing s with
  | nil =>
    rw [runShipped_nil] at hp
    injection hp with hp
    subst hp
    exact ⟨s, rfl, rfl, h⟩
  | cons a rest ih =>
    obtain ⟨p1, h1, h2⟩ := Chw.runUniq_cons_inv qn _ p' a rest hp
    obtain ⟨hsa, hsr⟩ := hsu
    obtain ⟨hoa, hor'⟩ := hor
    obtain ⟨ha1, ha2, ha3⟩ := hst a (by simp)
    obtain ⟨s1, e1, e2, e3, e4⟩ := step_sim_all qn s h a ha1 hsa ha2 ha3 hoa p1 h1
    have hp1 : p1 = ⟨acc (cln accS) s1.tree, s1.next⟩ := by
      cases p1
      simp only at e2 e3
      rw [e2, e3]
    obtain ⟨s2, f1, f2, f3⟩ := ih s1 e4 (fun b hb => hst b (by simp [hb]))
      (by rw [← hp1]; exact hsr p1 h1) (hor' s1 e1) (by rw [← hp1]; exact h2)
    refine ⟨s2, ?_, f2, f3⟩
    simp only [runFmt, e1, f1]

/-! ### documents as the formatter receives them -/

mutual
  /-- no `diff:` attribute, no private-use character, no empty-string text -/
  def CleanT : Tree → Prop
    | .node _ p ks => (∀ kv ∈ p.attrs, isDiffKey kv.1 = false) ∧ TextOK p.text ∧ TextOK p.tail ∧ CleanL ks
  def CleanL : List Tree → Prop
    | [] => True
    | t :: ts => CleanT t ∧ CleanL ts
end

theorem stripDiff_clean (as : Attrs) (h : ∀ kv ∈ as, isDiffKey kv.1 = false) : stripDiff as = as := by
  unfold stripDiff
  rw [List.filter_eq_self]
  intro kv hkv
  simp [h kv hkv]

theorem not_ghost_of_clean (p : Payload) (h : ∀ kv ∈ p.attrs, isDiffKey kv.1 = false) :
    attrHas p.attrs DELETE_NAME = false := by
  rw [attrHas_false_iff]
  intro hm
  obtain ⟨kv, hkv, he⟩ := List.mem_map.1 hm
  have := h kv hkv
  rw [he, isDiffKey_delete] at this
  cases this

mutual
  theorem acc_clean (t : Tree) (h : CleanT t) : acc (cln accS) t = t := by
    match t with
    | .node i p ks =>
      simp only [CleanT] at h
      simp only [acc, cln, stripDiff_clean p.attrs h.1, accS_of_textOK p.text h.2.1, accS_of_textOK p.tail h.2.2.1,
        accL_clean ks h.2.2.2]
  theorem accL_clean (ts : List Tree) (h : CleanL ts) : accL (cln accS) ts = ts := by
    match ts with
    | [] => rfl
    | t :: rest =>
      simp only [CleanL] at h
      have hg : isGhost t = false := by
        cases t with
        | node i p ks =>
          simp only [CleanT] at h
          exact not_ghost_of_clean p h.1.1
      simp only [accL, hg, Bool.false_eq_true, if_false, acc_clean t h.1, accL_clean rest h.2]
end

theorem isGhost_of_clean (t : Tree) (h : CleanT t) : isGhost t = false := by
  cases t with
  | node i p ks =>
    simp only [CleanT] at h
    exact not_ghost_of_clean p h.1

end Acc
end XmlDiffModel
